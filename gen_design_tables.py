#!/usr/bin/env python3
"""Regenerates the two generated tables of DESIGN.md (rules per property from evidence/*.json; seeded-change
detection matrix from seeded/*/meta.json) between their markers."""
import json,glob,re,os
def rules_table():
    out=["| prop | rules (instances on this tree; e = exception entries used, k = known findings) |","|---|---|"]
    for i in range(1,21):
        pid="C%02d"%i
        try: d=json.load(open('/verif/evidence/%s.json'%pid))
        except Exception: continue
        cells=[]
        for r in d['coverage']['rules']:
            s="%s(%d"%(r['id'].split('.',1)[1],r['instances'])
            if r.get('exceptions_used'): s+=", e%d"%r['exceptions_used']
            if r.get('known_findings'): s+=", k%d"%r['known_findings']
            cells.append(s+")")
        out.append("| %s | %s |"%(pid," ".join(cells)))
    return "\n".join(out)
def seeded_table():
    out=["| seeded change | what it breaks (needs to manifest) | reported by |","|---|---|---|"]
    n=det=0
    for m in sorted(glob.glob('/verif/seeded/*/meta.json')):
        d=json.load(open(m)); n+=1
        dt=d.get('detection',{})
        if dt.get('detected'): det+=1; rep=", ".join(dt.get('rules',[]))
        elif dt.get('detected') is None: rep="(patch predates a fix: commit; "+dt.get('covered_by','regression covered by a positive control')+")"
        else: rep="**missed** — "+dt.get('why_missed','see 8.6')
        summ=(d.get('summary') or '').replace('|','/').replace('\n',' ')
        out.append("| %s | %s | %s |"%(d['id'],summ[:160]+('…' if len(summ)>160 else ''),rep))
    out.append("")
    out.append("%d seeded changes kept; %d reported by the property's own check on a scratch worktree with the patch applied."%(n,det))
    return "\n".join(out)
s=open('/verif/DESIGN.md').read()
for tag,fn in (("RULES-TABLE",rules_table),("SEEDED-TABLE",seeded_table)):
    b,e="<!-- %s-BEGIN -->"%tag,"<!-- %s-END -->"%tag
    if b in s:
        s=s[:s.index(b)+len(b)]+"\n"+fn()+"\n"+s[s.index(e):]
open('/verif/DESIGN.md','w').write(s)
print("tables regenerated")
