#!/bin/sh
# usage: tools_mutcheck.sh <patch.diff> <property>...   (applies the patch to /repo, runs the checks, reverts)
P=$1; shift; cp /verif/known_findings.json /tmp/vd/
git -C /repo apply "$P" || { echo "patch does not apply"; exit 2; }
for id in "$@"; do
  VERIF_DIR=/tmp/vd /verif/bin/fqverif -property $id -tier quick > /tmp/vd/$id.out 2>&1; rc=$?
  echo "$id rc=$rc"; grep "^  VIOLATION\|^  UNDECIDED" /tmp/vd/$id.out | cut -c1-260 | head -8
done
git -C /repo checkout -- .
