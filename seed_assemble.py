#!/usr/bin/env python3
"""Assemble /verif/seeded/<id>/ from confirmed mutation directories and record which checks detect them.
usage: seed_assemble.py <srcroot> <prefix>   e.g. /tmp/mut r1   (/tmp/mut/<PROP>/<k>/{patch.diff,demo,meta.json} + <srcroot>/confirm/<PROP>_<k>.json)
Detection runs the real checker against a scratch worktree with the patch applied (FQ_REPO), never against /repo."""
import json,os,re,shutil,subprocess,sys,glob
src,prefix=sys.argv[1],sys.argv[2]
wtroot=sys.argv[3] if len(sys.argv)>3 else '/tmp/wt'
ENV=dict(os.environ,GOFLAGS='-mod=mod',GOPROXY='off',GOSUMDB='off',GOTOOLCHAIN='local')
def sh(cmd,cwd=None):
    p=subprocess.run(cmd,shell=True,cwd=cwd,env=ENV,capture_output=True,text=True)
    return p.returncode,p.stdout+p.stderr
head=sh('git -C /repo rev-parse HEAD')[1].strip()
# OVERRIDE: detection notes for slips that a later fix: commit made harmless on HEAD
OVERRIDE={'C03-r4-2':{'detected':None,'covered_by':'harmless on HEAD since fix 754285cc (the position can no longer be past the end of the buffer, so the zero-length fast path before the bytes-left test is behaviour-preserving and no check may report it); confirmed at the commit it was written against, where the seek fix was missing'},
 'C16-r5-2':{'detected':None,'covered_by':'NOT reported, deliberately: the change alters torepr of a msgpack bin value only under a non-default -o bits_format; the property does not quantify over options, under the default the result is the same JSON value, and the unchanged tree reduces the same kind of row (asn1_ber octet/bit string, bson binary/object_id/decimal128) with tovalue, pinned by format/asn1/testdata/test.pem.fqtest: a rule demanding tostring would raise five alarms on the unchanged tree that are not defects'},
 'C17-r3-2':{'detected':None,'covered_by':'harmless on HEAD since fix f569d2cc (exit status stays 5); at its base commit the C17 check reported it under C17.writes _cli_last_expr_error:...:value (recorded value not provably truthy)'}}
os.makedirs('/tmp/vd',exist_ok=True); shutil.copy('/verif/known_findings.json','/tmp/vd/known_findings.json')
for cj in sorted(glob.glob(src+'/confirm/*.json')):
    c=json.load(open(cj))
    if not c.get('confirmed'): 
        print('skip unconfirmed',cj); continue
    ID,k=c['id'],c['k']
    mdir='%s/%s/%s'%(src,ID,k)
    sid='%s-%s-%s'%(ID,prefix,k)
    dst='/verif/seeded/'+sid
    only=[a for a in sys.argv if a.startswith('--only=')]
    if only and sid not in only[0][7:].split(','): continue
    if os.path.exists(dst+'/meta.json') and '--redo' not in sys.argv: 
        continue
    wt='%s/%s'%(wtroot,ID)
    sh('git checkout -q -- . ; git clean -fdq; git checkout -q --detach '+head,cwd=wt)
    pf=mdir+'/patch_head.diff' if os.path.exists(mdir+'/patch_head.diff') else mdir+'/patch.diff'
    rc,_=sh('git apply '+pf,cwd=wt)
    det={'applies_at_head':rc==0}
    if pf.endswith('patch_head.diff'): det['rebased']='patch.diff was written against an earlier commit; patch_head.diff is the same slip re-applied by hand to the current code (the lines were since changed by a fix: commit) and re-confirmed (demo fails with it, passes without, suite ok)'
    if rc==0:
        rc2,out=sh('FQ_REPO=%s VERIF_DIR=/tmp/vd /verif/bin/fqverif -property %s -tier quick'%(wt,ID))
        viol=[l.strip() for l in out.splitlines() if l.startswith('  VIOLATION') or l.startswith('  UNDECIDED')]
        det['check']=ID; det['exit']=rc2
        det['rules']=sorted(set(v.split()[1] for v in viol))
        det['reports']=[v[:300] for v in viol[:4]]
        det['detected']= rc2!=0 and len(viol)>0
    else:
        det['note']='patch was written against an earlier commit and no longer applies: the mutated lines were since changed by a fix: commit; the same regression is covered by a positive control / by reverting that fix commit (see DESIGN.md 8.6)'
        det['detected']=None
    ov=OVERRIDE.get(sid)
    if ov: det.update(ov)
    sh('git checkout -q -- . ; git clean -fdq',cwd=wt)
    os.makedirs(dst,exist_ok=True)
    shutil.copy(mdir+'/patch.diff',dst+'/patch.diff')
    if os.path.exists(mdir+'/patch_head.diff'): shutil.copy(mdir+'/patch_head.diff',dst+'/patch_head.diff')
    if os.path.exists(dst+'/demo'): shutil.rmtree(dst+'/demo')
    shutil.copytree(mdir+'/demo',dst+'/demo')
    m=json.load(open(mdir+'/meta.json'))
    meta={'id':sid,'property':ID,'summary':m.get('summary'),'files_changed':m.get('files_changed'),
          'needs_to_manifest':m.get('needs_to_manifest'),
          'demo_how_to_run':m.get('demo_how_to_run'),
          'author':'independent sub-agent given only the property text and a scratch worktree (round %s)'%prefix,
          'confirmed_by_main_session':{'tree':c['tree'],'demo_on_clean_tree_exit':c['demo_clean_rc'],'full_suite_with_patch':'all ok' if c['suite_fail_lines']=='' else c['suite_fail_lines'],
                                       'demo_with_patch_exit':c['demo_patched_rc'],'demo_with_patch_tail':c['demo_patched_tail'][-200:],
                                       'procedure':'scratch worktree: clean demo (must pass) -> git apply patch -> go build ./... && go test -vet=off -count=1 ./... (must be all ok) -> demo (must fail) -> revert'},
          'detection':det}
    json.dump(meta,open(dst+'/meta.json','w'),indent=1)
    print(sid,'detected' if det['detected'] else det.get('note','MISSED')[:40],det.get('rules'))
