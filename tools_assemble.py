#!/usr/bin/env python3
"""Assemble /verif/seeded/<PROP>-<round>-<k>/ from a change confirmed by tools_confirm.py and record which rules report it.
usage: tools_assemble.py <srcroot> <round> <PROP> <k>     e.g. /tmp/mut7 r7 C05 2
Detection runs the registered checker against a scratch worktree with the patch applied (FQ_REPO), never against /repo."""
import json, os, shutil, subprocess, sys
src, rnd, ID, k = sys.argv[1:5]
ENV = dict(os.environ, GOFLAGS='-mod=mod', GOPROXY='off', GOSUMDB='off', GOTOOLCHAIN='local')
def sh(cmd, cwd=None):
    p = subprocess.run(cmd, shell=True, cwd=cwd, env=ENV, capture_output=True, text=True)
    return p.returncode, p.stdout + p.stderr
cj = '%s/confirm/%s_%s.json' % (src, ID, k)
if not os.path.exists(cj):
    print(ID, k, 'no confirm file'); sys.exit(0)
c = json.load(open(cj))
if not c.get('confirmed'):
    print(ID, k, 'skip: not confirmed:', c.get('why', '')[:120]); sys.exit(0)
mdir = '%s/%s/%s' % (src, ID, k)
sid = '%s-%s-%s' % (ID, rnd, k)
dst = '/verif/seeded/' + sid
head = sh('git -C /repo rev-parse HEAD')[1].strip()
wt = '/tmp/wtasm/%s_%s' % (ID, k)
vd = '/tmp/vdasm/%s_%s' % (ID, k)
os.makedirs(vd, exist_ok=True); shutil.copy('/verif/known_findings.json', vd + '/known_findings.json')
sh('git -C /repo worktree add -q --detach %s %s' % (wt, head))
rc, o = sh('git apply %s/patch.diff' % mdir, cwd=wt)
det = {'applies_at_head': rc == 0}
if rc == 0:
    rc2, out = sh('FQ_REPO=%s VERIF_DIR=%s /verif/bin/fqverif -property %s -tier quick' % (wt, vd, ID))
    viol = [l.strip() for l in out.splitlines() if l.startswith('  VIOLATION') or l.startswith('  UNDECIDED')]
    det.update({'check': ID, 'exit': rc2, 'rules': sorted(set(v.split()[1] for v in viol)), 'reports': [v[:300] for v in viol[:4]], 'detected': rc2 != 0 and len(viol) > 0})
sh('git -C /repo worktree remove --force ' + wt); shutil.rmtree(vd, ignore_errors=True)
os.makedirs(dst, exist_ok=True)
shutil.copy(mdir + '/patch.diff', dst + '/patch.diff')
if os.path.exists(dst + '/demo'): shutil.rmtree(dst + '/demo')
shutil.copytree(mdir + '/demo', dst + '/demo')
m = json.load(open(mdir + '/meta.json'))
meta = {'id': sid, 'property': ID, 'summary': m.get('summary'), 'files_changed': m.get('files_changed'),
        'needs_to_manifest': m.get('needs_to_manifest'), 'demo_how_to_run': m.get('demo_how_to_run'),
        'demo_kind': m.get('demo_kind'), 'demo_pkg_dir': m.get('demo_pkg_dir'), 'demo_run': m.get('demo_run'),
        'author': 'independent sub-agent given only the property text and a scratch worktree (round %s)' % rnd,
        'confirmed_by_main_session': {kk: c.get(kk) for kk in ('tree', 'demo_on_clean_tree_exit', 'full_suite_with_patch', 'demo_with_patch_exit', 'demo_with_patch_tail', 'procedure')},
        'detection': det}
json.dump(meta, open(dst + '/meta.json', 'w'), indent=1)
print(sid, 'detected' if det.get('detected') else 'MISSED', det.get('rules'))
