#!/bin/sh
# usage: tools_refsweep_plan.sh <outdir> <jobs> <planfile>     planfile lines: "<refactor-id> <P1,P2,...>"
# Like tools_refsweep.sh, but runs per refactor only the checks named in the plan (the properties whose anchored
# directories the refactor touches). Every run must be silent. Scratch worktrees under /tmp/wtref, removed at the end.
OUT=$1; J=$2; PLAN=$3
mkdir -p $OUT /tmp/vdref
run_one() {
  id=$1; props=$(echo $2 | tr ',' ' '); slot=$3; wt=/tmp/wtref/$slot
  [ -d $wt ] || git -C /repo worktree add -q --detach $wt HEAD
  git -C $wt checkout -q --detach $(git -C /repo rev-parse HEAD); git -C $wt checkout -q -- .; git -C $wt clean -fdq
  pf=/verif/refactors/$id/patch_head.diff; [ -f $pf ] || pf=/verif/refactors/$id/patch.diff
  git -C $wt apply $pf 2>/dev/null || { echo "$id APPLY-FAILED"; return; }
  for p in $props; do
    mkdir -p /tmp/vdref/$slot; cp /verif/known_findings.json /tmp/vdref/$slot/
    GOMAXPROCS=4 FQ_REPO=$wt VERIF_DIR=/tmp/vdref/$slot nice /verif/bin/fqverif -property $p -tier quick > $OUT/$id.$p.out 2>&1; rc=$?
    [ $rc -ne 0 ] && { echo "$id $p rc=$rc"; grep "^  VIOLATION\|^  UNDECIDED" $OUT/$id.$p.out | cut -c1-300 | head -5; }
  done
  git -C $wt checkout -q -- .; git -C $wt clean -fdq
}
i=0
while read id props; do slot=$((i % J)); i=$((i+1)); echo "$id $props $slot"; done < $PLAN > $OUT/plan.txt
for s in $(seq 0 $((J-1))); do
  ( grep " $s\$" $OUT/plan.txt | while read id props slot; do run_one $id $props $slot; done ) &
done
wait
for s in $(seq 0 $((J-1))); do git -C /repo worktree remove --force /tmp/wtref/$s 2>/dev/null; done
rm -rf /tmp/vdref
echo "refsweep-plan done: $(wc -l < $PLAN) refactors"
