#!/usr/bin/env python3
"""Regenerates MANIFEST.json from the claims table below (kept in one place so it stays valid)."""
import json

NOTE = ("Trusted base: Go type checker, go/ssa, VTA call graph (sound absent reflect/unsafe calls into fq), the gojq parser for bundled *.jq, "
        "the exception tables in the rule sources (one named construct per line with a reason). "
        "Decides structural necessary conditions only; the behaviour itself (values for every input/history/schedule) is not decided.")

CLAIMS = {
 "C13": dict(text="Totality of the Go natives behind every function fq adds, as far as runtime faults have statically visible preconditions: for all Go functions registered into jq and the JQValue methods of fq's value types, and everything they reach by static calls/closures outside the decode subtree, every integer division/modulo, shift by a signed count, make size, Repeat/SetIndent count, number base, constant index into an option string and unchecked type assertion with a non-constant operand has its precondition proved by dominating guards, clamps, intervals or struct-field invariants (lifted to every call site for parameters and captured variables); the field invariants themselves (display options clamped by OptionsFromValue, Binary.unit>=1) are checked at every writer; every explicit panic is classified. Does not decide resource exhaustion, faults inside third-party encoders, or faults whose precondition is not of these kinds (general index/nil).",
             technique="SSA interval analysis + polynomial guard facts, interprocedural lifting of preconditions to call sites, field-invariant writer checks", design="DESIGN.md §3 C13"),
 "C18": dict(text="Decides the absence of process-wide mutable state that two decodes could share or race on, as far as it is visible in the code: no package-level variable of the fq module is written (store, map update, delete, in-place sort/copy, through a mutating parameter or capturing closure; interprocedural summaries) outside package initialisation except under sync.Once, under the owner's own mutex, or in registrars callable only from init; registry group resolution and its in-place sorts run only under the Once and registration refuses afterwards; registered default in-args are plain values; Eval works on an interpreter copy with a fresh EvalInstance; slices aliasing the shared read buffer never escape. Does not decide data-race freedom in general nor determinism of output.",
             technique="SSA ownership analysis: who-may-write package-level variables with interprocedural mutates-through-parameter summaries; who-may-call; escape scan of scratch-buffer aliases", design="DESIGN.md §3 C18"),
 "C01": dict(text="Decides, on every run, structural clauses of the reader plumbing: the io.Seeker contract of every computing SeekBits/Seek per whence arm (polynomial normal form of the stored cursor and returned position), the window clamps and EOF conditions of Section/Limit/Zero/Multi readers and that cursors/limits advance by the bits actually returned, the byte fetch and short-read truncation of IOBitReadSeeker.ReadBitsAt, the read-ahead cache typestate (invalidate after re-positioning, refill bookkeeping, hit window), and that no error of a wrapped reader is dropped in the plumbing packages. Does not decide bit-exactness of Read64/Write64 unaligned arms, readFull stitching or IOReader's carry buffer under arbitrary histories.",
             technique="SSA polynomial normal forms + dominator guards per whence/clamp arm; typestate on cache fields; error-use scan", design="DESIGN.md §3 C01"),
 "C06": dict(text="Static discipline + exact fault classes: DecodeFn only runs inside recoverfn.Run, which swallows exactly recoverable errors; every explicit panic reachable from any of the decode roots has a recoverable type or is a classified exception; no unchecked type assertion in decoder code; no DecodeFn returns an error as its out value; every panicking Sym accessor call is guarded. Decides the panic/recover discipline on every instance in the source, not absence of runtime faults (index/nil/overflow are only covered for the enumerated classes).",
             technique="SSA + VTA reachability from DecodeFn roots; dominator guards; panic-operand typing; exception table", design="DESIGN.md §3 C06"),
}

NA = {}
for i in range(1, 21):
    pid = "C%02d" % i
    if pid not in CLAIMS:
        NA[pid] = "rules for this property are not built yet in this revision (see DESIGN.md §3 for the planned structural clauses)"

m = {
 "version": 1,
 "setup_cmd": "cd /verif/checker && GOFLAGS=-mod=mod GOPROXY=off GOSUMDB=off GOTOOLCHAIN=local GOWORK=off go build -o /verif/bin/fqverif ./cmd/fqverif",
 "hooks": {"guard": "verif", "enable": "none needed: the checks read /repo's plain source (go/packages); no hook commits exist",
           "baseline_off_cmd": "cd /repo && GOFLAGS=-mod=mod GOPROXY=off GOSUMDB=off go test -json -vet=off -count=1 -timeout 25m ./...",
           "source_commits": [], "add_only": True},
 "engines": [{"name": "fqverif", "path": "/verif/checker", "serves_properties": sorted(CLAIMS),
              "kind_free_text": "repository-specific static analyser: go/packages + go/types + go/ssa + VTA call graph, polynomial normal forms, dominator guards, gojq AST model of bundled jq sources"}],
 "checks": [],
 "not_applicable": [{"property_id": k, "reason": v} for k, v in sorted(NA.items())],
 "notes": "All claims are at level 'other': each check decides named structural clauses (necessary conditions) of its property by static analysis on every run; see DESIGN.md. known_findings.json lists genuine defects recorded or fixed.",
}
for pid in sorted(CLAIMS):
    c = CLAIMS[pid]
    m["checks"].append({
        "property_id": pid,
        "quick_cmd": "/verif/check.sh %s quick" % pid,
        "thorough_cmd": "/verif/check.sh %s thorough" % pid,
        "evidence_file": "/verif/evidence/%s.json" % pid,
        "replay_cmd_template": "cat {path}",
        "engine": "fqverif",
        "level_claimed": {"category": "other", "text": c["text"], "design_ref": c["design"]},
        "level_note": NOTE,
        "technique": "static analysis: " + c["technique"],
    })
json.dump(m, open("/verif/MANIFEST.json", "w"), indent=1)
print("claims", len(CLAIMS), "na", len(NA))
