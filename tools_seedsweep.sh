#!/bin/sh
# usage: tools_seedsweep.sh <outdir> <jobs> <property>...
# Applies every seeded change of the given properties (seeded/<id>/patch_head.diff or patch.diff) to a scratch
# worktree of /repo (never to /repo itself) and runs the property's check against it (FQ_REPO): every run must
# report a violation, except the changes whose meta.json records detection.detected = null (harmless on HEAD /
# deliberately outside the claim). Prints the ones that are missed.
OUT=$1; J=$2; shift 2; PROPS="$*"
mkdir -p $OUT
for p in $PROPS; do ls -d /verif/seeded/$p-*/ | xargs -n1 basename; done > $OUT/list.txt
run_one() {
  id=$1; slot=$2; wt=/tmp/wtseed/$slot; p=${id%%-*}
  [ -d $wt ] || git -C /repo worktree add -q --detach $wt HEAD
  git -C $wt checkout -q --detach $(git -C /repo rev-parse HEAD); git -C $wt checkout -q -- .; git -C $wt clean -fdq
  pf=/verif/seeded/$id/patch_head.diff; [ -f $pf ] || pf=/verif/seeded/$id/patch.diff
  git -C $wt apply $pf 2>/dev/null || { echo "$id APPLY-FAILED"; return; }
  mkdir -p /tmp/vdseed/$slot; cp /verif/known_findings.json /tmp/vdseed/$slot/
  FQ_REPO=$wt VERIF_DIR=/tmp/vdseed/$slot /verif/bin/fqverif -property $p -tier quick > $OUT/$id.out 2>&1; rc=$?
  exp=$(python3 -c "import json;print(json.load(open('/verif/seeded/$id/meta.json'))['detection'].get('detected'))")
  if [ "$exp" = "True" ] && [ $rc -eq 0 ]; then echo "$id MISSED (was detected)"; fi
  if [ "$exp" != "True" ] && [ $rc -ne 0 ]; then echo "$id now reported (meta says $exp)"; fi
  git -C $wt checkout -q -- .; git -C $wt clean -fdq
}
i=0
for id in $(cat $OUT/list.txt); do slot=$((i % J)); i=$((i+1)); echo "$id $slot"; done > $OUT/plan.txt
for s in $(seq 0 $((J-1))); do
  ( grep " $s\$" $OUT/plan.txt | while read id slot; do run_one $id $slot; done ) &
done
wait
for s in $(seq 0 $((J-1))); do git -C /repo worktree remove --force /tmp/wtseed/$s 2>/dev/null; done
rm -rf /tmp/vdseed
echo "seedsweep done: $(wc -l < $OUT/list.txt) seeded changes of [$PROPS]"
