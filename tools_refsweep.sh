#!/bin/sh
# usage: tools_refsweep.sh <outdir> <jobs> <property>...
# Applies every behaviour-preserving refactor under /verif/refactors/ to a scratch worktree of /repo (never to /repo itself)
# and runs the given checks against it (FQ_REPO); every run must be silent. Prints the runs that are not.
OUT=$1; J=$2; shift 2; PROPS="$*"
mkdir -p $OUT /tmp/vdref; cp /verif/known_findings.json /tmp/vdref/
ls -d /verif/refactors/*/ | xargs -n1 basename > $OUT/list.txt
run_one() {
  id=$1; slot=$2; wt=/tmp/wtref/$slot
  [ -d $wt ] || git -C /repo worktree add -q --detach $wt HEAD
  git -C $wt checkout -q --detach $(git -C /repo rev-parse HEAD); git -C $wt checkout -q -- .; git -C $wt clean -fdq
  pf=/verif/refactors/$id/patch_head.diff; [ -f $pf ] || pf=/verif/refactors/$id/patch.diff
  git -C $wt apply $pf 2>/dev/null || { echo "$id APPLY-FAILED"; return; }
  for p in $PROPS; do
    mkdir -p /tmp/vdref/$slot; cp /verif/known_findings.json /tmp/vdref/$slot/
    FQ_REPO=$wt VERIF_DIR=/tmp/vdref/$slot /verif/bin/fqverif -property $p -tier quick > $OUT/$id.$p.out 2>&1; rc=$?
    [ $rc -ne 0 ] && { echo "$id $p rc=$rc"; grep "^  VIOLATION\|^  UNDECIDED" $OUT/$id.$p.out | cut -c1-300 | head -5; }
  done
  git -C $wt checkout -q -- .; git -C $wt clean -fdq
}
i=0
for id in $(cat $OUT/list.txt); do
  slot=$((i % J)); i=$((i+1))
  echo "$id $slot"
done > $OUT/plan.txt
for s in $(seq 0 $((J-1))); do
  ( grep " $s\$" $OUT/plan.txt | while read id slot; do run_one $id $slot; done ) &
done
wait
echo "refsweep done: $(wc -l < $OUT/list.txt) refactors x [$PROPS]"
