#!/bin/sh
# usage: check.sh <property> <quick|thorough>
# Builds the checker if needed (offline) and decides the property on /repo's current working tree.
set -u
DIR=$(cd "$(dirname "$0")" && pwd)
export GOFLAGS=-mod=mod GOPROXY=off GOSUMDB=off GOTOOLCHAIN=local GOWORK=off
BIN="$DIR/bin/fqverif"
if [ ! -x "$BIN" ] || [ -n "$(find "$DIR/checker" -name '*.go' -newer "$BIN" 2>/dev/null | head -1)" ]; then
  mkdir -p "$DIR/bin"
  (cd "$DIR/checker" && go build -o "$BIN" ./cmd/fqverif) || { echo "VIOLATION property=$1 replay=$DIR/evidence/$1.violations.json"; echo "checker build failed"; exit 1; }
fi
VERIF_DIR="$DIR" exec "$BIN" -property "$1" -tier "${2:-quick}"
