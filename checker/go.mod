module fqverif

go 1.23.0

require (
	github.com/wader/gojq v0.12.1-0.20250208151254-0aa7b87b2c2b
	golang.org/x/tools v0.29.0
)

require (
	github.com/itchyny/timefmt-go v0.1.6 // indirect
	golang.org/x/mod v0.22.0 // indirect
	golang.org/x/sync v0.10.0 // indirect
)
