package rules

import (
	"fmt"
	"go/constant"
	"go/token"
	"go/types"
	"strings"

	"fqverif/fw"

	"golang.org/x/tools/go/ssa"
)

// ---------------------------------------------------------------------------
// C06.sentinel: a "not found" sentinel never reaches an index or slice bound
//
// Rule template: an integer variable that is -1 on some incoming path ("not found yet": phi with a
// constant -1 edge) and from which, by subtraction / negative offset / copy only, an index or a slice
// bound is computed, is tested against the sentinel first: at the first step of every such chain the
// dominating guards exclude -1. The recover machinery (internal/recoverfn) is in scope: a fault while
// formatting a recovered decode error ends fq exactly like a fault in the decoder.

func c06Sentinel(r *fw.Run, p *fw.Program, reach map[*ssa.Function]bool) {
	ru := r.Rule("C06.sentinel", "an integer that is the sentinel -1 on some path (phi with a constant -1 edge) flows into an index / slice bound / make size (directly or through subtraction, non-positive offsets and copies) only where the dominating guards exclude the sentinel; decoder packages (format/..., pkg/decode, pkg/scalar, pkg/bitio, internal/bitiox) plus the recover machinery internal/recoverfn, which formats the recovered decode error that formats a recovered decode error", 1)
	for _, fn := range p.FqFunctions() {
		if pr := pkgRel(fn); (!c06DecodePkg(pr) && pr != "internal/recoverfn") || !linkedPackages(p)[fw.FnPkgPath(fn)] {
			continue
		}
		var env *fw.PolyEnv
		ord := 0
		done := map[[2]any]bool{}
		for _, b := range fn.Blocks {
			for _, ins := range b.Instrs {
				phi, ok := ins.(*ssa.Phi)
				if !ok {
					break
				}
				if bt, ok := phi.Type().Underlying().(*types.Basic); !ok || bt.Info()&types.IsInteger == 0 || bt.Info()&types.IsUnsigned != 0 {
					continue
				}
				hasSentinel := false
				for _, e := range phi.Edges {
					if c, ok := e.(*ssa.Const); ok && c.Value != nil && c.Value.Kind() == constant.Int {
						if v, ok := constant.Int64Val(c.Value); ok && v == -1 {
							hasSentinel = true
						}
					}
				}
				if !hasSentinel || phi.Referrers() == nil {
					continue
				}
				if env == nil {
					env = fw.NewPolyEnv(fn)
				}
				// carriers: the phi and the phis it is copied into (loop-carried / joined copies)
				carriers := []*ssa.Phi{phi}
				inC := map[*ssa.Phi]bool{phi: true}
				for i := 0; i < len(carriers); i++ {
					if refs := carriers[i].Referrers(); refs != nil {
						for _, ref := range *refs {
							if ph2, ok := ref.(*ssa.Phi); ok && !inC[ph2] {
								inC[ph2] = true
								carriers = append(carriers, ph2)
							}
						}
					}
				}
				for _, c := range carriers {
					if c.Referrers() == nil {
						continue
					}
					for _, ref := range *c.Referrers() {
						if _, isPhi := ref.(*ssa.Phi); isPhi || done[[2]any{ref, c}] {
							continue
						}
						done[[2]any{ref, c}] = true
						sink := c06SentinelReaches(ref, c, map[ssa.Instruction]bool{})
						if sink == "" {
							continue
						}
						cp := env.Of(c)
						excluded := false
						for _, f := range env.Facts(ref.Block()) {
							if f.Implies(fw.Cmp{P: cp, Rel: fw.GE}) || f.Implies(fw.Cmp{P: cp.Add(fw.PConst(1)), Rel: fw.NE}) {
								excluded = true
							}
						}
						ord++
						key := fmt.Sprintf("%s|%s#%d", fw.ShortFn(fn), c06PhiName(phi), ord)
						ru.Check(excluded, key, p.Rel(ref.Pos()), "sentinel excluded by a dominating test", "a variable that may still hold the sentinel -1 is used for "+sink+" without a dominating test excluding -1 (slice bounds / index out of range)")
					}
				}
			}
		}
		// the same for the "not found" result of bytes/strings Index*/LastIndex*
		cord := map[string]int{}
		for _, ci := range fw.CallsIn(fn) {
			call, ok := ci.(*ssa.Call)
			if !ok || call.Common().StaticCallee() == nil || !c06IsIndexFn(call.Common().StaticCallee()) || call.Referrers() == nil {
				continue
			}
			name := call.Common().StaticCallee().Pkg.Pkg.Name() + "." + call.Common().StaticCallee().Name()
			for _, ref := range *call.Referrers() {
				sink := c06SentinelReaches(ref, call, map[ssa.Instruction]bool{})
				if sink == "" {
					continue
				}
				if env == nil {
					env = fw.NewPolyEnv(fn)
				}
				cp := env.Of(call)
				excluded := false
				for _, f := range env.Facts(ref.Block()) {
					if f.Implies(fw.Cmp{P: cp, Rel: fw.GE}) || f.Implies(fw.Cmp{P: cp.Add(fw.PConst(1)), Rel: fw.NE}) {
						excluded = true
					}
				}
				cord[name]++
				key := fmt.Sprintf("%s|%s#%d", fw.ShortFn(fn), name, cord[name])
				ru.Check(excluded, key, p.Rel(ref.Pos()), "not-found result excluded by a dominating test", "the result of "+name+" (-1 when not found) is used for "+sink+" without a dominating test excluding -1 (slice bounds / index out of range)")
			}
		}
	}
}

func c06PhiName(phi *ssa.Phi) string {
	if phi.Comment != "" {
		return phi.Comment
	}
	return "phi"
}

// c06SentinelReaches: does the use `ins` of tainted value v lead, by sentinel-preserving steps, to an
// index/slice bound/make size? Returns a description of the sink or "".
func c06SentinelReaches(ins ssa.Instruction, v ssa.Value, seen map[ssa.Instruction]bool) string {
	if seen[ins] {
		return ""
	}
	seen[ins] = true
	next := func(nv ssa.Value) string {
		refs := nv.Referrers()
		if refs == nil {
			return ""
		}
		for _, r := range *refs {
			if s := c06SentinelReaches(r, nv, seen); s != "" {
				return s
			}
		}
		return ""
	}
	switch x := ins.(type) {
	case *ssa.IndexAddr:
		if x.Index == v {
			return "an index"
		}
	case *ssa.Index:
		if x.Index == v {
			return "an index"
		}
	case *ssa.Slice:
		if x.Low == v || x.High == v || x.Max == v {
			return "a slice bound"
		}
	case *ssa.MakeSlice:
		if x.Len == v || x.Cap == v {
			return "a make size"
		}
	case *ssa.BinOp:
		switch x.Op {
		case token.SUB:
			if x.X == v {
				if c, ok := x.Y.(*ssa.Const); ok && c.Value != nil {
					if k, ok := constant.Int64Val(c.Value); ok && k < 0 {
						return "" // v - (-k): moves away from the sentinel
					}
				}
				return next(x)
			}
		case token.ADD:
			other := x.Y
			if x.Y == v {
				other = x.X
			}
			if c, ok := other.(*ssa.Const); ok && c.Value != nil {
				if k, ok := constant.Int64Val(c.Value); ok && k <= 0 {
					return next(x)
				}
			}
		}
	case *ssa.Phi:
		return next(x)
	case *ssa.Convert:
		if bt, ok := x.Type().Underlying().(*types.Basic); ok && bt.Info()&types.IsInteger != 0 {
			return next(x)
		}
	case *ssa.ChangeType:
		return next(x)
	}
	return ""
}

func c06DecodePkg(pr string) bool {
	return strings.HasPrefix(pr, "format") || pr == "pkg/decode" || pr == "pkg/scalar" || pr == "pkg/bitio" || pr == "internal/bitiox"
}

// ---------------------------------------------------------------------------
// C06.wrapguard: a size guard in the decode API does not compare a product that can wrap
//
// Rule template: in pkg/decode / pkg/bitio / internal/bitiox (where sizes supplied by decoders are
// validated before allocation or reading), a branch condition `A rel B` whose operand is k*X or X<<s
// (k, s constant) is only a valid bound on X if the product cannot overflow: X must have a proved
// upper bound <= MaxInt64/k at the branch. Otherwise a crafted 64-bit length wraps to a small
// number, the guard passes and the allocation / read behind it faults.

func c06WrapGuard(r *fw.Run, p *fw.Program) {
	ru := r.Rule("C06.wrapguard", "in the decode API layer (pkg/decode, pkg/bitio, internal/bitiox) a branch condition that compares a product k*X / X<<s of a non-constant X proves first that the product cannot overflow (X <= MaxInt64/k): a wrapped size guard lets a crafted 64-bit length through to make / read", 1)
	for _, fn := range p.FqFunctions() {
		pr := pkgRel(fn)
		if pr != "pkg/decode" && pr != "pkg/bitio" && pr != "internal/bitiox" {
			continue
		}
		var env *fw.IntervalEnv
		ord := 0
		for _, b := range fn.Blocks {
			if len(b.Instrs) == 0 {
				continue
			}
			iff, ok := b.Instrs[len(b.Instrs)-1].(*ssa.If)
			if !ok {
				continue
			}
			cmp, ok := iff.Cond.(*ssa.BinOp)
			if !ok {
				continue
			}
			switch cmp.Op {
			case token.LSS, token.LEQ, token.GTR, token.GEQ:
			default:
				continue
			}
			for _, side := range []ssa.Value{cmp.X, cmp.Y} {
				c06EachProduct(side, 0, func(prod *ssa.BinOp, x ssa.Value, k int64) {
					if env == nil {
						env = newC13Env(fn)
					}
					ord++
					key := fmt.Sprintf("%s|guard#%d", fw.ShortFn(fn), ord)
					iv := env.At(x, b)
					limit := int64(1<<63-1) / k
					okB := !iv.HiInf && iv.Hi <= limit && (!iv.LoInf && iv.Lo >= -limit)
					if !okB {
						// a narrower source value widened to 64 bit: bounded by its type
						if src := c06WidenedFrom(x); src > 0 && src < 63 && k <= int64(1)<<(62-src) {
							okB = true
						}
					}
					if !okB && k <= 1<<30 {
						// lengths of existing memory, or a parameter bounded (<= 2^32) at every call site
						okB, _ = provedOrLifted(p, fn, env, x, b, needBounded, 0)
					}
					ru.Check(okB, key, p.Rel(prod.Pos()), "factor bounded: the product cannot wrap", fmt.Sprintf("size guard compares %d * X where X has no proved bound <= MaxInt64/%d: for a crafted 64-bit X the product wraps, the guard passes and the code behind it allocates or reads with the huge X", k, k))
				})
			}
		}
	}
}

func sizeofInt(t types.Type) int {
	b, ok := t.Underlying().(*types.Basic)
	if !ok {
		return 0
	}
	switch b.Kind() {
	case types.Int8, types.Uint8:
		return 8
	case types.Int16, types.Uint16:
		return 16
	case types.Int32, types.Uint32:
		return 32
	case types.Int, types.Int64, types.Uint, types.Uint64, types.Uintptr:
		return 64
	}
	return 0
}

// c06WidenedFrom: x is a conversion chain from an integer of fewer bits; returns those bits (0 if none).
func c06WidenedFrom(x ssa.Value) int {
	best := 0
	for {
		c, ok := x.(*ssa.Convert)
		if !ok {
			return best
		}
		if s := sizeofInt(c.X.Type()); s > 0 && s < 64 {
			if best == 0 || s < best {
				best = s
			}
		}
		x = c.X
	}
}

// c06EachProduct walks the arithmetic of a comparison operand and reports k*X and X<<s with constant k>1.
func c06EachProduct(v ssa.Value, depth int, f func(prod *ssa.BinOp, x ssa.Value, k int64)) {
	if depth > 4 {
		return
	}
	switch x := v.(type) {
	case *ssa.Convert:
		c06EachProduct(x.X, depth+1, f)
	case *ssa.BinOp:
		switch x.Op {
		case token.MUL:
			for _, pair := range [][2]ssa.Value{{x.X, x.Y}, {x.Y, x.X}} {
				if c, ok := pair[1].(*ssa.Const); ok && c.Value != nil {
					if k, ok := constant.Int64Val(constant.ToInt(c.Value)); ok && (k > 1 || k < -1) {
						if k < 0 {
							k = -k
						}
						if _, isC := pair[0].(*ssa.Const); !isC {
							f(x, pair[0], k)
						}
						return
					}
				}
			}
		case token.SHL:
			if c, ok := x.Y.(*ssa.Const); ok && c.Value != nil {
				if s, ok := constant.Int64Val(constant.ToInt(c.Value)); ok && s > 0 && s < 62 {
					if _, isC := x.X.(*ssa.Const); !isC {
						f(x, x.X, int64(1)<<uint(s))
					}
				}
			}
		case token.ADD, token.SUB:
			c06EachProduct(x.X, depth+1, f)
			c06EachProduct(x.Y, depth+1, f)
		}
	}
}

// ---------------------------------------------------------------------------
// C06.forceeq: a value that is only rejected through d.Errorf keeps its rejected value under force
//
// Rule template: `if x == K { d.Errorf(...) }` (an arm that only reports and falls through): with
// -o force=true Errorf returns, so x == K continues. Every index / slice bound in the same top-level
// decoder function (its closures included, x may be a captured local) whose expression is linear in x
// is evaluated at x = K: the result must be >= 0 (and below a constant array length), or the site must
// be protected by a real (no-return) guard. Otherwise the crafted input that selects K faults under force.

func c06ForceEq(r *fw.Run, p *fw.Program) {
	ru := r.Rule("C06.forceeq", "where a decoder rejects a value only by `if x == K { d.Errorf }` (Errorf returns under force), no index or slice bound in the same decoder function (closures included) that is linear in x evaluates out of range at x = K without a real guard", 3)
	errorf := p.Fn("(*pkg/decode.D).Errorf")
	if errorf == nil {
		ru.Undecided("anchor", "", "(*decode.D).Errorf not found")
		return
	}
	// root cell of a value: the local variable (Alloc) it is loaded from, through closure captures
	var rootCell func(fn *ssa.Function, v ssa.Value, depth int) ssa.Value
	rootCell = func(fn *ssa.Function, v ssa.Value, depth int) ssa.Value {
		if depth > 6 {
			return nil
		}
		switch x := v.(type) {
		case *ssa.Alloc:
			return x
		case *ssa.FreeVar:
			vals, _ := freeVarBindings(fn, x)
			if len(vals) == 1 && fn.Parent() != nil {
				return rootCell(fn.Parent(), vals[0], depth+1)
			}
		}
		return nil
	}
	loadCell := func(fn *ssa.Function, v ssa.Value) ssa.Value {
		for {
			switch x := v.(type) {
			case *ssa.Convert:
				v = x.X
				continue
			case *ssa.ChangeType:
				v = x.X
				continue
			case *ssa.UnOp:
				if x.Op == token.MUL {
					return rootCell(fn, x.X, 0)
				}
			}
			return nil
		}
	}
	for _, fn := range p.FqFunctions() {
		if !strings.HasPrefix(pkgRel(fn), "format") {
			continue
		}
		for _, b := range fn.Blocks {
			if len(b.Instrs) == 0 {
				continue
			}
			ifi, ok := b.Instrs[len(b.Instrs)-1].(*ssa.If)
			if !ok {
				continue
			}
			bo, ok := ifi.Cond.(*ssa.BinOp)
			if !ok || (bo.Op != token.EQL && bo.Op != token.NEQ) {
				continue
			}
			var tv ssa.Value
			var kc *ssa.Const
			if c, ok := bo.Y.(*ssa.Const); ok {
				tv, kc = bo.X, c
			} else if c, ok := bo.X.(*ssa.Const); ok {
				tv, kc = bo.Y, c
			}
			if kc == nil || kc.Value == nil || kc.Value.Kind() != constant.Int {
				continue
			}
			K, exact := constant.Int64Val(kc.Value)
			if !exact {
				continue
			}
			armIdx := 0
			if bo.Op == token.NEQ {
				armIdx = 1
			}
			arm := b.Succs[armIdx]
			if len(arm.Preds) != 1 || !armIsErrorfOnly(arm, errorf) {
				continue
			}
			cell := loadCell(fn, tv)
			key0 := fmt.Sprintf("%s|%s==%d", fw.ShortFn(fn), c06ValName(tv), K)
			nSites := 0
			bad := ""
			badPos := ""
			top := fw.Top(fn)
			for _, sf := range fw.WithClosures(top) {
				var env *fw.PolyEnv
				fw.EachInstr(sf, func(ins ssa.Instruction) {
					var idxs []ssa.Value
					var alen int64 = -1
					switch x := ins.(type) {
					case *ssa.IndexAddr:
						idxs = []ssa.Value{x.Index}
						alen = c06ArrayLen(x.X.Type())
					case *ssa.Index:
						if _, isMap := x.X.Type().Underlying().(*types.Map); isMap {
							return
						}
						idxs = []ssa.Value{x.Index}
						alen = c06ArrayLen(x.X.Type())
					case *ssa.Slice:
						idxs = []ssa.Value{x.Low, x.High}
					default:
						return
					}
					for _, idx := range idxs {
						if idx == nil {
							continue
						}
						if _, isC := idx.(*ssa.Const); isC {
							continue
						}
						// is idx a function of the tested variable only?
						srcs := map[ssa.Value]bool{}
						valueSources(idx, srcs, 0)
						uses := false
						others := false
						for s := range srcs {
							switch y := s.(type) {
							case *ssa.Const, *ssa.BinOp, *ssa.Convert, *ssa.ChangeType, *ssa.Phi:
								_ = y
							case *ssa.UnOp:
								if y.Op == token.MUL {
									continue // its address is in srcs too
								}
								others = true
							default:
								if cell != nil && rootCell(sf, s, 0) == cell {
									uses = true
								} else if cell == nil && s == tv && sf == fn {
									uses = true
								} else {
									others = true
								}
							}
						}
						if !uses || others {
							continue
						}
						if sf == fn && cell == nil && !b.Dominates(ins.Block()) {
							continue
						}
						if env == nil {
							env = fw.NewPolyEnv(sf)
						}
						ip := fw.StripVersions(env.Of(idx))
						atoms := ip.Atoms()
						if len(atoms) != 1 || !c06Linear(ip, atoms[0]) {
							continue
						}
						nSites++
						val := ip.Coef(atoms[0])*K + ip.Const()
						if val >= 0 && (alen < 0 || val < alen) {
							continue
						}
						// a real guard at the site?
						if env.Proves(ins.Block(), fw.Cmp{P: env.Of(idx), Rel: fw.GE}) && (alen < 0 || env.Proves(ins.Block(), fw.Cmp{P: env.Of(idx).Sub(fw.PConst(alen)), Rel: fw.LT})) {
							continue
						}
						if bad == "" {
							bad = fmt.Sprintf("index/bound %s evaluates to %d at the rejected value %d", ip.String(), val, K)
							badPos = p.Rel(ins.Pos())
						}
					}
				})
			}
			if bad != "" {
				ru.Fail(key0, badPos, bad+": the value is only rejected through d.Errorf ("+p.Rel(ifi.Pos())+"), which returns under -o force=true, so the crafted input reaches this site and fq dies with an index-out-of-range panic; reject with d.Fatalf or guard the use")
			} else {
				ru.Ok(key0, p.Rel(ifi.Pos()), fmt.Sprintf("%d index/bound sites linear in the tested value stay in range at the rejected value", nSites))
			}
		}
	}
}

func c06ValName(v ssa.Value) string {
	for {
		switch x := v.(type) {
		case *ssa.Convert:
			v = x.X
			continue
		case *ssa.UnOp:
			if x.Op == token.MUL {
				switch a := x.X.(type) {
				case *ssa.Alloc:
					return a.Comment
				case *ssa.FreeVar:
					return a.Name()
				}
			}
		}
		if v.Name() != "" && !strings.HasPrefix(v.Name(), "t") {
			return v.Name()
		}
		return "value"
	}
}

func c06ArrayLen(t types.Type) int64 {
	u := t.Underlying()
	if pt, ok := u.(*types.Pointer); ok {
		u = pt.Elem().Underlying()
	}
	if at, ok := u.(*types.Array); ok {
		return at.Len()
	}
	return -1
}

// c06Linear: the polynomial is c*atom + d (no higher-degree monomials).
func c06Linear(p *fw.Poly, atom string) bool {
	q := p.Sub(fw.PAtom(atom).MulC(p.Coef(atom)))
	_, isC := q.IsConst()
	return isC
}

// panicExceptionChecks: mechanised preconditions of entries of the C06.panic exception table. The entry is
// only honoured while the check returns "".
var panicExceptionChecks = map[string]func(p *fw.Program, pn *ssa.Panic) string{
	"format/riff.aviParseChunkID|string|unreachable": c06AtoiDigitsOnly,
}

// c06AtoiDigitsOnly: the panic sits on the error arm of strconv.Atoi(s); every value s can take is a slice that a
// dominating call of a local predicate accepted, and that predicate returns true only when every rune is an
// ASCII digit: it calls nothing and compares the ranged rune with the constants '0' and '9'. (A two-character
// ASCII digit string always parses.)
func c06AtoiDigitsOnly(p *fw.Program, pn *ssa.Panic) string {
	fn := pn.Parent()
	var atoi *ssa.Call
	for _, c := range fw.CallsIn(fn) {
		if cal := c.Common().StaticCallee(); cal != nil && cal.String() == "strconv.Atoi" {
			if call, ok := c.(*ssa.Call); ok {
				atoi = call
			}
		}
	}
	if atoi == nil {
		return "no strconv.Atoi call in the function"
	}
	// the predicate: closures of fn called with a string, returning bool
	var preds []*ssa.Function
	for _, c := range fw.CallsIn(fn) {
		for _, cal := range resolveLocalCallees(c, fn) {
			if cal.Parent() == fn && cal.Signature.Results().Len() == 1 && types.Identical(cal.Signature.Results().At(0).Type(), types.Typ[types.Bool]) {
				preds = append(preds, cal)
			}
		}
	}
	if len(preds) == 0 {
		return "no local digit predicate is called"
	}
	for _, pr := range preds {
		has0, has9 := false, false
		bad := ""
		fw.EachInstr(pr, func(ins ssa.Instruction) {
			switch x := ins.(type) {
			case ssa.CallInstruction:
				if _, isB := x.Common().Value.(*ssa.Builtin); !isB {
					bad = "the digit predicate calls " + fw.CalleeName(x) + " (must be a plain ASCII range test)"
				}
			case *ssa.BinOp:
				for _, o := range []ssa.Value{x.X, x.Y} {
					if c, ok := o.(*ssa.Const); ok && c.Value != nil && c.Value.Kind() == constant.Int {
						if v, ok := constant.Int64Val(c.Value); ok {
							if v == '0' && (x.Op == token.GEQ || x.Op == token.LSS || x.Op == token.LEQ || x.Op == token.GTR) {
								has0 = true
							}
							if v == '9' && (x.Op == token.GEQ || x.Op == token.LSS || x.Op == token.LEQ || x.Op == token.GTR) {
								has9 = true
							}
						}
					}
				}
			}
		})
		if bad != "" {
			return bad
		}
		if !has0 || !has9 {
			return "the digit predicate does not compare each rune with '0' and '9'"
		}
	}
	return ""
}

// ---------------------------------------------------------------------------
// C06.typednil: no nil pointer is handed out inside a non-nil interface
//
// A nil *T boxed into an interface is != nil: callers that test the interface ("if br != nil") go on and
// dereference it. Rule: in the decode API and decoder packages, a value converted to an interface that is
// returned, or passed on as an argument, is never a pointer that is the nil constant on some path (constant nil,
// a phi with a nil edge, or a local pointer variable whose only other stores are on other paths).

func c06TypedNil(r *fw.Run, p *fw.Program) {
	ru := r.Rule("C06.typednil", "in pkg/decode, pkg/bitio, internal/bitiox and the decoders, a pointer converted to an interface result is never the nil constant on some path (a typed nil inside an interface passes the caller's `!= nil` test and is dereferenced)", 50)
	var mayNil func(v ssa.Value, seen map[ssa.Value]bool) bool
	mayNil = func(v ssa.Value, seen map[ssa.Value]bool) bool {
		if seen[v] {
			return false
		}
		seen[v] = true
		switch x := v.(type) {
		case *ssa.Const:
			return x.IsNil()
		case *ssa.Phi:
			for _, e := range x.Edges {
				if mayNil(e, seen) {
					return true
				}
			}
		case *ssa.UnOp:
			if x.Op == token.MUL {
				if al, ok := x.X.(*ssa.Alloc); ok && al.Referrers() != nil {
					// spilled local: zero value unless every path stores first; flag when some store is nil or there is
					// a path without a store (conservatively: no store dominates the load)
					dominated := false
					for _, rf := range *al.Referrers() {
						if st, ok := rf.(*ssa.Store); ok && st.Addr == ssa.Value(al) {
							if mayNil(st.Val, seen) {
								return true
							}
							if precedesOnAllPaths(st, x) {
								dominated = true
							}
						}
					}
					return !dominated
				}
			}
		}
		return false
	}
	for _, fn := range p.FqFunctions() {
		pr := pkgRel(fn)
		if !c06DecodePkg(pr) {
			continue
		}
		ord := 0
		fw.EachInstr(fn, func(ins ssa.Instruction) {
			ret, ok := ins.(*ssa.Return)
			if !ok {
				return
			}
			for _, res := range ret.Results {
				mi, ok := res.(*ssa.MakeInterface)
				if !ok {
					if phi, isPhi := res.(*ssa.Phi); isPhi {
						for _, e := range phi.Edges {
							if m2, ok := e.(*ssa.MakeInterface); ok {
								mi = m2
								if _, isPtr := mi.X.Type().Underlying().(*types.Pointer); isPtr && mayNil(mi.X, map[ssa.Value]bool{}) {
									break
								}
							}
						}
					}
					if mi == nil {
						continue
					}
				}
				if _, isPtr := mi.X.Type().Underlying().(*types.Pointer); !isPtr {
					continue
				}
				ord++
				key := fmt.Sprintf("%s|return#%d", fw.ShortFn(fn), ord)
				ru.Check(!mayNil(mi.X, map[ssa.Value]bool{}), key, p.Rel(ret.Pos()), "boxed pointer is never the nil constant", "returns a "+shortType(mi.X.Type())+" that is nil on some path boxed into "+shortType(mi.Type())+": the interface is non-nil, a caller testing `!= nil` dereferences the nil pointer")
			}
		})
	}
}
