package rules

import (
	"fmt"
	"go/constant"
	"go/token"
	"go/types"
	"strings"
	
	"fqverif/fw"

	"golang.org/x/tools/go/ssa"
)

// ---------------------------------------------------------------------------
// C06.sentinel: a "not found" sentinel never reaches an index or slice bound
//
// Rule template: an integer variable that is -1 on some incoming path ("not found yet": phi with a
// constant -1 edge) and from which, by subtraction / negative offset / copy only, an index or a slice
// bound is computed, is tested against the sentinel first: at the first step of every such chain the
// dominating guards exclude -1. The recover machinery (internal/recoverfn) is in scope: a fault while
// formatting a recovered decode error ends fq exactly like a fault in the decoder.

func c06Sentinel(r *fw.Run, p *fw.Program, reach map[*ssa.Function]bool) {
	ru := r.Rule("C06.sentinel", "an integer that is the sentinel -1 on some path (phi with a constant -1 edge) flows into an index / slice bound / make size (directly or through subtraction, non-positive offsets and copies) only where the dominating guards exclude the sentinel; decoder packages (format/..., pkg/decode, pkg/scalar, pkg/bitio, internal/bitiox) plus the recover machinery internal/recoverfn, which formats the recovered decode error that formats a recovered decode error", 1)
	for _, fn := range p.FqFunctions() {
		if pr := pkgRel(fn); !c06DecodePkg(pr) && pr != "internal/recoverfn" {
			continue
		}
		var env *fw.PolyEnv
		ord := 0
		done := map[[2]any]bool{}
		for _, b := range fn.Blocks {
			for _, ins := range b.Instrs {
				phi, ok := ins.(*ssa.Phi)
				if !ok {
					break
				}
				if bt, ok := phi.Type().Underlying().(*types.Basic); !ok || bt.Info()&types.IsInteger == 0 || bt.Info()&types.IsUnsigned != 0 {
					continue
				}
				hasSentinel := false
				for _, e := range phi.Edges {
					if c, ok := e.(*ssa.Const); ok && c.Value != nil && c.Value.Kind() == constant.Int {
						if v, ok := constant.Int64Val(c.Value); ok && v == -1 {
							hasSentinel = true
						}
					}
				}
				if !hasSentinel || phi.Referrers() == nil {
					continue
				}
				if env == nil {
					env = fw.NewPolyEnv(fn)
				}
				// carriers: the phi and the phis it is copied into (loop-carried / joined copies)
				carriers := []*ssa.Phi{phi}
				inC := map[*ssa.Phi]bool{phi: true}
				for i := 0; i < len(carriers); i++ {
					if refs := carriers[i].Referrers(); refs != nil {
						for _, ref := range *refs {
							if ph2, ok := ref.(*ssa.Phi); ok && !inC[ph2] {
								inC[ph2] = true
								carriers = append(carriers, ph2)
							}
						}
					}
				}
				for _, c := range carriers {
					if c.Referrers() == nil {
						continue
					}
					for _, ref := range *c.Referrers() {
						if _, isPhi := ref.(*ssa.Phi); isPhi || done[[2]any{ref, c}] {
							continue
						}
						done[[2]any{ref, c}] = true
						sink := c06SentinelReaches(ref, c, map[ssa.Instruction]bool{})
						if sink == "" {
							continue
						}
						cp := env.Of(c)
						excluded := false
						for _, f := range env.Facts(ref.Block()) {
							if f.Implies(fw.Cmp{P: cp, Rel: fw.GE}) || f.Implies(fw.Cmp{P: cp.Add(fw.PConst(1)), Rel: fw.NE}) {
								excluded = true
							}
						}
						ord++
						key := fmt.Sprintf("%s|%s#%d", fw.ShortFn(fn), c06PhiName(phi), ord)
						ru.Check(excluded, key, p.Rel(ref.Pos()), "sentinel excluded by a dominating test", "a variable that may still hold the sentinel -1 is used for "+sink+" without a dominating test excluding -1 (slice bounds / index out of range)")
					}
				}
			}
		}
	}
}

func c06PhiName(phi *ssa.Phi) string {
	if phi.Comment != "" {
		return phi.Comment
	}
	return "phi"
}

// c06SentinelReaches: does the use `ins` of tainted value v lead, by sentinel-preserving steps, to an
// index/slice bound/make size? Returns a description of the sink or "".
func c06SentinelReaches(ins ssa.Instruction, v ssa.Value, seen map[ssa.Instruction]bool) string {
	if seen[ins] {
		return ""
	}
	seen[ins] = true
	next := func(nv ssa.Value) string {
		refs := nv.Referrers()
		if refs == nil {
			return ""
		}
		for _, r := range *refs {
			if s := c06SentinelReaches(r, nv, seen); s != "" {
				return s
			}
		}
		return ""
	}
	switch x := ins.(type) {
	case *ssa.IndexAddr:
		if x.Index == v {
			return "an index"
		}
	case *ssa.Index:
		if x.Index == v {
			return "an index"
		}
	case *ssa.Slice:
		if x.Low == v || x.High == v || x.Max == v {
			return "a slice bound"
		}
	case *ssa.MakeSlice:
		if x.Len == v || x.Cap == v {
			return "a make size"
		}
	case *ssa.BinOp:
		switch x.Op {
		case token.SUB:
			if x.X == v {
				if c, ok := x.Y.(*ssa.Const); ok && c.Value != nil {
					if k, ok := constant.Int64Val(c.Value); ok && k < 0 {
						return "" // v - (-k): moves away from the sentinel
					}
				}
				return next(x)
			}
		case token.ADD:
			other := x.Y
			if x.Y == v {
				other = x.X
			}
			if c, ok := other.(*ssa.Const); ok && c.Value != nil {
				if k, ok := constant.Int64Val(c.Value); ok && k <= 0 {
					return next(x)
				}
			}
		}
	case *ssa.Phi:
		return next(x)
	case *ssa.Convert:
		if bt, ok := x.Type().Underlying().(*types.Basic); ok && bt.Info()&types.IsInteger != 0 {
			return next(x)
		}
	case *ssa.ChangeType:
		return next(x)
	}
	return ""
}

func c06DecodePkg(pr string) bool {
	return strings.HasPrefix(pr, "format") || pr == "pkg/decode" || pr == "pkg/scalar" || pr == "pkg/bitio" || pr == "internal/bitiox"
}
