package rules

import (
	"strings"

	"golang.org/x/tools/go/ssa"

	"fqverif/fw"
)

// ---------------------------------------------------------------------------
// C18.buf, second clause: the scratch slice is dead before the next read
//
// Every read helper of decode.D that goes through SharedReadBuf overwrites the same bytes. A slice obtained
// from SharedReadBuf/TryBits/Bits must therefore not be read after another such helper ran: the bytes then
// belong to the later read (within one decode: wrong values; with the buffer handed down to sub-decoders:
// bytes of another format's read).

var c18ClobberCache map[*ssa.Function]bool
var c18ClobberFor *fw.Program

// c18Clobbers: fq functions that (through static calls) reach (*decode.D).SharedReadBuf.
func c18Clobbers(p *fw.Program) map[*ssa.Function]bool {
	if c18ClobberFor == p {
		return c18ClobberCache
	}
	c18ClobberFor = p
	res := map[*ssa.Function]bool{}
	for _, fn := range p.FqFunctions() {
		if fn.Name() == "SharedReadBuf" && fn.Signature.Recv() != nil && pkgRel(fn) == "pkg/decode" {
			res[fn] = true
		}
	}
	fns := p.FqFunctions()
	for changed := true; changed; {
		changed = false
		for _, fn := range fns {
			if res[fn] {
				continue
			}
			for _, c := range fw.CallsIn(fn) {
				if cal := c.Common().StaticCallee(); cal != nil && (res[cal] || cal.Origin() != nil && res[cal.Origin()]) {
					res[fn] = true
					changed = true
					break
				}
			}
		}
	}
	c18ClobberCache = res
	return res
}

// c18ReachAvoid: instruction u can be reached from just after c without executing s.
func c18ReachAvoid(c, u, s ssa.Instruction) bool {
	idx := func(i ssa.Instruction) int { return instrIndex(i) }
	cb, ub, sb := c.Block(), u.Block(), s.Block()
	if cb == ub && idx(c) < idx(u) && !(sb == cb && idx(c) < idx(s) && idx(s) < idx(u)) {
		return true
	}
	if sb == cb && idx(s) > idx(c) {
		return false // every way out of the block runs s first
	}
	seen := map[*ssa.BasicBlock]bool{}
	stack := append([]*ssa.BasicBlock{}, cb.Succs...)
	for len(stack) > 0 {
		b := stack[len(stack)-1]
		stack = stack[:len(stack)-1]
		if seen[b] {
			continue
		}
		seen[b] = true
		if b == sb {
			if b == ub && idx(u) < idx(s) {
				return true
			}
			continue
		}
		if b == ub {
			return true
		}
		stack = append(stack, b.Succs...)
	}
	return false
}

// c18StaleUse: a use of the scratch slice v (defined by src) that can run after another buffer-clobbering call.
func c18StaleUse(p *fw.Program, fn *ssa.Function, src ssa.Instruction, v ssa.Value) string {
	clob := c18Clobbers(p)
	var clobCalls []ssa.CallInstruction
	for _, c := range fw.CallsIn(fn) {
		if ssa.Instruction(c) == src {
			continue
		}
		if cal := c.Common().StaticCallee(); cal != nil && (clob[cal] || cal.Origin() != nil && clob[cal.Origin()]) {
			clobCalls = append(clobCalls, c)
		}
	}
	if len(clobCalls) == 0 {
		return ""
	}
	seen := map[ssa.Value]bool{}
	var walk func(x ssa.Value) string
	walk = func(x ssa.Value) string {
		if seen[x] || x.Referrers() == nil {
			return ""
		}
		seen[x] = true
		for _, rf := range *x.Referrers() {
			if _, dbg := rf.(*ssa.DebugRef); dbg {
				continue
			}
			for _, c := range clobCalls {
				if ssa.Instruction(c) == rf {
					// handing the slice to the clobbering call itself is judged by the escape clause
					continue
				}
				if c18ReachAvoid(c, rf, src) {
					name := fw.CalleeName(c)
					if i := strings.LastIndex(name, "/"); i >= 0 {
						name = name[i+1:]
					}
					return "is still used at " + p.Rel(rf.Pos()) + " after " + name + " (" + p.Rel(c.Pos()) + ") read into the same scratch buffer"
				}
			}
			switch y := rf.(type) {
			case *ssa.Slice:
				if s := walk(y); s != "" {
					return s
				}
			case *ssa.Phi:
				if s := walk(y); s != "" {
					return s
				}
			case *ssa.ChangeType:
				if s := walk(y); s != "" {
					return s
				}
			}
		}
		return ""
	}
	return walk(v)
}
