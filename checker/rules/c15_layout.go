package rules

import (
	"fmt"
	"go/token"
	"go/types"
	"os"
	"sort"
	"strings"

	"golang.org/x/tools/go/ssa"

	"fqverif/fw"
)

// c15Entry is one consuming decode.D call of a decoder, rendered as small semantic facts:
// method, constant names, normalised integer arguments, value-affecting mappers, and the
// branch conditions under which it runs.
type c15Entry struct {
	Ctx    string
	Text   string
	Call   *ssa.Call
	Ins    ssa.Instruction
	Fn     *ssa.Function
	Chain  []ssa.Instruction // call sites from the context's outermost function down to Ins
	Guards string
}

func (e c15Entry) String() string {
	if e.Guards == "" {
		return e.Text
	}
	return e.Text + " if " + e.Guards
}

// variadic returns the elements of a variadic argument slice built at the call site.
func variadicElems(v ssa.Value) ([]ssa.Value, bool) {
	if c, ok := v.(*ssa.Const); ok && c.IsNil() {
		return nil, true
	}
	sl, ok := v.(*ssa.Slice)
	if !ok {
		return nil, false
	}
	al, ok := sl.X.(*ssa.Alloc)
	if !ok {
		return nil, false
	}
	at, ok := al.Type().Underlying().(*types.Pointer).Elem().Underlying().(*types.Array)
	if !ok {
		return nil, false
	}
	out := make([]ssa.Value, at.Len())
	for _, r := range *al.Referrers() {
		ia, ok := r.(*ssa.IndexAddr)
		if !ok {
			continue
		}
		ic, ok := ia.Index.(*ssa.Const)
		if !ok {
			return nil, false
		}
		i := int(ic.Int64())
		for _, rr := range *ia.Referrers() {
			if st, ok := rr.(*ssa.Store); ok && st.Addr == ssa.Value(ia) && i < len(out) {
				out[i] = st.Val
			}
		}
	}
	for _, o := range out {
		if o == nil {
			return nil, false
		}
	}
	return out, true
}

// renderArg renders one argument; variadic slices are expanded.
func (f *c15Family) renderArg(a ssa.Value) string {
	if els, ok := variadicElems(a); ok && isSliceT(a.Type()) {
		var out []string
		for _, e := range els {
			out = append(out, f.renderArg(e))
		}
		return "[" + strings.Join(out, ",") + "]"
	}
	v := stripConv(a)
	if call, ok := v.(*ssa.Call); ok {
		if m, ok := isDMethod(call); ok && !c15Consuming(m) {
			switch m {
			case "Pos", "BitsLeft", "End", "NotEnd", "Len", "BytePos":
			default:
				var as []string
				for _, x := range call.Common().Args[1:] {
					as = append(as, f.renderArg(x))
				}
				return m + "(" + strings.Join(as, ",") + ")"
			}
		}
	}
	return f.expr(a)
}

func isSliceT(t types.Type) bool {
	_, ok := t.Underlying().(*types.Slice)
	return ok
}

var c15MapperKeep = []string{"Assert", "Validate", "Require", "ActualTrim", "Parse", "IsZero"}

// render a consuming call.
func (f *c15Family) renderCall(c *ssa.Call) string {
	m, _ := isDMethod(c)
	callee := c.Common().StaticCallee()
	sig := callee.Signature
	args := c.Common().Args[1:]
	var parts []string
	for i, a := range args {
		pt := sig.Params().At(i).Type()
		variadic := sig.Variadic() && i == sig.Params().Len()-1
		switch {
		case variadic:
			els, ok := variadicElems(a)
			if !ok {
				parts = append(parts, "mappers=?")
				continue
			}
			for _, e := range els {
				s := f.renderArg(e)
				keep := false
				for _, k := range c15MapperKeep {
					if strings.Contains(s, k) {
						keep = true
					}
				}
				if keep {
					parts = append(parts, s)
				}
			}
		case isStringT(pt):
			if s, ok := constString(a); ok {
				parts = append(parts, fmt.Sprintf("%q", s))
			} else {
				parts = append(parts, f.expr(a))
			}
		case isIntegerT(pt):
			parts = append(parts, f.expr(a))
		case isFuncT(pt):
			if c := closureOf(a); c != nil && (c.Parent() != nil || (fw.InFq(c) && fw.FnPkgPath(c) == fw.FnPkgPath(f.root))) {
				// a closure of the decoder or a function of its package: its body is walked under the
				// field's context either way
				parts = append(parts, "fn")
			} else {
				parts = append(parts, "fn:"+f.expr(a))
			}
		default:
			// groups, in-args, readers: by normal form (globals by name)
			parts = append(parts, f.expr(a))
		}
	}
	return m + "(" + strings.Join(parts, "; ") + ")"
}

func isStringT(t types.Type) bool {
	b, ok := t.Underlying().(*types.Basic)
	return ok && b.Info()&types.IsString != 0
}

func isFuncT(t types.Type) bool {
	_, ok := t.Underlying().(*types.Signature)
	return ok
}

// structuralGuards: the guards of b whose If arm actually contains b (not the ones that
// hold only because the other arm never returns).
func structuralGuards(b *ssa.BasicBlock) []fw.Guard {
	var out []fw.Guard
	for _, g := range fw.Guards(b) {
		ib := g.If.Block()
		if len(ib.Succs) != 2 {
			continue
		}
		s := ib.Succs[1]
		if g.True {
			s = ib.Succs[0]
		}
		// g.True was computed before Normalize; compare on the un-normalised polarity
		if len(s.Preds) == 1 && (s == b || s.Dominates(b)) {
			// `if ok { body } else { d.Fatalf() }` is the same decoder as `if !ok { d.Fatalf() }; body`:
			// when the other arm never completes, the condition is an assertion (listed with the error
			// arm itself), not a condition of the body
			other := ib.Succs[0]
			if g.True {
				other = ib.Succs[1]
			}
			if fw.CurrentNR != nil && other != s && len(other.Preds) == 1 && fw.CurrentNR.BlockFails(other) && !fw.CurrentNR.BlockFails(s) && !c15InDispatch(ib) {
				continue
			}
			out = append(out, g)
		}
	}
	return out
}

// guardsOf renders the branch conditions of the arms that contain the block: conditions that
// hold are listed as is; conditions that do not hold are listed negated unless they are equality
// tests against a constant (the "other cases" of a switch, which would make a default arm depend
// on every case).
func (f *c15Family) guardsOf(b *ssa.BasicBlock) string { return f.guardsOfX(b, false, nil) }

// guardsOfX: full also lists the negated constant-equality tests (used for the arms that end the
// decode with an error: "none of the known cases" is their whole meaning); edge adds the outcome
// of the block's own terminating If towards the given successor (used for merged values).
func (f *c15Family) guardsOfX(b *ssa.BasicBlock, full bool, edge *ssa.BasicBlock) string {
	set := map[string]bool{}
	// counted loops in rotated form (range-over-int): the body block carries the induction phi and
	// the latch tests iv+1 < N
	for d := b; d != nil; d = d.Idom() {
		for _, ins := range d.Instrs {
			phi, ok := ins.(*ssa.Phi)
			if !ok {
				break
			}
			if c0, ok := ivStart(phi); ok {
				for i, pred := range d.Preds {
					ifi, ok := pred.Instrs[len(pred.Instrs)-1].(*ssa.If)
					if !ok || pred.Succs[0] != d {
						continue
					}
					bo, ok := ifi.Cond.(*ssa.BinOp)
					if ok && bo.Op == token.LSS && bo.X == phi.Edges[i] {
						if _, isC := phi.Edges[i].(*ssa.Const); !isC {
							set["loop("+c0+".."+f.expr(bo.Y)+")"] = true
						}
					}
				}
			}
		}
	}
	gs := structuralGuards(b)
	if edge != nil {
		gs = append(gs, edgeGuard(b, edge)...)
	}
	for _, g := range gs {
		g = g.Normalize()
		if !g.True && c15CountedLoopCond(g.Cond) {
			continue // "after the loop": the classic form has this edge, the rotated form does not
		}
		s := f.expr(g.Cond)
		if bo, ok := g.Cond.(*ssa.BinOp); ok && g.True && bo.Op == token.LSS {
			if phi, ok := bo.X.(*ssa.Phi); ok {
				if c0, ok := ivStart(phi); ok {
					set["loop("+c0+".."+f.expr(bo.Y)+")"] = true
					continue
				}
			}
		}
		if !full && (strings.Contains(s, "phi{") || strings.Contains(s, "…") || strings.Contains(s, "↺") || strings.Contains(s, "range") || strings.Contains(s, "iv(-1)")) {
			continue
		}
		if g.True {
			set[s] = true
			continue
		}
		if strings.HasPrefix(s, "!") && balanced(s[1:]) && !strings.Contains(s, " ") {
			set[s[1:]] = true // !NotEnd = End
			continue
		}
		if bo, ok := g.Cond.(*ssa.BinOp); ok && bo.Op == token.EQL && !full {
			if _, ok := stripConv(bo.Y).(*ssa.Const); ok {
				continue
			}
			if _, ok := stripConv(bo.X).(*ssa.Const); ok {
				continue
			}
		}
		if full || edge != nil {
			// the new entry kinds list a failed comparison as the complementary comparison, so that
			// if !(a == b) and if a != b are the same fact
			if t, ok := f.negCmp(g.Cond); ok {
				set[strings.ReplaceAll(t, "*", "×")] = true
				continue
			}
		}
		set["!"+s] = true
	}
	return strings.Join(sortedSet(set), " && ")
}

// ivStart recognises an induction variable phi [c0, phi+1] and returns c0.
func ivStart(x *ssa.Phi) (string, bool) {
	if len(x.Edges) != 2 {
		return "", false
	}
	for i := 0; i < 2; i++ {
		c, ok := x.Edges[i].(*ssa.Const)
		bo, ok2 := x.Edges[1-i].(*ssa.BinOp)
		if ok && ok2 && bo.Op == token.ADD && bo.X == ssa.Value(x) && c.Value != nil {
			if k, ok := bo.Y.(*ssa.Const); ok && k.Value != nil && k.Value.ExactString() == "1" {
				return c.Value.ExactString(), true
			}
		}
	}
	return "", false
}

// addrRootedAtParamOrLocal: a field/element address whose base is a parameter (or a pointer
// loaded from one) or a local array.
func addrRootedAtParamOrLocal(a ssa.Value) bool {
	for i := 0; i < 6; i++ {
		switch x := a.(type) {
		case *ssa.FieldAddr:
			a = x.X
		case *ssa.IndexAddr:
			a = x.X
		case *ssa.UnOp:
			a = x.X
		case *ssa.Parameter:
			return true
		case *ssa.Alloc:
			return true
		default:
			return false
		}
	}
	return false
}

func bindKey(b map[*ssa.Parameter]string) string {
	var ks []string
	for p, v := range b {
		ks = append(ks, p.Name()+"="+v)
	}
	sort.Strings(ks)
	return strings.Join(ks, ",")
}

func andGuards(a, b string) string {
	if a == "" {
		return b
	}
	if b == "" {
		return a
	}
	set := map[string]bool{}
	for _, x := range strings.Split(a+" && "+b, " && ") {
		set[x] = true
	}
	return strings.Join(sortedSet(set), " && ")
}

// c15World caches one family per top-level function.
type c15World struct {
	p        *fw.Program
	fams     map[*ssa.Function]*c15Family
	branches bool // also list every branch condition (used for the arithmetic of pkg/checksum)

	withBranches *c15World
}

func newC15World(p *fw.Program) *c15World {
	return &c15World{p: p, fams: map[*ssa.Function]*c15Family{}}
}

func (w *c15World) fam(fn *ssa.Function) *c15Family {
	t := fw.Top(fn)
	if f, ok := w.fams[t]; ok {
		return f
	}
	f := newC15Family(w.p, t)
	w.fams[t] = f
	return f
}

// layout walks a decoder root and attributes every consuming decode.D call (and the pseudo
// entries set/assign/return) to its decode-tree context: the chain of constant names of the
// enclosing FieldStruct/FieldArray/... calls. Helpers of the same package that are called
// directly, closures passed to them and closures called through locals continue the context
// of the caller, so extracting or inlining a helper does not change the result.
func (w *c15World) layout(root *ssa.Function) map[string][]c15Entry {
	out := map[string][]c15Entry{}
	onStack := map[*ssa.Function]bool{}
	seen := map[string]bool{}
	pkg := fw.FnPkgPath(root)
	var walk func(fn *ssa.Function, ctx, outer string, chain []ssa.Instruction)
	walk = func(fn *ssa.Function, ctx, outer string, chain []ssa.Instruction) {
		if fn == nil || fn.Blocks == nil || onStack[fn] {
			return
		}
		k := fn.String() + "|" + ctx + "|" + outer + fmt.Sprintf("|%p|", fn) + bindKey(w.fam(fn).bind)
		if seen[k] {
			return
		}
		seen[k] = true
		onStack[fn] = true
		defer delete(onStack, fn)
		f := w.fam(fn)
		addG := func(text string, ins ssa.Instruction, call *ssa.Call, guards string) {
			ch := append(append([]ssa.Instruction{}, chain...), ins)
			out[ctx] = append(out[ctx], c15Entry{Ctx: ctx, Text: text, Call: call, Ins: ins, Fn: fn, Chain: ch, Guards: andGuards(outer, guards)})
		}
		add := func(text string, ins ssa.Instruction, call *ssa.Call) {
			addG(text, ins, call, f.guardsOf(ins.Block()))
		}
		for _, b := range fn.Blocks {
			for _, ins := range b.Instrs {
				switch x := ins.(type) {
				case *ssa.Phi:
					// a local that gets different values on different paths (compressedLimit = BitsLeft when
					// the stored size is 0, l-1 / l+1 on a delta bit): one entry per incoming value with the
					// condition of its edge, so that a negated or moved condition is seen
					if !w.branches && c15MergePhi(x) {
						live := c15LiveEdges(x)
						vals := map[string]bool{}
						clean := true
						for _, i := range live {
							v := f.renderArg(x.Edges[i])
							vals[v] = true
							if strings.Contains(v, "↺") || strings.Contains(v, "phi{") || strings.Contains(v, "iv(") {
								clean = false // loop-carried or nested: an artefact of the loop form / has its own entries
							}
						}
						if clean && len(vals) > 1 {
							for _, i := range live {
								addG("merge("+f.renderArg(x.Edges[i])+")", ins, nil, f.guardsOfX(b.Preds[i], false, b))
							}
						}
					}
				case *ssa.Store:
					if fa, ok := x.Addr.(*ssa.FieldAddr); ok && fieldNameOf(fa.X.Type(), fa.Field) == "Endian" {
						if _, isP := fa.X.(*ssa.Parameter); isP {
							add("Endian = "+f.renderArg(x.Val), ins, nil)
							continue
						}
					}
					root, path := f.cellRoot(x.Addr)
					if root == nil {
						// stores through a parameter pointer or into an element: c.Current = …, p[i] = …, table[i] = …
						if ia, ok := x.Addr.(*ssa.IndexAddr); ok {
							if al, ok := ia.X.(*ssa.Alloc); ok && al.Comment == "varargs" {
								continue
							}
						}
						if addrRootedAtParamOrLocal(x.Addr) {
							add("store("+f.expr(x.Addr)+" = "+f.renderArg(x.Val)+")", ins, nil)
						}
						continue
					}
					if g, isG := root.(*ssa.Global); isG {
						if w.branches {
							add("global("+g.Pkg.Pkg.Name()+"."+g.Name()+path+" = "+f.renderArg(x.Val)+")", ins, nil)
						}
						continue
					}
					if _, isC := x.Val.(*ssa.Const); isC && path == "" {
						continue
					}
					if _, isP := x.Val.(*ssa.Parameter); isP && path == "" {
						continue // spill of a captured parameter
					}
					if isFuncT(x.Val.Type()) {
						continue
					}
					if path != "" {
						add("set("+path+" = "+f.renderArg(x.Val)+")", ins, nil)
					} else {
						add("assign("+f.renderArg(x.Val)+")", ins, nil)
					}
				case *ssa.If:
					if w.branches {
						if !c15CountedLoopIf(x) {
							add("branch("+f.expr(x.Cond)+")", ins, nil)
						}
					} else if ex := c15BreakEdge(b); ex != nil {
						// a break out of a search/scan loop (bzip2's footer search, tar's zero block scan):
						// the condition under which the loop is left early
						addG("break", ins, nil, f.guardsOfX(b, true, ex))
					}
				case *ssa.Return:
					var rs []string
					for _, r := range x.Results {
						rs = append(rs, f.expr(r))
					}
					if len(rs) > 0 {
						add("return("+strings.Join(rs, "; ")+")", ins, nil)
					}
				case *ssa.Call:
					cc := x.Common()
					if m, ok := isDMethod(x); ok {
						if (m == "Fatalf" || m == "Errorf") && !w.branches {
							// the arms that end the decode with an error: an intact file must not reach them and
							// the cases they reject must stay rejected; listed with ALL conditions of the arm
							msg := m
							if len(cc.Args) > 1 {
								if s, ok := constString(cc.Args[1]); ok {
									msg = fmt.Sprintf("%s(%q)", m, s)
								}
							}
							addG(msg, ins, nil, f.guardsOfX(b, true, nil))
							continue
						}
						if strings.HasSuffix(m, "PeekFind") && !w.branches {
							// the predicate of a signature search runs in the caller's context
							for _, a := range cc.Args[1:] {
								if c := w.fnValue(f, a); c != nil {
									walk(c, ctx, andGuards(outer, f.guardsOf(b)), append(append([]ssa.Instruction{}, chain...), ins))
								}
							}
							continue
						}
						if !c15Consuming(m) && !(strings.HasPrefix(m, "FieldValue") && !w.branches) {
							continue
						}
						add(f.renderCall(x), ins, x)
						name := ""
						for i, a := range cc.Args[1:] {
							if s, ok := constString(a); ok {
								name = s
								break
							}
							if i == 0 && isStringT(a.Type()) {
								if t := f.expr(a); len(t) > 2 && t[0] == '"' && t[len(t)-1] == '"' && !strings.Contains(t[1:len(t)-1], "\"") {
									name = t[1 : len(t)-1]
									break
								}
							}
						}
						cctx, co := ctx, andGuards(outer, f.guardsOf(b))
						cchain := append(append([]ssa.Instruction{}, chain...), ins)
						if name != "" && (strings.HasPrefix(m, "Field") || strings.HasPrefix(m, "TryField")) {
							cctx, co, cchain = ctx+"/"+name, "", nil
						}
						for _, a := range cc.Args[1:] {
							if els, ok := variadicElems(a); ok && isSliceT(a.Type()) && !w.branches {
								// value mappers written as closures of the decoder (sym = actual*2, year + 1980)
								for _, e := range els {
									if c := closureOf(e); c != nil && c.Parent() != nil && fw.InFq(c) {
										walk(c, cctx, co, cchain)
									}
								}
								continue
							}
							if c := w.fnValue(f, a); c != nil {
								walk(c, cctx, co, cchain)
							} else if phi, ok := stripConv(a).(*ssa.Phi); ok && isFuncT(a.Type()) {
								// a function chosen by a switch: each alternative under the condition of its arm
								for i, e := range phi.Edges {
									if c := w.fnValue(f, e); c != nil {
										walk(c, cctx, andGuards(co, f.guardsOf(phi.Block().Preds[i])), cchain)
									}
								}
							}
						}
						continue
					}
					callee := cc.StaticCallee()
					if callee != nil {
						if fw.FnPkgPath(callee) == pkg && callee.Blocks != nil && !onStack[callee] {
							co := andGuards(outer, f.guardsOf(b))
							bind := map[*ssa.Parameter]string{}
							for i, prm := range callee.Params {
								if i < len(cc.Args) {
									bind[prm] = f.renderArg(cc.Args[i])
								}
							}
							cf := w.fam(callee)
							oldBind := cf.bind
							cf.bind = bind
							cchain := append(append([]ssa.Instruction{}, chain...), ins)
							walk(callee, ctx, co, cchain)
							cf.bind = oldBind
							for _, a := range cc.Args {
								if c := w.fnValue(f, a); c != nil {
									walk(c, ctx, co, cchain)
								}
							}
						}
						continue
					}
					if cc.IsInvoke() {
						continue
					}
					// dynamic call of a closure held in a local
					if c := w.fnValue(f, cc.Value); c != nil {
						walk(c, ctx, andGuards(outer, f.guardsOf(b)), append(append([]ssa.Instruction{}, chain...), ins))
					}
				}
			}
		}
	}
	walk(root, "", "", nil)
	return out
}

// fnValue resolves a function-typed value to a function of the program: a literal, a closure, or
// a local that is assigned exactly one of those.
func (w *c15World) fnValue(f *c15Family, v ssa.Value) *ssa.Function {
	if call, ok := stripConv(v).(*ssa.Call); ok {
		// decode.FormatFn(func(d *decode.D) any {...}): an inline format for a nested buffer
		if callee := call.Common().StaticCallee(); callee != nil && callee.Name() == "FormatFn" && fw.FnPkgPath(callee) == c15DecodePkg && len(call.Common().Args) == 1 {
			if c := closureOf(call.Common().Args[0]); c != nil && fw.InFq(c) {
				return c
			}
		}
		return nil
	}
	if !isFuncT(v.Type()) {
		return nil
	}
	if c := closureOf(v); c != nil {
		if !fw.InFq(c) {
			return nil
		}
		return c
	}
	if ld, ok := stripConv(v).(*ssa.UnOp); ok && ld.Op == token.MUL {
		root, path := f.cellRoot(ld.X)
		if root == nil || path != "" {
			return nil
		}
		var found *ssa.Function
		n := 0
		for _, st := range f.stores[root] {
			if c, ok := st.Val.(*ssa.Const); ok && c.IsNil() {
				continue
			}
			n++
			found = closureOf(st.Val)
		}
		if n == 1 {
			return found
		}
	}
	return nil
}

// sortLayout orders the entries of every context: entries of one function in reverse postorder
// of their blocks (so that an entry that can run before another one is listed first), functions in
// the order the walk met them.
func sortLayout(es map[string][]c15Entry) {
	rpo := map[*ssa.Function]map[*ssa.BasicBlock]int{}
	num := func(fn *ssa.Function) map[*ssa.BasicBlock]int {
		if m, ok := rpo[fn]; ok {
			return m
		}
		m := map[*ssa.BasicBlock]int{}
		var post []*ssa.BasicBlock
		seen := map[*ssa.BasicBlock]bool{}
		var dfs func(b *ssa.BasicBlock)
		dfs = func(b *ssa.BasicBlock) {
			seen[b] = true
			for _, s := range b.Succs {
				if !seen[s] {
					dfs(s)
				}
			}
			post = append(post, b)
		}
		if len(fn.Blocks) > 0 {
			dfs(fn.Blocks[0])
		}
		for i, b := range post {
			m[b] = len(post) - i
		}
		rpo[fn] = m
		return m
	}
	for ctx, list := range es {
		first := map[*ssa.Function]int{}
		for i, e := range list {
			if _, ok := first[e.Fn]; !ok {
				first[e.Fn] = i
			}
		}
		sort.SliceStable(list, func(i, j int) bool {
			a, b := list[i], list[j]
			if a.Fn != b.Fn {
				return first[a.Fn] < first[b.Fn]
			}
			na, nb := num(a.Fn)[a.Ins.Block()], num(b.Fn)[b.Ins.Block()]
			if na != nb {
				return na < nb
			}
			return instrIndex(a.Ins) < instrIndex(b.Ins)
		})
		// make the order a linear extension of "can only run before" (loops put exits before bodies in RPO)
		var outl []c15Entry
		placed := make([]bool, len(list))
		for len(outl) < len(list) {
			pick := -1
			for i := range list {
				if placed[i] {
					continue
				}
				ok := true
				for j := range list {
					if i == j || placed[j] {
						continue
					}
					if strictlyBefore(&list[j], &list[i]) {
						ok = false
						break
					}
				}
				if ok {
					pick = i
					break
				}
			}
			if pick < 0 {
				for i := range list {
					if !placed[i] {
						pick = i
						break
					}
				}
			}
			placed[pick] = true
			outl = append(outl, list[pick])
		}
		es[ctx] = outl
	}
}

// strictlyBefore: a can run before b and never after it, judged at the innermost function both
// entries were reached through (their own function, or the call sites of the helpers/closures that
// continue the context).
func strictlyBefore(a, b *c15Entry) bool {
	for k := 0; k < len(a.Chain) && k < len(b.Chain); k++ {
		x, y := a.Chain[k], b.Chain[k]
		if x == y {
			continue
		}
		if x.Parent() != y.Parent() {
			return false
		}
		return reachesIns(x, y) && !reachesIns(y, x)
	}
	return false
}

// reachesIns: b's instruction can execute after a's (same function).
func reachesIns(a, b ssa.Instruction) bool {
	if a.Block() == b.Block() && instrIndex(a) < instrIndex(b) {
		return true
	}
	seen := map[*ssa.BasicBlock]bool{}
	stack := append([]*ssa.BasicBlock{}, a.Block().Succs...)
	for len(stack) > 0 {
		x := stack[len(stack)-1]
		stack = stack[:len(stack)-1]
		if seen[x] {
			continue
		}
		seen[x] = true
		if x == b.Block() {
			return true
		}
		stack = append(stack, x.Succs...)
	}
	return false
}

// c15Dump prints the layout of a root function in table syntax (authoring aid, C15_DUMP=root,...).
func c15Dump(p *fw.Program, root string) {
	fn := p.Fn(root)
	if fn == nil {
		fmt.Println("DUMP: no function", root)
		return
	}
	w := newC15World(p)
	w.branches = os.Getenv("C15_BRANCHES") != "" || strings.HasPrefix(root, "(*pkg/decode.D)")
	es := w.layout(fn)
	sortLayout(es)
	var ctxs []string
	for k := range es {
		ctxs = append(ctxs, k)
	}
	sort.Strings(ctxs)
	fmt.Printf("\t%q: {\n", root)
	for _, k := range ctxs {
		fmt.Printf("\t\t%q: {\n", k)
		for _, e := range es[k] {
			fmt.Printf("\t\t\t%q,\n", e.String())
		}
		fmt.Printf("\t\t},\n")
	}
	fmt.Printf("\t},\n")
}

func c15DumpWanted() bool { return os.Getenv("C15_DUMP") != "" }

// ---------------------------------------------------------------------------
// C15.layout

func c15Layout(r *fw.Run, p *fw.Program, w *c15World) {
	ru := r.Rule("C15.layout", "container decoders (gzip, zip, tar, png, gif, wav/riff, bzip2): every field read, seek, frame, state assignment, reported synthetic value (FieldValue*), value-mapper closure, inline format of a nested buffer, signature-search predicate, merged local (one entry per incoming value with the condition of its edge), early loop exit (break with all conditions of its path) and error arm (Fatalf/Errorf with all conditions of the arm) of the decode tree has the reader, width, length provenance, value mappers/assert constants and branch condition of the format's layout table, in layout order, with no extra read in a tabled arm", 670)
	ri := r.Rule("C15.inflate", "decompression plumbing: gzip/zip method 8 -> compress/flate, png zTXt/iCCP -> compress/zlib, bzip2 -> compress/bzip2, each passed to Field(Format)ReaderRange*/FieldFormatReaderLen with the tabled range; inside pkg/decode the compressed sub-range is handed to the decompressor, all of its output becomes the nested root buffer that is attached and returned, and the consumed size is 8 x the reader position", 38)
	c15CompareTable(ru, ri, p, w, c15LayoutTable)
}

// c15InflateEntry: entries that belong to the decompression plumbing.
func c15InflateEntry(root, txt string) bool {
	if strings.HasPrefix(root, "(*pkg/decode.D)") {
		return true
	}
	h := entryHead(txt)
	return strings.Contains(h, "Reader") || strings.HasPrefix(h, "return(compress/") || h == "FieldRawLen(\"compressed\""
}

func c15CompareTable(ruMain, ruInflate *fw.Rule, p *fw.Program, w *c15World, tableAll map[string]map[string][]string) {
	ru := ruMain
	for _, root := range fw.SortedKeys(tableAll) {
		fn := p.Fn(root)
		if fn == nil || fn.Blocks == nil {
			ru.Undecided("anchor:"+root, "", "decoder root "+root+" not found (renamed or removed): the layout table must be updated")
			continue
		}
		lw := w
		if strings.HasPrefix(root, "(*pkg/decode.D)") && !w.branches {
			// the plumbing inside pkg/decode is compared with its branch conditions too
			if w.withBranches == nil {
				w.withBranches = newC15World(p)
				w.withBranches.branches = true
			}
			lw = w.withBranches
		}
		es := lw.layout(fn)
		sortLayout(es)
		table := tableAll[root]
		for _, ctx := range fw.SortedKeys(table) {
			want := table[ctx]
			got := es[ctx]
			used := make([]bool, len(got))
			matched := make([]*c15Entry, len(want))
			occ := map[string]int{}
			for i, wtxt := range want {
				ru = ruMain
				if ruInflate != nil && c15InflateEntry(root, wtxt) {
					ru = ruInflate
				}
				occ[wtxt]++
				key := fmt.Sprintf("%s|%s|%s", root, ctx, wtxt)
				if occ[wtxt] > 1 {
					key += fmt.Sprintf("#%d", occ[wtxt])
				}
				found := -1
				for j := range got {
					if !used[j] && got[j].String() == wtxt {
						found = j
						break
					}
				}
				if found < 0 {
					// the same construct with deviating facts?
					alt := -1
					for j := range got {
						if !used[j] && entryHead(got[j].String()) == entryHead(wtxt) && later(want[i+1:], got[j].String()) == false {
							alt = j
							break
						}
					}
					if alt >= 0 {
						used[alt] = true
						ru.Fail(key, p.Rel(got[alt].Ins.Pos()), "the decoder has: "+got[alt].String())
						continue
					}
					ru.Fail(key, p.Rel(fn.Pos()), "layout entry not found in the decoder")
					continue
				}
				used[found] = true
				matched[i] = &got[found]
				ru.Ok(key, p.Rel(got[found].Ins.Pos()), "present")
			}
			// extras in tabled arms
			arms := map[string]bool{}
			for _, wtxt := range want {
				arms[guardPart(wtxt)] = true
			}
			xocc := map[string]int{}
			for j, e := range got {
				if used[j] || !arms[e.Guards] {
					continue
				}
				ru = ruMain
				if ruInflate != nil && c15InflateEntry(root, e.String()) {
					ru = ruInflate
				}
				xocc[e.String()]++
				ru.Fail(fmt.Sprintf("%s|%s|extra:%s#%d", root, ctx, e.String(), xocc[e.String()]), p.Rel(e.Ins.Pos()),
					"read/seek/assignment not in the layout table inside a tabled arm (shifts or changes every following field)")
			}
			// order: one obligation per context
			ru = ruMain
			if ruInflate != nil && c15InflateEntry(root, "") {
				ru = ruInflate
			}
			okey := fmt.Sprintf("%s|%s|order", root, ctx)
			bad := ""
			var badPos token.Pos
			for i := range want {
				for j := i + 1; j < len(want) && bad == ""; j++ {
					a, b := matched[i], matched[j]
					if a == nil || b == nil {
						continue
					}
					if strictlyBefore(b, a) {
						bad = fmt.Sprintf("%s must come before %s but the decoder reads them in the opposite order", want[i], want[j])
						badPos = b.Ins.Pos()
					}
				}
			}
			if bad == "" {
				ru.Ok(okey, p.Rel(fn.Pos()), "order agrees")
			} else {
				ru.Fail(okey, p.Rel(badPos), bad)
			}
		}
	}
}

// entryHead: Method("name" of an entry (the construct, without its facts).
func entryHead(s string) string {
	for i, c := range s {
		if c == ';' || c == ')' {
			return s[:i]
		}
	}
	return s
}

// later: txt is still wanted by a later table entry (then it is not a deviating variant of this one).
func later(rest []string, txt string) bool {
	for _, r := range rest {
		if r == txt {
			return true
		}
	}
	return false
}

func guardPart(entry string) string {
	if i := strings.LastIndex(entry, ") if "); i >= 0 {
		return entry[i+5:]
	}
	return ""
}

// c15MergePhi: a phi that merges values of a local at the join of an if/switch (not a loop header,
// not an induction variable, not the boolean of a lowered && / ||).
func c15MergePhi(x *ssa.Phi) bool {
	if _, ok := ivStart(x); ok {
		return false
	}
	if _, _, _, ok := c15ClampPhi(x); ok {
		return false // rendered as min/max: the selecting condition is part of that meaning
	}
	b := x.Block()
	if blockReachesStrict(b, b) {
		return false // inside a loop: running values, their shape depends on the loop form
	}
	for _, pred := range b.Preds {
		if b.Dominates(pred) {
			return false // loop header
		}
	}
	if bt, ok := x.Type().Underlying().(*types.Basic); ok && bt.Kind() == types.Bool {
		onlyCtl := true
		if x.Referrers() != nil {
			for _, r := range *x.Referrers() {
				switch r.(type) {
				case *ssa.If, *ssa.Phi, *ssa.DebugRef:
				default:
					onlyCtl = false
				}
			}
		}
		if onlyCtl {
			return false
		}
	}
	if isFuncT(x.Type()) {
		return false // chosen functions are walked under the condition of their arm
	}
	return true
}

// negCmp renders the complement of a comparison in the normal form of atom1 (operands of == / !=
// sorted, orderings written with < and <=). Orderings only over integers.
func (f *c15Family) negCmp(v ssa.Value) (string, bool) {
	bo, ok := v.(*ssa.BinOp)
	if !ok {
		return "", false
	}
	a, b := paren(f.sub(bo.X, 0)), paren(f.sub(bo.Y, 0))
	switch bo.Op {
	case token.EQL, token.NEQ:
		if b < a {
			a, b = b, a
		}
		if bo.Op == token.EQL {
			return "(" + a + "!=" + b + ")", true
		}
		return "(" + a + "==" + b + ")", true
	}
	if !isIntegerT(bo.X.Type()) {
		return "", false
	}
	switch bo.Op {
	case token.LSS: // !(a<b) = b<=a
		return "(" + b + "<=" + a + ")", true
	case token.LEQ: // !(a<=b) = b<a
		return "(" + b + "<" + a + ")", true
	case token.GTR: // !(a>b) = a<=b
		return "(" + a + "<=" + b + ")", true
	case token.GEQ: // !(a>=b) = a<b
		return "(" + a + "<" + b + ")", true
	}
	return "", false
}

// c15BreakEdge: b ends in an If inside a loop, one successor stays in the loop and the other
// leaves it, and b is not the latch of a counted loop: the successor
// that leaves (a break / return out of the loop body).
func c15BreakEdge(b *ssa.BasicBlock) *ssa.BasicBlock {
	if len(b.Succs) != 2 || !blockReachesStrict(b, b) {
		return nil
	}
	ifi := b.Instrs[len(b.Instrs)-1].(*ssa.If)
	if c15CountedLoopIf(ifi) {
		return nil
	}
	t, e := blockReachesStrict(b.Succs[0], b) || b.Succs[0] == b, blockReachesStrict(b.Succs[1], b) || b.Succs[1] == b
	switch {
	case t && !e:
		return b.Succs[1]
	case e && !t:
		return b.Succs[0]
	}
	return nil
}

func blockReachesStrict(from, to *ssa.BasicBlock) bool {
	seen := map[*ssa.BasicBlock]bool{}
	stack := append([]*ssa.BasicBlock{}, from.Succs...)
	for len(stack) > 0 {
		x := stack[len(stack)-1]
		stack = stack[:len(stack)-1]
		if seen[x] {
			continue
		}
		seen[x] = true
		if x == to {
			return true
		}
		stack = append(stack, x.Succs...)
	}
	return false
}

// c15CountedLoopCond: iv < N or iv+1 < N for an induction variable iv (c0, +1 per round): the
// condition of a counted loop in its classic (tested at the top) or rotated (tested at the latch) form.
func c15CountedLoopCond(v ssa.Value) bool {
	for {
		u, ok := v.(*ssa.UnOp)
		if !ok || u.Op != token.NOT {
			break
		}
		v = u.X
	}
	bo, ok := v.(*ssa.BinOp)
	if !ok {
		return false
	}
	isIv := func(x ssa.Value) bool {
		x = stripConv(x)
		if ph, ok := x.(*ssa.Phi); ok {
			_, ok := ivStart(ph)
			return ok
		}
		if add, ok := x.(*ssa.BinOp); ok && add.Op == token.ADD {
			if ph, ok := add.X.(*ssa.Phi); ok {
				if k, isC := add.Y.(*ssa.Const); isC && k.Value != nil && k.Value.ExactString() == "1" {
					_, ok := ivStart(ph)
					return ok
				}
			}
		}
		return false
	}
	switch bo.Op {
	case token.LSS, token.LEQ, token.NEQ:
		return isIv(bo.X)
	case token.GTR, token.GEQ:
		return isIv(bo.Y)
	}
	return false
}

// c15CountedLoopIf: the If is the test of a counted loop: at the top (classic), at the latch
// (rotated), or the zero-trip test in front of a rotated loop (c0 < N leading to the body whose
// latch tests iv+1 < N).
func c15CountedLoopIf(ifi *ssa.If) bool {
	if c15CountedLoopCond(ifi.Cond) {
		return true
	}
	bo, ok := ifi.Cond.(*ssa.BinOp)
	if !ok || bo.Op != token.LSS {
		return false
	}
	c, ok := bo.X.(*ssa.Const)
	if !ok || c.Value == nil {
		return false
	}
	body := ifi.Block().Succs[0]
	for _, ins := range body.Instrs {
		ph, ok := ins.(*ssa.Phi)
		if !ok {
			break
		}
		c0, ok := ivStart(ph)
		if !ok || c0 != c.Value.ExactString() {
			continue
		}
		for i, pred := range body.Preds {
			li, ok := pred.Instrs[len(pred.Instrs)-1].(*ssa.If)
			if !ok || pred == ifi.Block() {
				continue
			}
			lb, ok := li.Cond.(*ssa.BinOp)
			if ok && lb.Op == token.LSS && lb.X == ph.Edges[i] && lb.Y == bo.Y {
				return true
			}
		}
	}
	return false
}

// c15InDispatch: the If is a later test of a multi-way dispatch (switch): its block is entered by
// the false edge of another If that tests the same value for equality. The failing arm behind the
// last test of such a chain is the default of the dispatch, not an assertion about one condition.
func c15InDispatch(ib *ssa.BasicBlock) bool {
	ifi, ok := ib.Instrs[len(ib.Instrs)-1].(*ssa.If)
	if !ok {
		return false
	}
	bo, ok := ifi.Cond.(*ssa.BinOp)
	if !ok || bo.Op != token.EQL {
		return false
	}
	for _, pred := range ib.Preds {
		pi, ok := pred.Instrs[len(pred.Instrs)-1].(*ssa.If)
		if !ok || len(pred.Succs) != 2 || pred.Succs[1] != ib {
			continue
		}
		pb, ok := pi.Cond.(*ssa.BinOp)
		if !ok || pb.Op != token.EQL {
			continue
		}
		if pb.X == bo.X || pb.X == bo.Y || pb.Y == bo.X || pb.Y == bo.Y {
			return true
		}
	}
	return false
}
