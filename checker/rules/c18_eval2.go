package rules

import (
	"fmt"
	"go/constant"
	"go/token"
	"go/types"

	"golang.org/x/tools/go/ssa"

	"fqverif/fw"
)

// ---------------------------------------------------------------------------
// C18.evalcopy: after `ci := *i`, Eval works on the copy only
//
// Interp.Eval copies the interpreter so that each evaluation has its own EvalInstance (context, output
// writer, completion flag, include-seen set). That isolation holds only if, after the copy, everything
// per-evaluation is read and written through the copy: a store through the receiver changes the state of
// the evaluation that is running the caller (nested eval, REPL, completion) and of every other goroutine
// evaluating on the same interpreter; a jq function built from the receiver writes its output to the
// caller's writer and observes the caller's context.

// c18Cell resolves loads of local / captured variables to the single value stored into them, across the
// closures of one top-level function. It returns the input when nothing more is known.
func c18Cell(v ssa.Value, depth int) ssa.Value {
	if depth > 10 || v == nil {
		return v
	}
	uniqueStore := func(a *ssa.Alloc) ssa.Value {
		if a.Referrers() == nil {
			return nil
		}
		var stored ssa.Value
		n := 0
		for _, r := range *a.Referrers() {
			if st, ok := r.(*ssa.Store); ok && st.Addr == ssa.Value(a) {
				stored = st.Val
				n++
			}
		}
		if n == 1 {
			return stored
		}
		return nil
	}
	switch x := v.(type) {
	case *ssa.UnOp:
		if x.Op != token.MUL {
			return v
		}
		switch a := x.X.(type) {
		case *ssa.Alloc:
			if s := uniqueStore(a); s != nil {
				return c18Cell(s, depth+1)
			}
		case *ssa.FreeVar:
			if b := c18Binding(a); b != nil {
				if al, ok := b.(*ssa.Alloc); ok {
					if s := uniqueStore(al); s != nil {
						return c18Cell(s, depth+1)
					}
					return v
				}
				// the enclosing function's own free variable: a cell one level further out
				if fv, ok := b.(*ssa.FreeVar); ok {
					return c18Cell(&ssa.UnOp{Op: token.MUL, X: fv}, depth+1)
				}
			}
		}
	case *ssa.FreeVar:
		if b := c18Binding(x); b != nil {
			return c18Cell(b, depth+1)
		}
	case *ssa.ChangeType:
		return c18Cell(x.X, depth+1)
	}
	return v
}

// c18Binding: the value bound to a free variable where its closure is created.
func c18Binding(fv *ssa.FreeVar) ssa.Value {
	fn := fv.Parent()
	par := fn.Parent()
	if par == nil {
		return nil
	}
	idx := -1
	for i, f := range fn.FreeVars {
		if f == fv {
			idx = i
		}
	}
	if idx < 0 {
		return nil
	}
	var out ssa.Value
	fw.EachInstr(par, func(ins ssa.Instruction) {
		if mc, ok := ins.(*ssa.MakeClosure); ok && mc.Fn == ssa.Value(fn) && idx < len(mc.Bindings) && out == nil {
			out = mc.Bindings[idx]
		}
	})
	return out
}

// c18BasePtr: the pointer at the bottom of a chain of field addresses, and the field path above it.
func c18BasePtr(addr ssa.Value) (ssa.Value, []string) {
	var path []string
	for i := 0; i < 12; i++ {
		fa, ok := addr.(*ssa.FieldAddr)
		if !ok {
			break
		}
		path = append([]string{fieldNameOf(fa.X.Type(), fa.Field)}, path...)
		addr = fa.X
	}
	return addr, path
}

func c18EvalCopy(r *fw.Run, p *fw.Program) {
	ru := r.Rule("C18.evalcopy", "after `ci := *i` Interp.Eval (and the loader/iterator closures it creates) touches per-evaluation state only through the copy: no store through the receiver (the shared parsed-include cache is the one deliberate exception), the receiver's EvalInstance is only read for the inherited IsCompleting flag, and every registered env function (Registry.EnvFuncFns) is instantiated with the copy", 5)
	fn := getFn(ru, p, "(*pkg/interp.Interp).Eval")
	if fn == nil {
		return
	}
	interp := p.NamedType("pkg/interp", "Interp")
	if interp == nil || len(fn.Params) == 0 {
		ru.Undecided("anchor:Interp", "", "interp.Interp not found")
		return
	}
	recv := ssa.Value(fn.Params[0])
	cp, _, _ := c18EvalCopyOf(fn)
	if cp == nil {
		ru.Fail("copy", p.Rel(fn.Pos()), "Eval does not copy the receiver (ci := *i, inline or in a helper that returns the address of its copy)")
		return
	}
	isInterpPtr := func(t types.Type) bool {
		pt, ok := t.Underlying().(*types.Pointer)
		return ok && types.Identical(pt.Elem(), interp)
	}
	// who: "recv", "copy" or "" for a *Interp-typed value
	who := func(v ssa.Value) string {
		c := c18Cell(v, 0)
		switch {
		case c == recv:
			return "recv"
		case c == cp:
			return "copy"
		}
		return ""
	}
	ord := map[string]int{}
	key := func(k string) string {
		ord[k]++
		return fmt.Sprintf("%s#%d", k, ord[k])
	}
	pathStr := func(path []string) string {
		s := ""
		for i, e := range path {
			if i > 0 {
				s += "."
			}
			s += e
		}
		return s
	}
	for _, f := range fw.WithClosures(fn) {
		fw.EachInstr(f, func(ins ssa.Instruction) {
			switch x := ins.(type) {
			case *ssa.Store:
				base, path := c18BasePtr(x.Addr)
				if len(path) == 0 || !isInterpPtr(base.Type()) {
					return
				}
				switch who(base) {
				case "recv":
					ru.Fail(key("store:"+pathStr(path)), p.Rel(x.Pos()), "Eval stores into "+pathStr(path)+" of the receiver instead of the per-evaluation copy: the evaluation that called Eval (and any other goroutine using the interpreter) sees the state of this one")
				case "copy":
					ru.Ok(key("store:"+pathStr(path)), p.Rel(x.Pos()), "stored into the copy")
				default:
					ru.Undecided(key("store:"+pathStr(path)), p.Rel(x.Pos()), "cannot tell whether the Interp written is the receiver or the copy")
				}
			case *ssa.MapUpdate:
				u, ok := x.Map.(*ssa.UnOp)
				if !ok || u.Op != token.MUL {
					return
				}
				base, path := c18BasePtr(u.X)
				if len(path) == 0 || !isInterpPtr(base.Type()) {
					return
				}
				w := who(base)
				switch {
				case len(path) == 1 && path[0] == "includeCache" && w != "":
					ru.Ok(key("mapupdate:"+pathStr(path)), p.Rel(x.Pos()), "parsed-include cache: one map shared by the receiver and its copies by design (a parsed module is a function of its name: C18.cachekey, C18.cachefill)")
				case w == "copy":
					ru.Ok(key("mapupdate:"+pathStr(path)), p.Rel(x.Pos()), "map of the copy")
				case w == "recv":
					ru.Fail(key("mapupdate:"+pathStr(path)), p.Rel(x.Pos()), "Eval updates map "+pathStr(path)+" of the receiver instead of the per-evaluation copy")
				default:
					ru.Undecided(key("mapupdate:"+pathStr(path)), p.Rel(x.Pos()), "cannot tell whether the Interp written is the receiver or the copy")
				}
			case *ssa.FieldAddr:
				// the receiver's EvalInstance: only the inherited IsCompleting flag may be read
				if !isInterpPtr(x.X.Type()) || fieldNameOf(x.X.Type(), x.Field) != "EvalInstance" {
					return
				}
				if who(x.X) != "recv" || x.Referrers() == nil {
					return
				}
				for _, rf := range *x.Referrers() {
					sub := "(whole)"
					readOnly := false
					if fa, ok := rf.(*ssa.FieldAddr); ok {
						sub = fieldNameOf(fa.X.Type(), fa.Field)
						readOnly = true
						if fa.Referrers() != nil {
							for _, r2 := range *fa.Referrers() {
								if u, ok := r2.(*ssa.UnOp); !ok || u.Op != token.MUL {
									if _, dbg := r2.(*ssa.DebugRef); !dbg {
										readOnly = false
									}
								}
							}
						}
					} else if _, dbg := rf.(*ssa.DebugRef); dbg {
						continue
					}
					k := key("recv-evalinstance:" + sub)
					if sub == "IsCompleting" && readOnly {
						ru.Ok(k, p.Rel(x.Pos()), "inherits the caller's IsCompleting flag (read only)")
					} else {
						ru.Fail(k, p.Rel(x.Pos()), "Eval uses EvalInstance."+sub+" of the receiver after the copy was made: per-evaluation state (context, output, include-seen set) of the calling evaluation is shared with this one")
					}
				}
			case ssa.CallInstruction:
				cc := x.Common()
				if cc.IsInvoke() || cc.StaticCallee() != nil {
					return
				}
				if _, isB := cc.Value.(*ssa.Builtin); isB {
					return
				}
				if shortType(cc.Value.Type()) != "pkg/interp.EnvFuncFn" || len(cc.Args) != 1 {
					return
				}
				k := key("envfn-arg")
				switch who(cc.Args[0]) {
				case "copy":
					ru.Ok(k, p.Rel(x.Pos()), "env function instantiated with the copy")
				case "recv":
					ru.Fail(k, p.Rel(x.Pos()), "registered env functions are instantiated with the receiver instead of the per-evaluation copy: jq functions of this evaluation write to the caller's output and observe the caller's context and include state")
				default:
					ru.Undecided(k, p.Rel(x.Pos()), "cannot tell which Interp the env function is instantiated with")
				}
			}
		})
	}
}

// ---------------------------------------------------------------------------
// C18.cachefill: a memo entry is written only for the value that is returned, and only on success
//
// A memo table is transparent only if a hit returns what a miss would have computed. Two necessary
// conditions on the function that fills a map-typed memo field of interp.Interp:
//  (a) every return that can run after the store returns the stored value itself (no later re-assignment of the
//      result, no error return that leaves the entry behind);
//  (b) the store is not reachable from the failing side of an `err != nil` test of a call result: a
//      swallowed failure must not be remembered as a success, else a later strict request for the same key
//      succeeds or fails depending on what ran before.

func c18CacheFill(r *fw.Run, p *fw.Program) {
	ru := r.Rule("C18.cachefill", "a store into a map-typed memo field of interp.Interp (the parsed-include cache) stores exactly the value every later return hands out, and is not reachable from the failing branch of an `err != nil` test: only successfully loaded modules are remembered, so a hit equals what a miss computes", 2)
	if p.NamedType("pkg/interp", "Interp") == nil {
		ru.Undecided("anchor:Interp", "", "interp.Interp not found")
		return
	}
	errT := types.Universe.Lookup("error").Type()
	for _, fn := range p.FqFunctions() {
		if pkgRel(fn) != "pkg/interp" {
			continue
		}
		ord := map[string]int{}
		for _, ev := range c18MemoEvents(p, fn) {
			if !ev.store || len(ev.field) < len("pkg/interp.Interp.") || ev.field[:len("pkg/interp.Interp.")] != "pkg/interp.Interp." {
				continue
			}
			mu := ev.ins
			muValue := ev.val
			name := ev.field
			ord[name]++
			k := fmt.Sprintf("%s|%s#%d", name, fw.ShortFn(fn), ord[name])
			// (a) returns after the store hand out the stored value
			nret, bad := 0, ""
			fw.EachInstr(fn, func(i2 ssa.Instruction) {
				ret, ok := i2.(*ssa.Return)
				if !ok {
					return
				}
				// returns that can run after the store
				after := ret.Block() == mu.Block() && instrIndex(mu) < instrIndex(ret)
				for _, sc := range mu.Block().Succs {
					if c18Reaches(sc, ret.Block()) {
						after = true
					}
				}
				if !after {
					return
				}
				nret++
				if len(ret.Results) == 0 || c18StripConv(c18ReturnedValue(ret, 0)) != c18StripConv(muValue) {
					bad = p.Rel(ret.Pos())
				}
			})
			switch {
			case nret == 0:
				ru.Fail(k+"|value", p.Rel(mu.Pos()), "no return can follow the store into "+name+": cannot relate the remembered value to the result")
			case bad != "":
				ru.Fail(k+"|value", p.Rel(mu.Pos()), "the value stored into "+name+" is not the value returned at "+bad+" (result re-assigned after the store, or an error return leaves the entry behind): a later hit returns something a miss never returns")
			default:
				ru.Ok(k+"|value", p.Rel(mu.Pos()), fmt.Sprintf("every return after the store (%d) returns the stored value", nret))
			}
			// (b) not reachable from a failing branch
			swallowed := ""
			for _, b := range fn.Blocks {
				if len(b.Instrs) == 0 {
					continue
				}
				iff, ok := b.Instrs[len(b.Instrs)-1].(*ssa.If)
				if !ok {
					continue
				}
				bo, ok := iff.Cond.(*ssa.BinOp)
				if !ok || (bo.Op != token.NEQ && bo.Op != token.EQL) {
					continue
				}
				var errv ssa.Value
				if c, isC := bo.Y.(*ssa.Const); isC && c.IsNil() {
					errv = bo.X
				} else if c, isC := bo.X.(*ssa.Const); isC && c.IsNil() {
					errv = bo.Y
				}
				if errv == nil || !types.Identical(errv.Type(), errT) {
					continue
				}
				fail := b.Succs[0]
				if bo.Op == token.EQL {
					fail = b.Succs[1]
				}
				if c18Reaches(fail, mu.Block()) && !c18FlagExcludes(fail, mu.Block(), errv) {
					swallowed = p.Rel(bo.Pos())
				}
			}
			if swallowed == "" {
				ru.Ok(k+"|success-only", p.Rel(mu.Pos()), "not reachable from the failing branch of any err != nil test")
			} else {
				ru.Fail(k+"|success-only", p.Rel(mu.Pos()), "the store into "+name+" is reachable from the failing branch of the error test at "+swallowed+": a failure that was swallowed is remembered as a successfully loaded entry, so a later request for the same key that would fail on its own succeeds (result depends on earlier evaluations)")
			}
		}
	}
}

// c18Reaches: block `to` is reachable from block `from` in the CFG.
func c18Reaches(from, to *ssa.BasicBlock) bool {
	seen := map[*ssa.BasicBlock]bool{}
	stack := []*ssa.BasicBlock{from}
	for len(stack) > 0 {
		b := stack[len(stack)-1]
		stack = stack[:len(stack)-1]
		if b == to {
			return true
		}
		if seen[b] {
			continue
		}
		seen[b] = true
		stack = append(stack, b.Succs...)
	}
	return false
}

// c18ReturnedValue: result k of a return; in functions with defers the results travel through result
// cells (store; rundefers; load; return, all in one block): the value last stored into the cell.
func c18ReturnedValue(ret *ssa.Return, k int) ssa.Value {
	v := ret.Results[k]
	u, ok := v.(*ssa.UnOp)
	if !ok || u.Op != token.MUL {
		return v
	}
	a, ok := u.X.(*ssa.Alloc)
	if !ok {
		return v
	}
	b := ret.Block()
	for i := len(b.Instrs) - 1; i >= 0; i-- {
		if st, ok := b.Instrs[i].(*ssa.Store); ok && st.Addr == ssa.Value(a) {
			return st.Val
		}
	}
	return v
}

// c18EvalCopyOf finds the per-evaluation copy of the receiver in fn: the local Interp variable that receives
// `*recv` (returned as its address), or the result of a helper of the same package that makes such a copy of its
// own receiver and returns its address. It returns the value standing for the copy in fn, and for the helper form
// the helper and the copy variable inside it.
func c18EvalCopyOf(fn *ssa.Function) (ssa.Value, *ssa.Function, *ssa.Alloc) {
	copyIn := func(f *ssa.Function, src ssa.Value) *ssa.Alloc {
		var cp *ssa.Alloc
		fw.EachInstr(f, func(ins ssa.Instruction) {
			st, ok := ins.(*ssa.Store)
			if !ok {
				return
			}
			a, ok := st.Addr.(*ssa.Alloc)
			if !ok || shortType(a.Type()) != "*pkg/interp.Interp" {
				return
			}
			if u, ok := st.Val.(*ssa.UnOp); ok && u.Op == token.MUL && c18Cell(u.X, 0) == src {
				cp = a
			}
		})
		return cp
	}
	if len(fn.Params) == 0 {
		return nil, nil, nil
	}
	recv := ssa.Value(fn.Params[0])
	if cp := copyIn(fn, recv); cp != nil {
		return cp, nil, nil
	}
	for _, c := range fw.CallsIn(fn) {
		call, ok := c.(*ssa.Call)
		if !ok {
			continue
		}
		h := call.Common().StaticCallee()
		if h == nil || h.Pkg != fn.Pkg || len(h.Params) == 0 || shortType(call.Type()) != "*pkg/interp.Interp" {
			continue
		}
		for k, a := range call.Common().Args {
			if c18Cell(a, 0) != recv || k >= len(h.Params) {
				continue
			}
			cp := copyIn(h, h.Params[k])
			if cp == nil {
				continue
			}
			all := true
			n := 0
			fw.EachInstr(h, func(ins ssa.Instruction) {
				if ret, ok := ins.(*ssa.Return); ok {
					n++
					if len(ret.Results) == 0 || c18Cell(ret.Results[0], 0) != ssa.Value(cp) {
						all = false
					}
				}
			})
			if all && n > 0 {
				return call, h, cp
			}
		}
	}
	return nil, nil, nil
}

// c18FlagExcludes: reaching the block `at` from `fail` (the failing side of the test of errv) is infeasible
// although the CFG has the path: `at` is guarded either by the success test of the same error value (directly or
// through a boolean local defined once as errv ==/!= nil, in the right polarity), or by a boolean that every
// path through `fail` sets to the losing constant (cacheable := true; if err != nil { ...; cacheable = false };
// if cacheable { store }). A flag computed from another error, tested the wrong way round, or not tested at all
// excludes nothing.
func c18FlagExcludes(fail, at *ssa.BasicBlock, errv ssa.Value) bool {
	for _, g := range fw.Guards(at) {
		want := g.True
		cond := g.Cond
		for {
			u, ok := cond.(*ssa.UnOp)
			if !ok || u.Op != token.NOT {
				break
			}
			cond, want = u.X, !want
		}
		// the guard is the success test of the very same error value, in either spelling, possibly held in a
		// boolean local (useCache := err == nil ... if useCache { store }): `at` runs only when errv == nil
		if bo, ok := cond.(*ssa.BinOp); ok && (bo.Op == token.EQL || bo.Op == token.NEQ) {
			var ev ssa.Value
			if c, isC := bo.Y.(*ssa.Const); isC && c.IsNil() {
				ev = bo.X
			} else if c, isC := bo.X.(*ssa.Const); isC && c.IsNil() {
				ev = bo.Y
			}
			if ev != nil && ev == errv && (bo.Op == token.EQL) == want {
				return true
			}
			continue
		}
		ph, ok := cond.(*ssa.Phi)
		if !ok || !c18Reaches(fail, ph.Block()) {
			continue
		}
		n, good := 0, true
		for i, e := range ph.Edges {
			pred := ph.Block().Preds[i]
			if !(pred == fail || c18Reaches(fail, pred)) {
				continue
			}
			n++
			c, isC := e.(*ssa.Const)
			if !isC || c.Value == nil || c.Value.Kind() != constant.Bool || constant.BoolVal(c.Value) == want {
				good = false
			}
		}
		if n > 0 && good {
			return true
		}
	}
	return false
}
