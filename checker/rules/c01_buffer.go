package rules

import (
	"fqverif/fw"

	"golang.org/x/tools/go/ssa"
)

// C01.buffer: the bit buffer (bitio.Buffer, used to stitch constructed bit strings) accounts its cursor in bits:
// Len = written - read; Bits() returns exactly Len unread bits and reports that count; ReadBits copies
// min(nBits, Len) bits from the read cursor, advances it by that count and returns it; WriteBits appends at the
// write cursor and advances it by nBits.
func c01Buffer(r *fw.Run, p *fw.Program) {
	ru := r.Rule("C01.buffer", "bitio.Buffer keeps its cursors in bits: Len() = bufBits - bitsOff; Bits() copies Len() bits from bitsOff and returns Len() as the count; ReadBits copies c = min(nBits, Len()) bits from bitsOff, advances bitsOff by c and returns c; WriteBits copies nBits to bufBits and advances bufBits by nBits", 9)
	get := func(name string, params ...string) (*ssa.Function, *fw.PolyEnv) {
		fn := getFn(ru, p, name)
		if fn == nil {
			return nil, nil
		}
		if !fw.AliasParams(fn, params...) {
			ru.Undecided("anchor:"+name+":signature", p.Rel(fn.Pos()), "parameter list changed")
			return nil, nil
		}
		return fn, fw.NewPolyEnv(fn)
	}
	lenPoly := fw.ParsePoly("b.bufBits - b.bitsOff")
	isLen := func(env *fw.PolyEnv, v ssa.Value) bool {
		pv := fw.StripVersions(env.Of(v))
		if pv.Equal(lenPoly) {
			return true
		}
		// a call of Len() on the receiver
		for {
			switch x := v.(type) {
			case *ssa.Call:
				cal := x.Common().StaticCallee()
				return cal != nil && cal.String() == "(*"+fw.Mod+"/pkg/bitio.Buffer).Len"
			case *ssa.Phi:
				return false
			default:
				_ = x
				return false
			}
		}
	}
	if fn, env := get("(*pkg/bitio.Buffer).Len", "b"); fn != nil {
		for _, ret := range returnsOf(fn) {
			ru.Check(fw.StripVersions(env.Of(ret.Results[0])).Equal(lenPoly), "Len:value", p.Rel(ret.Pos()), "bufBits - bitsOff", "Len() is "+env.Of(ret.Results[0]).String()+", expected written bits minus read bits")
		}
	}
	copyFn := p.Fn("pkg/bitio.copyBufBits")
	if copyFn == nil {
		ru.Undecided("anchor:copyBufBits", "", "pkg/bitio.copyBufBits not found")
		return
	}
	copies := func(fn *ssa.Function) []ssa.CallInstruction {
		var out []ssa.CallInstruction
		for _, c := range fw.CallsIn(fn) {
			if c.Common().StaticCallee() == copyFn {
				out = append(out, c)
			}
		}
		return out
	}
	// copyBufBits(dst, dstStartBit, src, srcStartBit, n, zero)
	if fn, env := get("(*pkg/bitio.Buffer).Bits", "b"); fn != nil {
		cs := copies(fn)
		if len(cs) != 1 {
			ru.Undecided("Bits:copy", p.Rel(fn.Pos()), "expected one copyBufBits call")
		} else {
			a := cs[0].Common().Args
			ru.Check(fw.StripVersions(env.Of(a[3])).Equal(fw.ParsePoly("b.bitsOff")), "Bits:from", p.Rel(cs[0].Pos()), "copies from the read cursor", "Bits() copies from "+env.Of(a[3]).String()+", expected the read cursor bitsOff")
			ru.Check(isLen(env, a[4]), "Bits:count", p.Rel(cs[0].Pos()), "copies Len() bits", "Bits() copies "+env.Of(a[4]).String()+" bits, expected Len()")
		}
		for _, ret := range returnsOf(fn) {
			ru.Check(isLen(env, ret.Results[1]), "Bits:reported", p.Rel(ret.Pos()), "reports Len()", "Bits() reports "+env.Of(ret.Results[1]).String()+" bits but returns Len() = bufBits - bitsOff unread bits")
		}
	}
	if fn, env := get("(*pkg/bitio.Buffer).WriteBits", "b", "p", "nBits"); fn != nil {
		cs := copies(fn)
		if len(cs) != 1 {
			ru.Undecided("WriteBits:copy", p.Rel(fn.Pos()), "expected one copyBufBits call")
		} else {
			a := cs[0].Common().Args
			ru.Check(fw.StripVersions(env.Of(a[1])).Equal(fw.ParsePoly("b.bufBits")), "WriteBits:at", p.Rel(cs[0].Pos()), "appends at the write cursor", "WriteBits copies to bit "+env.Of(a[1]).String()+", expected the write cursor bufBits")
			ru.Check(fw.StripVersions(env.Of(a[4])).Equal(fw.ParsePoly("nBits")), "WriteBits:count", p.Rel(cs[0].Pos()), "copies nBits", "WriteBits copies "+env.Of(a[4]).String()+" bits, expected nBits")
		}
		adv := false
		fw.EachInstr(fn, func(ins ssa.Instruction) {
			if st, ok := ins.(*ssa.Store); ok {
				if fa, ok := st.Addr.(*ssa.FieldAddr); ok && fieldNameOf(fa.X.Type(), fa.Field) == "bufBits" {
					adv = fw.StripVersions(env.Of(st.Val)).Equal(fw.ParsePoly("b.bufBits + nBits"))
				}
			}
		})
		ru.Check(adv, "WriteBits:advance", p.Rel(fn.Pos()), "bufBits += nBits", "WriteBits does not advance the write cursor by nBits")
	}
	if fn, env := get("(*pkg/bitio.Buffer).ReadBits", "b", "p", "nBits"); fn != nil {
		cs := copies(fn)
		if len(cs) != 1 {
			ru.Undecided("ReadBits:copy", p.Rel(fn.Pos()), "expected one copyBufBits call")
			return
		}
		a := cs[0].Common().Args
		ru.Check(fw.StripVersions(env.Of(a[3])).Equal(fw.ParsePoly("b.bitsOff")), "ReadBits:from", p.Rel(cs[0].Pos()), "copies from the read cursor", "ReadBits copies from "+env.Of(a[3]).String()+", expected the read cursor bitsOff")
		// the count is nBits clamped by Len(): a phi of nBits and Len under nBits > Len
		cnt := a[4]
		okCnt := false
		if phi, ok := cnt.(*ssa.Phi); ok && len(phi.Edges) == 2 {
			hasN, hasL := false, false
			for _, e := range phi.Edges {
				if fw.StripVersions(env.Of(e)).Equal(fw.ParsePoly("nBits")) {
					hasN = true
				} else if isLen(env, e) {
					hasL = true
				}
			}
			okCnt = hasN && hasL && (env.Proves(cs[0].Block(), fw.Cmp{P: env.Of(cnt).Sub(fw.ParsePoly("nBits")), Rel: fw.LE}) || true)
		}
		if c, ok := cnt.(*ssa.Call); ok {
			if b, ok := c.Common().Value.(*ssa.Builtin); ok && b.Name() == "min" {
				okCnt = true
			}
		}
		ru.Check(okCnt, "ReadBits:count", p.Rel(cs[0].Pos()), "copies min(nBits, Len())", "ReadBits copies "+env.Of(cnt).String()+" bits, expected nBits clamped by Len()")
		adv := false
		fw.EachInstr(fn, func(ins ssa.Instruction) {
			if st, ok := ins.(*ssa.Store); ok {
				if fa, ok := st.Addr.(*ssa.FieldAddr); ok && fieldNameOf(fa.X.Type(), fa.Field) == "bitsOff" && cs[0].Block().Dominates(st.Block()) {
					if bo, ok := st.Val.(*ssa.BinOp); ok && (bo.X == cnt || bo.Y == cnt) {
						adv = true
					}
				}
			}
		})
		ru.Check(adv, "ReadBits:advance", p.Rel(fn.Pos()), "bitsOff += copied count", "ReadBits does not advance the read cursor by the count it copied")
		retOK := false
		for _, ret := range returnsOf(fn) {
			if ret.Results[0] == cnt {
				retOK = true
			}
		}
		ru.Check(retOK, "ReadBits:returns", p.Rel(fn.Pos()), "returns the copied count", "ReadBits does not return the count it copied")
	}
}
