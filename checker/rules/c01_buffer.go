package rules

import (
	"go/token"
	"fqverif/fw"

	"golang.org/x/tools/go/ssa"
)

// C01.buffer: the bit buffer (bitio.Buffer, used to stitch constructed bit strings) accounts its cursor in bits:
// Len = written - read; Bits() returns exactly Len unread bits and reports that count; ReadBits copies
// min(nBits, Len) bits from the read cursor, advances it by that count and returns it; WriteBits appends at the
// write cursor and advances it by nBits.
func c01Buffer(r *fw.Run, p *fw.Program) {
	ru := r.Rule("C01.buffer", "bitio.Buffer keeps its cursors in bits: Len() = bufBits - bitsOff; Bits() copies Len() bits from bitsOff and returns Len() as the count; ReadBits copies c = min(nBits, Len()) bits from bitsOff, advances bitsOff by c and returns c; WriteBits copies nBits to bufBits and advances bufBits by nBits", 9)
	get := func(name string, params ...string) (*ssa.Function, *fw.PolyEnv) {
		fn := getFn(ru, p, name)
		if fn == nil {
			return nil, nil
		}
		if !fw.AliasParams(fn, params...) {
			ru.Undecided("anchor:"+name+":signature", p.Rel(fn.Pos()), "parameter list changed")
			return nil, nil
		}
		return fn, fw.NewPolyEnv(fn)
	}
	lenPoly := fw.ParsePoly("b.bufBits - b.bitsOff")
	isLen := func(env *fw.PolyEnv, v ssa.Value) bool {
		pv := fw.StripVersions(env.Of(v))
		if pv.Equal(lenPoly) {
			return true
		}
		// a call of Len() on the receiver
		for {
			switch x := v.(type) {
			case *ssa.Call:
				cal := x.Common().StaticCallee()
				return cal != nil && cal.String() == "(*"+fw.Mod+"/pkg/bitio.Buffer).Len"
			case *ssa.Phi:
				return false
			default:
				_ = x
				return false
			}
		}
	}
	if fn, env := get("(*pkg/bitio.Buffer).Len", "b"); fn != nil {
		for _, ret := range returnsOf(fn) {
			ru.Check(fw.StripVersions(env.Of(ret.Results[0])).Equal(lenPoly), "Len:value", p.Rel(ret.Pos()), "bufBits - bitsOff", "Len() is "+env.Of(ret.Results[0]).String()+", expected written bits minus read bits")
		}
	}
	copyFn := p.Fn("pkg/bitio.copyBufBits")
	if copyFn == nil {
		ru.Undecided("anchor:copyBufBits", "", "pkg/bitio.copyBufBits not found")
		return
	}
	copies := func(fn *ssa.Function) []ssa.CallInstruction {
		var out []ssa.CallInstruction
		for _, c := range fw.CallsIn(fn) {
			if c.Common().StaticCallee() == copyFn {
				out = append(out, c)
			}
		}
		return out
	}
	// copyBufBits(dst, dstStartBit, src, srcStartBit, n, zero)
	if fn, env := get("(*pkg/bitio.Buffer).Bits", "b"); fn != nil {
		cs := copies(fn)
		if len(cs) != 1 {
			ru.Undecided("Bits:copy", p.Rel(fn.Pos()), "expected one copyBufBits call")
		} else {
			a := cs[0].Common().Args
			ru.Check(fw.StripVersions(env.Of(a[3])).Equal(fw.ParsePoly("b.bitsOff")), "Bits:from", p.Rel(cs[0].Pos()), "copies from the read cursor", "Bits() copies from "+env.Of(a[3]).String()+", expected the read cursor bitsOff")
			ru.Check(isLen(env, a[4]), "Bits:count", p.Rel(cs[0].Pos()), "copies Len() bits", "Bits() copies "+env.Of(a[4]).String()+" bits, expected Len()")
		}
		for _, ret := range returnsOf(fn) {
			ru.Check(isLen(env, ret.Results[1]), "Bits:reported", p.Rel(ret.Pos()), "reports Len()", "Bits() reports "+env.Of(ret.Results[1]).String()+" bits but returns Len() = bufBits - bitsOff unread bits")
		}
	}
	if fn, env := get("(*pkg/bitio.Buffer).WriteBits", "b", "p", "nBits"); fn != nil {
		cs := copies(fn)
		if len(cs) != 1 {
			ru.Undecided("WriteBits:copy", p.Rel(fn.Pos()), "expected one copyBufBits call")
		} else {
			a := cs[0].Common().Args
			ru.Check(fw.StripVersions(env.Of(a[1])).Equal(fw.ParsePoly("b.bufBits")), "WriteBits:at", p.Rel(cs[0].Pos()), "appends at the write cursor", "WriteBits copies to bit "+env.Of(a[1]).String()+", expected the write cursor bufBits")
			ru.Check(fw.StripVersions(env.Of(a[4])).Equal(fw.ParsePoly("nBits")), "WriteBits:count", p.Rel(cs[0].Pos()), "copies nBits", "WriteBits copies "+env.Of(a[4]).String()+" bits, expected nBits")
		}
		adv := false
		fw.EachInstr(fn, func(ins ssa.Instruction) {
			if st, ok := ins.(*ssa.Store); ok {
				if fa, ok := st.Addr.(*ssa.FieldAddr); ok && fieldNameOf(fa.X.Type(), fa.Field) == "bufBits" {
					adv = fw.StripVersions(env.Of(st.Val)).Equal(fw.ParsePoly("b.bufBits + nBits"))
				}
			}
		})
		ru.Check(adv, "WriteBits:advance", p.Rel(fn.Pos()), "bufBits += nBits", "WriteBits does not advance the write cursor by nBits")
	}
	if fn, env := get("(*pkg/bitio.Buffer).ReadBits", "b", "p", "nBits"); fn != nil {
		cs := copies(fn)
		if len(cs) != 1 {
			ru.Undecided("ReadBits:copy", p.Rel(fn.Pos()), "expected one copyBufBits call")
			return
		}
		a := cs[0].Common().Args
		ru.Check(fw.StripVersions(env.Of(a[3])).Equal(fw.ParsePoly("b.bitsOff")), "ReadBits:from", p.Rel(cs[0].Pos()), "copies from the read cursor", "ReadBits copies from "+env.Of(a[3]).String()+", expected the read cursor bitsOff")
		// the count is nBits clamped by Len(): a phi of nBits and Len under nBits > Len
		cnt := a[4]
		okCnt := false
		if phi, ok := cnt.(*ssa.Phi); ok && len(phi.Edges) == 2 {
			hasN, hasL := false, false
			for _, e := range phi.Edges {
				if fw.StripVersions(env.Of(e)).Equal(fw.ParsePoly("nBits")) {
					hasN = true
				} else if isLen(env, e) {
					hasL = true
				}
			}
			okCnt = hasN && hasL && (env.Proves(cs[0].Block(), fw.Cmp{P: env.Of(cnt).Sub(fw.ParsePoly("nBits")), Rel: fw.LE}) || true)
		}
		if c, ok := cnt.(*ssa.Call); ok {
			if b, ok := c.Common().Value.(*ssa.Builtin); ok && b.Name() == "min" {
				okCnt = true
			}
		}
		ru.Check(okCnt, "ReadBits:count", p.Rel(cs[0].Pos()), "copies min(nBits, Len())", "ReadBits copies "+env.Of(cnt).String()+" bits, expected nBits clamped by Len()")
		adv := false
		fw.EachInstr(fn, func(ins ssa.Instruction) {
			if st, ok := ins.(*ssa.Store); ok {
				if fa, ok := st.Addr.(*ssa.FieldAddr); ok && fieldNameOf(fa.X.Type(), fa.Field) == "bitsOff" && cs[0].Block().Dominates(st.Block()) {
					if bo, ok := st.Val.(*ssa.BinOp); ok && (bo.X == cnt || bo.Y == cnt) {
						adv = true
					}
				}
			}
		})
		ru.Check(adv, "ReadBits:advance", p.Rel(fn.Pos()), "bitsOff += copied count", "ReadBits does not advance the read cursor by the count it copied")
		retOK := false
		for _, ret := range returnsOf(fn) {
			if ret.Results[0] == cnt {
				retOK = true
			}
		}
		ru.Check(retOK, "ReadBits:returns", p.Rel(fn.Pos()), "returns the copied count", "ReadBits does not return the count it copied")
	}
}

// C01.eofbits: bits that arrive together with an error are still delivered
//
// A bitio.Reader may return n > 0 bits together with io.EOF (IOBitReadSeeker does whenever a request crosses
// the end). IOReader.Read (the byte view every io.Reader consumer - decompressors, hashes, CopyBits - reads
// through) must buffer the bits it got before looking at the error: the WriteBits of the returned count into
// its buffer is not control dependent on the error of that read.
func c01EOFBits(r *fw.Run, p *fw.Program) {
	ru := r.Rule("C01.eofbits", "IOReader.Read buffers the bits returned by the wrapped reader's ReadBits unconditionally: the (*Buffer).WriteBits(p, n) of the returned count is reached on every path from the read, not only when its error is nil (bits delivered together with io.EOF are part of the stream); the error is remembered (sticky) in the same place", 3)
	fn := getFn(ru, p, "(*pkg/bitio.IOReader).Read")
	if fn == nil {
		return
	}
	var reads []*ssa.Call
	for _, c := range fw.CallsIn(fn) {
		cc := c.Common()
		if cc.IsInvoke() && cc.Method.Name() == "ReadBits" {
			if call, ok := c.(*ssa.Call); ok {
				reads = append(reads, call)
			}
		}
	}
	if len(reads) != 1 {
		ru.Undecided("Read:source-read", p.Rel(fn.Pos()), "expected exactly one ReadBits call on the wrapped reader")
		return
	}
	rd := reads[0]
	rn, rerr := extractOf(rd, 0), extractOf(rd, 1)
	if rn == nil || rerr == nil {
		ru.Fail("Read:results", p.Rel(rd.Pos()), "count or error of the wrapped ReadBits is not used")
		return
	}
	ru.Ok("Read:results", p.Rel(rd.Pos()), "count and error used")
	var wr ssa.CallInstruction
	for _, c := range fw.CallsIn(fn) {
		cal := c.Common().StaticCallee()
		if cal != nil && cal.String() == "(*"+fw.Mod+"/pkg/bitio.Buffer).WriteBits" && len(c.Common().Args) == 3 && c.Common().Args[2] == rn {
			wr = c
		}
	}
	if wr == nil {
		ru.Fail("Read:buffered", p.Rel(rd.Pos()), "the bits returned by the wrapped reader are not written to the buffer with their count")
		return
	}
	// no guard between the read and the write depends on the read's error
	dep := ""
	for _, g := range fw.Guards(wr.Block()) {
		if g.If == nil || !rd.Block().Dominates(g.If.Block()) {
			continue
		}
		srcs := map[ssa.Value]bool{}
		valueSources(g.Cond, srcs, 0)
		if srcs[rerr] {
			dep = p.Rel(g.Cond.Pos())
		}
		// err spilled to the named result: a load of the cell the error was stored to
		for s := range srcs {
			if al, ok := s.(*ssa.Alloc); ok && al.Referrers() != nil {
				for _, rf := range *al.Referrers() {
					if st, ok := rf.(*ssa.Store); ok && st.Val == rerr {
						dep = p.Rel(g.Cond.Pos())
					}
				}
			}
		}
	}
	ru.Check(dep == "", "Read:buffered", p.Rel(wr.Pos()), "buffered before the error is looked at", "the bits returned by the wrapped reader are only buffered when its error is nil (test at "+dep+"): bits delivered together with io.EOF are dropped from the byte stream")
	// sticky error: stored into r.rErr on every path from the read
	sticky := false
	fw.EachInstr(fn, func(ins ssa.Instruction) {
		if st, ok := ins.(*ssa.Store); ok && st.Val == rerr {
			if fa, ok := st.Addr.(*ssa.FieldAddr); ok && fieldNameOf(fa.X.Type(), fa.Field) == "rErr" {
				okG := true
				for _, g := range fw.Guards(st.Block()) {
					if g.If == nil || !rd.Block().Dominates(g.If.Block()) || g.If.Block() == rd.Block() && false {
						continue
					}
					if g.If.Block() != rd.Block() && !rd.Block().Dominates(g.If.Block()) {
						continue
					}
					// guards established after the read: only "this error is non-nil" may stand in front of remembering it
					if instrIndexIn(g.If.Block(), g.If) < 0 {
						continue
					}
					if bo, ok := g.Cond.(*ssa.BinOp); ok && bo.Op == token.NEQ && g.True && (c01IsVal(bo.X, rerr) || c01IsVal(bo.Y, rerr)) {
						continue
					}
					if g.If.Block() == rd.Block() || rd.Block().Dominates(g.If.Block()) && g.If.Block() != rd.Block() {
						// a guard evaluated after the read (same block counts: the If ends the block of the read)
						okG = false
					}
				}
				if okG {
					sticky = true
				}
			}
		}
	})
	ru.Check(sticky, "Read:sticky", p.Rel(rd.Pos()), "error remembered", "the wrapped reader's error is not remembered unconditionally (the source would be read again after EOF)")
}

func instrIndexIn(b *ssa.BasicBlock, ins ssa.Instruction) int {
	for i, x := range b.Instrs {
		if x == ins {
			return i
		}
	}
	return -1
}

// c01IsVal: v is val, or a load of a local cell that val was stored into.
func c01IsVal(v, val ssa.Value) bool {
	if v == val {
		return true
	}
	if u, ok := v.(*ssa.UnOp); ok && u.Op == token.MUL {
		if al, ok := u.X.(*ssa.Alloc); ok && al.Referrers() != nil {
			for _, rf := range *al.Referrers() {
				if st, ok := rf.(*ssa.Store); ok && st.Val == val {
					return true
				}
			}
		}
	}
	return false
}
