package rules

// Positive controls for C08: seeded one-to-five-line slips in the anchored mechanisms; each must make
// exactly the named rule report the named construct.

func init() {
	const D = "pkg/interp/decode.go"
	const T = "internal/gojqx/types.go"
	const V = "internal/gojqx/totype.go"
	const S = "pkg/scalar/scalar_gen.go"
	add := func(id, rule, file, old, new, key string) {
		AddControl(Control{ID: id, Prop: "C08", Rule: rule, File: file, Old: old, New: new, ExpectKey: key})
	}
	add("c08-anchors-two-object-types", "C08.anchors", T,
		"func (v Array) JQValueType() string { return gojq.JQTypeArray }",
		"func (v Array) JQValueType() string { return gojq.JQTypeObject }", "kind:")
	add("c08-value-sym-inverted", "C08.value", S,
		"func (s Uint) ScalarValue() any {\n\tif s.Sym != nil {",
		"func (s Uint) ScalarValue() any {\n\tif s.Sym == nil {", "Uint.ScalarValue")
	add("c08-value-actual-returns-sym", "C08.value", S,
		"func (s Sint) ScalarActual() any { return s.Actual }",
		"func (s Sint) ScalarActual() any { return s.Sym }", "Sint.ScalarActual")
	add("c08-kinds-uint64-signed", "C08.kinds", D,
		"gojqx.Number{V: new(big.Int).SetUint64(vvv)}",
		"gojqx.Number{V: big.NewInt(int64(vvv))}", "arm:uint64")
	add("c08-kinds-raw-not-marked", "C08.kinds", D,
		"\t\t\t\tdecodeValueBase: decodeValueBase{dv: dv},\n\t\t\t\tisRaw:           true,\n",
		"\t\t\t\tdecodeValueBase: decodeValueBase{dv: dv},\n", "arm:pkg/bitio.ReaderAtSeeker")
	add("c08-kinds-struct-typed-array", "C08.kinds", D,
		"Base:            gojqx.Base{Typ: gojq.JQTypeObject},",
		"Base:            gojqx.Base{Typ: gojq.JQTypeArray},", "ctor:StructDecodeValue")
	add("c08-kindsel-actual-key-wraps-value", "C08.kindsel", D,
		"return makeDecodeValue(dv, decodeValueActual)",
		"return makeDecodeValue(dv, decodeValueValue)", "JQValueKey#1")
	add("c08-kindsel-tovalue-uses-actual", "C08.kindsel", D,
		"\t\tvm[f.Name] = makeDecodeValue(f, decodeValueValue)",
		"\t\tvm[f.Name] = makeDecodeValue(f, decodeValueActual)", "JQValueToGoJQEx#1")
	add("c08-keys-gap-missing-in-has", "C08.keys", D,
		"\t\t\"_format\",\n\t\t\"_gap\",\n\t\t\"_index\",\n\t\t\"_len\",\n\t\t\"_name\",\n\t\t\"_out\",\n\t\t\"_parent\",\n\t\t\"_path\",\n\t\t\"_root\",\n\t\t\"_start\",\n\t\t\"_stop\",\n\t\t\"_sym\":",
		"\t\t\"_format\",\n\t\t\"_index\",\n\t\t\"_len\",\n\t\t\"_name\",\n\t\t\"_out\",\n\t\t\"_parent\",\n\t\t\"_path\",\n\t\t\"_root\",\n\t\t\"_start\",\n\t\t\"_stop\",\n\t\t\"_sym\":", "key:_gap")
	add("c08-fallback-key-by-nilness", "C08.fallback", D,
		"\tv := valueHas(name)\n\tif b, ok := v.(bool); ok && b {\n\t\treturn valueKey(name)\n\t}\n\treturn baseKey(name)",
		"\tif v := valueKey(name); v != nil {\n\t\tif _, isErr := v.(error); !isErr {\n\t\t\treturn v\n\t\t}\n\t}\n\t_ = valueHas\n\treturn baseKey(name)", "key:")
	add("c08-fallback-has-inverted", "C08.fallback", D,
		"if b, ok := v.(bool); ok && !b {",
		"if b, ok := v.(bool); ok && b {", "has:")
	add("c08-layer-base-over-value", "C08.layer", D,
		"return valueOrFallbackKey(name, v.decodeValueBase.JQValueKey, v.JQValue.JQValueHas, v.JQValue.JQValueKey)",
		"return valueOrFallbackKey(name, v.JQValue.JQValueKey, v.JQValue.JQValueHas, v.decodeValueBase.JQValueKey)", "decodeValue).JQValueKey")
	add("c08-iface-string-slice-bytes", "C08.iface", T,
		"func (v String) JQValueSlice(start int, end int) any { return string(v[start:end]) }",
		"func (v String) JQValueSlice(start int, end int) any { return string(v)[start:end] }", "String.Slice")
	add("c08-iface-array-slice-drops-start", "C08.iface", D,
		"\tfor i, e := range (v.Compound.Children)[start:end] {\n\t\tvs[i] = makeDecodeValue(e, decodeValueValue)\n\t}",
		"\tfor i := range vs {\n\t\tvs[i] = makeDecodeValue(v.Compound.Children[i], decodeValueValue)\n\t}", "ArrayDecodeValue.Slice")
	add("c08-iface-array-index-off-by-one", "C08.iface", D,
		"\tif index < 0 {\n\t\treturn nil\n\t}\n\treturn makeDecodeValue((v.Compound.Children)[index]",
		"\tif index <= 0 {\n\t\treturn nil\n\t}\n\treturn makeDecodeValue((v.Compound.Children)[index]", "ArrayDecodeValue.Index")
	add("c08-iface-array-has-inclusive", "C08.iface", D,
		"return intKey >= 0 && intKey < len(v.Compound.Children)",
		"return intKey >= 0 && intKey <= len(v.Compound.Children)", "ArrayDecodeValue.Has")
	add("c08-iface-array-has-float-key-refused", "C08.iface", T,
		"\tcase float64:\n\t\tswitch {\n\t\tcase math.MinInt <= key && key <= math.MaxInt:",
		"\tcase float32:\n\t\tswitch {\n\t\tcase math.MinInt <= key && key <= math.MaxInt:", "Has:numbers")
	add("c08-iface-array-has-int-only-again", "C08.iface", D,
		"\t\t\tintKey, ok := gojqx.HasIndex(key)\n",
		"\t\t\tintKey, ok := func(k any) (int, bool) { i, ok := k.(int); return i, ok }(key)\n", "ArrayDecodeValue.Has")
	add("c08-iface-struct-length-other-collection", "C08.iface", D,
		"func (v StructDecodeValue) JQValueLength() any   { return len(v.Compound.Children) }",
		"func (v StructDecodeValue) JQValueLength() any   { return len(v.Compound.ByName) }", "StructDecodeValue.Keys")
	add("c08-iface-string-length-bytes", "C08.iface", T,
		"func (v String) JQValueLength() any   { return len(v) }",
		"func (v String) JQValueLength() any   { return len(string(v)) }", "String.Length")
	add("c08-iface-struct-key-nil-child", "C08.iface", D,
		"\t\t\t\tif f, ok := v.Compound.ByName[name]; ok {\n\t\t\t\t\treturn makeDecodeValue(f, decodeValueValue)",
		"\t\t\t\tif f, ok := v.Compound.ByName[name]; !ok {\n\t\t\t\t\treturn makeDecodeValue(f, decodeValueValue)", "StructDecodeValue.Key")
	add("c08-togojq-skip-without-option", "C08.togojq", D,
		"\t\t\tif s.ScalarFlags().IsGap() && opts.SkipGaps {\n\t\t\t\tcontinue\n\t\t\t}\n\t\t}\n\n\t\tvm[f.Name]",
		"\t\t\tif s.ScalarFlags().IsGap() || opts.SkipGaps {\n\t\t\t\tcontinue\n\t\t\t}\n\t\t}\n\n\t\tvm[f.Name]", "StructDecodeValue.ToGoJQEx")
	add("c08-togojq-wrapper-type-leaks", "C08.togojq", T,
		"func (v Boolean) JQValueToGoJQ() any { return bool(v) }",
		"func (v Boolean) JQValueToGoJQ() any { return v }", "Boolean.ToGoJQ")
	add("c08-togojq-raw-test-inverted", "C08.togojq", D,
		"\tif !v.isRaw {\n\t\treturn v.JQValueToGoJQ()",
		"\tif v.isRaw {\n\t\treturn v.JQValueToGoJQ()", "decodeValue.ToGoJQEx")
	add("c08-typ-wrong-type-name", "C08.typ", T,
		"func (v Number) JQValueKeys() any           { return FuncTypeNameError{Name: \"keys\", Typ: gojq.JQTypeNumber} }",
		"func (v Number) JQValueKeys() any           { return FuncTypeNameError{Name: \"keys\", Typ: gojq.JQTypeString} }", "Number.Keys")
	add("c08-lazy-swapped-args", "C08.lazy", T,
		"return jv.JQValueSlice(start, end)",
		"return jv.JQValueSlice(end, start)", "Lazy.Slice")
	add("c08-lazy-wrong-method", "C08.lazy", T,
		"return v.f(func(jv gojq.JQValue) any { return jv.JQValueSliceLen() })",
		"return v.f(func(jv gojq.JQValue) any { return jv.JQValueLength() })", "Lazy.SliceLen")
	add("c08-order-struct-keys-from-map", "C08.order", D,
		"\tfor i, f := range v.Compound.Children {\n\t\tvs[i] = f.Name\n\t}",
		"\ti := 0\n\tfor k := range v.Compound.ByName {\n\t\tvs[i] = k\n\t\ti++\n\t}", "StructDecodeValue.Keys")
	// C08.numlen: the only instance (gojqx.Number) is a recorded finding on the unfixed tree; this control
	// applies once the proposed fix is in (it is "skipped" before).
	add("c08-numlen-identity-again", "C08.numlen", T,
		"func (v Number) JQValueLength() any {\n\t// length of a number is its absolute value\n\tswitch vv := v.V.(type) {",
		"func (v Number) JQValueLength() any { return v.V }\nfunc (v Number) jqValueLengthUnused() any {\n\tswitch vv := v.V.(type) {", "Number.Length")
	add("c08-nullsem-length-nonzero", "C08.nullsem", T,
		"func (v Null) JQValueLength() any { return 0 }",
		"func (v Null) JQValueLength() any { return 1 }", "Null.Length")
	add("c08-pure-bigint-abs-in-place", "C08.pure", T,
		"return new(big.Int).Abs(vv)", "return vv.Abs(vv)", "Number).JQValueLength")
	add("c08-pure-delete-from-payload-map", "C08.pure", T,
		"func (v Object) JQValueKey(name string) any { return v[name] }",
		"func (v Object) JQValueKey(name string) any { r := v[name]; delete(v, name); return r }", "Object).JQValueKey")
	add("c08-layer-extkey-fast-path", "C08.layer", D,
		"func (v StructDecodeValue) JQValueKey(name string) any {\n\treturn valueOrFallbackKey(",
		"func (v StructDecodeValue) JQValueKey(name string) any {\n\tif bv := v.decodeValueBase.JQValueKey(name); bv != nil {\n\t\treturn bv\n\t}\n\treturn valueOrFallbackKey(", "returns:StructDecodeValue.JQValueKey")
	add("c08-tovalue-default-not-reconverted", "C08.tovalue", V,
		"\t\treturn ToGoJQValueFn(nv, valueFn)\n",
		"\t\treturn nv, nil\n", "default")
	add("c08-tovalue-options-test-inverted", "C08.tovalue", D,
		"\t\t\tif optsFn == nil {\n\t\t\t\treturn v.JQValueToGoJQ(), nil",
		"\t\t\tif optsFn != nil {\n\t\t\t\treturn v.JQValueToGoJQ(), nil", "toValue:")
	add("c08-jq-tovalue-skips-gaps", "C08.jq", "pkg/interp/options.jq",
		"    , skip_gaps:          false\n", "    , skip_gaps:          true\n", "default:skip_gaps")
	add("c08-jq-tosym-uses-actual", "C08.jq", "pkg/interp/decode.jq",
		"def tosym($opts): _decode_value(._sym) | tovalue($opts);", "def tosym($opts): _decode_value(._actual) | tovalue($opts);", "tosym/1")
	add("c08-jq-tovalue-ignores-options", "C08.jq", "pkg/interp/decode.jq",
		"def tovalue($opts): _tovalue(options($opts));", "def tovalue($opts): _tovalue(options({}));", "tovalue/1")
	add("c08-jq-go-converts-options", "C08.jq", D,
		"v, err := toValue(func() (*Options, error) { return opts, nil }, c)",
		"v, err := toValue(func() (*Options, error) { return opts, nil }, om)", "_tovalue")
	add("c08-tovalue-int64-unsigned", "C08.tovalue", V,
		"\t\treturn big.NewInt(vv), nil\n",
		"\t\treturn new(big.Int).SetUint64(uint64(vv)), nil\n", "leaf:int64")
	// round 3 (self-review by mutation)
	add("c08-numlen-int-sign-inverted", "C08.numlen", T,
		"\tcase int:\n\t\tif vv < 0 {\n\t\t\treturn -vv", "\tcase int:\n\t\tif vv > 0 {\n\t\t\treturn -vv", "Number.Length:int")
	add("c08-numlen-big-arm-dropped", "C08.numlen", T,
		"\tcase *big.Int:\n\t\tif vv.Sign() < 0 {\n\t\t\treturn new(big.Int).Abs(vv)\n\t\t}\n\t}\n\treturn v.V", "\t}\n\treturn v.V", "Number.Length:*math/big.Int")
	add("c08-numlen-float-negzero", "C08.numlen", T,
		"\tcase float64:\n\t\treturn math.Abs(vv)\n", "\tcase float64:\n\t\tif vv < 0 {\n\t\t\treturn -vv\n\t\t}\n", "Number.Length:float64")
	add("c08-strnum-valid-inverted", "C08.strnum", T,
		"if !gojq.ValidNumber(string(v)) {", "if gojq.ValidNumber(string(v)) {", "String.ToNumber")
	add("c08-lazy-called-inverted", "C08.lazy", T,
		"\tif !v.called {\n\t\tv.jv, v.err = v.Fn()", "\tif v.called {\n\t\tv.jv, v.err = v.Fn()", "Lazy.producer")
	add("c08-lazy-producer-error-dropped", "C08.lazy", T,
		"\treturn v.jv, v.err\n}", "\treturn v.jv, nil\n}", "Lazy.producer")
	add("c08-lazy-apply-error-inverted", "C08.lazy", T,
		"\tjv, err := v.v()\n\tif err != nil {\n\t\treturn err\n\t}\n\treturn fn(jv)", "\tjv, err := v.v()\n\tif err == nil {\n\t\treturn err\n\t}\n\treturn fn(jv)", "Lazy.apply")
	add("c08-iface-keyseq-preallocated", "C08.iface", T,
		"ks := make([]string, 0, len(v))", "ks := make([]string, len(v))", "Object.keyseq")
	add("c08-iface-struct-has-nonstring-false", "C08.iface", D,
		"\t\t\tif !ok {\n\t\t\t\treturn gojqx.HasKeyTypeError{L: gojq.JQTypeObject, R: fmt.Sprintf(\"%v\", key)}\n\t\t\t}", "\t\t\tif !ok {\n\t\t\t\treturn false\n\t\t\t}", "StructDecodeValue.Has")
	add("c08-iface-struct-key-null-when-present", "C08.iface", D,
		"\t\t\t\tif f, ok := v.Compound.ByName[name]; ok {\n\t\t\t\t\treturn makeDecodeValue(f, decodeValueValue)", "\t\t\t\tif f, ok := v.Compound.ByName[name]; ok && f.Index >= 0 {\n\t\t\t\t\treturn makeDecodeValue(f, decodeValueValue)", "StructDecodeValue.Key")
	add("c08-togojq-raw-synthetic-inverted", "C08.togojq", D,
		"ok && !s.ScalarFlags().IsSynthetic() {\n\t\tbv, err := v.ToBinary()", "ok && s.ScalarFlags().IsSynthetic() {\n\t\tbv, err := v.ToBinary()", "decodeValue.ToGoJQEx:raw")
	add("c08-kinds-raw-reader-not-cloned", "C08.kinds", D,
		"if _, err := bitiox.CopyBits(buf, vvvC); err != nil {", "_ = vvvC\n\t\t\t\t\t\tif _, err := bitiox.CopyBits(buf, vvv); err != nil {", "arm:pkg/bitio.ReaderAtSeeker")
	add("c08-keys-has-true-for-nonstring", "C08.keys", D,
		"\tname, ok := key.(string)\n\tif !ok {\n\t\treturn false\n\t}\n\n\tswitch name {\n\tcase \"_actual\",\n\t\t\"_bits\",", "\tname, ok := key.(string)\n\tif !ok {\n\t\treturn true\n\t}\n\n\tswitch name {\n\tcase \"_actual\",\n\t\t\"_bits\",", "has:true")
	add("c08-jq-toactual0-converts-sym", "C08.jq", "pkg/interp/decode.jq",
		"def toactual: toactual({});", "def toactual: tosym({});", "toactual/0")
	add("c08-jq-go-error-test-inverted", "C08.jq", D,
		"\tv, err := toValue(func() (*Options, error) { return opts, nil }, c)\n\tif err != nil {\n\t\treturn err\n\t}\n\treturn v", "\tv, err := toValue(func() (*Options, error) { return opts, nil }, c)\n\tif err == nil {\n\t\treturn err\n\t}\n\treturn v", "_tovalue")
	add("c08-kindsel-ifchain-value-under-sym", "C08.kindsel", D,
		"\t\tcase decodeValueSym:\n\t\t\tvvv = vv.ScalarSym()\n\t\t}", "\t\tcase decodeValueSym:\n\t\t\tvvv = vv.ScalarValue()\n\t\t}", "select:")
	// round 4
	add("c08-errs-null-each-empty", "C08.errs", T,
		"func (v Null) JQValueEach() any       { return IteratorError{Typ: gojq.JQTypeNull} }",
		"func (v Null) JQValueEach() any       { return []gojq.PathValue{} }", "Null.Each")
	add("c08-errs-boolean-has-false", "C08.errs", T,
		"func (v Boolean) JQValueHas(key any) any {\n\treturn FuncTypeNameError{Name: \"has\", Typ: gojq.JQTypeBoolean}",
		"func (v Boolean) JQValueHas(key any) any {\n\treturn false", "Boolean.Has")
	add("c08-errs-base-index-nil", "C08.errs", T,
		"\treturn ExpectedArrayWithIndexError{Typ: v.Typ, Index: index}", "\treturn nil", "StructDecodeValue.Index")
	// round 5: name index and child list of a struct stay together (borrowed C03 obligations)
	add("c08-byname-remove-keeps-name-for-structs", "C08.byname", "pkg/decode/value.go",
		"\t\tif !fv.IsArray {\n\t\t\tif _, ok := fv.ByName[v.Name]; !ok {", "\t\tif fv.IsArray {\n\t\t\tif _, ok := fv.ByName[v.Name]; !ok {", "remove-struct-deletes-name")
	add("c08-byname-remove-deletes-parent-name", "C08.byname", "pkg/decode/value.go",
		"delete(fv.ByName, v.Name)", "delete(fv.ByName, p.Name)", "delete-key")
	add("c08-bynameadd-struct-child-not-appended", "C08.bynameadd", "pkg/decode/decode.go",
		"\t\tfv.Children = append(fv.Children, v)\n\t}\n}", "\t\tif !fv.IsArray {\n\t\t\tfv.Children = append(fv.Children, v)\n\t\t}\n\t}\n}", "AddChild:struct-insert-on-every-path")
	add("c08-bynameown-decoder-deletes-name", "C08.bynameown", "format/riff/wav.go",
		"func wavDecode(d *decode.D) any {", "func wavDecode(d *decode.D) any {\n\tif c, ok := d.Value.V.(*decode.Compound); ok {\n\t\tdelete(c.ByName, \"x\")\n\t}", "Compound.ByName|format/riff.wavDecode")
}
