package rules

import (
	"fmt"
	"go/token"
	"go/types"
	"os"
	"sort"
	"strings"

	"golang.org/x/tools/go/ssa"

	"fqverif/fw"
)

// ---------------------------------------------------------------------------
// C06.nilfield: a pointer field that the decoder itself treats as possibly nil is not dereferenced
// where nothing establishes that it is set
//
// Decoder state structs (mp4 track/traf/moof, matroska track, ...) carry pointer-to-struct fields that
// one box / element handler sets and another one uses. Whether the setter ran is decided by the input
// (a `trun` without a preceding `tfhd`): a dereference of the unset field is a nil-pointer fault that
// recoverfn.Run re-panics. This is a contradiction rule (Engler): a field F is *believed nilable* when
// decoder code compares a load of F with nil somewhere, or stores the nil constant into it. For every
// such F declared in format/**, every dereference (field access, load through, method call that
// dereferences its receiver) of a value that is a load of F - also through phis - must have the field
// established non-nil on every path to it inside the function: a nil test of the same access path whose
// nil arm does not continue, or a store of a fresh object to the same access path (flow-sensitive
// must-analysis over access paths; a store of anything else to the path or a prefix kills the fact).

type nfState map[string]bool

func nfCopy(s nfState) nfState {
	o := nfState{}
	for k := range s {
		o[k] = true
	}
	return o
}

// nfPath names the memory location / value v stands for: rooted at a parameter, free variable, global,
// local, or any other SSA value (by its register name, unique in the function); loads are transparent.
func nfPath(v ssa.Value) string {
	switch x := v.(type) {
	case *ssa.FieldAddr:
		return nfPath(x.X) + "." + nfFieldName(x.X.Type(), x.Field)
	case *ssa.Field:
		return nfPath(x.X) + "." + nfFieldName(x.X.Type(), x.Field)
	case *ssa.UnOp:
		if x.Op == token.MUL {
			return nfPath(x.X)
		}
	case *ssa.ChangeType:
		return nfPath(x.X)
	case *ssa.IndexAddr:
		if c, ok := x.Index.(*ssa.Const); ok && c.Value != nil {
			return nfPath(x.X) + "[" + c.Value.ExactString() + "]"
		}
		return nfPath(x.X) + "[" + x.Index.Name() + "]"
	case *ssa.Parameter:
		return "p:" + x.Name()
	case *ssa.FreeVar:
		return "fv:" + x.Name()
	case *ssa.Global:
		return "g:" + x.Name()
	case *ssa.Alloc:
		return "a:" + x.Name()
	}
	return "v:" + v.Name()
}

// nfRoot is the value nfPath's name starts from.
func nfRoot(v ssa.Value) ssa.Value {
	switch x := v.(type) {
	case *ssa.FieldAddr:
		return nfRoot(x.X)
	case *ssa.Field:
		return nfRoot(x.X)
	case *ssa.UnOp:
		if x.Op == token.MUL {
			return nfRoot(x.X)
		}
	case *ssa.ChangeType:
		return nfRoot(x.X)
	case *ssa.IndexAddr:
		return nfRoot(x.X)
	}
	return v
}

// nfLift: the non-nil fact for root+suffix is established by every caller (parameter roots, also when
// the parameter is spilled into a local because a closure captures it) or at every site that creates
// the closure (free-variable roots), up to three levels.
func nfLift(p *fw.Program, flows map[*ssa.Function]*nfFlow, fn *ssa.Function, root ssa.Value, suffix string, depth int) (bool, string) {
	if depth > 3 {
		return false, "lift depth"
	}
	flowOf := func(f *ssa.Function) *nfFlow {
		if fl, ok := flows[f]; ok {
			return fl
		}
		fl := nfCompute(f)
		flows[f] = fl
		return fl
	}
	holdsAt := func(site ssa.Instruction, v ssa.Value) (bool, string) {
		cf := site.Parent()
		st := flowOf(cf).at(site)
		if st[nfPath(v)+suffix] {
			return true, ""
		}
		return nfLift(p, flows, cf, nfRoot(v), nfSuffix(v)+suffix, depth+1)
	}
	if al, ok := root.(*ssa.Alloc); ok && al.Referrers() != nil {
		// a parameter spilled into a local: exactly one store, of the parameter, in the entry block
		var par *ssa.Parameter
		n := 0
		for _, rf := range *al.Referrers() {
			if st, ok := rf.(*ssa.Store); ok && st.Addr == ssa.Value(al) {
				n++
				if pp, ok := st.Val.(*ssa.Parameter); ok && st.Block() == fn.Blocks[0] {
					par = pp
				}
			}
		}
		if n == 1 && par != nil {
			root = par
		}
	}
	switch r := root.(type) {
	case *ssa.Parameter:
		idx := -1
		for i, pp := range fn.Params {
			if pp == r {
				idx = i
			}
		}
		if idx < 0 {
			return false, "parameter not found"
		}
		node := p.CallGraph().Nodes[fn]
		if node == nil || len(node.In) == 0 {
			return false, "no callers of " + fw.ShortFn(fn)
		}
		for _, e := range node.In {
			if e.Site == nil {
				return false, "synthetic caller"
			}
			cc := e.Site.Common()
			args := cc.Args
			if cc.IsInvoke() {
				return false, "interface call"
			}
			if idx >= len(args) {
				return false, "argument missing"
			}
			if ok, why := holdsAt(e.Site, args[idx]); !ok {
				return false, "caller " + fw.ShortFn(e.Site.Parent()) + " at " + p.Rel(e.Site.Pos()) + " does not establish it (" + why + ")"
			}
		}
		return true, ""
	case *ssa.FreeVar:
		idx := -1
		for i, fv := range fn.FreeVars {
			if fv == r {
				idx = i
			}
		}
		par := fn.Parent()
		if idx < 0 || par == nil {
			return false, "free variable not found"
		}
		n := 0
		okAll, why := true, ""
		for _, cf := range fw.WithClosures(fw.Top(fn)) {
			fw.EachInstr(cf, func(ins ssa.Instruction) {
				mc, ok := ins.(*ssa.MakeClosure)
				if !ok || mc.Fn != ssa.Value(fn) || idx >= len(mc.Bindings) {
					return
				}
				n++
				if ok, w := holdsAt(mc, mc.Bindings[idx]); !ok {
					okAll, why = false, "closure created in "+fw.ShortFn(cf)+" at "+p.Rel(mc.Pos())+" where it is not established ("+w+")"
				}
			})
		}
		if n == 0 {
			return false, "no closure creation site"
		}
		return okAll, why
	}
	return false, "not rooted at a parameter or captured variable"
}

// nfSuffix: nfPath(v) == name(nfRoot(v)) + nfSuffix(v)
func nfSuffix(v ssa.Value) string {
	return strings.TrimPrefix(nfPath(v), nfPath(nfRoot(v)))
}

func nfFieldName(t types.Type, i int) string {
	if p, ok := t.Underlying().(*types.Pointer); ok {
		t = p.Elem()
	}
	if s, ok := t.Underlying().(*types.Struct); ok && i < s.NumFields() {
		return s.Field(i).Name()
	}
	return fmt.Sprintf("f%d", i)
}

func nfFieldVar(fa *ssa.FieldAddr) *types.Var {
	t := fa.X.Type()
	if p, ok := t.Underlying().(*types.Pointer); ok {
		t = p.Elem()
	}
	if s, ok := t.Underlying().(*types.Struct); ok && fa.Field < s.NumFields() {
		return s.Field(fa.Field)
	}
	return nil
}

func nfIsPtrToStruct(t types.Type) bool {
	p, ok := t.Underlying().(*types.Pointer)
	if !ok {
		return false
	}
	_, ok = p.Elem().Underlying().(*types.Struct)
	return ok
}

// nfFreshNonNil: v is certainly not nil (address of a fresh object, a closure, a field address).
func nfFreshNonNil(v ssa.Value, st nfState) bool {
	switch x := v.(type) {
	case *ssa.Alloc, *ssa.MakeClosure, *ssa.FieldAddr, *ssa.IndexAddr, *ssa.MakeMap, *ssa.MakeSlice, *ssa.MakeChan, *ssa.Function:
		return true
	case *ssa.Phi:
		for _, e := range x.Edges {
			if !nfFreshNonNil(e, st) {
				return false
			}
		}
		return true
	case *ssa.UnOp:
		if x.Op == token.MUL {
			return st[nfPath(x)]
		}
	case *ssa.Extract:
		return st["v:"+x.Name()]
	case *ssa.Call:
		if cal := x.Common().StaticCallee(); cal != nil && fw.InFq(cal) && len(cal.Blocks) > 0 {
			return nfNeverReturnsNil(cal, 0)
		}
	}
	return false
}

var nfNRN = map[*ssa.Function]int{}

func nfNeverReturnsNil(fn *ssa.Function, depth int) bool {
	if v, ok := nfNRN[fn]; ok {
		return v == 1
	}
	nfNRN[fn] = 0
	if fn.Signature.Results().Len() != 1 || depth > 3 {
		return false
	}
	ok := true
	n := 0
	fw.EachInstr(fn, func(ins ssa.Instruction) {
		if ret, isRet := ins.(*ssa.Return); isRet {
			n++
			switch rv := ret.Results[0].(type) {
			case *ssa.Alloc, *ssa.FieldAddr, *ssa.IndexAddr:
			case *ssa.Call:
				if cal := rv.Common().StaticCallee(); cal == nil || !fw.InFq(cal) || !nfNeverReturnsNil(cal, depth+1) {
					ok = false
				}
			default:
				ok = false
			}
		}
	})
	if ok && n > 0 {
		nfNRN[fn] = 1
	}
	return ok && n > 0
}

// nfFlow computes, per block, the access paths known non-nil at block entry (must-analysis).
type nfFlow struct {
	in map[*ssa.BasicBlock]nfState
	fn *ssa.Function
}

// nfNilStorers: field name -> functions that store the nil constant into a field of that name.
var nfNilStorers = map[string]map[*ssa.Function]bool{}

func nfTransfer(st nfState, ins ssa.Instruction) {
	if c, ok := ins.(ssa.CallInstruction); ok {
		if cal := c.Common().StaticCallee(); cal != nil {
			for fname, fns := range nfNilStorers {
				if fns[cal] {
					for k := range st {
						if strings.HasSuffix(k, "."+fname) || strings.Contains(k, "."+fname+".") {
							delete(st, k)
						}
					}
				}
			}
		}
		return
	}
	s, ok := ins.(*ssa.Store)
	if !ok {
		return
	}
	path := nfPath(s.Addr)
	nonnil := nfFreshNonNil(s.Val, st)
	for k := range st {
		if k == path || strings.HasPrefix(k, path+".") || strings.HasPrefix(k, path+"[") {
			delete(st, k)
		}
	}
	if nonnil {
		st[path] = true
	}
}

// nfEdge: facts established by leaving block p towards s.
func nfEdge(st nfState, p, s *ssa.BasicBlock) {
	ifi, ok := p.Instrs[len(p.Instrs)-1].(*ssa.If)
	if !ok || len(p.Succs) != 2 || p.Succs[0] == p.Succs[1] {
		return
	}
	g := fw.Guard{Cond: ifi.Cond, True: p.Succs[0] == s}.Normalize()
	if ex, ok := g.Cond.(*ssa.Extract); ok && ex.Index == 1 && g.True {
		// `x, ok := v.(*T)` / `x, ok := m[k]`: ok true makes an asserted pointer non-nil (a map may hold nil: only asserts)
		if ta, ok := ex.Tuple.(*ssa.TypeAssert); ok && ta.CommaOk && ta.Referrers() != nil {
			for _, rf := range *ta.Referrers() {
				if e0, ok := rf.(*ssa.Extract); ok && e0.Index == 0 {
					st["v:"+e0.Name()] = true
				}
			}
		}
		return
	}
	bo, ok := g.Cond.(*ssa.BinOp)
	if !ok || (bo.Op != token.EQL && bo.Op != token.NEQ) {
		return
	}
	var v ssa.Value
	switch {
	case isNilConst(bo.Y):
		v = bo.X
	case isNilConst(bo.X):
		v = bo.Y
	default:
		return
	}
	nonNil := (bo.Op == token.NEQ) == g.True
	if nonNil {
		st[nfPath(v)] = true
		st["v:"+v.Name()] = true
	}
}

func nfCompute(fn *ssa.Function) *nfFlow {
	fl := &nfFlow{in: map[*ssa.BasicBlock]nfState{}, fn: fn}
	if len(fn.Blocks) == 0 {
		return fl
	}
	out := func(p, s *ssa.BasicBlock) nfState {
		in, ok := fl.in[p]
		if !ok {
			return nil // not yet computed: top
		}
		st := nfCopy(in)
		for _, ins := range p.Instrs {
			nfTransfer(st, ins)
		}
		if fw.CurrentNR != nil && fw.CurrentNR.BlockFails(p) {
			return nil // the block never completes: contributes nothing (top)
		}
		nfEdge(st, p, s)
		return st
	}
	fl.in[fn.Blocks[0]] = nfState{}
	changed := true
	for iter := 0; changed && iter < 50; iter++ {
		changed = false
		for _, b := range fn.Blocks {
			if b == fn.Blocks[0] {
				continue
			}
			var acc nfState
			first := true
			for _, p := range b.Preds {
				o := out(p, b)
				if o == nil {
					continue
				}
				if first {
					acc = o
					first = false
				} else {
					for k := range acc {
						if !o[k] {
							delete(acc, k)
						}
					}
				}
			}
			if first {
				continue
			}
			old, had := fl.in[b]
			if !had || len(old) != len(acc) {
				fl.in[b] = acc
				changed = true
				continue
			}
			for k := range acc {
				if !old[k] {
					fl.in[b] = acc
					changed = true
					break
				}
			}
		}
	}
	return fl
}

// at returns the state just before instruction ins.
func (fl *nfFlow) at(ins ssa.Instruction) nfState {
	b := ins.Block()
	in, ok := fl.in[b]
	if !ok {
		return nfState{}
	}
	st := nfCopy(in)
	for _, x := range b.Instrs {
		if x == ins {
			break
		}
		nfTransfer(st, x)
	}
	return st
}

// atEdgeEnd returns the state at the end of block p when leaving towards s.
func (fl *nfFlow) atEdgeEnd(p, s *ssa.BasicBlock) nfState {
	in, ok := fl.in[p]
	if !ok {
		return nfState{}
	}
	st := nfCopy(in)
	for _, x := range p.Instrs {
		nfTransfer(st, x)
	}
	nfEdge(st, p, s)
	return st
}

type nfSite struct {
	fn    *ssa.Function
	ins   ssa.Instruction
	field *types.Var
	path  string
	via   string
}

// nfNilable: fields (pointer to struct) of structs declared in fq that fq code compares with nil or
// assigns the nil constant to.
func nfNilable(p *fw.Program) map[*types.Var][]string {
	out := map[*types.Var][]string{}
	fieldOfLoad := func(v ssa.Value) *types.Var {
		ld, ok := v.(*ssa.UnOp)
		if !ok || ld.Op != token.MUL {
			return nil
		}
		fa, ok := ld.X.(*ssa.FieldAddr)
		if !ok {
			return nil
		}
		return nfFieldVar(fa)
	}
	for _, fn := range p.FqFunctions() {
		fw.EachInstr(fn, func(ins ssa.Instruction) {
			switch x := ins.(type) {
			case *ssa.BinOp:
				if x.Op != token.EQL && x.Op != token.NEQ {
					return
				}
				var v ssa.Value
				if isNilConst(x.Y) {
					v = x.X
				} else if isNilConst(x.X) {
					v = x.Y
				} else {
					return
				}
				if f := fieldOfLoad(v); f != nil && nfIsPtrToStruct(f.Type()) {
					out[f] = append(out[f], "nil test in "+fw.ShortFn(fn))
				}
			case *ssa.Store:
				why := ""
				if isNilConst(x.Val) {
					why = "nil store in "
					if fa, ok := x.Addr.(*ssa.FieldAddr); ok {
						if f := nfFieldVar(fa); f != nil {
							if nfNilStorers[f.Name()] == nil {
								nfNilStorers[f.Name()] = map[*ssa.Function]bool{}
							}
							nfNilStorers[f.Name()][fn] = true
						}
					}
				} else if nfMaybeNil(x.Val, 0) {
					why = "store of a value that is nil on some path in "
				}
				if why == "" {
					return
				}
				if fa, ok := x.Addr.(*ssa.FieldAddr); ok {
					if f := nfFieldVar(fa); f != nil && nfIsPtrToStruct(f.Type()) {
						out[f] = append(out[f], why+fw.ShortFn(fn))
					}
				}
			}
		})
	}
	return out
}

// nfMaybeNil: v is the nil constant on some path, a map lookup result, or the result of an fq function
// that returns nil on some path.
func nfMaybeNil(v ssa.Value, depth int) bool {
	if depth > 4 {
		return false
	}
	switch x := v.(type) {
	case *ssa.Const:
		return x.IsNil()
	case *ssa.Phi:
		for _, e := range x.Edges {
			if nfMaybeNil(e, depth+1) {
				return true
			}
		}
	case *ssa.Lookup:
		return true
	case *ssa.Extract:
		if _, ok := x.Tuple.(*ssa.Lookup); ok {
			return x.Index == 0
		}
		if ta, ok := x.Tuple.(*ssa.TypeAssert); ok && ta.CommaOk && x.Index == 0 {
			return true // the zero value (nil) when the assertion fails
		}
		if call, ok := x.Tuple.(*ssa.Call); ok {
			if cal := call.Common().StaticCallee(); cal != nil && fw.InFq(cal) {
				idxs, _ := c06NilReturns(cal)
				return idxs[x.Index]
			}
		}
	case *ssa.Call:
		if cal := x.Common().StaticCallee(); cal != nil && fw.InFq(cal) {
			idxs, _ := c06NilReturns(cal)
			return idxs[0]
		}
	case *ssa.ChangeType:
		return nfMaybeNil(x.X, depth+1)
	}
	return false
}

// nfSources traces v back to loads of pointer fields; at is the block (and optional edge) where the
// non-nil fact must hold.
type nfSrc struct {
	cell bool         // load is a load of a local variable cell that may hold a failed assertion's nil
	ext  *ssa.Extract // the pointer result of a comma-ok type assertion used directly
	load *ssa.UnOp
	pred *ssa.BasicBlock // non-nil: the fact is needed at the end of pred when leaving to succ
	succ *ssa.BasicBlock
	at   ssa.Instruction // non-nil: the fact is needed just before this instruction (a store into a local cell)
}

// nfCellStores: the stores into the local variable cell (an Alloc captured by closures, or the free
// variable it is bound to) anywhere in the enclosing top-level function.
func nfCellStores(cell ssa.Value) []*ssa.Store {
	// resolve a free variable to the Alloc it is bound to
	var alloc *ssa.Alloc
	cur := cell
	for depth := 0; depth < 6; depth++ {
		switch c := cur.(type) {
		case *ssa.Alloc:
			alloc = c
		case *ssa.FreeVar:
			fn := c.Parent()
			idx := -1
			for i, fv := range fn.FreeVars {
				if fv == c {
					idx = i
				}
			}
			var bound ssa.Value
			if fn.Parent() != nil && idx >= 0 {
				for _, cf := range fw.WithClosures(fw.Top(fn)) {
					fw.EachInstr(cf, func(ins ssa.Instruction) {
						if mc, ok := ins.(*ssa.MakeClosure); ok && mc.Fn == ssa.Value(fn) && idx < len(mc.Bindings) {
							bound = mc.Bindings[idx]
						}
					})
				}
			}
			if bound == nil {
				return nil
			}
			cur = bound
			continue
		}
		break
	}
	if alloc == nil {
		return nil
	}
	// all names of the cell: the alloc and every free variable bound to it (transitively)
	names := map[ssa.Value]bool{alloc: true}
	top := fw.Top(alloc.Parent())
	for changed := true; changed; {
		changed = false
		for _, cf := range fw.WithClosures(top) {
			fw.EachInstr(cf, func(ins ssa.Instruction) {
				if mc, ok := ins.(*ssa.MakeClosure); ok {
					if f, ok := mc.Fn.(*ssa.Function); ok {
						for i, b := range mc.Bindings {
							if names[b] && i < len(f.FreeVars) && !names[f.FreeVars[i]] {
								names[f.FreeVars[i]] = true
								changed = true
							}
						}
					}
				}
			})
		}
	}
	var out []*ssa.Store
	for _, cf := range fw.WithClosures(top) {
		fw.EachInstr(cf, func(ins ssa.Instruction) {
			if st, ok := ins.(*ssa.Store); ok && names[st.Addr] {
				out = append(out, st)
			}
		})
	}
	return out
}

func nfSources(v ssa.Value, seen map[ssa.Value]bool, pred, succ *ssa.BasicBlock, at ssa.Instruction, out *[]nfSrc, depth int) {
	if seen[v] || depth > 8 {
		return
	}
	seen[v] = true
	switch x := v.(type) {
	case *ssa.UnOp:
		if x.Op == token.MUL {
			switch c := x.X.(type) {
			case *ssa.FieldAddr:
				*out = append(*out, nfSrc{load: x, pred: pred, succ: succ, at: at})
			case *ssa.Alloc, *ssa.FreeVar:
				// a local variable held in a cell: what was stored into it
				if nfIsPtrToStruct(x.Type()) {
					cellNilable := false
					for _, st := range nfCellStores(c) {
						nfSources(st.Val, seen, nil, nil, st, out, depth+1)
						if ex, ok := st.Val.(*ssa.Extract); ok {
							if ta, ok := ex.Tuple.(*ssa.TypeAssert); ok && ta.CommaOk && ex.Index == 0 {
								cellNilable = true
							}
						}
					}
					if cellNilable {
						// the variable itself may hold the nil of a failed comma-ok assertion
						*out = append(*out, nfSrc{load: x, pred: pred, succ: succ, at: at, cell: true})
					}
				}
			}
		}
	case *ssa.ChangeType:
		nfSources(x.X, seen, pred, succ, at, out, depth+1)
	case *ssa.Extract:
		if ta, ok := x.Tuple.(*ssa.TypeAssert); ok && ta.CommaOk && x.Index == 0 && nfIsPtrToStruct(x.Type()) && at == nil {
			// (through a variable cell the variable itself is the source, see above)
			*out = append(*out, nfSrc{ext: x, pred: pred, succ: succ})
		}
	case *ssa.Phi:
		for i, e := range x.Edges {
			nfSources(e, seen, x.Block().Preds[i], x.Block(), nil, out, depth+1)
		}
	}
}

// pseudo fields name the two other nil sources in reports and keys: the result of a comma-ok type assertion
// used directly, and a local variable that holds such a result.
var nfPseudo = map[string]*types.Var{}

func nfPseudoNamed(name string, t types.Type) *types.Var {
	if v, ok := nfPseudo[name]; ok {
		return v
	}
	v := types.NewVar(token.NoPos, nil, name, t)
	nfPseudo[name] = v
	return v
}

func nfPseudoField(ta *ssa.TypeAssert) *types.Var {
	return nfPseudoNamed("assert:"+types.TypeString(ta.AssertedType, func(p *types.Package) string { return p.Name() }), ta.AssertedType)
}

func nfPseudoFieldCell(ld *ssa.UnOp) *types.Var {
	name := "?"
	switch c := ld.X.(type) {
	case *ssa.Alloc:
		name = c.Comment
	case *ssa.FreeVar:
		name = c.Name()
	}
	return nfPseudoNamed("var:"+name, ld.Type())
}

func c06NilFieldSites(p *fw.Program) (sites []nfSite, nilable map[*types.Var][]string, analysed int) {
	c06NilFieldAll = nil
	nilable = nfNilable(p)
	if os.Getenv("C06_EXPLORE_NIL") == "all" {
		for _, fn := range p.FqFunctions() {
			fw.EachInstr(fn, func(ins ssa.Instruction) {
				if fa, ok := ins.(*ssa.FieldAddr); ok {
					if f := nfFieldVar(fa); f != nil && f.Pkg() != nil && strings.HasPrefix(f.Pkg().Path(), fw.Mod+"/format") && nfIsPtrToStruct(f.Type()) && nilable[f] == nil {
						nilable[f] = []string{"declared in format/**"}
					}
				}
			})
		}
	}
	linked := linkedPackages(p)
	flows := map[*ssa.Function]*nfFlow{}
	for _, fn := range p.FqFunctions() {
		pr := pkgRel(fn)
		if !strings.HasPrefix(pr, "format") || !linked[fw.FnPkgPath(fn)] {
			continue
		}
		if fn.TypeParams().Len() > 0 && len(fn.TypeArgs()) == 0 {
			continue
		}
		if len(fn.Blocks) == 0 {
			continue
		}
		var fl *nfFlow
		fw.EachInstr(fn, func(ins ssa.Instruction) {
			via := ""
			var x ssa.Value
			switch d := ins.(type) {
			case *ssa.FieldAddr:
				x = d.X
			case *ssa.UnOp:
				if d.Op == token.MUL && nfIsPtrToStruct(d.X.Type()) {
					x = d.X
				}
			case ssa.CallInstruction:
				cc := d.Common()
				if cal := cc.StaticCallee(); cal != nil && fw.InFq(cal) && cal.Signature.Recv() != nil && len(cc.Args) > 0 && len(cal.Params) > 0 {
					if nfIsPtrToStruct(cc.Args[0].Type()) && c06DerefsParam(cal.Params[0], 0) {
						x = cc.Args[0]
					}
				}
			}
			if x == nil || !nfIsPtrToStruct(x.Type()) {
				return
			}
			var srcs []nfSrc
			nfSources(x, map[ssa.Value]bool{}, nil, nil, nil, &srcs, 0)
			for _, s := range srcs {
				var f *types.Var
				var srcV ssa.Value
				switch {
				case s.ext != nil:
					srcV = s.ext
					f = nfPseudoField(s.ext.Tuple.(*ssa.TypeAssert))
				case s.cell:
					srcV = s.load
					f = nfPseudoFieldCell(s.load)
				default:
					fa := s.load.X.(*ssa.FieldAddr)
					f = nfFieldVar(fa)
					if f == nil || nilable[f] == nil {
						continue
					}
					srcV = s.load
				}
				analysed++
				c06NilFieldAll = append(c06NilFieldAll, nfSite{fn: fn, ins: ins, field: f})
				cfn := srcV.(ssa.Instruction).Parent()
				if flows[cfn] == nil {
					flows[cfn] = nfCompute(cfn)
				}
				fl = flows[cfn]
				path := nfPath(srcV)
				var st nfState
				switch {
				case s.pred != nil:
					st = fl.atEdgeEnd(s.pred, s.succ)
				case s.at != nil:
					st = fl.at(s.at)
				default:
					st = fl.at(ins)
				}
				if st[path] || st["v:"+srcV.Name()] {
					continue
				}
				if s.ext == nil {
					if ok, why := nfLift(p, flows, cfn, nfRoot(srcV), nfSuffix(srcV), 0); ok {
						continue
					} else {
						via = why
					}
				}
				// the load itself happened earlier: a fact about the path at the load point followed by no kill
				// is covered by the flow; a fact about the loaded value (v:name) is kept by nfEdge
				sites = append(sites, nfSite{fn: fn, ins: ins, field: f, path: path, via: via})
			}
		})
	}
	return
}

// exceptions: one construct per line, with a mechanised precondition where possible
var nilFieldExceptions = map[string]string{
	"(*format/inet/flowsdecoder.Decoder).packet|assert:*layers.IPv4": "library contract: the layer gopacket returns for layers.LayerTypeIPv4 is a *layers.IPv4 (the assertion cannot fail for a non-nil layer, which the enclosing test establishes)",
	"format/tls.decodeTLSPostKeyExchange|dataV":                      "keyExchange.dataV is d.FieldGet(\"data\") taken directly after d.FieldRawLen(\"data\", ...) added that field to the same struct, so the lookup cannot miss (checked: the only store to the field has that shape)",
}

var nilFieldExceptionChecks = map[string]func(p *fw.Program) string{
	"format/tls.decodeTLSPostKeyExchange|dataV": func(p *fw.Program) string {
		// every store to keyExchange.dataV stores FieldGet(c) of a decoder on which a Field* call with the same
		// constant name precedes it in the same block
		n := 0
		bad := ""
		for _, fn := range p.FqFunctions() {
			if pkgRel(fn) != "format/tls" {
				continue
			}
			fw.EachInstr(fn, func(ins ssa.Instruction) {
				st, ok := ins.(*ssa.Store)
				if !ok {
					return
				}
				fa, ok := st.Addr.(*ssa.FieldAddr)
				if !ok {
					return
				}
				f := nfFieldVar(fa)
				if f == nil || f.Name() != "dataV" {
					return
				}
				n++
				call, ok := st.Val.(*ssa.Call)
				if !ok || call.Common().StaticCallee() == nil || call.Common().StaticCallee().Name() != "FieldGet" || len(call.Common().Args) != 2 {
					bad = "dataV stored from something else than d.FieldGet(name) in " + fw.ShortFn(fn)
					return
				}
				name, ok := call.Common().Args[1].(*ssa.Const)
				if !ok {
					bad = "FieldGet name is not constant"
					return
				}
				found := false
				for _, x := range call.Block().Instrs {
					if x == ssa.Instruction(call) {
						break
					}
					if c2, ok := x.(*ssa.Call); ok && c2.Common().StaticCallee() != nil && strings.HasPrefix(c2.Common().StaticCallee().Name(), "Field") && len(c2.Common().Args) >= 2 && c2.Common().Args[0] == call.Common().Args[0] {
						if n2, ok := c2.Common().Args[1].(*ssa.Const); ok && n2.Value != nil && name.Value != nil && n2.Value.ExactString() == name.Value.ExactString() {
							found = true
						}
					}
				}
				if !found {
					bad = "no Field* call adding " + name.Value.ExactString() + " precedes FieldGet in the block in " + fw.ShortFn(fn)
				}
			})
		}
		if n == 0 {
			return "no store to keyExchange.dataV found"
		}
		return bad
	},
}

func c06NilField(r *fw.Run, p *fw.Program) {
	ru := r.Rule("C06.nilfield", "for every pointer-to-struct field that decoder code itself treats as possibly nil (a load of it is compared with nil somewhere, or the nil constant / a map lookup / a may-return-nil result is stored into it), every dereference in format/** of a value loaded from that field (field access, load, call of a method that dereferences its receiver; followed through phis) has the field established non-nil on every path to it: a nil test of the same access path whose nil arm does not continue, or a store of a fresh object to that path, inside the function, or at every caller / closure creation site for parameter- and capture-rooted paths (three levels); a store of anything else to the path or a prefix, and a call of a function that stores nil into the field, cancel the fact (the mp4 `trun` without `tfhd` crash: state that one box handler sets and another one uses); the same for the pointer result of a comma-ok type assertion (`x, _ := v.(*T)`: nil when the assertion fails), used directly or held in a local variable that closures capture: dereferenced only under ok / x != nil", 30)
	sites, nilable, analysed := c06NilFieldSites(p)
	r.Notes["C06.nilfield.nilable_fields"] = len(nilable)
	r.Notes["C06.nilfield.derefs_analysed"] = analysed
	bad := map[string][]nfSite{}
	for _, s := range sites {
		k := fw.ShortFn(s.fn) + "|" + s.field.Name()
		bad[k] = append(bad[k], s)
	}
	// one obligation per (function, field) that has derefs
	seen := map[string]bool{}
	for _, s := range c06NilFieldAll {
		k := fw.ShortFn(s.fn) + "|" + s.field.Name()
		if seen[k] {
			continue
		}
		seen[k] = true
		pos := p.Rel(s.ins.Pos())
		if b := bad[k]; len(b) > 0 {
			if reason, ok := nilFieldExceptions[k]; ok {
				if chk := nilFieldExceptionChecks[k]; chk != nil {
					if why := chk(p); why != "" {
						ru.Fail(k, p.Rel(b[0].ins.Pos()), "the precondition of the exception no longer holds: "+why)
						continue
					}
				}
				ru.Except(k, p.Rel(b[0].ins.Pos()), reason)
				continue
			}
			ru.Fail(k, p.Rel(b[0].ins.Pos()), fmt.Sprintf("field %s is treated as possibly nil (%s) but %s is dereferenced here without anything establishing it non-nil on this path (%s): a nil-pointer fault on input that skips the setter", s.field.Name(), nfWhy(nilable, s.field), b[0].path, b[0].via))
			continue
		}
		ru.Ok(k, pos, "every dereference of the possibly-nil field is dominated by a non-nil fact")
	}
	for k := range nilFieldExceptions {
		if !seen[k] {
			ru.Undecided(k, "", "exception entry matches no construct (anchor moved)")
		}
	}
}

func nfWhy(nilable map[*types.Var][]string, f *types.Var) string {
	if w := nilable[f]; len(w) > 0 {
		return strings.Join(w[:min(2, len(w))], "; ")
	}
	return "the zero value of a comma-ok type assertion that failed"
}

var c06NilFieldAll []nfSite

func c06ExploreNilField(p *fw.Program) {
	if os.Getenv("C06_EXPLORE_NIL") == "" {
		return
	}
	sites, nilable, analysed := c06NilFieldSites(p)
	fmt.Printf("NILFIELD nilable fields: %d, derefs of them analysed: %d, unproved: %d\n", len(nilable), analysed, len(sites))
	var names []string
	for f, why := range nilable {
		names = append(names, fmt.Sprintf("  %s.%s (%s) %v", f.Pkg().Name(), f.Name(), f.Type(), why[:min(len(why), 2)]))
	}
	sort.Strings(names)
	for _, n := range names {
		fmt.Println(n)
	}
	for _, s := range sites {
		fmt.Printf("NILFIELD-SITE %s %s field=%s path=%s via=%s\n", p.Rel(s.ins.Pos()), fw.ShortFn(s.fn), s.field.Name(), s.path, s.via)
	}
}
