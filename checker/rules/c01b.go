package rules

import "fqverif/fw"

func c01Pad(r *fw.Run, p *fw.Program)    {}
func c01Cursor(r *fw.Run, p *fw.Program) {}
func c01Lanes(r *fw.Run, p *fw.Program)  {}
