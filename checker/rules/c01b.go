package rules

import (
	"strings"

	"golang.org/x/tools/go/ssa"

	"fqverif/fw"
)

func c01Pad(r *fw.Run, p *fw.Program)    {}
func c01Cursor(r *fw.Run, p *fw.Program) {}
func c01Lanes(r *fw.Run, p *fw.Program)  {}

// c01Clone: C01.clone — clones start at the logical start and keep the window.
func c01Clone(r *fw.Run, p *fw.Program) {
	ru := r.Rule("C01.clone", "CloneReaderAtSeeker of the computing readers builds a fresh reader over the same window/sub-readers whose cursor is reset to the logical start (Section: bitOff = bitBase; Multi: pos = 0), never a copy of the current cursor; a LimitReader clone keeps the remaining limit", 9)
	type spec struct {
		fn, typ string
		recv    string
		fields  map[string]string // field -> expected polynomial (over canonical receiver name)
	}
	for _, sp := range []spec{
		{"(*pkg/bitio.SectionReader).CloneReaderAtSeeker", "pkg/bitio.SectionReader", "r",
			map[string]string{"bitBase": "r.bitBase", "bitOff": "r.bitBase", "bitLimit": "r.bitLimit", "r": "r.r"}},
		{"(*pkg/bitio.MultiReader).CloneReaderAtSeeker", "pkg/bitio.MultiReader", "m",
			map[string]string{"pos": "0", "readers": "m.readers", "readerEnds": "m.readerEnds"}},
		// a LimitReader has no seekable cursor: its clone continues with the bits that are left
		{"(*pkg/bitio.LimitReader).CloneReader", "pkg/bitio.LimitReader", "r",
			map[string]string{"n": "r.n"}},
	} {
		fn := getFn(ru, p, sp.fn)
		if fn == nil {
			continue
		}
		if !fw.AliasParams(fn, sp.recv) {
			ru.Undecided(sp.fn+":signature", p.Rel(fn.Pos()), "parameter list changed")
			continue
		}
		env := fw.NewPolyEnv(fn)
		// the returned value must be the address of a fresh composite literal of the reader type
		var lit *ssa.Alloc
		for _, ret := range returnsOf(fn) {
			v := ret.Results[0]
			if mi, ok := v.(*ssa.MakeInterface); ok {
				v = mi.X
			}
			if a, ok := v.(*ssa.Alloc); ok && structTypeShort(a.Type()) == sp.typ {
				lit = a
			}
		}
		if lit == nil {
			ru.Fail(sp.fn+":fresh", p.Rel(fn.Pos()), "clone is not a fresh "+sp.typ+" literal (a copy of the receiver carries the current cursor into the clone)")
			continue
		}
		ru.Ok(sp.fn+":fresh", p.Rel(lit.Pos()), "fresh literal")
		set := map[string]*fw.Poly{}
		copied := false
		if lit.Referrers() != nil {
			for _, ref := range *lit.Referrers() {
				switch x := ref.(type) {
				case *ssa.FieldAddr:
					if x.Referrers() == nil {
						continue
					}
					for _, r2 := range *x.Referrers() {
						if st, ok := r2.(*ssa.Store); ok && st.Addr == ssa.Value(x) {
							set[fieldNameOf(x.X.Type(), x.Field)] = env.Of(st.Val)
						}
					}
				case *ssa.Store:
					if x.Addr == ssa.Value(lit) {
						copied = true // whole-struct store (*lit = *r)
					}
				}
			}
		}
		if copied {
			ru.Fail(sp.fn+":copy", p.Rel(lit.Pos()), "clone is initialised by copying the whole receiver struct, cursor included")
			continue
		}
		for f, want := range sp.fields {
			got, ok := set[f]
			w := fw.ParsePoly(want)
			if !ok {
				got = fw.PConst(0) // unset field = zero value
			}
			okF := got.Equal(w)
			if !okF && strings.HasPrefix(got.String(), want) {
				okF = true // load with store-version suffix
			}
			ru.Check(okF, sp.fn+":"+f, p.Rel(lit.Pos()), f+" = "+got.String(), "clone field "+f+" is "+got.String()+", expected "+w.String())
		}
	}
	// a LimitReader clone must read from a clone of the wrapped reader (sharing it would let the clone consume the original's bits)
	if fn := getFn(ru, p, "(*pkg/bitio.LimitReader).CloneReader"); fn != nil {
		e := fw.NewSymEnv(fn)
		ok := false
		got := ""
		for _, ret := range returnsOf(fn) {
			if f, _, isLit := e.Fields(ret.Results[0]); isLit {
				got = f["r"]
				ok = got == "pkg/bitio.CloneReader(P0->r)#0"
			}
		}
		ru.Check(ok, "(*pkg/bitio.LimitReader).CloneReader:r", p.Rel(fn.Pos()), "reads from CloneReader(r.r)", "the clone's wrapped reader is "+got+", must be the clone CloneReader(r.r) returned (a shared reader is advanced by both)")
	}
	// constructor-based clones: the constructor zeroes the cursor
	for _, x := range []struct{ fn, ctor, desc string }{
		{"(*pkg/bitio.IOBitReadSeeker).CloneReaderAtSeeker", "NewIOBitReadSeeker", "pkg/bitio.NewIOBitReadSeeker(P0->rs)"},
		{"(*internal/bitiox.ZeroReadAtSeeker).CloneReadAtSeeker", "NewZeroAtSeeker", "internal/bitiox.NewZeroAtSeeker(P0->nBits)"},
	} {
		fn := getFn(ru, p, x.fn)
		if fn == nil {
			continue
		}
		cs := methodCalls(fn, x.ctor)
		ru.Check(len(cs) == 1, x.fn+":ctor", p.Rel(fn.Pos()), "clone built by "+x.ctor, "clone is not built by "+x.ctor+" (which starts at position 0)")
		if len(cs) == 1 {
			e := fw.NewSymEnv(fn)
			okRet := false
			for _, ret := range returnsOf(fn) {
				okRet = e.Of(ret.Results[0]) == x.desc
			}
			ru.Check(okRet, x.fn+":same-source", p.Rel(cs[0].Pos()), x.desc, "the clone must be "+x.desc+" (same underlying data / length), got "+e.CallDesc(cs[0]))
		}
	}
}
