package rules

import (
	"fmt"
	"go/token"
	"go/types"
	"sort"
	"strings"

	"golang.org/x/tools/go/ssa"

	"fqverif/fw"
)

// ---------------------------------------------------------------------------
// C18.parked: shared objects are not mutated behind the back of C18.globals
//
// C18.globals sees a write to package-level state when the written address leads back to the variable. Two
// ways around it, both closed here:
//  (a) the mutation happens inside a library: a method of a non-fq type (a defragmenter, an assembler, a
//      pool, a scanner ...) called with an object that a package-level variable of the fq module designates.
//      Library bodies are part of the loaded program, so "writes through parameter i" is computed on demand
//      for them exactly as for fq functions (stores, map updates, copy/delete/clear, atomics, transitively
//      through static callees; locking a mutex is not counted);
//  (b) the shared object is parked: outside package initialisation a reference loaded from a package-level
//      variable is stored into a struct field (per-decode state defaulting to a process-wide object). Every
//      later load of that field designates the shared object; writes through it - by fq code or by a library
//      callee - are writes to process-wide state that the next decode of the process observes.

type c18LibKey struct {
	fn  *ssa.Function
	idx int
}

var c18LibMemo = map[c18LibKey]int{} // 0 unknown, 1 in progress / no, 2 yes
var c18LibMemoFor *fw.Program

func c18LibSkipCallee(fn *ssa.Function) bool {
	if fn.Pkg == nil {
		return false
	}
	switch fn.Pkg.Pkg.Path() {
	case "sync":
		if recv := fn.Signature.Recv(); recv != nil {
			s := recv.Type().String()
			return strings.HasSuffix(s, "sync.Mutex") || strings.HasSuffix(s, "sync.RWMutex") || strings.HasSuffix(s, "sync.Once") || strings.HasSuffix(s, "sync.WaitGroup")
		}
	case "runtime", "internal/race", "internal/godebug":
		return true
	}
	return false
}

// c18LibWrites: the function (any package, body available) may write through its parameter idx.
func c18LibWrites(p *fw.Program, fn *ssa.Function, idx int, depth int) bool {
	if c18LibMemoFor != p {
		c18LibMemoFor = p
		c18LibMemo = map[c18LibKey]int{}
	}
	if fn == nil || idx >= len(fn.Params) || len(fn.Blocks) == 0 || depth > 8 || c18LibSkipCallee(fn) {
		return false
	}
	k := c18LibKey{fn, idx}
	switch c18LibMemo[k] {
	case 1:
		return false
	case 2:
		return true
	}
	c18LibMemo[k] = 1
	par := ssa.Value(fn.Params[idx])
	if !refLike(par.Type()) && !c18MayAlias(par.Type()) {
		return false
	}
	rooted := func(v ssa.Value) bool { return c18HasRoot(v, par) }
	res := false
	fw.EachInstr(fn, func(ins ssa.Instruction) {
		if res {
			return
		}
		switch x := ins.(type) {
		case *ssa.Store:
			if _, isA := x.Addr.(*ssa.Alloc); !isA && rooted(x.Addr) {
				res = true
			}
		case *ssa.MapUpdate:
			if rooted(x.Map) {
				res = true
			}
		case ssa.CallInstruction:
			cc := x.Common()
			if b, ok := cc.Value.(*ssa.Builtin); ok {
				switch b.Name() {
				case "delete", "clear", "copy":
					if rooted(cc.Args[0]) {
						res = true
					}
				}
				return
			}
			callee := cc.StaticCallee()
			if callee == nil {
				return
			}
			name := callee.String()
			if o := callee.Origin(); o != nil {
				name = o.String()
			}
			if i, ok := stdMutators[name]; ok && i >= 0 && i < len(cc.Args) && rooted(cc.Args[i]) {
				res = true
				return
			}
			if callee.Pkg != nil && callee.Pkg.Pkg.Path() == "sync/atomic" {
				for _, pre := range []string{"Add", "Store", "Swap", "CompareAndSwap", "Or", "And"} {
					if strings.HasPrefix(callee.Name(), pre) && len(cc.Args) > 0 && rooted(cc.Args[0]) {
						res = true
					}
				}
				return
			}
			for i, a := range cc.Args {
				if rooted(a) && c18LibWrites(p, callee, i, depth+1) {
					res = true
					return
				}
			}
		}
	})
	if res {
		c18LibMemo[k] = 2
	}
	return res
}

type c18FieldKey struct {
	typ   string
	field int
}

type c18Taint struct {
	name    string
	globals map[*ssa.Global]bool
	pos     token.Pos
	where   string
}

// c18FieldOf: the struct field an address designates (named struct type + index).
func c18FieldOf(fa *ssa.FieldAddr) (c18FieldKey, string, bool) {
	pt, ok := fa.X.Type().Underlying().(*types.Pointer)
	if !ok {
		return c18FieldKey{}, "", false
	}
	n, ok := pt.Elem().(*types.Named)
	if !ok {
		return c18FieldKey{}, "", false
	}
	t := shortType(n)
	return c18FieldKey{t, fa.Field}, t + "." + fieldNameOf(fa.X.Type(), fa.Field), true
}

func c18IsDescriptorPtr(t types.Type) bool {
	pt, ok := t.Underlying().(*types.Pointer)
	if !ok {
		return false
	}
	n, ok := pt.Elem().(*types.Named)
	if !ok || n.Obj().Pkg() == nil || n.Obj().Pkg().Path() != fw.Mod+"/pkg/decode" {
		return false
	}
	switch n.Obj().Name() {
	case "Group", "Format", "Dependency":
		return true
	}
	return false
}

// c18ParkedRoots: package-level variables the value may designate through a field that holds a parked reference.
func c18ParkedRoots(v ssa.Value, taint map[c18FieldKey]*c18Taint, seen map[ssa.Value]bool, out map[*ssa.Global]bool, via *[]string) {
	for i := 0; i < 40; i++ {
		if v == nil || seen[v] {
			return
		}
		seen[v] = true
		switch x := v.(type) {
		case *ssa.FieldAddr:
			v = x.X
		case *ssa.IndexAddr:
			v = x.X
		case *ssa.Field:
			v = x.X
		case *ssa.Index:
			v = x.X
		case *ssa.Slice:
			v = x.X
		case *ssa.ChangeType:
			v = x.X
		case *ssa.Convert:
			v = x.X
		case *ssa.ChangeInterface:
			v = x.X
		case *ssa.MakeInterface:
			v = x.X
		case *ssa.TypeAssert:
			v = x.X
		case *ssa.Lookup:
			v = x.X
		case *ssa.Extract:
			switch t := x.Tuple.(type) {
			case *ssa.TypeAssert:
				v = t.X
			case *ssa.Lookup:
				v = t.X
			default:
				return
			}
		case *ssa.Phi:
			for _, e := range x.Edges {
				c18ParkedRoots(e, taint, seen, out, via)
			}
			return
		case *ssa.UnOp:
			if x.Op != token.MUL {
				return
			}
			if fa, ok := x.X.(*ssa.FieldAddr); ok {
				if fk, name, ok := c18FieldOf(fa); ok {
					if t := taint[fk]; t != nil {
						for g := range t.globals {
							out[g] = true
						}
						*via = append(*via, name)
					}
				}
			}
			if al, ok := x.X.(*ssa.Alloc); ok {
				if al.Referrers() != nil {
					for _, rf := range *al.Referrers() {
						if st, ok := rf.(*ssa.Store); ok && st.Addr == ssa.Value(al) {
							c18ParkedRoots(st.Val, taint, seen, out, via)
						}
					}
				}
				return
			}
			v = x.X
		default:
			return
		}
	}
}

// (function|callee|variable) accepted although the library callee writes through the shared object
var c18ParkedExceptions = map[string]string{}

func c18Parked(r *fw.Run, p *fw.Program) {
	ru := r.Rule("C18.parked", "an object designated by a package-level variable of the fq module is not mutated where C18.globals cannot see it: outside package initialisation no library (non-fq) function that writes through a parameter - computed from the library's own code: stores, map updates, copy/delete/clear, atomics, transitively through static callees - is called with such an object, and a reference loaded from a package-level variable that is parked in a struct field (per-decode state defaulting to a process-wide object) is never written through, neither by fq code nor by a library callee", 20)
	summ := mutationSummaries(p)
	initOnly := initOnlyFunctions(p)
	scope := func(fn *ssa.Function) bool {
		if fn.TypeParams().Len() > 0 && len(fn.TypeArgs()) == 0 {
			return false
		}
		top := fw.Top(fn)
		return !isInitContext(top) && !initOnly[top] && !insideOnceDo(fn)
	}
	gname := func(g *ssa.Global) string {
		return strings.TrimPrefix(g.Pkg.Pkg.Path(), fw.Mod+"/") + "." + g.Name()
	}
	fqGlobalsOf := func(v ssa.Value) []*ssa.Global {
		var gs []*ssa.Global
		for _, root := range memRoots(v) {
			if g := isFqGlobal(root); g != nil {
				gs = append(gs, g)
			}
		}
		return gs
	}
	// (b) parked references
	taint := map[c18FieldKey]*c18Taint{}
	for _, fn := range p.FqFunctions() {
		if !scope(fn) {
			continue
		}
		fw.EachInstr(fn, func(ins ssa.Instruction) {
			st, ok := ins.(*ssa.Store)
			if !ok {
				return
			}
			fa, ok := st.Addr.(*ssa.FieldAddr)
			if !ok || !refLike(st.Val.Type()) || c18IsDescriptorPtr(st.Val.Type()) {
				return
			}
			gs := fqGlobalsOf(st.Val)
			if len(gs) == 0 {
				return
			}
			fk, name, ok := c18FieldOf(fa)
			if !ok {
				return
			}
			t := taint[fk]
			if t == nil {
				t = &c18Taint{name: name, globals: map[*ssa.Global]bool{}, pos: st.Pos(), where: fw.ShortFn(fn)}
				taint[fk] = t
			}
			for _, g := range gs {
				t.globals[g] = true
			}
		})
	}
	written := map[c18FieldKey]string{}
	parkedOf := func(v ssa.Value) ([]*ssa.Global, []string) {
		if len(taint) == 0 {
			return nil, nil
		}
		out := map[*ssa.Global]bool{}
		var via []string
		c18ParkedRoots(v, taint, map[ssa.Value]bool{}, out, &via)
		var gs []*ssa.Global
		for g := range out {
			gs = append(gs, g)
		}
		sort.Slice(gs, func(i, j int) bool { return gname(gs[i]) < gname(gs[j]) })
		return gs, via
	}
	markWritten := func(via []string, how string) {
		for fk, t := range taint {
			for _, n := range via {
				if t.name == n && written[fk] == "" {
					written[fk] = how
				}
			}
		}
	}
	nLib := 0
	for _, fn := range p.FqFunctions() {
		if !scope(fn) {
			continue
		}
		// writes by fq code through a parked reference
		if len(taint) > 0 {
			for _, w := range writesIn(fn, summ) {
				if gs, via := parkedOf(w.target); len(gs) > 0 {
					markWritten(via, w.what+" in "+fw.ShortFn(fn)+" at "+p.Rel(w.ins.Pos()))
				}
			}
		}
		// library callees handed a shared object
		ord := map[string]int{}
		for _, c := range fw.CallsIn(fn) {
			callee := c.Common().StaticCallee()
			if callee == nil || fw.InFq(callee) || len(callee.Blocks) == 0 {
				continue
			}
			for i, a := range c.Common().Args {
				if !refLike(a.Type()) && !c18MayAlias(a.Type()) {
					continue
				}
				direct := fqGlobalsOf(a)
				parked, via := parkedOf(a)
				if len(direct) == 0 && len(parked) == 0 {
					continue
				}
				writes := c18LibWrites(p, callee, i, 0)
				if len(parked) > 0 && writes {
					markWritten(via, "handed to "+callee.String()+", which writes through it, in "+fw.ShortFn(fn)+" at "+p.Rel(c.Pos()))
				}
				for _, g := range direct {
					nLib++
					base := fw.ShortFn(fn) + "|" + callee.String() + "|" + gname(g)
					ord[base]++
					key := base
					if ord[base] > 1 {
						key = fmt.Sprintf("%s#%d", base, ord[base])
					}
					switch {
					case !writes:
						ru.Ok(key, p.Rel(c.Pos()), "library callee does not write through this argument")
					case c18ParkedExceptions[base] != "":
						ru.Except(key, p.Rel(c.Pos()), c18ParkedExceptions[base])
					default:
						ru.Fail(key, p.Rel(c.Pos()), fmt.Sprintf("%s, which writes through its argument %d, is called with the object package-level variable %s designates: state kept inside the library object is shared by every decode of the process (one input's leftovers are seen by the next; concurrent decodes contend for it)", callee.String(), i, gname(g)))
					}
				}
			}
		}
	}
	var fks []c18FieldKey
	for fk := range taint {
		fks = append(fks, fk)
	}
	sort.Slice(fks, func(i, j int) bool { return taint[fks[i]].name < taint[fks[j]].name })
	for _, fk := range fks {
		t := taint[fk]
		var gn []string
		for g := range t.globals {
			gn = append(gn, gname(g))
		}
		sort.Strings(gn)
		key := "field:" + t.name + "|" + strings.Join(gn, ",")
		if how := written[fk]; how != "" {
			ru.Fail(key, p.Rel(t.pos), "field "+t.name+" is given a reference to package-level "+strings.Join(gn, ", ")+" outside package initialisation ("+t.where+") and the object is written through that field ("+how+"): per-decode state aliases a process-wide object, so what one decode leaves in it is seen by the next")
		} else {
			ru.Ok(key, p.Rel(t.pos), "reference to package-level state parked in a field; nothing writes through it")
		}
	}
	ru.Ok("scan", "", fmt.Sprintf("%d parked fields, %d library calls on shared objects examined", len(taint), nLib))
}
