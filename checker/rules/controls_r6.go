package rules

// Positive controls for the rules added in round 6 (one seeded edit per rule; the rule must fire on it).
func init() {
	add := func(prop, id, rule, file, old, new, expect string) {
		AddControl(Control{ID: id, Prop: prop, Rule: rule, File: file, Old: old, New: new, ExpectKey: expect})
	}
	// C08.delegate: a protocol method answered from somewhere else than the JSON value
	add("C08", "c08-delegate-length", "C08.delegate", "pkg/interp/decode.go",
		"func (v decodeValue) JQValueToGoJQEx(optsFn func() (*Options, error)) any {",
		"func (v decodeValue) JQValueLength() any {\n\tif v.isRaw {\n\t\treturn int(v.dv.Range.Len / 8)\n\t}\n\treturn v.JQValue.JQValueLength()\n}\nfunc (v decodeValue) JQValueToGoJQEx(optsFn func() (*Options, error)) any {", "JQValueLength")
	// C08.json (borrowed): the big integer arm
	add("C08", "c08-json-bigint-unsigned", "C08.json", "internal/colorjson/encoder.go",
		"\t\te.write(v.Append(e.buf[:0], 10), e.opts.Colors.Number)", "\t\te.write(strconv.AppendUint(e.buf[:0], v.Uint64(), 10), e.opts.Colors.Number)", "value:")
	// C13.pre notnan
	add("C13", "c13-pre-bigfloat-nan", "C13.pre", "pkg/interp/interp.go",
		"\tcase float64:\n\t\treturn new(big.Int).SetInt64(int64(v)), nil\n\tcase *big.Int:\n\t\treturn v, nil",
		"\tcase float64:\n\t\tbi, _ := new(big.Float).SetFloat64(v).Int(nil)\n\t\treturn bi, nil\n\tcase *big.Int:\n\t\treturn v, nil", "notnan:SetFloat64")
	// C13.jqrec: an unclassified recursion
	add("C13", "c13-jqrec-radix-negative", "C13.jqrec", "format/math/radix.jq",
		"  | if . == 0 then \"0\"\n    else\n      ( [ recurse(if . > 0 then _intdiv(.; $base) else empty end) | . % $base]",
		"  | if . == 0 then \"0\"\n    elif . < 0 then \"-\" + (-. | to_radix($base; $table))\n    else\n      ( [ recurse(if . > 0 then _intdiv(.; $base) else empty end) | . % $base]", "to_radix/2")
	// C17.open
	add("C17", "c17-open-seek-probe", "C17.open", "pkg/interp/binary.go",
		"\tif fFI.Mode().IsRegular() {\n\t\tif rs, ok := f.(io.ReadSeeker); ok {\n\t\t\tfRS = ctxreadseeker.New(i.EvalInstance.Ctx, rs)\n\t\t\tbEnd = fFI.Size()\n\t\t}\n\t}",
		"\tif rs, ok := f.(io.ReadSeeker); ok {\n\t\tif _, err := rs.Seek(0, io.SeekCurrent); err == nil {\n\t\t\tfRS = ctxreadseeker.New(i.EvalInstance.Ctx, rs)\n\t\t\tbEnd = fFI.Size()\n\t\t}\n\t}", "lazy-only-regular")
	// C14.feed: pre-read buffer rounded down
	add("C14", "c14-feed-base64-rounded-down", "C14.feed", "format/text/encoding.go",
		"\t\tbb := &bytes.Buffer{}\n\t\twc := base64.NewEncoder(base64Encoding(opts.Encoding), bb)\n\t\tif _, err := io.Copy(wc, bitio.NewIOReader(br)); err != nil {\n\t\t\treturn err\n\t\t}\n\t\twc.Close()\n\t\treturn bb.String()",
		"\t\tbuf := make([]byte, 16)\n\t\tn, err := io.ReadFull(bitio.NewIOReader(br), buf)\n\t\tif err != nil && n == 0 {\n\t\t\treturn err\n\t\t}\n\t\tvar bb bytes.Buffer\n\t\tbb.WriteString(base64Encoding(opts.Encoding).EncodeToString(buf[:n]))\n\t\treturn bb.String()", "_to_base64")
	// C14.norm / C16.text.norm: append to a pre-sized slice
	add("C14", "c14-norm-append-presized", "C14.norm", "internal/gojqx/types.go",
		"\tcase []map[string]any:\n\t\tvar vs []any", "\tcase []map[string]any:\n\t\tvs := make([]any, len(v))", "append-from-empty")
	add("C16", "c16-norm-append-presized", "C16.text.norm", "internal/gojqx/types.go",
		"\tcase []map[string]any:\n\t\tvar vs []any", "\tcase []map[string]any:\n\t\tvs := make([]any, len(v))", "append-from-empty")
	// C16.xml.opts
	add("C16", "c16-xml-autoclose", "C16.xml.opts", "format/xml/xml.go", "\txd.Strict = false\n", "\txd.Strict = false\n\txd.AutoClose = xml.HTMLAutoClose\n", "AutoClose")
	// C07.tojson: another encoder for some inputs
	add("C07", "c07-tojson-string-fastpath", "C07.tojson", "format/json/json.go",
		"func toJSON(_ *interp.Interp, c any, opts ToJSONOpts) any {\n", "func toJSON(_ *interp.Interp, c any, opts ToJSONOpts) any {\n\tif s, ok := c.(string); ok {\n\t\tb, err := stdjson.Marshal(s)\n\t\tif err != nil {\n\t\t\treturn err\n\t\t}\n\t\treturn string(b)\n\t}\n", "only-result")
	// C10: pre-pass skips values
	add("C10", "c10-prepass-early-return", "C10.dump.cols", "pkg/interp/dump.go",
		"\t_ = v.WalkPreOrder(makeWalkFn(func(v *decode.Value, _ *decode.Value, _ int, rootDepth int) error {\n\t\tmaxAddrIndentWidth = max(",
		"\t_ = v.WalkPreOrder(makeWalkFn(func(v *decode.Value, _ *decode.Value, _ int, rootDepth int) error {\n\t\tif opts.ArrayTruncate != 0 && v.Index >= opts.ArrayTruncate {\n\t\t\treturn decode.ErrWalkBreak\n\t\t}\n\t\tmaxAddrIndentWidth = max(", "digits:every-value")
	// C20.sig: bridge disarmed
	add("C20", "c20-sig-reset-after-forward", "C20.sig", "pkg/cli/cli.go",
		"\t\t\t\tcase interruptChan <- struct{}{}:\n\t\t\t\tdefault:\n\t\t\t\t}\n", "\t\t\t\tcase interruptChan <- struct{}{}:\n\t\t\t\tdefault:\n\t\t\t\t}\n\t\t\t\tsignal.Reset(os.Interrupt)\n", "bridge stays armed")
	// C04.scalarroot (borrowed from C03.own)
	add("C04", "c04-scalarroot-short-range", "C04.scalarroot", "format/json/json.go",
		"\td.Value.Range.Len = d.Len()\n", "\td.Value.Range.Len = jd.InputOffset() * 8\n", "decodeJSONEx")
	// C03.parentkey (borrowed from C12.keys)
	add("C03", "c03-parentkey-root-null", "C03.parentkey", "pkg/interp/decode.go",
		"\tcase \"_parent\":\n\t\tif dv.Parent == nil {", "\tcase \"_parent\":\n\t\tif dv.Parent == nil || dv.IsRoot {", "key:_parent")
}
