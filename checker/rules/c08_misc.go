package rules

import (
	"fmt"
	"go/types"
	"strings"

	"golang.org/x/tools/go/ssa"

	"fqverif/fw"
)

// ---------------------------------------------------------------------------
// C08.togojq: what tovalue sees is what the sibling methods enumerate

// loopBypass: inside the loop with header hdr, can an iteration reach the header again without executing
// block B when the edges satisfying del are removed?
func loopBypass(hdr, B *ssa.BasicBlock, del func(fw.Cond) bool) bool {
	for _, s := range hdr.Succs {
		if !fw.InLoop(hdr, s) || s == hdr {
			continue
		}
		seen := fw.ReachAvoiding(s, del, map[*ssa.BasicBlock]bool{B: true})
		for b := range seen {
			for _, t := range b.Succs {
				if t == hdr {
					if cd, ok := fw.EdgeCond(b, t); ok && del(cd) {
						continue
					}
					return true
				}
			}
		}
	}
	return false
}

func (c *c08ctx) ruleToGoJQ() {
	ru := c.r.Rule("C08.togojq", "JQValueToGoJQ of each wrapper is the plain Go value of the same payload/collection the sibling methods consult: scalars return their payload in its plain Go type, decode arrays/structs convert every child in order (struct: keyed by the child's own name) and drop a child only if it is a gap and SkipGaps is set, the no-option form never skips, non-raw decode scalars forward to the wrapped value, raw ones use their binary form with the caller's options exactly when the scalar is not synthetic", 13)
	plain := []struct {
		kind, meth, want, goType string
	}{
		{"array", "JQValueToGoJQ", "recv", "[]any"},
		{"object", "JQValueToGoJQ", "recv", "map[string]any"},
		{"string", "JQValueToGoJQ", "conv<string>(recv)", "string"},
		{"string", "JQValueToString", "conv<string>(recv)", "string"},
		{"boolean", "JQValueToGoJQ", "recv", "bool"},
		{"null", "JQValueToGoJQ", "nil", ""},
		{"number", "JQValueToGoJQ", "recv.V", ""},
		{"number", "JQValueToNumber", "recv.V", ""},
	}
	for _, pl := range plain {
		T := c.byKind[pl.kind]
		f := c.method(T, pl.meth)
		key := tname(T) + "." + strings.TrimPrefix(pl.meth, "JQValue")
		if f == nil {
			ru.Undecided(key, "", pl.meth+" not declared")
			continue
		}
		e := c.env(f)
		var msgs []string
		for _, rc := range fw.ReturnCases(f, 0) {
			if t := e.Term(rc.Val); t != pl.want {
				msgs = append(msgs, "returns "+t+", expected "+pl.want)
			}
			if pl.goType != "" {
				inner := rc.Val
				if mi, ok := inner.(*ssa.MakeInterface); ok {
					inner = mi.X
				}
				if got := fw.TypeStr(inner.Type()); got != pl.goType {
					msgs = append(msgs, "returns a "+got+", expected the plain Go type "+pl.goType+" (a wrapper type would be converted again, forever)")
				}
			}
		}
		ru.Check(len(msgs) == 0, key, c.pos(f), pl.want, strings.Join(uniq(msgs), "; "))
	}
	// decode array / struct
	for _, w := range []struct {
		T     *types.Named
		isArr bool
	}{{c.arrayDV, true}, {c.structDV, false}} {
		name := tname(w.T)
		fl := c.method(w.T, "JQValueLength")
		if fl == nil {
			continue
		}
		lt := ""
		if rcs := fw.ReturnCases(fl, 0); len(rcs) == 1 {
			lt = c.env(fl).Term(rcs[0].Val)
		}
		if !strings.HasPrefix(lt, "len(") {
			continue // reported by C08.iface
		}
		C := lt[4 : len(lt)-1]
		f := c.method(w.T, "JQValueToGoJQEx")
		key := name + ".ToGoJQEx"
		if f == nil {
			ru.Undecided(key, "", "JQValueToGoJQEx not declared")
			continue
		}
		e := c.env(f)
		var msgs []string
		var B *ssa.BasicBlock
		var idx ssa.Value
		n := 0
		// the element added per iteration
		fw.EachInstr(f, func(ins ssa.Instruction) {
			var keyT, valT string
			switch x := ins.(type) {
			case *ssa.MapUpdate:
				if w.isArr {
					return
				}
				if _, ok := x.Map.(*ssa.MakeMap); !ok {
					return
				}
				keyT, valT = e.Term(x.Key), e.Term(x.Value)
				// the map is what is returned
				ret := false
				for _, rc := range fw.ReturnCases(f, 0) {
					if stripIfaceVal(rc.Val) == x.Map {
						ret = true
					}
				}
				if !ret {
					msgs = append(msgs, "the map filled is not the one returned")
				}
			case *ssa.Call:
				if !w.isArr || !fw.IsBuiltinCall(x, "append") {
					return
				}
				els, ok := fw.SliceLitElems(x.Call.Args[1])
				if !ok || len(els) != 1 {
					msgs = append(msgs, "append of something that is not one element")
					return
				}
				valT = e.Term(els[0])
				// accumulator: phi over {empty make, itself, this append}; the phi is returned
				ph, isPhi := x.Call.Args[0].(*ssa.Phi)
				if !isPhi {
					msgs = append(msgs, "append does not extend the loop accumulator")
					return
				}
				for _, ed := range ph.Edges {
					switch y := ed.(type) {
					case *ssa.MakeSlice:
						if e.Int(y.Len).String() != "0" {
							msgs = append(msgs, "accumulator does not start empty")
						}
					default:
						if ed != ssa.Value(ph) && ed != ssa.Value(x) {
							msgs = append(msgs, "accumulator has another source: "+e.Term(ed))
						}
					}
				}
				ret := false
				fw.EachInstr(f, func(i2 ssa.Instruction) {
					if r, ok := i2.(*ssa.Return); ok && len(r.Results) == 1 && stripIfaceVal(r.Results[0]) == ssa.Value(ph) {
						ret = true
					}
				})
				if !ret {
					msgs = append(msgs, "the slice appended to is not the one returned")
				}
			default:
				return
			}
			n++
			B = ins.Block()
			// which element
			var rd *elemRead
			for _, r := range elemReads(e, f) {
				r := r
				if r.seq == C {
					rd = &r
				}
			}
			if rd == nil {
				msgs = append(msgs, "no child of "+C+" is read")
				return
			}
			el := "elem(" + C + ", " + rd.idx.String() + ")"
			if !c.isWrapOf(valT, el) {
				msgs = append(msgs, "adds "+valT+", expected the value-kind wrap of a child of "+C)
			}
			if !w.isArr && keyT != el+".Name" {
				msgs = append(msgs, "keyed by "+keyT+", expected the name of the same child "+el+".Name")
			}
			// find the index value to get the loop
			fw.EachInstr(f, func(i2 ssa.Instruction) {
				if ia, ok := i2.(*ssa.IndexAddr); ok {
					if s, _, _ := e.ElemOfAddr(ia); s == C {
						idx = ia.Index
					}
				}
			})
		})
		if n != 1 {
			msgs = append(msgs, fmt.Sprintf("%d sites add to the result, expected 1", n))
		}
		if idx != nil && B != nil {
			lo, hi, hdr, ok := e.IndexRange(idx)
			if !ok || lo.String() != "0" || hi.String() != "len("+C+")" {
				msgs = append(msgs, "does not visit exactly the children 0..len("+C+")-1")
			} else {
				isSkip := func(cd fw.Cond) bool { return cd.True && strings.HasSuffix(e.Term(cd.Val), ".SkipGaps") }
				isGap := func(cd fw.Cond) bool {
					t := e.Term(cd.Val)
					return cd.True && strings.Contains(t, "IsGap(") && strings.Contains(t, "elem("+C+", ")
				}
				if loopBypass(hdr, B, isSkip) {
					msgs = append(msgs, "a child can be dropped although SkipGaps is not set: tovalue would disagree with length/keys")
				}
				if loopBypass(hdr, B, isGap) {
					msgs = append(msgs, "a child that is not a gap can be dropped")
				}
			}
		}
		ru.Check(len(msgs) == 0, key, c.pos(f), "every child of "+C+" in order, skipping only gaps under SkipGaps", strings.Join(uniq(msgs), "; "))

		// the no-option form
		f0 := c.method(w.T, "JQValueToGoJQ")
		key0 := name + ".ToGoJQ"
		if f0 == nil {
			ru.Undecided(key0, "", "JQValueToGoJQ not declared")
			continue
		}
		var m0 []string
		found := false
		for _, call := range fw.CallsIn(f0) {
			if call.Common().StaticCallee() != f {
				continue
			}
			found = true
			if c.env(f0).Term(call.Common().Args[0]) != "recv" {
				m0 = append(m0, "converts another value than the receiver")
			}
			var of *ssa.Function
			switch a := call.Common().Args[1].(type) {
			case *ssa.Function:
				of = a
			case *ssa.MakeClosure:
				of = a.Fn.(*ssa.Function)
			}
			if of == nil {
				m0 = append(m0, "options function is not a literal")
				continue
			}
			for _, rc := range fw.ReturnCases(of, 0) {
				t := c.env(of).Term(rc.Val)
				if !strings.HasPrefix(t, "&pkg/interp.Options{") || strings.Contains(t, "SkipGaps") {
					m0 = append(m0, "default options are "+t+", expected zero Options (no gap skipping)")
				}
			}
		}
		if !found {
			m0 = append(m0, "does not delegate to JQValueToGoJQEx")
		}
		ru.Check(len(m0) == 0, key0, c.pos(f0), "ToGoJQEx with zero options", strings.Join(uniq(m0), "; "))
	}
	// scalar decode value: non-raw forwards to the wrapped JQValue
	for _, w := range c.wrappers {
		st, ok := w.Underlying().(*types.Struct)
		if !ok || w == c.arrayDV || w == c.structDV {
			continue
		}
		emb := false
		for i := 0; i < st.NumFields(); i++ {
			if st.Field(i).Embedded() && st.Field(i).Type() == types.Type(c.baseT) {
				emb = true
			}
		}
		if !emb {
			continue
		}
		f := c.method(w, "JQValueToGoJQEx")
		key := tname(w) + ".ToGoJQEx"
		if f == nil {
			ru.Undecided(key, "", "JQValueToGoJQEx not declared")
			continue
		}
		e := c.env(f)
		var msgs []string
		nFwd := 0
		for _, rc := range fw.ReturnCases(f, 0) {
			t := e.Term(rc.Val)
			if t == "invoke recv.JQValue.JQValueToGoJQ()" {
				nFwd++
				continue
			}
			if fw.CaseReachable(f, rc, func(cd fw.Cond) bool { return cd.True && e.Term(cd.Val) == "recv.isRaw" }) {
				msgs = append(msgs, "a value not marked raw is converted by "+t+" instead of the wrapped value's JQValueToGoJQ")
			}
		}
		if nFwd == 0 {
			msgs = append(msgs, "never forwards to the wrapped value")
		}
		ru.Check(len(msgs) == 0, key, c.pos(f), "non-raw forwards to wrapped value", strings.Join(uniq(msgs), "; "))
		c.checkRawToGoJQ(ru, w, f)
	}
}

// ---------------------------------------------------------------------------
// C08.typ: error values name the wrapper's own JSON type and the jq function

var c08FuncOfMethod = map[string]string{
	"JQValueKeys": "keys", "JQValueHas": "has", "JQValueToNumber": "tonumber", "JQValueToString": "tostring", "JQValueLength": "length",
}

func (c *c08ctx) ruleTyp() {
	ru := c.r.Rule("C08.typ", "every error a typed wrapper method returns names the wrapper's own JSON type (Typ / L) and, where it carries a function name, the jq function of that method", 34)
	type tw struct {
		T    *types.Named
		kind string
	}
	var tws []tw
	for k, T := range c.byKind {
		tws = append(tws, tw{T, k})
	}
	tws = append(tws, tw{c.arrayDV, "array"}, tw{c.structDV, "object"})
	for _, w := range tws {
		for i := 0; i < w.T.NumMethods(); i++ {
			m := w.T.Method(i)
			if !strings.HasPrefix(m.Name(), "JQValue") {
				continue
			}
			top := c.p.SSA.FuncValue(m)
			if top == nil {
				continue
			}
			for _, f := range fw.WithClosures(top) {
				e := c.env(f)
				ord := 0
				for _, rc := range fw.ReturnCases(f, 0) {
					lt, fields, ok := fw.LitFields(rc.Val)
					if !ok || !strings.HasPrefix(fw.TypeStr(lt), "internal/gojqx.") {
						continue
					}
					if fields["Typ"] == nil && fields["L"] == nil && fields["Name"] == nil {
						continue
					}
					ord++
					key := fmt.Sprintf("%s.%s#%d", tname(w.T), strings.TrimPrefix(f.Name(), "JQValue"), ord)
					if f != top {
						key = fmt.Sprintf("%s.%s#%d", tname(w.T), strings.TrimPrefix(top.Name(), "JQValue")+"/"+f.Name(), ord)
					}
					var msgs []string
					for _, fld := range []string{"Typ", "L"} {
						if v := fields[fld]; v != nil {
							if s, ok := constString(v); !ok || s != w.kind {
								msgs = append(msgs, fmt.Sprintf("%s.%s is %s, but the wrapper's JSON type is %s", fw.TypeStr(lt), fld, e.Term(v), w.kind))
							}
						}
					}
					if v := fields["Name"]; v != nil {
						if want, known := c08FuncOfMethod[top.Name()]; known {
							if s, ok := constString(v); !ok || s != want {
								msgs = append(msgs, fmt.Sprintf("error names jq function %s, but the method implements %s", e.Term(v), want))
							}
						}
					}
					ru.Check(len(msgs) == 0, key, c.pos(f), fw.TypeStr(lt)+" of "+w.kind, strings.Join(msgs, "; "))
				}
			}
		}
	}
}

// ---------------------------------------------------------------------------
// C08.lazy: the lazy wrapper forwards each method to the same method with the same arguments

func (c *c08ctx) ruleLazy() {
	ru := c.r.Rule("C08.lazy", "every forwarding JQValue wrapper method (gojqx.Lazy) invokes the method of the same name on the produced value with its own parameters in order; the producer runs before its cached result is returned, value and error are returned in their own slots, and the forwarded call is made only when the producer succeeded", 13)
	for _, w := range c.wrappers {
		if w.Obj().Pkg().Path() != fw.Mod+"/internal/gojqx" {
			continue
		}
		// forwarding wrapper: a struct with a func() (JQValue, error) field
		st, ok := w.Underlying().(*types.Struct)
		if !ok {
			continue
		}
		isFwd := false
		for i := 0; i < st.NumFields(); i++ {
			if sig, ok := st.Field(i).Type().Underlying().(*types.Signature); ok && sig.Results().Len() == 2 && fw.TypeStr(sig.Results().At(0).Type()) == gojqPath+".JQValue" {
				isFwd = true
			}
		}
		if !isFwd {
			continue
		}
		c.checkLazyMemo(ru, w)
		for i := 0; i < c.jqv.NumMethods(); i++ {
			mn := c.jqv.Method(i).Name()
			top := c.method(w, mn)
			key := tname(w) + "." + strings.TrimPrefix(mn, "JQValue")
			if top == nil {
				ru.Undecided(key, "", mn+" not declared")
				continue
			}
			var invokes []ssa.CallInstruction
			var owner []*ssa.Function
			for _, f := range fw.WithClosures(top) {
				for _, call := range fw.CallsIn(f) {
					if call.Common().IsInvoke() && fw.TypeStr(call.Common().Value.Type()) == gojqPath+".JQValue" {
						invokes = append(invokes, call)
						owner = append(owner, f)
					}
				}
			}
			if len(invokes) == 0 {
				// not forwarded (e.g. JQValueType answers from a field)
				if c.jqv.Method(i).Type().(*types.Signature).Results().Len() == 1 && fw.TypeStr(c.jqv.Method(i).Type().(*types.Signature).Results().At(0).Type()) == "string" {
					ru.Ok(key, c.pos(top), "answered without producing the value")
				} else {
					ru.Fail(key, c.pos(top), "does not forward to the produced value")
				}
				continue
			}
			var msgs []string
			if len(invokes) != 1 {
				msgs = append(msgs, fmt.Sprintf("%d forwarding calls, expected 1", len(invokes)))
			}
			for k, call := range invokes {
				cc := call.Common()
				if cc.Method.Name() != mn {
					msgs = append(msgs, "forwards to "+cc.Method.Name()+" instead of "+mn)
				}
				e := c.env(owner[k])
				nParams := len(top.Params) - 1
				if len(cc.Args) != nParams {
					msgs = append(msgs, "argument count differs")
					continue
				}
				for ai, a := range cc.Args {
					if got, want := e.Term(a), fmt.Sprintf("arg%d", ai); got != want {
						msgs = append(msgs, fmt.Sprintf("argument %d of the forwarded call is %s, expected the method's own parameter %d", ai, got, ai))
					}
				}
			}
			ru.Check(len(msgs) == 0, key, c.pos(top), "forwards "+mn+" with own parameters", strings.Join(uniq(msgs), "; "))
		}
	}
}

// ---------------------------------------------------------------------------
// C08.order: Go map iteration order must not become jq-visible order

func (c *c08ctx) ruleOrder() {
	ru := c.r.Rule("C08.order", "no JQValue wrapper method returns a sequence filled while ranging over a Go map unless the sequence is sorted before it is returned (keys / .[] / to_entries of an object value must not depend on Go's randomised map order; plain JSON objects are sorted); also every slice-returning helper of gojqx/interp", 120)
	isWrapper := map[*types.Named]bool{}
	for _, w := range c.wrappers {
		isWrapper[w] = true
	}
	for _, top := range c.p.FqFunctions() {
		if top.Parent() != nil || top.Synthetic != "" {
			continue
		}
		if rel := pkgRel(top); rel != "internal/gojqx" && rel != "pkg/interp" {
			continue
		}
		// wrapper methods, and any helper of the two packages that returns a slice
		key := fw.ShortFn(top)
		isMeth := false
		if rv := top.Signature.Recv(); rv != nil && strings.HasPrefix(top.Name(), "JQValue") {
			t := rv.Type()
			if pt, ok := t.(*types.Pointer); ok {
				t = pt.Elem()
			}
			if nt, ok := t.(*types.Named); ok && isWrapper[nt] {
				isMeth = true
				key = tname(nt) + "." + strings.TrimPrefix(top.Name(), "JQValue")
			}
		}
		if !isMeth {
			res := top.Signature.Results()
			if res.Len() == 0 {
				continue
			}
			if _, isSlice := res.At(0).Type().Underlying().(*types.Slice); !isSlice {
				continue
			}
		}
		var leaks []string
		for _, f := range fw.WithClosures(top) {
			leaks = append(leaks, c.mapOrderLeaks(f)...)
		}
		ru.Check(len(leaks) == 0, key, c.pos(top), "no map-ordered sequence returned", strings.Join(uniq(leaks), "; "))
	}
}

// mapOrderLeaks: sequences (made slices) written inside a range-over-map loop of f and not passed to a
// sort function afterwards.
func (c *c08ctx) mapOrderLeaks(f *ssa.Function) []string {
	var out []string
	e := c.env(f)
	var hdrs []*ssa.BasicBlock
	fw.EachInstr(f, func(ins ssa.Instruction) {
		nx, ok := ins.(*ssa.Next)
		if !ok || nx.IsString {
			return
		}
		if rg, ok := nx.Iter.(*ssa.Range); ok {
			if _, isMap := rg.X.Type().Underlying().(*types.Map); isMap {
				hdrs = append(hdrs, nx.Block())
			}
		}
	})
	if len(hdrs) == 0 {
		return nil
	}
	inMapLoop := func(b *ssa.BasicBlock) bool {
		for _, h := range hdrs {
			if fw.InLoop(h, b) {
				return true
			}
		}
		return false
	}
	// root of an accumulator: appends are followed back to what they extend (the loop phi or the initial value)
	var root func(v ssa.Value, depth int) ssa.Value
	root = func(v ssa.Value, depth int) ssa.Value {
		v = fw.Resolve(v)
		if call, ok := v.(*ssa.Call); ok && fw.IsBuiltinCall(call, "append") && depth < 8 {
			return root(call.Call.Args[0], depth+1)
		}
		return v
	}
	dests := map[ssa.Value]bool{}
	for _, wr := range seqWrites(f) {
		if inMapLoop(wr.block) {
			dests[wr.dest] = true
		}
	}
	fw.EachInstr(f, func(ins ssa.Instruction) {
		if call, ok := ins.(*ssa.Call); ok && fw.IsBuiltinCall(call, "append") && inMapLoop(call.Block()) {
			dests[root(call, 0)] = true
		}
	})
	if len(dests) == 0 {
		return nil
	}
	sorted := map[ssa.Value]bool{}
	fw.EachInstr(f, func(ins ssa.Instruction) {
		call, ok := ins.(*ssa.Call)
		if !ok {
			return
		}
		cf := call.Common().StaticCallee()
		if cf == nil {
			return
		}
		pk := ""
		if cf.Pkg != nil {
			pk = cf.Pkg.Pkg.Path()
		} else if o := cf.Origin(); o != nil && o.Pkg != nil {
			pk = o.Pkg.Pkg.Path()
		}
		if pk != "sort" && pk != "slices" {
			return
		}
		if len(call.Common().Args) > 0 {
			sorted[root(call.Common().Args[0], 0)] = true
		}
	})
	for d := range dests {
		if sorted[d] {
			continue
		}
		// does it (or a value it feeds) reach a return?
		reaches := false
		for _, rc := range fw.ReturnCases(f, 0) {
			if root(rc.Val, 0) == d {
				reaches = true
			}
		}
		if reaches {
			out = append(out, "returns "+e.Term(d)+" filled in Go map iteration order without sorting: the order differs from run to run and from the sorted order of the plain JSON value")
		}
	}
	return out
}

// ---------------------------------------------------------------------------
// C08.numlen: length of a number is its absolute value

func (c *c08ctx) ruleNumLen() { c.ruleNumLenExact() }

// ---------------------------------------------------------------------------
// C08.nullsem: a decoded null answers collection questions like the plain null of the embedded engine

func (c *c08ctx) ruleNullSem() {
	ru := c.r.Rule("C08.nullsem", "the null wrapper behaves as the engine's plain null: length 0, null[i] and null[a:b] are null (so its slice length must be an integer, not an error), has(k) is false", 2)
	T := c.byKind["null"]
	// length
	if f := c.method(T, "JQValueLength"); f == nil {
		ru.Undecided(tname(T)+".Length", "", "JQValueLength not declared")
	} else {
		good := true
		got := ""
		for _, rc := range fw.ReturnCases(f, 0) {
			got = c.env(f).Term(rc.Val)
			if got != "0" {
				good = false
			}
		}
		ru.Check(good, tname(T)+".Length", c.pos(f), "0", "length of null is "+got+", expected 0")
	}
	var msgs []string
	pos := ""
	for _, m := range []struct{ meth, want, why string }{
		{"JQValueSliceLen", "int", "gojq returns a non-integer slice length as the result of null[i] / null[a:b]"},
		{"JQValueIndex", "nil", "null[i] is null"},
		{"JQValueSlice", "nil", "null[a:b] is null"},
		{"JQValueHas", "false", "has(k) of null is false"},
	} {
		f := c.method(T, m.meth)
		if f == nil {
			msgs = append(msgs, m.meth+" not declared")
			continue
		}
		if pos == "" {
			pos = c.pos(f)
		}
		e := c.env(f)
		for _, rc := range fw.ReturnCases(f, 0) {
			ok := false
			switch m.want {
			case "int":
				inner := rc.Val
				if mi, isMI := inner.(*ssa.MakeInterface); isMI {
					inner = mi.X
				}
				ok = fw.IsIntT(inner.Type())
			case "nil":
				ok = isConstNil(rc.Val)
			case "false":
				ok = isConstBool(rc.Val, false)
			}
			if !ok {
				msgs = append(msgs, strings.TrimPrefix(m.meth, "JQValue")+" returns "+e.Term(rc.Val)+" ("+m.why+")")
			}
		}
	}
	ru.Check(len(msgs) == 0, tname(T)+".collection-ops", pos, "null[i]=null, null[a:b]=null, has=false", strings.Join(uniq(msgs), "; "))
}
