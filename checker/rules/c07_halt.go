package rules

import (
	"fmt"

	"golang.org/x/tools/go/ssa"

	"fqverif/fw"
)

// C07.haltstream: every write Interp.Main performs for a halt (under a successful errors.As(.., **gojq.HaltError))
// goes to OS.Stderr() — the jq command line prints the value of halt_error on stderr, never on stdout.
// (What is written is C07.haltprint.)
func c07HaltStream(r *fw.Run, p *fw.Program) {
	ru := r.Rule("C07.haltstream", "every Write Interp.Main performs while handling a gojq.HaltError (raw string, JSON text, newline) is invoked on the result of OS.Stderr()", 3)
	mainM := p.Fn("(*pkg/interp.Interp).Main")
	if mainM == nil {
		ru.Undecided("anchor", "", "(*interp.Interp).Main not found")
		return
	}
	var asCall *ssa.Call
	for _, c := range fw.CallsIn(mainM) {
		if cl, ok := c.(*ssa.Call); ok && fw.CalleeName(c) == "errors.As" && len(cl.Common().Args) == 2 {
			if mi, ok := cl.Common().Args[1].(*ssa.MakeInterface); ok && shortType(mi.X.Type()) == "**github.com/wader/gojq.HaltError" {
				asCall = cl
			}
		}
	}
	if asCall == nil {
		ru.Undecided("anchor", p.Rel(mainM.Pos()), "errors.As(.., **gojq.HaltError) not found in Interp.Main")
		return
	}
	n := 0
	for _, c := range fw.CallsIn(mainM) {
		cc := c.Common()
		if c17GuardOf(c.Block(), asCall) != 1 {
			continue
		}
		isWrite := cc.IsInvoke() && (cc.Method.Name() == "Write" || cc.Method.Name() == "WriteString")
		var stream ssa.Value
		if isWrite {
			stream = cc.Value
		} else if name := fw.CalleeName(c); (name == "fmt.Fprint" || name == "fmt.Fprintln" || name == "fmt.Fprintf" || name == "io.WriteString") && len(cc.Args) > 0 {
			stream, _ = stripIface(cc.Args[0])
		} else {
			continue
		}
		n++
		recv, ok := stream.(*ssa.Call)
		ru.Check(ok && recv.Common().IsInvoke() && recv.Common().Method.Name() == "Stderr", fmt.Sprintf("halt-write#%d", n), p.Rel(c.Pos()), "to OS.Stderr()", "a halt value is written to something else than OS.Stderr()")
	}
	if n == 0 {
		ru.Undecided("halt-write", p.Rel(mainM.Pos()), "no write found under the HaltError branch")
	}
}
