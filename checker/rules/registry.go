// Package rules holds the per-property rule sets.
package rules

import (
	"sort"

	"fqverif/fw"
)

// PropFn evaluates all rules of one property on a loaded program.
type PropFn func(r *fw.Run, p *fw.Program)

var registry = map[string]PropFn{}

func Register(id string, fn PropFn) { registry[id] = fn }

func Get(id string) PropFn { return registry[id] }

func IDs() []string {
	var out []string
	for k := range registry {
		out = append(out, k)
	}
	sort.Strings(out)
	return out
}
