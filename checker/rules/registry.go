// Package rules holds the per-property rule sets.
package rules

import (
	"sort"

	"fqverif/fw"
)

// PropFn evaluates all rules of one property on a loaded program.
type PropFn func(r *fw.Run, p *fw.Program)

var registry = map[string]PropFn{}

func Register(id string, fn PropFn) { registry[id] = fn }

// extras are rule sets shared between properties (kept outside the per-property files so that a
// property's own files can be replaced wholesale); they run after the property's own rules.
var extras = map[string][]PropFn{}

func RegisterExtra(id string, fn PropFn) { extras[id] = append(extras[id], fn) }

func Get(id string) PropFn {
	base := registry[id]
	if base == nil {
		return nil
	}
	ex := extras[id]
	if len(ex) == 0 {
		return base
	}
	return func(r *fw.Run, p *fw.Program) {
		base(r, p)
		for _, f := range ex {
			f(r, p)
		}
	}
}

func IDs() []string {
	var out []string
	for k := range registry {
		out = append(out, k)
	}
	sort.Strings(out)
	return out
}
