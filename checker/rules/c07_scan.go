package rules

import (
	"fmt"
	"go/constant"
	"go/token"
	"strings"

	"golang.org/x/tools/go/ssa"

	"fqverif/fw"
)

// ---------------------------------------------------------------------------
// C07.scan: the string encoder hands every input byte to the output exactly once
//
// C07.json compares *which* bytes are replaced and by what with the engine. What it cannot see is the
// bookkeeping of the scanner: colorjson's string encoder (as the engine's) walks the string with a
// cursor i and keeps a pending segment s[start:i] of bytes to be copied verbatim. Every byte is
// output exactly once iff, for every way round the loop,
//   - the cursor advances by exactly the width of the unit examined at i: 1 on the single-byte path
//     (s[i] < utf8.RuneSelf), the size returned by utf8.DecodeRuneInString(s[i:]) otherwise;
//   - a round that writes anything first writes the pending segment s[start:i] (skipped at most when
//     it is empty) and restarts the segment at the new cursor; a round that writes nothing leaves
//     start alone;
// both start at 0, and after the loop the rest s[start:] is written between the two quotes.

type c07Scan struct {
	fn    *ssa.Function
	data  *ssa.Parameter
	pkg   *ssa.Package
	head  *ssa.BasicBlock
	i     *ssa.Phi
	start *ssa.Phi
}

func (sc *c07Scan) isLenData(v ssa.Value) bool {
	c, ok := v.(*ssa.Call)
	return ok && fw.IsBuiltinCall(c, "len") && len(c.Common().Args) == 1 && c.Common().Args[0] == ssa.Value(sc.data)
}

// inLoop: b is dominated by the header and can reach it again.
func (sc *c07Scan) inLoop(b *ssa.BasicBlock) bool {
	return b != sc.head && sc.head.Dominates(b) && sc.reach(b, sc.head, true)
}

// reach: to is reachable from from; edges into the loop header are followed only if viaHead.
func (sc *c07Scan) reach(from, to *ssa.BasicBlock, viaHead bool) bool {
	seen := map[*ssa.BasicBlock]bool{}
	st := []*ssa.BasicBlock{from}
	for len(st) > 0 {
		b := st[len(st)-1]
		st = st[:len(st)-1]
		if b == to {
			return true
		}
		if seen[b] {
			continue
		}
		seen[b] = true
		for _, s := range b.Succs {
			if s == sc.head && !(viaHead && to == sc.head) {
				continue
			}
			st = append(st, s)
		}
	}
	return false
}

type c07Emit struct {
	call  ssa.CallInstruction
	slice bool      // writes a slice of the data
	lo    ssa.Value // bounds of that slice (hi nil: to the end), in terms of the scanner's values
	hi    ssa.Value
	inner []c07PendGuard // guards inside a helper, mapped to the caller's values
	bad   string
}

type c07PendGuard struct {
	op   token.Token
	x, y ssa.Value
}

// emitsOf classifies a call in the scanner: a writer method call, or a same-package helper that writes.
func (sc *c07Scan) emitOf(c ssa.CallInstruction) (c07Emit, bool) {
	cc := c.Common()
	if c07IsWriterMethod(cc) {
		em := c07Emit{call: c}
		if sl, ok := cc.Args[len(cc.Args)-1].(*ssa.Slice); ok && sl.X == ssa.Value(sc.data) {
			em.slice, em.lo, em.hi = true, sl.Low, sl.High
			if em.hi != nil && sc.isLenData(em.hi) {
				em.hi = nil
			}
		}
		return em, true
	}
	f := cc.StaticCallee()
	if f == nil || f.Blocks == nil || f.Pkg != sc.pkg || f == sc.fn {
		return c07Emit{}, false
	}
	bind := map[ssa.Value]ssa.Value{}
	for i, pa := range f.Params {
		if i < len(cc.Args) {
			bind[pa] = cc.Args[i]
		}
	}
	var writers []ssa.CallInstruction
	deep := false
	for _, ic := range fw.CallsIn(f) {
		if c07IsWriterMethod(ic.Common()) {
			writers = append(writers, ic)
		} else if g := ic.Common().StaticCallee(); g != nil && g.Pkg == sc.pkg && g.Blocks != nil && g != f {
			for _, jc := range fw.CallsIn(g) {
				if c07IsWriterMethod(jc.Common()) {
					deep = true
				}
			}
		}
	}
	if len(writers) == 0 && !deep {
		return c07Emit{}, false
	}
	em := c07Emit{call: c}
	// a helper that writes one slice of the data it is handed
	if len(writers) == 1 && !deep {
		wc := writers[0].Common()
		if sl, ok := wc.Args[len(wc.Args)-1].(*ssa.Slice); ok && bind[sl.X] == ssa.Value(sc.data) {
			em.slice = true
			mapv := func(v ssa.Value) (ssa.Value, bool) {
				if v == nil {
					return nil, true
				}
				if call, ok := v.(*ssa.Call); ok && fw.IsBuiltinCall(call, "len") && bind[call.Common().Args[0]] == ssa.Value(sc.data) {
					return nil, true
				}
				m, ok := bind[v]
				return m, ok
			}
			var ok1, ok2 bool
			em.lo, ok1 = mapv(sl.Low)
			em.hi, ok2 = mapv(sl.High)
			if !ok1 || !ok2 {
				em.bad = "helper " + f.Name() + " writes a slice of the data whose bounds are not its parameters"
			}
			for _, g := range fw.Guards(writers[0].Block()) {
				g = g.Normalize()
				bo, ok := g.Cond.(*ssa.BinOp)
				if !ok {
					em.bad = "helper " + f.Name() + " writes under a condition that is not a comparison of its bounds"
					continue
				}
				op := bo.Op
				if !g.True {
					op = c07NegOp(op)
				}
				x, okx := bind[bo.X]
				y, oky := bind[bo.Y]
				if call, isC := bo.Y.(*ssa.Call); isC && fw.IsBuiltinCall(call, "len") && bind[call.Common().Args[0]] == ssa.Value(sc.data) {
					y, oky = nil, true
				}
				if !okx || !oky {
					em.bad = "helper " + f.Name() + " writes under a condition on something else than its bounds"
					continue
				}
				em.inner = append(em.inner, c07PendGuard{op, x, y})
			}
		}
	}
	return em, true
}

func c07NegOp(op token.Token) token.Token {
	switch op {
	case token.LSS:
		return token.GEQ
	case token.LEQ:
		return token.GTR
	case token.GTR:
		return token.LEQ
	case token.GEQ:
		return token.LSS
	case token.EQL:
		return token.NEQ
	case token.NEQ:
		return token.EQL
	}
	return token.ILLEGAL
}

// pendOK: the guard only excludes an empty pending segment [lo:hi) (hi nil: end of the data).
func (sc *c07Scan) pendOK(g c07PendGuard, lo, hi ssa.Value) bool {
	isHi := func(v ssa.Value) bool {
		if hi == nil {
			return v == nil || sc.isLenData(v)
		}
		return v == hi
	}
	switch {
	case g.x == lo && isHi(g.y):
		return g.op == token.LSS || g.op == token.NEQ || g.op == token.LEQ
	case isHi(g.x) && g.y == lo && g.x != nil:
		return g.op == token.GTR || g.op == token.NEQ || g.op == token.GEQ
	}
	return false
}

// guardedOnlyByPending: the block of the emit is on every path to `to` except where a guard that only
// excludes an empty segment fails.
func (sc *c07Scan) guardedOnlyByPending(b, to *ssa.BasicBlock, lo, hi ssa.Value) string {
	for cur := b; ; {
		if cur == to || cur.Dominates(to) {
			return ""
		}
		if len(cur.Preds) != 1 {
			return "it is written on some paths only (joined control flow)"
		}
		g := cur.Preds[0]
		ifi, ok := g.Instrs[len(g.Instrs)-1].(*ssa.If)
		if !ok {
			cur = g
			continue
		}
		gd := fw.Guard{Cond: ifi.Cond, True: g.Succs[0] == cur}.Normalize()
		bo, ok := gd.Cond.(*ssa.BinOp)
		if !ok {
			return "it is written under a condition that is not `start < i`"
		}
		op := bo.Op
		if !gd.True {
			op = c07NegOp(op)
		}
		if !sc.pendOK(c07PendGuard{op, bo.X, bo.Y}, lo, hi) {
			return "it is written under the condition `" + bo.X.Name() + " " + op.String() + " " + bo.Y.Name() + "`, which is not just `the pending segment is not empty`"
		}
		cur = g
	}
}

func c07IsQuoteEmit(c ssa.CallInstruction) bool {
	cc := c.Common()
	if !c07IsWriterMethod(cc) {
		return false
	}
	a := cc.Args[len(cc.Args)-1]
	if cv, ok := a.(*ssa.Convert); ok {
		a = cv.X
	}
	k, ok := a.(*ssa.Const)
	if !ok || k.Value == nil {
		return false
	}
	switch k.Value.Kind() {
	case constant.Int:
		return k.Int64() == '"'
	case constant.String:
		return constant.StringVal(k.Value) == `"`
	}
	return false
}

func c07ScanRule(r *fw.Run, p *fw.Program) {
	ru := r.Rule("C07.scan", "colorjson's string encoder outputs every input byte exactly once: on every way round its loop the cursor advances by exactly the width of the unit examined (1 when s[i] < utf8.RuneSelf, the size returned by utf8.DecodeRuneInString(s[i:]) otherwise); a round that writes anything first writes the pending segment s[start:i] (skipped only when empty) and sets start to the new cursor, a round that writes nothing leaves start alone; cursor and start begin at 0; after the loop s[start:] is written (skipped only when empty) between the opening and the closing quote", 7)
	encT := p.NamedType("internal/colorjson", "Encoder")
	if encT == nil {
		ru.Undecided("anchor", "", "colorjson.Encoder not found")
		return
	}
	e, err := c07NewEnc(p, "fq", encT)
	if err != nil {
		ru.Undecided("anchor", "", err.Error())
		return
	}
	fn := e.roles["string"]
	pos := p.Rel(fn.Pos())
	sc := &c07Scan{fn: fn, data: fn.Params[1], pkg: fn.Pkg}
	// the loop: header tests a phi against len(data)
	for _, b := range fn.Blocks {
		ifi, ok := b.Instrs[len(b.Instrs)-1].(*ssa.If)
		if !ok {
			continue
		}
		bo, ok := ifi.Cond.(*ssa.BinOp)
		if !ok {
			continue
		}
		var ph *ssa.Phi
		switch {
		case bo.Op == token.LSS && sc.isLenData(bo.Y):
			ph, _ = bo.X.(*ssa.Phi)
		case bo.Op == token.GTR && sc.isLenData(bo.X):
			ph, _ = bo.Y.(*ssa.Phi)
		}
		if ph == nil || ph.Block() != b {
			continue
		}
		back := false
		for _, pb := range b.Preds {
			if b.Dominates(pb) {
				back = true
			}
		}
		if back && sc.head == nil {
			sc.head, sc.i = b, ph
		}
	}
	if sc.head == nil {
		ru.Undecided("string: scanner", pos, "no loop `for i < len(s)` over the string found in "+fn.Name())
		return
	}
	// all emits
	type placed struct {
		c07Emit
		blk *ssa.BasicBlock
	}
	var emits []placed
	for _, b := range fn.Blocks {
		for _, ins := range b.Instrs {
			if c, ok := ins.(ssa.CallInstruction); ok {
				if em, ok := sc.emitOf(c); ok {
					emits = append(emits, placed{em, b})
				}
			}
		}
	}
	// start: the header phi that is the low bound of a data slice written inside the loop
	for _, em := range emits {
		if em.slice && sc.inLoop(em.blk) {
			if ph, ok := em.lo.(*ssa.Phi); ok && ph.Block() == sc.head && ph != sc.i {
				sc.start = ph
			}
		}
	}
	if sc.start == nil {
		ru.Undecided("string: scanner", pos, "no pending segment s[start:i] is written inside the loop: the scanner is not of the cursor/pending-segment form this rule decides")
		return
	}
	ru.Ok("string: scanner", pos, "cursor "+sc.i.Comment+", pending segment from "+sc.start.Comment)

	// init
	initOK := true
	for k, pb := range sc.head.Preds {
		if sc.head.Dominates(pb) {
			continue
		}
		for _, ph := range []*ssa.Phi{sc.i, sc.start} {
			c, ok := ph.Edges[k].(*ssa.Const)
			if !ok || c.Value == nil || c.Value.Kind() != constant.Int || c.Int64() != 0 {
				initOK = false
			}
		}
	}
	ru.Check(initOK, "string: init", pos, "cursor and pending segment start at 0", "cursor or pending segment do not start at 0: leading bytes are skipped or out of range")

	// the decoded size
	var size ssa.Value
	var sizeBlk *ssa.BasicBlock
	for _, c := range fw.CallsIn(fn) {
		n := fw.CalleeName(c)
		if n != "unicode/utf8.DecodeRuneInString" && n != "unicode/utf8.DecodeRune" {
			continue
		}
		sl, ok := c.Common().Args[0].(*ssa.Slice)
		if !ok || sl.X != ssa.Value(sc.data) || sl.Low != ssa.Value(sc.i) || (sl.High != nil && !sc.isLenData(sl.High)) {
			continue
		}
		if call, ok := c.(*ssa.Call); ok && call.Referrers() != nil {
			for _, rf := range *call.Referrers() {
				if ex, ok := rf.(*ssa.Extract); ok && ex.Index == 1 {
					size, sizeBlk = ex, call.Block()
				}
			}
		}
	}
	// ways round the loop
	seenKey := map[string]int{}
	for k, pb := range sc.head.Preds {
		if !sc.head.Dominates(pb) {
			continue
		}
		i2, s2 := sc.i.Edges[k], sc.start.Edges[k]
		// classification of the path
		ascii, known := false, false
		sizeOne := false
		for _, g := range fw.Guards(pb) {
			g = g.Normalize()
			bo, ok := g.Cond.(*ssa.BinOp)
			if !ok {
				continue
			}
			if c, isC := bo.Y.(*ssa.Const); isC && c.Value != nil && c.Value.Kind() == constant.Int {
				isCur := false
				switch lk := bo.X.(type) {
				case *ssa.Lookup:
					isCur = lk.X == ssa.Value(sc.data) && lk.Index == ssa.Value(sc.i)
				case *ssa.Index:
					isCur = lk.X == ssa.Value(sc.data) && lk.Index == ssa.Value(sc.i)
				}
				if isCur {
					lt := (bo.Op == token.LSS && c.Int64() == 0x80) || (bo.Op == token.LEQ && c.Int64() == 0x7f)
					ge := (bo.Op == token.GEQ && c.Int64() == 0x80) || (bo.Op == token.GTR && c.Int64() == 0x7f)
					if lt || ge {
						known, ascii = true, lt == g.True
					}
				}
				if size != nil && bo.X == size && c.Int64() == 1 && ((bo.Op == token.EQL && g.True) || (bo.Op == token.NEQ && !g.True)) {
					sizeOne = true
				}
			}
		}
		// emits on the paths from the loop test to this back edge
		var region []placed
		for _, em := range emits {
			if sc.inLoop(em.blk) && sc.reach(em.blk, pb, false) {
				region = append(region, em)
			}
		}
		cls := "rune"
		if ascii {
			cls = "byte"
		}
		if len(region) > 0 {
			cls += "/replace"
		} else {
			cls += "/keep"
		}
		seenKey[cls]++
		key := "string: round " + cls
		if seenKey[cls] > 1 {
			key += fmt.Sprintf("#%d", seenKey[cls])
		}
		at := p.Rel(pb.Instrs[len(pb.Instrs)-1].Pos())
		if at == "" {
			at = pos
		}
		if !known {
			ru.Undecided(key, at, "a way round the loop is neither on the s[i] < utf8.RuneSelf side nor on the other")
			continue
		}
		// P1 width
		width := ""
		if bo, ok := i2.(*ssa.BinOp); ok && bo.Op == token.ADD && bo.X == ssa.Value(sc.i) {
			if c, isC := bo.Y.(*ssa.Const); isC && c.Value != nil && c.Value.Kind() == constant.Int {
				width = c.Value.ExactString()
			} else if size != nil && bo.Y == size && sizeBlk.Dominates(pb) {
				width = "size"
			}
		}
		var problems []string
		switch {
		case width == "":
			problems = append(problems, "the cursor is not advanced by 1 or by the decoded size")
		case ascii && width != "1":
			problems = append(problems, "on the single-byte path the cursor advances by "+width+", not 1")
		case !ascii && width != "size" && !(width == "1" && sizeOne):
			problems = append(problems, "on the multi-byte path the cursor advances by "+width+", not by the size utf8.DecodeRuneInString returned")
		}
		// P2 pending segment
		if len(region) == 0 {
			if s2 != ssa.Value(sc.start) {
				problems = append(problems, "nothing is written on this way round the loop but the pending segment is restarted: the bytes s[start:i] are never written")
			}
		} else {
			if !c07SameAdvance(s2, i2) {
				problems = append(problems, "something is written on this way round the loop but the pending segment is not restarted at the new cursor: bytes are written twice or skipped")
			}
			var seg *placed
			nseg := 0
			for idx := range region {
				if region[idx].slice {
					nseg++
					seg = &region[idx]
				}
			}
			switch {
			case nseg != 1:
				problems = append(problems, fmt.Sprintf("%d writes of a slice of the data on this way round the loop, expected exactly the pending segment", nseg))
			case seg.bad != "":
				problems = append(problems, seg.bad)
			case seg.lo != ssa.Value(sc.start) || seg.hi != ssa.Value(sc.i):
				problems = append(problems, "the slice written is not s[start:i]")
			default:
				for _, g := range seg.inner {
					if !sc.pendOK(g, seg.lo, seg.hi) {
						problems = append(problems, "the pending segment is written under a condition other than being non-empty")
					}
				}
				if why := sc.guardedOnlyByPending(seg.blk, pb, seg.lo, seg.hi); why != "" {
					problems = append(problems, "pending segment: "+why)
				}
				for _, em := range region {
					if em.call == seg.call {
						continue
					}
					before := false
					if em.blk == seg.blk {
						for _, ins := range em.blk.Instrs {
							if ins == em.call.(ssa.Instruction) {
								before = true
							}
							if ins == seg.call.(ssa.Instruction) {
								break
							}
						}
					} else if sc.reach(em.blk, seg.blk, false) {
						before = true
					}
					if before {
						problems = append(problems, "a replacement is written before the pending segment")
					}
				}
			}
		}
		ru.Check(len(problems) == 0, key, at, "cursor += "+width+"; "+map[bool]string{true: "pending segment written first, restarted at the new cursor", false: "pending segment left alone"}[len(region) > 0], strings.Join(problems, "; "))
	}

	// after the loop
	var tail *placed
	ntail := 0
	var quotesBefore, quotesAfter []placed
	for idx := range emits {
		em := emits[idx]
		if sc.inLoop(em.blk) || em.blk == sc.head {
			continue
		}
		if em.slice {
			ntail++
			tail = &emits[idx]
		}
		if c07IsQuoteEmit(em.call) {
			if em.blk.Dominates(sc.head) {
				quotesBefore = append(quotesBefore, em)
			} else if sc.head.Dominates(em.blk) {
				quotesAfter = append(quotesAfter, em)
			}
		}
	}
	okQ := len(quotesBefore) == 1 && len(quotesAfter) == 1
	if okQ {
		fw.EachInstr(fn, func(ins ssa.Instruction) {
			if ret, isRet := ins.(*ssa.Return); isRet && !quotesAfter[0].blk.Dominates(ret.Block()) {
				okQ = false
			}
		})
	}
	ru.Check(okQ, "string: quotes", pos, "one quote before the loop, one after it on every path", "the string is not written between exactly one opening quote before the loop and one closing quote on every path after it")
	switch {
	case ntail != 1:
		ru.Fail("string: tail", pos, fmt.Sprintf("%d writes of a slice of the data after the loop, expected exactly s[start:]", ntail))
	case tail.bad != "":
		ru.Fail("string: tail", pos, tail.bad)
	case tail.lo != ssa.Value(sc.start) || tail.hi != nil:
		ru.Fail("string: tail", p.Rel(tail.call.Pos()), "what is written after the loop is not s[start:] (from the pending segment's start to the end)")
	case !okQ:
		ru.Undecided("string: tail", pos, "closing quote not resolved")
	default:
		why := ""
		for _, g := range tail.inner {
			if !sc.pendOK(g, tail.lo, nil) {
				why = "it is written under a condition other than being non-empty"
			}
		}
		if why == "" {
			why = sc.guardedOnlyByPending(tail.blk, quotesAfter[0].blk, tail.lo, nil)
		}
		if why == "" && (tail.blk == quotesAfter[0].blk || !sc.reach(tail.blk, quotesAfter[0].blk, false)) {
			if tail.blk != quotesAfter[0].blk {
				why = "it does not precede the closing quote"
			} else {
				for _, ins := range tail.blk.Instrs {
					if ins == quotesAfter[0].call.(ssa.Instruction) {
						why = "it does not precede the closing quote"
					}
					if ins == tail.call.(ssa.Instruction) {
						break
					}
				}
			}
		}
		ru.Check(why == "", "string: tail", p.Rel(tail.call.Pos()), "s[start:] written before the closing quote, skipped only when empty", "the rest of the string after the last replacement: "+why)
	}
}

// c07SameAdvance: a and b are the same value, or the same cursor + the same increment.
func c07SameAdvance(a, b ssa.Value) bool {
	if a == b {
		return true
	}
	x, ok1 := a.(*ssa.BinOp)
	y, ok2 := b.(*ssa.BinOp)
	if !ok1 || !ok2 || x.Op != token.ADD || y.Op != token.ADD || x.X != y.X {
		return false
	}
	if x.Y == y.Y {
		return true
	}
	cx, ok1 := x.Y.(*ssa.Const)
	cy, ok2 := y.Y.(*ssa.Const)
	return ok1 && ok2 && cx.Value != nil && cy.Value != nil && constant.Compare(cx.Value, token.EQL, cy.Value)
}
