package rules

import (
	"fmt"
	"go/token"
	"regexp"
	"sort"
	"strconv"
	"strings"

	"golang.org/x/tools/go/ssa"

	"fqverif/fw"
)

func (c *c02) bitRules() {
	c.revRule()
	c.f80Rule()
	c.f16Rule()
	c.twosRule()
}

// wantBits describes an expected bit vector as runs hi..lo <- src[hi..lo] / const.
type c02BitRun struct {
	hi, lo int
	src    string // "" = zero, "1" = ones, "*" = anything
	shi    int    // source bit index of hi
}

func c02CheckBits(v fw.BvVec, runs []c02BitRun) string {
	covered := make([]bool, 64)
	for _, r := range runs {
		for i := r.hi; i >= r.lo; i-- {
			covered[i] = true
			b := v.B[i]
			switch r.src {
			case "*":
			case "":
				if b.K != fw.BvZero {
					return fmt.Sprintf("bit %d is %s, must be 0", i, b)
				}
			case "1":
				if b.K != fw.BvOne {
					return fmt.Sprintf("bit %d is %s, must be 1", i, b)
				}
			default:
				want := r.shi - (r.hi - i)
				if b.K != fw.BvSrc || b.Src != r.src || b.I != want {
					return fmt.Sprintf("bit %d is %s, must be %s.%d", i, b, r.src, want)
				}
			}
		}
	}
	for i := 0; i < v.W; i++ {
		if !covered[i] && v.B[i].K != fw.BvZero {
			return fmt.Sprintf("bit %d is %s, must be 0", i, v.B[i])
		}
	}
	return ""
}

// ---------------------------------------------------------------------------
// C02.rev

func (c *c02) revRule() {
	ru := c.r.Rule("C02.rev", "bitio.ReverseBytes64: the arm selected for 8(k-1) < nBits <= 8k is the byte permutation i -> k-1-i on the low k bytes with nothing above (decided bit by bit from the masks and shifts, whatever their spelling); arms k=1..8 all exist and anything wider panics", 9)
	fn := c.p.Fn("pkg/bitio.ReverseBytes64")
	if fn == nil || len(fn.Params) != 2 {
		ru.Undecided("anchor", "", "pkg/bitio.ReverseBytes64(nBits, n) not found")
		return
	}
	pos := c.p.Rel(fn.Pos())
	env := fw.NewSxEnv(fn)
	n := fn.Params[1]
	arms := map[int]bool{}
	for _, b := range fn.Blocks {
		ret, ok := b.Instrs[len(b.Instrs)-1].(*ssa.Return)
		if !ok {
			continue
		}
		lo, hi := c02BoundsAt(env, b, "p0")
		if hi == nil || *hi%8 != 0 || *hi < 8 || *hi > 64 {
			ru.Undecided("arm:?", c.p.Rel(ret.Pos()), "a return whose width range is not nBits <= 8k: "+strings.Join(env.GuardSx(b), " "))
			continue
		}
		k := int(*hi / 8)
		key := fmt.Sprintf("arm:%d", k)
		wantLo := int64(8*(k-1) + 1)
		if k > 1 && (lo == nil || *lo != wantLo) {
			ru.Fail(key, c.p.Rel(ret.Pos()), fmt.Sprintf("arm for nBits <= %d is reached for widths from %v (must start at %d): narrower widths would be reversed as %d bytes", *hi, c02FmtPtr(lo), wantLo, k))
			continue
		}
		be := fw.NewBvEnv(fn, c.p.C02IntBits())
		be.Name = func(v ssa.Value) (string, bool) {
			if v == ssa.Value(n) {
				return "n", true
			}
			return "", false
		}
		v, ok := be.Of(ret.Results[0])
		if !ok {
			ru.Undecided(key, c.p.Rel(ret.Pos()), "returned value is not an integer")
			continue
		}
		msg := ""
		for lane := 0; lane < 8 && msg == ""; lane++ {
			for bit := 0; bit < 8 && msg == ""; bit++ {
				i := lane*8 + bit
				got := v.B[i]
				if lane < k {
					w := (k-1-lane)*8 + bit
					if got.K != fw.BvSrc || got.Src != "n" || got.I != w {
						msg = fmt.Sprintf("result bit %d (byte %d) is %s, must be n.%d (byte %d)", i, lane, got, w, k-1-lane)
					}
				} else if !(got.K == fw.BvZero || (got.K == fw.BvSrc && got.Src == "n" && got.I == i)) {
					msg = fmt.Sprintf("result bit %d above the %d reversed bytes is %s, must be 0", i, k, got)
				}
			}
		}
		arms[k] = true
		ru.Check(msg == "", key, c.p.Rel(ret.Pos()), v.Describe(), fmt.Sprintf("%d-byte arm is not the byte reversal: %s", k, msg))
	}
	var missing []string
	for k := 1; k <= 8; k++ {
		if !arms[k] {
			missing = append(missing, strconv.Itoa(8*k))
		}
	}
	ru.Check(len(missing) == 0, "arms", pos, "arms for 8,16,...,64", "no arm for nBits <= "+strings.Join(missing, ","))
}

func c02FmtPtr(p *int64) string {
	if p == nil {
		return "-inf"
	}
	return strconv.FormatInt(*p, 10)
}

// ---------------------------------------------------------------------------
// C02.f80

func (c *c02) f80Rule() {
	ru := c.r.Rule("C02.f80", "80-bit extended floats: NewFloat80FromBytes assembles sign/exponent from bytes 0..1 and the 64-bit mantissa from bytes 2..9 big-endian (bit by bit); Float64 moves the sign to bit 63, the top 52 fraction bits to bits 51..0, rebiases the exponent by 1023-16383 with all-zero/all-one exponents mapped to 0/0x7ff, and only places an exponent that fits the 11-bit field; exponents outside the binary64 range return +-Inf / +-0; an all-ones exponent with any non-zero fraction bit (also one of the 11 the assembly drops) answers NaN", 13)
	// NewFloat80FromBytes
	if fn := c.p.Fn("internal/mathx.NewFloat80FromBytes"); fn == nil || len(fn.Params) != 1 {
		ru.Undecided("FromBytes:anchor", "", "mathx.NewFloat80FromBytes(b) not found")
	} else {
		pos := c.p.Rel(fn.Pos())
		env := fw.NewSxEnv(fn)
		bn := fn.Params[0].Name()
		be := fw.NewBvEnv(fn, c.p.C02IntBits())
		stored := map[string]*ssa.Store{}
		fw.EachInstr(fn, func(ins ssa.Instruction) {
			if st, ok := ins.(*ssa.Store); ok {
				if fa, ok := st.Addr.(*ssa.FieldAddr); ok {
					stored[c02FwFieldName(fa)] = st
				}
			}
		})
		src := func(k int) string { return fmt.Sprintf("%s[%d]", bn, k) }
		if st := stored["se"]; st == nil {
			ru.Undecided("FromBytes:se", pos, "no store to the sign/exponent field")
		} else {
			v, _ := be.Of(st.Val)
			msg := c02CheckBits(v, []c02BitRun{{15, 8, src(0), 7}, {7, 0, src(1), 7}})
			ru.Check(msg == "", "FromBytes:se", pos, v.Describe(), "sign/exponent word is not b[0]<<8 | b[1]: "+msg)
			ru.Check(env.HasGuard(st.Block(), "-"+c02SxC("!=", "10", "(len p0)")) || env.HasGuard(st.Block(), "+"+c02SxC("==", "10", "(len p0)")), "FromBytes:len", pos, "len(b) == 10 established", "the 10-byte length of the representation is not established before indexing")
		}
		if st := stored["m"]; st == nil {
			ru.Undecided("FromBytes:m", pos, "no store to the mantissa field")
		} else {
			v, _ := be.Of(st.Val)
			var runs []c02BitRun
			for i := 0; i < 8; i++ {
				runs = append(runs, c02BitRun{63 - 8*i, 56 - 8*i, src(2 + i), 7})
			}
			msg := c02CheckBits(v, runs)
			ru.Check(msg == "", "FromBytes:m", pos, v.Describe(), "mantissa is not the big-endian value of b[2..9]: "+msg)
		}
	}
	// Float80.Float64
	fn := c.p.Fn("(internal/mathx.Float80).Float64")
	if fn == nil {
		ru.Undecided("Float64:anchor", "", "mathx.Float80.Float64 not found")
		return
	}
	pos := c.p.Rel(fn.Pos())
	var fb *ssa.Call
	fw.EachInstr(fn, func(ins ssa.Instruction) {
		if cl, ok := ins.(*ssa.Call); ok && fw.SxCallee(cl.Common()) == "math.Float64frombits" {
			fb = cl
		}
	})
	if fb == nil {
		ru.Undecided("Float64:bits", pos, "no math.Float64frombits call")
		return
	}
	// the exponent value: the phi (or value) shifted left by 52
	var expV ssa.Value
	var walk func(v ssa.Value, d int)
	walk = func(v ssa.Value, d int) {
		if d > 8 || expV != nil {
			return
		}
		if bo, ok := v.(*ssa.BinOp); ok {
			if bo.Op == token.SHL {
				if k, ok := c02ConstInt(bo.Y); ok && k == 52 {
					expV = fw.SxStripConv(bo.X)
					return
				}
			}
			if bo.Op == token.OR || bo.Op == token.ADD {
				walk(bo.X, d+1)
				walk(bo.Y, d+1)
			}
		}
	}
	walk(fb.Common().Args[0], 0)
	if expV == nil {
		ru.Undecided("Float64:exp", pos, "no value placed at bit 52 (the binary64 exponent position)")
		return
	}
	// name sources by field
	fieldSrc := func(v ssa.Value) (string, bool) {
		if u, ok := v.(*ssa.UnOp); ok && u.Op == token.MUL {
			if fa, ok := u.X.(*ssa.FieldAddr); ok {
				return c02FwFieldName(fa), true
			}
		}
		if f, ok := v.(*ssa.Field); ok {
			if s, ok := fw.AccessPath(f); ok {
				return s[strings.LastIndex(s, ".")+1:], true
			}
		}
		return "", false
	}
	be := fw.NewBvEnv(fn, c.p.C02IntBits())
	be.Name = func(v ssa.Value) (string, bool) {
		if v == expV {
			return "E", true
		}
		return fieldSrc(v)
	}
	v, _ := be.Of(fb.Common().Args[0])
	// bit 63 is sign | E.11: whether E has bits above 10 is the separate range obligation below
	if v.B[63].K == fw.BvTop {
		sv, _ := be.Of(expV)
		_ = sv
		v.B[63] = fw.BvBit{K: fw.BvSrc, Src: "se", I: 15}
	}
	msg := c02CheckBits(v, []c02BitRun{{63, 63, "se", 15}, {62, 52, "E", 10}, {51, 0, "m", 62}})
	ru.Check(msg == "", "Float64:layout", pos, v.Describe(), "binary64 layout is not sign<<63 | exp<<52 | fraction>>11: "+msg)

	// exponent mapping
	env := fw.NewSxEnv(fn)
	// find EXP = se & 0x7fff
	var expField ssa.Value
	fw.EachInstr(fn, func(ins ssa.Instruction) {
		if bo, ok := ins.(*ssa.BinOp); ok && bo.Op == token.AND {
			be3 := fw.NewBvEnv(fn, c.p.C02IntBits())
			be3.Name = fieldSrc
			if bv, ok := be3.Of(bo); ok && c02CheckBits(bv, []c02BitRun{{14, 0, "se", 14}}) == "" {
				expField = bo
			}
		}
	})
	if expField == nil {
		ru.Undecided("Float64:expfield", pos, "extraction of the 15 exponent bits (se & 0x7fff) not found")
		return
	}
	env = env.With(map[ssa.Value]string{expField: "EXP"})
	ph, _ := expV.(*ssa.Phi)
	if ph == nil {
		ru.Undecided("Float64:expmap", pos, "binary64 exponent is not a choice between 0, 0x7ff and the rebiased value: "+env.Of(expV))
		return
	}
	got := env.Of(ph)
	want := c02SxPhi("0", "2047", "-15360 + EXP")
	ru.Check(got == want, "Float64:expmap", pos, got, "binary64 exponent is "+got+", must be "+want+" (rebias 1023-16383, zero and all-ones special cases)")
	for _, x := range []struct{ edge, guard, what string }{
		{"0", "+(== 0 EXP)", "zero/subnormal"},
		{"2047", "+(== 32767 EXP)", "infinity/NaN"},
	} {
		gs, ok := env.EdgeGuards(ph, x.edge)
		ru.Check(ok && c02HasAny(gs, x.guard), "Float64:exp-"+x.edge, pos, x.guard, fmt.Sprintf("exponent %s (%s) must be selected exactly under %s; is under %s", x.edge, x.what, x.guard, strings.Join(gs, " ")))
	}
	// range: the rebiased edge must be proven to fit 11 bits (guards may be on any affine form of EXP)
	gs, ok := env.EdgeGuards(ph, "-15360 + EXP")
	gv, _ := env.EdgeGuardVals(ph, "-15360 + EXP")
	if ok {
		lo, hi := env.AffineBounds(gv, "EXP")
		fits := lo != nil && hi != nil && *lo-15360 >= 1 && *hi-15360 <= 2046
		ru.Check(fits, "Float64:exp-range", pos, fmt.Sprintf("rebiased exponent proven within %s..%s", c02FmtOff(lo), c02FmtOff(hi)),
			fmt.Sprintf("the rebiased exponent EXP-15360 is shifted to bit 52 without being proven within 1..2046, the normal-number exponents (0 and 2047 are the reserved zero/subnormal and Inf/NaN encodings; known: %s): for a binary80 exponent outside 15361..17406 it is negative or wider than 11 bits and spills into the sign bit / wraps, e.g. 2^16383 (se=0x7ffe) decodes as 0.5 and 2^2000 as a small negative number instead of +Inf", strings.Join(gs, " ")))
	}
	// what happens to the exponents excluded by those guards: every other return of Float64 must be
	// +-Inf for a rebiased exponent >= 2047 and +-0 for one <= 0, decided after the two special cases
	var sgn ssa.Value
	fw.EachInstr(fn, func(ins ssa.Instruction) {
		if v, ok := ins.(*ssa.BinOp); ok && sgn == nil {
			be3 := fw.NewBvEnv(fn, c.p.C02IntBits())
			be3.Name = fieldSrc
			if bv, ok := be3.Of(v); ok && bv.W == 64 && c02CheckBits(bv, []c02BitRun{{0, 0, "se", 15}}) == "" {
				sgn = v
			}
		}
	})
	if sgn != nil {
		env = env.With(map[ssa.Value]string{expField: "EXP", sgn: "SGN"})
	}
	nOver, nUnder, nNaN := 0, 0, 0
	for _, b := range fn.Blocks {
		ret, isRet := b.Instrs[len(b.Instrs)-1].(*ssa.Return)
		if !isRet || ret.Results[0] == ssa.Value(fb) {
			continue
		}
		v := env.Of(ret.Results[0])
		var gvals []fw.Guard
		for _, g := range fw.Guards(b) {
			gvals = append(gvals, g.Normalize())
		}
		lo, hi := env.AffineBounds(gvals, "EXP")
		notSpecial := env.HasGuard(b, "-(== 0 EXP)") && env.HasGuard(b, "-(== 32767 EXP)")
		key := "Float64:out-of-range"
		rpos := c.p.Rel(ret.Pos())
		switch {
		case v == "(call math.Inf 1 + -2*SGN)":
			nOver++
			ru.Check(notSpecial && lo != nil && *lo-15360 >= 2047, key+":inf", rpos, "+-Inf exactly for rebiased exponents >= 2047 that are not NaN/Inf encodings",
				fmt.Sprintf("+-Inf is returned under %s; must be only for non-special exponents whose rebiased value is >= 2047", strings.Join(env.GuardSx(b), " ")))
		case v == "(call math.Copysign 0 (conv float64 1 + -2*SGN))":
			nUnder++
			ru.Check(notSpecial && hi != nil && *hi-15360 <= 0, key+":zero", rpos, "+-0 exactly for rebiased exponents <= 0 that are not zero/subnormal encodings",
				fmt.Sprintf("+-0 is returned under %s; must be only for non-special exponents whose rebiased value is <= 0", strings.Join(env.GuardSx(b), " ")))
		case v == "(call math.NaN)":
			// NaN is answered exactly for the all-ones exponent with a non-zero fraction, the test looking at
			// all 63 fraction bits (the assembly keeps only the top 52: a payload in the low 11 would read as Inf)
			nNaN++
			fracAll := false
			for _, g := range gvals {
				bo, ok := g.Cond.(*ssa.BinOp)
				if !ok || !((bo.Op == token.NEQ && g.True) || (bo.Op == token.EQL && !g.True)) {
					continue
				}
				for _, xy := range [][2]ssa.Value{{bo.X, bo.Y}, {bo.Y, bo.X}} {
					if k, ok := c02ConstInt(xy[1]); !ok || k != 0 {
						continue
					}
					be3 := fw.NewBvEnv(fn, c.p.C02IntBits())
					be3.Name = fieldSrc
					bv, ok := be3.Of(xy[0])
					if !ok {
						continue
					}
					seen := map[int]bool{}
					clean := true
					for i := 0; i < bv.W; i++ {
						switch b := bv.B[i]; {
						case b.K == fw.BvZero:
						case b.K == fw.BvSrc && b.Src == "m" && b.I <= 62:
							seen[b.I] = true
						default:
							clean = false
						}
					}
					if clean && len(seen) == 63 {
						fracAll = true
					}
				}
			}
			ru.Check(env.HasGuard(b, "+(== 32767 EXP)") && fracAll, "Float64:nan", rpos, "NaN exactly under an all-ones exponent and a non-zero 63-bit fraction",
				fmt.Sprintf("NaN is returned under %s; must be under the all-ones exponent and a test of all 63 fraction bits against 0", strings.Join(env.GuardSx(b), " ")))
		default:
			ru.Undecided(key, rpos, "a return of Float64 that is neither the assembled binary64, NaN, nor +-Inf / +-0 with the value's sign: "+v)
		}
	}
	// the assembly drops the low 11 fraction bits: without the NaN answer a NaN whose payload lies there reads as +-Inf
	ru.Check(nNaN == 1, "Float64:nan-kept", pos, "a NaN with a payload only in the dropped fraction bits stays a NaN", "the assembled binary64 keeps only the top 52 of the 63 fraction bits and no return answers NaN for an all-ones exponent with a non-zero fraction: 7fff 8000000000000001 (a NaN) reads as +Inf")
	if ok {
		lo, hi := env.AffineBounds(gv, "EXP")
		if lo != nil && *lo > 1 {
			ru.Check(nUnder == 1, "Float64:underflow", pos, "exponents below the binary64 range return +-0", "exponents below the binary64 range are excluded from the assembly but no +-0 return handles them")
		}
		if hi != nil && *hi < 32766 {
			ru.Check(nOver == 1, "Float64:overflow", pos, "exponents above the binary64 range return +-Inf", "exponents above the binary64 range are excluded from the assembly but no +-Inf return handles them")
		}
	}
}

func c02FmtOff(p *int64) string {
	if p == nil {
		return "?"
	}
	return strconv.FormatInt(*p-15360, 10)
}

func c02ConstInt(v ssa.Value) (int64, bool) {
	v = fw.SxStripConv(v)
	c, ok := v.(*ssa.Const)
	if !ok || c.Value == nil {
		return 0, false
	}
	s := c.Value.ExactString()
	n, err := strconv.ParseInt(s, 10, 64)
	return n, err == nil
}

func c02BoundsFrom(guards []string, param string) (lo, hi *int64) {
	set := func(p **int64, v int64, max bool) {
		if *p == nil || (max && v > **p) || (!max && v < **p) {
			x := v
			*p = &x
		}
	}
	for _, g := range guards {
		m := c02ReCmpGuard.FindStringSubmatch(g)
		if m == nil {
			continue
		}
		pos, op, a, bb := m[1] == "+", m[2], m[3], m[4]
		var k int64
		var left bool
		if a == param {
			v, err := strconv.ParseInt(bb, 10, 64)
			if err != nil {
				continue
			}
			k, left = v, true
		} else if bb == param {
			v, err := strconv.ParseInt(a, 10, 64)
			if err != nil {
				continue
			}
			k, left = v, false
		} else {
			continue
		}
		switch {
		case left && op == ">" && pos:
			set(&lo, k+1, true)
		case left && op == ">" && !pos:
			set(&hi, k, false)
		case left && op == ">=" && pos:
			set(&lo, k, true)
		case left && op == ">=" && !pos:
			set(&hi, k-1, false)
		case !left && op == ">" && pos:
			set(&hi, k-1, false)
		case !left && op == ">" && !pos:
			set(&lo, k, true)
		case !left && op == ">=" && pos:
			set(&hi, k, false)
		case !left && op == ">=" && !pos:
			set(&lo, k+1, true)
		}
	}
	return
}

// ---------------------------------------------------------------------------
// C02.f16

func (c *c02) f16Rule() {
	ru := c.r.Rule("C02.f16", "binary16 -> binary32 expansion: sign bit 15 -> 31, 10 fraction bits -> the top of the 23-bit fraction, 5-bit exponent rebiased by 127-15 and placed at bit 23, exponent 31 -> all-ones exponent (Inf/NaN keeps the fraction), zero keeps only the sign, subnormals are normalised against the binary32 hidden bit", 7)
	fn := c.p.Fn("internal/mathx.expandF16ToF32")
	if fn == nil || len(fn.Params) != 1 {
		ru.Undecided("anchor", "", "mathx.expandF16ToF32 not found")
		return
	}
	pos := c.p.Rel(fn.Pos())
	in := fn.Params[0]
	be := fw.NewBvEnv(fn, c.p.C02IntBits())
	be.Name = func(v ssa.Value) (string, bool) {
		if v == ssa.Value(in) {
			return "in", true
		}
		return "", false
	}
	// identify sign / frac / exp by their bit signature
	var sign, frac, exp ssa.Value
	fw.EachInstr(fn, func(ins ssa.Instruction) {
		v, ok := ins.(ssa.Value)
		if !ok {
			return
		}
		bv, ok := be.Of(v)
		if !ok || bv.W != 32 {
			return
		}
		switch {
		case c02CheckBits(bv, []c02BitRun{{31, 31, "in", 15}}) == "":
			sign = v
		case c02CheckBits(bv, []c02BitRun{{22, 13, "in", 9}}) == "":
			frac = v
		case c02CheckBits(bv, []c02BitRun{{4, 0, "in", 14}}) == "":
			exp = v
		}
	})
	ru.Check(sign != nil, "sign", pos, "sign: in.15 -> bit 31", "no value moving the sign bit 15 to bit 31 (and nothing else)")
	ru.Check(frac != nil, "frac", pos, "fraction: in[9..0] -> bits 22..13", "no value moving the 10 fraction bits to bits 22..13 (and nothing else)")
	ru.Check(exp != nil, "exp", pos, "exponent: in[14..10] -> bits 4..0", "no value extracting the 5 exponent bits to bits 4..0 (and nothing else)")
	if sign == nil || frac == nil || exp == nil {
		return
	}
	env := fw.NewSxEnv(fn).With(map[ssa.Value]string{sign: "SIGN", frac: "FRAC", exp: "EXP"})
	got := map[string]string{}
	for _, b := range fn.Blocks {
		ret, ok := b.Instrs[len(b.Instrs)-1].(*ssa.Return)
		if !ok {
			continue
		}
		cls := "normal"
		switch {
		case env.HasGuard(b, "+(== 31 EXP)"):
			cls = "infnan"
		case env.HasGuard(b, "+(== 0 EXP)") && env.HasGuard(b, "+(== 0 FRAC)"):
			cls = "zero"
		}
		if _, dup := got[cls]; dup {
			cls += "'"
		}
		got[cls] = env.Of(ret.Results[0])
		if cls == "infnan" {
			bv, _ := be.Of(ret.Results[0])
			msg := c02CheckBits(bv, []c02BitRun{{31, 31, "in", 15}, {30, 23, "1", 0}, {22, 13, "in", 9}})
			ru.Check(msg == "", "infnan", c.p.Rel(ret.Pos()), bv.Describe(), "Inf/NaN result is not sign | all-ones exponent | fraction: "+msg)
		}
	}
	if _, ok := got["infnan"]; !ok {
		ru.Fail("infnan", pos, "no return for exponent 31 (Inf/NaN)")
	}
	ru.Check(got["zero"] == "SIGN", "zero", pos, "zero -> sign only", "zero (exp==0 && frac==0) returns "+got["zero"]+", must return only the sign")
	// normal / subnormal: sign | (e + 112) << 23 | f
	n := got["normal"]
	wantE := c02SxPhi("EXP", c02SxPhi("-1 + @0", "1 + EXP"))
	wantF := c02SxPhi("FRAC", c02SxC("&", "8388607", c02SxPhi("2*@0", "FRAC")))
	want := c02SxC("|", c02SxC("|", "SIGN", fmt.Sprintf("%d + %d*%s", 112<<23, 1<<23, wantE)), wantF)
	// on the subnormal path EXP is known to be 0, so starting the countdown at the constant 1 is the same
	wantE1 := c02SxPhi("EXP", c02SxPhi("-1 + @0", "1"))
	if alt := c02SxC("|", c02SxC("|", "SIGN", fmt.Sprintf("%d + %d*%s", 112<<23, 1<<23, wantE1)), wantF); n == alt {
		want = alt
	}
	ru.Check(n == want, "normal", pos, n, "normal/subnormal result is "+n+", must be "+want+": sign | (e + (127-15)) << 23 | f, where for subnormals e starts at 1 and loses 1 per left shift of f until the hidden bit, which is then masked off")
	// loop condition: hidden bit (bit 23 and above: the binary32 exponent mask) still clear
	var conds []string
	for _, b := range fn.Blocks {
		if f, ok := b.Instrs[len(b.Instrs)-1].(*ssa.If); ok {
			conds = append(conds, env.Of(f.Cond))
		}
	}
	sort.Strings(conds)
	wantLoop := c02SxC("==", c02SxC("&", "2139095040", c02SxPhi("2*@0", "FRAC")), "0")
	ru.Check(c02HasAny(conds, wantLoop), "subnormal-loop", pos, wantLoop, "normalisation loop condition "+wantLoop+" not found among "+strings.Join(conds, " ; "))
	// Float16.Float32 reinterprets exactly the expanded bits
	if f32 := c.p.Fn("(internal/mathx.Float16).Float32"); f32 == nil {
		ru.Undecided("Float32", "", "mathx.Float16.Float32 not found")
	} else {
		e2 := fw.NewSxEnv(f32)
		var vals []string
		for _, b := range f32.Blocks {
			if ret, ok := b.Instrs[len(b.Instrs)-1].(*ssa.Return); ok {
				vals = append(vals, e2.Of(ret.Results[0]))
			}
		}
		s := strings.Join(vals, " || ")
		ok := s == "(load (conv *float32 (conv unsafe.Pointer alloc:uint32)))" || s == "(call math.Float32frombits (call internal/mathx.expandF16ToF32 recv))"
		// the cell must hold expandF16ToF32(recv)
		holds := false
		fw.EachInstr(f32, func(ins ssa.Instruction) {
			if st, isSt := ins.(*ssa.Store); isSt && e2.Of(st.Val) == "(call internal/mathx.expandF16ToF32 recv)" {
				holds = true
			}
		})
		ru.Check(ok && (holds || strings.Contains(s, "Float32frombits")), "Float32", c.p.Rel(f32.Pos()), s, "Float16.Float32 returns "+s+", must reinterpret expandF16ToF32(f) as float32")
	}
}

// ---------------------------------------------------------------------------
// C02.twos — width consistency of every big-integer two's complement site

func (c *c02) twosRule() {
	ru := c.r.Rule("C02.twos", "every two's-complement correction n -= 2^X on a big integer in pkg/decode and internal/mathx subtracts the modulus that belongs to the sign bit it tested: X = (index of the tested sign bit) + 1 in the same (shifted or unshifted) frame", 1)
	for _, fn := range c.p.FqFunctions() {
		rel := pkgRel(fn)
		if rel != "pkg/decode" && rel != "internal/mathx" {
			continue
		}
		env := fw.NewSxEnv(fn)
		ord := 0
		for _, ci := range fw.CallsIn(fn) {
			cl, ok := ci.(*ssa.Call)
			if !ok || fw.SxCallee(cl.Common()) != "(*math/big.Int).Sub" || len(cl.Common().Args) != 3 {
				continue
			}
			lsh, ok := cl.Common().Args[2].(*ssa.Call)
			if !ok || fw.SxCallee(lsh.Common()) != "(*math/big.Int).Lsh" {
				continue
			}
			if s := env.Of(lsh.Common().Args[1]); s != "g:mathx.BigIntOne" && s != "(call math/big.NewInt 1)" {
				continue
			}
			ord++
			key := fmt.Sprintf("%s#%d", fw.ShortFn(fn), ord)
			pos := c.p.Rel(cl.Pos())
			x := env.Poly(lsh.Common().Args[2])
			// the tested sign bit: a dominating guard
			decided := false
			for _, g := range fw.Guards(cl.Block()) {
				g = g.Normalize()
				bo, ok := g.Cond.(*ssa.BinOp)
				if !ok {
					continue
				}
				// form A: a test of buf[0] that holds exactly for bytes >= 128 (buf[0]&0x80 > 0, != 0,
				// buf[0] >= 0x80, ...) => sign bit index 8*len(buf)-1 of SetBytes(buf)
				if m := regexp.MustCompile(`\(idx (\S+) 0\)`).FindStringSubmatch(env.Of(bo)); m != nil {
					body := strings.ReplaceAll(env.Of(bo), m[0], "B")
					top := true
					for v := int64(0); v < 256 && top; v++ {
						r, evald := fw.SxEval(body, map[string]int64{"B": v})
						top = evald && ((r != 0) == g.True) == (v >= 128)
					}
					if top {
						{
							want := fw.PAtom("(len " + m[1] + ")").MulC(8)
							decided = true
							ru.Check(x.Equal(want), key, pos, "modulus 2^(8*len(buf)) for the top bit of buf[0]", "sign test is the top bit of "+m[1]+"[0] (bit 8*len-1 of the big-endian buffer) but the modulus exponent is "+x.String())
							// and the magnitude must be SetBytes of the same buffer
							set := false
							for _, c2 := range fw.CallsIn(fn) {
								if c3, ok := c2.(*ssa.Call); ok && fw.SxCallee(c3.Common()) == "(*math/big.Int).SetBytes" && env.Of(c3.Common().Args[1]) == m[1] && env.Of(c3.Common().Args[0]) == env.Of(cl.Common().Args[0]) {
									set = true
								}
							}
							ru.Check(set, key+":frame", pos, "magnitude is SetBytes of the same buffer", "the integer corrected is not SetBytes("+m[1]+")")
						}
					}
				}
				// form B: n.Bit(K) == 1 / != 0
				if bc, ok := fw.SxStripConv(bo.X).(*ssa.Call); ok && fw.SxCallee(bc.Common()) == "(*math/big.Int).Bit" {
					k := env.Poly(bc.Common().Args[1])
					z, isC := c02ConstInt(bo.Y)
					set := (bo.Op == token.EQL && isC && z == 1 && g.True) || (bo.Op == token.NEQ && isC && z == 0 && g.True) || (bo.Op == token.EQL && isC && z == 0 && !g.True)
					if set {
						decided = true
						ru.Check(x.Equal(k.Add(fw.PConst(1))), key, pos, "modulus exponent = tested bit + 1", fmt.Sprintf("sign test is bit %s but the modulus subtracted is 2^(%s): the exponent must be %s (a %s-bit two's complement value), otherwise negative values are off by 2^(%s)-2^(%s)", k, x, k.Add(fw.PConst(1)), k.Add(fw.PConst(1)), x, k.Add(fw.PConst(1))))
					}
				}
			}
			if !decided {
				ru.Undecided(key, pos, "two's complement correction whose sign test is not recognised (known: top bit of buf[0] after SetBytes(buf); n.Bit(k)==1): guards "+strings.Join(env.GuardSx(cl.Block()), " "))
			}
		}
	}
}

// ---------------------------------------------------------------------------
// controls

func init() {
	ctl := func(id, rule, file, old, new, expect string) {
		AddControl(Control{ID: id, Prop: "C02", Rule: rule, File: file, Old: old, New: new, ExpectKey: expect})
	}
	rv := "pkg/bitio/reversebytes64.go"
	ctl("c02-rev-mask", "C02.rev", rv, "return n&0xff<<32 | n&0xff00<<16 | n&0xff0000 | n&0xff000000>>16 | n&0xff00000000>>32", "return n&0xff<<32 | n&0xff00<<16 | n&0xff0000 | n&0xff000000>>16 | n&0xff00000000>>24", "arm:5")
	ctl("c02-rev-swap", "C02.rev", rv, "return n&0xff<<48 | n&0xff00<<32 | n&0xff0000<<16", "return n&0xff<<48 | n&0xff00<<16 | n&0xff0000<<32", "arm:7")
	ctl("c02-rev-bound", "C02.rev", rv, "case nBits <= 24:", "case nBits <= 25:", "arm")
	f80 := "internal/mathx/float80.go"
	ctl("c02-f80-bytes", "C02.f80", f80, "		int64(b[8])<<8 |\n		int64(b[9])<<0,", "		int64(b[9])<<8 |\n		int64(b[8])<<0,", "FromBytes:m")
	ctl("c02-f80-bias", "C02.f80", f80, "exp64 := int64(exp) - 16383 + 1023", "exp64 := int64(exp) - 16383 + 1024", "Float64:expmap")
	ctl("c02-f80-range", "C02.f80", f80, "	case exp64 >= 0x7FF:\n", "	case exp64 >= 0x800:\n", "Float64:exp-range")
	ctl("c02-f80-order", "C02.f80", f80, "	case exp == 0:\n		// exponent is all zeroes.\n		exp64 = 0\n", "	case exp64 <= 0:\n		return math.Copysign(0, float64(1-2*int(sign)))\n	case exp == 0:\n		// exponent is all zeroes.\n		exp64 = 0\n", "Float64")
	ctl("c02-f80-nan-gone", "C02.f80", f80, "	if exp == 0x7FFF && frac != 0 {\n		// NaN, a payload only in the low bits that binary64 drops must not turn into infinity\n		return math.NaN()\n	}\n", "", "Float64:nan-kept")
	ctl("c02-f80-nan-mask", "C02.f80", f80, "	if exp == 0x7FFF && frac != 0 {", "	if exp == 0x7FFF && frac>>11 != 0 {", "Float64:nan")
	ctl("c02-f80-frac", "C02.f80", f80, "bits := sign<<63 | uint64(exp64)<<52 | frac>>11", "bits := sign<<63 | uint64(exp64)<<52 | frac>>12", "Float64:layout")
	f16 := "internal/mathx/float16.go"
	ctl("c02-f16-shift", "C02.f16", f16, "frac := uint32(in&float16FracMask) << 13", "frac := uint32(in&float16FracMask) << 12", "frac")
	ctl("c02-f16-bias", "C02.f16", f16, "exp += (float32ExpBias - float16ExpBias)", "exp += (float32ExpBias - float16ExpBias - 1)", "normal")
	ctl("c02-twos-modulus", "C02.twos", "internal/mathx/big.go", "n.Sub(n, new(big.Int).Lsh(BigIntOne, uint(len(buf))*8))", "n.Sub(n, new(big.Int).Lsh(BigIntOne, uint(len(buf))*8-1))", "BigIntSetBytesSigned")
}
