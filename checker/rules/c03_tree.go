package rules

import (
	"go/token"
	"go/types"

	"golang.org/x/tools/go/ssa"

	"fqverif/fw"
)

// compOf: r is the *Compound obtained by asserting the value at path (root, path) - e.g. d.Value.V.
func (c *c03x) compOf(r ssa.Value, root ssa.Value, path string) bool {
	r = c.canon(r)
	var ta *ssa.TypeAssert
	switch x := r.(type) {
	case *ssa.Extract:
		if x.Index != 0 {
			return false
		}
		ta, _ = x.Tuple.(*ssa.TypeAssert)
	case *ssa.TypeAssert:
		ta = x
	}
	if ta == nil || !c.isNamed(ta.AssertedType, c.compT) {
		return false
	}
	if _, isPtr := ta.AssertedType.Underlying().(*types.Pointer); !isPtr {
		return false
	}
	return c.pathOf(ta.X).is(root, path)
}

// variadicElems: the elements of a `[...]T{a,b}[:]` slice built for a variadic call.
func (c *c03x) variadicElems(v ssa.Value) ([]ssa.Value, bool) {
	sl, ok := v.(*ssa.Slice)
	if !ok || sl.Low != nil || sl.High != nil {
		return nil, false
	}
	al, ok := sl.X.(*ssa.Alloc)
	if !ok {
		return nil, false
	}
	arr, ok := c03ElemOf(al.Type()).Underlying().(*types.Array)
	if !ok {
		return nil, false
	}
	out := make([]ssa.Value, arr.Len())
	for _, r := range *al.Referrers() {
		switch x := r.(type) {
		case *ssa.IndexAddr:
			k, ok := c03ConstInt(x.Index)
			if !ok || k < 0 || k >= arr.Len() {
				return nil, false
			}
			for _, rr := range *x.Referrers() {
				st, ok := rr.(*ssa.Store)
				if !ok || st.Addr != ssa.Value(x) || out[k] != nil {
					return nil, false
				}
				out[k] = st.Val
			}
		case *ssa.Slice, *ssa.DebugRef:
		default:
			return nil, false
		}
	}
	for _, e := range out {
		if e == nil {
			return nil, false
		}
	}
	return out, true
}

// appendCall: v is append(base, elems...) ; returns base and elems.
func (c *c03x) appendCall(v ssa.Value) (ssa.Value, []ssa.Value, bool) {
	call, ok := v.(*ssa.Call)
	if !ok || !fw.IsBuiltinCall(call, "append") || len(call.Common().Args) != 2 {
		return nil, nil, false
	}
	el, ok := c.variadicElems(call.Common().Args[1])
	if !ok {
		return nil, nil, false
	}
	return call.Common().Args[0], el, true
}

// boolFieldBranches: the If instructions of fn whose condition is (a negation of) a load of path
// (root.path) with rootPred(root); for each, the edge taken when the loaded bool is false / true.
type c03BoolBranch struct {
	from            *ssa.BasicBlock
	onFalse, onTrue *ssa.BasicBlock
}

func (c *c03x) boolFieldBranches(fn *ssa.Function, rootPred func(ssa.Value) bool, path string) []c03BoolBranch {
	var out []c03BoolBranch
	for _, b := range fn.Blocks {
		ifi, ok := b.Instrs[len(b.Instrs)-1].(*ssa.If)
		if !ok {
			continue
		}
		g := c03Norm(fw.Guard{Cond: ifi.Cond, True: true})
		pp := c.pathOf(g.Cond)
		if pp.path != path || !rootPred(pp.root) {
			continue
		}
		if g.True {
			out = append(out, c03BoolBranch{b, b.Succs[1], b.Succs[0]})
		} else {
			out = append(out, c03BoolBranch{b, b.Succs[0], b.Succs[1]})
		}
	}
	return out
}

func c03AddChild(r *fw.Run, c *c03x) {
	ru := r.Rule("C03.addchild", "AddChild(v): v.Parent = d.Value on every path that appends; Children = append(Children, v) on the compound of d.Value; for structs every path to the append inserts ByName[v.Name] = v, and the insert is dominated by the duplicate test ByName[v.Name] whose hit arm never continues (Fatalf, force-proof); ByName is created only while nil", 7)
	f := c.fn(ru, "(*pkg/decode.D).AddChild")
	if f == nil {
		return
	}
	if len(f.Params) != 2 {
		ru.Undecided("AddChild:signature", c.at(f), "AddChild no longer has (d, v) parameters")
		return
	}
	d, v := ssa.Value(f.Params[0]), ssa.Value(f.Params[1])
	isComp := func(x ssa.Value) bool { return c.compOf(x, d, ".Value.V") }

	// (1) parent link
	var parentSt []*ssa.Store
	okParent := true
	for _, fs := range c.fieldStores(f, c.valueT, "Parent") {
		if fs.base.is(v, "") && fs.sub == "" && c.pathOf(fs.st.Val).is(d, ".Value") {
			parentSt = append(parentSt, fs.st)
		} else {
			okParent = false
		}
	}
	ru.Check(okParent && len(parentSt) >= 1, "AddChild:parent", c.at(f), "v.Parent = d.Value",
		"AddChild does not set exactly v.Parent = d.Value: parent/child links disagree")

	// (2) append
	var appSt []*ssa.Store
	okApp := true
	why := ""
	for _, fs := range c.fieldStores(f, c.compT, "Children") {
		base, el, ok := c.appendCall(fs.st.Val)
		if !ok || !isComp(fs.base.root) || fs.base.path != "" || fs.sub != "" {
			okApp, why = false, "Children is assigned something that is not append(Children, v) on the compound of d.Value"
			continue
		}
		bp := c.pathOf(base)
		if !(bp.root == fs.base.root && bp.path == ".Children") {
			okApp, why = false, "append base is not the same compound's Children"
			continue
		}
		if len(el) != 1 || c.canon(el[0]) != v {
			okApp, why = false, "appended element is not exactly v"
			continue
		}
		appSt = append(appSt, fs.st)
	}
	if len(appSt) == 0 && okApp {
		okApp, why = false, "no append of v to Children"
	}
	ru.Check(okApp, "AddChild:append", c.at(f), "Children = append(Children, v)", "AddChild: "+why)

	// (3) the parent link is set on every path that appends
	okOrder := len(parentSt) > 0 && len(appSt) > 0
	for _, a := range appSt {
		if len(parentSt) == 0 || !c.onEveryPathThrough(a, parentSt[:1]) {
			okOrder = false
		}
	}
	ru.Check(okOrder, "AddChild:parent-on-append-paths", c.at(f), "every path that appends v also sets v.Parent",
		"a path appends v to Children without setting v.Parent")

	// (4) ByName insert
	var ups []*ssa.MapUpdate
	okUp := true
	fw.EachInstr(f, func(ins ssa.Instruction) {
		mu, ok := ins.(*ssa.MapUpdate)
		if !ok {
			return
		}
		mp := c.pathOf(mu.Map)
		if mp.path != ".ByName" || !isComp(mp.root) {
			return
		}
		if c.pathOf(mu.Key).is(v, ".Name") && c.canon(mu.Value) == v {
			ups = append(ups, mu)
		} else {
			okUp = false
		}
	})
	ru.Check(okUp && len(ups) >= 1, "AddChild:byname-insert", c.at(f), "ByName[v.Name] = v", "AddChild does not insert ByName[v.Name] = v")

	// (4b) the name index is created once: ByName is only ever assigned a fresh map, and only while it is nil
	okInit, whyInit := true, ""
	for _, fs := range c.fieldStores(f, c.compT, "ByName") {
		if !isComp(fs.base.root) || fs.base.path != "" || fs.sub != "" {
			okInit, whyInit = false, "ByName of something other than the compound of d.Value is assigned"
			continue
		}
		if _, isMake := fs.st.Val.(*ssa.MakeMap); !isMake {
			okInit, whyInit = false, "ByName is assigned something other than a new map"
			continue
		}
		isNil := false
		for _, g := range fw.Guards(fs.st.Block()) {
			g = c03Norm(g)
			bo, ok := g.Cond.(*ssa.BinOp)
			if !ok || (bo.Op != token.EQL && bo.Op != token.NEQ) {
				continue
			}
			var other ssa.Value
			if isNilConst(bo.X) {
				other = bo.Y
			} else if isNilConst(bo.Y) {
				other = bo.X
			} else {
				continue
			}
			mp := c.pathOf(other)
			if mp.path == ".ByName" && mp.root == fs.base.root && (bo.Op == token.EQL) == g.True {
				isNil = true
			}
		}
		if !isNil {
			okInit, whyInit = false, "ByName is replaced by a new map although it may already hold names"
		}
	}
	ru.Check(okInit, "AddChild:byname-init", c.at(f), "ByName = make(map) only under ByName == nil", "AddChild: "+whyInit+": the names of the children linked so far are forgotten (ByName and Children disagree, a repeated name is no longer detected)")

	// (5) struct paths insert into ByName; every compound path appends
	insBlocks := map[*ssa.BasicBlock]bool{}
	for _, u := range ups {
		insBlocks[u.Block()] = true
	}
	appBlocks := map[*ssa.BasicBlock]bool{}
	for _, a := range appSt {
		appBlocks[a.Block()] = true
	}
	var rets []*ssa.BasicBlock
	for _, b := range f.Blocks {
		if _, isRet := b.Instrs[len(b.Instrs)-1].(*ssa.Return); isRet {
			rets = append(rets, b)
		}
	}
	branches := c.boolFieldBranches(f, isComp, ".IsArray")
	// paths are explored per kind: on a struct path every IsArray test goes the false way, and vice versa
	cutTrue := map[[2]*ssa.BasicBlock]bool{}
	cutFalse := map[[2]*ssa.BasicBlock]bool{}
	for _, br := range branches {
		cutTrue[[2]*ssa.BasicBlock{br.from, br.onTrue}] = true
		cutFalse[[2]*ssa.BasicBlock{br.from, br.onFalse}] = true
	}
	// start from the first IsArray test(s) only: later ones are decided by the same flag
	var first []c03BoolBranch
	for i, br := range branches {
		later := false
		for j, o := range branches {
			if i != j && o.from != br.from && c03ReachesAvoiding(o.from, br.from, nil, nil) && !c03ReachesAvoiding(br.from, o.from, nil, nil) {
				later = true
			}
		}
		if !later {
			first = append(first, br)
		}
	}
	branches = first
	okCov := len(branches) >= 1 && len(appSt) > 0
	for _, br := range branches {
		for _, rb := range rets {
			if c03ReachesAvoiding(br.onFalse, rb, insBlocks, cutTrue) || c03ReachesAvoiding(br.onFalse, rb, appBlocks, cutTrue) {
				okCov = false
			}
			if c03ReachesAvoiding(br.onTrue, rb, appBlocks, cutFalse) {
				okCov = false
			}
		}
	}
	ru.Check(okCov, "AddChild:struct-insert-on-every-path", c.at(f), "every !IsArray path inserts into ByName and appends; the IsArray path appends",
		"a struct child can be appended to Children without a ByName entry, or a child is not appended at all (or the IsArray distinction is gone): names and children disagree")

	// (6) duplicate test with a no-return arm: on struct paths the insert is only reached through
	// the miss edge of a lookup ByName[v.Name], whose hit arm never completes
	type dupTest struct{ from, hit *ssa.BasicBlock }
	var tests []dupTest
	for _, b := range f.Blocks {
		ifi, ok := b.Instrs[len(b.Instrs)-1].(*ssa.If)
		if !ok {
			continue
		}
		g := c03Norm(fw.Guard{Cond: ifi.Cond, True: true})
		ex, ok := g.Cond.(*ssa.Extract)
		if !ok || ex.Index != 1 {
			continue
		}
		lk, ok := ex.Tuple.(*ssa.Lookup)
		if !ok || !lk.CommaOk {
			continue
		}
		mp := c.pathOf(lk.X)
		if !(mp.path == ".ByName" && isComp(mp.root) && c.pathOf(lk.Index).is(v, ".Name")) {
			continue
		}
		hit := b.Succs[0]
		if !g.True {
			hit = b.Succs[1]
		}
		tests = append(tests, dupTest{b, hit})
	}
	okDup := len(ups) >= 1 && len(tests) >= 1 && fw.CurrentNR != nil
	cutHit := map[[2]*ssa.BasicBlock]bool{}
	for k := range cutTrue {
		cutHit[k] = true
	}
	testBlocks := map[*ssa.BasicBlock]bool{}
	for _, t := range tests {
		if fw.CurrentNR == nil || !(len(t.hit.Preds) == 1 && fw.CurrentNR.BlockFails(t.hit)) {
			okDup = false
		}
		testBlocks[t.from] = true
	}
	for _, br := range branches {
		for _, u := range ups {
			if c03ReachesAvoiding(br.onFalse, u.Block(), testBlocks, cutHit) {
				okDup = false
			}
		}
	}
	ru.Check(okDup, "AddChild:duplicate-test", c.at(f), "insert only reached through a failed lookup of v.Name; hit arm is no-return",
		"the ByName insert is not guarded by a duplicate-name test whose hit arm stops the decode (also under force): a second field with the same name silently replaces the first in ByName while both stay in Children")
}

// ---------------------------------------------------------------------------

func c03ByName(r *fw.Run, c *c03x) {
	ru := r.Rule("C03.byname", "every insert into / delete from Compound.ByName anywhere in fq is keyed by the Name of the very value inserted / removed; Value.Remove deletes from its parent's compound and stores back Children filtered by identity with the receiver, on every struct path; every other child is kept", 6)
	p := c.p
	nUpd, nDel := 0, 0
	for _, fn := range p.FqFunctions() {
		fn := fn
		fw.EachInstr(fn, func(ins ssa.Instruction) {
			switch x := ins.(type) {
			case *ssa.MapUpdate:
				fa := c03LoadedField(x.Map)
				if fa == nil || !c.isNamed(fa.X.Type(), c.compT) || fieldNameOf(fa.X.Type(), fa.Field) != "ByName" {
					return
				}
				nUpd++
				val := c.canon(x.Value)
				kp := c.pathOf(x.Key)
				ru.Check(kp.root == val && kp.path == ".Name", "insert|"+fw.ShortFn(fn), p.Rel(x.Pos()), "key is value.Name",
					"ByName insert keyed by something other than the inserted value's Name ("+c.showPath(kp)+")")
			case *ssa.Call:
				if !fw.IsBuiltinCall(x, "delete") {
					return
				}
				fa := c03LoadedField(x.Common().Args[0])
				if fa == nil || !c.isNamed(fa.X.Type(), c.compT) || fieldNameOf(fa.X.Type(), fa.Field) != "ByName" {
					return
				}
				nDel++
				c03CheckRemove(ru, c, fn, x)
			}
		})
	}
	if nUpd == 0 {
		ru.Undecided("insert", "", "no insert into Compound.ByName found")
	}
	if nDel == 0 {
		ru.Undecided("delete", "", "no delete from Compound.ByName found (Value.Remove gone?)")
	}
}

func c03CheckRemove(ru *fw.Rule, c *c03x, fn *ssa.Function, del *ssa.Call) {
	p := c.p
	name := fw.ShortFn(fn)
	kp := c.pathOf(del.Common().Args[1])
	mp := c.pathOf(del.Common().Args[0])
	X := kp.root
	okKey := kp.path == ".Name" && X != nil && c.isNamed(X.Type(), c.valueT)
	ru.Check(okKey, "delete-key|"+name, p.Rel(del.Pos()), "key is removed.Name",
		"ByName delete keyed by "+c.showPath(kp)+": not the Name of a decode value")
	if !okKey {
		return
	}
	okMap := mp.path == ".ByName" && c.compOf(mp.root, X, ".Parent.V")
	ru.Check(okMap, "delete-map|"+name, p.Rel(del.Pos()), "map is (removed.Parent.V).ByName",
		"ByName delete uses the Name of one value but the map of a compound that is not that value's parent: the removed field stays reachable by name (has/.name disagree with keys) and cannot be re-added")
	if !okMap {
		return
	}
	comp := mp.root
	// the Children store of the same compound
	var sts []c03FieldStore
	for _, fs := range c.fieldStores(fn, c.compT, "Children") {
		if fs.base.root == comp && fs.base.path == "" && fs.sub == "" {
			sts = append(sts, fs)
		}
	}
	if len(sts) == 0 {
		ru.Fail("remove-children|"+name, p.Rel(del.Pos()), "ByName entry deleted but Children of the same compound is not rewritten: names and children disagree")
		return
	}
	for _, fs := range sts {
		ok, why, elems, apps := c.filteredBy(fs.st.Val, comp, X)
		ru.Check(ok, "remove-children|"+name, p.Rel(fs.st.Pos()), "Children = [c in Children | c != removed]", "Remove: "+why)
		if !ok {
			continue
		}
		// every other child is kept: the loop visits Children from 0, an iteration ends without the
		// append only through the `element == removed` edge, and that edge goes on with the next element
		okAll, whyAll := len(elems) >= 1, "no filter loop found"
		appBlocks := map[*ssa.BasicBlock]bool{}
		for _, a := range apps {
			appBlocks[a.Block()] = true
		}
		for _, e := range elems {
			ia := e.X.(*ssa.IndexAddr)
			if !c.countsFromZero(ia.Index) {
				okAll, whyAll = false, "the filter loop does not visit the old Children from index 0 in steps of 1"
				continue
			}
			body := e.Block()
			hdr := c03LoopHeader(body)
			if hdr == nil {
				okAll, whyAll = false, "the old Children are not filtered in a loop"
				continue
			}
			loop := c03NaturalLoop(hdr)
			cut := map[[2]*ssa.BasicBlock]bool{}
			for b := range loop {
				ifi, ok := b.Instrs[len(b.Instrs)-1].(*ssa.If)
				if !ok {
					continue
				}
				g := c03Norm(fw.Guard{Cond: ifi.Cond, True: true})
				bo, ok := g.Cond.(*ssa.BinOp)
				if !ok || (bo.Op != token.EQL && bo.Op != token.NEQ) {
					continue
				}
				if !((bo.X == ssa.Value(e) && c.canon(bo.Y) == X) || (bo.Y == ssa.Value(e) && c.canon(bo.X) == X)) {
					continue
				}
				eqSucc := b.Succs[0]
				if (bo.Op == token.EQL) != g.True {
					eqSucc = b.Succs[1]
				}
				cut[[2]*ssa.BasicBlock{b, eqSucc}] = true
				if !c03StaysInLoop(eqSucc, hdr, loop) {
					okAll, whyAll = false, "finding the removed value ends the loop (break/return): the children after it are dropped from Children too"
				}
			}
			seen := map[*ssa.BasicBlock]bool{}
			stack := []*ssa.BasicBlock{body}
			for len(stack) > 0 {
				b := stack[len(stack)-1]
				stack = stack[:len(stack)-1]
				if seen[b] || appBlocks[b] {
					continue
				}
				seen[b] = true
				for _, s := range b.Succs {
					if cut[[2]*ssa.BasicBlock{b, s}] {
						continue
					}
					if s == hdr || !loop[s] {
						okAll, whyAll = false, "an element other than the removed value can pass the loop without being kept"
						continue
					}
					stack = append(stack, s)
				}
			}
		}
		ru.Check(okAll, "remove-keeps-others|"+name, p.Rel(fs.st.Pos()), "every element != removed is appended; the removed one only skips its own iteration", "Remove: "+whyAll+": siblings vanish from Children while their ByName entries stay")
	}
	// a struct child cannot leave Children while staying in ByName: on paths where IsArray is
	// false the Children store is only reached through the delete
	isC := func(x ssa.Value) bool { return c.canon(x) == comp || x == comp }
	branches := c.boolFieldBranches(fn, isC, ".IsArray")
	cutTrue := map[[2]*ssa.BasicBlock]bool{}
	for _, br := range branches {
		cutTrue[[2]*ssa.BasicBlock{br.from, br.onTrue}] = true
	}
	okPath := true
	avoid := map[*ssa.BasicBlock]bool{del.Block(): true}
	for _, fs := range sts {
		if len(branches) == 0 {
			if c03ReachesAvoiding(fn.Blocks[0], fs.st.Block(), avoid, nil) {
				okPath = false
			}
		}
		for _, br := range branches {
			if c03ReachesAvoiding(br.onFalse, fs.st.Block(), avoid, cutTrue) {
				okPath = false
			}
		}
	}
	ru.Check(okPath, "remove-struct-deletes-name|"+name, p.Rel(del.Pos()), "every struct path that rewrites Children deletes the ByName entry", "Remove: a struct child can be dropped from Children while its ByName entry stays (the delete is skipped for structs): has/.name disagree with keys and the name cannot be re-added")
}

// filteredBy: v is built only from nil and append(acc, e) where e is an element of comp.Children
// and the append is guarded by e != X.
func (c *c03x) filteredBy(v ssa.Value, comp ssa.Value, X ssa.Value) (bool, string, []*ssa.UnOp, []*ssa.Call) {
	seen := map[ssa.Value]bool{}
	nApp := 0
	var elems []*ssa.UnOp
	var apps []*ssa.Call
	var why string
	var rec func(v ssa.Value) bool
	rec = func(v ssa.Value) bool {
		if seen[v] {
			return true
		}
		seen[v] = true
		switch x := v.(type) {
		case *ssa.Const:
			if x.IsNil() {
				return true
			}
		case *ssa.Phi:
			for _, e := range x.Edges {
				if !rec(e) {
					return false
				}
			}
			return true
		case *ssa.Call:
			base, el, ok := c.appendCall(x)
			if !ok || len(el) != 1 {
				why = "Children rebuilt by something other than single-element appends"
				return false
			}
			e := el[0]
			ld, ok := e.(*ssa.UnOp)
			if !ok {
				why = "appended element is not an element of the old Children"
				return false
			}
			ia, ok := ld.X.(*ssa.IndexAddr)
			if !ok || !c.pathOf(ia.X).is(comp, ".Children") {
				why = "appended element is not an element of the same compound's Children"
				return false
			}
			val, found := c03GuardOn(x.Block(), func(cond ssa.Value) bool {
				bo, ok := cond.(*ssa.BinOp)
				if !ok || (bo.Op != token.EQL && bo.Op != token.NEQ) {
					return false
				}
				a, b := bo.X, bo.Y
				return (a == e && c.canon(b) == X) || (b == e && c.canon(a) == X)
			})
			keepGuard := false
			if found {
				for _, g := range fw.Guards(x.Block()) {
					g = c03Norm(g)
					if bo, ok := g.Cond.(*ssa.BinOp); ok && ((bo.X == e && c.canon(bo.Y) == X) || (bo.Y == e && c.canon(bo.X) == X)) {
						if (bo.Op == token.EQL && !g.True) || (bo.Op == token.NEQ && g.True) {
							keepGuard = true
						}
					}
				}
			}
			_ = val
			if !keepGuard {
				why = "an element is kept without the test `element != removed value`: the removed value (or nothing) is filtered"
				return false
			}
			nApp++
			elems = append(elems, ld)
			apps = append(apps, x)
			return rec(base)
		}
		why = "Children assigned from an unrecognised value"
		return false
	}
	if !rec(v) {
		return false, why, nil, nil
	}
	if nApp == 0 {
		return false, "no element of the old Children is kept", nil, nil
	}
	return true, "", elems, apps
}
