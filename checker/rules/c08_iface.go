package rules

import (
	"fmt"
	"go/types"
	"strings"

	"golang.org/x/tools/go/ssa"

	"fqverif/fw"
)

// seqWrite is one store `D[j] = val` into a slice created by make in the same function.
type seqWrite struct {
	dest  *ssa.MakeSlice
	idx   ssa.Value
	val   ssa.Value
	block *ssa.BasicBlock
}

func seqWrites(fn *ssa.Function) []seqWrite {
	var out []seqWrite
	fw.EachInstr(fn, func(ins ssa.Instruction) {
		st, ok := ins.(*ssa.Store)
		if !ok {
			return
		}
		ia, ok := st.Addr.(*ssa.IndexAddr)
		if !ok {
			return
		}
		ms, ok := fw.Resolve(ia.X).(*ssa.MakeSlice)
		if !ok {
			return
		}
		out = append(out, seqWrite{dest: ms, idx: ia.Index, val: st.Val, block: st.Block()})
	})
	return out
}

// collection is what the sibling methods of one wrapper must all consult.
type c08wrap struct {
	T    *types.Named
	kind string // array | string | object
	dv   bool   // elements are decode values that must be wrapped
	C    string // term of the collection
	name string

	keyseqDone bool
}

func (c *c08ctx) wrapTerm(x string) string {
	// makeDecodeValue(x, valueKind): the forwarding helper or the out-function itself
	return x
}

// isWrapOf reports whether term t is a value-kind wrap of element term x by one of the make functions.
func (c *c08ctx) isWrapOf(t, x string) bool {
	vk := c.kindOf["ScalarValue"]
	for _, m := range c.mk {
		n := strings.ReplaceAll(m.String(), fw.Mod+"/", "")
		if t == fmt.Sprintf("call %s(%s, %d)", n, x, vk) || t == fmt.Sprintf("call %s(%s, %d, nil)", n, x, vk) {
			return true
		}
	}
	return false
}

func (c *c08ctx) ruleIface() {
	ru := c.r.Rule("C08.iface", "sibling consistency of each collection wrapper: Length/SliceLen/Index/Slice/Each/Keys/Has/Key all consult the same collection in the same representation with consistent index arithmetic (Index subscripts with the index after index<0 is excluded, Slice yields elements start..end-1, Each/Keys pair position, key and value of the same element, Has is 0<=k<len or the map's comma-ok, struct Has/Key use one map and Key answers null only when the lookup failed; has() of an object wrapper never answers a boolean for a non-string key; the key sequence a plain-map wrapper enumerates has exactly one entry per key of the map)", 32)
	ws := []*c08wrap{
		{T: c.byKind["array"], kind: "array", C: "recv"},
		{T: c.byKind["string"], kind: "string", C: "recv"},
		{T: c.byKind["object"], kind: "object", C: "recv"},
		{T: c.arrayDV, kind: "array", dv: true},
		{T: c.structDV, kind: "object", dv: true},
	}
	kf, hf := c.fallbackFns()
	for _, w := range ws {
		w.name = tname(w.T)
		// --- Length defines (decode wrappers) or must equal (plain wrappers) the collection
		fl := c.method(w.T, "JQValueLength")
		if fl == nil {
			ru.Undecided(w.name+".Length", "", "JQValueLength not declared")
			continue
		}
		el := c.env(fl)
		rcs := fw.ReturnCases(fl, 0)
		lt := ""
		if len(rcs) == 1 {
			lt = el.Term(rcs[0].Val)
		}
		if w.dv {
			if strings.HasPrefix(lt, "len(recv.") && strings.HasSuffix(lt, ")") {
				w.C = lt[4 : len(lt)-1]
				ru.Ok(w.name+".Length", c.pos(fl), "collection is "+w.C)
			} else {
				ru.Fail(w.name+".Length", c.pos(fl), "length is "+lt+", not the len of a collection of the receiver")
				continue
			}
		} else {
			ru.Check(lt == "len(recv)", w.name+".Length", c.pos(fl), "len of the receiver", "length is "+lt+", expected len(recv) (for strings: number of runes of the []rune receiver)")
		}
		lenC := "len(" + w.C + ")"

		// --- SliceLen (sequence wrappers): the len of exactly what Index/Slice subscript
		if w.kind != "object" {
			c.checkRet1(ru, w, "JQValueSliceLen", lenC, "gojq clamps indexes with it; a mismatch is an out-of-range crash or a wrong element")
			c.checkIndex(ru, w)
			c.checkSlice(ru, w)
		}
		if w.kind != "string" {
			c.checkEachKeys(ru, w, "JQValueEach")
			c.checkEachKeys(ru, w, "JQValueKeys")
		}
		// --- Has / Key
		switch {
		case w.kind == "array":
			fh := c.method(w.T, "JQValueHas")
			if w.dv && fh != nil {
				fh = closureArg(fh, hf, 2)
			}
			c.checkArrayHas(ru, w, fh)
		case w.kind == "object" && !w.dv:
			c.checkMapHas(ru, w, w.name+".Has", c.method(w.T, "JQValueHas"), "recv", true)
			fk := c.method(w.T, "JQValueKey")
			if fk == nil {
				ru.Undecided(w.name+".Key", "", "JQValueKey not declared")
			} else {
				rcs := fw.ReturnCases(fk, 0)
				t := ""
				if len(rcs) == 1 {
					t = c.env(fk).Term(rcs[0].Val)
				}
				ru.Check(t == "lookup(recv, arg0).v", w.name+".Key", c.pos(fk), "map lookup of the name", "key lookup returns "+t+", expected the receiver map's entry for the name")
			}
		case w.kind == "object" && w.dv:
			fkey, fhas := c.method(w.T, "JQValueKey"), c.method(w.T, "JQValueHas")
			if fkey == nil || fhas == nil {
				ru.Undecided(w.name+".Has", "", "JQValueKey/JQValueHas not declared")
				break
			}
			h1 := closureArg(fkey, kf, 2)
			k1 := closureArg(fkey, kf, 3)
			h2 := closureArg(fhas, hf, 2)
			m1 := c.checkMapHas(ru, w, w.name+".Key:has", h1, "", false)
			m2 := c.checkMapHas(ru, w, w.name+".Has", h2, "", true)
			m3 := c.checkStructKey(ru, w, k1)
			if m1 != "" && m2 != "" && m3 != "" {
				ru.Check(m1 == m2 && m2 == m3, w.name+".Has/Key:same-map", c.pos(fkey), "one map: "+m1,
					fmt.Sprintf("has() of key lookup uses %s, has() uses %s, key lookup uses %s: siblings disagree about which fields exist", m1, m2, m3))
			}
		}
	}
}

func (c *c08ctx) checkRet1(ru *fw.Rule, w *c08wrap, meth, want, why string) {
	f := c.method(w.T, meth)
	key := w.name + "." + strings.TrimPrefix(meth, "JQValue")
	if f == nil {
		ru.Undecided(key, "", meth+" not declared")
		return
	}
	e := c.env(f)
	rcs := fw.ReturnCases(f, 0)
	t := ""
	if len(rcs) == 1 {
		t = e.Term(rcs[0].Val)
	}
	ru.Check(t == want, key, c.pos(f), want, "returns "+t+", expected "+want+": "+why)
}

// elemReads lists the element reads (seq term, effective index, block) in fn.
type elemRead struct {
	seq   string
	idx   *fw.Poly
	block *ssa.BasicBlock
}

func elemReads(e *fw.TermEnv, fn *ssa.Function) []elemRead {
	var out []elemRead
	fw.EachInstr(fn, func(ins ssa.Instruction) {
		switch x := ins.(type) {
		case *ssa.IndexAddr:
			if _, isPtr := x.X.Type().Underlying().(*types.Pointer); isPtr {
				return // stack array (varargs)
			}
			// only reads: skip addresses that are stored to
			if x.Referrers() != nil {
				for _, r := range *x.Referrers() {
					if st, ok := r.(*ssa.Store); ok && st.Addr == ssa.Value(x) {
						return
					}
				}
			}
			s, i, _ := e.ElemOfAddr(x)
			out = append(out, elemRead{s, i, x.Block()})
		case *ssa.Index:
			s, i, ok := e.ElemOf(x)
			if ok {
				out = append(out, elemRead{s, i, x.Block()})
			}
		case *ssa.Lookup:
			s, i, ok := e.ElemOf(x)
			if ok {
				out = append(out, elemRead{s, i, x.Block()})
			}
		}
	})
	return out
}

func (c *c08ctx) checkIndex(ru *fw.Rule, w *c08wrap) {
	f := c.method(w.T, "JQValueIndex")
	key := w.name + ".Index"
	if f == nil {
		ru.Undecided(key, "", "JQValueIndex not declared")
		return
	}
	e := c.env(f)
	var msgs, oor []string
	reads := elemReads(e, f)
	if len(reads) == 0 {
		msgs = append(msgs, "no element is read")
	}
	nonneg := func(cd fw.Cond) bool { s, ok := e.GE(cd); return ok && s == "arg0 >= 0" }
	neg := func(cd fw.Cond) bool { s, ok := e.GE(cd); return ok && s == "-1 + -1*arg0 >= 0" }
	for _, rd := range reads {
		if rd.seq != w.C {
			msgs = append(msgs, "subscripts "+rd.seq+" but length/slice-length are those of "+w.C)
		}
		if rd.idx.String() != "arg0" {
			msgs = append(msgs, "subscripts with "+rd.idx.String()+" instead of the index")
		}
		if fw.ReachAvoiding(f.Blocks[0], nonneg, nil)[rd.block] {
			msgs = append(msgs, "subscripts without having excluded index < 0 (gojq passes -1/-2 for out of range)")
		}
	}
	for _, rc := range fw.ReturnCases(f, 0) {
		t := e.Term(rc.Val)
		if strings.Contains(t, "elem(") {
			want := "elem(" + w.C + ", arg0)"
			if w.dv && !c.isWrapOf(t, want) {
				msgs = append(msgs, "returns "+t+", expected the value-kind wrap of "+want)
			}
			if !w.dv && w.kind == "array" && t != want {
				msgs = append(msgs, "returns "+t+", expected "+want)
			}
			if w.kind == "string" && !strings.Contains(t, want) {
				msgs = append(msgs, "returns "+t+", expected the rune "+want)
			}
			continue
		}
		// out-of-range result: null for arrays, a constant for strings; only for negative index
		if !isConstNil(rc.Val) {
			oor = append(oor, "out-of-range result is "+t+", expected null (the JSON value gives null for an index outside it)")
		}
		if fw.CaseReachable(f, rc, neg) {
			msgs = append(msgs, "the out-of-range result is returned for a non-negative index")
		}
	}
	ru.Check(len(msgs) == 0, key, c.pos(f), w.C+"[index] after index<0 excluded", strings.Join(uniq(msgs), "; "))
	ru.Check(len(oor) == 0, key+":out-of-range", c.pos(f), "null", strings.Join(uniq(oor), "; "))
}

func uniq(in []string) []string {
	seen := map[string]bool{}
	var out []string
	for _, s := range in {
		if !seen[s] {
			seen[s] = true
			out = append(out, s)
		}
	}
	return out
}

func (c *c08ctx) checkSlice(ru *fw.Rule, w *c08wrap) {
	f := c.method(w.T, "JQValueSlice")
	key := w.name + ".Slice"
	if f == nil {
		ru.Undecided(key, "", "JQValueSlice not declared")
		return
	}
	e := c.env(f)
	rcs := fw.ReturnCases(f, 0)
	if len(rcs) != 1 {
		ru.Undecided(key, c.pos(f), "several returns")
		return
	}
	t := e.Term(rcs[0].Val)
	direct := "slice(" + w.C + ", arg0, arg1)"
	var msgs []string
	switch {
	case !w.dv && w.kind == "array":
		if t != direct {
			msgs = append(msgs, "returns "+t+", expected "+direct)
		}
	case w.kind == "string":
		if t != "conv<string>("+direct+")" {
			msgs = append(msgs, "returns "+t+", expected the string of "+direct+" (code points start..end-1 of the same []rune whose len is the slice length)")
		}
	default:
		ms, ok := stripIfaceVal(rcs[0].Val).(*ssa.MakeSlice)
		if !ok {
			msgs = append(msgs, "returns "+t+", expected a new slice of wrapped elements")
			break
		}
		if e.Int(ms.Len).String() != "-1*arg0 + arg1" {
			msgs = append(msgs, "result has length "+e.Int(ms.Len).String()+", expected end-start")
		}
		n := 0
		for _, wr := range seqWrites(f) {
			if wr.dest != ms {
				continue
			}
			n++
			lo, hi, _, ok := e.AffineRange(wr.idx)
			if !ok || lo.String() != "0" || hi.String() != "-1*arg0 + arg1" {
				msgs = append(msgs, "result positions written are not exactly 0..end-start-1")
			}
			j := e.Int(wr.idx)
			src := j.Add(fw.PAtom("arg0"))
			want := "elem(" + w.C + ", " + src.String() + ")"
			if !c.isWrapOf(e.Term(wr.val), want) {
				msgs = append(msgs, fmt.Sprintf("result[%s] = %s, expected the value-kind wrap of %s (element start+i)", j, e.Term(wr.val), want))
			}
		}
		if n != 1 {
			msgs = append(msgs, fmt.Sprintf("%d write sites into the result, expected 1", n))
		}
	}
	ru.Check(len(msgs) == 0, key, c.pos(f), "elements start..end-1 of "+w.C, strings.Join(uniq(msgs), "; "))
}

func stripIfaceVal(v ssa.Value) ssa.Value { return fw.Resolve(v) }

// checkEachKeys: JQValueEach ([]PathValue{Path,Value}) and JQValueKeys ([]any of keys).
func (c *c08ctx) checkEachKeys(ru *fw.Rule, w *c08wrap, meth string) {
	f := c.method(w.T, meth)
	short := strings.TrimPrefix(meth, "JQValue")
	key := w.name + "." + short
	if f == nil {
		ru.Undecided(key, "", meth+" not declared")
		return
	}
	e := c.env(f)
	rcs := fw.ReturnCases(f, 0)
	if len(rcs) != 1 {
		ru.Undecided(key, c.pos(f), "several returns")
		return
	}
	ms, ok := stripIfaceVal(rcs[0].Val).(*ssa.MakeSlice)
	if !ok {
		ru.Undecided(key, c.pos(f), "does not return a slice made in the method: "+e.Term(rcs[0].Val))
		return
	}
	lenC := "len(" + w.C + ")"
	var msgs []string
	// a plain map may be enumerated through a key sequence computed from the receiver (e.g. sorted keys):
	// then the result is as long as that sequence
	if w.kind == "object" && !w.dv {
		for _, rd := range elemReads(e, f) {
			if strings.HasPrefix(rd.seq, "call ") && (strings.Contains(rd.seq, "("+w.C+")") || strings.Contains(rd.seq, "("+w.C+", ")) {
				lenC = "len(" + rd.seq + ")"
			}
		}
		// the key sequence itself: exactly the keys of the map
		for _, call := range fw.CallsIn(f) {
			if e.Term(call.Value()) == lenC[4:len(lenC)-1] && lenC != "len("+w.C+")" {
				c.checkKeySeq(ru, w, call.Common().StaticCallee())
			}
		}
	}
	// the key sequence of a plain map has one entry per key (C08.iface <wrapper>.keyseq): its length is the map's
	lenAlt := lenC
	if w.keyseqDone {
		lenAlt = "len(" + w.C + ")"
	}
	if l := e.Int(ms.Len).String(); l != lenC && l != lenAlt {
		msgs = append(msgs, "result has length "+l+", expected "+lenC)
	}
	n := 0
	for _, wr := range seqWrites(f) {
		if wr.dest != ms {
			continue
		}
		n++
		lo, hi, _, ok := e.AffineRange(wr.idx)
		if !ok || lo.String() != "0" || (hi.String() != lenC && hi.String() != lenAlt) {
			msgs = append(msgs, "result positions written are not exactly 0.."+lenC+"-1")
		}
		j := e.Int(wr.idx).String()
		var pT, vT string
		if short == "Each" {
			_, fields, ok := fw.LitFields(wr.val)
			if !ok || fields["Path"] == nil || fields["Value"] == nil {
				msgs = append(msgs, "element written is not a PathValue{Path, Value} literal: "+e.Term(wr.val))
				continue
			}
			pT, vT = e.Term(fields["Path"]), e.Term(fields["Value"])
		} else {
			pT = e.Term(wr.val)
		}
		el := "elem(" + w.C + ", " + j + ")"
		switch {
		case w.kind == "array":
			if pT != j {
				msgs = append(msgs, fmt.Sprintf("key at position %s is %s, expected the position itself", j, pT))
			}
			if short == "Each" {
				if w.dv && !c.isWrapOf(vT, el) {
					msgs = append(msgs, fmt.Sprintf("value at position %s is %s, expected the value-kind wrap of %s", j, vT, el))
				}
				if !w.dv && vT != el {
					msgs = append(msgs, fmt.Sprintf("value at position %s is %s, expected %s", j, vT, el))
				}
			}
		case w.dv: // struct: input order, name of the same child
			if pT != el+".Name" {
				msgs = append(msgs, fmt.Sprintf("key at position %s is %s, expected the name of child %s (fields in input order)", j, pT, j))
			}
			if short == "Each" && !c.isWrapOf(vT, el) {
				msgs = append(msgs, fmt.Sprintf("value paired with %s is %s, expected the value-kind wrap of the same child %s", pT, vT, el))
			}
		default: // plain map
			isRangeKey := strings.HasPrefix(pT, "next(range#") && strings.HasSuffix(pT, "("+w.C+")).key")
			isSortedKey := strings.HasPrefix(pT, "elem(call ") && lenC != "len("+w.C+")" && pT == "elem("+lenC[4:len(lenC)-1]+", "+j+")" // element j of the key sequence
			if !isRangeKey && !isSortedKey {
				msgs = append(msgs, "key is "+pT+", not a key of the receiver map")
			}
			if short == "Each" {
				okV := vT == "lookup("+w.C+", "+pT+").v" || (isRangeKey && vT == strings.TrimSuffix(pT, ".key")+".val")
				if !okV {
					msgs = append(msgs, fmt.Sprintf("value paired with key %s is %s, not the map's value for that key", pT, vT))
				}
			}
		}
	}
	if n != 1 {
		msgs = append(msgs, fmt.Sprintf("%d write sites into the result, expected 1", n))
	}
	ru.Check(len(msgs) == 0, key, c.pos(f), "one entry per element of "+w.C+", key and value of the same element", strings.Join(uniq(msgs), "; "))
}

func (c *c08ctx) checkArrayHas(ru *fw.Rule, w *c08wrap, f *ssa.Function) {
	key := w.name + ".Has"
	if f == nil {
		ru.Undecided(key, "", "has function of the value part not found")
		return
	}
	e := c.env(f)
	keyParam := e.Term(f.Params[len(f.Params)-1])
	k := "assert<int>(" + keyParam + ").v"
	okT := "assert<int>(" + keyParam + ").ok"
	// the key may be converted by a helper answering (index int, isNumber bool) instead of a bare int assertion;
	// which number representations that helper accepts is the obligation <name>.Has:numbers below
	var conv *ssa.Function
	fw.EachInstr(f, func(ins ssa.Instruction) {
		ex, ok := ins.(*ssa.Extract)
		if !ok {
			return
		}
		cl, ok := ex.Tuple.(*ssa.Call)
		if !ok || cl.Common().StaticCallee() == nil || len(cl.Common().Args) != 1 || e.Term(cl.Common().Args[0]) != keyParam {
			return
		}
		res := cl.Common().Signature().Results()
		if res.Len() != 2 || !types.Identical(res.At(0).Type(), types.Typ[types.Int]) || !types.Identical(res.At(1).Type(), types.Typ[types.Bool]) {
			return
		}
		conv = cl.Common().StaticCallee()
		if ex.Index == 0 {
			k = e.Term(ex)
		} else {
			okT = e.Term(ex)
		}
	})
	if conv != nil {
		c.checkHasIndexConv(ru, key+":numbers", conv)
	}
	want := map[string]bool{
		fw.PAtom(k).String() + " >= 0": true,
		fw.PAtom("len("+w.C+")").Sub(fw.PAtom(k)).Sub(fw.PConst(1)).String() + " >= 0": true,
	}
	var msgs []string
	nBool := 0
	asserts := func(w string) func(fw.Cond) bool {
		return func(cd fw.Cond) bool { s, ok := e.GE(cd); return ok && s == w }
	}
	refutesAny := func(cd fw.Cond) bool {
		s, ok := e.GE(fw.Cond{Val: cd.Val, True: !cd.True})
		return ok && want[s]
	}
	// every integer comparison on the key is one of the two bound tests
	fw.EachInstr(f, func(ins ssa.Instruction) {
		b, ok := ins.(*ssa.BinOp)
		if !ok {
			return
		}
		s1, ok1 := e.GE(fw.Cond{Val: b, True: true})
		s2, _ := e.GE(fw.Cond{Val: b, True: false})
		if ok1 && strings.Contains(s1, k) && !want[s1] && !want[s2] {
			msgs = append(msgs, "answer depends on "+s1+", which is not one of 0 <= k, k < len("+w.C+")")
		}
	})
	for _, rc := range fw.ReturnCases(f, 0) {
		inner := rc.Val
		if mi, ok := inner.(*ssa.MakeInterface); ok {
			inner = mi.X
		}
		if b, ok := inner.Type().Underlying().(*types.Basic); !ok || b.Info()&types.IsBoolean == 0 {
			// the error for a non-integer key
			if fw.CaseReachable(f, rc, func(cd fw.Cond) bool { return !cd.True && e.Term(cd.Val) == okT }) {
				msgs = append(msgs, "a non-boolean is returned for an integer key")
			}
			continue
		}
		nBool++
		if isConstBool(inner, false) {
			// every way to this false passes a failed bound test
			if fw.CaseReachable(f, rc, refutesAny) {
				msgs = append(msgs, "answers false without a failed bound test")
			}
			continue
		}
		inConj := map[string]bool{}
		if !isConstBool(inner, true) {
			cj, ok := fw.Conj(inner)
			if !ok {
				msgs = append(msgs, "result "+e.Term(inner)+" is not a conjunction of bound tests")
				continue
			}
			for _, cd := range cj {
				if s, ok := e.GE(cd); ok {
					inConj[s] = true
				} else {
					msgs = append(msgs, "result depends on "+e.Term(cd.Val))
				}
			}
		}
		for wnt := range want {
			if !inConj[wnt] && fw.CaseReachable(f, rc, asserts(wnt)) {
				msgs = append(msgs, "true-answer does not require "+wnt)
			}
		}
	}
	if nBool == 0 {
		msgs = append(msgs, "never answers a boolean")
	}
	ru.Check(len(msgs) == 0, key, c.pos(f), "0 <= k < len("+w.C+")", strings.Join(uniq(msgs), "; "))
}

// checkMapHas checks a has-function over a Go map; returns the term of the map consulted. wantM "" = any
// map-typed path of the receiver. errOnNonString: a non-string key must not answer a boolean true.
func (c *c08ctx) checkMapHas(ru *fw.Rule, w *c08wrap, key string, f *ssa.Function, wantM string, errOnNonString bool) string {
	if f == nil {
		ru.Undecided(key, "", "has function of the value part not found")
		return ""
	}
	e := c.env(f)
	keyParam := e.Term(f.Params[len(f.Params)-1])
	k := "assert<string>(" + keyParam + ").v"
	// the lookup
	var lk *ssa.Lookup
	nl := 0
	fw.EachInstr(f, func(ins ssa.Instruction) {
		if l, ok := ins.(*ssa.Lookup); ok {
			if _, isMap := l.X.Type().Underlying().(*types.Map); isMap {
				lk = l
				nl++
			}
		}
	})
	if nl != 1 || !lk.CommaOk {
		ru.Fail(key, c.pos(f), fmt.Sprintf("expected exactly one comma-ok map lookup, found %d", nl))
		return ""
	}
	M := e.Term(lk.X)
	var msgs []string
	if e.Term(lk.Index) != k {
		msgs = append(msgs, "looks up "+e.Term(lk.Index)+" instead of the string key "+k)
	}
	if wantM != "" && M != wantM {
		msgs = append(msgs, "looks up in "+M+", expected "+wantM)
	}
	if wantM == "" && !strings.HasPrefix(M, "recv.") {
		msgs = append(msgs, "looks up in "+M+", which is not part of the receiver")
	}
	okT := e.Term(lk) + ".ok"
	nTrue := 0
	for _, rc := range fw.ReturnCases(f, 0) {
		t := e.Term(rc.Val)
		switch {
		case t == okT:
			nTrue++
		case isConstBool(rc.Val, true):
			nTrue++
			if fw.CaseReachable(f, rc, func(cd fw.Cond) bool { return cd.True && e.Term(cd.Val) == okT }) {
				msgs = append(msgs, "answers true on a path where the lookup did not succeed")
			}
		case isConstBool(rc.Val, false):
			// must not be reachable after a successful lookup
			var okEdgeTarget *ssa.BasicBlock
			for _, b := range f.Blocks {
				for _, s := range b.Succs {
					if cd, ok := fw.EdgeCond(b, s); ok && cd.True && e.Term(cd.Val) == okT {
						okEdgeTarget = s
					}
				}
			}
			if okEdgeTarget != nil && fw.ReachAvoiding(okEdgeTarget, nil, nil)[rc.Block] {
				msgs = append(msgs, "answers false after a successful lookup")
			}
		default:
			inner := rc.Val
			if mi, ok := inner.(*ssa.MakeInterface); ok {
				inner = mi.X
			}
			if b, ok := inner.Type().Underlying().(*types.Basic); ok && b.Info()&types.IsBoolean != 0 {
				msgs = append(msgs, "answers "+t+", which is not the lookup's ok")
			}
		}
	}
	if nTrue == 0 {
		msgs = append(msgs, "never answers true")
	}
	if errOnNonString {
		// has(<non-string>) of a JSON object is an error, never a boolean
		strOk := "assert<string>(" + keyParam + ").ok"
		for _, rc := range fw.ReturnCases(f, 0) {
			inner := rc.Val
			if mi, ok := inner.(*ssa.MakeInterface); ok {
				inner = mi.X
			}
			if b, ok := inner.Type().Underlying().(*types.Basic); !ok || b.Info()&types.IsBoolean == 0 {
				continue
			}
			if fw.CaseReachable(f, rc, func(cd fw.Cond) bool { return cd.True && e.Term(cd.Val) == strOk }) {
				msgs = append(msgs, "a boolean is answered for a key that is not a string (has(0) of the JSON object is an error)")
			}
		}
	}
	ru.Check(len(msgs) == 0, key, c.pos(f), "comma-ok of "+M+"[key]", strings.Join(uniq(msgs), "; "))
	return M
}

func (c *c08ctx) checkStructKey(ru *fw.Rule, w *c08wrap, f *ssa.Function) string {
	key := w.name + ".Key"
	if f == nil {
		ru.Undecided(key, "", "key function of the value part not found")
		return ""
	}
	e := c.env(f)
	name := e.Term(f.Params[len(f.Params)-1])
	var lk *ssa.Lookup
	nl := 0
	fw.EachInstr(f, func(ins ssa.Instruction) {
		if l, ok := ins.(*ssa.Lookup); ok {
			if _, isMap := l.X.Type().Underlying().(*types.Map); isMap {
				lk = l
				nl++
			}
		}
	})
	if nl != 1 {
		ru.Fail(key, c.pos(f), fmt.Sprintf("expected exactly one map lookup, found %d", nl))
		return ""
	}
	M := e.Term(lk.X)
	var msgs []string
	if e.Term(lk.Index) != name {
		msgs = append(msgs, "looks up "+e.Term(lk.Index)+" instead of the name")
	}
	lt := e.Term(lk)
	okT := lt + ".ok"
	if !lk.CommaOk {
		okT = ""
		lt = strings.TrimSuffix(lt, ".v")
	}
	nWrap := 0
	for _, rc := range fw.ReturnCases(f, 0) {
		t := e.Term(rc.Val)
		if c.isWrapOf(t, lt+".v") {
			nWrap++
			if okT != "" && fw.CaseReachable(f, rc, func(cd fw.Cond) bool { return cd.True && e.Term(cd.Val) == okT }) {
				msgs = append(msgs, "wraps the looked-up child on a path where the lookup did not succeed (nil child)")
			}
			continue
		}
		if !isConstNil(rc.Val) {
			msgs = append(msgs, "returns "+t+", expected the value-kind wrap of the looked-up child or null")
			continue
		}
		// null only when the field does not exist
		if okT != "" {
			for _, b := range f.Blocks {
				for _, sc := range b.Succs {
					cd, ok := fw.EdgeCond(b, sc)
					if !ok || !cd.True || e.Term(cd.Val) != okT {
						continue
					}
					if c08ReachableFrom(sc, rc, nil) {
						msgs = append(msgs, "answers null although the lookup succeeded: a field keys/has show reads as null")
					}
				}
			}
		}
	}
	if nWrap == 0 {
		msgs = append(msgs, "never returns the looked-up child")
	}
	ru.Check(len(msgs) == 0, key, c.pos(f), "wrap of "+M+"[name] when present", strings.Join(uniq(msgs), "; "))
	return M
}

// c08ReachableFrom: can return case rc be taken starting at block from, with the edges satisfying del removed?
func c08ReachableFrom(from *ssa.BasicBlock, rc fw.RetCase, del func(fw.Cond) bool) bool {
	if !fw.ReachAvoiding(from, del, nil)[rc.Block] {
		return false
	}
	if rc.Succ != nil && del != nil {
		if cd, ok := fw.EdgeCond(rc.Block, rc.Succ); ok && del(cd) {
			return false
		}
	}
	return true
}

// checkKeySeq: the helper that lists the keys of a plain map for Each/Keys returns one entry per key of its
// receiver: an accumulator that starts empty and is appended the range key exactly once per iteration.
func (c *c08ctx) checkKeySeq(ru *fw.Rule, w *c08wrap, h *ssa.Function) {
	key := w.name + ".keyseq"
	if w.keyseqDone {
		return
	}
	w.keyseqDone = true
	if h == nil || h.Blocks == nil {
		ru.Undecided(key, "", "key sequence of the map is not produced by a static callee")
		return
	}
	e := c.env(h)
	var msgs []string
	var rets []ssa.Value
	fw.EachInstr(h, func(ins ssa.Instruction) {
		if r, ok := ins.(*ssa.Return); ok && len(r.Results) >= 1 {
			rets = append(rets, r.Results[0])
		}
	})
	if len(rets) != 1 {
		ru.Undecided(key, c.pos(h), "several returns")
		return
	}
	var root func(v ssa.Value, depth int) ssa.Value
	root = func(v ssa.Value, depth int) ssa.Value {
		v = fw.Resolve(v)
		if call, ok := v.(*ssa.Call); ok && fw.IsBuiltinCall(call, "append") && depth < 8 {
			return root(call.Call.Args[0], depth+1)
		}
		return v
	}
	switch acc := root(rets[0], 0).(type) {
	case *ssa.MakeSlice:
		// filled by index: positions 0..len-1, each a range key
		if e.Int(acc.Len).String() == "len(recv)" {
			n := 0
			for _, wr := range seqWrites(h) {
				if wr.dest != acc {
					continue
				}
				n++
				lo, hi, _, ok := e.AffineRange(wr.idx)
				if !ok || lo.String() != "0" || hi.String() != "len(recv)" {
					msgs = append(msgs, "positions written are not exactly 0..len-1")
				}
				if t := e.Term(wr.val); !strings.HasPrefix(t, "next(range#") || !strings.HasSuffix(t, "(recv)).key") {
					msgs = append(msgs, "entry written is "+t+", not a key of the receiver map")
				}
			}
			if n != 1 {
				msgs = append(msgs, fmt.Sprintf("%d write sites, expected 1", n))
			}
			break
		}
		msgs = append(msgs, "key sequence starts with "+e.Int(acc.Len).String()+" entries before the keys are added")
	case *ssa.Phi:
		// loop accumulator: edges are the initial value and the append of this iteration
		nApp := 0
		for _, ed := range acc.Edges {
			switch y := fw.Resolve(ed).(type) {
			case *ssa.MakeSlice:
				if e.Int(y.Len).String() != "0" {
					msgs = append(msgs, "key sequence starts with "+e.Int(y.Len).String()+" empty entries before the keys are appended")
				}
			case *ssa.Const:
			case *ssa.Call:
				if !fw.IsBuiltinCall(y, "append") || y.Call.Args[0] != ssa.Value(acc) {
					msgs = append(msgs, "accumulator has another source: "+e.Term(ed))
					break
				}
				nApp++
				els, ok := fw.SliceLitElems(y.Call.Args[1])
				if !ok || len(els) != 1 {
					msgs = append(msgs, "append of something that is not one key")
					break
				}
				if t := e.Term(els[0]); !strings.HasPrefix(t, "next(range#") || !strings.HasSuffix(t, "(recv)).key") {
					msgs = append(msgs, "appends "+t+", not the key of the current entry of the receiver map")
				}
				// appended on every iteration
				if nx, isNx := fw.Resolve(els[0]).(*ssa.Extract); isNx {
					if loopBypass(nx.Tuple.(*ssa.Next).Block(), y.Block(), func(fw.Cond) bool { return false }) {
						msgs = append(msgs, "an entry of the map can be skipped")
					}
				}
			default:
				if ed != ssa.Value(acc) {
					msgs = append(msgs, "accumulator has another source: "+e.Term(ed))
				}
			}
		}
		if nApp != 1 {
			msgs = append(msgs, fmt.Sprintf("%d append sites, expected 1", nApp))
		}
	default:
		ru.Undecided(key, c.pos(h), "key sequence is "+e.Term(rets[0])+", not a slice built in the helper")
		return
	}
	ru.Check(len(msgs) == 0, key, c.pos(h), "one entry per key of the receiver map", strings.Join(uniq(msgs), "; "))
}

// checkHasIndexConv: the key converter of an array has/1 accepts every representation gojq uses for a number
// that can index a plain array (int, float64, *big.Int: gojq's toInt), answers ok=true for each of them and
// ok=false only in the arm no number type selects; the int arm returns the key itself.
func (c *c08ctx) checkHasIndexConv(ru *fw.Rule, key string, f *ssa.Function) {
	var msgs []string
	if len(f.Params) != 1 {
		ru.Undecided(key, c.pos(f), "key converter does not take exactly the key")
		return
	}
	seen := map[string]*ssa.TypeAssert{}
	fw.EachInstr(f, func(ins ssa.Instruction) {
		if ta, ok := ins.(*ssa.TypeAssert); ok && ta.X == ssa.Value(f.Params[0]) && ta.CommaOk {
			seen[types.TypeString(ta.AssertedType, nil)] = ta
		}
	})
	for _, t := range []string{"int", "float64", "*math/big.Int"} {
		if seen[t] == nil {
			msgs = append(msgs, "a key of type "+t+" is not accepted (gojq indexes a plain array with int, float64 and *big.Int keys)")
		}
	}
	for _, rc := range fw.ReturnCases(f, 1) {
		isNum := false
		for t, ta := range seen {
			ta := ta
			_ = t
			if !fw.CaseReachable(f, rc, func(cd fw.Cond) bool {
				ex, ok := cd.Val.(*ssa.Extract)
				return ok && ex.Tuple == ssa.Value(ta) && ex.Index == 1 && cd.True
			}) {
				isNum = true // every way to this return passes the successful assertion of one number type
			}
		}
		switch {
		case isConstBool(rc.Val, true):
			if !isNum {
				msgs = append(msgs, "answers ok=true for a key that is no number")
			}
		case isConstBool(rc.Val, false):
			if isNum {
				msgs = append(msgs, "answers ok=false for a number key")
			}
		default:
			msgs = append(msgs, "ok result is not a constant per arm")
		}
	}
	if ta := seen["int"]; ta != nil {
		okInt := false
		for _, rc := range fw.ReturnCases(f, 0) {
			if ex, ok := rc.Val.(*ssa.Extract); ok && ex.Tuple == ssa.Value(ta) && ex.Index == 0 {
				okInt = true
			}
		}
		if !okInt {
			msgs = append(msgs, "the int arm does not return the key itself")
		}
	}
	ru.Check(len(msgs) == 0, key, c.pos(f), "int, float64 and *big.Int keys are indexes, anything else is not", strings.Join(uniq(msgs), "; "))
}
