package rules

// Positive controls of C05: seeded edits (applied in memory) that must make exactly the named rule fire.
func init() {
	add := func(id, rule, file, old, new, key string) {
		AddControl(Control{ID: id, Prop: "C05", Rule: rule, File: file, Old: old, New: new, ExpectKey: key})
	}
	const idec = "pkg/interp/decode.go"
	const ibin = "pkg/interp/binary.go"
	const iint = "pkg/interp/interp.go"
	const ddec = "pkg/decode/decode.go"

	// C05.prov
	add("c05-prov-range", "C05.prov", idec,
		"r: dvb.dv.InnerRange(), unit: 8}", "r: dvb.dv.Range, unit: 8}", "ToBinary:ok-return")
	add("c05-prov-unit", "C05.prov", idec,
		"r: dvb.dv.InnerRange(), unit: 8}", "r: dvb.dv.InnerRange(), unit: 1}", "ToBinary:ok-return")
	add("c05-prov-reader", "C05.prov", idec,
		"Binary{br: dvb.dv.RootReader, r: dvb.dv.InnerRange()", "Binary{br: dvb.dv.Root().RootReader, r: dvb.dv.InnerRange()", "ToBinary:ok-return")
	add("c05-prov-synthetic", "C05.prov", idec,
		"if s, ok := dvb.dv.V.(scalar.Scalarable); ok && s.ScalarFlags().IsSynthetic() {", "if s, ok := dvb.dv.V.(scalar.Scalarable); ok && !s.ScalarFlags().IsSynthetic() {", "ToBinary:synthetic")
	add("c05-prov-innerrange", "C05.prov", "pkg/decode/value.go",
		"return ranges.Range{Start: 0, Len: v.Range.Len}", "return ranges.Range{Start: v.Range.Start, Len: v.Range.Len}", "InnerRange:root")
	add("c05-prov-innerrange-swap", "C05.prov", "pkg/decode/value.go",
		"func (v *Value) InnerRange() ranges.Range {\n\tif v.IsRoot &&", "func (v *Value) InnerRange() ranges.Range {\n\tif !v.IsRoot &&", "InnerRange:")
	add("c05-prov-innerrange-parent", "C05.prov", "pkg/decode/value.go",
		"func (v *Value) InnerRange() ranges.Range {\n\tif v.IsRoot && v.Parent != nil {", "func (v *Value) InnerRange() ranges.Range {\n\tif v.IsRoot && v.Parent == nil {", "InnerRange:")
	add("c05-prov-innerrange-or", "C05.prov", "pkg/decode/value.go",
		"func (v *Value) InnerRange() ranges.Range {\n\tif v.IsRoot && v.Parent != nil {", "func (v *Value) InnerRange() ranges.Range {\n\tif v.IsRoot || v.Parent != nil {", "InnerRange:non-root")
	add("c05-prov-key-bits-unit", "C05.prov", idec,
		"\t\t\tr:    dv.InnerRange(),\n\t\t\tunit: 1,", "\t\t\tr:    dv.InnerRange(),\n\t\t\tunit: 8,", "value-key:_bits:unit")
	add("c05-prov-key-bytes-synthetic", "C05.prov", idec,
		"case \"_bytes\":\n\t\tif s, ok := dv.V.(scalar.Scalarable); ok && s.ScalarFlags().IsSynthetic() {\n\t\t\treturn nil\n\t\t}\n", "case \"_bytes\":\n", "value-key:_bytes:synthetic")
	add("c05-prov-key-bytes-range", "C05.prov", idec,
		"\t\t\tr:    dv.InnerRange(),\n\t\t\tunit: 8,", "\t\t\tr:    dv.Range,\n\t\t\tunit: 8,", "binary-of-value:")
	add("c05-prov-openfile", "C05.prov", ibin,
		"return NewBinaryFromBitReader(of.br, 8, 0)", "return NewBinaryFromBitReader(of.br, 8, 8)", "openFile.ToBinary")
	add("c05-prov-decode-range", "C05.prov", idec,
		"\t\t\tRange:       bv.r,\n", "", "_decode:options")

	// C05.range
	add("c05-range-stop", "C05.range", ibin,
		"return bitiox.Range(bv.br, bv.r.Start, bv.r.Len)", "return bitiox.Range(bv.br, bv.r.Start, bv.r.Stop())", "section:pkg/interp.toBitReaderEx")
	add("c05-range-mixed", "C05.range", ibin,
		"br, err := bitiox.Range(b.br, r.Start, r.Len)", "br, err := bitiox.Range(b.br, b.r.Start, r.Len)", "toBytesBuffer")
	add("c05-range-tostring", "C05.range", ibin,
		"func (b Binary) JQValueToGoJQ() any {\n\tbuf, err := b.toBytesBuffer(b.r)", "func (b Binary) JQValueToGoJQ() any {\n\tbuf, err := b.toBytesBuffer(ranges.Range{Start: 0, Len: b.r.Len})", "whole:")

	// C05.rootbase
	add("c05-rootbase-rebase", "C05.rootbase", ddec,
		"v.Range.Start += decodeRange.Start", "v.Range.Start += decodeRange.Len", "decode:walk-rebase")
	add("c05-rootbase-reader", "C05.rootbase", ddec,
		"v.Range.Start += decodeRange.Start\n\t\t\tv.RootReader = br", "v.Range.Start += decodeRange.Start\n\t\t\tv.RootReader = cBR", "decode:walk-rootreader")
	add("c05-rootbase-rootrange", "C05.rootbase", ddec,
		"d.Value.Range = ranges.Range{Start: decodeRange.Start, Len: minMaxRange.Len}", "d.Value.Range = ranges.Range{Start: 0, Len: minMaxRange.Len}", "decode:root-range")
	add("c05-rootbase-rawroot", "C05.rootbase", ddec,
		"v.RootReader = br\n\tv.IsRoot = true", "v.RootReader = d.bitBuf\n\tv.IsRoot = true", "nested-root:(*pkg/decode.D).FieldRootBitBuf")
	add("c05-rootbase-nested-reader", "C05.rootbase", ddec,
		"decode(d.Ctx, br, group, Options{", "decode(d.Ctx, d.bitBuf, group, Options{", "decode-call-reader")
	add("c05-rootbase-fielddecoder", "C05.rootbase", ddec,
		"Range:      ranges.Range{Start: d.Pos(), Len: 0},\n\t\t\tRootReader: bitBuf,", "Range:      ranges.Range{Start: d.Pos(), Len: 0},\n\t\t\tRootReader: d.bitBuf,", "fieldDecoder")
	add("c05-rootbase-gap-reader", "C05.rootbase", ddec,
		"RootReader: d.bitBuf,\n\t\t\tRange:      gap,", "RootReader: br,\n\t\t\tRange:      gap,", "rootreader-store:(*pkg/decode.D).FillGaps")

	add("c05-rootbase-fillgaps", "C05.rootbase", ddec,
		"d.FillGaps(ranges.Range{Start: 0, Len: decodeRange.Len}, \"gap\")", "d.FillGaps(ranges.Range{Start: 0, Len: decodeRange.Len - 8}, \"gap\")", "decode:fillgaps-whole")
	add("c05-rootbase-nested-range", "C05.rootbase", ddec,
		"\t\tFillGaps:    true,\n\t\tIsRoot:      true,\n\t\tInArg:       inArg,", "\t\tFillGaps:    true,\n\t\tIsRoot:      true,\n\t\tRange:       ranges.Range{Start: 8, Len: 8},\n\t\tInArg:       inArg,", "decode-call:(*pkg/decode.D).TryFieldFormatBitBuf")

	add("c05-rootbase-walk-conditional", "C05.rootbase", ddec,
		"\t\t\tv.RootReader = br\n\t\t\treturn nil", "\t\t\tif v.RootReader == nil {\n\t\t\t\tv.RootReader = br\n\t\t\t}\n\t\t\treturn nil", "decode:walk-rootreader")
	add("c05-rootbase-addchild-parent", "C05.rootbase", ddec,
		"func (d *D) AddChild(v *Value) {\n\tv.Parent = d.Value\n", "func (d *D) AddChild(v *Value) {\n\tif !v.IsRoot {\n\t\tv.Parent = d.Value\n\t}\n", "AddChild:parent")
	add("c05-rootbase-rawroot-len", "C05.rootbase", ddec,
		"v.Range = ranges.Range{Start: d.Pos(), Len: brLen}", "v.Range = ranges.Range{Start: d.Pos(), Len: brLen - d.Pos()}", "nested-root:(*pkg/decode.D).FieldRootBitBuf")
	add("c05-rootbase-result-len", "C05.rootbase", ddec,
		"\tdv.Range.Start = d.Pos()\n\n\td.AddChild(dv)\n\n\treturn dv, v, err\n}\n\nfunc (d *D) FieldFormatBitBuf", "\tdv.Range = ranges.Range{Start: d.Pos(), Len: d.BitsLeft()}\n\n\td.AddChild(dv)\n\n\treturn dv, v, err\n}\n\nfunc (d *D) FieldFormatBitBuf", "decode-result:(*pkg/decode.D).TryFieldFormatBitBuf")

	add("c05-rootbase-fieldvalue-noreader", "C05.rootbase", ddec,
		"\tv.Name = name\n\tv.RootReader = d.bitBuf\n\tv.Range = ranges.Range{Start: start, Len: stop - start}", "\tv.Name = name\n\tv.Range = ranges.Range{Start: start, Len: stop - start}", "linked-has-reader:(*pkg/decode.D).TryFieldValue")
	add("c05-rootbase-rangefn-noreader", "C05.rootbase", ddec,
		"\tv.RootReader = d.bitBuf\n\tv.Range = ranges.Range{Start: firstBit, Len: nBits}", "\tv.Range = ranges.Range{Start: firstBit, Len: nBits}", "linked-has-reader:(*pkg/decode.D).FieldRangeFn")
	add("c05-rootbase-gap-noreader", "C05.rootbase", ddec,
		"RootReader: d.bitBuf,\n\t\t\tRange:      gap,", "Range:      gap,", "linked-has-reader:(*pkg/decode.D).FillGaps")
	add("c05-rootbase-fieldvalue-reader-conditional", "C05.rootbase", ddec,
		"\tv.Name = name\n\tv.RootReader = d.bitBuf\n\tv.Range = ranges.Range{Start: start, Len: stop - start}", "\tv.Name = name\n\tif d.Value.IsRoot {\n\t\tv.RootReader = d.bitBuf\n\t}\n\tv.Range = ranges.Range{Start: start, Len: stop - start}", "linked-has-reader:(*pkg/decode.D).TryFieldValue")

	// C05.span (borrowed C03.post / C03.sub / C03.minmax obligations)
	add("c05-span-nested-not-root", "C05.span", ddec,
		"\tc := &Compound{IsArray: false}\n\tcd := d.fieldDecoder(name, br, c)\n\tcd.Value.IsRoot = true\n", "\tc := &Compound{IsArray: false}\n\tcd := d.fieldDecoder(name, br, c)\n", "root-before-fn")
	add("c05-span-root-child-folded", "C05.span", "pkg/decode/value.go",
		"\t\t\t\tif f.IsRoot {\n\t\t\t\t\tcontinue\n\t\t\t\t}\n", "", "postProcess:")
	add("c05-span-minmax", "C05.span", "pkg/ranges/ranges.go",
		"func (r Range) Stop() int64 { return r.Start + r.Len }", "func (r Range) Stop() int64 { return r.Start + r.Len - 1 }", "Stop")

	// C05.pad
	add("c05-pad-padunits-negative", "C05.pad", ibin,
		"if opts.Unit <= 0 || opts.PadToUnits < 0 {", "if opts.Unit <= 0 {", "_toBits:padunits-nonneg")
	add("c05-pad-formula", "C05.pad", ibin,
		"bv.pad = (pad - bv.r.Len%pad) % pad", "bv.pad = (pad - bv.r.Start%pad) % pad", "_toBits:pad-formula")
	add("c05-pad-formula-nomod", "C05.pad", ibin,
		"bv.pad = (pad - bv.r.Len%pad) % pad", "bv.pad = pad - bv.r.Len%pad", "_toBits:pad-formula")
	add("c05-pad-unit", "C05.pad", ibin,
		"if pad == 0 {\n\t\tpad = int64(opts.Unit)", "if pad != 0 {\n\t\tpad = int64(opts.Unit)", "_toBits:pad-unit")
	add("c05-pad-prepend", "C05.pad", ibin,
		"bitio.NewMultiReader(bitiox.NewZeroAtSeeker(b.pad), br)", "bitio.NewMultiReader(br, bitiox.NewZeroAtSeeker(b.pad))", "toReader:prepend")
	add("c05-pad-repack", "C05.pad", ibin,
		"bb, err := NewBinaryFromBitReader(br, bv.unit, 0)", "bb, err := NewBinaryFromBitReader(br, bv.unit, bv.pad)", "_toBits:repack")
	add("c05-pad-nopad", "C05.pad", ibin,
		"if b.pad == 0 {\n\t\treturn br, nil", "if b.pad >= 0 {\n\t\treturn br, nil", "toReader:")
	add("c05-pad-zerocount", "C05.pad", "internal/bitiox/zeroreadatseeker.go",
		"rBits := min(nBits, lBits)", "rBits := max(nBits, lBits)", "ZeroReader:count")
	add("c05-pad-newbinary", "C05.pad", ibin,
		"r:    ranges.Range{Start: 0, Len: l},\n\t\tunit: unit,\n\t\tpad:  pad,", "r:    ranges.Range{Start: 0, Len: l},\n\t\tunit: unit,\n\t\tpad:  int64(unit),", "NewBinaryFromBitReader")

	// C05.bitiox
	add("c05-bitiox-section", "C05.bitiox", "internal/bitiox/bitiox.go",
		"return bitio.NewSectionReader(br, firstBitOffset, nBits), nil", "return bitio.NewSectionReader(br, firstBitOffset, l-firstBitOffset), nil", "Range:section")
	add("c05-bitiox-bounds", "C05.bitiox", "internal/bitiox/bitiox.go",
		"if firstBitOffset+nBits > l {", "if firstBitOffset > l {", "Range:bounds")
	add("c05-bitiox-len", "C05.bitiox", "internal/bitiox/bitiox.go",
		"return bEnd, nil", "return bEnd - bPos, nil", "Len:end")

	// C05.raw
	add("c05-raw-fallthrough", "C05.raw", ibin,
		"\t\t\treturn err\n\t\t}\n\n\t\treturn nil\n\t}\n\n\treturn hexdump(w, b, opts)", "\t\t\treturn err\n\t\t}\n\t}\n\n\treturn hexdump(w, b, opts)", "Display:")
	add("c05-raw-nopad", "C05.raw", ibin,
		"if opts.RawOutput {\n\t\tbr, err := b.toReader()", "if opts.RawOutput {\n\t\tbr, err := bitiox.Range(b.br, b.r.Start, b.r.Len)", "Display:raw-copy")
	add("c05-raw-inverted", "C05.raw", ibin,
		"if opts.RawOutput {\n\t\tbr, err := b.toReader()", "if !opts.RawOutput {\n\t\tbr, err := b.toReader()", "Display:")

	add("c05-raw-error-swallowed", "C05.raw", ibin,
		"\t\tif _, err := bitiox.CopyBits(w, br); err != nil {\n\t\t\treturn err\n\t\t}\n\n\t\treturn nil", "\t\t_, _ = bitiox.CopyBits(w, br)\n\n\t\treturn nil", "Display:raw-returns")

	// C05.cover (borrowed C04.path obligations)
	add("c05-cover-root-not-filled", "C05.cover", ddec,
		"\t\tif opts.FillGaps {\n\t\t\td.FillGaps(", "\t\tif opts.FillGaps && !opts.IsRoot {\n\t\t\td.FillGaps(", "filled")

	// C05.padreader (borrowed C01 obligations on the readers Binary.toReader composes)
	const zrs = "internal/bitiox/zeroreadatseeker.go"
	add("c05-padreader-fill-partial-byte", "C05.padreader", zrs,
		"rBytes := bitio.BitsByteCount(rBits)", "rBytes := rBits / 8", "ZeroReadAtSeeker.ReadBitsAt:fill")
	add("c05-padreader-fill-from-one", "C05.padreader", zrs,
		"for i := int64(0); i < rBytes; i++ {\n\t\tp[i] = 0", "for i := int64(1); i < rBytes; i++ {\n\t\tp[i] = 0", "ZeroReadAtSeeker.ReadBitsAt:fill")
	add("c05-padreader-zero-count", "C05.padreader", zrs,
		"rBits := min(nBits, lBits)", "rBits := min(nBits, lBits+8)", "ZeroReadAtSeeker.ReadBitsAt:count")
	add("c05-padreader-zero-clone", "C05.padreader", zrs,
		"return NewZeroAtSeeker(z.nBits), nil", "return NewZeroAtSeeker(z.nBits - z.pos), nil", "Zero")
	add("c05-padreader-multi-rebase", "C05.padreader", "pkg/bitio/multireader.go",
		"\t\tprevAtEnd = end\n", "\t\tprevAtEnd += end\n", "ReadBitsAt:rebase")
	add("c05-padreader-multi-ends", "C05.padreader", "pkg/bitio/multireader.go",
		"esSum += e", "esSum = e", "New:ends-sum")
	add("c05-padreader-bytecount", "C05.padreader", "pkg/bitio/bitio.go",
		"func BitsByteCount(nBits int64) int64 {\n\tn := nBits / 8\n\tif nBits%8 != 0 {", "func BitsByteCount(nBits int64) int64 {\n\tn := nBits / 8\n\tif nBits%8 == 0 {", "")

	// C05.fmt
	add("c05-fmt-md5-shared", "C05.fmt", iint,
		"return func(br bitio.ReaderAtSeeker) (any, error) {\n\t\t\td := md5.New()", "d := md5.New()\n\t\treturn func(br bitio.ReaderAtSeeker) (any, error) {", "render:md5:sink")
	add("c05-fmt-base64-close", "C05.fmt", iint,
		"if _, err := bitiox.CopyBits(e, br); err != nil {\n\t\t\t\treturn \"\", err\n\t\t\t}\n\t\t\te.Close()", "if _, err := bitiox.CopyBits(e, br); err != nil {\n\t\t\t\treturn \"\", err\n\t\t\t}", "render:base64:close")
	add("c05-fmt-hex-codec", "C05.fmt", iint,
		"e := hex.NewEncoder(b)", "e := base64.NewEncoder(base64.StdEncoding, b)", "render:hex:sink")
	add("c05-fmt-label", "C05.fmt", iint,
		"case \"byte_array\":", "case \"bytes\":", "labels:doc")
	add("c05-fmt-string-prefix", "C05.fmt", iint,
		"if _, err := bitiox.CopyBits(b, br); err != nil {\n\t\t\t\treturn \"\", err\n\t\t\t}\n\t\t\treturn b.String(), nil", "if _, err := bitiox.CopyBits(b, bitio.NewLimitReader(br, 64)); err != nil {\n\t\t\t\treturn \"\", err\n\t\t\t}\n\t\t\treturn b.String(), nil", "render:string:source")
	add("c05-fmt-md5-error", "C05.fmt", iint,
		"if _, err := bitiox.CopyBits(d, br); err != nil {\n\t\t\t\treturn \"\", err\n\t\t\t}", "_, _ = bitiox.CopyBits(d, br)", "render:md5:error")
	add("c05-fmt-snippet-len", "C05.fmt", iint,
		"brLen, err := bitiox.Len(br)", "brLen, err := bitiox.Len(bitio.NewBitReader(b.Bytes(), -1))", "render:snippet:result")
	add("c05-fmt-default", "C05.fmt", iint,
		"return nil, fmt.Errorf(\"invalid bits format %q\", opts.BitsFormat)", "return func(br bitio.ReaderAtSeeker) (any, error) { return \"\", nil }, nil", "default")
	add("c05-fmt-chain-binary", "C05.fmt", ibin,
		"func (b Binary) JQValueToGoJQEx(optsFn func() (*Options, error)) any {\n\tbr, err := b.toReader()", "func (b Binary) JQValueToGoJQEx(optsFn func() (*Options, error)) any {\n\tbr, err := bitiox.Range(b.br, b.r.Start, b.r.Len)", "chain:Binary")

	add("c05-fmt-chain-synthetic-inverted", "C05.fmt", idec,
		"ok && !s.ScalarFlags().IsSynthetic() {\n\t\tbv, err := v.ToBinary()", "ok && s.ScalarFlags().IsSynthetic() {\n\t\tbv, err := v.ToBinary()", "chain:decodeValue")
	add("c05-fmt-snippet-base", "C05.fmt", iint,
		"StringByteBits(opts.Sizebase)", "StringByteBits(opts.Addrbase)", "render:snippet:result")
	add("c05-fmt-bytearray-signed", "C05.fmt", iint,
		"v = append(v, int(bv))", "v = append(v, int(int8(bv)))", "render:byte_array:result")

	// C05.jq
	add("c05-jq-cli-raw-default", "C05.jq", "pkg/interp/interp.jq",
		"def _display_default_opts:\n  options({depth: 1});", "def _display_default_opts:\n  options({depth: 1, raw_output: false});", "def:_cli_display/0:raw_output-default")
	add("c05-jq-display-extra-stage", "C05.jq", "pkg/interp/interp.jq",
		"| if $opts.value_output then tovalue end", "| if $opts.value_output then tovalue end\n  | if _exttype == \"binary\" then tobytes end", "display/2:stages")
	add("c05-jq-display-condition", "C05.jq", "pkg/interp/interp.jq",
		"  | if _can_display then", "  | if _can_display and ($opts.raw_string | not) then", "display/2:stages")
	add("c05-jq-tobytes-unit", "C05.jq", "pkg/interp/binary.jq",
		"def tobytes: _tobits({unit: 8,", "def tobytes: _tobits({unit: 1,", "def:tobytes/0")
	add("c05-jq-tobits-keep", "C05.jq", "pkg/interp/binary.jq",
		"def tobits: _tobits({unit: 1, keep_range: false,", "def tobits: _tobits({unit: 1, keep_range: true,", "def:tobits/0")
	add("c05-jq-pad-arg", "C05.jq", "pkg/interp/binary.jq",
		"def tobytes($pad): _tobits({unit: 8, keep_range: false, pad_to_units: $pad});", "def tobytes($pad): _tobits({unit: 8, keep_range: false, pad_to_units: 0});", "def:tobytes/1")
	add("c05-jq-raw-explicit", "C05.jq", "pkg/interp/interp.jq",
		"| if $explicit_call then .raw_output = false end", "| if $explicit_call | not then .raw_output = false end", "display/2:raw_output")
	add("c05-jq-implicit", "C05.jq", "pkg/interp/interp.jq",
		"def display_implicit($opts): display($opts; false);", "def display_implicit($opts): display($opts; true);", "def:display_implicit/1")
}
