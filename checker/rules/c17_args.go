package rules

import (
	"fmt"
	"regexp"
	"sort"
	"strconv"
	"strings"

	"github.com/wader/gojq"

	"fqverif/fw"
)

// ---------------------------------------------------------------------------
// decision paths

// c17Cond is one branch decision on the way to a node: the condition (canonical text) and its outcome.
type c17Cond struct {
	Text string
	True bool
}

type c17Path []c17Cond

func (p c17Path) has(text string, val bool) bool {
	for _, c := range p {
		if c.Text == text && c.True == val {
			return true
		}
	}
	return false
}

// hasSet matches a condition that is an `or` of the given operands in any order.
func (p c17Path) hasSet(ops []string, val bool) bool {
	want := append([]string{}, ops...)
	sort.Strings(want)
	for _, c := range p {
		if c.True != val {
			continue
		}
		got := strings.Split(c.Text, " or ")
		sort.Strings(got)
		if strings.Join(got, "|") == strings.Join(want, "|") {
			return true
		}
	}
	return false
}

func (p c17Path) String() string {
	var s []string
	for _, c := range p {
		if c.True {
			s = append(s, c.Text)
		} else {
			s = append(s, "not("+c.Text+")")
		}
	}
	return strings.Join(s, " & ")
}

// c17WalkPaths visits every call under q (nested defs not entered) with the if-decisions leading to it.
func c17WalkPaths(q *gojq.Query, path c17Path, visit func(f *gojq.Func, path c17Path)) {
	if q == nil {
		return
	}
	if len(q.FuncDefs) > 0 {
		// local definitions are analysed on their own
		cp := *q
		cp.FuncDefs = nil
		q = &cp
	}
	if i := c17IsIf(q); i != nil {
		c17WalkPaths(i.Cond, path, visit)
		cur := append(c17Path{}, path...)
		conds := []*gojq.Query{i.Cond}
		thens := []*gojq.Query{i.Then}
		for _, e := range i.Elif {
			conds = append(conds, e.Cond)
			thens = append(thens, e.Then)
		}
		for k := range conds {
			if k > 0 {
				c17WalkPaths(conds[k], cur, visit)
			}
			// conditions are recorded in a normal form: `x | not`, `x == false`, `a >= n`, `a != b`
			// become the negation of `x`, `a < n`, `a == b`
			txt, pol := c17NormCond(conds[k])
			arm := append(append(c17Path{}, cur...), c17Cond{txt, pol})
			c17WalkPaths(thens[k], arm, visit)
			cur = append(cur, c17Cond{txt, !pol})
		}
		c17WalkPaths(i.Else, cur, visit)
		return
	}
	if q.Left == nil && q.Term != nil && q.Term.Type == gojq.TermTypeFunc && q.Term.Func != nil {
		visit(q.Term.Func, path)
	}
	for _, c := range c17ChildQueries(q) {
		c17WalkPaths(c, path, visit)
	}
}

// ---------------------------------------------------------------------------
// C17.handlers

func c17Handlers(m *c17Model) {
	ru := m.r.Rule("C17.handlers", "binding of failure handlers to exit codes: argument/option/file-argument failures halt with 2, compile errors with 3, evaluation errors with 5; no argument-time try swallows its failure; eval dispatches compile errors and other errors to the right callback; the expr error callback records, prints and continues; the query rewrite puts the per-output try inside the iteration over inputs; error printers end at stderr; the compile error callback ends by halting with 3; the value the expr error callback hands to _error_str (which joins) is provably a scalar whatever the program raised, the callback cannot raise on a field access and records ahead of printing; every fallible argument-time step (open, tobytes, decode, fromjson) sits inside a try", 48)
	mainDef, fin := m.mainFinally(ru)

	// (a) every halting call, by the definition it sits in
	want := map[string]string{"_main": "2", "_opt_eval": "2", "_cli_eval_on_compile_error": "3", "_cli_eval_on_error": "5", "_repl_on_error": "5"}
	scope := map[string]bool{c17Init: true, c17Options: true, c17Args: true, c17Internal: true, c17Eval: true}
	cnt := map[string]int{}
	for _, d := range m.jq.Defs {
		top := d
		for top.Parent != nil {
			top = top.Parent
		}
		for _, name := range []string{"halt_error", "_fatal_error"} {
			for _, c := range c17Calls(d.Def.Body, name, 1, true) {
				if fin != nil && c17ContainsNode(fin.Args[1], c) {
					continue // C17.prec
				}
				if top.Def.Name == "_fatal_error" {
					continue // checked below
				}
				w, ok := want[top.Def.Name]
				base := "halt:" + c17DefPath(d) + ":" + name
				cnt[base]++
				key := fmt.Sprintf("%s#%d", base, cnt[base])
				if !ok {
					if scope[d.File.Rel] {
						ru.Undecided(key, c17Pos(d), "halting call in a definition with no exit-code class assigned: "+name+"("+c17S(c.Args[0])+")")
					}
					continue
				}
				code, ok := m.codeOf(c.Args[0])
				if !ok {
					ru.Undecided(key, c17Pos(d), "exit code not resolvable: "+c17S(c.Args[0]))
					continue
				}
				ru.Check(code == w, key, c17Pos(d), name+"("+code+")", fmt.Sprintf("%s halts with %s, failures in %s must exit with %s", c17DefPath(d), code, top.Def.Name, w))
			}
		}
	}
	// _fatal_error($code) = "error: ..." | halt_error($code)
	if d := m.def(ru, "_fatal_error", 1); d != nil {
		st := c17Steps(d.Def.Body)
		ok := false
		if len(st) == 2 {
			h := fw.JQIsCall(st[1].Q, "halt_error", 1)
			ok = h != nil && fw.JQIsCall(h.Args[0], d.Def.Args[0], 0) != nil && c17Unparen(st[0].Q).Term != nil && c17Unparen(st[0].Q).Term.Type == gojq.TermTypeString
		}
		ru.Check(ok, "_fatal_error", c17Pos(d), "message | halt_error($code)", "_fatal_error does not halt with its own code argument: "+c17S(d.Def.Body))
	}

	// (b) argument-time tries: each has a catch whose last step halts through _fatal_error
	tryHalts := func(d *fw.JQDef, floor int) {
		if d == nil {
			return
		}
		n := 0
		for _, t := range c17Tries(d.Def.Body) {
			if fin != nil && (c17ContainsNode(fin.Args[0], t) || c17ContainsNode(fin.Args[1], t)) {
				continue
			}
			n++
			what := "try"
			switch {
			case c17HasCall(t.Body, "_args_parse", 2):
				what = "args-parse"
			case c17HasCall(t.Body, "fromjson", 0):
				what = "fromjson"
			case c17HasCall(t.Body, "decode", 0):
				what = "open-decode"
			case c17HasCall(t.Body, "open", 0):
				what = "open"
			}
			base := "try:" + c17DefPath(d) + ":" + what
			cnt[base]++
			key := fmt.Sprintf("%s#%d", base, cnt[base])
			if t.Catch == nil {
				ru.Fail(key, c17Pos(d), "try without catch swallows the failure: fq continues with a missing value and exits 0")
				continue
			}
			hs := c17Steps(t.Catch)
			last := hs[len(hs)-1]
			ru.Check(last.Bind == nil && fw.JQIsCall(last.Q, "_fatal_error", 1) != nil, key, c17Pos(d), "catch ends in _fatal_error",
				"the catch of this argument-time try does not end by halting (_fatal_error): "+c17S(t.Catch))
		}
		if n < floor {
			ru.Undecided("try:"+c17DefPath(d)+":count", c17Pos(d), fmt.Sprintf("%d protected argument-time steps found, at least %d expected", n, floor))
		}
	}
	tryHalts(mainDef, 2)
	tryHalts(m.def(ru, "_opt_eval", 1), 4)

	// args parse call: skips argv[0] and uses the cli option table
	if mainDef != nil {
		calls := c17Calls(mainDef.Def.Body, "_args_parse", 2, true)
		if len(calls) != 1 {
			ru.Undecided("main:args-parse", c17Pos(mainDef), "_main does not call _args_parse/2 exactly once")
		} else {
			argsVar := ""
			for _, s := range c17Steps(mainDef.Def.Body) {
				if len(s.Bind) == 1 {
					for _, po := range s.Bind[0].Object {
						if po.Key == "$args" || (po.Key == "args" && po.Val != nil && po.Val.Name == "") {
							if po.Key == "$args" {
								argsVar = "$args"
							}
						}
					}
				}
			}
			ru.Check(argsVar != "" && c17S(calls[0].Args[0]) == argsVar+"[1:]" && fw.JQIsCall(calls[0].Args[1], "_opt_cli_opts", 0) != nil, "main:args-parse", c17Pos(mainDef),
				"_args_parse($args[1:]; _opt_cli_opts)", "argument parsing does not run on argv without the program name with the cli option table: _args_parse("+c17S(calls[0].Args[0])+"; "+c17S(calls[0].Args[1])+")")
		}
	}

	// (c) _cli_eval wires the callbacks; eval dispatches
	if d := m.def(ru, "_cli_eval", 2); d != nil {
		ev := fw.JQIsCall(d.Def.Body, "eval", 4)
		if ev == nil {
			ru.Undecided("_cli_eval:eval", c17Pos(d), "_cli_eval is not a call of eval/4")
		} else {
			ru.Check(fw.JQIsCall(ev.Args[2], "_cli_eval_on_error", 0) != nil, "_cli_eval:on_error", c17Pos(d), "on_error = _cli_eval_on_error", "eval's on_error callback is "+c17S(ev.Args[2]))
			ru.Check(fw.JQIsCall(ev.Args[3], "_cli_eval_on_compile_error", 0) != nil, "_cli_eval:on_compile_error", c17Pos(d), "on_compile_error = _cli_eval_on_compile_error", "eval's on_compile_error callback is "+c17S(ev.Args[3]))
			cq := ""
			fw.WalkJQ(ev.Args[1], func(x any) bool {
				if kv, ok := x.(*gojq.ObjectKeyVal); ok && kv.Key == "catch_query" {
					if f := fw.JQIsCall(kv.Val, "_query_func", 1); f != nil {
						cq, _ = fw.JQConstString(f.Args[0])
					}
				}
				return true
			}, false)
			ru.Check(cq == "_cli_eval_on_expr_error" && len(m.jq.TopDefs(cq, 0)) == 1, "_cli_eval:catch_query", c17Pos(d), "catch_query = _cli_eval_on_expr_error", "the per-output catch query is "+strconv.Quote(cq)+", not the recording handler _cli_eval_on_expr_error")
		}
	}
	if d := m.def(ru, "eval", 4); d != nil {
		onErr, onComp := d.Def.Args[2], d.Def.Args[3]
		var t *gojq.Try
		for _, s := range c17Steps(d.Def.Body) {
			if x := c17IsTry(s.Q); x != nil {
				t = x
			}
		}
		ok := false
		var msg string
		if t != nil && t.Catch != nil && c17HasCall(t.Body, "_eval", 2) {
			if i := c17IsIf(t.Catch); i != nil && len(i.Elif) == 0 && i.Else != nil && fw.JQIsCall(i.Cond, "_eval_is_compile_error", 0) != nil {
				lastCall := func(q *gojq.Query) string {
					st := c17Steps(q)
					if f := fw.JQIsCall(st[len(st)-1].Q, "", 0); f != nil {
						return f.Name
					}
					return ""
				}
				wraps := func(q *gojq.Query) bool {
					w := false
					fw.WalkJQ(q, func(x any) bool {
						if kv, ok := x.(*gojq.ObjectKeyVal); ok && kv.Key == "error" && c17IsIdentity(kv.Val) {
							w = true
						}
						return true
					}, false)
					return w
				}
				ok = lastCall(i.Then) == onComp && lastCall(i.Else) == onErr && wraps(i.Then) && wraps(i.Else)
				msg = "compile arm ends in " + lastCall(i.Then) + ", other arm in " + lastCall(i.Else)
			}
		}
		ru.Check(ok, "eval:dispatch", c17Pos(d), "compile errors -> on_compile_error, others -> on_error, each as {error: .}", "eval does not hand compile errors to on_compile_error and other errors to on_error as {error: ...}: "+msg)
	}
	if d := m.def(ru, "_eval_is_compile_error", 0); d != nil {
		ru.Check(c17S(d.Def.Body) == "_is_object and .error != null and .what != null", "_eval_is_compile_error", c17Pos(d), "object with error and what",
			"classification of compile errors changed: "+c17S(d.Def.Body))
	}
	// (d) expr error callback: records, prints, continues
	if d := m.def(ru, "_cli_eval_on_expr_error", 0); d != nil {
		rec := len(c17Calls(d.Def.Body, "_cli_last_expr_error", 1, false)) > 0
		ru.Check(rec, "on_expr_error:records", c17Pos(d), "records into _cli_last_expr_error", "a runtime error of the program is not recorded: exit status 5 is never produced")
		ru.Check(c17HasCall(d.Def.Body, "printerrln", 0), "on_expr_error:prints", c17Pos(d), "prints to stderr", "runtime errors are no longer printed to stderr")
		abort := false
		for _, n := range []string{"halt_error", "_fatal_error", "error"} {
			if len(c17Calls(d.Def.Body, n, 1, false)) > 0 || (n == "error" && len(c17Calls(d.Def.Body, n, 0, false)) > 0) {
				abort = true
			}
		}
		ru.Check(!abort, "on_expr_error:continues", c17Pos(d), "neither halts nor re-raises", "the runtime error handler aborts the run: later inputs are not processed")
	}
	// (f) query rewrite: the per-output try wraps the program only; the input query is piped in
	// front of it (so a runtime error on one input does not end the iteration over inputs) and the
	// output query behind it
	if d := m.def(ru, "_eval_query_rewrite", 1); d != nil {
		O := d.Def.Args[0]
		var seq []*gojq.Query
		for _, c := range c17Calls(d.Def.Body, "_query_fromtostring", 1, false) {
			for _, st := range c17Steps(c.Args[0]) {
				if st.Bind == nil {
					seq = append(seq, st.Q)
				}
			}
		}
		iTry, iIn, iOut := -1, -1, -1
		tryOK, inOK, outOK := false, false, false
		for i, q := range seq {
			f := c17IsIf(q)
			if f == nil {
				continue
			}
			for _, a := range c17Arms(f) {
				if a.Cond == nil {
					continue
				}
				switch c17S(a.Cond) {
				case O + ".catch_query":
					iTry = i
					if c := fw.JQIsCall(a.Then, "_query_try", 2); c != nil {
						tryOK = c17S(c.Args[1]) == O+".catch_query"
					}
				case O + ".input_query":
					iIn = i
					if c := fw.JQIsCall(a.Then, "_query_pipe", 2); c != nil {
						inOK = c17S(c.Args[0]) == O+".input_query" && c17IsIdentity(c.Args[1])
					}
				case O + ".output_query":
					iOut = i
					if c := fw.JQIsCall(a.Then, "_query_pipe", 2); c != nil {
						outOK = c17S(c.Args[1]) == O+".output_query" && c17IsIdentity(c.Args[0])
					}
				}
			}
		}
		ru.Check(iTry >= 0 && tryOK && iIn > iTry && inOK, "rewrite:try-inside-inputs", c17Pos(d), "inputs | try (program) catch handler",
			"the program is no longer wrapped in its own try before the input query is piped in front: a runtime error on one input ends the whole iteration")
		ru.Check(iOut > iTry && iTry >= 0 && outOK, "rewrite:output-last", c17Pos(d), "... | output query", "the output query is not piped behind the protected program")
	}
	if d := m.def(ru, "_query_try", 2); d != nil {
		body, handler := "", ""
		fw.WalkJQ(d.Def.Body, func(x any) bool {
			if kv, ok := x.(*gojq.ObjectKeyVal); ok {
				switch kv.Key {
				case "body":
					body = c17S(kv.Val)
				case "catch":
					handler = c17S(kv.Val)
				}
			}
			return true
		}, false)
		ru.Check(body == d.Def.Args[0] && handler == d.Def.Args[1], "rewrite:_query_try", c17Pos(d), "try <body> catch <handler>", "_query_try(body; catch) builds try "+body+" catch "+handler)
	}
	if d := m.def(ru, "_query_pipe", 2); d != nil {
		l, r := "", ""
		fw.WalkJQ(d.Def.Body, func(x any) bool {
			if kv, ok := x.(*gojq.ObjectKeyVal); ok {
				switch kv.Key {
				case "left":
					l = c17S(kv.Val)
				case "right":
					r = c17S(kv.Val)
				}
			}
			return true
		}, false)
		ru.Check(l == d.Def.Args[0] && r == d.Def.Args[1], "rewrite:_query_pipe", c17Pos(d), "l | r", "_query_pipe(l; r) builds "+l+" | "+r)
	}
	// (g) stderr / stdout plumbing of the message printers
	for _, w := range []struct{ name, last string }{
		{"printerrln", "printerr"}, {"printerr", "_stderr"}, {"println", "print"}, {"print", "_stdout"},
	} {
		if d := m.def(ru, w.name, 0); d != nil {
			st := c17Steps(d.Def.Body)
			ru.Check(fw.JQIsCall(st[len(st)-1].Q, w.last, 0) != nil, "stdio:"+w.name, c17Pos(d), "ends in "+w.last, w.name+" no longer writes through "+w.last+": "+c17S(d.Def.Body))
		}
	}
	for _, w := range []struct{ name, stream string }{{"_stderr", "stderr"}, {"_stdout", "stdout"}} {
		if d := m.def(ru, w.name, 0); d != nil {
			c := fw.JQIsCall(d.Def.Body, "_stdio", 1)
			got := ""
			if c != nil {
				got, _ = fw.JQConstString(c.Args[0])
			}
			ru.Check(got == w.stream, "stdio:"+w.name, c17Pos(d), "_stdio(\""+w.stream+"\")", w.name+" writes to "+strconv.Quote(got))
		}
	}
	// (e) usage on tty halts with 2 after printing (covered by the halt table); compile callback prints the compile error
	if d := m.def(ru, "_cli_eval_on_error", 0); d != nil {
		i := c17IsIf(d.Def.Body)
		ok := false
		if i != nil && i.Else != nil && len(i.Elif) == 0 {
			_, isHalt := c17HaltOf(i.Then)
			ok = isHalt && c17S(i.Cond) == ".error | _is_context_canceled_error" && fw.JQIsCall(i.Else, "_fatal_error", 1) != nil
		}
		ru.Check(ok, "on_error:shape", c17Pos(d), "cancel -> silent halt, other -> _fatal_error", "_cli_eval_on_error: expected silent halt on context cancel and _fatal_error otherwise: "+c17S(d.Def.Body))
	}
	c17HandlersMore(m, ru)
	c17ArgTimeCoverage(m, ru)
}

// ---------------------------------------------------------------------------
// C17.args

var c17SliceRe = regexp.MustCompile(`^(\$\w+)\[(\d+):\]$`)
var c17FlagEntryRe = regexp.MustCompile(`^\{ key: \., value: \$\w+\.key \}$`)

func c17ArgsParse(m *c17Model) {
	ru := m.r.Rule("C17.args", "_args_parse: --flag=value is split at the FIRST '=' (flag = arg[0:i], value = arg[i+1:]); every recursive step consumes exactly the argv entries it used and is guarded by the matching length test; option kinds select the store operation; unknown flags / missing values raise; `--` ends parsing; _flagmap maps short, long and aliases", 41)
	ap := m.def(ru, "_args_parse", 2)
	if ap == nil {
		return
	}
	pos := c17Pos(ap)
	parse := m.nested(ru, ap, "_parse", 3)
	withArg := m.nested(ru, ap, "_parse_with_arg", 4)
	withoutArg := m.nested(ru, ap, "_parse_without_arg", 2)
	flagmap := m.nested(ru, ap, "_flagmap", 0)
	defaults := m.nested(ru, ap, "_defaults", 0)
	if parse == nil || withArg == nil || withoutArg == nil || flagmap == nil || defaults == nil {
		return
	}
	A, FM, R := parse.Def.Args[0], parse.Def.Args[1], parse.Def.Args[2]
	if !strings.HasPrefix(A, "$") || !strings.HasPrefix(R, "$") {
		ru.Undecided("anchor:_parse:params", pos, "_parse parameters are not value parameters")
		return
	}

	// --- the '=' split
	steps := c17Steps(parse.Def.Body)
	var assignVar, argVar string
	var main *gojq.If
	for _, s := range steps {
		if len(s.Bind) == 1 && s.Bind[0].Name != "" {
			src := c17Unparen(s.Q)
			if assignVar == "" {
				st := c17Steps(src)
				if len(st) == 2 && c17S(st[0].Q) == A+"[0]" {
					if f := fw.JQIsCall(st[1].Q, "", 1); f != nil {
						sep, _ := fw.JQConstString(f.Args[0])
						assignVar = s.Bind[0].Name
						ru.Check(f.Name == "index" && sep == "=", "split:first-eq", pos, assignVar+" = "+A+"[0] | index(\"=\")",
							"the position of the flag/value separator is "+c17S(src)+": it must be the FIRST \"=\" of the argument (index(\"=\")), a value may itself contain \"=\"")
					}
				}
				continue
			}
			if argVar == "" {
				if i := c17IsIf(src); i != nil && i.Else != nil && len(i.Elif) == 0 {
					argVar = s.Bind[0].Name
					ok := c17S(i.Cond) == assignVar && c17S(i.Then) == A+"[0][0:"+assignVar+"]" && c17S(i.Else) == A+"[0]"
					ru.Check(ok, "split:flag", pos, argVar+" = "+A+"[0][0:"+assignVar+"] when there is an '='", "the flag part of --flag=value is not "+A+"[0][0:"+assignVar+"] (else "+A+"[0]): "+c17S(src))
				} else {
					argVar = s.Bind[0].Name
					ru.Fail("split:flag", pos, "the flag part of --flag=value is not computed as `if "+assignVar+" then "+A+"[0][0:"+assignVar+"] else "+A+"[0] end`: "+c17S(src)+" as "+strings.Join(c17PatternNames(s.Bind[0]), ","))
				}
				continue
			}
		} else if len(s.Bind) == 1 && argVar == "" && assignVar != "" {
			// destructuring bind where the flag was expected
			argVar = "?"
			if ns := c17PatternNames(s.Bind[0]); len(ns) > 0 {
				argVar = ns[0]
			}
			ru.Fail("split:flag", pos, "the flag part of --flag=value is not computed as `if "+assignVar+" then "+A+"[0][0:"+assignVar+"] else "+A+"[0] end`: "+c17S(s.Q)+" as "+strings.Join(c17PatternNames(s.Bind[0]), ","))
		}
		if s.Bind == nil {
			main = c17IsIf(s.Q)
		}
	}
	if assignVar == "" || argVar == "" || main == nil {
		ru.Undecided("anchor:_parse:split", pos, "cannot locate the '=' split and the main dispatch of _parse")
		return
	}

	// --- all calls with their decision paths
	type site struct {
		f    *gojq.Func
		path c17Path
	}
	var recs, errs []site
	c17WalkPaths(&gojq.Query{Term: &gojq.Term{Type: gojq.TermTypeIf, If: main}}, nil, func(f *gojq.Func, p c17Path) {
		switch fw.JQFuncKey(f) {
		case "_parse/3", "_parse_with_arg/4", "_parse_without_arg/2":
			recs = append(recs, site{f, append(c17Path{}, p...)})
		case "error/1":
			errs = append(errs, site{f, append(c17Path{}, p...)})
		}
	})
	lenLT2 := "(" + A + " | length) < 2"
	lenGT2 := "(" + A + " | length) > 2"
	flagTest := argVar + ` | test("^--?[^-\\d]")`
	shortTest := argVar + ` | test("^-[^-]")`
	// the variable holding the option description: bound from $opts[<name>]? // null
	OV := ""
	fw.WalkJQ(&gojq.Query{Term: &gojq.Term{Type: gojq.TermTypeIf, If: main}}, func(x any) bool {
		t, ok := x.(*gojq.Term)
		if !ok || len(t.SuffixList) == 0 {
			return true
		}
		bd := t.SuffixList[len(t.SuffixList)-1].Bind
		if bd == nil || len(bd.Patterns) != 1 || bd.Patterns[0].Name == "" {
			return true
		}
		src := *t
		src.SuffixList = t.SuffixList[:len(t.SuffixList)-1]
		if strings.HasPrefix(c17S(&gojq.Query{Term: &src}), ap.Def.Args[1]+"[") {
			if OV == "" {
				OV = bd.Patterns[0].Name
			} else if OV != bd.Patterns[0].Name {
				OV = "?"
			}
		}
		return true
	}, true)
	if OV == "" || OV == "?" {
		ru.Undecided("anchor:_parse:opt", pos, "cannot find the variable bound to the option description ("+ap.Def.Args[1]+"[name])")
		return
	}
	withArgKinds := []string{OV + ".string", OV + ".array", OV + ".object"}

	maxIdx := func(qs []*gojq.Query) int {
		mx := 0
		for _, q := range qs {
			fw.WalkJQ(q, func(x any) bool {
				t, ok := x.(*gojq.Term)
				if !ok || t.Type != gojq.TermTypeFunc || t.Func == nil || t.Func.Name != A || len(t.SuffixList) == 0 {
					return true
				}
				ix := t.SuffixList[0].Index
				if ix == nil || ix.IsSlice || ix.Start == nil {
					return true
				}
				if n, ok := fw.JQConstNumber(ix.Start); ok {
					if v, err := strconv.Atoi(n); err == nil && v > mx {
						mx = v
					}
				}
				return true
			}, false)
		}
		return mx
	}
	seen := map[string]int{}
	for _, s := range recs {
		name := s.f.Name
		first := c17S(s.f.Args[0])
		label := name
		switch {
		case name == "_parse_with_arg" && s.path.has(assignVar, true):
			label += ":eq-value"
		case name == "_parse_with_arg" && s.path.has(OV+".pairs", true):
			label += ":pair"
		case name == "_parse_with_arg":
			label += ":next-value"
		case name == "_parse_without_arg" && s.path.has(OV+".bool", true):
			label += ":combined-short"
		case name == "_parse_without_arg" && s.path.has(OV+".optional", true):
			label += ":optional"
		case name == "_parse_without_arg":
			label += ":bool"
		case name == "_parse":
			label += ":positional"
		}
		seen[label]++
		key := "step:" + label
		if seen[label] > 1 {
			key = fmt.Sprintf("%s#%d", key, seen[label])
		}
		// consumption
		if label == "_parse_without_arg:combined-short" {
			ru.Check(first == `["-" + `+A+`[0][2:]] + `+A+`[1:]`, key, pos, "re-queues the remaining combined short flags", "combined short flags: the remainder is not re-queued as [\"-\" + "+A+"[0][2:]] + "+A+"[1:]: "+first)
			ru.Check(s.path.has(shortTest, true) && s.path.has(flagTest, true), key+":guard", pos, "only for -x style arguments", "combined short flag step is not guarded by the short-flag test: "+s.path.String())
			continue
		}
		mm := c17SliceRe.FindStringSubmatch(first)
		if mm == nil || mm[1] != A {
			ru.Undecided(key, pos, "remaining-arguments operand is not "+A+"[N:]: "+first)
			continue
		}
		n, _ := strconv.Atoi(mm[2])
		used := maxIdx(s.f.Args[1:])
		ru.Check(n == used+1, key, pos, fmt.Sprintf("uses %s[0..%d], continues with %s[%d:]", A, used, A, n),
			fmt.Sprintf("this step uses %s[0..%d] but continues with %s[%d:]: an argument is dropped or parsed twice", A, used, A, n))
		// guards
		switch label {
		case "_parse_with_arg:eq-value":
			val := c17S(s.f.Args[2])
			ru.Check(val == A+"[0]["+assignVar+" + 1:]", key+":value", pos, "value = "+A+"[0]["+assignVar+" + 1:]",
				"the value of --flag=value is "+val+": it must be everything after the first '=' ("+A+"[0]["+assignVar+" + 1:]), a value may itself contain '='")
			ru.Check(s.path.hasSet(withArgKinds, true), key+":guard", pos, "string/array/object options", "guard of the --flag=value step changed: "+s.path.String())
		case "_parse_with_arg:next-value":
			ru.Check(c17S(s.f.Args[2]) == A+"[1]", key+":value", pos, "value = "+A+"[1]", "value of `--flag value` is "+c17S(s.f.Args[2]))
			ru.Check(s.path.has(lenLT2, false) && s.path.has(assignVar, false) && s.path.hasSet(withArgKinds, true), key+":guard", pos, "guarded by not(("+A+" | length) < 2)",
				"taking "+A+"[1] as the value is not guarded by `("+A+" | length) < 2` being false: "+s.path.String())
		case "_parse_with_arg:pair":
			ru.Check(c17S(s.f.Args[2]) == "["+A+"[1], "+A+"[2]]", key+":value", pos, "value = ["+A+"[1], "+A+"[2]]", "pair value is "+c17S(s.f.Args[2]))
			ru.Check(s.path.has(lenGT2, true), key+":guard", pos, "guarded by ("+A+" | length) > 2", "taking two values is not guarded by `("+A+" | length) > 2`: "+s.path.String())
			ru.Check(s.path.has(assignVar, false), key+":eq", pos, "--flag=X is not accepted for pair options",
				"a pair option written --flag=X is accepted: X is silently dropped and NAME VALUE are taken from the next two arguments (every other kind either uses or rejects the =value)")
		case "_parse_without_arg:optional":
			ru.Check(s.path.has(lenLT2, true) && s.path.hasSet(withArgKinds, true), key+":guard", pos, "only when no value follows", "optional-value step guard changed: "+s.path.String())
		case "_parse_without_arg:bool":
			ru.Check(s.path.hasSet(withArgKinds, false) && s.path.has(OV+".pairs", false) && s.path.has(assignVar, false), key+":guard", pos, "not a value option, no '='", "boolean flag step guard changed: "+s.path.String())
		case "_parse:positional":
			ru.Check(s.path.has(flagTest, false) && c17S(s.f.Args[2]) == R+" | .rest += ["+A+"[0]]" && fw.JQIsCall(s.f.Args[1], FM, 0) != nil, key+":rest", pos, "non-flag argument appended to .rest",
				"positional arguments are not appended to .rest in order: "+c17S(s.f.Args[2])+" under "+s.path.String())
		}
	}
	for _, l := range []string{"_parse_with_arg:eq-value", "_parse_with_arg:next-value", "_parse_with_arg:pair", "_parse_without_arg:combined-short", "_parse_without_arg:optional", "_parse_without_arg:bool", "_parse:positional"} {
		if seen[l] != 1 {
			ru.Fail("step:"+l+":present", pos, fmt.Sprintf("expected exactly one %s step in _parse, found %d", l, seen[l]))
		}
	}

	// --- error arms
	type errArm struct {
		key  string
		pred func(p c17Path) bool
		what string
	}
	count := func(p c17Path, text string, val bool) int {
		n := 0
		for _, c := range p {
			if c.Text == text && c.True == val {
				n++
			}
		}
		return n
	}
	arms := []errArm{
		{"unknown-long", func(p c17Path) bool { return count(p, OV+" == null", true) == 1 && p.has(shortTest, false) }, "unknown --flag"},
		{"unknown-short", func(p c17Path) bool { return count(p, OV+" == null", true) == 2 }, "unknown -x"},
		{"short-needs-arg", func(p c17Path) bool { return count(p, OV+" == null", true) == 1 && p.has(OV+".bool", false) }, "combined short flag that needs a value"},
		{"missing-value", func(p c17Path) bool { return p.has(lenLT2, true) && p.has(OV+".optional", false) }, "value option at the end of argv"},
		{"missing-pair", func(p c17Path) bool { return p.has(OV+".pairs", true) && p.has(lenGT2, false) }, "pair option with fewer than two values"},
		{"pair-with-eq", func(p c17Path) bool { return p.has(OV+".pairs", true) && p.has(assignVar, true) }, "pair option given =value"},
		{"bool-with-eq", func(p c17Path) bool {
			return p.has(OV+".pairs", false) && p.has(assignVar, true) && p.hasSet(withArgKinds, false)
		}, "boolean flag given =value"},
	}
	for _, a := range arms {
		n := 0
		for _, e := range errs {
			if a.pred(e.path) {
				n++
			}
		}
		ru.Check(n == 1, "error:"+a.key, pos, "raises (caught in _main -> exit 2)", fmt.Sprintf("%s: expected exactly one error(...) on this path, found %d", a.what, n))
	}

	// --- `--` and end of argv
	arms2 := c17Arms(main)
	ru.Check(len(arms2) >= 2 && c17S(arms2[0].Cond) == argVar+" == null" && fw.JQIsCall(arms2[0].Then, R, 0) != nil, "end", pos, "no more arguments -> result", "end of argv does not return the accumulated result "+R)
	ddOK := false
	for _, a := range arms2 {
		if a.Cond != nil && c17S(a.Cond) == argVar+` == "--"` {
			ddOK = c17S(a.Then) == R+" | .rest += "+A+"[1:]"
		}
	}
	ru.Check(ddOK, "double-dash", pos, "`--` moves all remaining arguments to .rest unparsed", "`--` does not end option parsing with "+R+" | .rest += "+A+"[1:]")
	ftOK := false
	for _, a := range arms2 {
		if a.Cond != nil && c17S(a.Cond) == flagTest {
			ftOK = true
		}
	}
	ru.Check(ftOK, "flag-test", pos, "flags are -x/--x not followed by '-' or a digit", "the test deciding what is a flag changed (negative numbers and '-' must stay positional)")
	// lookup: $flagmap[$arg] then $opts[$optname]
	lookup := 0
	short2 := false
	fw.WalkJQ(&gojq.Query{Term: &gojq.Term{Type: gojq.TermTypeIf, If: main}}, func(x any) bool {
		t, ok := x.(*gojq.Term)
		if !ok || len(t.SuffixList) == 0 {
			return true
		}
		b := t.SuffixList[len(t.SuffixList)-1].Bind
		if b == nil || len(b.Patterns) != 1 {
			return true
		}
		src := *t
		src.SuffixList = t.SuffixList[:len(t.SuffixList)-1]
		txt := c17S(&gojq.Query{Term: &src})
		if b.Patterns[0].Name != "" && txt == FM+"["+argVar+"]" {
			lookup++
		}
		if b.Patterns[0].Name == argVar && txt == argVar+"[0:2]" {
			short2 = true
		}
		return true
	}, true)
	ru.Check(lookup >= 2, "lookup", pos, "option name = "+FM+"["+argVar+"]", "flag lookup is not "+FM+"["+argVar+"] for both the full and the short form")
	ru.Check(short2, "short-prefix", pos, argVar+"[0:2] for combined short flags", "first flag of a combined short group is not "+argVar+"[0:2]")

	// --- _parse_with_arg: kind -> store operation
	{
		NA, ON, V, OW := withArg.Def.Args[0], withArg.Def.Args[1], withArg.Def.Args[2], withArg.Def.Args[3]
		i := c17IsIf(withArg.Def.Body)
		if i == nil {
			ru.Undecided("with-arg:shape", pos, "_parse_with_arg is not an if chain over the option kind")
		} else {
			want := map[string]string{
				OW + ".object": R + " | .parsed[" + ON + "][$key] |= $value",
				OW + ".array":  R + " | .parsed[" + ON + "] += [" + V + "]",
				OW + ".pairs":  R + " | .parsed[" + ON + "] += [" + V + "]",
				"":             R + " | .parsed[" + ON + "] = " + V,
			}
			got := map[string]bool{}
			for _, a := range c17Arms(i) {
				k := ""
				if a.Cond != nil {
					k = c17S(a.Cond)
				}
				w, ok := want[k]
				if !ok {
					ru.Fail("with-arg:kind:"+k, pos, "unexpected option kind test in _parse_with_arg")
					continue
				}
				got[k] = true
				calls := c17Calls(a.Then, "_parse", 3, false)
				label := k
				if label == "" {
					label = "string"
				}
				if len(calls) != 1 {
					ru.Fail("with-arg:"+label, pos, "arm does not continue with exactly one _parse call")
					continue
				}
				c := calls[0]
				ru.Check(c17S(c.Args[0]) == NA && fw.JQIsCall(c.Args[1], FM, 0) != nil && c17S(c.Args[2]) == w, "with-arg:"+label, pos, w,
					"store operation for "+label+" options is `"+c17S(c.Args[2])+"` (continuing with "+c17S(c.Args[0])+"), expected `"+w+"` continuing with "+NA)
				if k == OW+".object" {
					caps := c17Calls(a.Then, "capture", 1, false)
					re := ""
					if len(caps) == 1 {
						re, _ = fw.JQConstString(caps[0].Args[0])
					}
					ru.Check(re == "^(?<key>.*?)=(?<value>.*)$", "with-arg:object:split", pos, "key=value split at the first '=' (lazy key)", "KEY=VALUE of object options is split with "+strconv.Quote(re)+": the key must be lazy (.*?) so the value keeps later '='")
					ru.Check(len(c17Calls(a.Then, "error", 1, false)) == 1, "with-arg:object:error", pos, "malformed KEY=VALUE raises", "malformed KEY=VALUE no longer raises an error")
				}
			}
			for k := range want {
				if !got[k] {
					ru.Fail("with-arg:missing:"+k, pos, "_parse_with_arg has no arm for option kind "+k)
				}
			}
		}
	}
	{
		c := fw.JQIsCall(withoutArg.Def.Body, "_parse", 3)
		ok := c != nil && c17S(c.Args[0]) == withoutArg.Def.Args[0] && fw.JQIsCall(c.Args[1], FM, 0) != nil && c17S(c.Args[2]) == R+" | .parsed["+withoutArg.Def.Args[1]+"] = true"
		ru.Check(ok, "without-arg", pos, "sets .parsed[name] = true", "_parse_without_arg does not set .parsed["+withoutArg.Def.Args[1]+"] = true and continue with its argument list")
	}
	// --- _flagmap / _defaults / entry
	{
		fields := map[string]bool{}
		fw.WalkJQ(flagmap.Def.Body, func(x any) bool {
			if q, ok := x.(*gojq.Query); ok {
				s := q.String()
				if strings.HasPrefix(s, ".value.") && !strings.ContainsAny(s[7:], " .|[(") {
					fields[s[7:]] = true
				}
			}
			return true
		}, false)
		got := strings.Join(c17SortedSet(fields), ",")
		ru.Check(got == "aliases,long,short", "flagmap:fields", pos, "short, long and aliases are all mapped", "_flagmap maps the fields {"+got+"}, expected {aliases,long,short}")
		entry := false
		fw.WalkJQ(flagmap.Def.Body, func(x any) bool {
			if q, ok := x.(*gojq.Query); ok && c17FlagEntryRe.MatchString(q.String()) {
				entry = true
			}
			return true
		}, false)
		ru.Check(entry && c17HasCall(flagmap.Def.Body, "from_entries", 0) && c17HasCall(flagmap.Def.Body, "add", 0), "flagmap:entry", pos, "flag string -> option name", "_flagmap does not build {flag: option name} entries")
		db := c17S(defaults.Def.Body)
		ru.Check(strings.Contains(db, "select(.value.default)") && strings.Contains(db, "{ (.key): .value.default }"), "defaults", pos, "defaults from .default", "_defaults no longer maps option name to its .default: "+db)
		st := c17Steps(ap.Def.Body)
		c := fw.JQIsCall(st[len(st)-1].Q, "_parse", 3)
		ok := c != nil && c17S(c.Args[0]) == ap.Def.Args[0] && fw.JQIsCall(c.Args[1], "_flagmap", 0) != nil && c17S(c.Args[2]) == "{ parsed: _defaults, rest: [] }"
		ru.Check(ok, "entry", pos, "_parse($args; _flagmap; {parsed: _defaults, rest: []})", "_args_parse does not start _parse with all arguments, the flag map and an empty result")
	}
	// result keys agree with the consumer in _main
	if md := m.def(ru, "_main", 0); md != nil {
		okKeys := false
		for _, s := range c17Steps(md.Def.Body) {
			if len(s.Bind) == 1 && c17HasCall(s.Q, "_args_parse", 2) {
				var ks []string
				for _, po := range s.Bind[0].Object {
					k := po.Key
					ks = append(ks, strings.TrimPrefix(k, "$"))
				}
				sort.Strings(ks)
				okKeys = strings.Join(ks, ",") == "parsed,rest"
			}
		}
		ru.Check(okKeys, "result-keys", c17Pos(md), "_main destructures {parsed, rest}", "_main does not destructure the {parsed, rest} result of _args_parse")
	}
}

func c17PatternNames(p *gojq.Pattern) []string {
	if p == nil {
		return nil
	}
	if p.Name != "" {
		return []string{p.Name}
	}
	var out []string
	for _, a := range p.Array {
		out = append(out, c17PatternNames(a)...)
	}
	for _, o := range p.Object {
		if o.Val != nil {
			out = append(out, c17PatternNames(o.Val)...)
		} else {
			out = append(out, o.Key)
		}
	}
	return out
}
