package rules

// C08.errs: where the plain JSON value of a type raises a type error, the wrapper of that type raises one too.

import (
	"go/types"
	"strings"

	"golang.org/x/tools/go/ssa"

	"fqverif/fw"
)

// c08ErrMatrix: JQValue method -> JSON types whose plain value answers that operation with an error in the
// embedded engine (length of a boolean, .[] / keys of a scalar or null, has() of a scalar, index/slice of an
// object, number or boolean, tonumber of a collection, boolean or null). null[i], null[a:b], has on null and
// length of null are values, not errors (C08.nullsem); string-key lookup is layered (C08.fallback).
var c08ErrMatrix = []struct {
	meth  string
	kinds []string
}{
	{"JQValueLength", []string{"boolean"}},
	{"JQValueEach", []string{"string", "number", "boolean", "null"}},
	{"JQValueKeys", []string{"string", "number", "boolean", "null"}},
	{"JQValueHas", []string{"string", "number", "boolean"}},
	{"JQValueSliceLen", []string{"object", "number", "boolean"}},
	{"JQValueIndex", []string{"object", "number", "boolean"}},
	{"JQValueSlice", []string{"object", "number", "boolean"}},
	{"JQValueToNumber", []string{"array", "object", "boolean", "null"}},
}

// methodOrPromoted: the method declared on T, else the one declared on an embedded named field type.
func (c *c08ctx) methodOrPromoted(T *types.Named, name string) *ssa.Function {
	if f := c.method(T, name); f != nil {
		return f
	}
	st, ok := T.Underlying().(*types.Struct)
	if !ok {
		return nil
	}
	var found *ssa.Function
	for i := 0; i < st.NumFields(); i++ {
		if !st.Field(i).Embedded() {
			continue
		}
		if ft, ok := st.Field(i).Type().(*types.Named); ok {
			if f := c.method(ft, name); f != nil {
				if found != nil {
					return nil // ambiguous
				}
				found = f
			}
		}
	}
	return found
}

func (c *c08ctx) ruleErrs() {
	ru := c.r.Rule("C08.errs", "every wrapper method of an operation the plain JSON value of that type answers with a type error (length of a boolean; .[] and keys of a string, number, boolean or null; has of a string, number or boolean; index and slice of an object, number or boolean; tonumber of an array, object, boolean or null) returns an error value on every path, never a result", 28)
	errIface, _ := types.Universe.Lookup("error").Type().Underlying().(*types.Interface)
	check := func(key string, f *ssa.Function, opName, kind string) {
		if f == nil || f.Blocks == nil {
			ru.Undecided(key, "", "method not found on the wrapper or its embedded parts")
			return
		}
		e := c.env(f)
		var msgs []string
		n := 0
		for _, rc := range fw.ReturnCases(f, 0) {
			n++
			inner := rc.Val
			if mi, ok := inner.(*ssa.MakeInterface); ok {
				inner = mi.X
			}
			if cst, ok := inner.(*ssa.Const); ok && cst.Value == nil {
				msgs = append(msgs, "returns nil")
				continue
			}
			if !types.Implements(inner.Type(), errIface) {
				msgs = append(msgs, "returns "+e.Term(rc.Val)+" (a "+fw.TypeStr(inner.Type())+"), not an error")
			}
		}
		if n == 0 {
			msgs = append(msgs, "no return")
		}
		ru.Check(len(msgs) == 0, key, c.pos(f), "error on every path",
			strings.Join(uniq(msgs), "; ")+": "+opName+" of a decoded "+kind+" gives a result where the same query on its JSON value fails")
	}
	for _, row := range c08ErrMatrix {
		op := strings.TrimPrefix(row.meth, "JQValue")
		for _, k := range row.kinds {
			T := c.byKind[k]
			check(tname(T)+"."+op, c.method(T, row.meth), op, k)
		}
	}
	// decode wrappers: operations they do not implement come from their embedded parts
	for _, w := range []struct {
		T     *types.Named
		kind  string
		meths []string
	}{
		{c.arrayDV, "array", []string{"JQValueToNumber"}},
		{c.structDV, "object", []string{"JQValueIndex", "JQValueSlice", "JQValueToNumber"}},
	} {
		for _, m := range w.meths {
			op := strings.TrimPrefix(m, "JQValue")
			check(tname(w.T)+"."+op, c.methodOrPromoted(w.T, m), op, w.kind)
		}
	}
}
