package rules

import (
	"fmt"
	"go/token"
	"go/types"
	"strings"

	"github.com/wader/gojq"
	"golang.org/x/tools/go/ssa"

	"fqverif/fw"
)

// Second-round clauses of C05: the ._bits/._bytes keys of a decode value, the invariants form B of
// InnerRange (parentless roots keep their Range) rests on, what a nested-root constructor may do to the
// value decode() returned, and the stages display/2 applies to a value before it is written raw.

// c05CaseLabel returns the string constant L of a dominating `key == L` test that holds at b, where
// key is the given parameter (the arm of a `switch key` the block belongs to).
func c05CaseLabel(b *ssa.BasicBlock, key ssa.Value) (string, bool) {
	for _, g := range fw.Guards(b) {
		g = g.Normalize()
		bo, ok := g.Cond.(*ssa.BinOp)
		if !ok || bo.Op != token.EQL || !g.True {
			continue
		}
		if s, ok := constString(bo.Y); ok && bo.X == key {
			return s, true
		}
		if s, ok := constString(bo.X); ok && bo.Y == key {
			return s, true
		}
	}
	return "", false
}

// c05ValueKey: the Binary built by decodeValueBase.JQValueKey under the arm "_bits" has unit 1, under
// "_bytes" unit 8, no padding, and a synthetic value (no bits of its own) never reaches it.
func c05ValueKey(ru *fw.Rule, p *fw.Program, fn *ssa.Function, e *fw.SymEnv, st *ssa.Store, fields map[string]string) {
	if len(fn.Params) < 2 {
		ru.Undecided("value-key:signature", p.Rel(fn.Pos()), "JQValueKey has no key parameter")
		return
	}
	units := map[string]string{"_bits": "1", "_bytes": "8"}
	label, ok := c05CaseLabel(st.Block(), fn.Params[1])
	if !ok {
		ru.Undecided("value-key:?", p.Rel(st.Pos()), "a Binary over the value's RootReader is built outside an arm of the key switch")
		return
	}
	want, ok := units[label]
	if !ok {
		ru.Undecided("value-key:"+label, p.Rel(st.Pos()), "key "+label+" yields the value's bits but has no unit in the rule table (add it)")
		return
	}
	key := "value-key:" + label
	ru.Check(fields["unit"] == want && fw.IsZeroDesc(fields["pad"]), key+":unit", p.Rel(st.Pos()), "."+label+" has unit "+want+" and no padding",
		fmt.Sprintf(".%s must be the value's bits with unit %s and pad 0, has unit %q pad %q", label, want, fields["unit"], fields["pad"]))
	found, leak := false, false
	for _, c := range c05SynTests(fn, e, "P0.dv") {
		if l, ok := c05CaseLabel(c.Block(), fn.Params[1]); !ok || l != label {
			continue
		}
		found = true
		br := c05Branch(fn, c, true)
		if len(br) == 0 {
			leak = true
		}
		for _, s := range br {
			if fw.BlockReaches(s, st.Block()) {
				leak = true
			}
		}
	}
	ru.Check(found && !leak, key+":synthetic", p.Rel(st.Pos()), "a synthetic value never yields a binary",
		"."+label+" of a synthetic value (which has no bits in the buffer) must not build a Binary over the buffer")
}

// c05StoreUnconditional: the store executes on every completed call of fn (its block dominates every return).
func c05StoreUnconditional(fn *ssa.Function, st ssa.Instruction) bool {
	for _, ret := range c05Returns(fn) {
		if fn.Recover != nil && ret.Block() == fn.Recover {
			continue // only reached after a recovered panic
		}
		if !c05InstrDominates(st, ret) {
			return false
		}
	}
	return true
}

// c05AddChildParent: form B of InnerRange tells nested roots from top-level roots by Parent != nil, so every
// value that enters a tree must get its parent: AddChild stores v.Parent = d.Value unconditionally.
func c05AddChildParent(ru *fw.Rule, p *fw.Program, formB bool) {
	fn := c05Anchor(ru, p, "(*pkg/decode.D).AddChild")
	if fn == nil {
		return
	}
	if !formB {
		ru.Ok("AddChild:parent", p.Rel(fn.Pos()), "InnerRange does not depend on Parent")
		return
	}
	e := fw.NewSymEnv(fn)
	good, d := false, ""
	fw.EachInstr(fn, func(ins ssa.Instruction) {
		st, ok := ins.(*ssa.Store)
		if !ok {
			return
		}
		if x, ok := c05FieldAddr(st.Addr, "pkg/decode", "Value", "Parent"); ok {
			d = e.Of(x) + ".Parent = " + e.Of(st.Val)
			if len(fn.Params) == 2 && x == ssa.Value(fn.Params[1]) && e.Of(st.Val) == "P0->Value" && c05StoreUnconditional(fn, st) {
				good = true
			}
		}
	})
	ru.Check(good, "AddChild:parent", p.Rel(fn.Pos()), "AddChild sets v.Parent = d.Value unconditionally",
		"InnerRange recognises a nested root by Parent != nil: AddChild must give every added value (roots included) its parent, does: "+d)
}

// c05DecodeResultStores: what a caller in pkg/decode does to the value decode() returned. decode() has set
// Range (rebased, Len = extent of the decoded bits) and RootReader consistently; the only thing a caller may
// overwrite is Range.Start of a nested root (its position in the parent buffer, which InnerRange drops).
func c05DecodeResultStores(ru *fw.Rule, p *fw.Program, fn *ssa.Function, e *fw.SymEnv, call ssa.CallInstruction, isRoot bool, key string) {
	v := call.Value()
	if v == nil {
		return
	}
	var dv ssa.Value
	for _, ref := range *v.Referrers() {
		if ex, ok := ref.(*ssa.Extract); ok && ex.Index == 0 {
			dv = ex
		}
	}
	if dv == nil {
		return
	}
	bad := ""
	n := 0
	fw.EachInstr(fn, func(ins ssa.Instruction) {
		st, ok := ins.(*ssa.Store)
		if !ok {
			return
		}
		base, path := fw.AddrPath(st.Addr)
		if base != dv || len(path) == 0 {
			return
		}
		switch path[0] {
		case "Range":
			n++
			if !(isRoot && len(path) == 2 && path[1] == "Start") {
				bad = strings.Join(path, ".") + " = " + e.Of(st.Val)
			}
		case "RootReader", "IsRoot":
			n++
			bad = strings.Join(path, ".") + " = " + e.Of(st.Val)
		}
	})
	ru.Check(bad == "", key, p.Rel(call.Pos()), fmt.Sprintf("range length and reader of the decoded value are kept (%d placement stores)", n),
		"the value returned by decode() must keep the Range.Len and RootReader decode() gave it (only Range.Start of a nested root may be placed in the parent): "+bad)
}

// c05WideningByte: v is a byte loaded from data, possibly converted once to a wider integer type
// (the value 0..255 is kept); returns the load.
func c05WideningByte(v ssa.Value) (*ssa.UnOp, bool) {
	if mi, ok := v.(*ssa.MakeInterface); ok {
		v = mi.X
	}
	if cv, ok := v.(*ssa.Convert); ok {
		bt, ok := cv.Type().Underlying().(*types.Basic)
		if !ok || bt.Info()&types.IsInteger == 0 || bt.Kind() == types.Int8 || bt.Kind() == types.Uint8 {
			return nil, false
		}
		v = cv.X
	}
	ld, ok := v.(*ssa.UnOp)
	if !ok || ld.Op != token.MUL {
		return nil, false
	}
	bt, ok := ld.Type().Underlying().(*types.Basic)
	if !ok || bt.Kind() != types.Uint8 {
		return nil, false
	}
	return ld, true
}

// c05JQStages flattens a jq body into its pipeline stages, following `X as $v | body` into body;
// a binding stage is rendered as "X as $v".
func c05JQStages(q *gojq.Query) []string {
	var out []string
	for _, s := range fw.JQPipeline(q) {
		if s.Term != nil && s.Left == nil && len(s.FuncDefs) == 0 && len(s.Term.SuffixList) > 0 {
			last := s.Term.SuffixList[len(s.Term.SuffixList)-1]
			if last.Bind != nil {
				head := *s.Term
				head.SuffixList = head.SuffixList[:len(head.SuffixList)-1]
				var pats []string
				for _, pt := range last.Bind.Patterns {
					pats = append(pats, pt.String())
				}
				out = append(out, head.String()+" as "+strings.Join(pats, " ?// "))
				out = append(out, c05JQStages(last.Bind.Body)...)
				continue
			}
		}
		out = append(out, fw.JQStr(s))
	}
	return out
}

// c05JQIf returns the if-expression a stage consists of.
func c05JQIf(q *gojq.Query) *gojq.If {
	if q == nil || q.Term == nil || q.Left != nil || len(q.Term.SuffixList) > 0 {
		return nil
	}
	if q.Term.Type == gojq.TermTypeQuery {
		return c05JQIf(q.Term.Query)
	}
	return q.Term.If
}

// c05JQLastStage returns the last pipeline stage of q as a query, following bindings.
func c05JQStageQueries(q *gojq.Query) []*gojq.Query {
	var out []*gojq.Query
	for _, s := range fw.JQPipeline(q) {
		if s.Term != nil && s.Left == nil && len(s.FuncDefs) == 0 && len(s.Term.SuffixList) > 0 {
			if last := s.Term.SuffixList[len(s.Term.SuffixList)-1]; last.Bind != nil {
				out = append(out, nil) // binding: does not change the value
				out = append(out, c05JQStageQueries(last.Bind.Body)...)
				continue
			}
		}
		out = append(out, s)
	}
	return out
}

// ---------------------------------------------------------------------------
// "is this value synthetic" tests, written inline or through an extracted helper

// c05SynDesc is the descriptor of `x.V.(scalar.Scalarable).ScalarFlags().IsSynthetic()` for the value described by x.
func c05SynDesc(x string) string {
	return "(pkg/scalar.Flags).IsSynthetic(invoke.ScalarFlags(assert<pkg/scalar.Scalarable>(" + x + "->V)#0))"
}

// c05IsSynHelper: h(dv *decode.Value) bool is true exactly when dv.V is a scalar whose flags are synthetic:
// every result is the IsSynthetic call on the parameter's V, or false on the edge where V is not Scalarable.
func c05IsSynHelper(h *ssa.Function) bool {
	if h == nil || h.Blocks == nil || len(h.Params) != 1 || h.Signature.Results().Len() != 1 || !c05IsNamed(h.Params[0].Type(), "pkg/decode", "Value") {
		return false
	}
	if bt, ok := h.Signature.Results().At(0).Type().Underlying().(*types.Basic); !ok || bt.Kind() != types.Bool {
		return false
	}
	e := fw.NewSymEnv(h)
	var syn ssa.Value
	for _, c := range fw.CallsTo(h, "(pkg/scalar.Flags).IsSynthetic") {
		if e.Of(c) == c05SynDesc("P0") {
			syn = c
		}
	}
	if syn == nil {
		return false
	}
	var allowed func(v ssa.Value, depth int) bool
	allowed = func(v ssa.Value, depth int) bool {
		if v == syn {
			return true
		}
		ph, ok := v.(*ssa.Phi)
		if !ok || depth > 3 {
			return false
		}
		for i, ed := range ph.Edges {
			if allowed(ed, depth+1) {
				continue
			}
			// false only where the value is not a scalar at all
			if e.Of(ed) != "false" {
				return false
			}
			pred := ph.Block().Preds[i]
			ifi, ok := pred.Instrs[len(pred.Instrs)-1].(*ssa.If)
			if !ok {
				return false
			}
			g := fw.Guard{Cond: ifi.Cond, True: pred.Succs[0] == ph.Block()}.Normalize()
			if g.True || e.Of(g.Cond) != "assert<pkg/scalar.Scalarable>(P0->V)#1" {
				return false
			}
		}
		return true
	}
	n := 0
	for _, ret := range c05Returns(h) {
		if len(ret.Results) != 1 || !allowed(ret.Results[0], 0) {
			return false
		}
		n++
	}
	return n > 0
}

// c05SynTests returns the boolean values of fn that are true exactly for a synthetic value x (descriptor):
// inline IsSynthetic calls on x.V's scalar flags, and calls of a helper recognised by c05IsSynHelper with x.
func c05SynTests(fn *ssa.Function, e *fw.SymEnv, x string) []*ssa.Call {
	var out []*ssa.Call
	for _, ci := range fw.CallsIn(fn) {
		c, ok := ci.(*ssa.Call)
		if !ok || c.Call.IsInvoke() {
			continue
		}
		callee := c.Call.StaticCallee()
		if callee == nil {
			continue
		}
		if fw.ShortFn(callee) == "(pkg/scalar.Flags).IsSynthetic" {
			if e.Of(c) == c05SynDesc(x) {
				out = append(out, c)
			}
			continue
		}
		if len(c.Call.Args) == 1 && e.Of(c.Call.Args[0]) == x && c05IsSynHelper(callee) {
			out = append(out, c)
		}
	}
	return out
}

// ---------------------------------------------------------------------------
// every value linked into a tree has a reader

// c05LinkedHaveReader: decode()'s final walk stamps RootReader only on the values of ITS buffer root (it does not
// descend into nested roots), so a value created inside a nested-root subtree keeps whatever reader it had when
// it was linked. Hence every AddChild(v) in pkg/decode links a value whose RootReader is already established:
// stored before the call (inline or by a helper that stamps its argument), or v comes out of decode()
// (stamped by the walk) or is the value of a fieldDecoder (checked by the fieldDecoder obligation).
func c05LinkedHaveReader(ru *fw.Rule, p *fw.Program, dec, decW *ssa.Function) {
	addChild := p.Fn("(*pkg/decode.D).AddChild")
	fieldDec := p.Fn("(*pkg/decode.D).fieldDecoder")
	if addChild == nil {
		return // reported by AddChild:parent
	}
	stamps := func(h *ssa.Function, idx int) bool { // h stores params[idx].RootReader on every completed call
		if h == nil || h.Blocks == nil || idx >= len(h.Params) {
			return false
		}
		ok := false
		fw.EachInstr(h, func(ins ssa.Instruction) {
			if st, isSt := ins.(*ssa.Store); isSt {
				if x, isRR := c05FieldAddr(st.Addr, "pkg/decode", "Value", "RootReader"); isRR && x == ssa.Value(h.Params[idx]) && c05StoreUnconditional(h, st) {
					ok = true
				}
			}
		})
		return ok
	}
	var fromDecode func(v ssa.Value, depth int) string
	fromDecode = func(v ssa.Value, depth int) string {
		if depth > 8 || v == nil {
			return ""
		}
		switch x := v.(type) {
		case *ssa.Extract:
			if c, ok := x.Tuple.(*ssa.Call); ok && x.Index == 0 {
				if callee := c.Call.StaticCallee(); callee != nil && (callee == dec || callee == decW) {
					return "value decoded by decode()"
				}
			}
			return fromDecode(x.Tuple, depth+1)
		case *ssa.UnOp:
			if x.Op == token.MUL {
				if fa, ok := x.X.(*ssa.FieldAddr); ok && fieldNameOf(fa.X.Type(), fa.Field) == "Value" {
					if c, ok := fa.X.(*ssa.Call); ok && c.Call.StaticCallee() != nil && c.Call.StaticCallee() == fieldDec {
						return "value of a fieldDecoder"
					}
				}
				return fromDecode(x.X, depth+1)
			}
		case *ssa.IndexAddr:
			return fromDecode(x.X, depth+1)
		case *ssa.Index:
			return fromDecode(x.X, depth+1)
		case *ssa.FieldAddr:
			if n := fieldNameOf(x.X.Type(), x.Field); n == "Children" || n == "V" {
				return fromDecode(x.X, depth+1)
			}
		case *ssa.Field:
			return fromDecode(x.X, depth+1)
		case *ssa.TypeAssert:
			return fromDecode(x.X, depth+1)
		case *ssa.Next:
			return fromDecode(x.Iter, depth+1)
		case *ssa.Range:
			return fromDecode(x.X, depth+1)
		}
		return ""
	}
	n := 0
	for _, fn := range c05PkgFns(p, "pkg/decode") {
		e := fw.NewSymEnv(fn)
		k := 0
		for _, ci := range fw.CallsIn(fn) {
			if ci.Common().StaticCallee() != addChild || ci.Common().IsInvoke() || len(ci.Common().Args) != 2 {
				continue
			}
			k++
			n++
			x := ci.Common().Args[1]
			key := fmt.Sprintf("linked-has-reader:%s#%d", fw.ShortFn(fn), k)
			how := fromDecode(x, 0)
			if how == "" {
				fw.EachInstr(fn, func(ins ssa.Instruction) {
					switch y := ins.(type) {
					case *ssa.Store:
						if b, ok := c05FieldAddr(y.Addr, "pkg/decode", "Value", "RootReader"); ok && b == x && (c05InstrDominates(y, ci) || c05AlwaysAfter(fn, ci, y)) {
							how = "RootReader stored when linking"
						}
					case *ssa.Call:
						if h := y.Call.StaticCallee(); h != nil && !y.Call.IsInvoke() && h != addChild && pkgRel(h) == "pkg/decode" && (c05InstrDominates(y, ci) || c05AlwaysAfter(fn, ci, y)) {
							for i, a := range y.Call.Args {
								if a == x && stamps(h, i) {
									how = "RootReader stored by " + fw.ShortFn(h) + " before linking"
								}
							}
						}
					}
				})
			}
			if how == "" {
				if _, isParam := x.(*ssa.Parameter); isParam {
					ru.Undecided(key, p.Rel(ci.Pos()), "AddChild of a parameter: the callers must be checked for the value's RootReader (extend the rule)")
					continue
				}
			}
			ru.Check(how != "", key, p.Rel(ci.Pos()), how,
				"the value "+e.Of(x)+" is linked into the tree without a RootReader: decode()'s final walk does not descend into nested buffer roots, so inside such a subtree the value keeps a nil reader and tobytes/tobits of it have nothing to read")
		}
	}
	if n == 0 {
		ru.Undecided("linked-has-reader", "", "no AddChild call found in pkg/decode")
	}
}

// c05AlwaysAfter: b executes after a on every path from a to a (non-recover) return of fn.
func c05AlwaysAfter(fn *ssa.Function, a, b ssa.Instruction) bool {
	if !c05InstrDominates(a, b) {
		return false
	}
	n := 0
	for _, ret := range c05Returns(fn) {
		if fn.Recover != nil && ret.Block() == fn.Recover {
			continue
		}
		if !fw.BlockReaches(a.Block(), ret.Block()) {
			continue
		}
		n++
		if !c05InstrDominates(b, ret) {
			return false
		}
	}
	return n > 0
}
