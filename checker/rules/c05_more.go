package rules

import (
	"fmt"
	"go/token"
	"go/types"
	"strings"

	"github.com/wader/gojq"
	"golang.org/x/tools/go/ssa"

	"fqverif/fw"
)

// Second-round clauses of C05: the ._bits/._bytes keys of a decode value, the invariants form B of
// InnerRange (parentless roots keep their Range) rests on, what a nested-root constructor may do to the
// value decode() returned, and the stages display/2 applies to a value before it is written raw.

// c05CaseLabel returns the string constant L of a dominating `key == L` test that holds at b, where
// key is the given parameter (the arm of a `switch key` the block belongs to).
func c05CaseLabel(b *ssa.BasicBlock, key ssa.Value) (string, bool) {
	for _, g := range fw.Guards(b) {
		g = g.Normalize()
		bo, ok := g.Cond.(*ssa.BinOp)
		if !ok || bo.Op != token.EQL || !g.True {
			continue
		}
		if s, ok := constString(bo.Y); ok && bo.X == key {
			return s, true
		}
		if s, ok := constString(bo.X); ok && bo.Y == key {
			return s, true
		}
	}
	return "", false
}

// c05ValueKey: the Binary built by decodeValueBase.JQValueKey under the arm "_bits" has unit 1, under
// "_bytes" unit 8, no padding, and a synthetic value (no bits of its own) never reaches it.
func c05ValueKey(ru *fw.Rule, p *fw.Program, fn *ssa.Function, e *fw.SymEnv, st *ssa.Store, fields map[string]string) {
	if len(fn.Params) < 2 {
		ru.Undecided("value-key:signature", p.Rel(fn.Pos()), "JQValueKey has no key parameter")
		return
	}
	units := map[string]string{"_bits": "1", "_bytes": "8"}
	label, ok := c05CaseLabel(st.Block(), fn.Params[1])
	if !ok {
		ru.Undecided("value-key:?", p.Rel(st.Pos()), "a Binary over the value's RootReader is built outside an arm of the key switch")
		return
	}
	want, ok := units[label]
	if !ok {
		ru.Undecided("value-key:"+label, p.Rel(st.Pos()), "key "+label+" yields the value's bits but has no unit in the rule table (add it)")
		return
	}
	key := "value-key:" + label
	ru.Check(fields["unit"] == want && fw.IsZeroDesc(fields["pad"]), key+":unit", p.Rel(st.Pos()), "."+label+" has unit "+want+" and no padding",
		fmt.Sprintf(".%s must be the value's bits with unit %s and pad 0, has unit %q pad %q", label, want, fields["unit"], fields["pad"]))
	const wantSyn = "(pkg/scalar.Flags).IsSynthetic(invoke.ScalarFlags(assert<pkg/scalar.Scalarable>(P0.dv->V)#0))"
	found, leak := false, false
	for _, c := range fw.CallsTo(fn, "(pkg/scalar.Flags).IsSynthetic") {
		if l, ok := c05CaseLabel(c.Block(), fn.Params[1]); !ok || l != label || e.Of(c) != wantSyn {
			continue
		}
		found = true
		br := c05Branch(fn, c, true)
		if len(br) == 0 {
			leak = true
		}
		for _, s := range br {
			if fw.BlockReaches(s, st.Block()) {
				leak = true
			}
		}
	}
	ru.Check(found && !leak, key+":synthetic", p.Rel(st.Pos()), "a synthetic value never yields a binary",
		"."+label+" of a synthetic value (which has no bits in the buffer) must not build a Binary over the buffer")
}

// c05StoreUnconditional: the store executes on every completed call of fn (its block dominates every return).
func c05StoreUnconditional(fn *ssa.Function, st ssa.Instruction) bool {
	for _, ret := range c05Returns(fn) {
		if fn.Recover != nil && ret.Block() == fn.Recover {
			continue // only reached after a recovered panic
		}
		if !c05InstrDominates(st, ret) {
			return false
		}
	}
	return true
}

// c05AddChildParent: form B of InnerRange tells nested roots from top-level roots by Parent != nil, so every
// value that enters a tree must get its parent: AddChild stores v.Parent = d.Value unconditionally.
func c05AddChildParent(ru *fw.Rule, p *fw.Program, formB bool) {
	fn := c05Anchor(ru, p, "(*pkg/decode.D).AddChild")
	if fn == nil {
		return
	}
	if !formB {
		ru.Ok("AddChild:parent", p.Rel(fn.Pos()), "InnerRange does not depend on Parent")
		return
	}
	e := fw.NewSymEnv(fn)
	good, d := false, ""
	fw.EachInstr(fn, func(ins ssa.Instruction) {
		st, ok := ins.(*ssa.Store)
		if !ok {
			return
		}
		if x, ok := c05FieldAddr(st.Addr, "pkg/decode", "Value", "Parent"); ok {
			d = e.Of(x) + ".Parent = " + e.Of(st.Val)
			if len(fn.Params) == 2 && x == ssa.Value(fn.Params[1]) && e.Of(st.Val) == "P0->Value" && c05StoreUnconditional(fn, st) {
				good = true
			}
		}
	})
	ru.Check(good, "AddChild:parent", p.Rel(fn.Pos()), "AddChild sets v.Parent = d.Value unconditionally",
		"InnerRange recognises a nested root by Parent != nil: AddChild must give every added value (roots included) its parent, does: "+d)
}

// c05DecodeResultStores: what a caller in pkg/decode does to the value decode() returned. decode() has set
// Range (rebased, Len = extent of the decoded bits) and RootReader consistently; the only thing a caller may
// overwrite is Range.Start of a nested root (its position in the parent buffer, which InnerRange drops).
func c05DecodeResultStores(ru *fw.Rule, p *fw.Program, fn *ssa.Function, e *fw.SymEnv, call ssa.CallInstruction, isRoot bool, key string) {
	v := call.Value()
	if v == nil {
		return
	}
	var dv ssa.Value
	for _, ref := range *v.Referrers() {
		if ex, ok := ref.(*ssa.Extract); ok && ex.Index == 0 {
			dv = ex
		}
	}
	if dv == nil {
		return
	}
	bad := ""
	n := 0
	fw.EachInstr(fn, func(ins ssa.Instruction) {
		st, ok := ins.(*ssa.Store)
		if !ok {
			return
		}
		base, path := fw.AddrPath(st.Addr)
		if base != dv || len(path) == 0 {
			return
		}
		switch path[0] {
		case "Range":
			n++
			if !(isRoot && len(path) == 2 && path[1] == "Start") {
				bad = strings.Join(path, ".") + " = " + e.Of(st.Val)
			}
		case "RootReader", "IsRoot":
			n++
			bad = strings.Join(path, ".") + " = " + e.Of(st.Val)
		}
	})
	ru.Check(bad == "", key, p.Rel(call.Pos()), fmt.Sprintf("range length and reader of the decoded value are kept (%d placement stores)", n),
		"the value returned by decode() must keep the Range.Len and RootReader decode() gave it (only Range.Start of a nested root may be placed in the parent): "+bad)
}

// c05WideningByte: v is a byte loaded from data, possibly converted once to a wider integer type
// (the value 0..255 is kept); returns the load.
func c05WideningByte(v ssa.Value) (*ssa.UnOp, bool) {
	if mi, ok := v.(*ssa.MakeInterface); ok {
		v = mi.X
	}
	if cv, ok := v.(*ssa.Convert); ok {
		bt, ok := cv.Type().Underlying().(*types.Basic)
		if !ok || bt.Info()&types.IsInteger == 0 || bt.Kind() == types.Int8 || bt.Kind() == types.Uint8 {
			return nil, false
		}
		v = cv.X
	}
	ld, ok := v.(*ssa.UnOp)
	if !ok || ld.Op != token.MUL {
		return nil, false
	}
	bt, ok := ld.Type().Underlying().(*types.Basic)
	if !ok || bt.Kind() != types.Uint8 {
		return nil, false
	}
	return ld, true
}

// c05JQStages flattens a jq body into its pipeline stages, following `X as $v | body` into body;
// a binding stage is rendered as "X as $v".
func c05JQStages(q *gojq.Query) []string {
	var out []string
	for _, s := range fw.JQPipeline(q) {
		if s.Term != nil && s.Left == nil && len(s.FuncDefs) == 0 && len(s.Term.SuffixList) > 0 {
			last := s.Term.SuffixList[len(s.Term.SuffixList)-1]
			if last.Bind != nil {
				head := *s.Term
				head.SuffixList = head.SuffixList[:len(head.SuffixList)-1]
				var pats []string
				for _, pt := range last.Bind.Patterns {
					pats = append(pats, pt.String())
				}
				out = append(out, head.String()+" as "+strings.Join(pats, " ?// "))
				out = append(out, c05JQStages(last.Bind.Body)...)
				continue
			}
		}
		out = append(out, fw.JQStr(s))
	}
	return out
}

// c05JQIf returns the if-expression a stage consists of.
func c05JQIf(q *gojq.Query) *gojq.If {
	if q == nil || q.Term == nil || q.Left != nil || len(q.Term.SuffixList) > 0 {
		return nil
	}
	if q.Term.Type == gojq.TermTypeQuery {
		return c05JQIf(q.Term.Query)
	}
	return q.Term.If
}

// c05JQLastStage returns the last pipeline stage of q as a query, following bindings.
func c05JQStageQueries(q *gojq.Query) []*gojq.Query {
	var out []*gojq.Query
	for _, s := range fw.JQPipeline(q) {
		if s.Term != nil && s.Left == nil && len(s.FuncDefs) == 0 && len(s.Term.SuffixList) > 0 {
			if last := s.Term.SuffixList[len(s.Term.SuffixList)-1]; last.Bind != nil {
				out = append(out, nil) // binding: does not change the value
				out = append(out, c05JQStageQueries(last.Bind.Body)...)
				continue
			}
		}
		out = append(out, s)
	}
	return out
}
