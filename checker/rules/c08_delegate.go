package rules

import (
	"fmt"
	"go/types"

	"golang.org/x/tools/go/ssa"

	"fqverif/fw"
)

// ---------------------------------------------------------------------------
// C08.delegate: a scalar decode value answers the jq protocol with its JSON value's own answer
//
// pkg/interp.decodeValue embeds the gojqx wrapper of the field's JSON value (gojq.JQValue) next to the
// extra-key base. "Behaves as its JSON value" rests on the protocol methods being the *promoted* ones of
// that wrapper. Every gojq.JQValue method that decodeValue declares itself (shadowing the wrapper) must be
// one of the two layered lookups (JQValueKey, JQValueHas: C08.layer / C08.fallback decide those) or a pure
// delegation: on every path it returns the result of the same method of the embedded wrapper with its own
// parameters. A method that answers from somewhere else on some path (a length taken from the bit range,
// a type from the scalar flags) makes v and tovalue(v) observably different.

func (c *c08ctx) ruleDelegate() {
	ru := c.r.Rule("C08.delegate", "every gojq.JQValue protocol method that pkg/interp.decodeValue declares itself (shadowing the embedded JSON-value wrapper) is one of the layered key lookups (JQValueKey, JQValueHas) or returns, on every path, the embedded wrapper's answer for the same method and arguments; all other protocol methods are the promoted ones of the wrapper", 12)
	named := c.p.NamedType("pkg/interp", "decodeValue")
	if named == nil {
		ru.Undecided("anchor", "", "pkg/interp.decodeValue not found")
		return
	}
	st, ok := named.Underlying().(*types.Struct)
	if !ok {
		ru.Undecided("anchor", "", "pkg/interp.decodeValue is not a struct")
		return
	}
	embIdx := -1
	for i := 0; i < st.NumFields(); i++ {
		f := st.Field(i)
		if f.Embedded() {
			if it, ok := f.Type().Underlying().(*types.Interface); ok && types.Identical(it, c.jqv) {
				embIdx = i
			}
		}
	}
	if embIdx < 0 {
		ru.Undecided("anchor", "", "decodeValue does not embed gojq.JQValue")
		return
	}
	layered := map[string]bool{"JQValueKey": true, "JQValueHas": true}
	ms := types.NewMethodSet(named)
	for i := 0; i < c.jqv.NumMethods(); i++ {
		m := c.jqv.Method(i)
		sel := ms.Lookup(m.Pkg(), m.Name())
		key := m.Name()
		if sel == nil {
			ru.Fail(key, "", "decodeValue has no method "+m.Name())
			continue
		}
		if len(sel.Index()) > 1 {
			// promoted: must come through the embedded wrapper, not through another embedded field
			if sel.Index()[0] == embIdx {
				ru.Ok(key, "", "promoted from the embedded JSON-value wrapper")
			} else {
				ru.Fail(key, "", fmt.Sprintf("%s is promoted from embedded field %s, not from the JSON-value wrapper", m.Name(), st.Field(sel.Index()[0]).Name()))
			}
			continue
		}
		if layered[m.Name()] {
			ru.Ok(key, "", "declared: layered lookup (decided by C08.layer / C08.fallback)")
			continue
		}
		// declared directly: every return is the embedded wrapper's same method on the own parameters
		fn := c.p.SSA.FuncValue(sel.Obj().(*types.Func))
		if fn == nil || len(fn.Blocks) == 0 {
			ru.Undecided(key, "", "no SSA body for the declared method")
			continue
		}
		bad := ""
		fw.EachInstr(fn, func(ins ssa.Instruction) {
			ret, ok := ins.(*ssa.Return)
			if !ok {
				return
			}
			for _, rv := range ret.Results {
				call, ok := rv.(*ssa.Call)
				if !ok || !call.Common().IsInvoke() || call.Common().Method.Name() != m.Name() {
					bad = "returns " + rv.String() + " which is not the embedded wrapper's " + m.Name()
					return
				}
				// receiver is the embedded field of the receiver parameter
				recvOK := false
				switch x := call.Common().Value.(type) {
				case *ssa.Field:
					recvOK = x.Field == embIdx
				case *ssa.UnOp:
					if fa, ok := x.X.(*ssa.FieldAddr); ok {
						recvOK = fa.Field == embIdx
					}
				}
				if !recvOK {
					bad = "calls " + m.Name() + " on something else than the embedded wrapper"
					return
				}
				for ai, a := range call.Common().Args {
					if ai+1 >= len(fn.Params) || a != ssa.Value(fn.Params[ai+1]) {
						bad = "passes other arguments than its own parameters"
					}
				}
			}
		})
		ru.Check(bad == "", key, c.p.Rel(fn.Pos()), "declared, pure delegation to the wrapper", "decodeValue."+m.Name()+" shadows the JSON-value wrapper's method and "+bad+": the decode value and tovalue of it answer differently")
	}
}
