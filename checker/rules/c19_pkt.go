package rules

import (
	"fmt"
	"go/ast"
	"go/constant"
	"go/token"
	"go/types"
	"strings"

	"golang.org/x/tools/go/ssa"

	"fqverif/fw"
)

// ---------------------------------------------------------------------------
// C19.endpoint

func (c *c19) ruleEndpoint() {
	ru := c.r.Rule("C19.endpoint", "the stream factory builds client = (net.Src, transport.Src), server = (net.Dst, transport.Dst) with cloned addresses, big-endian ports, separate fresh buffers, registers the connection with its decoder; flowsdecoder.New wires a fresh assembler/defragmenter to the decoder it returns; the port is decoded exactly when the transport endpoint is 2 bytes (read through helpers of the package); the option checker is installed only on request; every new connection is registered", 14)
	fn := getFn(ru, c.p, "(*"+c19FD+".Decoder).New")
	tconn := c.p.NamedType(c19FD, "TCPConnection")
	tdir := c.p.NamedType(c19FD, "TCPDirection")
	tdec := c.p.NamedType(c19FD, "Decoder")
	if tconn == nil || tdir == nil || tdec == nil {
		ru.Undecided("anchor:types", "", "flowsdecoder.TCPConnection/TCPDirection/Decoder not found")
		return
	}
	if fn != nil && len(fn.Params) >= 3 {
		k := "Decoder.New"
		// the connection that is returned
		var conn *ssa.Alloc
		for _, ret := range returnsOf(fn) {
			if len(ret.Results) == 1 {
				if a, ok := c.origin(ret.Results[0]).(*ssa.Alloc); ok && c19isNamed(a.Type(), tconn) {
					conn = a
				}
			}
		}
		if conn == nil {
			ru.Undecided(k+":conn", c.pos(fn), "the returned stream is not a freshly allocated TCPConnection")
		} else {
			ci := c.cellInfo(conn)
			fidx := func(n *types.Named, name string) string {
				st := n.Underlying().(*types.Struct)
				for i := 0; i < st.NumFields(); i++ {
					if st.Field(i).Name() == name {
						return fmt.Sprint(i)
					}
				}
				return "?"
			}
			var bufs []ssa.Value
			for _, side := range []struct{ field, flowFn string }{{"Client", "Src"}, {"Server", "Dst"}} {
				sts := ci.fields[fidx(tconn, side.field)]
				if len(sts) != 1 {
					ru.Undecided(k+":"+side.field, c.pos(fn), fmt.Sprintf("expected one store to the connection's %s field, found %d", side.field, len(sts)))
					continue
				}
				da, ok := c.origin(sts[0].Val).(*ssa.Alloc)
				if !ok || !c19isNamed(da.Type(), tdir) {
					ru.Fail(k+":"+side.field, c.pos(sts[0]), side.field+" is "+c.sig(sts[0].Val)+", expected a fresh TCPDirection")
					continue
				}
				di := c.cellInfo(da)
				tep := c.p.NamedType(c19FD, "TCPEndpoint")
				get := func(path string) ssa.Value {
					if s := di.fields[path]; len(s) == 1 {
						return s[0].Val
					}
					return nil
				}
				ip := get(fidx(tdir, "Endpoint") + "." + fidx(tep, "IP"))
				port := get(fidx(tdir, "Endpoint") + "." + fidx(tep, "Port"))
				buf := get(fidx(tdir, "Buffer"))
				raw := func(param int) string {
					return fmt.Sprintf("(gopacket.Endpoint).Raw((gopacket.Flow).%s(param#%d))", side.flowFn, param)
				}
				wantIP := "slices.Clone(" + raw(1) + ")"
				wantPort2 := "(encoding/binary.bigEndian).Uint16(encoding/binary.BigEndian," + raw(2) + ")"
				wantPort := "phi(" + wantPort2 + "|0)"
				if ip == nil {
					ru.Fail(k+":"+side.field+".IP", c.pos(sts[0]), "the "+side.field+" endpoint's IP is not set")
				} else {
					ru.Check(c.sig(ip) == wantIP, k+":"+side.field+".IP", c.pos(sts[0]), "IP = "+wantIP, "IP is "+c.sig(ip)+", expected "+wantIP+" (network flow "+side.flowFn+" address, copied)")
				}
				if port == nil {
					ru.Fail(k+":"+side.field+".Port", c.pos(sts[0]), "the "+side.field+" endpoint's Port is not set")
				} else {
					why := c.portExpr(port, wantPort2, raw(2))
					ru.Check(why == "", k+":"+side.field+".Port", c.pos(sts[0]), "Port = "+wantPort, "Port: "+why+"; expected "+wantPort+" with the decoded value chosen exactly when the transport endpoint is 2 bytes long (transport flow "+side.flowFn+" port, big endian)")
				}
				if buf == nil {
					ru.Fail(k+":"+side.field+".Buffer", c.pos(sts[0]), "the "+side.field+" direction has no Buffer: ReassembledSG would dereference nil")
				} else {
					ba, ok := c.origin(buf).(*ssa.Alloc)
					ru.Check(ok && ba.Heap, k+":"+side.field+".Buffer", c.pos(sts[0]), "fresh bytes.Buffer", "Buffer is "+c.sig(buf)+", expected a freshly allocated bytes.Buffer")
					if ok {
						bufs = append(bufs, ba)
					}
				}
			}
			if len(bufs) == 2 {
				ru.Check(bufs[0] != bufs[1], k+":buffers-distinct", c.pos(fn), "client and server use different buffers", "client and server share one Buffer: the two directions are mixed")
			}
			// FSM
			fsm := ci.fields[fidx(tconn, "tcpState")]
			okFSM := false
			if len(fsm) == 1 {
				if cl, ok := c.origin(fsm[0].Val).(*ssa.Call); ok && c19calleeName(cl.Common()) == "gopacket/reassembly.NewTCPSimpleFSM" {
					// SupportMissingEstablishment constant in the options literal
					if ld, ok := cl.Common().Args[0].(*ssa.UnOp); ok {
						if oa := c.cell(ld.X); oa != nil {
							for _, sts := range c.cellInfo(oa).fields {
								for _, st := range sts {
									fa := st.Addr.(*ssa.FieldAddr)
									if fieldNameOf(fa.X.Type(), fa.Field) == "SupportMissingEstablishment" {
										if b, ok := c19constBool(st.Val); ok && b {
											okFSM = true
										}
									}
								}
							}
						}
					}
				}
			}
			ru.Check(okFSM, k+":fsm", c.pos(fn), "tcpState = NewTCPSimpleFSM{SupportMissingEstablishment: true}", "the connection FSM is not created with SupportMissingEstablishment: true: captures that start mid-connection are rejected segment by segment")
			// option checker: only on request
			okOpt, whyOpt := true, ""
			for _, st := range ci.fields[fidx(tconn, "optChecker")] {
				gated := false
				for _, cd := range c19structConds(st.Block()) {
					if cd.t && c.sig(cd.v) == "param#0.Options.CheckTCPOptions" {
						gated = true
					}
				}
				if !gated {
					okOpt, whyOpt = false, c.pos(st)
				}
			}
			ru.Check(okOpt, k+":optcheck-gated", c.pos(fn), "gopacket's TCP option checker is installed only when Options.CheckTCPOptions is set", "the TCP option checker is installed ("+whyOpt+") without Options.CheckTCPOptions being true: with it gopacket rejects segments larger than the announced MSS or with stale timestamps, their bytes are missing from the stream")
			// registration
			reg := false
			var regCond []string
			fw.EachInstr(fn, func(ins ssa.Instruction) {
				st, ok := ins.(*ssa.Store)
				if !ok {
					return
				}
				if fa, ok := c19fieldOf(st.Addr, tdec, "TCPConnections"); ok && fa.X == ssa.Value(fn.Params[0]) {
					if ap, ok := st.Val.(*ssa.Call); ok && fw.IsBuiltinCall(ap, "append") {
						old, okOld := c19loadOfField(ap.Common().Args[0], tdec, "TCPConnections")
						if okOld && old == ssa.Value(fn.Params[0]) && c.sliceHas(ap.Common().Args[1], conn) {
							reg = true
							for _, cd := range c19structConds(st.Block()) {
								regCond = append(regCond, c.sig(cd.v))
							}
							if len(regCond) == 0 && c19skippable(st, nil) {
								regCond = append(regCond, "a condition on some path (New can return without registering)")
							}
						}
					}
				}
			})
			ru.Check(reg, k+":registered", c.pos(fn), "the connection is appended to fd.TCPConnections", "the new connection is not appended to the receiver's TCPConnections: it never shows up in tcp_connections")
			if reg {
				ru.Check(len(regCond) == 0, k+":registered-always", c.pos(fn), "every new connection is registered", "the connection is registered only when "+strings.Join(regCond, " ; ")+": other connections (no handshake in the capture, no payload ...) never show up in tcp_connections although the assembler delivers their data")
			}
		}
	}
	// flowsdecoder.New
	nf := getFn(ru, c.p, c19FD+".New")
	if nf == nil {
		return
	}
	k := "flowsdecoder.New"
	var dec *ssa.Alloc
	for _, ret := range returnsOf(nf) {
		if len(ret.Results) == 1 {
			if a, ok := c.origin(ret.Results[0]).(*ssa.Alloc); ok && c19isNamed(a.Type(), tdec) && a.Heap {
				dec = a
			}
		}
	}
	if dec == nil {
		ru.Fail(k+":fresh", c.pos(nf), "New does not return a freshly allocated Decoder: state would be shared between captures")
		return
	}
	ru.Ok(k+":fresh", c.pos(nf), "returns a fresh Decoder")
	di := c.cellInfo(dec)
	st := tdec.Underlying().(*types.Struct)
	byName := map[string]ssa.Value{}
	for i := 0; i < st.NumFields(); i++ {
		if s := di.fields[fmt.Sprint(i)]; len(s) == 1 {
			byName[st.Field(i).Name()] = s[0].Val
		} else if len(s) > 1 {
			byName[st.Field(i).Name()] = nil
		}
	}
	wantAsm := "gopacket/reassembly.NewAssembler(gopacket/reassembly.NewStreamPool(new:" + c19FD + ".Decoder))"
	if v := byName["tcpAssembler"]; v == nil {
		ru.Fail(k+":assembler", c.pos(nf), "tcpAssembler is not set exactly once")
	} else {
		g := c.sig(v)
		same := false
		if a, ok := c.origin(v).(*ssa.Call); ok && len(a.Common().Args) == 1 {
			if sp, ok := c.origin(a.Common().Args[0]).(*ssa.Call); ok && len(sp.Common().Args) == 1 {
				same = c.origin(sp.Common().Args[0]) == ssa.Value(dec)
			}
		}
		ru.Check(g == wantAsm && same, k+":assembler", c.pos(nf), "tcpAssembler = NewAssembler(NewStreamPool(this decoder))", "tcpAssembler is "+g+", expected a new assembler whose stream factory is the decoder being returned (connections must be recorded on it)")
	}
	if v := byName["ipv4Defrag"]; v == nil {
		ru.Fail(k+":defrag", c.pos(nf), "ipv4Defrag is not set exactly once")
	} else {
		g := c.sig(v)
		ru.Check(g == "gopacket/ip4defrag.NewIPv4Defragmenter()", k+":defrag", c.pos(nf), "ipv4Defrag = NewIPv4Defragmenter()", "ipv4Defrag is "+g+", expected a new defragmenter per decoder (fragments of different captures must not meet)")
	}
}

// sliceHas: the varargs slice (slice of a fresh array with element stores) has want as an element.
func (c *c19) sliceHas(v ssa.Value, want ssa.Value) bool {
	sl, ok := v.(*ssa.Slice)
	if !ok {
		return false
	}
	a, ok := sl.X.(*ssa.Alloc)
	if !ok || a.Referrers() == nil {
		return false
	}
	for _, r := range *a.Referrers() {
		if ia, ok := r.(*ssa.IndexAddr); ok && ia.Referrers() != nil {
			for _, r2 := range *ia.Referrers() {
				if st, ok := r2.(*ssa.Store); ok && st.Addr == ssa.Value(ia) && c.origin(st.Val) == want {
					return true
				}
			}
		}
	}
	return false
}

// ---------------------------------------------------------------------------
// C19.defrag

func (c *c19) ruleDefrag() {
	ru := c.r.Rule("C19.defrag", "packet(): the IPv4 layer goes through the decoder's defragmenter before any TCP layer is looked up; a datagram counts as reassembled exactly when the defragmenter's result is another layer than the fragment handed in (identity, not the Length fields: payload length and total length coincide when the other fragments carry 20 bytes); it is then serialised (payload, then header with fixed lengths/checksums), recorded with src/dst and re-decoded into the packet; every packet with a TCP layer (and only those) goes to the decoder's assembler with the packet's network flow", 18)
	fn := getFn(ru, c.p, "(*"+c19FD+".Decoder).packet")
	tdec := c.p.NamedType(c19FD, "Decoder")
	trec := c.p.NamedType(c19FD, "IPV4Reassembled")
	if fn == nil || tdec == nil || trec == nil || len(fn.Params) < 2 {
		if fn != nil {
			ru.Undecided("anchor:types", "", "flowsdecoder.Decoder/IPV4Reassembled not found")
		}
		return
	}
	k := "packet"
	fd, pk := fn.Params[0], fn.Params[1]
	layerOf := func(global string) []*ssa.Call {
		var out []*ssa.Call
		for _, cl := range c19invokesOn(fn, pk, "Layer") {
			if c.sig(cl.Common().Args[0]) == "gopacket/layers."+global {
				out = append(out, cl)
			}
		}
		return out
	}
	l4 := layerOf("LayerTypeIPv4")
	lt := layerOf("LayerTypeTCP")
	dfs := c19staticCalls(fn, "(*gopacket/ip4defrag.IPv4Defragmenter).DefragIPv4")
	asm := c19staticCalls(fn, "(*gopacket/reassembly.Assembler).Assemble")
	if len(l4) != 1 || len(lt) != 1 || len(dfs) != 1 || len(asm) != 1 {
		ru.Undecided(k+":shape", c.pos(fn), fmt.Sprintf("expected one each of p.Layer(LayerTypeIPv4), p.Layer(LayerTypeTCP), DefragIPv4, Assemble; found %d/%d/%d/%d", len(l4), len(lt), len(dfs), len(asm)))
		return
	}
	df, as := dfs[0], asm[0]
	ip4sig := "param#1.Layer(gopacket/layers.LayerTypeIPv4).(*gopacket/layers.IPv4)#0"
	// defragmenter call
	g := c.sig(df)
	want := "(*gopacket/ip4defrag.IPv4Defragmenter).DefragIPv4(param#0.ipv4Defrag," + ip4sig + ")"
	ru.Check(g == want, k+":defrag-call", c.pos(df), want, "defragmenter is called as "+g+", expected the decoder's own defragmenter on this packet's IPv4 layer")
	// assembler call
	g = c.sig(as)
	want = "(*gopacket/reassembly.Assembler).Assemble(param#0.tcpAssembler,param#1.NetworkLayer().NetworkFlow(),param#1.Layer(gopacket/layers.LayerTypeTCP).(*gopacket/layers.TCP)#0)"
	ru.Check(g == want, k+":assemble-call", c.pos(as), want, "assembler is called as "+g+", expected the decoder's own assembler with the packet's network flow and TCP layer")
	okGuard := false
	for _, cd := range c19condsAt(as.Block()) {
		if bo, ok := cd.v.(*ssa.BinOp); ok && ((bo.Op == token.NEQ && cd.t) || (bo.Op == token.EQL && !cd.t)) {
			if (bo.X == ssa.Value(lt[0]) && isNilConst(bo.Y)) || (bo.Y == ssa.Value(lt[0]) && isNilConst(bo.X)) {
				okGuard = true
			}
		}
	}
	ru.Check(okGuard, k+":assemble-guard", c.pos(as), "only packets with a TCP layer are assembled", "Assemble is not guarded by p.Layer(LayerTypeTCP) != nil")
	extraAsm := c.otherCondsIn(c19structConds(as.Block()), map[ssa.Value]bool{ssa.Value(lt[0]): true}, nil)
	if extraAsm == "" && c19skippable(as, func(v ssa.Value) (bool, bool) {
		if bo, ok := v.(*ssa.BinOp); ok && (bo.Op == token.NEQ || bo.Op == token.EQL) && ((bo.X == ssa.Value(lt[0]) && isNilConst(bo.Y)) || (bo.Y == ssa.Value(lt[0]) && isNilConst(bo.X))) {
			return bo.Op == token.NEQ, true
		}
		return c19assumeNoError(v)
	}) {
		extraAsm = "a condition on some path (packet() can complete without Assemble although the packet has a TCP layer)"
	}
	ru.Check(extraAsm == "", k+":assemble-always", c.pos(as), "every packet with a TCP layer is handed to the assembler", "Assemble additionally depends on "+extraAsm+": TCP segments for which it does not hold (other network layer, empty payload ...) never reach the assembler")
	// order: defrag strictly before the TCP layer lookup
	ru.Check(c19blockReaches(df.Block(), lt[0].Block(), nil) || df.Block() == lt[0].Block() && instrIndex(df) < instrIndex(lt[0]), k+":defrag-then-tcp", c.pos(lt[0]),
		"TCP layer is looked up after defragmentation", "the TCP layer lookup cannot follow DefragIPv4")
	ru.Check(!c19blockReaches(lt[0].Block(), df.Block(), nil) && !(df.Block() == lt[0].Block() && instrIndex(lt[0]) < instrIndex(df)), k+":tcp-not-before-defrag", c.pos(lt[0]),
		"no path looks up TCP before defragmentation", "the TCP layer is looked up before IPv4 defragmentation: TCP segments carried in fragments are assembled from the raw fragment")
	// every path from entry that has an IPv4 layer passes the defragmenter: the lookup of TCP is not
	// reachable from the "ip4 layer present" edge without DefragIPv4
	okThrough := false
	for _, cd := range c19condsAt(df.Block()) {
		if bo, ok := cd.v.(*ssa.BinOp); ok && ((bo.Op == token.NEQ && cd.t) || (bo.Op == token.EQL && !cd.t)) {
			if (bo.X == ssa.Value(l4[0]) && isNilConst(bo.Y)) || (bo.Y == ssa.Value(l4[0]) && isNilConst(bo.X)) {
				okThrough = true
			}
		}
	}
	extra := c.otherConds(df.Block(), map[ssa.Value]bool{ssa.Value(l4[0]): true}, nil)
	ru.Check(okThrough && extra == "", k+":defrag-always", c.pos(df), "every IPv4 packet is handed to the defragmenter", "DefragIPv4 is not reached for every packet with an IPv4 layer (extra condition: "+extra+")")

	// completion test: the block that records the datagram
	newIP := extractOf(df, 0)
	dfErr := extractOf(df, 1)
	var rec *ssa.Store
	fw.EachInstr(fn, func(ins ssa.Instruction) {
		if st, ok := ins.(*ssa.Store); ok {
			if fa, ok := c19fieldOf(st.Addr, tdec, "IPV4Reassembled"); ok && fa.X == ssa.Value(fd) {
				rec = st
			}
		}
	})
	dec := c19staticCalls(fn, "(gopacket.LayerType).Decode")
	if rec == nil || newIP == nil || len(dec) != 1 {
		ru.Fail(k+":record", c.pos(fn), "reassembled datagrams are not appended to fd.IPV4Reassembled / not re-decoded into the packet")
		return
	}
	tip4 := c.p.ByPath[c19GPLay].Types.Scope().Lookup("IPv4").Type().(*types.Named)
	isLen := func(v ssa.Value, of ssa.Value) bool {
		x, ok := c19loadOfField(c19strip(v), tip4, "Length")
		return ok && c19strip(x) == of
	}
	ip4 := df.Common().Args[1]
	for _, site := range []struct {
		name string
		ins  ssa.Instruction
	}{{"record", rec}, {"redecode", dec[0]}} {
		lenCmp, ptrCmp := false, false
		// the defragmenter hands back its argument itself for a datagram that needs no reassembly and a new
		// layer for a completed one: identity is the exact test
		isSame := func(bo *ssa.BinOp) bool {
			return (c19strip(bo.X) == c19strip(newIP) && c19strip(bo.Y) == c19strip(ip4)) || (c19strip(bo.Y) == c19strip(newIP) && c19strip(bo.X) == c19strip(ip4))
		}
		for _, cd := range c19condsAt(site.ins.Block()) {
			bo, ok := cd.v.(*ssa.BinOp)
			if !ok {
				continue
			}
			if (bo.Op == token.NEQ && cd.t) || (bo.Op == token.EQL && !cd.t) {
				if (isLen(bo.X, newIP) && isLen(bo.Y, ip4)) || (isLen(bo.Y, newIP) && isLen(bo.X, ip4)) {
					lenCmp = true
				}
				if isSame(bo) {
					ptrCmp = true
				}
			}
		}
		allowed := map[ssa.Value]bool{ssa.Value(l4[0]): true, newIP: true}
		if dfErr != nil {
			allowed[dfErr] = true
		}
		extra := c.otherConds(site.ins.Block(), allowed, func(bo *ssa.BinOp) bool {
			return isSame(bo)
		})
		ru.Check(ptrCmp && !lenCmp, k+":complete-by-result:"+site.name, c.pos(site.ins), "guarded by defragmented != fragment (identity of the defragmenter's result)",
			"the reassembled datagram is not used exactly when the defragmenter's result is another layer than the fragment handed in: completion must be read off the defragmenter's result (fragments can arrive in any order), and not off the two Length fields - the result's Length is the reassembled payload, the fragment's includes its header, so they are equal whenever the other fragments carry exactly 20 bytes and the completed datagram is dropped")
		ru.Check(extra == "", k+":complete-only-by-result:"+site.name, c.pos(site.ins), "no other condition decides completion",
			"completion additionally depends on "+extra+": a datagram the defragmenter completed can be dropped")
	}
	// recorded entry
	var lit *ssa.Alloc
	if ap, ok := rec.Val.(*ssa.Call); ok && fw.IsBuiltinCall(ap, "append") {
		if sl, ok := ap.Common().Args[1].(*ssa.Slice); ok {
			if arr, ok := sl.X.(*ssa.Alloc); ok && arr.Referrers() != nil {
				for _, r := range *arr.Referrers() {
					if ia, ok := r.(*ssa.IndexAddr); ok && ia.Referrers() != nil {
						for _, r2 := range *ia.Referrers() {
							if st, ok := r2.(*ssa.Store); ok && st.Addr == ssa.Value(ia) {
								if ld, ok := st.Val.(*ssa.UnOp); ok {
									lit = c.cell(ld.X)
								}
							}
						}
					}
				}
			}
		}
		old, okOld := c19loadOfField(ap.Common().Args[0], tdec, "IPV4Reassembled")
		ru.Check(okOld && old == ssa.Value(fd), k+":record-append", c.pos(rec), "appended to the existing list", "fd.IPV4Reassembled is not extended from its previous value: earlier datagrams are lost")
	}
	if lit == nil {
		ru.Undecided(k+":record-fields", c.pos(rec), "the recorded IPV4Reassembled value is not a struct literal")
		return
	}
	li := c.cellInfo(lit)
	st := trec.Underlying().(*types.Struct)
	vals := map[string]ssa.Value{}
	for i := 0; i < st.NumFields(); i++ {
		if s := li.fields[fmt.Sprint(i)]; len(s) == 1 {
			vals[st.Field(i).Name()] = s[0].Val
		}
	}
	ipField := func(v ssa.Value, field string) bool {
		if v == nil {
			return false
		}
		x, ok := c19loadOfField(c19strip(v), tip4, field)
		return ok && (c19strip(x) == newIP || c.sig(x) == ip4sig)
	}
	ru.Check(ipField(vals["SourceIP"], "SrcIP"), k+":record-src", c.pos(rec), "SourceIP = IPv4.SrcIP", "SourceIP is "+c.sigOrNone(vals["SourceIP"])+", expected the SrcIP of the (de)fragmented IPv4 header")
	ru.Check(ipField(vals["DestinationIP"], "DstIP"), k+":record-dst", c.pos(rec), "DestinationIP = IPv4.DstIP", "DestinationIP is "+c.sigOrNone(vals["DestinationIP"])+", expected the DstIP of the (de)fragmented IPv4 header")
	// datagram bytes: sb.Bytes() after newIPv4.SerializeTo(sb, {FixLengths, ComputeChecksums}) after payload was prepended
	var sb ssa.Value
	if b, ok := c19strip(vals["Datagram"]).(*ssa.Call); vals["Datagram"] != nil && ok && b.Common().IsInvoke() && b.Common().Method.Name() == "Bytes" {
		sb = b.Common().Value
	}
	ser := c19staticCalls(fn, "(*gopacket/layers.IPv4).SerializeTo")
	okSer := sb != nil && len(ser) == 1
	why := "Datagram is " + c.sigOrNone(vals["Datagram"]) + ", expected the Bytes() of the buffer the defragmented header was serialised to"
	if okSer {
		sc := ser[0].Common()
		okSer = c19strip(sc.Args[0]) == newIP && sc.Args[1] == sb
		if okSer {
			bcall, _ := c19strip(vals["Datagram"]).(*ssa.Call)
			okSer = c19before(ser[0], bcall)
			why = "the buffer is read before the header is serialised"
		}
	}
	ru.Check(okSer, k+":record-datagram", c.pos(rec), "Datagram = sb.Bytes() after defragmented.SerializeTo(sb, ...)", why)
	if okSer {
		// options
		fix, sum := false, false
		if ld, ok := ser[0].Common().Args[2].(*ssa.UnOp); ok {
			if oa := c.cell(ld.X); oa != nil {
				for _, sts := range c.cellInfo(oa).fields {
					for _, s := range sts {
						fa := s.Addr.(*ssa.FieldAddr)
						b, isB := c19constBool(s.Val)
						switch fieldNameOf(fa.X.Type(), fa.Field) {
						case "FixLengths":
							fix = isB && b
						case "ComputeChecksums":
							sum = isB && b
						}
					}
				}
			}
		}
		ru.Check(fix && sum, k+":serialize-opts", c.pos(ser[0]), "FixLengths and ComputeChecksums are true", "the reassembled header is serialised without FixLengths/ComputeChecksums: length and checksum fields of the recorded datagram are those of a fragment")
		// payload first
		pre := c19invokesOn(fn, sb, "PrependBytes")
		okPay := false
		isPayload := func(v ssa.Value) bool {
			u, ok := c19strip(v).(*ssa.UnOp)
			if !ok {
				return false
			}
			fa, ok := u.X.(*ssa.FieldAddr)
			if !ok || fieldNameOf(fa.X.Type(), fa.Field) != "Payload" {
				return false
			}
			b, ok := fa.X.(*ssa.FieldAddr) // embedded BaseLayer
			return ok && c19strip(b.X) == newIP
		}
		if len(pre) == 1 {
			if ln, ok := c19strip(pre[0].Common().Args[0]).(*ssa.Call); ok && fw.IsBuiltinCall(ln, "len") && isPayload(ln.Common().Args[0]) {
				dst := extractOf(pre[0], 0)
				fw.EachInstr(fn, func(ins ssa.Instruction) {
					if cp, ok := ins.(*ssa.Call); ok && fw.IsBuiltinCall(cp, "copy") && dst != nil && cp.Common().Args[0] == dst && isPayload(cp.Common().Args[1]) {
						if c19before(pre[0], cp) && c19before(cp, ser[0]) {
							okPay = true
						}
					}
				})
			}
		}
		ru.Check(okPay, k+":payload", c.pos(ser[0]), "payload of the defragmented datagram is copied into the buffer before the header is prepended", "the buffer does not receive exactly the defragmented payload (PrependBytes(len(payload)); copy(.., payload)) before SerializeTo")
	}
	// re-decode into the packet
	d := dec[0]
	g = c.sig(d)
	okDec := false
	if len(d.Common().Args) == 3 {
		nl, ok := c19strip(d.Common().Args[0]).(*ssa.Call)
		okDec = ok && c19calleeName(nl.Common()) == "(*gopacket/layers.IPv4).NextLayerType" && c19strip(nl.Common().Args[0]) == newIP
		if u, ok := c19strip(d.Common().Args[1]).(*ssa.UnOp); okDec && ok {
			fa, ok := u.X.(*ssa.FieldAddr)
			okDec = ok && fieldNameOf(fa.X.Type(), fa.Field) == "Payload"
			if okDec {
				b, ok := fa.X.(*ssa.FieldAddr)
				okDec = ok && c19strip(b.X) == newIP
			}
		} else {
			okDec = false
		}
		if ex, ok := c19strip(d.Common().Args[2]).(*ssa.Extract); okDec && ok {
			ta, ok := ex.Tuple.(*ssa.TypeAssert)
			okDec = ok && ta.X == ssa.Value(pk)
		} else if ta, ok := c19strip(d.Common().Args[2]).(*ssa.TypeAssert); okDec && ok {
			okDec = ta.X == ssa.Value(pk)
		} else {
			okDec = false
		}
	}
	ru.Check(okDec, k+":redecode-call", c.pos(d), "defragmented.NextLayerType().Decode(defragmented.Payload, p as PacketBuilder)", "re-decode is "+g+", expected the defragmented datagram's next layer type decoding its payload into this packet")
	ru.Check(c19blockReaches(d.Block(), lt[0].Block(), nil), k+":redecode-then-tcp", c.pos(d), "TCP lookup follows the re-decode", "the TCP layer lookup does not follow the re-decode of the reassembled datagram")
}

func (c *c19) sigOrNone(v ssa.Value) string {
	if v == nil {
		return "<unset>"
	}
	return c.sig(v)
}

// otherConds lists dominating conditions of b that are not nil/non-nil tests of an allowed value
// and are not accepted by the extra predicate.
func (c *c19) otherConds(b *ssa.BasicBlock, allowed map[ssa.Value]bool, extra func(*ssa.BinOp) bool) string {
	return c.otherCondsIn(c19condsAt(b), allowed, extra)
}

func (c *c19) otherCondsIn(conds []c19cond, allowed map[ssa.Value]bool, extra func(*ssa.BinOp) bool) string {
	var out []string
	for _, cd := range conds {
		if ex, ok := cd.v.(*ssa.Extract); ok {
			if _, ok := ex.Tuple.(*ssa.TypeAssert); ok {
				continue // comma-ok of a type assertion
			}
		}
		if bo, ok := cd.v.(*ssa.BinOp); ok {
			if (bo.Op == token.EQL || bo.Op == token.NEQ) && ((allowed[c19strip(bo.X)] && isNilConst(bo.Y)) || (allowed[c19strip(bo.Y)] && isNilConst(bo.X))) {
				continue
			}
			if (bo.Op == token.EQL || bo.Op == token.NEQ) && (isNilConst(bo.X) || isNilConst(bo.Y)) && types.TypeString(bo.X.Type(), nil) == "error" {
				continue // error exit
			}
			if extra != nil && extra(bo) {
				continue
			}
		}
		out = append(out, c.sig(cd.v))
	}
	return strings.Join(out, " ; ")
}

// ---------------------------------------------------------------------------
// C19.link

// c19linkRows: libpcap link types (by gopacket's constant) and the gopacket layer a frame of that
// type starts with. "" = raw IP: the version nibble selects IPv4 or IPv6.
var c19linkRows = []struct{ gpLink, layer string }{
	{"LinkTypeNull", "LayerTypeLoopback"},
	{"LinkTypeEthernet", "LayerTypeEthernet"},
	{"LinkTypeRaw", ""},
	{"LinkTypeLinuxSLL", "LayerTypeLinuxSLL"},
	{"LinkTypeIPv4", "LayerTypeIPv4"},
	{"LinkTypeIPv6", "LayerTypeIPv6"},
	{"LinkTypeLinuxSLL2", "LayerTypeLinuxSLL2"},
}

// linkTable extracts linkToDecodeFn: link type value -> Decoder method.
func (c *c19) linkTable(ru *fw.Rule) (map[int64]*types.Func, *types.Var) {
	pk := c.p.Pkg(c19PCAP)
	tdec := c.p.NamedType(c19FD, "Decoder")
	if pk == nil || tdec == nil {
		ru.Undecided("anchor:pcap", "", "package format/pcap or flowsdecoder.Decoder not found")
		return nil, nil
	}
	// the table is the package-level map[int]func(*flowsdecoder.Decoder, []byte) error
	var tv *types.Var
	for _, name := range pk.Types.Scope().Names() {
		v, ok := pk.Types.Scope().Lookup(name).(*types.Var)
		if !ok {
			continue
		}
		m, ok := v.Type().Underlying().(*types.Map)
		if !ok {
			continue
		}
		sg, ok := m.Elem().Underlying().(*types.Signature)
		if !ok || sg.Params().Len() != 2 || !c19isNamed(sg.Params().At(0).Type(), tdec) {
			continue
		}
		if tv != nil {
			ru.Undecided("anchor:table", "", "more than one link type dispatch table in format/pcap")
			return nil, nil
		}
		tv = v
	}
	if tv == nil {
		ru.Undecided("anchor:table", "", "no package-level map from link type to func(*flowsdecoder.Decoder, []byte) error in format/pcap")
		return nil, nil
	}
	var lit *ast.CompositeLit
	for _, f := range pk.Syntax {
		ast.Inspect(f, func(n ast.Node) bool {
			vs, ok := n.(*ast.ValueSpec)
			if !ok {
				return true
			}
			for i, id := range vs.Names {
				if pk.TypesInfo.Defs[id] == types.Object(tv) && i < len(vs.Values) {
					lit, _ = vs.Values[i].(*ast.CompositeLit)
				}
			}
			return true
		})
	}
	if lit == nil {
		ru.Undecided("table:"+tv.Name(), c.p.Rel(tv.Pos()), "the dispatch table is not initialised by a map literal")
		return nil, nil
	}
	out := map[int64]*types.Func{}
	for _, e := range lit.Elts {
		kv, ok := e.(*ast.KeyValueExpr)
		if !ok {
			continue
		}
		tvk := pk.TypesInfo.Types[kv.Key]
		if tvk.Value == nil || tvk.Value.Kind() != constant.Int {
			ru.Undecided("table:key", c.p.Rel(kv.Pos()), "non-constant key in the link type table")
			return nil, nil
		}
		kval, _ := constant.Int64Val(tvk.Value)
		var fnObj *types.Func
		val := ast.Unparen(kv.Value)
		if se, ok := val.(*ast.SelectorExpr); ok {
			if sel := pk.TypesInfo.Selections[se]; sel != nil {
				fnObj, _ = sel.Obj().(*types.Func)
			} else if o, ok := pk.TypesInfo.Uses[se.Sel].(*types.Func); ok {
				fnObj = o
			}
		} else if id, ok := val.(*ast.Ident); ok {
			fnObj, _ = pk.TypesInfo.Uses[id].(*types.Func)
		}
		if fnObj == nil {
			ru.Undecided(fmt.Sprintf("table:%d", kval), c.p.Rel(kv.Pos()), "table value is not a named function or method expression")
			return nil, nil
		}
		out[kval] = fnObj
	}
	return out, tv
}

func (c *c19) ruleLink() {
	ru := c.r.Rule("C19.link", "the link type table maps each libpcap link type value to the Decoder method that parses the frame as the matching gopacket layer (three-way agreement of fq's constant, gopacket's LinkType constant and the LayerType used); raw IP dispatches on the version nibble", 15)
	tab, tv := c.linkTable(ru)
	if tab == nil {
		return
	}
	// fq's own constants must carry libpcap's numbers too (they are the keys as written)
	fqName := map[string]string{"LinkTypeNull": "LinkTypeNULL", "LinkTypeEthernet": "LinkTypeETHERNET", "LinkTypeRaw": "LinkTypeRAW", "LinkTypeLinuxSLL": "LinkTypeLINUX_SLL",
		"LinkTypeIPv4": "LinkTypeIPv4", "LinkTypeIPv6": "LinkTypeIPv6", "LinkTypeLinuxSLL2": "LinkTypeLINUX_SLL2"}
	seen := map[int64]bool{}
	for _, row := range c19linkRows {
		key := "link:" + row.gpLink
		val, ok := c.scopeConstInt(c19GPLay, row.gpLink)
		if !ok {
			ru.Undecided(key, "", "gopacket layers."+row.gpLink+" not found")
			continue
		}
		seen[val] = true
		fv, okf := c.scopeConstInt(fw.Mod+"/format", fqName[row.gpLink])
		ru.Check(okf && fv == val, key+":const", c.p.Rel(tv.Pos()), fmt.Sprintf("format.%s = %d = layers.%s", fqName[row.gpLink], val, row.gpLink),
			fmt.Sprintf("format.%s is %d but libpcap/gopacket number %s as %d", fqName[row.gpLink], fv, row.gpLink, val))
		fo := tab[val]
		if fo == nil {
			ru.Fail(key+":entry", c.p.Rel(tv.Pos()), fmt.Sprintf("no entry for link type %d (%s): packets of such captures are never fed to the flow decoder", val, row.gpLink))
			continue
		}
		fn := c.p.SSA.FuncValue(fo)
		if fn == nil || fn.Blocks == nil {
			ru.Undecided(key+":entry", c.p.Rel(tv.Pos()), "no SSA body for "+fo.FullName())
			continue
		}
		if row.layer != "" {
			got, why := c.frameLayer(fn)
			ru.Check(why == "" && got == row.layer, key+":entry", c.pos(fn), fmt.Sprintf("%d -> %s -> layers.%s", val, fn.Name(), row.layer),
				fmt.Sprintf("link type %d (%s) is handled by %s which parses the frame as %s%s, expected layers.%s", val, row.gpLink, fn.Name(), got, why, row.layer))
		} else {
			c.rawIP(ru, key, fn)
		}
	}
	for val, fo := range tab {
		if seen[val] {
			continue
		}
		// additional link types: accept when gopacket has a LinkType constant of that value whose name matches the layer used
		key := fmt.Sprintf("link:%d", val)
		fn := c.p.SSA.FuncValue(fo)
		name := ""
		sc := c.p.ByPath[c19GPLay].Types.Scope()
		for _, n := range sc.Names() {
			if k, ok := sc.Lookup(n).(*types.Const); ok && strings.HasPrefix(n, "LinkType") && types.TypeString(k.Type(), nil) == c19GPLay+".LinkType" {
				if v, ok := constant.Int64Val(k.Val()); ok && v == val {
					name = strings.TrimPrefix(n, "LinkType")
				}
			}
		}
		got, why := "", "no body"
		if fn != nil && fn.Blocks != nil {
			got, why = c.frameLayer(fn)
		}
		if name != "" && why == "" && got == "LayerType"+name {
			ru.Ok(key+":entry", c.pos(fn), fmt.Sprintf("%d -> %s -> layers.%s", val, fn.Name(), got))
		} else {
			ru.Undecided(key+":entry", c.p.Rel(tv.Pos()), fmt.Sprintf("link type %d -> %s (%s%s) has no row in the rule's table: add the libpcap link type/gopacket layer pair", val, fo.Name(), got, why))
		}
	}
}

// frameLayer: fn must be  return fd.packet(gopacket.NewPacket(bs, layers.<LayerType>, ...)); returns the layer's name.
func (c *c19) frameLayer(fn *ssa.Function) (layer string, why string) {
	if len(fn.Params) != 2 {
		return "", " (unexpected signature)"
	}
	np := c19staticCalls(fn, "gopacket.NewPacket")
	pc := c19staticCalls(fn, "(*"+c19FD+".Decoder).packet")
	if len(np) != 1 || len(pc) != 1 {
		return "", fmt.Sprintf(" (%d NewPacket and %d packet() calls)", len(np), len(pc))
	}
	l := c.sig(np[0].Common().Args[1])
	layer = strings.TrimPrefix(l, "gopacket/layers.")
	if np[0].Common().Args[0] != ssa.Value(fn.Params[1]) {
		return layer, " from " + c.sig(np[0].Common().Args[0]) + " instead of the frame bytes"
	}
	pa := pc[0].Common().Args
	if pa[0] != ssa.Value(fn.Params[0]) || c19strip(pa[1]) != ssa.Value(np[0]) {
		return layer, " but does not hand that packet to the receiver's packet()"
	}
	for _, ret := range returnsOf(fn) {
		if len(ret.Results) != 1 || ret.Results[0] != ssa.Value(pc[0]) {
			return layer, " but does not return packet()'s error"
		}
	}
	return layer, ""
}

// rawIP: version = bs[0] >> 4; 4 -> IPv4Packet(bs), 6 -> IPv6Packet(bs); bs[0] guarded by a length test.
func (c *c19) rawIP(ru *fw.Rule, key string, fn *ssa.Function) {
	if len(fn.Params) != 2 {
		ru.Undecided(key+":entry", c.pos(fn), "unexpected signature of the raw IP handler")
		return
	}
	fd, bs := fn.Params[0], fn.Params[1]
	isVersion := func(v ssa.Value) bool {
		bo, ok := c19strip(v).(*ssa.BinOp)
		if !ok || bo.Op != token.SHR {
			return false
		}
		if k, ok := c19constInt(bo.Y); !ok || k != 4 {
			return false
		}
		u, ok := c19strip(bo.X).(*ssa.UnOp)
		if !ok || u.Op != token.MUL {
			return false
		}
		ia, ok := u.X.(*ssa.IndexAddr)
		if !ok || ia.X != ssa.Value(bs) {
			return false
		}
		k, ok := c19constInt(ia.Index)
		return ok && k == 0
	}
	for _, arm := range []struct {
		ver    int64
		method string
	}{{4, "IPv4Packet"}, {6, "IPv6Packet"}} {
		k := fmt.Sprintf("%s:version-%d", key, arm.ver)
		calls := c19staticCalls(fn, "(*"+c19FD+".Decoder)."+arm.method)
		if len(calls) == 0 {
			ru.Fail(k, c.pos(fn), fmt.Sprintf("raw IP frames with version %d are not handed to %s", arm.ver, arm.method))
			continue
		}
		ok := true
		why := ""
		for _, cl := range calls {
			a := cl.Common().Args
			if a[0] != ssa.Value(fd) || a[1] != ssa.Value(bs) {
				ok, why = false, "called with "+c.sig(a[1])+" instead of the frame bytes"
			}
			known := false
			for _, cd := range c19condsAt(cl.Block()) {
				if bo, isb := cd.v.(*ssa.BinOp); isb && bo.Op == token.EQL && cd.t {
					if kk, isk := c19constInt(bo.Y); isk && isVersion(bo.X) && kk == arm.ver {
						known = true
					}
					if kk, isk := c19constInt(bo.X); isk && isVersion(bo.Y) && kk == arm.ver {
						known = true
					}
				}
			}
			if !known {
				ok, why = false, fmt.Sprintf("not selected by (bs[0] >> 4) == %d", arm.ver)
			}
		}
		ru.Check(ok, k, c.pos(calls[0]), fmt.Sprintf("bs[0]>>4 == %d -> %s(bs)", arm.ver, arm.method), arm.method+" is "+why)
	}
	// the index is guarded
	okG, n := true, 0
	fw.EachInstr(fn, func(ins ssa.Instruction) {
		ia, ok := ins.(*ssa.IndexAddr)
		if !ok || ia.X != ssa.Value(bs) {
			return
		}
		n++
		g := false
		for _, cd := range c19condsAt(ia.Block()) {
			bo, ok := cd.v.(*ssa.BinOp)
			if !ok {
				continue
			}
			ln, isLen := c19strip(bo.X).(*ssa.Call)
			kk, isK := c19constInt(bo.Y)
			if !isLen || !isK || !fw.IsBuiltinCall(ln, "len") || ln.Common().Args[0] != ssa.Value(bs) {
				continue
			}
			switch {
			case bo.Op == token.EQL && !cd.t && kk == 0, bo.Op == token.NEQ && cd.t && kk == 0,
				bo.Op == token.GTR && cd.t && kk >= 0, bo.Op == token.GEQ && cd.t && kk >= 1,
				bo.Op == token.LSS && !cd.t && kk >= 1, bo.Op == token.LEQ && !cd.t && kk >= 0:
				g = true
			}
		}
		if !g {
			okG = false
		}
	})
	ru.Check(okG && n > 0, key+":nonempty", c.pos(fn), "bs[0] is read only when len(bs) > 0", "the version nibble is read without a dominating len(bs) test: an empty raw packet panics (finding F5)")
}
