package rules

import (
	"fmt"
	"go/token"
	"go/types"
	"strings"

	"golang.org/x/tools/go/ssa"

	"fqverif/fw"
)

// c16GoRow is one row of a Go type-code table as the torepr reducer sees it.
type c16GoRow struct {
	Key      string
	Attrs    map[string]string // discriminator field -> Sym
	Class    string            // map | array | bytes | scalar | bool | none
	Produced map[string]bool   // field names the handler adds next to the discriminator
	Pos      string
}

// c16Format is what the repr rules need to know about one binary format.
type c16Format struct {
	Name      string
	Pkg       string // package rel path
	Rows      []c16GoRow
	Syms      map[string]map[string]bool // discriminator field -> all Syms the Go side can emit
	PkgFields map[string]bool            // all constant field names created in the package
}

func (x *c16) pkgFields(rel string) map[string]bool {
	out := map[string]bool{}
	e := newC16Eval()
	for _, fn := range x.p.FqFunctions() {
		if pkgRel(fn) != rel {
			continue
		}
		for _, o := range x.opsOfFn(fn, e) {
			if o.Field != "" {
				out[o.Field] = true
			}
		}
	}
	return out
}

// hasStructFields: struct type t has a func-typed field and a field of type scalar.Uint.
func c16IsEntryStruct(t types.Type) bool {
	st, ok := t.Underlying().(*types.Struct)
	if !ok {
		return false
	}
	fn, sc := false, false
	for i := 0; i < st.NumFields(); i++ {
		ft := st.Field(i).Type()
		if _, ok := ft.Underlying().(*types.Signature); ok {
			fn = true
		}
		if n, ok := ft.(*types.Named); ok && n.Obj().Name() == "Uint" && n.Obj().Pkg() != nil && n.Obj().Pkg().Path() == fw.Mod+"/pkg/scalar" {
			sc = true
		}
	}
	return fn && sc
}

// resolveHandler: the function a table row dispatches to; parameters of a constructor call are
// bound to its constant arguments in e.
func c16ResolveHandler(v ssa.Value, e *c16Eval) (*ssa.Function, string) {
	switch h := v.(type) {
	case *ssa.Function:
		return h, ""
	case *ssa.MakeClosure:
		return h.Fn.(*ssa.Function), ""
	case *ssa.Call:
		callee := h.Common().StaticCallee()
		if callee == nil {
			if mc, ok := h.Common().Value.(*ssa.MakeClosure); ok {
				callee = mc.Fn.(*ssa.Function)
			}
		}
		if callee == nil {
			return nil, "handler built by a dynamic call"
		}
		for i, p := range callee.Params {
			if i < len(h.Common().Args) {
				e.bind[p] = e.lin(h.Common().Args[i])
			}
		}
		rs := closuresReturnedBy(callee)
		if len(rs) != 1 {
			return nil, fmt.Sprintf("constructor %s returns %d closures", callee.Name(), len(rs))
		}
		return rs[0], ""
	}
	return nil, fmt.Sprintf("handler is %T", v)
}

// callsOnly: fn is target, or a wrapper whose only call into fq code is target.
func c16CallsOnly(fn, target *ssa.Function) bool {
	if fn == nil {
		return false
	}
	if fn == target {
		return true
	}
	n, hit := 0, 0
	for _, c := range fw.CallsIn(fn) {
		cal := c.Common().StaticCallee()
		if cal == nil {
			n++
			continue
		}
		if fw.InFq(cal) {
			n++
			if cal == target {
				hit++
			}
		}
	}
	return n == 1 && hit == 1
}

type c16MpSpec struct {
	lo, hi int
	class  string
	n      int
}

// MessagePack specification, "Formats" overview table.
var c16MsgpackSpec = []c16MpSpec{
	{0x00, 0x7f, "posfixint", 0}, {0x80, 0x8f, "map", 4}, {0x90, 0x9f, "array", 4}, {0xa0, 0xbf, "str", 5},
	{0xc0, 0xc0, "nil", 0}, {0xc1, 0xc1, "never", 0}, {0xc2, 0xc2, "false", 0}, {0xc3, 0xc3, "true", 0},
	{0xc4, 0xc4, "bin", 8}, {0xc5, 0xc5, "bin", 16}, {0xc6, 0xc6, "bin", 32},
	{0xc7, 0xc7, "ext", 8}, {0xc8, 0xc8, "ext", 16}, {0xc9, 0xc9, "ext", 32},
	{0xca, 0xca, "F", 32}, {0xcb, 0xcb, "F", 64},
	{0xcc, 0xcc, "U", 8}, {0xcd, 0xcd, "U", 16}, {0xce, 0xce, "U", 32}, {0xcf, 0xcf, "U", 64},
	{0xd0, 0xd0, "S", 8}, {0xd1, 0xd1, "S", 16}, {0xd2, 0xd2, "S", 32}, {0xd3, 0xd3, "S", 64},
	{0xd4, 0xd4, "fixext", 1}, {0xd5, 0xd5, "fixext", 2}, {0xd6, 0xd6, "fixext", 4}, {0xd7, 0xd7, "fixext", 8}, {0xd8, 0xd8, "fixext", 16},
	{0xd9, 0xd9, "str", 8}, {0xda, 0xda, "str", 16}, {0xdb, 0xdb, "str", 32},
	{0xdc, 0xdc, "array", 16}, {0xdd, 0xdd, "array", 32}, {0xde, 0xde, "map", 16}, {0xdf, 0xdf, "map", 32},
	{0xe0, 0xff, "negfixint", 0},
}

func c16MpSpecOf(b int) c16MpSpec {
	for _, s := range c16MsgpackSpec {
		if b >= s.lo && b <= s.hi {
			return s
		}
	}
	return c16MpSpec{}
}

// containerCheck verifies "Array(name, closure)" where the closure is a counted loop over
// exactly bound elements and each iteration decodes one value (array) or key then value (map)
// through dispatcher. Returns "" or the discrepancy.
func (x *c16) containerCheck(ops []c16Op, e *c16Eval, bound c16Lin, isMap bool, dispatcher *ssa.Function) string {
	arrs := c16Find(ops, "Array")
	if len(arrs) != 1 {
		return fmt.Sprintf("%d FieldArray calls, expected 1", len(arrs))
	}
	cl := c16FnArg(arrs[0], 1)
	if cl == nil {
		return "FieldArray body is not a resolvable function"
	}
	loop, why := c16CountedLoop(cl)
	if loop == nil {
		return "element loop: " + why
	}
	if loop.Start != 0 || loop.Step != 1 || !loop.Strict {
		return fmt.Sprintf("element loop is not `for i := 0; i < n; i++` (start %d, step %d, strict-less %v)", loop.Start, loop.Step, loop.Strict)
	}
	if loop.Exits != 1 {
		return fmt.Sprintf("element loop has %d ways out besides running to its bound: it can end before n elements were decoded (a truncated container then decodes without an error)", loop.Exits-1)
	}
	if got := e.lin(loop.Bound); !got.eq(bound) {
		return fmt.Sprintf("element loop bound is %s, expected %s", got, bound)
	}
	return x.perIteration(loop.Body, e, isMap, dispatcher)
}

// perIteration: the loop body decodes exactly one element / one key-value pair via dispatcher.
func (x *c16) perIteration(body []*ssa.BasicBlock, e *c16Eval, isMap bool, dispatcher *ssa.Function) string {
	bops := c16Find(x.opsIn(body, newC16Eval()), "Struct")
	if len(bops) != 1 {
		return fmt.Sprintf("%d FieldStruct calls per iteration, expected 1", len(bops))
	}
	f := c16FnArg(bops[0], 1)
	if !isMap {
		if !c16CallsOnly(f, dispatcher) {
			return "array element is not decoded by " + dispatcher.Name()
		}
		return ""
	}
	if f == nil {
		return "pair body unresolvable"
	}
	pops := c16Find(x.opsOfFn(f, newC16Eval()), "Struct")
	if len(pops) != 2 || len(f.Blocks) != 1 {
		return fmt.Sprintf("pair decodes %d structs, expected key then value", len(pops))
	}
	if pops[0].Field != "key" || pops[1].Field != "value" {
		return fmt.Sprintf("pair fields are %q then %q, expected key then value (wire order)", pops[0].Field, pops[1].Field)
	}
	for _, po := range pops {
		if !c16CallsOnly(c16FnArg(po, 1), dispatcher) {
			return "pair " + po.Field + " is not decoded by " + dispatcher.Name()
		}
	}
	return ""
}

// mpRow checks one handler against one spec class.
func (x *c16) mpRow(s c16MpSpec, h *ssa.Function, e *c16Eval, dispatcher *ssa.Function) string {
	if s.class == "never" {
		if fw.CurrentNR != nil && fw.CurrentNR.Is(h) {
			return ""
		}
		return "handler of the never-used code can return normally"
	}
	ops := x.opsOfFn(h, e)
	for _, o := range ops {
		if m := c16ReaderRE.FindStringSubmatch(o.Name); m != nil && m[4] == "LE" {
			return o.Name + ": little-endian reader in a big-endian format"
		}
	}
	net, ok := c16Net(ops)
	if !ok {
		return "handler consumes an amount the rule cannot express: " + net.String()
	}
	rd := c16Reads(ops)
	need := func(n int) string {
		if len(rd) != n {
			return fmt.Sprintf("%d reads, expected %d", len(rd), n)
		}
		return ""
	}
	isK := func(o c16Op, kinds string, bits int64) bool {
		c, ok := o.Bits.isConst()
		return strings.Contains(kinds, o.Kind) && len(o.Kind) == 1 && ok && c == bits
	}
	want := func(l c16Lin) string {
		if !net.eq(l) {
			return fmt.Sprintf("net bits consumed after the type byte is %s, format says %s", net, l)
		}
		return ""
	}
	valueNamed := func(o c16Op) string {
		if o.Field != "value" {
			return fmt.Sprintf("payload field is %q, not \"value\"", o.Field)
		}
		return ""
	}
	len1 := linA("$1").mulC(8)
	switch s.class {
	case "U", "S", "F":
		if m := need(1); m != "" {
			return m
		}
		if !isK(rd[0], s.class, int64(s.n)) {
			return fmt.Sprintf("reads %s%s, format says %s%d", rd[0].Kind, rd[0].Bits, s.class, s.n)
		}
		if m := valueNamed(rd[0]); m != "" {
			return m
		}
		return want(linC(int64(s.n)))
	case "posfixint", "negfixint":
		if m := need(1); m != "" {
			return m
		}
		k, ws := "U", []int64{7, 8}
		if s.class == "negfixint" {
			k, ws = "S", []int64{6, 7, 8}
		}
		okw := false
		for _, w := range ws {
			if isK(rd[0], k, w) {
				okw = true
			}
		}
		if !okw {
			return fmt.Sprintf("reads %s%s for a fixint, expected %s over the re-read type byte", rd[0].Kind, rd[0].Bits, k)
		}
		if m := valueNamed(rd[0]); m != "" {
			return m
		}
		return want(linC(0))
	case "nil", "false", "true":
		if m := need(0); m != "" {
			return m
		}
		kind := "ValAny"
		if s.class != "nil" {
			kind = "ValBool"
		}
		vs := c16Find(ops, kind)
		if len(vs) != 1 || vs[0].Field != "value" || len(vs[0].Args) < 2 {
			return "no synthetic \"value\" of kind " + kind
		}
		c, isC := vs[0].Args[1].(*ssa.Const)
		if !isC {
			return "synthetic value is not a constant"
		}
		if s.class == "nil" && !c.IsNil() {
			return "nil code yields a non-nil value"
		}
		if s.class != "nil" && (c.Value == nil || c.Value.String() != s.class) {
			return "boolean code yields " + c.String() + ", expected " + s.class
		}
		return want(linC(0))
	case "bin", "str":
		if m := need(2); m != "" {
			return m
		}
		if !isK(rd[0], "U", int64(s.n)) {
			return fmt.Sprintf("length prefix is %s%s, format says U%d", rd[0].Kind, rd[0].Bits, s.n)
		}
		pk := "Raw"
		if s.class == "str" {
			pk = "UTF8"
		}
		if rd[1].Kind != pk || !rd[1].Bits.eq(len1) {
			return fmt.Sprintf("payload is %s of %s bits, expected %s of 8*length", rd[1].Kind, rd[1].Bits, pk)
		}
		if m := valueNamed(rd[1]); m != "" {
			return m
		}
		if s.n < 8 {
			return want(len1)
		}
		return want(len1.add(linC(int64(s.n))))
	case "ext":
		if m := need(3); m != "" {
			return m
		}
		if !isK(rd[0], "U", int64(s.n)) {
			return fmt.Sprintf("length prefix is %s%s, format says U%d", rd[0].Kind, rd[0].Bits, s.n)
		}
		if !isK(rd[1], "SU", 8) {
			return "ext type is not an 8 bit integer"
		}
		if rd[2].Kind != "Raw" || !rd[2].Bits.eq(len1) {
			return fmt.Sprintf("payload is %s of %s bits, expected Raw of 8*length", rd[2].Kind, rd[2].Bits)
		}
		return want(len1.add(linC(int64(s.n) + 8)))
	case "fixext":
		if m := need(2); m != "" {
			return m
		}
		if !isK(rd[0], "SU", 8) {
			return "ext type is not an 8 bit integer"
		}
		if rd[1].Kind != "Raw" || !rd[1].Bits.eq(linC(int64(8*s.n))) {
			return fmt.Sprintf("payload is %s of %s bits, expected Raw of %d", rd[1].Kind, rd[1].Bits, 8*s.n)
		}
		return want(linC(int64(8 + 8*s.n)))
	case "array", "map":
		if m := need(1); m != "" {
			return m
		}
		if !isK(rd[0], "U", int64(s.n)) {
			return fmt.Sprintf("element count is %s%s, format says U%d", rd[0].Kind, rd[0].Bits, s.n)
		}
		exp := linC(int64(s.n))
		if s.n < 8 {
			exp = linC(0)
		}
		if m := want(exp); m != "" {
			return m
		}
		return x.containerCheck(ops, e, linA("$1"), s.class == "map", dispatcher)
	}
	return "unknown spec class " + s.class
}

func c16MpClass(c string) string {
	switch c {
	case "map", "array":
		return c
	case "bin":
		return "bytes"
	case "never":
		return "none"
	}
	return "scalar"
}

func (x *c16) msgpack() *c16Format {
	f := &c16Format{Name: "msgpack", Pkg: "format/msgpack", Syms: map[string]map[string]bool{"type": {}}}
	rt := x.r.Rule("C16.msgpack.table", "msgpack: the (lo,hi) ranges of the type table cover every byte 0x00..0xff exactly once, lookup tests lo<=u<=hi, the type byte is an 8-bit read mapped and dispatched through the same table", 258)
	rr := x.r.Rule("C16.msgpack.row", "msgpack: each table row's handler reads what the MessagePack spec says for the codes it serves (kind, width, length-prefix width, net bits, counted element loop, key-then-value, recursion through the dispatcher)", 37)
	var alloc *ssa.Alloc
	n := 0
	for _, fn := range x.p.FqFunctions() {
		if pkgRel(fn) != f.Pkg {
			continue
		}
		fw.EachInstr(fn, func(ins ssa.Instruction) {
			a, ok := ins.(*ssa.Alloc)
			if !ok {
				return
			}
			at, ok := a.Type().(*types.Pointer).Elem().Underlying().(*types.Array)
			if ok && c16IsEntryStruct(at.Elem()) {
				alloc = a
				n++
			}
		})
	}
	if n != 1 {
		rt.Undecided("anchor", "", fmt.Sprintf("%d type tables (array literal of {range, scalar.Uint, func}) found in format/msgpack, expected 1", n))
		return f
	}
	tableFn := alloc.Parent()
	f.PkgFields = x.pkgFields(f.Pkg)
	rows := c16SliceRows(alloc)
	type prow struct {
		lo, hi int64
		sym    string
		row    c16Row
		key    string
	}
	var prs []prow
	for _, row := range rows {
		idx, _ := c16KeyInt(row.Key)
		lo, ok1 := c16ConstInt(row.Fields["r[0]"])
		hi, ok2 := c16ConstInt(row.Fields["r[1]"])
		sym, ok3 := c16Sym(row)
		key := fmt.Sprintf("row#%d", idx)
		if ok3 {
			key = "row:" + sym
		}
		if !ok1 || !ok2 || !ok3 {
			rt.Undecided(key, x.p.Rel(row.Pos), "row range or Sym is not constant")
			continue
		}
		rt.Check(lo <= hi, key+":range", x.p.Rel(row.Pos), fmt.Sprintf("[%#x,%#x]", lo, hi), fmt.Sprintf("empty range [%#x,%#x]", lo, hi))
		prs = append(prs, prow{lo, hi, sym, row, key})
		f.Syms["type"][sym] = true
	}
	// totality / disjointness
	serve := map[int][]int{} // row index -> bytes
	for b := 0; b < 256; b++ {
		var hits []int
		for i, pr := range prs {
			if int64(b) >= pr.lo && int64(b) <= pr.hi {
				hits = append(hits, i)
			}
		}
		key := fmt.Sprintf("byte:%#02x", b)
		switch len(hits) {
		case 1:
			rt.Ok(key, "", "served by "+prs[hits[0]].sym)
			serve[hits[0]] = append(serve[hits[0]], b)
		case 0:
			rt.Fail(key, x.p.Rel(alloc.Pos()), "no table row covers this type byte: decoding it panics \"unreachable\"")
		default:
			rt.Fail(key, x.p.Rel(alloc.Pos()), fmt.Sprintf("type byte covered by %d rows (%s, %s ...)", len(hits), prs[hits[0]].sym, prs[hits[1]].sym))
			serve[hits[0]] = append(serve[hits[0]], b)
		}
	}
	// the dispatch site
	x.mpDispatch(rt, tableFn, alloc)
	x.bigEndianOnly(rt, f.Pkg)
	// rows
	for i, pr := range prs {
		e := newC16Eval()
		h, why := c16ResolveHandler(pr.row.Fields["d"], e)
		pos := x.p.Rel(pr.row.Pos)
		if h == nil {
			rr.Undecided(pr.key, pos, "handler not resolvable: "+why)
			continue
		}
		classes := map[string]c16MpSpec{}
		for _, b := range serve[i] {
			s := c16MpSpecOf(b)
			classes[fmt.Sprintf("%s/%d", s.class, s.n)] = s
		}
		if len(classes) == 0 {
			rr.Fail(pr.key, pos, "row serves no type byte")
			continue
		}
		msg := ""
		var spec c16MpSpec
		for _, k := range fw.SortedKeys(classes) {
			spec = classes[k]
			if m := x.mpRow(spec, h, newC16EvalFrom(e), tableFn); m != "" && msg == "" {
				msg = fmt.Sprintf("codes of spec class %s: %s", k, m)
			}
		}
		if len(classes) > 1 && msg == "" {
			msg = "row serves codes of different spec classes: " + strings.Join(fw.SortedKeys(classes), ", ")
		}
		rr.Check(msg == "", pr.key, pos, "agrees with spec class "+spec.class, msg)
		ops := x.opsOfFn(h, newC16EvalFrom(e))
		f.Rows = append(f.Rows, c16GoRow{Key: pr.key, Attrs: map[string]string{"type": pr.sym}, Class: c16MpClass(spec.class), Produced: c16Fields(ops), Pos: pos})
	}
	return f
}

// bigEndianOnly: no function of the package assigns decode.D.Endian (the default is big-endian).
func (x *c16) bigEndianOnly(ru *fw.Rule, rel string) {
	endT := x.p.NamedType("pkg/decode", "Endian")
	bad := ""
	for _, fn := range x.p.FqFunctions() {
		if pkgRel(fn) != rel {
			continue
		}
		fw.EachInstr(fn, func(ins ssa.Instruction) {
			st, ok := ins.(*ssa.Store)
			if !ok || endT == nil || !types.Identical(st.Val.Type(), endT) {
				return
			}
			if fa, ok := st.Addr.(*ssa.FieldAddr); ok && fieldNameOf(fa.X.Type(), fa.Field) == "Endian" {
				if c, isC := st.Val.(*ssa.Const); !isC || c.Int64() != 0 {
					bad = fw.ShortFn(fn)
				}
			}
		})
	}
	ru.Check(endT != nil && bad == "", "endian", "", "decoder stays big-endian", "the decoder switches decode.D.Endian away from big-endian in "+bad+": every multi-byte integer and float is byte-swapped")
}

func newC16EvalFrom(e *c16Eval) *c16Eval {
	n := newC16Eval()
	for k, v := range e.bind {
		n.bind[k] = v
	}
	return n
}

// mpDispatch: typ := FieldU8("type", table...); table.lookup(byte(typ)).d(d); lookup is lo <= u <= hi.
func (x *c16) mpDispatch(rt *fw.Rule, tableFn *ssa.Function, alloc *ssa.Alloc) {
	pos := x.p.Rel(tableFn.Pos())
	e := newC16Eval()
	var typ *ssa.Call
	for _, o := range x.opsOfFn(tableFn, e) {
		if o.isRead() {
			if typ != nil {
				typ = nil
				break
			}
			typ = o.Call
			c, isC := o.Bits.isConst()
			rt.Check(o.Kind == "U" && isC && c == 8 && o.Field == "type", "dispatch:type-read", pos, "type is an unsigned 8-bit field named type", fmt.Sprintf("type discriminator is read as %s%s named %q", o.Kind, o.Bits, o.Field))
			mapped := false
			for _, m := range c16Mappers(o.Call) {
				if sl, ok := m.(*ssa.Slice); ok && sl.X == ssa.Value(alloc) {
					mapped = true
				}
			}
			rt.Check(mapped, "dispatch:mapper", pos, "type field is mapped by the table", "the type field's Sym is not produced by the dispatch table: torepr would compare against other names")
		}
	}
	if typ == nil {
		rt.Undecided("dispatch:type-read", pos, "expected exactly one read (the type byte) in "+tableFn.Name())
		return
	}
	// lookup call on the table with the type value, dynamic call of its result's func field
	var lookup *ssa.Function
	for _, c := range fw.CallsIn(tableFn) {
		cal := c.Common().StaticCallee()
		if cal == nil || !fw.InFq(cal) || len(c.Common().Args) != 2 {
			continue
		}
		if sl, ok := c.Common().Args[0].(*ssa.Slice); ok && sl.X == ssa.Value(alloc) && c16Origin(c.Common().Args[1]) == ssa.Value(typ) {
			lookup = cal
		}
	}
	if lookup == nil {
		rt.Undecided("dispatch:lookup", pos, "no lookup(table, type) call found")
		return
	}
	// inclusive range test on the path that returns found=true
	fl := c16Facts(lookup, nil)
	okLo, okHi, found := false, false, false
	u := lookup.Params[len(lookup.Params)-1]
	for _, b := range lookup.Blocks {
		ret, ok := b.Instrs[len(b.Instrs)-1].(*ssa.Return)
		if !ok || len(ret.Results) != 2 {
			continue
		}
		c, ok := ret.Results[1].(*ssa.Const)
		if !ok || c.Value == nil || c.Value.String() != "true" {
			continue
		}
		found = true
		okLo, okHi = true, true
		for _, fs := range fl.At(b) {
			lo, hi := false, false
			for v, pol := range fs.facts {
				rel, idx := c16RangeFact(v, pol, u)
				if rel == ">=" && idx == "[0]" {
					lo = true
				}
				if rel == "<=" && idx == "[1]" {
					hi = true
				}
			}
			okLo = okLo && lo
			okHi = okHi && hi
		}
	}
	if !found {
		rt.Undecided("dispatch:lookup", x.p.Rel(lookup.Pos()), "lookup has no `return entry, true`")
		return
	}
	rt.Check(okLo && okHi, "dispatch:lookup", x.p.Rel(lookup.Pos()), "lookup matches r[0] <= u <= r[1]", "lookup does not test r[0] <= u && u <= r[1] inclusively: boundary codes are routed to the wrong row")
}

// c16RangeFact normalises a comparison fact between parameter u and a load of elem.r[i]:
// returns the relation "u REL r[i]" and "[i]".
func c16RangeFact(v ssa.Value, pol bool, u *ssa.Parameter) (string, string) {
	bo, ok := v.(*ssa.BinOp)
	if !ok {
		return "", ""
	}
	op := bo.Op
	var other ssa.Value
	if bo.X == ssa.Value(u) {
		other = bo.Y
	} else if bo.Y == ssa.Value(u) {
		other = bo.X
		switch op {
		case token.LSS:
			op = token.GTR
		case token.GTR:
			op = token.LSS
		case token.LEQ:
			op = token.GEQ
		case token.GEQ:
			op = token.LEQ
		}
	} else {
		return "", ""
	}
	if !pol {
		switch op {
		case token.LSS:
			op = token.GEQ
		case token.GEQ:
			op = token.LSS
		case token.GTR:
			op = token.LEQ
		case token.LEQ:
			op = token.GTR
		default:
			return "", ""
		}
	}
	ld, ok := other.(*ssa.UnOp)
	if !ok || ld.Op != token.MUL {
		return "", ""
	}
	_, path := c16AddrPath(ld.X)
	if len(path) == 0 {
		return "", ""
	}
	return op.String(), path[len(path)-1]
}
