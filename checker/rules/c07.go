package rules

import (
	"fmt"
	"go/ast"
	"go/constant"
	"go/token"
	"go/types"
	"os"
	"path/filepath"
	"regexp/syntax"
	"sort"
	"strings"

	"github.com/wader/gojq"
	"golang.org/x/tools/go/packages"
	"golang.org/x/tools/go/ssa"

	"fqverif/fw"
)

func init() { Register("C07", runC07) }

const c07GojqPath = "github.com/wader/gojq"

// c07Ref is the reference engine as resolved by /repo/go.mod: its builtin.jq definitions and the
// name/arity keys of its native function table, read from the dependency's source on every run.
type c07Ref struct {
	pkg    *packages.Package
	dir    string
	defs   map[string]*gojq.FuncDef // name/arity -> definition in builtin.jq
	native map[string]bool          // name/arity of internalFuncs
}

func (r *c07Ref) has(key string) bool { return r.defs[key] != nil || r.native[key] }

func c07LoadRef(p *fw.Program) (*c07Ref, error) {
	pk := p.ByPath[c07GojqPath]
	if pk == nil || len(pk.GoFiles) == 0 || pk.Types == nil {
		return nil, fmt.Errorf("package %s not loaded as a dependency of fq", c07GojqPath)
	}
	ref := &c07Ref{pkg: pk, dir: filepath.Dir(pk.GoFiles[0]), defs: map[string]*gojq.FuncDef{}, native: map[string]bool{}}
	b, err := os.ReadFile(filepath.Join(ref.dir, "builtin.jq"))
	if err != nil {
		return nil, fmt.Errorf("embedded engine's builtin.jq: %v", err)
	}
	q, err := gojq.Parse(string(b))
	if err != nil {
		return nil, fmt.Errorf("embedded engine's builtin.jq does not parse: %v", err)
	}
	for _, fd := range q.FuncDefs {
		ref.defs[fmt.Sprintf("%s/%d", fd.Name, len(fd.Args))] = fd
	}
	// native table: the composite literal assigned to the package variable internalFuncs
	obj, _ := pk.Types.Scope().Lookup("internalFuncs").(*types.Var)
	if obj == nil {
		return nil, fmt.Errorf("embedded engine has no internalFuncs table")
	}
	ssaPkg := p.SSA.Package(pk.Types)
	var lit *ast.CompositeLit
	for _, f := range pk.Syntax {
		ast.Inspect(f, func(n ast.Node) bool {
			as, ok := n.(*ast.AssignStmt)
			if !ok || len(as.Lhs) != 1 || len(as.Rhs) != 1 {
				return true
			}
			id, ok := as.Lhs[0].(*ast.Ident)
			if !ok || pk.TypesInfo.Uses[id] != obj {
				return true
			}
			if cl, ok := as.Rhs[0].(*ast.CompositeLit); ok {
				lit = cl
			}
			return true
		})
	}
	if lit == nil {
		return nil, fmt.Errorf("embedded engine: literal of internalFuncs not found")
	}
	for _, el := range lit.Elts {
		kv, ok := el.(*ast.KeyValueExpr)
		if !ok {
			return nil, fmt.Errorf("internalFuncs: unkeyed element")
		}
		tv := pk.TypesInfo.Types[kv.Key]
		if tv.Value == nil || tv.Value.Kind() != constant.String {
			return nil, fmt.Errorf("internalFuncs: non-constant key")
		}
		name := constant.StringVal(tv.Value)
		mask := int64(-1)
		switch v := kv.Value.(type) {
		case *ast.CompositeLit:
			if len(v.Elts) > 0 {
				e0 := v.Elts[0]
				if kv2, ok := e0.(*ast.KeyValueExpr); ok {
					e0 = kv2.Value
				}
				if c := pk.TypesInfo.Types[e0].Value; c != nil {
					mask, _ = constant.Int64Val(c)
				}
			}
		case *ast.CallExpr:
			var id *ast.Ident
			switch f := v.Fun.(type) {
			case *ast.Ident:
				id = f
			case *ast.SelectorExpr:
				id = f.Sel
			}
			if id != nil && ssaPkg != nil {
				if fo, ok := pk.TypesInfo.Uses[id].(*types.Func); ok {
					mask = c07Argcount(p.SSA.FuncValue(fo), 0)
				}
			}
		}
		if mask <= 0 {
			return nil, fmt.Errorf("internalFuncs[%q]: arity mask not resolvable", name)
		}
		for a := 0; a < 8; a++ {
			if mask&(1<<a) != 0 {
				ref.native[fmt.Sprintf("%s/%d", name, a)] = true
			}
		}
	}
	return ref, nil
}

// c07Argcount resolves the constant stored in field 0 of the struct a constructor returns
// (following constructor-to-constructor calls).
func c07Argcount(f *ssa.Function, depth int) int64 {
	if f == nil || f.Blocks == nil || depth > 4 {
		return -1
	}
	res := int64(-1)
	fw.EachInstr(f, func(ins ssa.Instruction) {
		ret, ok := ins.(*ssa.Return)
		if !ok || len(ret.Results) != 1 {
			return
		}
		switch x := ret.Results[0].(type) {
		case *ssa.Call:
			res = c07Argcount(x.Common().StaticCallee(), depth+1)
		case *ssa.UnOp:
			al, ok := x.X.(*ssa.Alloc)
			if !ok || al.Referrers() == nil {
				return
			}
			for _, r := range *al.Referrers() {
				fa, ok := r.(*ssa.FieldAddr)
				if !ok || fa.Field != 0 || fa.Referrers() == nil {
					continue
				}
				for _, r2 := range *fa.Referrers() {
					if st, ok := r2.(*ssa.Store); ok {
						if c, ok := st.Val.(*ssa.Const); ok && c.Value != nil {
							res = c.Int64()
						}
					}
				}
			}
		}
	})
	return res
}

// c07GoRegistered returns name/arity -> registering function for interp.RegisterFuncN/RegisterIterN calls.
type c07Reg struct {
	fn   *ssa.Function // the registered Go function
	at   token.Pos
	iter bool
}

func c07GoRegistered(p *fw.Program) (map[string]c07Reg, []string) {
	out := map[string]c07Reg{}
	var unresolved []string
	for _, fn := range p.FqFunctions() {
		for _, c := range fw.CallsIn(fn) {
			callee := c.Common().StaticCallee()
			if callee == nil {
				continue
			}
			o := callee
			if callee.Origin() != nil {
				o = callee.Origin()
			}
			if o.Pkg == nil || o.Pkg.Pkg.Path() != fw.Mod+"/pkg/interp" {
				continue
			}
			n := o.Name()
			isF, isI := strings.HasPrefix(n, "RegisterFunc"), strings.HasPrefix(n, "RegisterIter")
			if !(isF || isI) || len(n) != len("RegisterFunc")+1 || len(c.Common().Args) < 2 {
				continue
			}
			ar := int(n[len(n)-1] - '0')
			name, ok := constString(c.Common().Args[0])
			if !ok {
				unresolved = append(unresolved, p.Rel(c.Pos()))
				continue
			}
			v := c.Common().Args[1]
			for {
				if ct, ok := v.(*ssa.ChangeType); ok {
					v = ct.X
					continue
				}
				break
			}
			var gf *ssa.Function
			switch x := v.(type) {
			case *ssa.Function:
				gf = x
			case *ssa.MakeClosure:
				gf, _ = x.Fn.(*ssa.Function)
			}
			// method expressions are registered through a synthetic thunk: unwrap to the declared method
			for i := 0; gf != nil && gf.Synthetic != "" && i < 3; i++ {
				var inner *ssa.Function
				for _, ic := range fw.CallsIn(gf) {
					if sc := ic.Common().StaticCallee(); sc != nil && fw.InFq(sc) {
						inner = sc
					}
				}
				if inner == nil {
					break
				}
				gf = inner
			}
			out[fmt.Sprintf("%s/%d", name, ar)] = c07Reg{fn: gf, at: c.Pos(), iter: isI}
		}
	}
	return out, unresolved
}

// ---------------------------------------------------------------------------
// classification of every standard name/arity fq shadows

type c07Class int

const (
	clsOrig     c07Class = iota // dispatches to the untouched builtin for non-binary input (C07.orig)
	clsSame                     // must be the engine's own definition up to private-helper inlining (C07.samedef)
	clsSplit                    // split/1, split/2: decided partially by C07.split
	clsPass                     // debug/stderr pass-through (C07.passthru)
	clsJSON                     // tojson/fromjson through fq's own encoder/decoder (C07.tojson, C07.json)
	clsProvided                 // left to the embedder by library-mode gojq; fq supplies it (not decided)
	clsArity                    // same name as a builtin but an arity the engine does not define
)

var c07ClassName = map[c07Class]string{clsOrig: "orig-dispatch", clsSame: "same-as-engine", clsSplit: "split", clsPass: "pass-through", clsJSON: "json", clsProvided: "provided-by-embedder", clsArity: "other-arity"}

// c07Shadow is the frozen classification: a new shadowing definition is a violation until classified.
var c07Shadow = map[string]c07Class{
	"explode/0": clsOrig,
	"splits/1":  clsOrig, "splits/2": clsOrig,
	"test/1": clsOrig, "test/2": clsOrig,
	"match/1": clsOrig, "match/2": clsOrig,
	"capture/1": clsOrig, "capture/2": clsOrig,
	"scan/1": clsOrig, "scan/2": clsOrig,
	"split/1": clsSplit, "split/2": clsSplit,
	"inputs/0":   clsSame,
	"debug/1":    clsPass,
	"tojson/0":   clsJSON,
	"fromjson/0": clsJSON,
	"input/0":    clsProvided, // engine's input/0 needs an input iterator fq does not configure; fq implements its own over files
}

// names the engine compiles or documents but leaves to the embedder in library mode: fq supplies them.
// They are not keys of the engine's tables, so they are listed by name; each must be defined exactly once.
var c07Provided = map[string]c07Class{
	"debug/0":          clsPass,
	"stderr/0":         clsPass,
	"input_filename/0": clsProvided,
}

func runC07(r *fw.Run, p *fw.Program) {
	jqAll, err := fw.LoadJQ(p.Repo)
	if err != nil {
		r.Fatal("jq model: " + err.Error())
		return
	}
	jq, err := c07EmbeddedOnly(p, jqAll)
	if err != nil {
		r.Fatal("jq model: " + err.Error())
		return
	}
	r.Notes["jq_files_embedded"] = len(jq.Files)
	ref, err := c07LoadRef(p)
	if err != nil {
		r.Fatal("reference engine: " + err.Error())
		return
	}
	if ref.pkg.Module != nil {
		r.Notes["embedded_engine"] = ref.pkg.Module.Path + "@" + ref.pkg.Module.Version
	}
	r.Notes["engine_builtin_jq_defs"] = len(ref.defs)
	r.Notes["engine_native_funcs"] = len(ref.native)
	r.Assumption("C07: the reference is the gojq module resolved by /repo/go.mod, read from the module cache on every run; equality of fq's reimplemented built-ins with the engine's natives is not decided")
	goReg, unres := c07GoRegistered(p)

	c07ShadowRule(r, p, jq, ref, goReg, unres)
	c07OrigRule(r, p, jq, ref)
	c07SameDef(r, p, jq, ref)
	c07Split(r, p, jq, ref)
	c07QuoteMeta(r, p, jq, ref)
	c07PassThru(r, p, jq, goReg)
	c07Stdio(r, p, jq, goReg)
	c07ExtType(r, p, goReg)
	c07ToJSON(r, p, jq, goReg)
	c07Encoder(r, p, ref)
	c07ScanRule(r, p)
	c07Eval(r, p)
	c07ModPaths(r, p)
	// fromjson / json decode: exactly one value then EOF (borrowed from C16.text.eof: the same decoder serves fromjson)
	{
		sc := r.Scratch()
		runC16TextOnly(sc, p)
		r.Import(sc, "C16.text.eof", "C07.fromjson", "fromjson / the json decoder accept exactly one top-level value followed by EOF: the accepting condition is exactly io.EOF from the read after the value, and 64-bit integers are kept (UseNumber)", 2,
			func(k string) bool { return strings.HasPrefix(k, "json") })
	}
	// halt_error output (shared with C17.go): string raw, null nothing, everything else compact JSON + newline
	c17HaltPrintAs(r, p, "C07.haltprint")
	c07HaltStream(r, p)
	// the query rewrite every program goes through, and per-input error isolation (borrowed from C11.wrap / C17.handlers)
	c07Rewrite(r, p)
	// jq values are immutable
	jqImmutAs(r, p, "C07.immut")
}

// c07EmbeddedOnly restricts the jq model to the sources fq really bundles: files matched by a
// //go:embed directive of the package in whose directory they live (pkg/interp/.jq-lsp.jq, an
// editor stub, is not embedded and must not count as a definition).
func c07EmbeddedOnly(p *fw.Program, all *fw.JQ) (*fw.JQ, error) {
	embedded := map[string]bool{}
	for _, pk := range p.Roots {
		if len(pk.GoFiles) == 0 {
			continue
		}
		dir := filepath.Dir(pk.GoFiles[0])
		for _, f := range pk.Syntax {
			for _, cg := range f.Comments {
				for _, c := range cg.List {
					if !strings.HasPrefix(c.Text, "//go:embed ") {
						continue
					}
					for _, pat := range strings.Fields(strings.TrimPrefix(c.Text, "//go:embed ")) {
						pat = strings.Trim(pat, "\"`")
						ms, err := filepath.Glob(filepath.Join(dir, pat))
						if err != nil {
							return nil, err
						}
						for _, m := range ms {
							if rel, err := filepath.Rel(p.Repo, m); err == nil {
								embedded[rel] = true
							}
						}
					}
				}
			}
		}
	}
	out := &fw.JQ{}
	for _, f := range all.Files {
		if embedded[f.Rel] {
			out.Files = append(out.Files, f)
		}
	}
	for _, d := range all.Defs {
		if embedded[d.File.Rel] {
			out.Defs = append(out.Defs, d)
		}
	}
	if len(out.Files) < 40 {
		return nil, fmt.Errorf("only %d embedded jq files resolved through go:embed directives", len(out.Files))
	}
	return out, nil
}

func c07jqPos(d *fw.JQDef) string { return d.File.Rel + ":" + d.Key() }

// ---------------------------------------------------------------------------
// C07.shadow

func c07ShadowRule(r *fw.Run, p *fw.Program, jq *fw.JQ, ref *c07Ref, goReg map[string]c07Reg, unres []string) {
	ru := r.Rule("C07.shadow", "the set of name/arity defined by bundled jq sources or registered from Go that coincide with a builtin of the embedded engine (its builtin.jq and native table) equals the classified table; each is defined exactly once", 20)
	for _, u := range unres {
		ru.Undecided("register:"+u, u, "jq function registered under a non-constant name")
	}
	count := map[string]int{}
	first := map[string]*fw.JQDef{}
	names := map[string]bool{}
	for k := range ref.defs {
		names[k[:strings.LastIndex(k, "/")]] = true
	}
	for k := range ref.native {
		names[k[:strings.LastIndex(k, "/")]] = true
	}
	for _, d := range jq.Defs {
		if d.Parent != nil {
			continue
		}
		count[d.Key()]++
		if first[d.Key()] == nil {
			first[d.Key()] = d
		}
	}
	seen := map[string]bool{}
	for _, k := range fw.SortedKeys(count) {
		d := first[k]
		cls, classified := c07Shadow[k]
		if pc, ok := c07Provided[k]; ok {
			cls, classified = pc, true
			if ref.has(k) {
				ru.Fail(k, c07jqPos(d), "listed as left-to-the-embedder but the engine now defines it: reclassify")
				continue
			}
		} else if !ref.has(k) {
			if names[d.Def.Name] && !strings.HasPrefix(d.Def.Name, "_") {
				// same name, arity the engine does not define: does not change standard programs
				ru.Ok(k, c07jqPos(d), "same name as a builtin at an arity the engine does not define")
			}
			continue
		}
		seen[k] = true
		if !classified {
			ru.Fail(k, c07jqPos(d), "bundled jq source redefines the standard builtin "+k+" and is not classified: standard programs calling it now run fq's definition")
			continue
		}
		if count[k] != 1 {
			ru.Fail(k, c07jqPos(d), fmt.Sprintf("%s is defined %d times at top level of bundled jq sources: later definitions and _orig_ aliases bind to the wrong one", k, count[k]))
			continue
		}
		ru.Ok(k, c07jqPos(d), "classified "+c07ClassName[cls])
	}
	for _, k := range fw.SortedKeys(goReg) {
		if !ref.has(k) {
			continue
		}
		seen[k] = true
		ru.Fail("go:"+k, p.Rel(goReg[k].at), "Go function registered under the name of the standard builtin "+k)
	}
	for _, k := range fw.SortedKeys(c07Shadow) {
		if !seen[k] {
			ru.Undecided(k, "", "classified shadow "+k+" no longer found (definition gone or the engine dropped the builtin): update the table")
		}
	}
	for _, k := range fw.SortedKeys(c07Provided) {
		if !seen[k] {
			ru.Undecided(k, "", "embedder-provided "+k+" is not defined by any bundled jq source")
		}
	}
}

// ---------------------------------------------------------------------------
// jq AST helpers local to C07

// jqParamIndex returns the index of parameter name in def (-1 if none).
func c07jqParamIndex(fd *gojq.FuncDef, name string) int {
	for i, a := range fd.Args {
		if a == name {
			return i
		}
	}
	return -1
}

// jqUnparen strips (q) wrappers without suffixes.
func c07jqUnparen(q *gojq.Query) *gojq.Query {
	for q != nil && q.Left == nil && len(q.FuncDefs) == 0 && q.Term != nil && q.Term.Type == gojq.TermTypeQuery && len(q.Term.SuffixList) == 0 {
		q = q.Term.Query
	}
	return q
}

// jqIsParamRef reports whether q is exactly a reference to parameter #i of fd (closure or $variable).
func c07jqIsParamRef(q *gojq.Query, fd *gojq.FuncDef, i int) bool {
	if i < 0 || i >= len(fd.Args) {
		return false
	}
	f := fw.JQIsCall(q, fd.Args[i], 0)
	return f != nil
}

func c07jqIsIdentity(q *gojq.Query) bool {
	q = c07jqUnparen(q)
	return q != nil && q.Left == nil && len(q.FuncDefs) == 0 && q.Term != nil && q.Term.Type == gojq.TermTypeIdentity && len(q.Term.SuffixList) == 0
}

// jqArgsAreParams: call args are exactly the def's parameters in order.
func c07jqArgsAreParams(f *gojq.Func, fd *gojq.FuncDef) bool {
	if len(f.Args) != len(fd.Args) {
		return false
	}
	for i, a := range f.Args {
		if !c07jqIsParamRef(a, fd, i) {
			return false
		}
	}
	return true
}

// ---------------------------------------------------------------------------
// C07.samedef: canonical comparison with the engine's own jq definition

// jqCloneDef re-parses the canonical print of a definition: a private deep copy that may be rewritten.
func c07jqCloneDef(fd *gojq.FuncDef) (*gojq.FuncDef, error) {
	q, err := gojq.Parse(fd.String() + " .")
	if err != nil || len(q.FuncDefs) != 1 {
		return nil, fmt.Errorf("cannot re-parse %s/%d: %v", fd.Name, len(fd.Args), err)
	}
	return q.FuncDefs[0], nil
}

// jqEachTerm visits every term under q, including nested definitions.
func c07jqEachTerm(q *gojq.Query, f func(t *gojq.Term)) {
	fw.WalkJQ(q, func(n any) bool {
		if t, ok := n.(*gojq.Term); ok {
			f(t)
		}
		return true
	}, false)
}

// jqSubst replaces zero-argument calls of the closure parameters of fd inside body by the given argument queries.
func c07jqSubst(body *gojq.Query, params []string, args []*gojq.Query) {
	// two phases: the substituted arguments may mention the same names and must not be visited again
	type repl struct {
		t *gojq.Term
		i int
	}
	var todo []repl
	c07jqEachTerm(body, func(t *gojq.Term) {
		if t.Type != gojq.TermTypeFunc || t.Func == nil || len(t.Func.Args) != 0 {
			return
		}
		for i, pn := range params {
			if t.Func.Name == pn {
				todo = append(todo, repl{t, i})
				return
			}
		}
	})
	for _, x := range todo {
		x.t.Type = gojq.TermTypeQuery
		x.t.Func = nil
		x.t.Query = args[x.i]
	}
}

// jqInlinePrivate inlines (one level, repeated up to depth 3) calls to bundled top-level helpers whose name
// starts with "_" and whose parameters are all closures; this is beta-reduction, meaning-preserving in jq.
func c07jqInlinePrivate(jq *fw.JQ, ref *c07Ref, body *gojq.Query, depth int) {
	c07jqInline(jq, ref, body, depth, nil)
}

// c07jqPureArg: a call argument that is a variable reference or a scalar literal: it has exactly one output,
// does not depend on the input and has no effect, so a $value parameter bound to it can be substituted.
func c07jqPureArg(q *gojq.Query) bool {
	q = c07jqUnparen(q)
	if q == nil || q.Left != nil || len(q.FuncDefs) != 0 || q.Term == nil || len(q.Term.SuffixList) != 0 {
		return false
	}
	switch q.Term.Type {
	case gojq.TermTypeFunc:
		return q.Term.Func != nil && strings.HasPrefix(q.Term.Func.Name, "$") && len(q.Term.Func.Args) == 0
	case gojq.TermTypeNull, gojq.TermTypeTrue, gojq.TermTypeFalse, gojq.TermTypeNumber:
		return true
	case gojq.TermTypeString:
		return q.Term.Str != nil && len(q.Term.Str.Queries) == 0
	}
	return false
}

// c07jqRebinds: the body binds one of the names again (pattern, nested definition or its parameters).
func c07jqRebinds(body *gojq.Query, names map[string]bool) bool {
	found := false
	fw.WalkJQ(body, func(n any) bool {
		switch x := n.(type) {
		case *gojq.Pattern:
			if names[x.Name] {
				found = true
			}
			for _, o := range x.Object {
				if names[o.Key] {
					found = true
				}
			}
		case *gojq.FuncDef:
			if names[x.Name] {
				found = true
			}
			for _, a := range x.Args {
				if names[a] || names[strings.TrimPrefix(a, "$")] {
					found = true
				}
			}
		}
		return true
	}, false)
	return found
}

// c07jqInline is c07jqInlinePrivate with a stop predicate (definitions that play a role of their own and must
// stay visible as calls). $value parameters are substituted too when the argument is pure (c07jqPureArg).
func c07jqInline(jq *fw.JQ, ref *c07Ref, body *gojq.Query, depth int, stop func(d *fw.JQDef) bool) {
	if depth > 3 {
		return
	}
	// two phases: the inlined bodies are processed by the recursive call (bounded by depth), not by this walk
	var cands []*gojq.Term
	c07jqEachTerm(body, func(t *gojq.Term) {
		if t.Type == gojq.TermTypeFunc && t.Func != nil && strings.HasPrefix(t.Func.Name, "_") {
			cands = append(cands, t)
		}
	})
	for _, t := range cands {
		func() {
			if t.Type != gojq.TermTypeFunc || t.Func == nil {
				return // shared subtree, already replaced
			}
			key := fw.JQFuncKey(t.Func)
			if ref.has(key) {
				return
			}
			ds := jq.TopDefs(t.Func.Name, len(t.Func.Args))
			if len(ds) != 1 || (stop != nil && stop(ds[0])) {
				return
			}
			var params []string
			names := map[string]bool{}
			for i, a := range ds[0].Def.Args {
				if strings.HasPrefix(a, "$") {
					if !c07jqPureArg(t.Func.Args[i]) {
						return
					}
					params = append(params, a)
					names[a], names[strings.TrimPrefix(a, "$")] = true, true
				}
			}
			if len(params) > 0 && c07jqRebinds(ds[0].Def.Body, names) {
				return
			}
			cl, err := c07jqCloneDef(ds[0].Def)
			if err != nil {
				return
			}
			ps, as := append([]string{}, cl.Args...), append([]*gojq.Query{}, t.Func.Args...)
			for i, a := range cl.Args {
				if strings.HasPrefix(a, "$") {
					// def f($a) also defines the closure a
					ps, as = append(ps, strings.TrimPrefix(a, "$")), append(as, t.Func.Args[i])
				}
			}
			c07jqSubst(cl.Body, ps, as)
			c07jqInline(jq, ref, cl.Body, depth+1, stop)
			t.Type = gojq.TermTypeQuery
			t.Func = nil
			t.Query = cl.Body
		}()
	}
}

// jqCanon prints a definition body with parameters renamed positionally and redundant parentheses removed.
func c07jqCanon(fd *gojq.FuncDef) string {
	ren := map[string]string{}
	for i, a := range fd.Args {
		if strings.HasPrefix(a, "$") {
			ren[a] = fmt.Sprintf("$p%d", i)
		} else {
			ren[a] = fmt.Sprintf("p%d", i)
		}
	}
	c07jqEachTerm(fd.Body, func(t *gojq.Term) {
		if t.Type == gojq.TermTypeFunc && t.Func != nil {
			if n, ok := ren[t.Func.Name]; ok {
				t.Func.Name = n
			}
		}
	})
	// `if a != b then X else Y end` is `if a == b then Y else X end`
	c07jqEachTerm(fd.Body, func(t *gojq.Term) {
		if t.Type != gojq.TermTypeIf || t.If == nil || len(t.If.Elif) != 0 || t.If.Else == nil {
			return
		}
		c := c07jqUnparen(t.If.Cond)
		if c != nil && c.Op == gojq.OpNe && c.Left != nil && c.Right != nil && len(c.FuncDefs) == 0 {
			t.If.Cond = &gojq.Query{Left: c.Left, Op: gojq.OpEq, Right: c.Right}
			t.If.Then, t.If.Else = t.If.Else, t.If.Then
		}
	})
	// remove parentheses around single terms, bottom-up until stable
	for changed := true; changed; {
		changed = false
		c07jqEachTerm(fd.Body, func(t *gojq.Term) {
			if t.Type != gojq.TermTypeQuery || t.Query == nil {
				return
			}
			in := t.Query
			if in.Left != nil || len(in.FuncDefs) != 0 || in.Term == nil {
				return
			}
			if len(t.SuffixList) != 0 && len(in.Term.SuffixList) != 0 {
				return
			}
			sl := t.SuffixList
			if len(sl) == 0 {
				sl = in.Term.SuffixList
			} else {
				switch in.Term.Type {
				case gojq.TermTypeFunc, gojq.TermTypeIdentity, gojq.TermTypeArray, gojq.TermTypeObject, gojq.TermTypeString, gojq.TermTypeIndex:
				default:
					return
				}
			}
			*t = *in.Term
			t.SuffixList = sl
			changed = true
		})
	}
	b := c07jqUnparen(fd.Body)
	return b.String()
}

func c07SameDef(r *fw.Run, p *fw.Program, jq *fw.JQ, ref *c07Ref) {
	ru := r.Rule("C07.samedef", "a bundled definition that shadows a builtin the engine itself defines in jq (class same-as-engine) equals the engine's definition after inlining fq's private closure helpers and positional parameter renaming", 1)
	for _, k := range fw.SortedKeys(c07Shadow) {
		if c07Shadow[k] != clsSame {
			continue
		}
		name := k[:strings.LastIndex(k, "/")]
		var ar int
		fmt.Sscanf(k[strings.LastIndex(k, "/")+1:], "%d", &ar)
		d := jq.Def("", name, ar)
		rd := ref.defs[k]
		if d == nil || rd == nil {
			ru.Undecided(k, "", "definition not found on one side (fq or engine builtin.jq)")
			continue
		}
		mine, err1 := c07jqCloneDef(d.Def)
		theirs, err2 := c07jqCloneDef(rd)
		if err1 != nil || err2 != nil {
			ru.Undecided(k, c07jqPos(d), fmt.Sprint("re-parse failed: ", err1, err2))
			continue
		}
		c07jqInlinePrivate(jq, ref, mine.Body, 0)
		a, b := c07jqCanon(mine), c07jqCanon(theirs)
		ru.Check(a == b, k, c07jqPos(d), "equals the engine's `"+b+"`", "differs from the engine's definition: fq `"+a+"` vs engine `"+b+"`")
	}
}

// ---------------------------------------------------------------------------
// C07.split

func c07Split(r *fw.Run, p *fw.Program, jq *fw.JQ, ref *c07Ref) {
	ru := r.Rule("C07.split", "split/2 collects splits/2 of its own parameters in order (the engine's splits/2 iterates split/2 of the same parameters); split/1 collects splits/1 of its parameter piped through exactly one regexp-quoting definition", 3)
	// engine side: splits/2 = split(p0; p1)[]
	if rd := ref.defs["splits/2"]; rd == nil {
		ru.Undecided("engine:splits/2", "", "engine no longer defines splits/2 in builtin.jq")
	} else {
		cl, err := c07jqCloneDef(rd)
		if err != nil {
			ru.Undecided("engine:splits/2", "", err.Error())
		} else {
			c := c07jqCanon(cl)
			ru.Check(c == "split($p0; $p1)[]" && ref.native["split/2"], "engine:splits/2", "builtin.jq:splits/2", "engine splits/2 = split($p0; $p1)[] over the native split/2", "engine's splits/2 is `"+c+"`: fq's split/2 = [splits] reasoning no longer applies")
		}
	}
	if d := jq.Def("", "split", 2); d == nil {
		ru.Undecided("split/2", "", "not found")
	} else if cl := c07SplitInlined(jq, ref, d); cl == nil {
		ru.Undecided("split/2", c07jqPos(d), "cannot re-parse")
	} else {
		ok := false
		b := c07jqUnparen(cl.Body)
		if b != nil && b.Left == nil && b.Term != nil && b.Term.Type == gojq.TermTypeArray && len(b.Term.SuffixList) == 0 && b.Term.Array != nil {
			if f := fw.JQIsCall(b.Term.Array.Query, "splits", 2); f != nil && c07jqArgsAreParams(f, cl) {
				ok = true
			}
		}
		ru.Check(ok, "split/2", c07jqPos(d), "[splits($regex; $flags)]", "body is not `[splits(<param 1>; <param 2>)]`: got `"+fw.JQStr(cl.Body)+"`")
	}
	if d0 := jq.Def("", "split", 1); d0 == nil {
		ru.Undecided("split/1", "", "not found")
	} else if d := c07SplitInlined(jq, ref, d0); d == nil {
		ru.Undecided("split/1", c07jqPos(d0), "cannot re-parse")
	} else {
		ok := false
		msg := "body is not `[splits(<param> | <regexp quote>)]`: got `" + fw.JQStr(d.Body) + "`"
		b := c07jqUnparen(d.Body)
		if b != nil && b.Left == nil && b.Term != nil && b.Term.Type == gojq.TermTypeArray && len(b.Term.SuffixList) == 0 && b.Term.Array != nil {
			if f := fw.JQIsCall(b.Term.Array.Query, "splits", 1); f != nil {
				st := fw.JQPipeline(f.Args[0])
				if len(st) == 2 && c07jqIsParamRef(st[0], d, 0) {
					if qc := fw.JQIsCall(st[1], "", 0); qc != nil && c07IsQuoteDef(jq, qc.Name) != nil {
						ok = true
					} else {
						msg = "the separator is not piped through a regexp-quoting definition (gsub of a metacharacter class): a literal separator would be interpreted as a regular expression"
					}
				} else if len(st) == 1 && c07jqIsParamRef(st[0], d, 0) {
					msg = "the separator reaches splits/1 unquoted: split/1 must split on a literal string, not a regular expression"
				}
			}
		}
		ru.Check(ok, "split/1", c07jqPos(d0), "[splits($val | <quote>)]", msg)
	}
}

// c07SplitInlined: a private copy of a split definition with fq's private helpers beta-reduced, except the
// regexp-quoting definition (a role of its own, C07.quotemeta).
func c07SplitInlined(jq *fw.JQ, ref *c07Ref, d *fw.JQDef) *gojq.FuncDef {
	cl, err := c07jqCloneDef(d.Def)
	if err != nil {
		return nil
	}
	c07jqInline(jq, ref, cl.Body, 0, func(x *fw.JQDef) bool {
		return len(x.Def.Args) == 0 && c07IsQuoteDef(jq, x.Def.Name) != nil
	})
	return cl
}

// ---------------------------------------------------------------------------
// C07.quotemeta

// c07GoQuoteMeta is the set of bytes regexp.QuoteMeta escapes (Go's regexp package, `specialBytes`).
const c07GoQuoteMeta = `\.+*?()|[]{}^$`

type c07Quote struct {
	def     *fw.JQDef
	class   map[rune]bool
	problem string
}

// c07IsQuoteDef recognises `def q: gsub("(?<n>[class])"; "\\\(.n)")` and returns its class.
func c07IsQuoteDef(jq *fw.JQ, name string) *c07Quote {
	d := jq.Def("", name, 0)
	if d == nil {
		return nil
	}
	f := fw.JQIsCall(d.Def.Body, "", -1)
	if f == nil || (f.Name != "gsub" && f.Name != "sub") || len(f.Args) < 2 {
		return nil
	}
	re, ok := fw.JQConstString(f.Args[0])
	if !ok {
		return nil
	}
	out := &c07Quote{def: d, class: map[rune]bool{}}
	if f.Name != "gsub" || len(f.Args) != 2 {
		out.problem = "uses " + fw.JQFuncKey(f) + " instead of gsub/2: only the first metacharacter would be escaped or flags alter matching"
	}
	tree, err := syntax.Parse(re, syntax.Perl)
	if err != nil {
		out.problem = "regexp does not parse: " + err.Error()
		return out
	}
	if tree.Op != syntax.OpCapture || tree.Name == "" || len(tree.Sub) != 1 {
		out.problem = "regexp is not a single named capture of a character class"
		return out
	}
	switch sub := tree.Sub[0]; sub.Op {
	case syntax.OpCharClass:
		if sub.Flags&syntax.FoldCase != 0 {
			out.problem = "case-folded class"
		}
		for i := 0; i+1 < len(sub.Rune); i += 2 {
			if sub.Rune[i+1]-sub.Rune[i] > 256 {
				out.problem = "class contains a large range (negated class?)"
				return out
			}
			for c := sub.Rune[i]; c <= sub.Rune[i+1]; c++ {
				out.class[c] = true
			}
		}
	case syntax.OpLiteral:
		for _, c := range sub.Rune {
			out.class[c] = true
		}
		if len(sub.Rune) != 1 {
			out.problem = "regexp matches a multi-character literal, not single metacharacters"
		}
	default:
		out.problem = "regexp is not a single named capture of a character class"
		return out
	}
	// replacement: "\" followed by the captured text
	rq := f.Args[1]
	good := false
	if rq != nil && rq.Left == nil && rq.Term != nil && rq.Term.Type == gojq.TermTypeString && rq.Term.Str != nil && len(rq.Term.SuffixList) == 0 {
		qs := rq.Term.Str.Queries
		if len(qs) == 2 {
			lit, isLit := fw.JQConstString(qs[0])
			in := c07jqUnparen(qs[1])
			if isLit && lit == `\` && in != nil && in.Left == nil && in.Term != nil && in.Term.Type == gojq.TermTypeIndex && in.Term.Index != nil && in.Term.Index.Name == tree.Name && len(in.Term.SuffixList) == 0 {
				good = true
			}
		}
	}
	if !good && out.problem == "" {
		out.problem = "replacement is not a single backslash followed by the captured character `\\\\\\(." + tree.Name + ")`"
	}
	return out
}

func c07QuoteMeta(r *fw.Run, p *fw.Program, jq *fw.JQ, ref *c07Ref) {
	ru := r.Rule("C07.quotemeta", "the regexp-quoting definition used by split/1 is gsub of a named character class that contains every metacharacter regexp.QuoteMeta escapes (\\.+*?()|[]{}^$) and no letter/digit/underscore, replaced by backslash + the character", 15)
	// role: the definition the separator is piped through in split/1
	var name string
	if d := jq.Def("", "split", 1); d != nil {
		if cl := c07SplitInlined(jq, ref, d); cl != nil {
			for _, c := range fw.JQCalls(cl.Body) {
				if len(c.Args) == 0 && c07IsQuoteDef(jq, c.Name) != nil {
					name = c.Name
				}
			}
		}
	}
	if name == "" {
		ru.Undecided("anchor", "", "no regexp-quoting definition is used by split/1")
		return
	}
	q := c07IsQuoteDef(jq, name)
	key := name + "/0"
	if q.problem != "" {
		ru.Fail(key+":shape", c07jqPos(q.def), q.problem)
		return
	}
	ru.Ok(key+":shape", c07jqPos(q.def), "gsub(named class; backslash+capture)")
	for _, c := range c07GoQuoteMeta {
		ru.Check(q.class[c], fmt.Sprintf("%s:covers:%q", key, string(c)), c07jqPos(q.def), "escaped",
			fmt.Sprintf("metacharacter %q is not in the escaped class: split/1 with a separator containing it is run as a regular expression (differs from the engine's literal strings.Split)", string(c)))
	}
	// over-escaping: a backslash before a word character changes meaning in RE2 (\d, \w, \b ...)
	var bad []string
	for c := range q.class {
		if c == '_' || (c >= '0' && c <= '9') || (c >= 'a' && c <= 'z') || (c >= 'A' && c <= 'Z') || c >= 0x80 {
			bad = append(bad, string(c))
		}
	}
	sort.Strings(bad)
	ru.Check(len(bad) == 0, key+":no-word-chars", c07jqPos(q.def), "class has punctuation only", "class escapes word characters "+strings.Join(bad, "")+": backslash+letter is a regexp class/assertion, not the literal")
}
