package rules

import (
	"go/constant"
	"go/token"
	"sort"
	"strings"

	"golang.org/x/tools/go/ssa"

	"fqverif/fw"
)

// A small path-sensitive reachability search over one function's CFG.
//
// The search carries a set of boolean facts (SSA value -> bool). A branch on a value whose truth
// is known follows one successor only; a branch on an unknown value follows both and records the
// assumed truth. Phi nodes are evaluated by the edge the path arrives on (a constant edge or an
// edge whose value is known). Facts about a value are dropped when the block defining it is
// entered again (next loop iteration). Blocks that never return (d.Fatalf, panic) end a path.

type c14Search struct {
	// target reports whether reaching b answers the question
	target func(b *ssa.BasicBlock) bool
	// targetK is like target but also sees the facts that hold on arrival; may be nil
	targetK func(b *ssa.BasicBlock, known map[ssa.Value]bool) bool
	// cut ends a path at b (in addition to no-return blocks); may be nil
	cut func(b *ssa.BasicBlock) bool
	// avoid forbids the edge from -> to; may be nil
	avoid func(from, to *ssa.BasicBlock) bool
}

func c14BoolConst(v ssa.Value) (bool, bool) {
	c, ok := v.(*ssa.Const)
	if !ok || c.Value == nil || c.Value.Kind() != constant.Bool {
		return false, false
	}
	return constant.BoolVal(c.Value), true
}

// c14EvalBool evaluates v under the facts.
func c14EvalBool(v ssa.Value, known map[ssa.Value]bool) (bool, bool) {
	if b, ok := c14BoolConst(v); ok {
		return b, true
	}
	if b, ok := known[v]; ok {
		return b, true
	}
	if u, ok := v.(*ssa.UnOp); ok && u.Op == token.NOT {
		if b, ok := c14EvalBool(u.X, known); ok {
			return !b, true
		}
	}
	return false, false
}

// c14Assume records the truth of a branch condition.
func c14Assume(v ssa.Value, val bool, known map[ssa.Value]bool) {
	if u, ok := v.(*ssa.UnOp); ok && u.Op == token.NOT {
		c14Assume(u.X, !val, known)
		return
	}
	if _, isC := v.(*ssa.Const); isC {
		return
	}
	known[v] = val
}

func c14KnownKey(b *ssa.BasicBlock, known map[ssa.Value]bool) string {
	parts := make([]string, 0, len(known))
	for v, t := range known {
		s := v.Name()
		if t {
			s += "=1"
		} else {
			s += "=0"
		}
		parts = append(parts, s)
	}
	sort.Strings(parts)
	return b.String() + "|" + strings.Join(parts, ",")
}

// c14Reach: is a target block reachable from start under the initial facts?
func c14Reach(start *ssa.BasicBlock, initial map[ssa.Value]bool, s c14Search) bool {
	seen := map[string]bool{}
	type state struct {
		b, pred *ssa.BasicBlock
		known   map[ssa.Value]bool
	}
	clone := func(m map[ssa.Value]bool) map[ssa.Value]bool {
		out := make(map[ssa.Value]bool, len(m)+1)
		for k, v := range m {
			out[k] = v
		}
		return out
	}
	work := []state{{start, nil, clone(initial)}}
	steps := 0
	for len(work) > 0 {
		st := work[len(work)-1]
		work = work[:len(work)-1]
		steps++
		if steps > 200000 {
			return true // give up: answer conservatively "reachable"
		}
		b, known := st.b, st.known
		if st.pred != nil {
			// phis by incoming edge (simultaneous assignment), then forget values re-defined here
			idx := -1
			for i, p := range b.Preds {
				if p == st.pred {
					idx = i
				}
			}
			upd := map[ssa.Value]bool{}
			var phis []ssa.Value
			for _, ins := range b.Instrs {
				ph, ok := ins.(*ssa.Phi)
				if !ok {
					break
				}
				phis = append(phis, ph)
				if idx >= 0 && idx < len(ph.Edges) {
					if val, ok := c14EvalBool(ph.Edges[idx], known); ok {
						upd[ph] = val
					}
				}
			}
			for _, ins := range b.Instrs {
				if v, ok := ins.(ssa.Value); ok {
					delete(known, v)
				}
			}
			for _, ph := range phis {
				if val, ok := upd[ph]; ok {
					known[ph] = val
				}
			}
		}
		key := c14KnownKey(b, known)
		if seen[key] {
			continue
		}
		seen[key] = true
		if s.target != nil && s.target(b) {
			return true
		}
		if s.targetK != nil && s.targetK(b, known) {
			return true
		}
		if s.cut != nil && s.cut(b) {
			continue
		}
		if fw.CurrentNR != nil && fw.CurrentNR.CutIndex(b) >= 0 {
			continue
		}
		last := b.Instrs[len(b.Instrs)-1]
		push := func(to *ssa.BasicBlock, k map[ssa.Value]bool) {
			if s.avoid != nil && s.avoid(b, to) {
				return
			}
			work = append(work, state{to, b, k})
		}
		switch t := last.(type) {
		case *ssa.If:
			if val, ok := c14EvalBool(t.Cond, known); ok {
				if val {
					push(b.Succs[0], known)
				} else {
					push(b.Succs[1], known)
				}
				continue
			}
			kt, kf := clone(known), clone(known)
			c14Assume(t.Cond, true, kt)
			c14Assume(t.Cond, false, kf)
			push(b.Succs[0], kt)
			push(b.Succs[1], kf)
		default:
			for i, to := range b.Succs {
				if i == 0 {
					push(to, known)
				} else {
					push(to, clone(known))
				}
			}
		}
	}
	return false
}

func c14IsReturnBlock(b *ssa.BasicBlock) bool {
	_, ok := b.Instrs[len(b.Instrs)-1].(*ssa.Return)
	return ok
}
