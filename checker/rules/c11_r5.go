package rules

// C11.expr    — the program text that reaches _cli_eval is exactly what the user gave: the first
//               positional argument, or the content of the -f file. It is computed at one place
//               (_opt_eval's `expr:`), and every step between that place and `$opts.expr` in _main
//               is one that cannot change the value stored under the key `expr` (right-biased
//               merges where the computed options win, entry filters, updates of other keys).
// C11.handler — the per-input error handlers (the functions named by catch_query) handle every
//               error value: nothing they execute — directly or through bundled definitions —
//               raises, halts or breaks outside a try. A handler that re-raises some value lets
//               that error escape `try (PROGRAM) catch handler`; the run is aborted and the
//               remaining inputs are never evaluated, which direct evaluation would not do.

import (
	"fmt"
	"sort"
	"strings"

	"github.com/wader/gojq"

	"fqverif/fw"
)

const (
	c11OptionsJQ = "pkg/interp/options.jq"
	c11InitJQ    = "pkg/interp/init.jq"
)

// c11Preserves: whatever value the input object has under key (or its absence... a filter may drop
// it, never change it) is what the output of q has under key. Conservative: unknown forms are false.
func c11Preserves(q *gojq.Query, key string, why *string) bool {
	q = c11Unparen(q)
	if q == nil {
		return true
	}
	fail := func() bool {
		if *why == "" {
			*why = fw.JQStr(q)
		}
		return false
	}
	if !c11Plain(q) {
		return fail()
	}
	if c11IsIdentity(q) {
		return true
	}
	// cannot define key: an object literal with constant keys, none of them key
	noKey := func(x *gojq.Query) bool {
		obj := c11ObjectLit(x)
		if obj == nil {
			return false
		}
		for _, kv := range obj.KeyVals {
			k, ok := c11KVKey(kv)
			if !ok || k == key {
				return false
			}
		}
		return true
	}
	if q.Left != nil {
		switch q.Op {
		case gojq.OpPipe:
			if i, w := c11PreservesStages(c11Stages(q), key); i >= 0 {
				if *why == "" {
					*why = w
				}
				return false
			}
			return true
		case gojq.OpAdd, gojq.OpMul:
			// X + .  : the input wins;   . + X : X must not be able to define key
			if c11Preserves(q.Right, key, why) {
				return true
			}
			*why = ""
			if c11Preserves(q.Left, key, why) && noKey(q.Right) {
				return true
			}
			return fail()
		case gojq.OpAssign, gojq.OpModify, gojq.OpUpdateAdd, gojq.OpUpdateSub, gojq.OpUpdateMul, gojq.OpUpdateDiv, gojq.OpUpdateMod, gojq.OpUpdateAlt:
			ch := c11QueryChain(q.Left)
			if ch != nil && ch.Root == "." && len(ch.Steps) > 0 && strings.HasPrefix(ch.Steps[0], ".") && len(ch.Names) > 0 && ch.Names[0] != key {
				return true
			}
			return fail()
		}
		return fail()
	}
	t := q.Term
	if t == nil {
		return fail()
	}
	// X as $v | body
	if n := len(t.SuffixList); n > 0 && t.SuffixList[n-1].Bind != nil {
		return c11Preserves(t.SuffixList[n-1].Bind.Body, key, why)
	}
	if len(t.SuffixList) > 0 {
		return fail()
	}
	switch t.Type {
	case gojq.TermTypeIf:
		ok := c11Preserves(t.If.Then, key, why)
		for _, e := range t.If.Elif {
			ok = ok && c11Preserves(e.Then, key, why)
		}
		if t.If.Else != nil {
			ok = ok && c11Preserves(t.If.Else, key, why)
		}
		return ok
	case gojq.TermTypeFunc:
		f := t.Func
		switch fw.JQFuncKey(f) {
		case "with_entries/1", "map_values/1":
			// a pure filter of entries: select(cond)
			if s := c11Call(f.Args[0], "select", 1); s != nil {
				return true
			}
			return fail()
		case "del/1", "delpaths/1":
			if names := c11DelNames(f.Args[0]); names != nil && !names[key] {
				return true
			}
			return fail()
		}
	}
	return fail()
}

// c11PreservesStages: index of the first stage (or stage group) of a pipeline that may change key, -1 if none.
// to_entries | map(select(c)) … | from_entries is with_entries(select(c)).
func c11PreservesStages(st []c11Stage, key string) (int, string) {
	for i := 0; i < len(st); i++ {
		if st[i].isBind() {
			continue
		}
		if c11Call(st[i].Q, "to_entries", 0) != nil {
			j := i + 1
			for j < len(st) && !st[j].isBind() && c11Call(st[j].Q, "from_entries", 0) == nil {
				m := c11Call(st[j].Q, "map", 1)
				if m == nil || c11Call(m.Args[0], "select", 1) == nil {
					return j, c11StageStr(st[j])
				}
				j++
			}
			if j >= len(st) || st[j].isBind() {
				return i, "to_entries without from_entries"
			}
			i = j
			continue
		}
		why := ""
		if !c11Preserves(st[i].Q, key, &why) {
			return i, why
		}
	}
	return -1, ""
}

// afterStages reports, per stage after `at`, that it cannot change key expr.
func (c *c11Ctx) afterStages(ru *fw.Rule, who, pos string, st []c11Stage, at int, what string) {
	tail := st[at+1:]
	bad, why := c11PreservesStages(tail, "expr")
	for i, s := range tail {
		if s.isBind() {
			continue
		}
		key := fmt.Sprintf("after:%s:%d", who, i+1)
		if i == bad {
			ru.Fail(key, pos, fmt.Sprintf("%s `%s` is applied, which may replace the value of key expr (a value transformation over all options — @file expansion, type conversion … — must not see the program text): `%s`", what, c11StageStr(s), why))
			return
		}
		ru.Ok(key, pos, "later stage cannot change expr")
	}
}

func (c *c11Ctx) exprRule() {
	ru := c.r.Rule("C11.expr", "the program text handed to _cli_eval is the first positional argument or the content of the -f file: _opt_eval computes `expr` from .expr_file (open, byte/string conversion only) or $rest[0], nothing after that in _opt_eval, in the merge of _main or in options/1 can change the value under key expr, and _cli_eval gets $opts.expr of exactly that options value", 9)

	// --- _opt_eval
	if d := c.def(ru, c11OptionsJQ, "_opt_eval", 1); d != nil {
		pos := c.pos(d)
		rest := d.Def.Args[0]
		st := c11Stages(d.Def.Body)
		// the stage that defines expr: a top-level `L + {…expr: …}`
		at := -1
		var val *gojq.Query
		for i, s := range st {
			if s.isBind() {
				continue
			}
			q := c11Unparen(s.Q)
			if !c11Plain(q) || q.Left == nil || (q.Op != gojq.OpAdd && q.Op != gojq.OpMul) {
				if obj := c11ObjectLit(q); obj != nil {
					for _, kv := range obj.KeyVals {
						if k, ok := c11KVKey(kv); ok && k == "expr" {
							at, val = i, kv.Val
						}
					}
				}
				continue
			}
			if obj := c11ObjectLit(q.Right); obj != nil {
				for _, kv := range obj.KeyVals {
					if k, ok := c11KVKey(kv); ok && k == "expr" {
						at, val = i, kv.Val
					}
				}
			}
		}
		if !ru.Check(at >= 0, "define:_opt_eval", pos, "expr is defined by the object merged on the right", "_opt_eval no longer defines `expr` in an object literal that is the right operand of its merge (the computed options must win over what was given with -o)") {
			return
		}
		// nothing after it may change it
		c.afterStages(ru, "_opt_eval", pos, st, at, "after `expr` was computed in _opt_eval")
		// sources of the value
		c.exprSources(ru, d, val, rest)
	}

	// --- _main: the computed options are merged last, $opts is options, _cli_eval gets $opts.expr
	if d := c.def(ru, c11InitJQ, "_main", 0); d != nil {
		pos := c.pos(d)
		var hosts []*gojq.Query
		fw.WalkJQ(d.Def.Body, func(n any) bool {
			q, ok := n.(*gojq.Query)
			if !ok {
				return true
			}
			if t := q.Term; t != nil && q.Left == nil && t.Type == gojq.TermTypeFunc && t.Func != nil && t.Func.Name == "_options_stack" && len(t.Func.Args) == 1 {
				found := false
				for _, f := range fw.JQCalls(t.Func.Args[0]) {
					found = found || (f.Name == "_opt_eval" && len(f.Args) == 1)
				}
				if found {
					hosts = append(hosts, t.Func.Args[0])
				}
			}
			return true
		}, false)
		if len(hosts) != 1 {
			ru.Undecided("merge:_main", pos, fmt.Sprintf("expected one _options_stack(...) whose argument calls _opt_eval/1, found %d", len(hosts)))
		} else {
			elem := c11Unparen(hosts[0])
			if elem != nil && elem.Term != nil && elem.Left == nil && elem.Term.Type == gojq.TermTypeArray && elem.Term.Array != nil && len(elem.Term.SuffixList) == 0 {
				elem = elem.Term.Array.Query
			}
			st := c11Stages(elem)
			at := -1
			for i, s := range st {
				if s.isBind() {
					continue
				}
				q := c11Unparen(s.Q)
				if c11Plain(q) && q.Left != nil && q.Op == gojq.OpAdd {
					// the right operand is the call, possibly fed by a pipe:  X + (X | _opt_eval($rest))
					rs := c11Stages(q.Right)
					if n := len(rs); n > 0 && !rs[n-1].isBind() && c11Call(rs[n-1].Q, "_opt_eval", 1) != nil {
						at = i
					}
				}
			}
			if ru.Check(at >= 0, "merge:_main", pos, "… + _opt_eval($rest): computed options win", "_main must merge the result of _opt_eval as the RIGHT operand of `+` (otherwise an option given with -o replaces the program text)") {
				c.afterStages(ru, "_main", pos, st, at, "after merging _opt_eval in _main")
			}
		}
		// $opts
		w := &c11InputWalk{callee: "_cli_eval", arity: 2, binds: map[string][]*gojq.Query{}}
		w.query(d.Def.Body, c11Ambient("input of _main"), nil)
		for i, s := range w.sites {
			key := fmt.Sprintf("arg:_main:call%d", i+1)
			ch := c11QueryChain(s.call.Args[0])
			ok := ch != nil && strings.HasPrefix(ch.Root, "$") && ch.Path() == ".expr"
			if ok {
				srcs := w.binds[ch.Root]
				ok = len(srcs) == 1 && srcs[0] != nil && c11Call(srcs[0], "options", 0) != nil
			}
			ru.Check(ok, key, pos, "_cli_eval gets $opts.expr of `options as $opts`", "the program given to _cli_eval must be <v>.expr where <v> is bound once to `options`; it is `"+fw.JQStr(s.call.Args[0])+"`")
		}
		if len(w.sites) == 0 {
			ru.Undecided("arg:_main", pos, "no call of _cli_eval/2 in _main")
		}
	}

	// --- options/1: merge of the stack, then only updates of other keys
	if d := c.def(ru, c11OptionsJQ, "options", 1); d != nil {
		pos := c.pos(d)
		st := c11Stages(d.Def.Body)
		at := -1
		for i, s := range st {
			if !s.isBind() && c11Call(s.Q, "add", 0) != nil {
				at = i
			}
		}
		if ru.Check(at >= 0, "merge:options/1", pos, "options are the sum of the stack", "options/1 no longer merges the options stack with `add`") {
			c.afterStages(ru, "options/1", pos, st, at, "after merging the stack in options/1")
		}
	}
}

// exprSources: val is `<.expr_file> | if . then <file content> else $rest[0] (// null) end` (any nesting
// of parentheses/binds); the file content is open followed by byte/string conversions only.
func (c *c11Ctx) exprSources(ru *fw.Rule, d *fw.JQDef, val *gojq.Query, rest string) {
	pos := c.pos(d)
	st := c11Stages(val)
	var iff *gojq.If
	var feed *gojq.Query
	for i, s := range st {
		if s.isBind() {
			continue
		}
		q := c11Unparen(s.Q)
		if c11Plain(q) && q.Left == nil && q.Term != nil && q.Term.Type == gojq.TermTypeIf && len(q.Term.SuffixList) == 0 {
			iff = q.Term.If
			if i != len(st)-1 {
				iff = nil
			}
			break
		}
		if feed == nil {
			feed = q
		}
	}
	if iff == nil || iff.Else == nil || len(iff.Elif) > 0 || feed == nil {
		ru.Fail("source:_opt_eval", pos, "`expr` must be `.expr_file | if . then <content of that file> else "+rest+"[0] end` as the last step; it is `"+fw.JQStr(val)+"`")
		return
	}
	ru.Check(c11IsChain(feed, ".", ".expr_file") && c11IsIdentity(iff.Cond), "source:_opt_eval:switch", pos, "-f file if given, else the argument",
		"the choice between file and argument must test .expr_file itself; found `"+fw.JQStr(feed)+" | if "+fw.JQStr(iff.Cond)+" …`")
	// else: $rest[0], optionally `// null`
	{
		e := c11Unparen(iff.Else)
		if c11Plain(e) && e.Left != nil && e.Op == gojq.OpAlt {
			r := c11Unparen(e.Right)
			if r != nil && r.Term != nil && r.Left == nil && r.Term.Type == gojq.TermTypeNull {
				e = c11Unparen(e.Left)
			}
		}
		ru.Check(c11IsChain(e, rest, "[0]"), "source:_opt_eval:arg", pos, "the first positional argument as is",
			"without -f the program must be "+rest+"[0] unchanged; it is `"+fw.JQStr(iff.Else)+"`")
	}
	// then: try (open | tobytes | tostring) catch <fatal>
	{
		th := c11Unparen(iff.Then)
		body := th
		if c11Plain(th) && th.Left == nil && th.Term != nil && th.Term.Type == gojq.TermTypeTry && len(th.Term.SuffixList) == 0 {
			body = th.Term.Try.Body
		}
		ss := c11Stages(body)
		ok := len(ss) >= 1 && !ss[0].isBind() && c11Call(ss[0].Q, "open", 0) != nil
		for _, s := range ss[min(1, len(ss)):] {
			ok = ok && !s.isBind() && (c11Call(s.Q, "tobytes", 0) != nil || c11Call(s.Q, "tostring", 0) != nil)
		}
		ru.Check(ok, "source:_opt_eval:file", pos, "content of the -f file, converted to a string only",
			"with -f the program must be the content of that file (open, then only tobytes/tostring); it is `"+fw.JQStr(iff.Then)+"`")
	}
}

// ---------------------------------------------------------------------------
// C11.handler

var c11Raisers = map[string]bool{"error/0": true, "error/1": true, "halt/0": true, "halt_error/0": true, "halt_error/1": true}

// c11RaisesIn: the raising primitives reachable in q outside any try body / `?`, and the bundled
// definitions called there.
func c11RaisesIn(q *gojq.Query, raise *[]string, calls map[string]bool) {
	var wq func(q *gojq.Query)
	var wt func(t *gojq.Term)
	wq = func(q *gojq.Query) {
		if q == nil {
			return
		}
		for _, fd := range q.FuncDefs {
			// local definitions: judged where they are called; conservatively, judge them here
			wq(fd.Body)
		}
		wt(q.Term)
		wq(q.Left)
		wq(q.Right)
	}
	wt = func(t *gojq.Term) {
		if t == nil {
			return
		}
		for _, s := range t.SuffixList {
			if s.Optional {
				return // t? swallows whatever t raises
			}
		}
		switch {
		case t.Func != nil:
			k := fw.JQFuncKey(t.Func)
			if c11Raisers[k] {
				*raise = append(*raise, k)
			} else if !strings.HasPrefix(t.Func.Name, "$") {
				calls[k] = true
			}
			for _, a := range t.Func.Args {
				wq(a)
			}
		case t.Break != "":
			*raise = append(*raise, "break "+t.Break)
		case t.Try != nil:
			// errors of the body are caught; the catch branch runs unprotected
			wq(t.Try.Catch)
		case t.If != nil:
			wq(t.If.Cond)
			wq(t.If.Then)
			for _, e := range t.If.Elif {
				wq(e.Cond)
				wq(e.Then)
			}
			wq(t.If.Else)
		case t.Query != nil:
			wq(t.Query)
		case t.Array != nil:
			wq(t.Array.Query)
		case t.Object != nil:
			for _, kv := range t.Object.KeyVals {
				wq(kv.KeyQuery)
				wq(kv.Val)
				if kv.KeyString != nil {
					for _, sq := range kv.KeyString.Queries {
						wq(sq)
					}
				}
			}
		case t.Unary != nil:
			wt(t.Unary.Term)
		case t.Str != nil:
			for _, sq := range t.Str.Queries {
				wq(sq)
			}
		case t.Reduce != nil:
			wq(t.Reduce.Query)
			wq(t.Reduce.Start)
			wq(t.Reduce.Update)
		case t.Foreach != nil:
			wq(t.Foreach.Query)
			wq(t.Foreach.Start)
			wq(t.Foreach.Update)
			wq(t.Foreach.Extract)
		case t.Label != nil:
			wq(t.Label.Body)
		}
		if t.Index != nil {
			wq(t.Index.Start)
			wq(t.Index.End)
		}
		for _, s := range t.SuffixList {
			if s.Index != nil {
				wq(s.Index.Start)
				wq(s.Index.End)
			}
			if s.Bind != nil {
				wq(s.Bind.Body)
			}
		}
	}
	wq(q)
}

func (c *c11Ctx) handlerRule() {
	ru := c.r.Rule("C11.handler", "the functions named by catch_query handle every error value: neither they nor the bundled definitions they run raise (error), halt or break outside a try, so no error of the user's program escapes `try (PROGRAM) catch handler` and aborts the remaining inputs", 18)
	// handler names: every _query_func("name") inside a catch_query value
	handlers := map[string]string{} // name -> where
	for _, d := range c.interpDefs() {
		fw.WalkJQ(d.Def, func(n any) bool {
			var val *gojq.Query
			switch x := n.(type) {
			case *gojq.ObjectKeyVal:
				if k, ok := c11KVKey(x); ok && k == "catch_query" {
					val = x.Val
				}
			case *gojq.Query:
				if x.Left != nil && x.Op == gojq.OpAssign {
					if ch := c11QueryChain(x.Left); ch != nil && len(ch.Names) > 0 && ch.Names[len(ch.Names)-1] == "catch_query" {
						val = x.Right
					}
				}
			}
			if val != nil {
				for _, f := range fw.JQCalls(val) {
					if f.Name == "_query_func" && len(f.Args) == 1 {
						if s, ok := fw.JQConstString(c11Unparen(f.Args[0])); ok {
							handlers[s] = d.File.Rel + ":" + d.Def.Name
						}
					}
				}
			}
			return true
		}, false)
	}
	if len(handlers) == 0 {
		ru.Undecided("anchor:handlers", "", "no catch_query names a handler function")
		return
	}
	for _, h := range fw.SortedKeys(handlers) {
		roots := c.jq.TopDefs(h, 0)
		if len(roots) == 0 {
			ru.Undecided("handler:"+h, handlers[h], "handler "+h+"/0 named in "+handlers[h]+" is not a bundled definition")
			continue
		}
		seen := map[string]bool{}
		type item struct {
			d    *fw.JQDef
			path string
		}
		var queue []item
		for _, r := range roots {
			queue = append(queue, item{r, h})
			seen[r.File.Rel+":"+r.Key()] = true
		}
		for len(queue) > 0 {
			it := queue[0]
			queue = queue[1:]
			var raise []string
			calls := map[string]bool{}
			c11RaisesIn(it.d.Def.Body, &raise, calls)
			sort.Strings(raise)
			key := fmt.Sprintf("total:%s:%s", h, it.d.Key())
			ru.Check(len(raise) == 0, key, c.pos(it.d), "cannot raise, halt or break",
				fmt.Sprintf("%s (run by the per-input error handler %s via %s) executes %s outside a try: for some error value the handler does not handle the error but lets it (or a new one) escape the try/catch wrapped around the user's program — the run is aborted and the remaining inputs are not evaluated", it.d.Key(), h, it.path, strings.Join(raise, ", ")))
			if strings.Count(it.path, ">") >= 4 {
				continue
			}
			for _, k := range fw.SortedKeys(calls) {
				i := strings.LastIndex(k, "/")
				var ar int
				fmt.Sscanf(k[i+1:], "%d", &ar)
				// closure parameters of the definition shadow globals
				isParam := false
				for _, a := range it.d.Def.Args {
					isParam = isParam || (ar == 0 && strings.TrimPrefix(a, "$") == k[:i])
				}
				if isParam {
					continue
				}
				for _, nd := range c.jq.TopDefs(k[:i], ar) {
					if !strings.HasPrefix(nd.File.Rel, "pkg/interp/") {
						continue
					}
					id := nd.File.Rel + ":" + nd.Key()
					if !seen[id] {
						seen[id] = true
						queue = append(queue, item{nd, it.path + ">" + nd.Def.Name})
					}
				}
			}
		}
	}
}
