package rules

import (
	"fmt"
	"go/types"

	"golang.org/x/tools/go/ssa"

	"fqverif/fw"
)

// Round 4 additions.

// ---------------------------------------------------------------------------
// C17.handlers: the argument-time protection covers every step that can fail

// c17ArgTimeCoverage: while the arguments are evaluated (_opt_eval, and _main outside the
// protected evaluation) every operation that can fail on what the user named — open (missing
// file, directory), tobytes (read error), decode (undecodable file), fromjson (bad JSON) — must
// sit inside the body of a try; the shape of those tries (catch ends in _fatal_error(2)) is
// checked by the try:* obligations. A fallible step moved out of its try raises an uncaught jq
// error out of _main: the process exits 1 with a Go dump instead of 2 with `error: <argument>: ...`.
func c17ArgTimeCoverage(m *c17Model, ru *fw.Rule) {
	mainDef, fin := m.mainFinally(ru)
	fallible := []string{"open", "decode", "fromjson", "tobytes"}
	check := func(d *fw.JQDef, floor int) {
		if d == nil {
			return
		}
		// d and the definitions nested in it
		var scope []*fw.JQDef
		for _, x := range m.jq.Defs {
			for a := x; a != nil; a = a.Parent {
				if a == d {
					scope = append(scope, x)
					break
				}
			}
		}
		tries := c17Tries(d.Def.Body)
		inTry := func(n any) bool {
			for _, t := range tries {
				if c17ContainsNode(t.Body, n) {
					return true
				}
			}
			return false
		}
		// covered: lexically inside a try, or in a local helper all of whose uses are covered
		var covered func(x *fw.JQDef, n any, depth int) bool
		covered = func(x *fw.JQDef, n any, depth int) bool {
			if inTry(n) {
				return true
			}
			if x == d || depth > 3 {
				return false
			}
			uses := 0
			for _, y := range scope {
				for _, u := range c17Calls(y.Def.Body, x.Def.Name, len(x.Def.Args), true) {
					uses++
					if !covered(y, u, depth+1) {
						return false
					}
				}
			}
			return uses > 0
		}
		cnt := map[string]int{}
		n := 0
		for _, name := range fallible {
			for _, x := range scope {
				for _, c := range c17Calls(x.Def.Body, name, 0, true) {
					if fin != nil && (c17ContainsNode(fin.Args[0], c) || c17ContainsNode(fin.Args[1], c)) {
						continue // the evaluation itself: inputs have their own handlers (C17.inputs)
					}
					n++
					cnt[name]++
					key := fmt.Sprintf("covered:%s:%s#%d", c17DefPath(d), name, cnt[name])
					ru.Check(covered(x, c, 0), key, c17Pos(d), name+" is evaluated inside a try",
						"`"+name+"` on a user supplied argument is evaluated outside every try of "+d.Def.Name+": when it fails (missing/unreadable/undecodable file, bad JSON) the error leaves _main uncaught and fq exits 1 with an internal dump instead of 2 with a message naming the argument")
				}
			}
		}
		if n < floor {
			ru.Undecided("covered:"+c17DefPath(d)+":count", c17Pos(d), fmt.Sprintf("%d fallible argument-time steps found, at least %d expected", n, floor))
		}
	}
	check(mainDef, 2)
	check(m.def(ru, "_opt_eval", 1), 6)
}

// ---------------------------------------------------------------------------
// C17.go: print writes the text verbatim

// c17DerivesFrom: v is computed from root (through conversions, calls, extracts, phis).
func c17DerivesFrom(v, root ssa.Value, depth int, seen map[ssa.Value]bool) bool {
	if v == root {
		return true
	}
	if v == nil || depth > 8 || seen[v] {
		return false
	}
	seen[v] = true
	ins, ok := v.(ssa.Instruction)
	if !ok {
		return false
	}
	for _, op := range ins.Operands(nil) {
		if op != nil && *op != nil && c17DerivesFrom(*op, root, depth+1, seen) {
			return true
		}
	}
	// a slice built for a variadic call: look at what is stored into its backing array
	if sl, ok := v.(*ssa.Slice); ok {
		if al, ok := sl.X.(*ssa.Alloc); ok {
			for _, ref := range *al.Referrers() {
				if ia, ok := ref.(*ssa.IndexAddr); ok {
					for _, r2 := range *ia.Referrers() {
						if st, ok := r2.(*ssa.Store); ok && c17DerivesFrom(st.Val, root, depth+1, seen) {
							return true
						}
					}
				}
			}
		}
	}
	return false
}

// c17VariadicElems returns the values stored into the backing array of a variadic argument slice.
func c17VariadicElems(v ssa.Value) []ssa.Value {
	sl, ok := v.(*ssa.Slice)
	if !ok {
		return nil
	}
	al, ok := sl.X.(*ssa.Alloc)
	if !ok {
		return nil
	}
	var out []ssa.Value
	for _, ref := range *al.Referrers() {
		if ia, ok := ref.(*ssa.IndexAddr); ok {
			for _, r2 := range *ia.Referrers() {
				if st, ok := r2.(*ssa.Store); ok {
					out = append(out, st.Val)
				}
			}
		}
	}
	return out
}

// c17StdioWrite: (*Interp)._stdioWrite is the Go end of print/println/printerr/printerrln — raw
// string output (-r/-j/--raw-output0) and every `error: ...` line. The text must reach the stream
// byte for byte: it is written exactly once, by a call that does not interpret it (never as the
// format of a printf-style function) and does not add anything (no Fprintln).
func c17StdioWrite(m *c17Model, ru *fw.Rule) {
	p := m.p
	fn := p.Fn("(*pkg/interp.Interp)._stdioWrite")
	if fn == nil || len(fn.Params) < 2 {
		ru.Undecided("stdio-write:anchor", "", "(*interp.Interp)._stdioWrite not found")
		return
	}
	pos := p.Rel(fn.Pos())
	val := ssa.Value(fn.Params[1]) // receiver, c, fdName
	// printf-style calls: the format must be a constant
	fmtIdx := map[string]int{"fmt.Fprintf": 1, "fmt.Sprintf": 0, "fmt.Printf": 0, "fmt.Errorf": 0, "fmt.Appendf": 1}
	badFmt := 0
	writes := 0
	verbatim := 0
	for _, c := range fw.CallsIn(fn) {
		cc := c.Common()
		name := ""
		if f := cc.StaticCallee(); f != nil {
			name = f.String()
		}
		if ix, ok := fmtIdx[name]; ok && len(cc.Args) > ix {
			if _, isConst := cc.Args[ix].(*ssa.Const); !isConst {
				badFmt++
				ru.Fail("stdio-write:no-format", p.Rel(c.Pos()), name+" is called with a format that is not a constant: text to be printed is interpreted as a printf format, a '%' in raw output (-r/-j) or in an error message / file name is mangled (100% -> 100%!(NOVERB))")
			}
		}
		// calls that put data on a writer
		isWriterCall := false
		var data []ssa.Value
		switch name {
		case "fmt.Fprint":
			isWriterCall = true
			data = c17VariadicElems(cc.Args[1])
		case "fmt.Fprintln", "fmt.Fprintf":
			isWriterCall = true
			data = append(data, cc.Args[1:]...)
			for _, a := range cc.Args[1:] {
				data = append(data, c17VariadicElems(a)...)
			}
		case "io.WriteString":
			isWriterCall = true
			data = cc.Args[1:]
		default:
			if cc.IsInvoke() && (cc.Method.Name() == "Write" || cc.Method.Name() == "WriteString") {
				if _, isIface := cc.Value.Type().Underlying().(*types.Interface); isIface {
					isWriterCall = true
					data = cc.Args
				}
			}
		}
		if !isWriterCall {
			continue
		}
		from := false
		for _, d := range data {
			if c17DerivesFrom(d, val, 0, map[ssa.Value]bool{}) {
				from = true
			}
		}
		if !from {
			continue
		}
		writes++
		switch name {
		case "fmt.Fprint":
			ok := len(data) == 1
			if ok {
				verbatim++
			} else {
				ru.Fail("stdio-write:verbatim", p.Rel(c.Pos()), "fmt.Fprint is given more than the value: operands are joined with spaces")
			}
		case "fmt.Fprintln":
			ru.Fail("stdio-write:verbatim", p.Rel(c.Pos()), "the value is written with fmt.Fprintln: every print gets an extra newline (join/raw output modes and println double it)")
		case "fmt.Fprintf":
			if f, isConst := cc.Args[1].(*ssa.Const); isConst && f.Value != nil && (f.Value.ExactString() == `"%s"` || f.Value.ExactString() == `"%v"`) {
				verbatim++
			} else if isConst {
				ru.Fail("stdio-write:verbatim", p.Rel(c.Pos()), "the value is written through the format "+f.Value.ExactString()+", not verbatim")
			}
			// a non-constant format is reported by stdio-write:no-format
		default:
			verbatim++
		}
	}
	if badFmt == 0 {
		ru.Ok("stdio-write:no-format", pos, "no printf-style call with a computed format")
	}
	switch {
	case writes == 0:
		ru.Undecided("stdio-write:verbatim", pos, "cannot find the call that writes the value to the stream")
	case writes == 1 && verbatim == 1:
		ru.Ok("stdio-write:verbatim", pos, "the value is written once, uninterpreted")
	case writes > 1:
		ru.Fail("stdio-write:verbatim", pos, fmt.Sprintf("the value is written %d times", writes))
	}
}
