package rules

import (
	"fmt"
	"strings"

	"golang.org/x/tools/go/ssa"

	"fqverif/fw"
)

// c01Source models an arbitrary well-behaved bit reader over the symbolic stream "s": it holds
// total bits, hands out at most chunk bits per call, writes them most significant bit first into
// the slice it is given (bits of the last byte beyond the count are unknown, never zero) and
// reports io.EOF either together with the last bits or on the following call.
type c01Source struct {
	base        int64 // stream position of reader position 0
	total       int64
	chunk       int64
	eofWithData bool
	pos         int64 // sequential position (ReadBits)
	calls       int
	asked       []string
}

// deliver writes r stream bits starting at stream position at into dst and returns (r, err).
func (s *c01Source) deliver(it *fw.AInterp, dst fw.AV, req, at int64) fw.AV {
	s.calls++
	avail := s.total - at
	if avail < 0 {
		avail = 0
	}
	r := req
	if r > s.chunk {
		r = s.chunk
	}
	if r > avail {
		r = avail
	}
	if r < 0 {
		r = 0
	}
	if dst.K == fw.AVSlice {
		for i := int64(0); i*8 < r; i++ {
			bv := fw.BvVec{W: 8}
			for j := int64(0); j < 8; j++ {
				if i*8+j < r {
					bv.B[7-j] = fw.BvBit{K: fw.BvSrc, Src: "s", I: int(s.base + at + i*8 + j)}
				} else {
					bv.B[7-j] = fw.BvBit{K: fw.BvTop}
				}
			}
			if dst.Len >= 0 && i >= dst.Len {
				it.GoPanic(fmt.Sprintf("reader writes %d bits into a %d byte slice: index out of range", r, dst.Len))
			}
			dst.Arr.Set(dst.Off+i, fw.ABits(bv))
		}
	}
	err := fw.AErr("nil")
	switch {
	case req == 0:
	case avail == 0:
		err = fw.AErr("EOF")
	case r == avail && r < req && s.eofWithData:
		err = fw.AErr("EOF")
	}
	return fw.ATuple(fw.AInt(r), err)
}

func c01NewInterp(p *fw.Program) *fw.AInterp {
	it := fw.NewAInterp(p.C02IntBits())
	it.Globals["io.EOF"] = fw.AErr("EOF")
	it.Globals["bitio.ErrNegativeNBits"] = fw.AErr("ErrNegativeNBits")
	it.Hooks["errors.Is"] = func(it *fw.AInterp, cc *ssa.CallCommon, args []fw.AV) (fw.AV, bool) {
		if args[0].K == fw.AVErr && args[1].K == fw.AVErr {
			if args[0].Tag == args[1].Tag {
				return fw.AInt(1), true
			}
			return fw.AInt(0), true
		}
		return fw.AV{}, false
	}
	return it
}

// ---------------------------------------------------------------------------
// C01.readfull

func c01ReadFull(r *fw.Run, p *fw.Program) {
	ru := r.Rule("C01.readfull", "bitio.readFull, interpreted against a model reader that returns any number of bits per call (1..64, byte multiples or not, EOF with or after the last bits): the first min(nBits, available) bits of p are exactly the stream bits from bitOff on, every request stays inside p and inside the bits still wanted, on success (nBits, nil) is returned and on a short stream the error with the number of bits that were read", 6)
	fn := p.Fn("pkg/bitio.readFull")
	if fn == nil || len(fn.Params) != 4 {
		ru.Undecided("anchor", "", "pkg/bitio.readFull(p, nBits, bitOff, fn) not found")
		return
	}
	pos := p.Rel(fn.Pos())
	type res struct{ data, req, okRet, errRet, undec string }
	var acc res
	n := 0
	for _, chunk := range []int64{1, 2, 3, 5, 7, 8, 9, 12, 16, 17, 64} {
		for nBits := int64(0); nBits <= 41; nBits++ {
			for _, total := range []int64{1 << 40, 0, 1, 5, 8, 11, 16, 23, 24, 30} {
				if total < 1<<40 && total >= nBits {
					continue
				}
				for _, ewd := range []bool{false, true} {
					if acc.undec != "" {
						break
					}
					n++
					o := int64(3)
					src := &c01Source{base: 0, total: total + o, chunk: chunk, eofWithData: ewd}
					it := c01NewInterp(p)
					pa := fw.NewAArr("p", 0, (nBits+7)/8, func(i int64) fw.AV { return fw.ABits(fw.StreamByte("d", i)) })
					reqMsg := ""
					it.Dyn = func(it *fw.AInterp, cc *ssa.CallCommon, args []fw.AV) (fw.AV, bool) {
						// args: fnvalue, p, nBits, bitOff
						if len(args) != 4 || !args[2].IsConc() || args[3].K != fw.AVInt || args[3].KB != 8 {
							return fw.AV{}, false
						}
						dst, req, at := args[1], args[2].C, args[3].C
						done := at - o
						if reqMsg == "" {
							switch {
							case req <= 0 || req > nBits-done:
								reqMsg = fmt.Sprintf("asks the reader for %d bits at offset +%d while %d of %d are still wanted", req, done, nBits-done, nBits)
							case dst.K == fw.AVSlice && dst.Len >= 0 && (req+7)/8 > dst.Len:
								reqMsg = fmt.Sprintf("asks for %d bits into a %d byte slice", req, dst.Len)
							}
						}
						return src.deliver(it, dst, req, at), true
					}
					out := it.Run(fn, []fw.AV{fw.ASliceOf(pa, 0, 0, (nBits+7)/8), fw.AInt(nBits), fw.AAff(8, o), {K: fw.AVFunc, Tag: "model"}})
					ctx := fmt.Sprintf("nBits=%d, reader gives <=%d bits per call, %s available, EOF %s: ", nBits, chunk, c01Avail(total), map[bool]string{true: "with the last bits", false: "on the next call"}[ewd])
					if out.Kind != "return" {
						if out.Kind == "abort" {
							acc.undec = ctx + out.Msg
						} else if acc.data == "" {
							acc.data = ctx + "panics: " + out.Msg
						}
						continue
					}
					if reqMsg != "" && acc.req == "" {
						acc.req = ctx + reqMsg
					}
					got := nBits
					if total < got {
						got = total
					}
					if acc.data == "" {
						for i := int64(0); i < got; i++ {
							b := pa.ByteAt(i / 8).B[7-i%8]
							if b.K != fw.BvSrc || b.Src != "s" || int64(b.I) != o+i {
								acc.data = fmt.Sprintf("%sbit %d of p is %s, must be stream bit bitOff+%d", ctx, i, c01BitName(b), i)
								break
							}
						}
					}
					if out.Res.K != fw.AVTuple || len(out.Res.Elems) != 2 || !out.Res.Elems[0].IsConc() || out.Res.Elems[1].K != fw.AVErr {
						acc.undec = ctx + "result is not (count, error)"
						continue
					}
					cnt, e := out.Res.Elems[0].C, out.Res.Elems[1].Tag
					if total >= nBits {
						if !(cnt == nBits && e == "nil") && acc.okRet == "" {
							acc.okRet = fmt.Sprintf("%sreturns (%d, %s), must return (%d, nil)", ctx, cnt, e, nBits)
						}
					} else if acc.errRet == "" {
						switch {
						case e != "EOF":
							acc.errRet = fmt.Sprintf("%sreturns error %s although only %d bits exist", ctx, e, total)
						case cnt != got:
							acc.errRet = fmt.Sprintf("%s%d bits were read into p but the count returned with the error is %d (= nBits minus the bits read; the doc comment says \"similar to io.ReadFull\", which returns the number read). decode.TryBytesRange treats count == nBits as success, so a range starting at or past the end (0 bits read, count %d) yields zero bytes and no error", ctx, got, cnt, nBits)
						}
					}
				}
			}
		}
	}
	r.Notes["C01.readfull.scenarios"] = n
	if acc.undec != "" {
		ru.Undecided("interp", pos, acc.undec)
		return
	}
	ru.Check(acc.data == "", "data", pos, fmt.Sprintf("%d scenarios: p holds the stream bits in order", n), acc.data)
	ru.Check(acc.req == "", "requests", pos, "every request is positive, inside the wanted bits and inside p", acc.req)
	ru.Check(acc.okRet == "", "return:ok", pos, "(nBits, nil) when the stream suffices", acc.okRet)
	ru.Check(acc.errRet == "", "return:short", pos, "(bits read, EOF) when the stream is short", acc.errRet)
	// negative counts
	it := c01NewInterp(p)
	out := it.Run(fn, []fw.AV{fw.ASliceOf(fw.NewAArr("p", 0, 0, nil), 0, 0, 0), fw.AInt(-1), fw.AAff(8, 0), {K: fw.AVFunc, Tag: "model"}})
	ok := out.Kind == "return" && out.Res.K == fw.AVTuple && len(out.Res.Elems) == 2 && out.Res.Elems[1].K == fw.AVErr && out.Res.Elems[1].Tag != "nil"
	ru.Check(ok, "negative", pos, "negative nBits is an error", "readFull(nBits=-1) must return an error without reading: "+out.Kind+" "+out.Msg)
	// the two exported wrappers pass the reader's method through unchanged
	for _, w := range []struct{ name, method, args string }{
		{"ReadAtFull", "ReadBitsAt", "p0 q0 q1 q2"},
		{"ReadFull", "ReadBits", "p0 q0 q1"},
	} {
		f := p.Fn("pkg/bitio." + w.name)
		if f == nil {
			ru.Undecided("wrapper:"+w.name, "", "not found")
			continue
		}
		env := fw.NewSxEnv(f)
		got := ""
		fw.EachInstr(f, func(ins ssa.Instruction) {
			if cl, ok := ins.(*ssa.Call); ok && fw.SxCallee(cl.Common()) == "pkg/bitio.readFull" {
				got = c01Args(env, cl)
			}
		})
		want := map[string]string{
			"ReadAtFull": "p1 p2 p3 (lambda (#0 (invoke ReadBitsAt p0 q0 q1 q2)), (#1 (invoke ReadBitsAt p0 q0 q1 q2)))",
			"ReadFull":   "p1 p2 0 (lambda (#0 (invoke ReadBits p0 q0 q1)), (#1 (invoke ReadBits p0 q0 q1)))",
		}[w.name]
		ru.Check(got == want, "wrapper:"+w.name, p.Rel(f.Pos()), got, w.name+" calls readFull("+got+"), must be readFull("+want+")")
	}
}

func c01Avail(total int64) string {
	if total >= 1<<40 {
		return "enough bits"
	}
	return fmt.Sprintf("%d bits", total)
}

// ---------------------------------------------------------------------------
// C01.pad — Buffer and IOBitWriter.Flush

func c01BitsPad(r *fw.Run, p *fw.Program) {
	ru := r.Rule("C01.pad", "bitio.Buffer keeps written bits in order (WriteBits appends at bufBits, ReadBits/Bits hand out from bitsOff, both through copyBufBits with zero=true so the partial last byte of what is handed out is zero padded); IOBitWriter forwards whole bytes as they complete and Flush writes exactly one zero padded byte for the remaining bits", 5)
	// constant zero=true at the three call sites
	for _, m := range []string{"Bits", "ReadBits", "WriteBits"} {
		f := p.Fn("(*pkg/bitio.Buffer)." + m)
		if f == nil {
			ru.Undecided("zero:"+m, "", "Buffer."+m+" not found")
			continue
		}
		env := fw.NewSxEnv(f)
		var calls []string
		fw.EachInstr(f, func(ins ssa.Instruction) {
			if cl, ok := ins.(*ssa.Call); ok && fw.SxCallee(cl.Common()) == "pkg/bitio.copyBufBits" {
				calls = append(calls, env.Of(cl.Common().Args[5]))
			}
		})
		ru.Check(len(calls) == 1 && calls[0] == "true", "zero:"+m, p.Rel(f.Pos()), "copyBufBits(..., zero=true)", fmt.Sprintf("Buffer.%s must copy with zero=true exactly once (zero arguments: %s)", m, strings.Join(calls, ",")))
	}
	wb := p.Fn("(*pkg/bitio.Buffer).WriteBits")
	rb := p.Fn("(*pkg/bitio.Buffer).ReadBits")
	bits := p.Fn("(*pkg/bitio.Buffer).Bits")
	bufT := p.NamedType("pkg/bitio", "Buffer")
	if wb == nil || rb == nil || bits == nil || bufT == nil {
		ru.Undecided("buffer:anchor", "", "bitio.Buffer methods not found")
		return
	}
	// interpretation: two writes, then reads of various sizes
	msg, undec := "", ""
	n := 0
	sizes := []int64{0, 1, 3, 7, 8, 9, 13, 16, 21}
	for _, n1 := range sizes {
		for _, n2 := range sizes {
			for _, m1 := range []int64{0, 1, 5, 8, 12, 64} {
				if msg != "" || undec != "" {
					break
				}
				n++
				it := c01NewInterp(p)
				recv := fw.AV{K: fw.AVPtr, Cell: it.NewCellOf(bufT)}
				ctx := fmt.Sprintf("WriteBits(%d) WriteBits(%d) ReadBits(%d) ReadBits(rest): ", n1, n2, m1)
				step := func(f *ssa.Function, args ...fw.AV) (fw.AV, bool) {
					out := it.Run(f, append([]fw.AV{recv}, args...))
					if out.Kind != "return" {
						if out.Kind == "abort" {
							undec = ctx + out.Msg
						} else {
							msg = ctx + f.Name() + " panics: " + out.Msg
						}
						return fw.AV{}, false
					}
					return out.Res, true
				}
				a1 := fw.NewAArr("a", 0, (n1+7)/8, func(i int64) fw.AV { return fw.ABits(fw.StreamByte("a", i)) })
				a2 := fw.NewAArr("b", 0, (n2+7)/8, func(i int64) fw.AV { return fw.ABits(fw.StreamByte("b", i)) })
				if _, ok := step(wb, fw.ASliceOf(a1, 0, 0, a1.Len), fw.AInt(n1)); !ok {
					continue
				}
				if _, ok := step(wb, fw.ASliceOf(a2, 0, 0, a2.Len), fw.AInt(n2)); !ok {
					continue
				}
				want := func(i int64) fw.BvBit {
					if i < n1 {
						return fw.BvBit{K: fw.BvSrc, Src: "a", I: int(i)}
					}
					return fw.BvBit{K: fw.BvSrc, Src: "b", I: int(i - n1)}
				}
				// Bits(): everything, zero padded
				if res, ok := step(bits); ok && msg == "" {
					if res.K == fw.AVTuple && len(res.Elems) == 2 && res.Elems[0].K == fw.AVSlice {
						if m := c01CheckOut(res.Elems[0], n1+n2, 0, want); m != "" {
							msg = ctx + "Bits(): " + m
						}
					}
				}
				done := int64(0)
				for _, m := range []int64{m1, 64} {
					if msg != "" || undec != "" {
						break
					}
					q := fw.NewAArr("q", 0, (m+7)/8, func(i int64) fw.AV { return fw.ABits(fw.StreamByte("d", i)) })
					res, ok := step(rb, fw.ASliceOf(q, 0, 0, q.Len), fw.AInt(m))
					if !ok {
						break
					}
					if res.K != fw.AVTuple || len(res.Elems) != 2 || !res.Elems[0].IsConc() || res.Elems[1].K != fw.AVErr {
						undec = ctx + "ReadBits result is not (count, error)"
						break
					}
					left := n1 + n2 - done
					exp := m
					if left < exp {
						exp = left
					}
					cnt, e := res.Elems[0].C, res.Elems[1].Tag
					wantErr := "nil"
					if left == 0 && m > 0 {
						wantErr = "EOF"
					}
					if cnt != exp || e != wantErr {
						msg = fmt.Sprintf("%sReadBits(%d) with %d bits buffered returns (%d, %s), must return (%d, %s)", ctx, m, left, cnt, e, exp, wantErr)
						break
					}
					if mm := c01CheckOut(fw.ASliceOf(q, 0, 0, q.Len), exp, done, want); mm != "" {
						msg = fmt.Sprintf("%sReadBits(%d): %s", ctx, m, mm)
					}
					done += exp
				}
			}
		}
	}
	r.Notes["C01.pad.buffer_scenarios"] = n
	switch {
	case undec != "":
		ru.Undecided("buffer", p.Rel(wb.Pos()), undec)
	default:
		ru.Check(msg == "", "buffer", p.Rel(wb.Pos()), fmt.Sprintf("%d write/write/read/read histories: bits come out in order, last byte zero padded", n), msg)
	}
	c01Flush(ru, p)
}

// c01CheckOut: the first n bits of slice s are want(from+i); the rest of the last byte is zero.
func c01CheckOut(s fw.AV, n, from int64, want func(i int64) fw.BvBit) string {
	for i := int64(0); i < (n+7)/8*8; i++ {
		b := s.Arr.ByteAt(s.Off + i/8).B[7-i%8]
		if i < n {
			if b != want(from+i) {
				return fmt.Sprintf("output bit %d is %s, must be %s", i, c01BitName(b), c01BitName(want(from+i)))
			}
		} else if b.K != fw.BvZero {
			return fmt.Sprintf("padding bit %d after the %d bits is %s, must be 0", i, n, c01BitName(b))
		}
	}
	return ""
}

// c01Flush: IOBitWriter.WriteBits + Flush against a model io.Writer.
func c01Flush(ru *fw.Rule, p *fw.Program) {
	wt := p.NamedType("pkg/bitio", "IOBitWriter")
	wb := p.Fn("(*pkg/bitio.IOBitWriter).WriteBits")
	fl := p.Fn("(*pkg/bitio.IOBitWriter).Flush")
	if wt == nil || wb == nil || fl == nil {
		ru.Undecided("flush:anchor", "", "bitio.IOBitWriter not found")
		return
	}
	msg, undec := "", ""
	n := 0
	sizes := []int64{0, 1, 5, 8, 11, 16, 19}
	for _, n1 := range sizes {
		for _, n2 := range sizes {
			if msg != "" || undec != "" {
				break
			}
			n++
			var sink []fw.BvVec
			it := c01NewInterp(p)
			it.Hooks["invoke:Write"] = func(it *fw.AInterp, cc *ssa.CallCommon, args []fw.AV) (fw.AV, bool) {
				s := args[1]
				if s.K != fw.AVSlice || s.Len < 0 {
					return fw.AV{}, false
				}
				for i := int64(0); i < s.Len; i++ {
					sink = append(sink, s.Arr.ByteAt(s.Off+i))
				}
				return fw.ATuple(fw.AInt(s.Len), fw.AErr("nil")), true
			}
			recv := fw.AV{K: fw.AVPtr, Cell: it.NewCellOf(wt)}
			ctx := fmt.Sprintf("WriteBits(%d) WriteBits(%d) Flush: ", n1, n2)
			a1 := fw.NewAArr("a", 0, (n1+7)/8, func(i int64) fw.AV { return fw.ABits(fw.StreamByte("a", i)) })
			a2 := fw.NewAArr("b", 0, (n2+7)/8, func(i int64) fw.AV { return fw.ABits(fw.StreamByte("b", i)) })
			for _, st := range []struct {
				f    *ssa.Function
				args []fw.AV
			}{
				{wb, []fw.AV{recv, fw.ASliceOf(a1, 0, 0, a1.Len), fw.AInt(n1)}},
				{wb, []fw.AV{recv, fw.ASliceOf(a2, 0, 0, a2.Len), fw.AInt(n2)}},
				{fl, []fw.AV{recv}},
			} {
				out := it.Run(st.f, st.args)
				if out.Kind == "abort" {
					undec = ctx + out.Msg
					break
				} else if out.Kind == "panic" {
					msg = ctx + st.f.Name() + " panics: " + out.Msg
					break
				}
			}
			if msg != "" || undec != "" {
				break
			}
			total := n1 + n2
			if int64(len(sink)) != (total+7)/8 {
				msg = fmt.Sprintf("%s%d bytes reach the writer, must be %d (whole bytes plus one padded byte for %d remaining bits)", ctx, len(sink), (total+7)/8, total%8)
				break
			}
			for i := int64(0); i < int64(len(sink))*8 && msg == ""; i++ {
				b := sink[i/8].B[7-i%8]
				var w fw.BvBit
				switch {
				case i < n1:
					w = fw.BvBit{K: fw.BvSrc, Src: "a", I: int(i)}
				case i < total:
					w = fw.BvBit{K: fw.BvSrc, Src: "b", I: int(i - n1)}
				}
				if b != w {
					msg = fmt.Sprintf("%sbit %d reaching the writer is %s, must be %s", ctx, i, c01BitName(b), c01BitName(w))
				}
			}
		}
	}
	if undec != "" {
		ru.Undecided("flush", p.Rel(fl.Pos()), undec)
		return
	}
	ru.Check(msg == "", "flush", p.Rel(fl.Pos()), fmt.Sprintf("%d histories: the writer receives the bits in order, whole bytes then one zero padded byte", n), msg)
}

// ---------------------------------------------------------------------------
// C01.ioreader

func c01IOReader(r *fw.Run, p *fw.Program) {
	ru := r.Rule("C01.ioreader", "bitio.IOReader.Read against a model bit reader (any chunking, byte multiples or not): across repeated calls the bytes handed out are exactly the stream's bytes in order, never more than len(p) per call, only whole bytes while the source lives, the final partial byte once at EOF with zero padding, then the source's error every time (sticky)", 4)
	rt := p.NamedType("pkg/bitio", "IOReader")
	rd := p.Fn("(*pkg/bitio.IOReader).Read")
	if rt == nil || rd == nil {
		ru.Undecided("anchor", "", "bitio.IOReader.Read not found")
		return
	}
	pos := p.Rel(rd.Pos())
	var data, count, fin, undec string
	n := 0
	for _, total := range []int64{0, 1, 7, 8, 9, 15, 16, 17, 23, 24, 25, 33, 40} {
		for _, chunk := range []int64{1, 5, 8, 13, 64} {
			for _, L := range []int64{1, 2, 3, 8} {
				for _, ewd := range []bool{false, true} {
					if undec != "" {
						break
					}
					n++
					src := &c01Source{total: total, chunk: chunk, eofWithData: ewd}
					it := c01NewInterp(p)
					it.Hooks["invoke:ReadBits"] = func(it *fw.AInterp, cc *ssa.CallCommon, args []fw.AV) (fw.AV, bool) {
						if len(args) != 3 || !args[2].IsConc() {
							return fw.AV{}, false
						}
						res := src.deliver(it, args[1], args[2].C, src.pos)
						src.pos += res.Elems[0].C
						return res, true
					}
					recv := fw.AV{K: fw.AVPtr, Cell: it.NewCellOf(rt)}
					ctx := fmt.Sprintf("stream of %d bits, source gives <=%d bits per call (EOF %s), len(p)=%d: ", total, chunk, map[bool]string{true: "with the last bits", false: "on the next call"}[ewd], L)
					var outBytes []fw.BvVec
					ended := false
					for call := 0; call < 80 && !ended; call++ {
						pa := fw.NewAArr("p", 0, L, func(i int64) fw.AV { return fw.ABits(fw.StreamByte("d", i)) })
						out := it.Run(rd, []fw.AV{recv, fw.ASliceOf(pa, 0, 0, L)})
						if out.Kind != "return" {
							if out.Kind == "abort" {
								undec = ctx + out.Msg
							} else if data == "" {
								data = ctx + "Read panics: " + out.Msg
							}
							ended = true
							break
						}
						if out.Res.K != fw.AVTuple || len(out.Res.Elems) != 2 || !out.Res.Elems[0].IsConc() || out.Res.Elems[1].K != fw.AVErr {
							undec = ctx + "Read result is not (n, error)"
							break
						}
						k, e := out.Res.Elems[0].C, out.Res.Elems[1].Tag
						if (k < 0 || k > L) && count == "" {
							count = fmt.Sprintf("%sRead returns n=%d for len(p)=%d", ctx, k, L)
						}
						for i := int64(0); i < k && i < L; i++ {
							outBytes = append(outBytes, pa.ByteAt(i))
						}
						if e != "nil" {
							ended = true
							if e != "EOF" && fin == "" {
								fin = ctx + "ends with error " + e + ", must be io.EOF"
							}
							// sticky: one more call returns (0, EOF)
							pa2 := fw.NewAArr("p", 0, L, func(i int64) fw.AV { return fw.ABits(fw.StreamByte("d", i)) })
							o2 := it.Run(rd, []fw.AV{recv, fw.ASliceOf(pa2, 0, 0, L)})
							if fin == "" && !(o2.Kind == "return" && o2.Res.K == fw.AVTuple && o2.Res.Elems[0].IsConc() && o2.Res.Elems[0].C == 0 && o2.Res.Elems[1].Tag == "EOF") {
								fin = ctx + "a Read after the end does not return (0, io.EOF) again"
							}
						} else if k == 0 && call > 60 && fin == "" {
							fin = ctx + "Read keeps returning (0, nil)"
							ended = true
						}
					}
					if undec != "" {
						break
					}
					if !ended && fin == "" {
						fin = ctx + "the stream never ends (no error after 80 reads)"
					}
					wantBytes := (total + 7) / 8
					if int64(len(outBytes)) != wantBytes && count == "" {
						count = fmt.Sprintf("%s%d bytes are handed out in total, must be %d", ctx, len(outBytes), wantBytes)
					}
					for i := int64(0); i < int64(len(outBytes))*8 && data == ""; i++ {
						b := outBytes[i/8].B[7-i%8]
						var w fw.BvBit
						if i < total {
							w = fw.BvBit{K: fw.BvSrc, Src: "s", I: int(i)}
						}
						if b != w {
							data = fmt.Sprintf("%soutput bit %d (byte %d) is %s, must be %s", ctx, i, i/8, c01BitName(b), c01BitName(w))
						}
					}
				}
			}
		}
	}
	r.Notes["C01.ioreader.scenarios"] = n
	if undec != "" {
		ru.Undecided("interp", pos, undec)
		return
	}
	ru.Check(data == "", "data", pos, fmt.Sprintf("%d scenarios: bytes handed out are the stream's bytes, last one zero padded", n), data)
	ru.Check(count == "", "count", pos, "n <= len(p) per call and ceil(bits/8) bytes in total", count)
	ru.Check(fin == "", "end", pos, "ends with io.EOF, sticky", fin)
	// the source's bits go through the carry buffer: structural link (reads what the source returned)
	env := fw.NewSxEnv(rd)
	var w string
	fw.EachInstr(rd, func(ins ssa.Instruction) {
		if cl, ok := ins.(*ssa.Call); ok && fw.SxCallee(cl.Common()) == "(*pkg/bitio.Buffer).WriteBits" {
			w = c01Args(env, cl)
		}
	})
	ru.Check(w == "(& recv.b) p0 (#0 (invoke ReadBits recv.r p0 8*(len p0)))", "carry", pos, w, "the carry buffer must be fed exactly the bits the source returned: WriteBits("+w+")")
}

// ---------------------------------------------------------------------------
// controls (registered for C01, and for the private C01B test entry)

func init() {
	rw, bi, bu, io, iw := "pkg/bitio/readwrite64.go", "pkg/bitio/bitio.go", "pkg/bitio/buffer.go", "pkg/bitio/ioreader.go", "pkg/bitio/iobitwriter.go"
	type ctl struct{ id, rule, file, old, new, expect string }
	for _, c := range []ctl{
		{"bits-read64-shift", "C01.read64", rw, "n = n<<bitsLeft | (uint64(b) >> (8 - bitsLeft))", "n = n<<bitsLeft | (uint64(b) >> (7 - bitsLeft))", "align:0"},
		{"bits-read64-lane", "C01.read64", rw, "uint64(be.Uint16(nBuf[4:6]))<<8 |\n					uint64(nBuf[6]))", "uint64(be.Uint16(nBuf[4:6]))<<8 |\n					uint64(nBuf[5]))", "align:0"},
		{"bits-read64-unaligned", "C01.read64", rw, "n = n<<bitsLeft | (uint64(b)&((1<<byteBitsLeft)-1))>>(byteBitsLeft-bitsLeft)", "n = n<<bitsLeft | (uint64(b)&((1<<byteBitsLeft)-1))>>(byteBitsLeft-bitsLeft+1)", "align:3"},
		{"bits-read64-guard", "C01.read64", rw, "func Read64(buf []byte, firstBit int64, nBits int64) uint64 {\n	if nBits < 0 || nBits > 64 {", "func Read64(buf []byte, firstBit int64, nBits int64) uint64 {\n	if nBits < 0 || nBits > 65 {", "guard:65"},
		{"bits-write64-mask", "C01.write64", rw, "bMask := byte((1<<byteBitPos)-1) << (8 - byteBitPos)", "bMask := byte((1<<byteBitPos)-1) << (7 - byteBitPos)", "align:1"},
		{"bits-write64-lane", "C01.write64", rw, "be.PutUint32(nBuf, uint32(v>>16))\n				be.PutUint16(nBuf[4:6], uint16(v))", "be.PutUint32(nBuf, uint32(v>>16))\n				be.PutUint16(nBuf[3:5], uint16(v))", "align:0"},
		{"bits-write64-keep", "C01.write64", rw, "bMask := byte(((1<<byteBitPos)-1)<<(8-byteBitPos) | ((1 << extraBits) - 1))", "bMask := byte(((1<<byteBitPos)-1)<<(8-byteBitPos))", "align:5"},
		{"bits-write64-caller", "C01.write64", bi, "Write64(uint64(pb[0]>>(8-rBits)), rBits, p, readBitOffset)", "Write64(uint64(pb[0]), rBits, p, readBitOffset)", "caller:pkg/bitio.readFull"},
		{"bits-copy-src", "C01.copybits", bi, "u := Read64(src, srcStart+off, c)", "u := Read64(src, srcStart, c)", "loop:off"},
		{"bits-copy-zero", "C01.copybits", bi, "Write64(0, 8-(e%8), dst, e)", "Write64(0, 7-(e%8), dst, e)", "align:0"},
		{"bits-copy-chunk", "C01.copybits", bi, "c := min(l, int64(64))", "c := min(l, int64(65))", "align:7"},
		{"bits-readfull-place", "C01.readfull", bi, "Write64(uint64(pb[0]>>(8-rBits)), rBits, p, readBitOffset)", "Write64(uint64(pb[0]>>(8-rBits)), rBits, p, readBitOffset+1)", "data"},
		{"bits-readfull-request", "C01.readfull", bi, "if partialByteBitsLeft == 0 || leftBits < readBits {", "if partialByteBitsLeft == 0 {", "requests"},
		{"bits-readfull-slice", "C01.readfull", bi, "rBits, err := fn(p[byteOffset:], nBits-readBitOffset, bitOff+readBitOffset)", "rBits, err := fn(p[byteOffset:], nBits, bitOff+readBitOffset)", "requests"},
		{"bits-readfull-ok", "C01.readfull", bi, "	return nBits, nil\n}\n\n// ReadAtFull", "	return readBitOffset - 1, nil\n}\n\n// ReadAtFull", "return:ok"},
		{"bits-pad-zero", "C01.pad", bu, "copyBufBits(p, 0, b.buf, b.bitsOff, c, true)", "copyBufBits(p, 0, b.buf, b.bitsOff, c, false)", "zero:ReadBits"},
		{"bits-pad-offset", "C01.pad", bu, "copyBufBits(p, 0, b.buf, b.bitsOff, c, true)", "copyBufBits(p, 0, b.buf, b.bufBits, c, true)", "buffer"},
		{"bits-pad-flush", "C01.pad", iw, "		n, err := w.b.ReadBits(buf[:], l-(l%8))", "		n, err := w.b.ReadBits(buf[:], l)", "flush"},
		{"bits-ioreader-whole", "C01.ioreader", io, "aBits := bBits - bBits%8", "aBits := bBits", "data"},
		{"bits-ioreader-last", "C01.ioreader", io, "				return 1, r.rErr\n", "				return 0, r.rErr\n", "count"},
		{"bits-ioreader-carry", "C01.ioreader", io, "_, err = r.b.WriteBits(p, rn)", "_, err = r.b.WriteBits(p, int64(len(p))*8)", "carry"},
	} {
		for _, prop := range []string{"C01", "C01B"} {
			if prop == "C01" && (c.rule == "C01.readfull" || c.rule == "C01.pad" || c.rule == "C01.ioreader") {
				continue // scenario-driven rules are not part of the C01 claim
			}
			id := "c01-" + c.id
			if prop == "C01B" {
				id = "c01b-" + c.id
			}
			AddControl(Control{ID: id, Prop: prop, Rule: c.rule, File: c.file, Old: c.old, New: c.new, ExpectKey: c.expect})
		}
	}
}
