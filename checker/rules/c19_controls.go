package rules

// Positive controls for C19: seeded one-line slips in the anchored mechanisms; each must make the named rule fire.

func init() {
	const fd = "format/inet/flowsdecoder/flowsdecoder.go"
	const sh = "format/pcap/shared.go"
	const pc = "format/pcap/pcap.go"
	const ng = "format/pcap/pcapng.go"
	add := func(id, rule, file, old, new, key string) {
		AddControl(Control{ID: id, Prop: "C19", Rule: rule, File: file, Old: old, New: new, ExpectKey: key})
	}
	// C19.dir
	add("c19-dir-swapped", "C19.dir", fd,
		"\t\td = t.Client\n\tcase reassembly.TCPDirServerToClient:\n\t\td = t.Server",
		"\t\td = t.Server\n\tcase reassembly.TCPDirServerToClient:\n\t\td = t.Client", "ClientToServer")
	add("c19-dir-write-client", "C19.dir", fd, "\td.Buffer.Write(data)", "\tt.Client.Buffer.Write(data)", "total")
	// C19.skip
	add("c19-skip-no-return", "C19.skip", fd, "\t\td.SkippedBytes += uint64(skip)\n\t\treturn\n", "\t\td.SkippedBytes += uint64(skip)\n", "gap-no-append")
	add("c19-skip-minus1-counted", "C19.skip", fd, "if skip == -1 {", "if skip == 1 {", "start-marker")
	add("c19-skip-saved-length", "C19.skip", fd, "length, _ := sg.Lengths()", "_, length := sg.Lengths()", "data")
	add("c19-skip-hasend-overwrite", "C19.skip", fd, "d.HasEnd = d.HasEnd || end", "d.HasEnd = end", "HasEnd")
	// C19.accept
	add("c19-accept-inverted", "C19.accept", fd, "if !t.tcpState.CheckState(tcp, dir) {", "if t.tcpState.CheckState(tcp, dir) {", "Accept:")
	add("c19-complete-true", "C19.accept", fd, "\t// do not remove the connection to allow last ACK\n\treturn false", "\treturn true", "ReassemblyComplete")
	// C19.start
	add("c19-start-forced", "C19.start", fd, "\t// TODO: checksum?\n\n\t// accept\n\treturn true", "\t*start = true\n\treturn true", "start-not-forced")
	add("c19-start-forced-closure", "C19.start", fd, "\t// TODO: checksum?\n\n\t// accept\n\treturn true",
		"\tforce := func(b bool) { *start = b }\n\tif nextSeq == 0 {\n\t\tforce(!tcp.RST)\n\t}\n\treturn true", "start-not-forced")
	add("c19-start-escapes", "C19.start", fd, "\t// TODO: checksum?\n\n\t// accept\n\treturn true", "\tfmt.Sprint(start)\n\treturn true", "start-confined")
	add("c19-start-segment-write", "C19.start", fd, "\t// TODO: checksum?\n\n\t// accept\n\treturn true", "\tif tcp.SYN && len(tcp.Payload) > 0 {\n\t\ttcp.Payload = nil\n\t}\n\treturn true", "segment-readonly")
	add("c19-start-keepfrom", "C19.start", fd, "\tdata := sg.Fetch(length)\n", "\tdata := sg.Fetch(length)\n\tsg.KeepFrom(0)\n", "sg-readonly")
	// C19.endpoint
	add("c19-endpoint-ip-swapped", "C19.endpoint", fd, "IP:   slices.Clone(net.Src().Raw()),", "IP:   slices.Clone(net.Dst().Raw()),", "Client.IP")
	add("c19-endpoint-port-le", "C19.endpoint", fd, "serverPort = int(binary.BigEndian.Uint16(transport.Dst().Raw()))", "serverPort = int(binary.LittleEndian.Uint16(transport.Dst().Raw()))", "Server.Port")
	add("c19-endpoint-unregistered", "C19.endpoint", fd, "\tfd.TCPConnections = append(fd.TCPConnections, stream)\n", "", "registered")
	// C19.defrag
	add("c19-defrag-by-flags", "C19.defrag", fd, "if newIPv4 != ip4 {", "if ip4.Flags&layers.IPv4MoreFragments == 0 && ip4.FragOffset != 0 {", "complete-by-result")
	add("c19-defrag-by-length", "C19.defrag", fd, "if newIPv4 != ip4 {", "if newIPv4.Length != ip4.Length {", "complete-by-result")
	add("c19-defrag-src-dst", "C19.defrag", fd, "SourceIP:      ip4.SrcIP,", "SourceIP:      ip4.DstIP,", "record-src")
	add("c19-defrag-redecode-fragment", "C19.defrag", fd, "nextDecoder.Decode(newIPv4.Payload, pb)", "nextDecoder.Decode(ip4.Payload, pb)", "redecode-call")
	// C19.link
	add("c19-link-sll-swapped", "C19.link", sh, "format.LinkTypeLINUX_SLL:  (*flowsdecoder.Decoder).SLLPacket,", "format.LinkTypeLINUX_SLL:  (*flowsdecoder.Decoder).SLL2Packet,", "LinkTypeLinuxSLL")
	add("c19-link-null-missing", "C19.link", sh, "\tformat.LinkTypeNULL:       (*flowsdecoder.Decoder).LoopbackFrame,\n", "", "LinkTypeNull")
	add("c19-link-raw-nibble", "C19.link", fd, "version := bs[0] >> 4", "version := bs[0] & 0xf", "version-4")
	add("c19-link-raw-empty", "C19.link", fd, "\tif len(bs) == 0 {\n\t\treturn fmt.Errorf(\"empty ip packet\")\n\t}\n", "", "nonempty")
	// C19.feed
	add("c19-feed-pcap-origlen", "C19.feed", pc, "bs := d.ReadAllBits(d.BitBufRange(d.Pos(), int64(inclLen)*8))", "bs := d.ReadAllBits(d.BitBufRange(d.Pos(), int64(origLen)*8))", "bytes")
	add("c19-feed-pcapng-iface-id", "C19.feed", ng, "dc.interfaceTypes[len(dc.interfaceTypes)] = int(typ)", "dc.interfaceTypes[len(dc.interfaceTypes)+1] = int(typ)", "iface-id")
	add("c19-feed-pcap-linktype", "C19.feed", pc, "\t\td.FieldU32(\"snaplen\")\n\t\tlinkType = int(d.FieldU32(\"network\", format.LinkTypeMap))", "\t\tlinkType = int(d.FieldU32(\"snaplen\"))\n\t\td.FieldU32(\"network\", format.LinkTypeMap)", "linktype")
	// C19.section
	add("c19-section-shared-decoder", "C19.section", ng,
		"\tsectionHeaders := 0\n\tfor !d.End() {\n\t\tfd := flowsdecoder.New(flowsdecoder.DecoderOptions{CheckTCPOptions: false})\n",
		"\tsectionHeaders := 0\n\tfd := flowsdecoder.New(flowsdecoder.DecoderOptions{CheckTCPOptions: false})\n\tfor !d.End() {\n", "fresh")
	add("c19-section-flush-after-flows", "C19.section", ng,
		"\t\t\tfd.Flush()\n\t\t\tfieldFlows(d, dc.flowDecoder, pcapngTCPStreamGroup, pcapngIPvPacket4Group)",
		"\t\t\tfieldFlows(d, dc.flowDecoder, pcapngTCPStreamGroup, pcapngIPvPacket4Group)\n\t\t\tfd.Flush()", "flush-before-flows")
	add("c19-section-flush-per-packet", "C19.section", pc, "\t\t\t\t\t_ = fn(fd, bs)\n", "\t\t\t\t\t_ = fn(fd, bs)\n\t\t\t\t\tfd.Flush()\n", "flush")
	add("c19-section-iface-table-shared", "C19.section", ng,
		"\tfor !d.End() {\n\t\tfd := flowsdecoder.New(flowsdecoder.DecoderOptions{CheckTCPOptions: false})\n\t\tdc := decodeContext{\n\t\t\tinterfaceTypes: map[int]int{},",
		"\tifaces := map[int]int{}\n\tfor !d.End() {\n\t\tfd := flowsdecoder.New(flowsdecoder.DecoderOptions{CheckTCPOptions: false})\n\t\tdc := decodeContext{\n\t\t\tinterfaceTypes: ifaces,", "iface-table-fresh")
	add("c19-section-buffer-limit", "C19.section", fd, "\tflowDecoder.tcpAssembler = tcpAssembler\n", "\ttcpAssembler.MaxBufferedPagesPerConnection = 16\n\tflowDecoder.tcpAssembler = tcpAssembler\n", "assembler:options")
	// C19.flow
	add("c19-flow-server-ports", "C19.flow", sh,
		"\t\t\t\t\t\tSourcePort:      s.Server.Endpoint.Port,\n\t\t\t\t\t\tDestinationPort: s.Client.Endpoint.Port,",
		"\t\t\t\t\t\tSourcePort:      s.Client.Endpoint.Port,\n\t\t\t\t\t\tDestinationPort: s.Server.Endpoint.Port,", "in.SourcePort")
	add("c19-flow-client-is-server", "C19.flow", sh, "clientV = f(d, s.Client, format.TCP_Stream_In{", "clientV = f(d, s.Server, format.TCP_Stream_In{", "wire:")
	add("c19-flow-ipv4-group", "C19.flow", sh, "\t\t\t\t&ipv4PacketFormat,\n", "\t\t\t\t&tcpStreamFormat,\n", "ipv4_packet:group")
	// second self-review
	add("c19-endian-pcap-be-ns", "C19.endian", pc, "\t\tcase bigEndianNS:\n\t\t\tendian = decode.BigEndian", "\t\tcase bigEndianNS:\n\t\t\tendian = decode.LittleEndian", "endian:pcap:0xa1b23c4d")
	add("c19-endian-pcap-magic-const", "C19.endian", pc, "littleEndianNS = 0x4d3cb2a1", "littleEndianNS = 0x4d3cb1a2", "endian:pcap:0x4d3cb2a1")
	add("c19-endian-pcapng-swapped", "C19.endian", ng, "\t\tcase ngBigEndian:\n\t\t\tdc.endian = decode.BigEndian", "\t\tcase ngBigEndian:\n\t\t\tdc.endian = decode.LittleEndian", "endian:pcapng:0x1a2b3c4d")
	add("c19-section-length-origin", "C19.section", ng,
		"\t\t// assume and read first section header\n\t\td.FieldStruct(\"block\", func(d *decode.D) { decodeBlock(d, dc) })\n\t\t// section length does not include the section header block itself\n\t\tsectionStart := d.Pos()\n",
		"\t\tsectionStart := d.Pos()\n\t\td.FieldStruct(\"block\", func(d *decode.D) { decodeBlock(d, dc) })\n", "pcapng:section-length-origin")
	add("c19-section-length-inclusive", "C19.section", ng, "d.Pos()-sectionStart < dc.sectionLength*8", "d.Pos()-sectionStart <= dc.sectionLength*8", "pcapng:section-length:bound")
	add("c19-section-length-unscaled", "C19.section", ng, "d.Pos()-sectionStart < dc.sectionLength*8", "d.Pos()-sectionStart < dc.sectionLength", "pcapng:section-length:bound")
	add("c19-section-optcheck-on", "C19.section", pc, "flowsdecoder.New(flowsdecoder.DecoderOptions{CheckTCPOptions: false})", "flowsdecoder.New(flowsdecoder.DecoderOptions{CheckTCPOptions: true})", "no-option-check")
	add("c19-feed-pos-before-origlen", "C19.feed", ng,
		"\t\tcapturedLength := d.FieldU32(\"capture_packet_length\")\n\t\td.FieldU32(\"original_packet_length\")\n\n\t\tbs := d.ReadAllBits(d.BitBufRange(d.Pos(), int64(capturedLength)*8))\n",
		"\t\tcapturedLength := d.FieldU32(\"capture_packet_length\")\n\t\tbs := d.ReadAllBits(d.BitBufRange(d.Pos(), int64(capturedLength)*8))\n\t\td.FieldU32(\"original_packet_length\")\n\n", "at-packet")
	add("c19-feed-only-untruncated", "C19.feed", pc, "if fn, ok := linkToDecodeFn[linkType]; ok {", "if fn, ok := linkToDecodeFn[linkType]; ok && inclLen == origLen {", "every-record")
	add("c19-feed-pcapng-packet-len", "C19.feed", ng, "\t\t\t\"packet\",\n\t\t\tint64(capturedLength)*8,", "\t\t\t\"packet\",\n\t\t\tint64(capturedLength)*8+32,", "at-packet")
	add("c19-endpoint-port-guard", "C19.endpoint", fd, "if len(transport.Src().Raw()) == 2 {", "if len(transport.Src().Raw()) == 4 {", "Client.Port")
	add("c19-endpoint-port-guard-flow", "C19.endpoint", fd, "if len(transport.Dst().Raw()) == 2 {", "if len(net.Dst().Raw()) == 2 {", "Server.Port")
	add("c19-endpoint-optcheck-default", "C19.endpoint", fd, "if fd.Options.CheckTCPOptions {", "if !fd.Options.CheckTCPOptions {", "optcheck-gated")
	add("c19-defrag-assemble-ipv4-only", "C19.defrag", fd, "\tif tcp != nil {\n\t\ttcp, _ := tcp.(*layers.TCP)", "\tif tcp != nil && ip4Layer != nil {\n\t\ttcp, _ := tcp.(*layers.TCP)", "assemble-always")
	add("c19-defrag-assemble-payload-only", "C19.defrag", fd, "\t\ttcp, _ := tcp.(*layers.TCP)\n\t\tfd.tcpAssembler.Assemble(", "\t\ttcp, _ := tcp.(*layers.TCP)\n\t\tif len(tcp.Payload) == 0 {\n\t\t\treturn nil\n\t\t}\n\t\tfd.tcpAssembler.Assemble(", "assemble-always")
	add("c19-endpoint-register-syn-only", "C19.endpoint", fd, "\tfd.TCPConnections = append(fd.TCPConnections, stream)\n", "\tif tcp.SYN {\n\t\tfd.TCPConnections = append(fd.TCPConnections, stream)\n\t}\n", "registered-always")
	add("c19-flow-skip-empty", "C19.flow", sh, "\t\tfor _, s := range fd.TCPConnections {\n", "\t\tfor _, s := range fd.TCPConnections {\n\t\t\tif s.Client.Buffer.Len() == 0 && s.Server.Buffer.Len() == 0 {\n\t\t\t\tcontinue\n\t\t\t}\n", "every-connection")
	// round 4
	add("c19-feed-error-aborts-pcap", "C19.feed", pc, "\t\t\t\t\t// TODO: report decode errors\n\t\t\t\t\t_ = fn(fd, bs)\n", "\t\t\t\t\tif err := fn(fd, bs); err != nil {\n\t\t\t\t\t\td.Errorf(\"flows: %s\", err)\n\t\t\t\t\t}\n", "error-tolerated")
	add("c19-feed-error-aborts-pcapng", "C19.feed", ng, "\t\t\t// TODO: report decode errors\n\t\t\t_ = fn(dc.flowDecoder, bs)\n", "\t\t\terr := fn(dc.flowDecoder, bs)\n\t\t\tif err == nil {\n\t\t\t\t_ = err\n\t\t\t} else {\n\t\t\t\td.Fatalf(\"flows: %v\", err)\n\t\t\t}\n", "error-tolerated")
	add("c19-feed-error-ends-record", "C19.feed", pc, "\t\t\t\t\t// TODO: report decode errors\n\t\t\t\t\t_ = fn(fd, bs)\n", "\t\t\t\t\tif err := fn(fd, bs); err != nil {\n\t\t\t\t\t\treturn\n\t\t\t\t\t}\n", "")
}
