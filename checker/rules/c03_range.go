package rules

import (
	"go/token"
	"go/types"

	"golang.org/x/tools/go/ssa"

	"fqverif/fw"
)

const (
	c03D     = "(*pkg/decode.D)."
	c03Value = "(*pkg/decode.Value)."
)

// isCallOf: canon(v) is a static call of fn whose first argument is recv (nil = any).
func (c *c03x) isCallOf(v ssa.Value, fn *ssa.Function, recv ssa.Value) *ssa.Call {
	call, ok := c.canon(v).(*ssa.Call)
	if !ok || fn == nil || call.Common().StaticCallee() != fn {
		return nil
	}
	if recv != nil && (len(call.Common().Args) == 0 || c.canon(call.Common().Args[0]) != recv) {
		return nil
	}
	return call
}

// singleTerm: l == 1*term (no constant); returns the term.
func c03SingleTerm(l *c03Lin) (c03Lterm, bool) {
	if l == nil || l.c != 0 || len(l.t) != 1 {
		return c03Lterm{}, false
	}
	for t, k := range l.t {
		if k == 1 {
			return t, true
		}
	}
	return c03Lterm{}, false
}

func (c *c03x) linIsPath(l *c03Lin, root ssa.Value, path string) bool {
	t, ok := c03SingleTerm(l)
	return ok && t.root == root && t.path == path
}

func (c *c03x) linIsValue(l *c03Lin, v ssa.Value) bool { return c.linIsPath(l, v, "") }

// linIsPos: l is exactly one call d.Pos(); returns the call.
func (c *c03x) linIsPos(l *c03Lin, posFn *ssa.Function, d ssa.Value) *ssa.Call {
	t, ok := c03SingleTerm(l)
	if !ok || t.path != "" {
		return nil
	}
	return c.isCallOf(t.root, posFn, d)
}

// valueRange: the Start / Len linear forms written to <base>.Range in fn (whole or per field);
// unwritten parts of a freshly allocated value are zero. ok=false when written more than once.
func (c *c03x) valueRange(fn *ssa.Function, base c03Vpath) (s, l *c03Lin, stores []*ssa.Store, ok bool) {
	ok = true
	_, fresh := base.root.(*ssa.Alloc)
	for _, fs := range c.fieldStores(fn, c.valueT, "Range") {
		if fs.base != base {
			continue
		}
		stores = append(stores, fs.st)
		switch fs.sub {
		case "":
			if s != nil || l != nil {
				ok = false
			}
			s, l = c.rangeParts(fs.st.Val, 0)
		case ".Start":
			if s != nil {
				ok = false
			}
			s = c.linOf(fs.st.Val)
		case ".Len":
			if l != nil {
				ok = false
			}
			l = c.linOf(fs.st.Val)
		default:
			ok = false
		}
	}
	if fresh {
		if s == nil {
			s = c03LinConst(0)
		}
		if l == nil {
			l = c03LinConst(0)
		}
	}
	if s == nil || l == nil {
		ok = false
	}
	return
}

// storedField: the single value stored into <base>.<field> (field of T) in fn.
func (c *c03x) storedField(fn *ssa.Function, T interface{}, base c03Vpath, field string) (ssa.Value, *ssa.Store, int) {
	var val ssa.Value
	var st *ssa.Store
	n := 0
	named := c.valueT
	switch T {
	case "D":
		named = c.dT
	case "Compound":
		named = c.compT
	}
	for _, fs := range c.fieldStores(fn, named, field) {
		if fs.base == base && fs.sub == "" {
			n++
			val, st = fs.st.Val, fs.st
		}
	}
	return val, st, n
}

// freshAllocs: allocations of the named struct type in fn.
func (c *c03x) freshAllocs(fn *ssa.Function, T *types.Named) []*ssa.Alloc {
	var out []*ssa.Alloc
	fw.EachInstr(fn, func(ins ssa.Instruction) {
		if a, ok := ins.(*ssa.Alloc); ok && c.isNamed(a.Type(), T) {
			out = append(out, a)
		}
	})
	return out
}

func c03Range(r *fw.Run, c *c03x) {
	ru := r.Rule("C03.range", "ranges recorded by the field API: TryFieldValue stores Start = Pos() taken before the reader call and Len = Pos() after - Pos() before, on the very value it then links (name/range/reader set before AddChild); fieldDecoder starts a compound at Pos() with Len 0 and uses one reader for D.bitBuf and Value.RootReader; newDecoder root is 0:0; FieldRootBitBuf is Pos():len(br) and IsRoot; FieldRangeFn records (firstBit,nBits); gap values carry the computed gap; Pos() is SeekBits(0, SeekCurrent) on d.bitBuf; every caller of TryFieldValue (the typed TryFieldScalar*Fn family, FieldValue) invokes its reader callback only inside the closure it hands to TryFieldValue, and a value whose reader failed is not linked; the root compound kind is the format's; a gap value holds exactly the bits of its range", 32)
	p := c.p
	posFn := c.fn(ru, c03D+"Pos")
	addChild := c.fn(ru, c03D+"AddChild")
	if posFn == nil || addChild == nil {
		return
	}

	// --- Pos / TryPos
	if tp := c.fn(ru, c03D+"TryPos"); tp != nil {
		d := ssa.Value(tp.Params[0])
		good := false
		n := 0
		fw.EachInstr(tp, func(ins ssa.Instruction) {
			call, ok := ins.(*ssa.Call)
			if !ok || !call.Common().IsInvoke() || call.Common().Method.Name() != "SeekBits" {
				return
			}
			n++
			a := call.Common().Args
			off, ok1 := c03ConstInt(a[0])
			wh, ok2 := c03ConstInt(a[1])
			good = c.pathOf(call.Common().Value).is(d, ".bitBuf") && ok1 && ok2 && off == 0 && wh == 1
		})
		ru.Check(good && n == 1, "TryPos:seek-current-0", c.at(tp), "d.bitBuf.SeekBits(0, SeekCurrent)", "TryPos is not d.bitBuf.SeekBits(0, io.SeekCurrent): every recorded range start/length is off")
		tpCalls := c.callsTo(posFn, tp)
		okPos := len(tpCalls) == 1 && c.canon(tpCalls[0].Common().Args[0]) == ssa.Value(posFn.Params[0])
		if okPos {
			fw.EachInstr(posFn, func(ins ssa.Instruction) {
				if ret, ok := ins.(*ssa.Return); ok {
					ex, ok := c.canon(ret.Results[0]).(*ssa.Extract)
					if !ok || ex.Tuple != ssa.Value(tpCalls[0]) || ex.Index != 0 {
						okPos = false
					}
				}
			})
		}
		ru.Check(okPos, "Pos:is-TryPos", c.at(posFn), "Pos returns TryPos()'s position", "Pos no longer returns the position reported by TryPos")
	}

	// --- TryFieldValue
	if f := c.fn(ru, c03D+"TryFieldValue"); f != nil && len(f.Params) == 3 {
		d, name, fnp := ssa.Value(f.Params[0]), ssa.Value(f.Params[1]), ssa.Value(f.Params[2])
		fcs := c.dynCallsOf(f, fnp)
		if len(fcs) != 1 {
			ru.Undecided("TryFieldValue:reader-call", c.at(f), "expected exactly one call of the reader function parameter")
		} else {
			fc := fcs[0]
			var v ssa.Value
			for _, ref := range *fc.Referrers() {
				if ex, ok := ref.(*ssa.Extract); ok && ex.Index == 0 {
					v = ex
				}
			}
			base := c03Vpath{v, ""}
			s, l, rst, ok := c.valueRange(f, base)
			// no Range store on any other value
			others := 0
			for _, fs := range c.fieldStores(f, c.valueT, "Range") {
				if fs.base != base {
					others++
				}
			}
			if v == nil || !ok || others > 0 {
				ru.Fail("TryFieldValue:range-target", c.at(f), "the range is not stored (exactly once) on the value returned by the reader function")
			} else {
				ru.Ok("TryFieldValue:range-target", c.at(f), "range stored on the reader's value")
				startCall := c.linIsPos(s, posFn, d)
				ru.Check(startCall != nil && c03Before(startCall, fc), "TryFieldValue:start", p.Rel(rst[0].Pos()), "Start = d.Pos() before the reader call",
					"Range.Start is "+c.showLin(s)+": not the position taken before the reader call")
				okLen := false
				if startCall != nil && l.c == 0 && len(l.t) == 2 {
					var stop *ssa.Call
					neg := false
					for t, k := range l.t {
						if t.root == ssa.Value(startCall) && t.path == "" && k == -1 {
							neg = true
						} else if k == 1 && t.path == "" {
							stop = c.isCallOf(t.root, posFn, d)
						}
					}
					okLen = neg && stop != nil && c03Before(fc, stop)
				}
				ru.Check(okLen, "TryFieldValue:len", p.Rel(rst[0].Pos()), "Len = Pos() after - Pos() before",
					"Range.Len is "+c.showLin(l)+": not (position after the reader call) - (position before it)")
			}
			nv, nst, nn := c.storedField(f, "Value", base, "Name")
			ru.Check(nn == 1 && c.canon(nv) == name, "TryFieldValue:name", c.at(f), "Name = name", "the value's Name is not set to the name parameter")
			rv, rrst, rn := c.storedField(f, "Value", base, "RootReader")
			ru.Check(rn == 1 && c.pathOf(rv).is(d, ".bitBuf"), "TryFieldValue:reader", c.at(f), "RootReader = d.bitBuf", "RootReader is not the decoder's reader: the range refers to another buffer than the one recorded")
			acs := c.callsTo(f, addChild)
			okLink := len(acs) == 1 && v != nil
			if okLink {
				ac := acs[0]
				okLink = c.canon(ac.Common().Args[0]) == d && c.canon(ac.Common().Args[1]) == v
				okLink = okLink && nst != nil && c03Before(nst, ac) && c.onEveryPathThrough(ac, append(append([]*ssa.Store{}, rst...), rrst))
			}
			okNoErr := len(acs) == 1 && c03ErrGuarded(acs[0].Block(), fc)
			ru.Check(okNoErr, "TryFieldValue:no-link-on-error", c.at(f), "AddChild only when the reader returned no error", "TryFieldValue links the value although its reader failed: a field whose read stopped half-way (range up to wherever the reader got) stays in the tree, and a retry under the same name is refused as duplicate")
			ru.Check(okLink, "TryFieldValue:link-after-set", c.at(f), "Name set before AddChild(v); range and reader set on every path that links v",
				"the value is linked (AddChild) before its name/range are final, or another value is linked: ByName is keyed by a stale name / the tree holds a value without the recorded range")
		}
	}

	// --- callers of TryFieldValue: the reader callback runs inside the measured window
	if tfv := c.p.Fn(c03D + "TryFieldValue"); tfv != nil {
		nCallers := 0
		for _, F := range c.p.FqFunctions() {
			if F.Parent() != nil {
				continue
			}
			for _, call := range c.callsTo(F, tfv) {
				nCallers++
				key := "reader-inside-window|" + fw.ShortFn(F)
				K := c.closureFn(call.Common().Args[2])
				if K == nil || K.Parent() != F {
					ru.Undecided(key, p.Rel(call.Pos()), "TryFieldValue is not given a closure of the calling function")
					continue
				}
				okRecv := c.canon(call.Common().Args[0]) == ssa.Value(F.Params[0])
				inside, outside, nFuncParams := 0, 0, 0
				for _, prm := range F.Params {
					if _, isFn := prm.Type().Underlying().(*types.Signature); !isFn {
						continue
					}
					nFuncParams++
					outside += len(c.dynCallsOf(F, prm))
					for _, kf := range fw.WithClosures(K) {
						inside += len(c.dynCallsOf(kf, prm))
					}
				}
				ru.Check(okRecv && nFuncParams >= 1 && outside == 0 && inside >= 1, key, p.Rel(call.Pos()), "the reader callback is invoked only inside the closure measured by TryFieldValue",
					fw.ShortFn(F)+": the reader callback is invoked outside the closure that TryFieldValue brackets with Pos() (or on another decoder): the field's range is not the bits it read")
			}
		}
		if nCallers == 0 {
			ru.Undecided("reader-inside-window", "", "no caller of TryFieldValue found")
		}
	}

	// --- FieldRangeFn
	if f := c.fn(ru, c03D+"FieldRangeFn"); f != nil && len(f.Params) == 5 {
		d, name, firstBit, nBits, fnp := ssa.Value(f.Params[0]), ssa.Value(f.Params[1]), ssa.Value(f.Params[2]), ssa.Value(f.Params[3]), ssa.Value(f.Params[4])
		fcs := c.dynCallsOf(f, fnp)
		if len(fcs) != 1 {
			ru.Undecided("FieldRangeFn:value", c.at(f), "expected exactly one call of the value function parameter")
		} else {
			v := ssa.Value(fcs[0])
			base := c03Vpath{v, ""}
			s, l, rst, ok := c.valueRange(f, base)
			ru.Check(ok && c.linIsValue(s, firstBit) && c.linIsValue(l, nBits), "FieldRangeFn:range", c.at(f), "Range = {firstBit, nBits}",
				"FieldRangeFn does not record Range{Start: firstBit, Len: nBits}")
			nv, nst, nn := c.storedField(f, "Value", base, "Name")
			rv, rrst, rn := c.storedField(f, "Value", base, "RootReader")
			acs := c.callsTo(f, addChild)
			okLink := nn == 1 && c.canon(nv) == name && rn == 1 && c.pathOf(rv).is(d, ".bitBuf") && len(acs) == 1
			if okLink {
				ac := acs[0]
				okLink = c.canon(ac.Common().Args[0]) == d && c.canon(ac.Common().Args[1]) == v
				okLink = okLink && nst != nil && c03Before(nst, ac) && c.onEveryPathThrough(ac, append(append([]*ssa.Store{}, rst...), rrst))
			}
			ru.Check(okLink, "FieldRangeFn:link-after-set", c.at(f), "name/reader set, then AddChild(v)", "FieldRangeFn links the value before name/range/reader are final (or not at all)")
		}
	}

	// --- fieldDecoder / newDecoder
	ctor := func(fname string, nameKey string, readerParam int, wantPos bool) {
		f := c.fn(ru, fname)
		if f == nil {
			return
		}
		var d ssa.Value
		if wantPos {
			d = f.Params[0]
		}
		br := ssa.Value(f.Params[readerParam])
		vals := c.freshAllocs(f, c.valueT)
		ds := c.freshAllocs(f, c.dT)
		if len(vals) != 1 || len(ds) != 1 {
			ru.Undecided(nameKey+":shape", c.at(f), "expected one new Value and one new D")
			return
		}
		base := c03Vpath{vals[0], ""}
		s, l, _, ok := c.valueRange(f, base)
		lz, lzok := l.isConst()
		if wantPos {
			ru.Check(ok && c.linIsPos(s, posFn, d) != nil && lzok && lz == 0, nameKey+":range", c.at(f), "Range = {d.Pos(), 0}",
				nameKey+": a new compound does not start as Range{Start: d.Pos(), Len: 0} (is "+c.showLin(s)+" : "+c.showLin(l)+"): an empty struct/array reports a position it was not decoded at")
		} else {
			sz, szok := s.isConst()
			ru.Check(ok && szok && sz == 0 && lzok && lz == 0, nameKey+":range", c.at(f), "Range = 0:0", nameKey+": the root value does not start as Range 0:0")
		}
		rv, _, rn := c.storedField(f, "Value", base, "RootReader")
		dbase := c03Vpath{ds[0], ""}
		bv, _, bn := c.storedField(f, "D", dbase, "bitBuf")
		vv, _, vn := c.storedField(f, "D", dbase, "Value")
		ru.Check(rn == 1 && bn == 1 && vn == 1 && c.canon(rv) == br && c.canon(bv) == br && c.canon(vv) == ssa.Value(vals[0]), nameKey+":one-reader", c.at(f),
			"D.bitBuf and Value.RootReader are the reader parameter; D.Value is the new value",
			nameKey+": the decoder's reader, the value's RootReader and the reader parameter are not one and the same (positions are recorded against one buffer and resolved against another)")
		if wantPos {
			vv, _, vn := c.storedField(f, "Value", base, "V")
			ru.Check(vn == 1 && len(f.Params) == 4 && c.canon(vv) == ssa.Value(f.Params[3]), nameKey+":value", c.at(f), "Value.V = the compound/scalar handed in", nameKey+": the new value does not hold the compound it was created for (e.g. the parent's): children are appended to a compound shared with another value and parent/child links disagree")
		}
		if !wantPos {
			okKind := false
			if comps := c.freshAllocs(f, c.compT); len(comps) == 1 {
				if kv, ok := c.litField(comps[0], "IsArray"); ok && kv != nil && c.pathOf(kv).is(ssa.Value(f.Params[1]), ".RootArray") {
					vv, _, vn := c.storedField(f, "Value", base, "V")
					okKind = vn == 1 && c.canon(vv) == ssa.Value(comps[0])
				}
			}
			ru.Check(okKind, nameKey+":kind", c.at(f), "root compound IsArray = format.RootArray", nameKey+": the root value is not a compound whose kind (array/struct) is the one the format declares: a struct root would get no names/ordering, an array root would be sorted by range")
			iv, _, in := c.storedField(f, "Value", base, "IsRoot")
			ru.Check(in == 1 && c.pathOf(iv).is(ssa.Value(f.Params[3]), ".IsRoot"), nameKey+":isroot", c.at(f), "IsRoot = opts.IsRoot", nameKey+": root flag is not taken from the options")
		}
	}
	ctor(c03D+"fieldDecoder", "fieldDecoder", 2, true)
	ctor("pkg/decode.newDecoder", "newDecoder", 2, false)

	// --- FieldRootBitBuf
	if f := c.fn(ru, c03D+"FieldRootBitBuf"); f != nil {
		d, name, br := ssa.Value(f.Params[0]), ssa.Value(f.Params[1]), ssa.Value(f.Params[2])
		vals := c.freshAllocs(f, c.valueT)
		if len(vals) != 1 {
			ru.Undecided("FieldRootBitBuf:shape", c.at(f), "expected one new Value")
		} else {
			base := c03Vpath{vals[0], ""}
			s, l, rst, ok := c.valueRange(f, base)
			okLen := false
			if t, ok := c03SingleTerm(l); ok && t.path == "" {
				if ex, ok := t.root.(*ssa.Extract); ok && ex.Index == 0 {
					if call, ok := ex.Tuple.(*ssa.Call); ok && fw.CalleeName(call) == fw.Mod+"/internal/bitiox.Len" && c.canon(call.Common().Args[0]) == br {
						okLen = true
					}
				}
			}
			ru.Check(ok && c.linIsPos(s, posFn, d) != nil && okLen, "FieldRootBitBuf:range", c.at(f), "Range = {d.Pos(), len(br)}",
				"FieldRootBitBuf: nested buffer value is not Range{Start: d.Pos(), Len: length of br}")
			iv, ist, in := c.storedField(f, "Value", base, "IsRoot")
			rv, rrst, rn := c.storedField(f, "Value", base, "RootReader")
			nv, nst, nn := c.storedField(f, "Value", base, "Name")
			ru.Check(in == 1 && c03IsConstBool(iv, true) && rn == 1 && c.canon(rv) == br && nn == 1 && c.canon(nv) == name, "FieldRootBitBuf:root", c.at(f), "IsRoot = true, RootReader = br",
				"FieldRootBitBuf: the nested buffer value is not marked IsRoot with RootReader = br: its length would be folded into the parent's range / resolved against the parent's buffer")
			acs := c.callsTo(f, addChild)
			okLink := len(acs) == 1
			if okLink {
				ac := acs[0]
				okLink = c.canon(ac.Common().Args[0]) == d && c.canon(ac.Common().Args[1]) == ssa.Value(vals[0])
				okLink = okLink && nst != nil && c03Before(nst, ac) && c.onEveryPathThrough(ac, append(append([]*ssa.Store{}, rst...), ist, rrst))
			}
			ru.Check(okLink, "FieldRootBitBuf:link-after-set", c.at(f), "AddChild after fields are set", "FieldRootBitBuf links the value before it is complete")
		}
	}

	// --- FillGaps
	if f := c.fn(ru, c03D+"FillGaps"); f != nil {
		d, rr := ssa.Value(f.Params[0]), ssa.Value(f.Params[1])
		vals := c.freshAllocs(f, c.valueT)
		if len(vals) != 1 {
			ru.Undecided("FillGaps:shape", c.at(f), "expected one new Value (the gap field)")
		} else {
			base := c03Vpath{vals[0], ""}
			val, _, n := c.storedField(f, "Value", base, "Range")
			good := false
			if n == 1 {
				if ld, ok := c.canon(val).(*ssa.UnOp); ok && ld.Op == token.MUL {
					if ia, ok := ld.X.(*ssa.IndexAddr); ok {
						if call, ok := c.canon(ia.X).(*ssa.Call); ok && fw.CalleeName(call) == fw.Mod+"/pkg/ranges.Gaps" && c.canon(call.Common().Args[0]) == rr {
							good = true
						}
					}
				}
			}
			// the bits the gap value shows are the bits of its range: Actual = bitiox.Range(d.bitBuf, gap.Start, gap.Len)
			okBits := false
			if n == 1 {
				if ld, ok := c.canon(val).(*ssa.UnOp); ok && ld.Op == token.MUL {
					rcs := c03CallsNamed(f, fw.Mod+"/internal/bitiox.Range")
					if len(rcs) == 1 && len(rcs[0].Common().Args) == 3 {
						ra := rcs[0].Common().Args
						okBits = c.pathOf(ra[0]).is(d, ".bitBuf") && c.linIsPath(c.linOf(ra[1]), ld.X, ".Start") && c.linIsPath(c.linOf(ra[2]), ld.X, ".Len")
						vv, _, vn := c.storedField(f, "Value", base, "V")
						sa, isAlloc := c.canon(vv).(*ssa.Alloc)
						okBits = okBits && vn == 1 && isAlloc
						if okBits {
							av, ok := c.litField(sa, "Actual")
							ex, isEx := c.canon(av).(*ssa.Extract)
							okBits = ok && av != nil && isEx && ex.Tuple == ssa.Value(rcs[0]) && ex.Index == 0 && c03ErrGuarded(vals[0].Block(), rcs[0])
						}
					}
				}
			}
			ru.Check(okBits, "FillGaps:gap-reader", c.at(f), "gap value Actual = bitiox.Range(d.bitBuf, gap.Start, gap.Len) of the same gap", "FillGaps: the bits a gap field holds are not exactly the bits of the gap range it reports (other reader, other start/length, or used after a failed Range)")
			rv, _, rn := c.storedField(f, "Value", base, "RootReader")
			acs := c.callsTo(f, addChild)
			ru.Check(good && rn == 1 && c.pathOf(rv).is(d, ".bitBuf") && len(acs) == 1 && c.canon(acs[0].Common().Args[0]) == d && c.canon(acs[0].Common().Args[1]) == ssa.Value(vals[0]),
				"FillGaps:gap-range", c.at(f), "gap value Range = element of ranges.Gaps(r, ...), RootReader = d.bitBuf, linked with AddChild",
				"FillGaps: a gap field's Range is not the computed gap of the requested range / not on the decoder's buffer")
		}
	}
}

// ---------------------------------------------------------------------------
// C03.window

func c03Window(r *fw.Run, c *c03x) {
	ru := r.Rule("C03.window", "FramedFn/LimitedFn: negative nBits is fatal before use (zero stays legal), fn decodes through RangeFn(d.Pos(), nBits), position advances by nBits resp. by the decoded length, which is returned; RangeFn: fn gets a copy of d whose reader is BitBufRange(0, firstBit+nBits) seeked to firstBit (seek failure fatal) and returns copy.Pos() - d.Pos()", 15)
	p := c.p
	posFn := c.fn(ru, c03D+"Pos")
	rangeFn := c.fn(ru, c03D+"RangeFn")
	seekRel := c.fn(ru, c03D+"SeekRel")
	bbr := c.fn(ru, c03D+"BitBufRange")
	if posFn == nil || rangeFn == nil || seekRel == nil || bbr == nil {
		return
	}
	for _, w := range []struct {
		name    string
		framed  bool
		advance string
	}{{"FramedFn", true, "nBits"}, {"LimitedFn", false, "the decoded length"}} {
		f := c.fn(ru, c03D+w.name)
		if f == nil || len(f.Params) != 3 {
			continue
		}
		d, nBits, fnp := ssa.Value(f.Params[0]), ssa.Value(f.Params[1]), ssa.Value(f.Params[2])
		rcs := c.callsTo(f, rangeFn)
		if len(rcs) != 1 {
			ru.Undecided(w.name+":RangeFn", c.at(f), "expected exactly one RangeFn call")
			continue
		}
		rc := rcs[0]
		a := rc.Common().Args
		ru.Check(c.canon(a[0]) == d && c.isCallOf(a[1], posFn, d) != nil && c.canon(a[2]) == nBits && c.canon(a[3]) == fnp, w.name+":window", p.Rel(rc.Pos()),
			"RangeFn(d.Pos(), nBits, fn)", w.name+" does not decode fn in the window [d.Pos(), d.Pos()+nBits)")
		e := fw.NewPolyEnv(f)
		nb := e.Of(nBits)
		// the test may live in a helper called before RangeFn: a call that dominates the RangeFn call,
		// gets nBits as an argument, and returns only with that parameter >= k
		ensured := func(k int64) bool {
			ok := false
			fw.EachInstr(f, func(ins ssa.Instruction) {
				call, isCall := ins.(*ssa.Call)
				if !isCall || ok || !c03Before(call, rc) {
					return
				}
				h := call.Common().StaticCallee()
				if h == nil || h.Blocks == nil || pkgRel(h) != "pkg/decode" {
					return
				}
				for j, a := range call.Common().Args {
					if c.canon(a) == nBits && j < len(h.Params) && c03Ensures(h, j, k) {
						ok = true
					}
				}
			})
			return ok
		}
		nonneg := e.Proves(rc.Block(), fw.Cmp{P: nb, Rel: fw.GE}) || ensured(0)
		ru.Check(nonneg, w.name+":negative-fatal", p.Rel(rc.Pos()), "nBits >= 0 holds at the RangeFn call (failing arm is no-return)",
			w.name+": a negative nBits reaches RangeFn (the test is gone or its arm can continue): the sub-reader ends before the current position and ranges fall outside the frame")
		pos := e.Proves(rc.Block(), fw.Cmp{P: nb.Sub(fw.PConst(1)), Rel: fw.GE}) || ensured(1)
		ru.Check(!pos, w.name+":zero-legal", p.Rel(rc.Pos()), "nBits == 0 still reaches RangeFn", w.name+": an empty frame (nBits == 0) is now rejected")
		scs := c.callsTo(f, seekRel)
		okAdv := len(scs) == 1
		if okAdv {
			sc := scs[0]
			arg := c.canon(sc.Common().Args[1])
			okAdv = c.canon(sc.Common().Args[0]) == d && c03Before(rc, sc) && len(sc.Common().Args) >= 2
			if w.framed {
				okAdv = okAdv && arg == nBits
			} else {
				okAdv = okAdv && arg == ssa.Value(rc)
			}
			// no restoring functions passed
			if len(sc.Common().Args) == 3 {
				if k, ok := sc.Common().Args[2].(*ssa.Const); !ok || !k.IsNil() {
					okAdv = false
				}
			}
		}
		ru.Check(okAdv, w.name+":advance", c.at(f), "after fn the position moves by "+w.advance, w.name+": after decoding, the position does not advance by "+w.advance+": following fields get ranges inside/after the wrong frame")
		okRet := true
		fw.EachInstr(f, func(ins ssa.Instruction) {
			if ret, ok := ins.(*ssa.Return); ok && c.canon(ret.Results[0]) != ssa.Value(rc) {
				okRet = false
			}
		})
		ru.Check(okRet, w.name+":returns-decoded-length", c.at(f), "returns RangeFn's length", w.name+" does not return the decoded length")
	}

	// RangeFn
	f := rangeFn
	if len(f.Params) != 4 {
		ru.Undecided("RangeFn:signature", c.at(f), "RangeFn signature changed")
		return
	}
	d, firstBit, nBits, fnp := ssa.Value(f.Params[0]), ssa.Value(f.Params[1]), ssa.Value(f.Params[2]), ssa.Value(f.Params[3])
	bcs := c.callsTo(f, bbr)
	fcs := c.dynCallsOf(f, fnp)
	if len(bcs) != 1 || len(fcs) != 1 {
		ru.Undecided("RangeFn:shape", c.at(f), "expected one BitBufRange call and one fn call")
		return
	}
	bc, fc := bcs[0], fcs[0]
	want := c03LinTerm(firstBit, "").plus(c03LinTerm(nBits, ""))
	z, zok := c.linOf(bc.Common().Args[1]).isConst()
	ru.Check(c.canon(bc.Common().Args[0]) == d && zok && z == 0 && c.linOf(bc.Common().Args[2]).equal(want), "RangeFn:sub-reader", p.Rel(bc.Pos()),
		"BitBufRange(0, firstBit+nBits)", "RangeFn: the sub-reader is not [0, firstBit+nBits) of the decoder's buffer: positions recorded inside fn are no longer positions of the same buffer, or reads can pass the window's end")
	// seek to firstBit
	var seek *ssa.Call
	nseek := 0
	fw.EachInstr(f, func(ins ssa.Instruction) {
		call, ok := ins.(*ssa.Call)
		if ok && call.Common().IsInvoke() && call.Common().Method.Name() == "SeekBits" && c.canon(call.Common().Value) == ssa.Value(bc) {
			seek = call
			nseek++
		}
	})
	okSeek := nseek == 1
	if okSeek {
		wh, ok := c03ConstInt(seek.Common().Args[1])
		okSeek = ok && wh == 0 && c.linIsValue(c.linOf(seek.Common().Args[0]), firstBit) && c03Before(seek, fc)
	}
	ru.Check(okSeek, "RangeFn:seek-first-bit", c.at(f), "sub-reader.SeekBits(firstBit, SeekStart) before fn", "RangeFn: the sub-reader is not positioned at firstBit (SeekStart) before fn runs")
	okFatal := false
	if okSeek {
		okFatal = c03ErrGuarded(fc.Block(), seek)
	}
	ru.Check(okFatal, "RangeFn:seek-error-fatal", c.at(f), "fn runs only when the seek succeeded", "RangeFn: fn runs even when positioning the sub-reader failed (it would decode from position 0)")
	// the decoder copy
	okCopy := false
	var nd *ssa.Alloc
	if a, ok := fc.Common().Args[0].(*ssa.Alloc); ok && c.isNamed(a.Type(), c.dT) {
		nd = a
		ci := c.cell(a)
		wholeOK := len(ci.whole) == 1
		if wholeOK {
			ld, ok := ci.whole[0].Val.(*ssa.UnOp)
			wholeOK = ok && ld.Op == token.MUL && c.canon(ld.X) == d && c03Before(ci.whole[0], fc)
		}
		bv, bst, bn := c.storedField(f, "D", c03Vpath{a, ""}, "bitBuf")
		okCopy = wholeOK && bn == 1 && c.canon(bv) == ssa.Value(bc) && c03Before(bst, fc) && c03Before(ci.whole[0], bst)
		// no other field of the copy is changed (Value must stay d's value: children are linked to it)
		for _, r := range *a.Referrers() {
			if fa, ok := r.(*ssa.FieldAddr); ok && fieldNameOf(a.Type(), fa.Field) != "bitBuf" && c03AddrWritten(fa) {
				okCopy = false
			}
		}
	}
	ru.Check(okCopy, "RangeFn:decoder-copy", c.at(f), "fn(&nd) with nd = *d, nd.bitBuf = sub-reader", "RangeFn: fn does not run on a copy of d whose only change is bitBuf = the sub-reader")
	okRet := nd != nil
	fw.EachInstr(f, func(ins ssa.Instruction) {
		ret, ok := ins.(*ssa.Return)
		if !ok {
			return
		}
		l := c.linOf(ret.Results[0])
		good := false
		if l.c == 0 && len(l.t) == 2 {
			var end, start *ssa.Call
			for t, k := range l.t {
				if k == 1 {
					end = c.isCallOf(t.root, posFn, nd)
				} else if k == -1 {
					start = c.isCallOf(t.root, posFn, d)
				}
			}
			good = end != nil && start != nil && c03Before(fc, end)
		}
		if !good {
			okRet = false
		}
	})
	ru.Check(okRet, "RangeFn:decoded-length", c.at(f), "returns nd.Pos() after fn - d.Pos()", "RangeFn does not return (sub-decoder position after fn) - (d's position): LimitedFn would advance by a wrong amount")
}

// ensures: function h returns (normally) only when its j-th parameter is >= k.
func c03Ensures(h *ssa.Function, j int, k int64) bool {
	e := fw.NewPolyEnv(h)
	q := fw.Cmp{P: e.Of(h.Params[j]).Sub(fw.PConst(k)), Rel: fw.GE}
	n := 0
	for _, b := range h.Blocks {
		if _, isRet := b.Instrs[len(b.Instrs)-1].(*ssa.Return); !isRet {
			continue
		}
		n++
		if !e.Proves(b, q) {
			return false
		}
	}
	return n > 0
}

// errGuarded: block b is only reached when the error result (last tuple element) of call is nil.
func c03ErrGuarded(b *ssa.BasicBlock, call *ssa.Call) bool {
	for _, g := range fw.Guards(b) {
		g = c03Norm(g)
		bo, ok := g.Cond.(*ssa.BinOp)
		if !ok || (bo.Op != token.EQL && bo.Op != token.NEQ) {
			continue
		}
		var other ssa.Value
		if isNilConst(bo.X) {
			other = bo.Y
		} else if isNilConst(bo.Y) {
			other = bo.X
		} else {
			continue
		}
		ex, ok := other.(*ssa.Extract)
		if !ok || ex.Tuple != ssa.Value(call) {
			continue
		}
		if tup, isTup := call.Type().(*types.Tuple); !isTup || ex.Index != tup.Len()-1 {
			continue
		}
		if (bo.Op == token.NEQ && !g.True) || (bo.Op == token.EQL && g.True) {
			return true
		}
	}
	return false
}
