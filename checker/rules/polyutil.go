package rules

import (
	"fmt"
	"go/token"
	"strings"

	"golang.org/x/tools/go/ssa"

	"fqverif/fw"
)

// getFn resolves a function or records an undecided obligation.
func getFn(ru *fw.Rule, p *fw.Program, name string) *ssa.Function {
	f := p.Fn(name)
	if f == nil || f.Blocks == nil {
		ru.Undecided("anchor:"+name, "", "function "+name+" not found (renamed or removed): the rule's anchor must be updated")
		return nil
	}
	return f
}

// methodCalls returns the calls in fn (not closures) whose callee (static or interface) method/function name is name.
func methodCalls(fn *ssa.Function, name string) []*ssa.Call {
	var out []*ssa.Call
	fw.EachInstr(fn, func(ins ssa.Instruction) {
		c, ok := ins.(*ssa.Call)
		if !ok {
			return
		}
		cc := c.Common()
		if cc.IsInvoke() {
			if cc.Method.Name() == name {
				out = append(out, c)
			}
			return
		}
		if f := cc.StaticCallee(); f != nil && f.Name() == name {
			out = append(out, c)
		}
	})
	return out
}

// callArgs returns the explicit arguments (without receiver for static method calls).
func callArgs(c *ssa.Call) []ssa.Value {
	cc := c.Common()
	if cc.IsInvoke() {
		return cc.Args
	}
	if f := cc.StaticCallee(); f != nil && f.Signature.Recv() != nil && len(cc.Args) > 0 {
		return cc.Args[1:]
	}
	return cc.Args
}

// storesTo returns the stores in fn whose address has the given access path.
func storesTo(fn *ssa.Function, path string) []*ssa.Store {
	var out []*ssa.Store
	fw.EachInstr(fn, func(ins ssa.Instruction) {
		if st, ok := ins.(*ssa.Store); ok {
			if ap, ok := fw.AccessPath(st.Addr); ok && ap == path {
				out = append(out, st)
			}
		}
	})
	return out
}

// polyEq checks a value's normal form against an expected polynomial string.
func polyEq(ru *fw.Rule, p *fw.Program, env *fw.PolyEnv, key string, v ssa.Value, pos token.Pos, want string, what string) bool {
	got := env.Of(v)
	w := fw.ParsePoly(want)
	return ru.Check(got.Equal(w), key, p.Rel(pos), what+" = "+got.String(), fmt.Sprintf("%s is %s, expected %s", what, got.String(), w.String()))
}

// extractOf returns the Extract #idx of a tuple-valued call, if present.
func extractOf(c *ssa.Call, idx int) ssa.Value {
	if c.Referrers() == nil {
		return nil
	}
	for _, r := range *c.Referrers() {
		if e, ok := r.(*ssa.Extract); ok && e.Index == idx {
			return e
		}
	}
	return nil
}

// phiArmsByConst maps, for a phi value, the constant that `param` is known to equal in each
// predecessor block (from dominating guards) to the polynomial of the incoming edge.
// Edges whose predecessor has no such fact are returned under other.
func phiArmsByConst(env *fw.PolyEnv, v ssa.Value, param string) (arms map[int64]*fw.Poly, other []*fw.Poly) {
	arms = map[int64]*fw.Poly{}
	phi, ok := v.(*ssa.Phi)
	if !ok {
		return arms, []*fw.Poly{env.Of(v)}
	}
	for i, e := range phi.Edges {
		pred := phi.Block().Preds[i]
		c, ok := constFact(env, pred, param)
		if ok {
			arms[c] = env.Of(e)
		} else {
			other = append(other, env.Of(e))
		}
	}
	return
}

// constFact: facts at block b say atom == c.
func constFact(env *fw.PolyEnv, b *ssa.BasicBlock, atom string) (int64, bool) {
	// facts of b include guards of dominators; also b itself counts when it is the arm
	for _, f := range env.Facts(b) {
		if f.Rel != fw.EQ {
			continue
		}
		if len(f.P.T) > 2 {
			continue
		}
		co := f.P.Coef(atom)
		if co == 0 {
			continue
		}
		rest := f.P.Sub(fw.PAtom(atom).MulC(co))
		k, ok := rest.IsConst()
		if !ok {
			continue
		}
		// co*atom + k == 0
		if k%co != 0 {
			continue
		}
		return -k / co, true
	}
	return 0, false
}

// provesAt checks that the facts dominating block b imply "poly rel 0".
func provesAt(env *fw.PolyEnv, b *ssa.BasicBlock, poly string, rel fw.Rel) bool {
	return env.Proves(b, fw.Cmp{P: fw.ParsePoly(poly), Rel: rel})
}

// mentions reports whether polynomial p mentions atom a.
func mentions(p *fw.Poly, a string) bool {
	for _, x := range p.Atoms() {
		if x == a || strings.Contains(x, a) {
			return true
		}
	}
	return false
}

// isNilErr reports a nil constant of interface type.
func isNilErr(v ssa.Value) bool {
	c, ok := v.(*ssa.Const)
	return ok && c.IsNil()
}

// returnsOf lists the Return instructions of fn.
func returnsOf(fn *ssa.Function) []*ssa.Return {
	var out []*ssa.Return
	fw.EachInstr(fn, func(ins ssa.Instruction) {
		if r, ok := ins.(*ssa.Return); ok {
			out = append(out, r)
		}
	})
	return out
}

// instrIndex returns the index of ins in its block.
func instrIndex(ins ssa.Instruction) int {
	for i, x := range ins.Block().Instrs {
		if x == ins {
			return i
		}
	}
	return -1
}

// precedesOnAllPaths: instruction a executes before b on every path reaching b
// (a's block dominates b's block, or same block and earlier).
func precedesOnAllPaths(a, b ssa.Instruction) bool {
	if a.Block() == b.Block() {
		return instrIndex(a) < instrIndex(b)
	}
	return a.Block().Dominates(b.Block())
}
