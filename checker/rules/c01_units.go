package rules

// C01.units — bit/byte dimension inference (engine E11).
//
// Every integer SSA value of the bit/byte plumbing packages gets a dimension
// variable in {bits, bytes, none}. Interface contracts seed dimensions,
// arithmetic/comparison/phi/field/call constraints unify them, *8 <<3 /8 >>3
// convert between them. A value reachable both as bits and as bytes is a unit
// mix; the shortest constraint chain between the two seeds is printed.

import (
	"fmt"
	"go/constant"
	"go/token"
	"go/types"
	"sort"
	"strings"

	"golang.org/x/tools/go/ssa"

	"fqverif/fw"
)

func init() {
	// private test entry: run only this rule with -property C01U
	Register("C01U", func(r *fw.Run, p *fw.Program) { c01Units(r, p) })
	for _, c := range c01UnitsControls {
		c.Prop, c.Rule = "C01", "C01.units"
		AddControl(c)
		c.Prop = "C01U" // mirror for the private test entry
		AddControl(c)
	}
}

// Positive controls: real unit mixes seeded into the plumbing.
var c01UnitsControls = []Control{
	{ID: "c01u-seek-bits-vs-bytes", File: "pkg/bitio/ioreadseeker.go",
		Old: `	if n != r.sPos*8+r.b.Len() {`, New: `	if n != r.sPos+r.b.Len() {`, ExpectKey: "IOReadSeeker).Seek"},
	{ID: "c01u-readbytes-as-nbits", File: "pkg/bitio/iobitreadseeker.go",
		Old: `		nBits = max(0, int64(readBytes)*8-readSkipBits)`, New: `		nBits = max(0, int64(readBytes)-readSkipBits)`, ExpectKey: "IOBitReadSeeker).ReadBitsAt"},
	{ID: "c01u-section-off-plus-len", File: "pkg/bitio/sectiontreader.go",
		Old: `	r.bitOff += rBits
	return rBits, err`, New: `	r.bitOff += int64(len(p))
	return rBits, err`, ExpectKey: "SectionReader"},
	{ID: "c01u-ioreader-bytes-as-bits", File: "pkg/bitio/ioreader.go",
		Old: `r.r.ReadBits(p, int64(len(p))*8)`, New: `r.r.ReadBits(p, int64(len(p)))`, ExpectKey: "IOReader).Read"},
	{ID: "c01u-byte-seek-with-bit-offset", File: "pkg/bitio/iobitreadseeker.go",
		Old: `	_, err := r.rs.Seek(readBytePos, io.SeekStart)`, New: `	_, err := r.rs.Seek(readBytePos*8, io.SeekStart)`, ExpectKey: "IOBitReadSeeker).ReadBitsAt"},
	{ID: "c01u-binary-index-unit", File: "pkg/interp/binary.go",
		Old: `ranges.Range{Start: b.r.Start + int64(index*b.unit), Len: int64(b.unit)}`,
		New: `ranges.Range{Start: (b.r.Start + int64(index)) * int64(b.unit), Len: int64(b.unit)}`, ExpectKey: "JQValueIndex"},
	{ID: "c01u-zero-fill-bits-as-bytes", File: "internal/bitiox/zeroreadatseeker.go",
		Old: `	rBytes := bitio.BitsByteCount(rBits)`, New: `	rBytes := rBits`, ExpectKey: "ZeroReadAtSeeker).ReadBitsAt"},
}

// scope of the rule: package (module relative) -> file filter (nil = all hand-written files)
var c01UnitsScope = map[string]bool{
	"pkg/bitio":                   true,
	"internal/bitiox":             true,
	"internal/aheadreadseeker":    true,
	"internal/progressreadseeker": true,
	"internal/ctxreadseeker":      true,
	"pkg/ranges":                  true,
	"pkg/decode":                  true,
	"pkg/interp":                  true,
}

// floors confirmed by hand on the pinned tree (see evidence notes)
const (
	c01UnitsFloorFns   = 500 // measured 548
	c01UnitsFloorBits  = 720 // measured 813
	c01UnitsFloorBytes = 380 // measured 431
)

// one-symbol exceptions: a local accumulator of one function that mixes by design.
type unitsException struct {
	fn, local, reason string
}

var c01UnitsExceptions = []unitsException{
	{"(*pkg/bitio.IOBitWriter).WriteBits", "sn",
		"sn adds bytes written (rn) and bits consumed (n) into one counter; it is returned only together with a non-nil write/read error (the success path returns nBits), so no clause of C01 depends on it"},
}

type uDim uint8

const (
	uBits uDim = iota
	uBytes
	uUnits // lengths counted in a Binary's own unit (1 or 8 bits); see uMultiplierFields
	uND    = 3
)

func (d uDim) String() string { return [...]string{"bits", "bytes", "units"}[d] }

type uSeed struct {
	d   uDim
	why string
	pos token.Pos
	fn  *ssa.Function
}

type uNode struct {
	id    int
	name  string
	fn    *ssa.Function // owning function (nil for struct fields)
	seeds []uSeed
	cut   bool
}

type uEdge struct {
	a, b  int  // for scale edges: a = low (bytes side), b = high = a*8 (bits side)
	scale bool //
	why   string
	pos   token.Pos
	fn    *ssa.Function
}

type unitsGraph struct {
	bitStr map[ssa.Value]bool // bit-string values (see uBitStringParams)
	p      *fw.Program
	nodes  []*uNode
	byKey  map[any]*uNode
	edges  []uEdge
	adj    [][]int
	scope  func(*ssa.Function) bool
	cur    *ssa.Function
}

type uParamKey struct {
	fn *ssa.Function
	i  int
}
type uResultKey struct {
	fn *ssa.Function
	i  int
}

func (g *unitsGraph) node(k any, fn *ssa.Function, name func() string) *uNode {
	if n, ok := g.byKey[k]; ok {
		return n
	}
	n := &uNode{id: len(g.nodes), name: name(), fn: fn}
	g.byKey[k] = n
	g.nodes = append(g.nodes, n)
	return n
}

func (g *unitsGraph) seed(n *uNode, d uDim, why string, pos token.Pos) {
	if n == nil {
		return
	}
	for _, s := range n.seeds {
		if s.d == d {
			return
		}
	}
	n.seeds = append(n.seeds, uSeed{d, why, pos, g.cur})
}

func (g *unitsGraph) unify(a, b *uNode, why string, pos token.Pos) {
	if a == nil || b == nil || a == b {
		return
	}
	g.edges = append(g.edges, uEdge{a: a.id, b: b.id, why: why, pos: pos, fn: g.cur})
}

func (g *unitsGraph) scale(lo, hi *uNode, why string, pos token.Pos) {
	if lo == nil || hi == nil {
		return
	}
	g.edges = append(g.edges, uEdge{a: lo.id, b: hi.id, scale: true, why: why, pos: pos, fn: g.cur})
}

func uConst(v ssa.Value) (int64, bool) {
	c, ok := v.(*ssa.Const)
	if !ok || c.Value == nil || c.Value.Kind() != constant.Int {
		return 0, false
	}
	return constant.Int64Val(c.Value)
}

func uIsInt(t types.Type) bool {
	b, ok := t.Underlying().(*types.Basic)
	return ok && b.Info()&types.IsInteger != 0
}

// uIsBytes: []byte, string, *[N]byte, [N]byte.
func uIsBytes(t types.Type) bool {
	t = t.Underlying()
	if p, ok := t.(*types.Pointer); ok {
		if a, ok := p.Elem().Underlying().(*types.Array); ok {
			return uIsU8(a.Elem())
		}
		return false
	}
	switch x := t.(type) {
	case *types.Slice:
		return uIsU8(x.Elem())
	case *types.Array:
		return uIsU8(x.Elem())
	case *types.Basic:
		return x.Info()&types.IsString != 0
	}
	return false
}

func uIsU8(t types.Type) bool {
	b, ok := t.Underlying().(*types.Basic)
	return ok && b.Kind() == types.Uint8
}

// uDescribe renders a value as a short source-like expression (no SSA register numbers where avoidable).
func uDescribe(v ssa.Value, depth int) string {
	if depth <= 0 {
		return "…"
	}
	switch x := v.(type) {
	case *ssa.Parameter:
		return x.Name()
	case *ssa.FreeVar:
		return x.Name()
	case *ssa.Const:
		if x.Value != nil {
			return x.Value.String()
		}
		return "nil"
	case *ssa.Phi:
		if x.Comment != "" {
			return x.Comment
		}
		return "phi"
	case *ssa.Alloc:
		if x.Comment != "" {
			return x.Comment
		}
		return "local"
	case *ssa.Global:
		return x.Name()
	case *ssa.BinOp:
		return "(" + uDescribe(x.X, depth-1) + " " + x.Op.String() + " " + uDescribe(x.Y, depth-1) + ")"
	case *ssa.Convert:
		return uDescribe(x.X, depth)
	case *ssa.ChangeType:
		return uDescribe(x.X, depth)
	case *ssa.UnOp:
		if x.Op == token.MUL {
			return uDescribe(x.X, depth)
		}
		return x.Op.String() + uDescribe(x.X, depth-1)
	case *ssa.FieldAddr:
		return uDescribe(x.X, depth-1) + "." + uFieldName(x.X.Type(), x.Field)
	case *ssa.Field:
		return uDescribe(x.X, depth-1) + "." + uFieldName(x.X.Type(), x.Field)
	case *ssa.IndexAddr:
		return uDescribe(x.X, depth-1) + "[" + uDescribe(x.Index, depth-1) + "]"
	case *ssa.Index:
		return uDescribe(x.X, depth-1) + "[" + uDescribe(x.Index, depth-1) + "]"
	case *ssa.Lookup:
		return uDescribe(x.X, depth-1) + "[" + uDescribe(x.Index, depth-1) + "]"
	case *ssa.Slice:
		return uDescribe(x.X, depth-1) + "[:]"
	case *ssa.Extract:
		return uDescribe(x.Tuple, depth) + fmt.Sprintf("#%d", x.Index)
	case *ssa.Call:
		cc := x.Common()
		if b, ok := cc.Value.(*ssa.Builtin); ok {
			var as []string
			for _, a := range cc.Args {
				as = append(as, uDescribe(a, depth-1))
			}
			return b.Name() + "(" + strings.Join(as, ", ") + ")"
		}
		if cc.IsInvoke() {
			return uDescribe(cc.Value, depth-1) + "." + cc.Method.Name() + "()"
		}
		if f := cc.StaticCallee(); f != nil {
			if f.Signature.Recv() != nil && len(cc.Args) > 0 {
				return uDescribe(cc.Args[0], depth-1) + "." + f.Name() + "()"
			}
			return f.Name() + "()"
		}
		return uDescribe(cc.Value, depth-1) + "()"
	}
	return v.Name()
}

func uFieldName(t types.Type, idx int) string {
	if p, ok := t.Underlying().(*types.Pointer); ok {
		t = p.Elem()
	}
	if st, ok := t.Underlying().(*types.Struct); ok && idx < st.NumFields() {
		return st.Field(idx).Name()
	}
	return fmt.Sprintf("f%d", idx)
}

// vnode returns the dimension variable of an integer value (nil for constants and non-integers).
func (g *unitsGraph) vnode(v ssa.Value) *uNode {
	if v == nil {
		return nil
	}
	if _, ok := v.(*ssa.Const); ok {
		return nil
	}
	if !uIsInt(v.Type()) {
		return nil
	}
	switch x := v.(type) {
	case *ssa.Convert:
		if uIsInt(x.X.Type()) {
			return g.vnode(x.X)
		}
	case *ssa.ChangeType:
		return g.vnode(x.X)
	}
	return g.node(v, v.Parent(), func() string { return uDescribe(v, 3) })
}

func (g *unitsGraph) fieldNode(t types.Type, idx int) *uNode {
	if p, ok := t.Underlying().(*types.Pointer); ok {
		t = p.Elem()
	}
	st, ok := t.Underlying().(*types.Struct)
	if !ok || idx >= st.NumFields() {
		return nil
	}
	f := st.Field(idx)
	if !uIsInt(f.Type()) {
		return nil
	}
	tn := strings.ReplaceAll(types.TypeString(t, nil), fw.Mod+"/", "")
	n := g.node(f, nil, func() string { return "field " + tn + "." + f.Name() })
	if tn == "pkg/ranges.Range" && (f.Name() == "Start" || f.Name() == "Len") {
		cur := g.cur
		g.cur = nil
		g.seed(n, uBits, "contract: ranges.Range."+f.Name()+" is a bit position/length", f.Pos())
		g.cur = cur
	}
	return n
}

// cell returns the dimension variable of the integer memory cell addr points to.
func (g *unitsGraph) cell(addr ssa.Value) *uNode {
	pt, ok := addr.Type().Underlying().(*types.Pointer)
	if !ok || !uIsInt(pt.Elem()) {
		return nil
	}
	switch x := addr.(type) {
	case *ssa.FieldAddr:
		return g.fieldNode(x.X.Type(), x.Field)
	case *ssa.Alloc, *ssa.FreeVar, *ssa.Global:
		return g.node(addr, addr.Parent(), func() string { return uDescribe(addr, 2) })
	}
	return nil
}

func (g *unitsGraph) paramNode(fn *ssa.Function, i int) *uNode {
	if i >= len(fn.Params) || !uIsInt(fn.Params[i].Type()) {
		return nil
	}
	n := g.node(uParamKey{fn, i}, fn, func() string { return "parameter " + fn.Params[i].Name() + " of " + fw.ShortFn(fn) })
	if d, ok := uNameDim(fn.Params[i].Name()); ok {
		cur := g.cur
		g.cur = fn
		g.seed(n, d, "naming contract: parameter "+fn.Params[i].Name()+" of "+fn.Name(), fn.Params[i].Pos())
		g.cur = cur
	}
	return n
}

// uNameDim: the declared unit of a parameter by the package's naming convention (nBits, nBytes, …Bits, …Bytes).
func uNameDim(name string) (uDim, bool) {
	switch {
	case strings.HasSuffix(name, "Bits") || strings.HasSuffix(name, "Bit"):
		return uBits, true
	case strings.HasSuffix(name, "Bytes") || strings.HasSuffix(name, "Byte"):
		return uBytes, true
	}
	return 0, false
}

func (g *unitsGraph) resultNode(fn *ssa.Function, i int) *uNode {
	res := fn.Signature.Results()
	if i >= res.Len() || !uIsInt(res.At(i).Type()) {
		return nil
	}
	return g.node(uResultKey{fn, i}, fn, func() string { return fmt.Sprintf("result %d of %s", i, fw.ShortFn(fn)) })
}

// contract: dimensions of explicit parameters (receiver excluded) and results by method/function name.
type uContract struct {
	d       uDim
	params  []int
	results []int
	shape   func(sig *types.Signature) bool
}

func uFirstParamBytes(sig *types.Signature) bool {
	return sig.Params().Len() >= 1 && uIsBytes(sig.Params().At(0).Type())
}

var uMethodContracts = map[string]uContract{
	// bitio.Reader/ReaderAt/Seeker/Writer
	"ReadBits":   {uBits, []int{1}, []int{0}, uFirstParamBytes},
	"ReadBitsAt": {uBits, []int{1, 2}, []int{0}, uFirstParamBytes},
	"WriteBits":  {uBits, []int{1}, []int{0}, uFirstParamBytes},
	"SeekBits": {uBits, []int{0}, []int{0}, func(s *types.Signature) bool {
		return s.Params().Len() == 2 && uIsInt(s.Params().At(0).Type())
	}},
	// io.Reader/ReaderAt/Writer/WriterAt/Seeker
	"Read":    {uBytes, nil, []int{0}, func(s *types.Signature) bool { return s.Params().Len() == 1 && uFirstParamBytes(s) }},
	"Write":   {uBytes, nil, []int{0}, func(s *types.Signature) bool { return s.Params().Len() == 1 && uFirstParamBytes(s) }},
	"ReadAt":  {uBytes, []int{1}, []int{0}, func(s *types.Signature) bool { return s.Params().Len() == 2 && uFirstParamBytes(s) }},
	"WriteAt": {uBytes, []int{1}, []int{0}, func(s *types.Signature) bool { return s.Params().Len() == 2 && uFirstParamBytes(s) }},
	"Seek": {uBytes, []int{0}, []int{0}, func(s *types.Signature) bool {
		return s.Params().Len() == 2 && uIsInt(s.Params().At(0).Type()) && s.Results().Len() == 2
	}},
}

// package-level functions (full path.name)
var uFuncContracts = map[string][]uContract{
	fw.Mod + "/pkg/bitio.Read64":        {{d: uBits, params: []int{1, 2}}},
	fw.Mod + "/pkg/bitio.Write64":       {{d: uBits, params: []int{1, 3}}},
	fw.Mod + "/pkg/bitio.BitsByteCount": {{d: uBits, params: []int{0}}, {d: uBytes, results: []int{0}}},
	"io.ReadFull":                       {{d: uBytes, results: []int{0}}},
	"io.ReadAtLeast":                    {{d: uBytes, params: []int{2}, results: []int{0}}},
	"io.Copy":                           {{d: uBytes, results: []int{0}}},
	"io.CopyBuffer":                     {{d: uBytes, results: []int{0}}},
	"io.CopyN":                          {{d: uBytes, params: []int{2}, results: []int{0}}},
	"io.NewSectionReader":               {{d: uBytes, params: []int{1, 2}}},
	"io.LimitReader":                    {{d: uBytes, params: []int{1}}},
}

// bit strings: string values with one character ('0'/'1') per bit; their length and indexes are BITS.
// (function, explicit parameter index)
var uBitStringParams = map[string][]int{
	fw.Mod + "/pkg/bitio.BytesFromBitString": {0},
}

// contractsOf returns the contracts that apply to a callee described by name/signature; recvOff is the
// number of leading receiver arguments in the argument/parameter list.
func uContractsOf(fn *ssa.Function, method *types.Func) []uContract {
	if method != nil {
		sig := method.Type().(*types.Signature)
		if c, ok := uMethodContracts[method.Name()]; ok && c.shape(sig) {
			return []uContract{c}
		}
		return nil
	}
	if fn == nil {
		return nil
	}
	if fn.Signature.Recv() != nil {
		// strip receiver from the signature for the shape test
		if c, ok := uMethodContracts[fn.Name()]; ok && c.shape(fn.Signature) {
			return []uContract{c}
		}
		return nil
	}
	if fn.Parent() == nil {
		o := fn
		if fn.Origin() != nil {
			o = fn.Origin()
		}
		if o.Pkg != nil {
			return uFuncContracts[o.Pkg.Pkg.Path()+"."+o.Name()]
		}
	}
	return nil
}

func c01Units(r *fw.Run, p *fw.Program) {
	ru := r.Rule("C01.units", "bit/byte dimension inference over the bit/byte plumbing packages: no integer value is constrained to be both a bit quantity and a byte quantity (seeds: bitio/io interface contracts, ranges.Range, len/index/bounds of []byte; *8 <<3 /8 >>3 convert; + - compare phi min/max field call unify)", 500)

	inScope := func(fn *ssa.Function) bool {
		path := fw.FnPkgPath(fn)
		if !strings.HasPrefix(path, fw.Mod+"/") {
			return false
		}
		return c01UnitsScope[strings.TrimPrefix(path, fw.Mod+"/")]
	}
	var fns []*ssa.Function
	for _, fn := range p.FqFunctions() {
		if !inScope(fn) {
			continue
		}
		if fn.Synthetic != "" && !strings.HasPrefix(fn.Synthetic, "instance of") {
			continue
		}
		file := p.RelFile(fw.Top(fn).Pos())
		if fo := fw.Top(fn).Origin(); fo != nil {
			file = p.RelFile(fo.Pos())
		}
		if strings.HasSuffix(file, "_gen.go") || strings.HasSuffix(file, "_test.go") {
			continue
		}
		fns = append(fns, fn)
	}
	g := &unitsGraph{p: p, byKey: map[any]*uNode{}, scope: inScope, bitStr: map[ssa.Value]bool{}}
	for _, fn := range fns {
		g.build(fn)
	}
	// exceptions: mark the accumulator's definitions as cut nodes
	type excState struct {
		e     unitsException
		fn    *ssa.Function
		nodes []*uNode
	}
	var excs []*excState
	for _, e := range c01UnitsExceptions {
		es := &excState{e: e, fn: p.Fn(e.fn)}
		excs = append(excs, es)
		if es.fn == nil {
			continue
		}
		for v := range uLocalDefs(es.fn, e.local) {
			if n, ok := g.byKey[v]; ok {
				es.nodes = append(es.nodes, n)
			}
		}
		sort.Slice(es.nodes, func(i, j int) bool { return es.nodes[i].id < es.nodes[j].id })
	}
	g.index()

	// pass 1: without cuts — which exceptions are live
	res1 := g.solve(false)
	for _, es := range excs {
		key := "mix:" + es.e.fn + ":" + es.e.local
		if es.fn == nil {
			ru.Ok(key, "", "excepted function no longer exists; exception unused")
			continue
		}
		live := false
		for _, n := range es.nodes {
			if res1.mixed(n.id) {
				live = true
			}
		}
		if live {
			if why := uOnlyReturnedWithError(es.fn, uLocalDefs(es.fn, es.e.local)); why != "" {
				// the stated reason no longer holds: do not cut, the mix is reported below
				ru.Undecided(key+":reason", p.Rel(es.fn.Pos()), "exception reason no longer holds: "+why)
				continue
			}
			for _, n := range es.nodes {
				n.cut = true
			}
			ru.Except(key, p.Rel(es.fn.Pos()), es.e.reason)
		} else {
			ru.Ok(key, p.Rel(es.fn.Pos()), "local "+es.e.local+" is no longer a unit mix; exception unused")
		}
	}
	// pass 2: with cuts — every remaining mixed class is a report
	res := g.solve(true)
	reports := g.reports(res)
	hot := map[*ssa.Function]bool{}
	for _, rp := range reports {
		ru.Fail(rp.key, rp.pos, rp.msg)
		for _, f := range rp.fns {
			hot[f] = true
		}
	}
	// per-function obligations and counts
	perFn := map[*ssa.Function][3]int{}
	nb, ny, nu, nunits := 0, 0, 0, 0
	for _, n := range g.nodes {
		k := 2
		switch {
		case res.mixed(n.id):
			k = 2
			// a mixed class floods; for the floors count it on every side it reaches
			if res.dist[n.id*uND+int(uBits)] >= 0 {
				nb++
			}
			if res.dist[n.id*uND+int(uBytes)] >= 0 {
				ny++
			}
		case res.dist[n.id*uND+int(uBits)] >= 0:
			k = 0
			nb++
		case res.dist[n.id*uND+int(uBytes)] >= 0:
			k = 1
			ny++
		case res.dist[n.id*uND+int(uUnits)] >= 0:
			nunits++
		default:
			nu++
		}
		if n.fn != nil {
			c := perFn[n.fn]
			c[k]++
			perFn[n.fn] = c
		}
	}
	for _, fn := range fns {
		c := perFn[fn]
		key := "fn:" + fw.ShortFn(fn)
		if hot[fn] {
			continue // reported through the mix obligation
		}
		ru.Ok(key, p.Rel(fn.Pos()), fmt.Sprintf("integer values: %d bits, %d bytes, %d dimensionless/undetermined; none mixed", c[0], c[1], c[2]))
	}
	ru.Check(len(fns) >= c01UnitsFloorFns, "floor:functions", "", fmt.Sprintf("%d functions analysed", len(fns)),
		fmt.Sprintf("only %d functions analysed, floor %d (scope moved?)", len(fns), c01UnitsFloorFns))
	if nb < c01UnitsFloorBits {
		ru.Undecided("floor:bit-values", "", fmt.Sprintf("only %d values inferred as bits, floor %d (seeds lost?)", nb, c01UnitsFloorBits))
	} else {
		ru.Ok("floor:bit-values", "", fmt.Sprintf("%d values inferred as bits", nb))
	}
	if ny < c01UnitsFloorBytes {
		ru.Undecided("floor:byte-values", "", fmt.Sprintf("only %d values inferred as bytes, floor %d (seeds lost?)", ny, c01UnitsFloorBytes))
	} else {
		ru.Ok("floor:byte-values", "", fmt.Sprintf("%d values inferred as bytes", ny))
	}
	r.Notes["C01.units"] = map[string]any{
		"functions": len(fns), "dimension_variables": len(g.nodes), "constraints": len(g.edges),
		"bits": nb, "bytes": ny, "units": nunits, "undetermined": nu, "mixed_classes_reported": len(reports),
	}
}

// uOnlyReturnedWithError checks the reason of the accumulator exception: the only uses of the local's
// definitions are its own updates and return statements that sit on the taken branch of "err != nil"
// of the very error they return. Returns "" when that holds.
func uOnlyReturnedWithError(fn *ssa.Function, defs map[ssa.Value]bool) string {
	for v := range defs {
		if v.Referrers() == nil {
			continue
		}
		for _, ref := range *v.Referrers() {
			switch x := ref.(type) {
			case *ssa.Phi:
				if defs[x] {
					continue
				}
			case *ssa.BinOp:
				if defs[x] {
					continue
				}
			case *ssa.Return:
				if len(x.Results) == 2 && uOnErrBranch(x.Block(), x.Results[1]) {
					continue
				}
				return "returned by a return statement that is not guarded by its error being non-nil"
			case *ssa.DebugRef:
				continue
			}
			return "used outside its own updates and error returns (" + ref.String() + ")"
		}
	}
	return ""
}

// uOnErrBranch: b is entered only through the true edge of `if err != nil`.
func uOnErrBranch(b *ssa.BasicBlock, err ssa.Value) bool {
	if len(b.Preds) != 1 {
		return false
	}
	pr := b.Preds[0]
	if len(pr.Instrs) == 0 || len(pr.Succs) != 2 || pr.Succs[0] != b {
		return false
	}
	iff, ok := pr.Instrs[len(pr.Instrs)-1].(*ssa.If)
	if !ok {
		return false
	}
	c, ok := iff.Cond.(*ssa.BinOp)
	if !ok || c.Op != token.NEQ {
		return false
	}
	k, ok := c.Y.(*ssa.Const)
	return ok && k.IsNil() && c.X == err
}

// uLocalDefs returns the SSA definitions of the named local variable of fn: phis carrying the
// variable's name, the values flowing into them and x = def ± e updates.
func uLocalDefs(fn *ssa.Function, local string) map[ssa.Value]bool {
	set := map[ssa.Value]bool{}
	fw.EachInstr(fn, func(ins ssa.Instruction) {
		if ph, ok := ins.(*ssa.Phi); ok && ph.Comment == local {
			set[ph] = true
		}
	})
	for changed := true; changed; {
		changed = false
		fw.EachInstr(fn, func(ins ssa.Instruction) {
			switch x := ins.(type) {
			case *ssa.Phi:
				if set[x] {
					for _, e := range x.Edges {
						if _, isC := e.(*ssa.Const); !isC && !set[e] {
							if _, ok := e.(*ssa.BinOp); ok {
								set[e] = true
								changed = true
							}
						}
					}
				}
			case *ssa.BinOp:
				if (x.Op == token.ADD || x.Op == token.SUB) && set[x.X] && !set[x] {
					set[x] = true
					changed = true
				}
			}
		})
	}
	return set
}

// ---------------------------------------------------------------------------
// constraint generation

func (g *unitsGraph) build(fn *ssa.Function) {
	g.cur = fn
	defer func() { g.cur = nil }()
	// declared contracts of this function (method name or known function)
	off := 0
	if fn.Signature.Recv() != nil {
		off = 1
	}
	if fn.Parent() == nil {
		for _, c := range uContractsOf(fn, nil) {
			for _, pi := range c.params {
				g.seed(g.paramNode(fn, pi+off), c.d, "contract: parameter of "+fn.Name()+" is "+c.d.String(), fn.Pos())
			}
			for _, ri := range c.results {
				g.seed(g.resultNode(fn, ri), c.d, "contract: result of "+fn.Name()+" is "+c.d.String(), fn.Pos())
			}
		}
	}
	if fn.Parent() == nil && fn.Pkg != nil {
		for _, pi := range uBitStringParams[fn.Pkg.Pkg.Path()+"."+fn.Name()] {
			if pi+off < len(fn.Params) {
				g.bitStr[fn.Params[pi+off]] = true
			}
		}
	}
	for i, pa := range fn.Params {
		g.unify(g.vnode(pa), g.paramNode(fn, i), "parameter", fn.Pos())
	}
	for _, b := range fn.Blocks {
		for _, ins := range b.Instrs {
			g.instr(fn, ins)
		}
	}
}

func (g *unitsGraph) instr(fn *ssa.Function, ins ssa.Instruction) {
	switch x := ins.(type) {
	case *ssa.BinOp:
		zn := g.vnode(x)
		xn, yn := g.vnode(x.X), g.vnode(x.Y)
		cy, yc := uConst(x.Y)
		cx, xc := uConst(x.X)
		switch x.Op {
		case token.ADD, token.SUB:
			g.unify(xn, yn, "operands of "+x.Op.String(), x.Pos())
			if xn != nil {
				g.unify(zn, xn, "result of "+x.Op.String(), x.Pos())
			} else {
				g.unify(zn, yn, "result of "+x.Op.String(), x.Pos())
			}
		case token.EQL, token.NEQ, token.LSS, token.LEQ, token.GTR, token.GEQ:
			g.unify(xn, yn, "comparison "+x.Op.String(), x.Pos())
		case token.MUL:
			if m := uMultiplier(x.Y); m != "" {
				g.seed(xn, uUnits, "x*"+m+": x counts units of "+m+" bits", x.Pos())
				g.seed(zn, uBits, "x*"+m+" converts units to bits", x.Pos())
			} else if m := uMultiplier(x.X); m != "" {
				g.seed(yn, uUnits, m+"*x: x counts units of "+m+" bits", x.Pos())
				g.seed(zn, uBits, m+"*x converts units to bits", x.Pos())
			} else if yc && cy == 8 {
				g.scale(xn, zn, "x*8 converts bytes to bits", x.Pos())
			} else if xc && cx == 8 {
				g.scale(yn, zn, "8*x converts bytes to bits", x.Pos())
			}
		case token.QUO:
			if m := uMultiplier(x.Y); m != "" {
				g.seed(xn, uBits, "x/"+m+": x is bits", x.Pos())
				g.seed(zn, uUnits, "x/"+m+" converts bits to units", x.Pos())
			} else if yc && cy == 8 {
				g.scale(zn, xn, "x/8 converts bits to bytes", x.Pos())
			}
		case token.SHR:
			if yc && cy == 3 {
				g.scale(zn, xn, "x>>3 converts bits to bytes", x.Pos())
			}
		case token.SHL:
			if yc && cy == 3 {
				g.scale(xn, zn, "x<<3 converts bytes to bits", x.Pos())
			}
		case token.REM:
			if m := uMultiplier(x.Y); m != "" {
				g.seed(xn, uBits, "x%"+m+": x is bits", x.Pos())
				g.seed(zn, uBits, "x%"+m+" is a bit count below one unit", x.Pos())
			} else if yc && cy == 8 {
				g.seed(xn, uBits, "x%8 takes the bit offset within a byte: x is bits", x.Pos())
				g.seed(zn, uBits, "x%8 is a bit count (0..7)", x.Pos())
			}
		case token.AND:
			if yc && cy == 7 {
				g.seed(xn, uBits, "x&7 takes the bit offset within a byte: x is bits", x.Pos())
				g.seed(zn, uBits, "x&7 is a bit count (0..7)", x.Pos())
			}
		}
	case *ssa.Phi:
		zn := g.vnode(x)
		for _, e := range x.Edges {
			g.unify(zn, g.vnode(e), "phi (assignments to "+uDescribe(x, 1)+")", x.Pos())
		}
	case *ssa.UnOp:
		if x.Op == token.MUL {
			g.unify(g.vnode(x), g.cell(x.X), "load", x.Pos())
		} else if x.Op == token.SUB {
			g.unify(g.vnode(x), g.vnode(x.X), "negation", x.Pos())
		}
	case *ssa.Field:
		g.unify(g.vnode(x), g.fieldNode(x.X.Type(), x.Field), "field read", x.Pos())
	case *ssa.Store:
		g.unify(g.vnode(x.Val), g.cell(x.Addr), "store", x.Pos())
	case *ssa.Return:
		for i, rv := range x.Results {
			g.unify(g.vnode(rv), g.resultNode(fn, i), "return", x.Pos())
		}
	case *ssa.MakeClosure:
		if cf, ok := x.Fn.(*ssa.Function); ok {
			for i, bnd := range x.Bindings {
				if i >= len(cf.FreeVars) {
					break
				}
				fv := cf.FreeVars[i]
				g.unify(g.cell(bnd), g.cell(fv), "closure capture of "+fv.Name(), x.Pos())
				g.unify(g.vnode(bnd), g.vnode(fv), "closure capture of "+fv.Name(), x.Pos())
			}
		}
	case *ssa.Extract:
		if c, ok := x.Tuple.(*ssa.Call); ok {
			g.callResult(c, x.Index, g.vnode(x), x.Pos())
		}
	case *ssa.Slice:
		if uIsBytes(x.X.Type()) {
			d, w := g.seqDim(x.X)
			for _, b := range []ssa.Value{x.Low, x.High, x.Max} {
				g.seed(g.vnode(b), d, "slice bound of "+w+uShortT(x.X.Type()), x.Pos())
			}
		}
	case *ssa.IndexAddr:
		if uIsBytes(x.X.Type()) {
			d, w := g.seqDim(x.X)
			g.seed(g.vnode(x.Index), d, "index into "+w+uShortT(x.X.Type()), x.Pos())
		}
	case *ssa.Index:
		if uIsBytes(x.X.Type()) {
			d, w := g.seqDim(x.X)
			g.seed(g.vnode(x.Index), d, "index into "+w+uShortT(x.X.Type()), x.Pos())
		}
	case *ssa.Lookup:
		if uIsBytes(x.X.Type()) {
			d, w := g.seqDim(x.X)
			g.seed(g.vnode(x.Index), d, "index into "+w+uShortT(x.X.Type()), x.Pos())
		}
	case *ssa.MakeSlice:
		if uIsBytes(x.Type()) {
			g.seed(g.vnode(x.Len), uBytes, "make([]byte, n) length", x.Pos())
			g.seed(g.vnode(x.Cap), uBytes, "make([]byte, _, n) capacity", x.Pos())
		}
	}
	if ci, ok := ins.(ssa.CallInstruction); ok {
		g.call(ci)
	}
}

// multiplier fields: "bits per unit" factors (value 1 or 8). x*f converts a count of units to bits,
// x/f converts bits to units. The field itself is a bit count (the length of one unit).
var uMultiplierFields = map[string]bool{
	"pkg/interp.Binary.unit": true,
}

// uMultiplier reports whether v is a direct read of a multiplier field (through integer conversions).
func uMultiplier(v ssa.Value) string {
	for {
		switch x := v.(type) {
		case *ssa.Convert:
			v = x.X
			continue
		case *ssa.ChangeType:
			v = x.X
			continue
		case *ssa.UnOp:
			if fa, ok := x.X.(*ssa.FieldAddr); ok && x.Op == token.MUL {
				return uMultiplierField(fa.X.Type(), fa.Field)
			}
		case *ssa.Field:
			return uMultiplierField(x.X.Type(), x.Field)
		}
		return ""
	}
}

func uMultiplierField(t types.Type, idx int) string {
	if p, ok := t.Underlying().(*types.Pointer); ok {
		t = p.Elem()
	}
	k := uShortT(t) + "." + uFieldName(t, idx)
	if uMultiplierFields[k] {
		return k[strings.LastIndex(k, "/")+1:]
	}
	return ""
}

// seqDim: the dimension of lengths/indexes of a byte sequence value (bits for declared bit strings).
func (g *unitsGraph) seqDim(v ssa.Value) (uDim, string) {
	if g.bitStr[v] {
		return uBits, "bit string (one character per bit) "
	}
	return uBytes, ""
}

func uShortT(t types.Type) string {
	return strings.ReplaceAll(types.TypeString(t, nil), fw.Mod+"/", "")
}

func (g *unitsGraph) call(ci ssa.CallInstruction) {
	cc := ci.Common()
	val, _ := ci.(*ssa.Call)
	var zn *uNode
	if val != nil {
		zn = g.vnode(val)
	}
	pos := ci.Pos()
	if b, ok := cc.Value.(*ssa.Builtin); ok {
		switch b.Name() {
		case "len", "cap":
			if uIsBytes(cc.Args[0].Type()) {
				d, w := g.seqDim(cc.Args[0])
				g.seed(zn, d, b.Name()+"("+w+uShortT(cc.Args[0].Type())+")", pos)
			}
		case "copy":
			if uIsBytes(cc.Args[0].Type()) {
				g.seed(zn, uBytes, "copy() into "+uShortT(cc.Args[0].Type()), pos)
			}
		case "min", "max":
			for _, a := range cc.Args {
				g.unify(zn, g.vnode(a), b.Name()+"()", pos)
			}
		}
		return
	}
	args := cc.Args
	callee := cc.StaticCallee()
	if callee != nil && g.scope(callee) {
		for i, a := range args {
			g.unify(g.vnode(a), g.paramNode(callee, i), "argument of "+callee.Name(), pos)
		}
		if callee.Signature.Results().Len() == 1 {
			g.unify(zn, g.resultNode(callee, 0), "result of "+callee.Name(), pos)
		}
		return
	}
	var cs []uContract
	off := 0
	name := ""
	if cc.IsInvoke() {
		cs = uContractsOf(nil, cc.Method)
		name = cc.Method.Name()
	} else if callee != nil {
		cs = uContractsOf(callee, nil)
		name = callee.Name()
		if callee.Signature.Recv() != nil {
			off = 1
		}
	}
	for _, c := range cs {
		for _, pi := range c.params {
			if pi+off < len(args) {
				g.seed(g.vnode(args[pi+off]), c.d, "contract: argument of "+name+" is "+c.d.String(), pos)
			}
		}
		if cc.Signature().Results().Len() == 1 {
			for _, ri := range c.results {
				if ri == 0 {
					g.seed(zn, c.d, "contract: result of "+name+" is "+c.d.String(), pos)
				}
			}
		}
	}
}

func (g *unitsGraph) callResult(c *ssa.Call, idx int, zn *uNode, pos token.Pos) {
	if zn == nil {
		return
	}
	cc := c.Common()
	callee := cc.StaticCallee()
	if callee != nil && g.scope(callee) {
		g.unify(zn, g.resultNode(callee, idx), "result of "+callee.Name(), pos)
		return
	}
	var cs []uContract
	name := ""
	if cc.IsInvoke() {
		cs = uContractsOf(nil, cc.Method)
		name = cc.Method.Name()
	} else if callee != nil {
		cs = uContractsOf(callee, nil)
		name = callee.Name()
	}
	for _, ct := range cs {
		for _, ri := range ct.results {
			if ri == idx {
				g.seed(zn, ct.d, "contract: result of "+name+" is "+ct.d.String(), c.Pos())
			}
		}
	}
}

// ---------------------------------------------------------------------------
// solving: multi-source BFS over (node, dimension) states

func (g *unitsGraph) index() {
	g.adj = make([][]int, len(g.nodes))
	for i, e := range g.edges {
		g.adj[e.a] = append(g.adj[e.a], i)
		g.adj[e.b] = append(g.adj[e.b], i)
	}
}

type uSolution struct {
	dist  []int // per state node*uND+dim; -1 unreachable
	predE []int // edge index (-1 = seed)
	predS []int // previous state
	seed  []int // seed index within node for dist 0 states
	cuts  bool
}

func (s *uSolution) mixed(id int) bool { _, _, ok := s.pair(id); return ok }

// pair returns the two distinct dimensions node id is reachable in with the smallest total distance.
func (s *uSolution) pair(id int) (a, b uDim, ok bool) {
	best := -1
	for x := uDim(0); x < uND; x++ {
		for y := x + 1; y < uND; y++ {
			dx, dy := s.dist[id*uND+int(x)], s.dist[id*uND+int(y)]
			if dx >= 0 && dy >= 0 && (best < 0 || dx+dy < best) {
				a, b, ok, best = x, y, true, dx+dy
			}
		}
	}
	return
}

func (s *uSolution) cost(id int) int {
	a, b, _ := s.pair(id)
	return s.dist[id*uND+int(a)] + s.dist[id*uND+int(b)]
}

func (g *unitsGraph) solve(useCuts bool) *uSolution {
	n := len(g.nodes) * uND
	s := &uSolution{dist: make([]int, n), predE: make([]int, n), predS: make([]int, n), seed: make([]int, n), cuts: useCuts}
	for i := range s.dist {
		s.dist[i], s.predE[i], s.predS[i], s.seed[i] = -1, -1, -1, -1
	}
	var q []int
	for _, nd := range g.nodes {
		if useCuts && nd.cut {
			continue
		}
		for si, sd := range nd.seeds {
			st := nd.id*uND + int(sd.d)
			if s.dist[st] < 0 {
				s.dist[st] = 0
				s.seed[st] = si
				q = append(q, st)
			}
		}
	}
	for len(q) > 0 {
		st := q[0]
		q = q[1:]
		id, d := st/uND, uDim(st%uND)
		for _, ei := range g.adj[id] {
			e := g.edges[ei]
			o := e.a
			if o == id {
				o = e.b
			}
			if useCuts && g.nodes[o].cut {
				continue
			}
			nd := d
			if e.scale {
				// a = low (bytes), b = high (bits)
				if id == e.a && d == uBytes {
					nd = uBits
				} else if id == e.b && d == uBits {
					nd = uBytes
				} else {
					continue
				}
			}
			ns := o*uND + int(nd)
			if s.dist[ns] < 0 {
				s.dist[ns] = s.dist[st] + 1
				s.predE[ns] = ei
				s.predS[ns] = st
				q = append(q, ns)
			}
		}
	}
	return s
}

type uReport struct {
	key, pos, msg string
	fns           []*ssa.Function
}

// reports groups mixed nodes by connected component and renders the shortest bits-seed .. bytes-seed chain of each.
func (g *unitsGraph) reports(s *uSolution) []uReport {
	parent := make([]int, len(g.nodes))
	for i := range parent {
		parent[i] = i
	}
	var find func(int) int
	find = func(x int) int {
		for parent[x] != x {
			parent[x] = parent[parent[x]]
			x = parent[x]
		}
		return x
	}
	for _, e := range g.edges {
		if s.cuts && (g.nodes[e.a].cut || g.nodes[e.b].cut) {
			continue
		}
		if a, b := find(e.a), find(e.b); a != b {
			parent[a] = b
		}
	}
	best := map[int]int{} // component -> node id
	for _, nd := range g.nodes {
		if !s.mixed(nd.id) {
			continue
		}
		c := find(nd.id)
		if b, ok := best[c]; !ok || s.cost(nd.id) < s.cost(b) {
			best[c] = nd.id
		}
	}
	var ids []int
	for _, id := range best {
		ids = append(ids, id)
	}
	sort.Ints(ids)
	var out []uReport
	for _, id := range ids {
		out = append(out, g.render(s, id))
	}
	return out
}

func (g *unitsGraph) path(s *uSolution, st int) (steps []int, start int) {
	for s.predE[st] >= 0 {
		steps = append(steps, st)
		st = s.predS[st]
	}
	return steps, st
}

func (g *unitsGraph) render(s *uSolution, id int) uReport {
	p := g.p
	meet := g.nodes[id]
	var lines []string
	fnset := map[*ssa.Function]bool{}
	var fnlist []*ssa.Function
	addFn := func(f *ssa.Function) {
		if f != nil && !fnset[f] {
			fnset[f] = true
			fnlist = append(fnlist, f)
		}
	}
	var meetFn *ssa.Function
	var meetPos token.Pos
	side := func(d uDim, forward bool) {
		steps, start := g.path(s, id*uND+int(d))
		sn := g.nodes[start/uND]
		sd := sn.seeds[s.seed[start]]
		addFn(sd.fn)
		where := "declaration"
		if sd.fn != nil {
			where = "in " + fw.ShortFn(sd.fn)
		}
		seedLine := fmt.Sprintf("    SEED %-5s  %s  [%s] %s %s", uDim(start%uND), sn.name, sd.why, p.Rel(sd.pos), where)
		var ls []string
		// steps are from the meeting node back to the seed; reverse to seed -> meet
		for i := len(steps) - 1; i >= 0; i-- {
			st := steps[i]
			e := g.edges[s.predE[st]]
			from, to := g.nodes[s.predS[st]/uND], g.nodes[st/uND]
			fd, td := uDim(s.predS[st]%uND), uDim(st%uND)
			if !forward {
				from, to, fd, td = to, from, td, fd
			}
			addFn(e.fn)
			if i == 0 {
				meetFn, meetPos = e.fn, e.pos
			}
			ls = append(ls, fmt.Sprintf("      %s (%s) ~ %s (%s)  [%s] %s in %s", from.name, fd, to.name, td, e.why, p.Rel(e.pos), fw.ShortFn(e.fn)))
		}
		if len(steps) == 0 && meetFn == nil {
			meetFn, meetPos = sd.fn, sd.pos
		}
		if forward {
			lines = append(lines, seedLine)
			lines = append(lines, ls...)
		} else {
			for i := len(ls) - 1; i >= 0; i-- {
				lines = append(lines, ls[i])
			}
			lines = append(lines, seedLine)
		}
	}
	d1, d2, _ := s.pair(id)
	side(d1, true)
	lines = append(lines, fmt.Sprintf("    MEET        %s is required to be both %s and %s", meet.name, d1, d2))
	side(d2, false)
	if meet.fn != nil {
		meetFn = meet.fn
	}
	key := "mix:" + fw.ShortFn(meetFn) + ":" + meet.name
	msg := fmt.Sprintf("unit mix: %s is constrained to be both a %s and a %s quantity; shortest constraint chain (%d steps):\n%s",
		meet.name, d1, d2, s.cost(id), strings.Join(lines, "\n"))
	return uReport{key: key, pos: p.Rel(meetPos), msg: msg, fns: fnlist}
}
