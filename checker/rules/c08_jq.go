package rules

import (
	"strings"

	"github.com/wader/gojq"
	"golang.org/x/tools/go/ssa"

	"fqverif/fw"
)

// C08.jq: the jq/Go glue of tovalue: what `v | tovalue` converts and with which options.
func (c *c08ctx) ruleJQ() {
	ru := c.r.Rule("C08.jq", "tovalue is _tovalue of the input with the effective options (tovalue/0: defaults), toactual/tosym convert ._actual/._sym with the caller's options, the built-in default of skip_gaps is false (tovalue must not drop fields that keys/length show), and the Go function registered as _tovalue converts its input with the options built from its argument and returns the converted value exactly when the conversion succeeded; toactual/0 and tosym/0 are their own one-argument forms with empty options", 8)
	jq, err := fw.LoadJQ(c.p.Repo)
	if err != nil {
		ru.Undecided("load", "", "bundled jq sources do not parse: "+err.Error())
		return
	}
	find := func(name string, arity int) *fw.JQDef {
		ds := jq.TopDefs(name, arity)
		var in []*fw.JQDef
		for _, d := range ds {
			if strings.HasPrefix(d.File.Rel, "pkg/interp/") {
				in = append(in, d)
			}
		}
		if len(in) != 1 {
			return nil
		}
		return in[0]
	}
	// tovalue/0, tovalue/1: _tovalue(options(<defaults | own parameter>))
	for _, ar := range []int{0, 1} {
		key := []string{"tovalue/0", "tovalue/1"}[ar]
		d := find("tovalue", ar)
		if d == nil {
			ru.Undecided(key, "", "exactly one top-level def tovalue expected in pkg/interp/*.jq")
			continue
		}
		var msgs []string
		call := fw.JQIsCall(d.Def.Body, "_tovalue", 1)
		if call == nil {
			msgs = append(msgs, "body is `"+fw.JQStr(d.Def.Body)+"`, not a call of _tovalue/1 on the input")
		} else {
			oc := fw.JQIsCall(call.Args[0], "options", -1)
			switch {
			case oc == nil:
				msgs = append(msgs, "options passed are `"+fw.JQStr(call.Args[0])+"`, not the effective options()")
			case ar == 0 && len(oc.Args) == 1 && fw.JQStr(oc.Args[0]) != "{}":
				msgs = append(msgs, "plain tovalue overrides options with "+fw.JQStr(oc.Args[0]))
			case ar == 1 && (len(oc.Args) != 1 || fw.JQStr(oc.Args[0]) != d.Def.Args[0]):
				msgs = append(msgs, "tovalue($opts) does not pass its own options argument")
			}
		}
		ru.Check(len(msgs) == 0, key, d.File.Rel, "_tovalue(options(..))", strings.Join(msgs, "; "))
	}
	// toactual/1, tosym/1: the extra key of the same name, then tovalue with the caller's options
	for _, w := range []struct{ name, field string }{{"toactual", "._actual"}, {"tosym", "._sym"}} {
		key := w.name + "/1"
		d := find(w.name, 1)
		if d == nil {
			ru.Undecided(key, "", "exactly one top-level def "+w.name+"/1 expected in pkg/interp/*.jq")
			continue
		}
		var msgs []string
		stages := fw.JQPipeline(d.Def.Body)
		if len(stages) != 2 {
			msgs = append(msgs, "body is `"+fw.JQStr(d.Def.Body)+"`, not <extra key> | tovalue($opts)")
		} else {
			first := fw.JQIsCall(stages[0], "", -1)
			if fw.JQStr(stages[0]) != w.field && (first == nil || len(first.Args) == 0 || fw.JQStr(first.Args[0]) != w.field) {
				msgs = append(msgs, "first stage is `"+fw.JQStr(stages[0])+"`, which does not select "+w.field)
			}
			tv := fw.JQIsCall(stages[1], "tovalue", 1)
			if tv == nil || fw.JQStr(tv.Args[0]) != d.Def.Args[0] {
				msgs = append(msgs, "second stage is `"+fw.JQStr(stages[1])+"`, not tovalue of the caller's options")
			}
		}
		ru.Check(len(msgs) == 0, key, d.File.Rel, w.field+" | tovalue($opts)", strings.Join(msgs, "; "))
	}
	// toactual/0, tosym/0: the one-argument form of the same name with empty options
	for _, name := range []string{"toactual", "tosym"} {
		key := name + "/0"
		d := find(name, 0)
		if d == nil {
			ru.Undecided(key, "", "exactly one top-level def "+name+"/0 expected in pkg/interp/*.jq")
			continue
		}
		call := fw.JQIsCall(d.Def.Body, name, 1)
		ru.Check(call != nil && fw.JQStr(call.Args[0]) == "{}", key, d.File.Rel, name+"({})",
			"body is `"+fw.JQStr(d.Def.Body)+"`, not "+name+"({}): the value of the wrong kind (or with other options) is converted")
	}
	// default of skip_gaps in the fixed defaults object(s): every literal `skip_gaps: <const>` that is a
	// boolean must be false
	nDefault := 0
	for _, f := range jq.Files {
		if !strings.HasPrefix(f.Rel, "pkg/interp/") {
			continue
		}
		fw.WalkJQ(f.Query, func(x any) bool {
			t, ok := x.(*gojq.Term)
			if !ok || t.Object == nil {
				return true
			}
			for _, kv := range t.Object.KeyVals {
				if kv.Key != "skip_gaps" || kv.Val == nil {
					continue
				}
				v := fw.JQStr(kv.Val)
				if v == "true" || v == "false" {
					nDefault++
					ru.Check(v == "false", "default:skip_gaps", f.Rel, "false", "built-in default of skip_gaps is true: plain tovalue drops gap fields that keys/length/iteration of the decode value show")
				}
			}
			return true
		}, false)
	}
	if nDefault == 0 {
		ru.Undecided("default:skip_gaps", "", "no literal default for skip_gaps found in pkg/interp/*.jq")
	}
	// Go side: the function registered as _tovalue
	var reg *ssa.Function
	for f := range jqRegistered(c.p) {
		if jqRegisteredName(c.p, f) == "_tovalue" {
			reg = f
		}
	}
	if reg == nil {
		ru.Undecided("_tovalue", "", "no Go function registered as _tovalue")
		return
	}
	if strings.HasPrefix(reg.Synthetic, "thunk") || strings.HasPrefix(reg.Synthetic, "bound") {
		for _, call := range fw.CallsIn(reg) {
			if f := call.Common().StaticCallee(); f != nil && fw.InFq(f) {
				reg = f
			}
		}
	}
	e := c.env(reg)
	var msgs []string
	found := false
	conv := ""
	var convBlock *ssa.BasicBlock
	for _, call := range fw.CallsIn(reg) {
		callee := call.Common().StaticCallee()
		if callee == nil || pkgRel(callee) != "pkg/interp" || len(call.Common().Args) != 2 {
			continue
		}
		mc, ok := call.Common().Args[0].(*ssa.MakeClosure)
		if !ok {
			continue
		}
		// callee must be the options-aware deep conversion (checked by C08.tovalue): it hands its
		// first parameter to the converters
		found = true
		conv, convBlock = e.Term(call.Value()), call.Block()
		if got := e.Term(call.Common().Args[1]); got != "arg0" {
			msgs = append(msgs, "converts "+got+" instead of its input")
		}
		of := mc.Fn.(*ssa.Function)
		oe := c.env(of)
		for _, rc := range fw.ReturnCases(of, 0) {
			t := oe.Term(rc.Val)
			if !strings.HasPrefix(t, "call pkg/interp.OptionsFromValue(arg1)") {
				msgs = append(msgs, "options are "+t+", expected those built from the argument by OptionsFromValue")
			}
		}
	}
	if !found {
		msgs = append(msgs, "does not call the options-aware conversion with an options closure")
	}
	// the converted value is what comes out exactly when the conversion did not fail
	if conv != "" {
		optErr := "call pkg/interp.OptionsFromValue(arg1)#1"
		if !fw.ReachAvoiding(reg.Blocks[0], func(cd fw.Cond) bool { x, nn, ok := nilTest(e, cd); return ok && x == optErr && nn }, nil)[convBlock] {
			msgs = append(msgs, "the conversion is reached only when building the options failed: with valid options nothing is converted")
		}
		nVal := 0
		for _, rc := range fw.ReturnCases(reg, 0) {
			t := e.Term(rc.Val)
			isNil := func(cd fw.Cond) bool { x, nn, ok := nilTest(e, cd); return ok && x == conv+"#1" && !nn }
			nonNil := func(cd fw.Cond) bool { x, nn, ok := nilTest(e, cd); return ok && x == conv+"#1" && nn }
			if t == conv+"#0" {
				nVal++
				if fw.CaseReachable(reg, rc, isNil) {
					msgs = append(msgs, "the converted value is returned on a path where the conversion's error was not seen to be nil")
				}
			} else if convBlock != nil && convBlock.Dominates(rc.Block) && fw.CaseReachable(reg, rc, nonNil) {
				msgs = append(msgs, "returns "+t+" instead of the converted value although the conversion succeeded")
			}
		}
		if nVal == 0 {
			msgs = append(msgs, "never returns the converted value")
		}
	}
	ru.Check(len(msgs) == 0, "_tovalue", c.pos(reg), "input converted with OptionsFromValue(arg)", strings.Join(uniq(msgs), "; "))
}
