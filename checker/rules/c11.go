package rules

// C11 — the internal query rewrite preserves the meaning of the user's program.
//
// Decided (structural necessary conditions):
//   C11.tags    the gojq fork's AST structs are JSON round-trippable (field tags, enum codecs)
//   C11.go      _query_fromstring/_query_tostring pass the parsed / printed query through unchanged
//   C11.ctor    the jq-side AST constructors build values that fit the Go schema and put each argument where it belongs
//   C11.keys    every AST field path / TermType / operator literal used by the jq accessors exists in the Go schema
//   C11.descend _query_pipe_last & co descend exactly where their transforming twin does
//   C11.fromto  _query_fromtostring: parse, move directives out, f once, restore, print
//   C11.wrap    _eval_query_rewrite: try((user)) catch c, input | . , . | output, slurp plumbing, stage order
//   C11.closed  wrapper queries handed to eval are built from a closed set of capture-free term constructors
//   C11.repl    _repl is fed one array and iterates it; slurp functions evaluate .rewrite / .slurp_args[k] only
//   C11.expr    the program text reaching _cli_eval is the argument / -f file content, untouched by option processing
//   C11.handler the catch_query handlers cannot raise, halt or break
//   C11.inputs  the plain and the --repl evaluation of the command-line program get the same input expression for every option combination
//
// Not decided: the printer (*gojq.Query).String itself.

import (
	"fmt"
	"go/ast"
	"go/constant"
	"go/token"
	"go/types"
	"reflect"
	"sort"
	"strings"

	"golang.org/x/tools/go/packages"
	"golang.org/x/tools/go/ssa"

	"fqverif/fw"
)

const c11GojqPath = "github.com/wader/gojq"

func init() { Register("C11", runC11) }

func runC11(r *fw.Run, p *fw.Program) {
	jq, err := fw.LoadJQ(p.Repo)
	if err != nil {
		r.Fatal("jq sources: " + err.Error())
		return
	}
	sc := c11Tags(r, p)
	c11Go(r, p)
	if sc == nil {
		r.Fatal("gojq AST schema could not be extracted; jq-side rules not evaluated")
		return
	}
	c := &c11Ctx{r: r, p: p, jq: jq, sc: sc}
	c.ctor()
	c.keys()
	c.descend()
	c.fromto()
	c.wrap()
	c.closed()
	c.inputs()
	c.repl()
	c.exprRule()
	c.handlerRule()
	r.Assumption("(*gojq.Query).String (the printer of the gojq fork) parenthesises nothing by itself and prints what the AST says; its correctness for every precedence combination is not decided")
}

// ---------------------------------------------------------------------------
// Schema of the gojq AST as seen through encoding/json

type c11Field struct {
	GoName string
	Kind   string // string | bool | struct | enum
	Elem   string // struct or enum type name
	Slice  bool
}

type c11Schema struct {
	Structs   map[string]map[string]c11Field // Go type name -> json name -> field
	Order     []string
	TermTypes map[string]string   // "TermTypeTry" -> const name
	Operators map[string]string   // "|" -> const name
	TermField map[string][]string // "TermTypeTry" -> json names of Term fields its printer arm reads
	AllNames  map[string][]string // json name -> struct types having it
}

func (s *c11Schema) field(typ, name string) (c11Field, bool) {
	f, ok := s.Structs[typ][name]
	return f, ok
}

func c11Tags(r *fw.Run, p *fw.Program) *c11Schema {
	ru := r.Rule("C11.tags", "every field of every struct reachable from gojq.Query is exported, has a distinct plain json name (no '-', no ',string'), a JSON round-trippable type; Operator/TermType have both codecs and their string tables are mutually inverse; no AST struct overrides its JSON codec", 150)
	pk := p.ByPath[c11GojqPath]
	if pk == nil || pk.Types == nil {
		ru.Undecided("anchor:gojq", "", "package "+c11GojqPath+" not loaded")
		return nil
	}
	qo := pk.Types.Scope().Lookup("Query")
	if qo == nil {
		ru.Undecided("anchor:gojq.Query", "", "type gojq.Query not found")
		return nil
	}
	sc := &c11Schema{Structs: map[string]map[string]c11Field{}, TermTypes: map[string]string{}, Operators: map[string]string{}, TermField: map[string][]string{}, AllNames: map[string][]string{}}
	enums := map[string]*types.Named{}
	var visit func(n *types.Named)
	hasMethod := func(t types.Type, name string) bool {
		ms := types.NewMethodSet(t)
		for i := 0; i < ms.Len(); i++ {
			if ms.At(i).Obj().Name() == name {
				return true
			}
		}
		return false
	}
	visit = func(n *types.Named) {
		name := n.Obj().Name()
		if _, ok := sc.Structs[name]; ok {
			return
		}
		st, ok := n.Underlying().(*types.Struct)
		if !ok {
			return
		}
		sc.Structs[name] = map[string]c11Field{}
		sc.Order = append(sc.Order, name)
		pos := p.Rel(n.Obj().Pos())
		for _, m := range []string{"MarshalJSON", "UnmarshalJSON", "MarshalText", "UnmarshalText"} {
			if hasMethod(types.NewPointer(n), m) {
				ru.Undecided("gojq."+name+":"+m, pos, "AST struct overrides its JSON codec; field tags no longer describe the wire form")
			}
		}
		seen := map[string]string{}
		for i := 0; i < st.NumFields(); i++ {
			f := st.Field(i)
			key := "gojq." + name + "." + f.Name()
			fpos := p.Rel(f.Pos())
			if f.Embedded() {
				ru.Fail(key, fpos, "embedded field in AST struct: json names of the outer struct are no longer a closed table")
				continue
			}
			if !f.Exported() {
				ru.Fail(key, fpos, "unexported field is dropped by the JSON round trip of _query_fromstring/_query_tostring")
				continue
			}
			tag := reflect.StructTag(st.Tag(i)).Get("json")
			parts := strings.Split(tag, ",")
			jn := parts[0]
			if jn == "-" {
				ru.Fail(key, fpos, "json:\"-\": syntax stored here is silently dropped by the round trip")
				continue
			}
			if jn == "" {
				jn = f.Name()
			}
			bad := ""
			for _, o := range parts[1:] {
				if o != "omitempty" {
					bad = o
				}
			}
			if bad != "" {
				ru.Fail(key, fpos, "json option ',"+bad+"' changes the wire form the jq side relies on")
				continue
			}
			if prev, dup := seen[strings.ToLower(jn)]; dup {
				ru.Fail(key, fpos, "json name "+jn+" collides with field "+prev+" (encoding/json matches case-insensitively)")
				continue
			}
			seen[strings.ToLower(jn)] = f.Name()
			cf, why := c11FieldKind(f.Type(), pk.Types)
			if why != "" {
				ru.Fail(key, fpos, "field type "+types.TypeString(f.Type(), nil)+" is not JSON round-trippable here: "+why)
				continue
			}
			cf.GoName = f.Name()
			sc.Structs[name][jn] = cf
			sc.AllNames[jn] = append(sc.AllNames[jn], name)
			ru.Ok(key, fpos, "json:"+jn+" "+cf.Kind)
			switch cf.Kind {
			case "struct":
				visit(pk.Types.Scope().Lookup(cf.Elem).Type().(*types.Named))
			case "enum":
				enums[cf.Elem] = pk.Types.Scope().Lookup(cf.Elem).Type().(*types.Named)
			}
		}
	}
	visit(qo.Type().(*types.Named))

	// enum codecs
	for _, en := range fw.SortedKeys(enums) {
		n := enums[en]
		pos := p.Rel(n.Obj().Pos())
		ru.Check(hasMethod(n, "MarshalJSON"), "gojq."+en+":MarshalJSON", pos, "value method set has MarshalJSON", "enum "+en+" has no MarshalJSON on the value type: it would be written as a number the jq side does not understand")
		ru.Check(hasMethod(types.NewPointer(n), "UnmarshalJSON"), "gojq."+en+":UnmarshalJSON", pos, "pointer method set has UnmarshalJSON", "enum "+en+" has no UnmarshalJSON")
	}
	// string tables
	ttFrom := c11SwitchTable(pk, "", "TermTypeFromString", true)
	ttTo := c11SwitchTable(pk, "TermType", "GoString", false)
	opFrom := c11SwitchTable(pk, "", "OperatorFromString", true)
	opTo := c11SwitchTable(pk, "Operator", "String", false)
	inverse := func(what string, from, to map[string]string) {
		if from == nil || to == nil {
			ru.Undecided("table:"+what, "", "string table of "+what+" not extractable (FromString switch or printer switch missing)")
			return
		}
		// from: string -> const ; to: const -> string
		for _, s := range fw.SortedKeys(from) {
			c := from[s]
			back, ok := to[c]
			ru.Check(ok && back == s, fmt.Sprintf("table:%s:%q", what, s), "", "reader and writer agree ("+c+")", fmt.Sprintf("%s: reader maps %q to %s but the writer prints %s as %q", what, s, c, c, back))
		}
		for _, c := range fw.SortedKeys(to) {
			s := to[c]
			if !strings.HasPrefix(c, "Op") && !strings.HasPrefix(c, "TermType") {
				continue
			}
			if _, ok := from[s]; !ok {
				ru.Fail(fmt.Sprintf("table:%s:%s", what, c), "", fmt.Sprintf("%s: writer prints %s as %q which the reader does not accept", what, c, s))
			}
		}
	}
	inverse("TermType", ttFrom, ttTo)
	inverse("Operator", opFrom, opTo)
	for s, c := range ttFrom {
		sc.TermTypes[s] = c
	}
	for s, c := range opFrom {
		sc.Operators[s] = c
	}
	// Term printer arms: TermTypeX -> fields of the receiver read in that arm
	sc.TermField = c11TermPrinterArms(pk, sc)
	if len(sc.TermField) < 15 {
		ru.Undecided("table:Term.writeTo", "", "printer switch of gojq.Term over Type not extractable")
		return nil
	}
	for _, tt := range fw.SortedKeys(sc.TermTypes) {
		_, ok := sc.TermField[tt]
		ru.Check(ok, "printer-arm:"+tt, "", "Term printer has an arm", "Term printer has no arm for "+tt+": such a term prints as nothing")
	}
	if len(sc.TermTypes) == 0 || len(sc.Operators) == 0 || len(sc.Structs["Query"]) == 0 || len(sc.Structs["Term"]) == 0 {
		return nil
	}
	return sc
}

func c11FieldKind(t types.Type, gp *types.Package) (c11Field, string) {
	cf := c11Field{}
	if sl, ok := t.(*types.Slice); ok {
		cf.Slice = true
		t = sl.Elem()
	}
	if pt, ok := t.(*types.Pointer); ok {
		n, ok := pt.Elem().(*types.Named)
		if !ok || n.Obj().Pkg() != gp {
			return cf, "pointer to a type outside the AST package"
		}
		if _, ok := n.Underlying().(*types.Struct); !ok {
			return cf, "pointer to non-struct"
		}
		cf.Kind, cf.Elem = "struct", n.Obj().Name()
		return cf, ""
	}
	switch x := t.(type) {
	case *types.Basic:
		switch x.Kind() {
		case types.String:
			cf.Kind = "string"
			return cf, ""
		case types.Bool:
			cf.Kind = "bool"
			return cf, ""
		}
		return cf, "basic type other than string/bool (numbers lose precision through float64)"
	case *types.Named:
		if x.Obj().Pkg() != gp {
			return cf, "named type outside the AST package"
		}
		if _, ok := x.Underlying().(*types.Struct); ok {
			return cf, "struct by value (omitempty never omits it; jq side sees {} instead of null)"
		}
		if _, ok := x.Underlying().(*types.Basic); ok {
			cf.Kind, cf.Elem = "enum", x.Obj().Name()
			return cf, ""
		}
	}
	return cf, "unsupported shape"
}

func c11FindFunc(pk *packages.Package, recv, name string) *ast.FuncDecl {
	for _, f := range pk.Syntax {
		for _, d := range f.Decls {
			fd, ok := d.(*ast.FuncDecl)
			if !ok || fd.Name.Name != name || fd.Body == nil {
				continue
			}
			if recv == "" {
				if fd.Recv == nil {
					return fd
				}
				continue
			}
			if fd.Recv == nil || len(fd.Recv.List) != 1 {
				continue
			}
			tv := pk.TypesInfo.TypeOf(fd.Recv.List[0].Type)
			if pt, ok := tv.(*types.Pointer); ok {
				tv = pt.Elem()
			}
			if n, ok := tv.(*types.Named); ok && n.Obj().Name() == recv {
				return fd
			}
		}
	}
	return nil
}

// c11SwitchTable reads `switch x { case K: return V }` of a function: with strKeys the case
// labels are constant strings and the results constants (string -> const name), otherwise the
// labels are named constants and the results constant strings (const name -> string).
func c11SwitchTable(pk *packages.Package, recv, name string, strKeys bool) map[string]string {
	fd := c11FindFunc(pk, recv, name)
	if fd == nil {
		return nil
	}
	out := map[string]string{}
	constName := func(e ast.Expr) string {
		if id, ok := ast.Unparen(e).(*ast.Ident); ok {
			if c, ok := pk.TypesInfo.Uses[id].(*types.Const); ok {
				return c.Name()
			}
		}
		return ""
	}
	constStr := func(e ast.Expr) (string, bool) {
		tv, ok := pk.TypesInfo.Types[e]
		if !ok || tv.Value == nil || tv.Value.Kind() != constant.String {
			return "", false
		}
		return constant.StringVal(tv.Value), true
	}
	ast.Inspect(fd.Body, func(n ast.Node) bool {
		cc, ok := n.(*ast.CaseClause)
		if !ok || len(cc.Body) == 0 {
			return true
		}
		ret, ok := cc.Body[len(cc.Body)-1].(*ast.ReturnStmt)
		if !ok || len(ret.Results) != 1 {
			return true
		}
		for _, l := range cc.List {
			if strKeys {
				k, ok1 := constStr(l)
				v := constName(ret.Results[0])
				if ok1 && v != "" {
					out[k] = v
				}
			} else {
				k := constName(l)
				v, ok2 := constStr(ret.Results[0])
				if k != "" && ok2 {
					out[k] = v
				}
			}
		}
		return true
	})
	if len(out) == 0 {
		return nil
	}
	return out
}

// c11TermPrinterArms reads (*Term).writeTo: for each `case TermTypeX:` the json names of the
// receiver's fields selected in that arm, in order of first appearance.
func c11TermPrinterArms(pk *packages.Package, sc *c11Schema) map[string][]string {
	fd := c11FindFunc(pk, "Term", "writeTo")
	if fd == nil || fd.Recv == nil || len(fd.Recv.List[0].Names) != 1 {
		return nil
	}
	recvObj := pk.TypesInfo.Defs[fd.Recv.List[0].Names[0]]
	goToJSON := map[string]string{}
	for jn, f := range sc.Structs["Term"] {
		goToJSON[f.GoName] = jn
	}
	out := map[string][]string{}
	ast.Inspect(fd.Body, func(n ast.Node) bool {
		sw, ok := n.(*ast.SwitchStmt)
		if !ok {
			return true
		}
		sel, ok := ast.Unparen(sw.Tag).(*ast.SelectorExpr)
		if !ok || sel.Sel.Name != "Type" {
			return true
		}
		for _, s := range sw.Body.List {
			cc := s.(*ast.CaseClause)
			var fields []string
			for _, b := range cc.Body {
				ast.Inspect(b, func(m ast.Node) bool {
					se, ok := m.(*ast.SelectorExpr)
					if !ok {
						return true
					}
					id, ok := se.X.(*ast.Ident)
					if !ok || pk.TypesInfo.Uses[id] != recvObj {
						return true
					}
					if jn, ok := goToJSON[se.Sel.Name]; ok {
						dup := false
						for _, x := range fields {
							dup = dup || x == jn
						}
						if !dup {
							fields = append(fields, jn)
						}
					}
					return true
				})
			}
			for _, l := range cc.List {
				if id, ok := ast.Unparen(l).(*ast.Ident); ok {
					if c, ok := pk.TypesInfo.Uses[id].(*types.Const); ok {
						out[c.Name()] = fields
					}
				}
			}
		}
		return false
	})
	return out
}

// ---------------------------------------------------------------------------
// C11.go: the Go halves of the round trip

func c11Go(r *fw.Run, p *fw.Program) {
	ru := r.Rule("C11.go", "_query_fromstring parses exactly its argument with gojq.Parse and returns exactly the JSON image of that tree; _query_tostring rebuilds a gojq.Query from exactly its argument and returns exactly (*gojq.Query).String() of it (the only other values it may return are errors: of a failed step, or built in a deferred recover); every error is tested before the result is used", 14)
	reg := jqRegistered(p)
	var from, to *ssa.Function
	for fn := range reg {
		switch jqRegisteredName(p, fn) {
		case "_query_fromstring":
			from = fn
		case "_query_tostring":
			to = fn
		}
	}
	if from == nil {
		ru.Undecided("anchor:_query_fromstring", "", "no Go function registered as _query_fromstring")
	}
	if to == nil {
		ru.Undecided("anchor:_query_tostring", "", "no Go function registered as _query_tostring")
	}
	if from == nil || to == nil {
		return
	}
	// method expressions are registered through a synthetic thunk, and a registration may go through
	// a pure forwarder (one call of an fq function with its own parameters, result returned as is)
	unthunk := func(fn *ssa.Function) *ssa.Function {
		for i := 0; i < 3; i++ {
			calls := fw.CallsIn(fn)
			if len(calls) != 1 {
				break
			}
			call, ok := calls[0].(*ssa.Call)
			if !ok {
				break
			}
			callee := call.Common().StaticCallee()
			if callee == nil || !fw.InFq(callee) || callee.Blocks == nil {
				break
			}
			pure := true
			for _, a := range call.Common().Args {
				if _, isParam := a.(*ssa.Parameter); !isParam {
					pure = false
				}
			}
			for _, ret := range c11Returns(fn) {
				if len(ret.Results) != 1 {
					pure = false
					continue
				}
				v := ret.Results[0]
				for {
					if mi, ok := v.(*ssa.MakeInterface); ok {
						v = mi.X
						continue
					}
					if ci, ok := v.(*ssa.ChangeInterface); ok {
						v = ci.X
						continue
					}
					break
				}
				if v != ssa.Value(call) {
					pure = false
				}
			}
			if !pure {
				break
			}
			fn = callee
		}
		return fn
	}
	from, to = unthunk(from), unthunk(to)
	ru.Ok("registered:_query_fromstring", p.Rel(from.Pos()), fw.ShortFn(from))
	ru.Ok("registered:_query_tostring", p.Rel(to.Pos()), fw.ShortFn(to))

	c11GoBody(ru, p, from, to)
}

func c11SortedSet(m map[string]bool) []string {
	var out []string
	for k := range m {
		out = append(out, k)
	}
	sort.Strings(out)
	return out
}

func c11IsNil(v ssa.Value) bool {
	c, ok := v.(*ssa.Const)
	return ok && c.IsNil()
}

func c11Returns(fn *ssa.Function) []*ssa.Return {
	var out []*ssa.Return
	for _, b := range fn.Blocks {
		for _, ins := range b.Instrs {
			if r, ok := ins.(*ssa.Return); ok {
				out = append(out, r)
			}
		}
	}
	return out
}

// c11ResultCell: the function returns a single named result kept in memory (every return is a
// load of the same cell) — the shape a result takes when a deferred closure may overwrite it.
func c11ResultCell(fn *ssa.Function) *ssa.Alloc {
	var cell *ssa.Alloc
	rets := c11Returns(fn)
	if len(rets) == 0 {
		return nil
	}
	for _, ret := range rets {
		if len(ret.Results) != 1 {
			return nil
		}
		ld, ok := ret.Results[0].(*ssa.UnOp)
		if !ok || ld.Op != token.MUL {
			return nil
		}
		a, ok := ld.X.(*ssa.Alloc)
		if !ok || (cell != nil && a != cell) {
			return nil
		}
		cell = a
	}
	return cell
}

var c11ErrorIface = types.Universe.Lookup("error").Type().Underlying().(*types.Interface)

// c11ToStringCell judges every use of the result cell of _query_tostring. The normal path stores
// exactly the value of the String() call (used for nothing else) and nothing but running the
// defers and returning follows in that block. Any other write must be an error value: on a failed
// step in the function itself, or inside a closure that is only ever deferred, under a test that
// recover() returned non-nil. It returns whether the normal path is exact and the store that ends it.
func c11ToStringCell(ru *fw.Rule, p *fw.Program, fn *ssa.Function, who string, res *ssa.Alloc, str *ssa.Call, unwrap func(ssa.Value) ssa.Value) (bool, ssa.Instruction) {
	isErr := func(v ssa.Value) bool {
		t := unwrap(v).Type()
		return t != nil && types.Implements(t, c11ErrorIface)
	}
	// `return v` of the named result itself compiles to *res = *res: a store of the cell's own
	// value, loaded in the same block with no other store to the cell in between
	selfStore := func(st *ssa.Store) bool {
		ld, ok := st.Val.(*ssa.UnOp)
		if !ok || ld.Op != token.MUL || ld.X != ssa.Value(res) || st.Addr != ssa.Value(res) || ld.Block() != st.Block() {
			return false
		}
		between := false
		for _, ins := range st.Block().Instrs {
			if ins == ssa.Instruction(ld) {
				between = true
				continue
			}
			if ins == ssa.Instruction(st) {
				return between
			}
			if o, isSt := ins.(*ssa.Store); isSt && between && o.Addr == ssa.Value(res) {
				return false
			}
			if _, isCall := ins.(ssa.CallInstruction); isCall && between {
				return false
			}
		}
		return false
	}
	var success *ssa.Store
	var probs []string
	nOther := 0
	for _, ref := range *res.Referrers() {
		switch x := ref.(type) {
		case *ssa.DebugRef:
		case *ssa.UnOp:
			// loads: only to be returned
			for _, r := range *x.Referrers() {
				switch y := r.(type) {
				case *ssa.Return, *ssa.DebugRef:
				case *ssa.Store:
					if !selfStore(y) {
						probs = append(probs, "the result is read back by `"+r.String()+"` before it is returned")
					}
				default:
					probs = append(probs, "the result is read back by `"+r.String()+"` before it is returned")
				}
			}
		case *ssa.Store:
			if x.Addr != ssa.Value(res) {
				probs = append(probs, "the address of the result is stored away")
				continue
			}
			if selfStore(x) {
				continue
			}
			if unwrap(x.Val) == ssa.Value(str) {
				if success != nil {
					probs = append(probs, "String() is assigned to the result more than once")
				}
				success = x
				continue
			}
			nOther++
			if !isErr(x.Val) {
				probs = append(probs, "the result is also assigned `"+x.Val.String()+"` ("+unwrap(x.Val).Type().String()+"), which is neither String() itself nor an error")
			} else if x.Block() == str.Block() {
				probs = append(probs, "the result is overwritten on the path that prints the query")
			}
		case *ssa.MakeClosure:
			cl, _ := x.Fn.(*ssa.Function)
			if cl == nil {
				probs = append(probs, "the result is captured by an unknown closure")
				continue
			}
			for _, r := range *x.Referrers() {
				if _, ok := r.(*ssa.Defer); !ok {
					if _, dbg := r.(*ssa.DebugRef); !dbg {
						probs = append(probs, "the closure capturing the result is not only deferred: `"+r.String()+"`")
					}
				}
			}
			for i, b := range x.Bindings {
				if b != ssa.Value(res) || i >= len(cl.FreeVars) {
					continue
				}
				fv := cl.FreeVars[i]
				for _, r := range *fv.Referrers() {
					switch y := r.(type) {
					case *ssa.DebugRef, *ssa.UnOp:
					case *ssa.Store:
						nOther++
						switch {
						case y.Addr != ssa.Value(fv):
							probs = append(probs, "the address of the result is stored away in the deferred closure")
						case !isErr(y.Val):
							probs = append(probs, "the deferred closure assigns `"+y.Val.String()+"` ("+unwrap(y.Val).Type().String()+") to the result, which is not an error: jq would take it for the printed program")
						case !c11UnderRecover(y):
							probs = append(probs, "the deferred closure overwrites the result outside a test that recover() returned non-nil: a successfully printed program is replaced")
						}
					default:
						probs = append(probs, "the deferred closure uses the result cell in `"+r.String()+"`")
					}
				}
			}
		default:
			probs = append(probs, "the result cell is used by `"+ref.String()+"`")
		}
	}
	ok := success != nil
	if ok {
		// String() feeds only that store
		for _, r := range *str.Referrers() {
			switch y := r.(type) {
			case *ssa.DebugRef:
			case *ssa.MakeInterface:
				for _, rr := range *y.Referrers() {
					if rr != ssa.Instruction(success) {
						if _, dbg := rr.(*ssa.DebugRef); !dbg {
							ok = false
						}
					}
				}
			default:
				ok = false
			}
		}
		// nothing but rundefers / load / return after it
		after := false
		for _, ins := range success.Block().Instrs {
			if ins == ssa.Instruction(success) {
				after = true
				continue
			}
			if !after {
				continue
			}
			switch y := ins.(type) {
			case *ssa.RunDefers, *ssa.Return, *ssa.DebugRef:
			case *ssa.UnOp:
				if y.X != ssa.Value(res) {
					ok = false
				}
			case *ssa.Store:
				if !selfStore(y) {
					ok = false
				}
			default:
				ok = false
			}
		}
		if _, isRet := success.Block().Instrs[len(success.Block().Instrs)-1].(*ssa.Return); !isRet {
			ok = false
		}
	}
	sort.Strings(probs)
	ru.Check(len(probs) == 0, who+":result:other-writes", p.Rel(fn.Pos()), fmt.Sprintf("the %d other assignments to the result are errors (failed step, or deferred recover)", nOther),
		"besides String() on the normal path the result of _query_tostring may only receive error values (a failed step, or one built in a deferred recover): "+strings.Join(probs, "; "))
	if success == nil {
		return false, nil
	}
	return ok, success
}

// c11UnderRecover: the instruction runs only when a call of the builtin recover returned non-nil.
func c11UnderRecover(ins ssa.Instruction) bool {
	for _, g := range fw.Guards(ins.Block()) {
		g = g.Normalize()
		bo, ok := g.Cond.(*ssa.BinOp)
		if !ok {
			continue
		}
		var other ssa.Value
		if c11IsNil(bo.X) {
			other = bo.Y
		} else if c11IsNil(bo.Y) {
			other = bo.X
		} else {
			continue
		}
		call, ok := other.(*ssa.Call)
		if !ok {
			continue
		}
		b, ok := call.Common().Value.(*ssa.Builtin)
		if !ok || b.Name() != "recover" {
			continue
		}
		if (bo.Op == token.NEQ && g.True) || (bo.Op == token.EQL && !g.True) {
			return true
		}
	}
	return false
}
