package rules

import (
	"fmt"
	"go/types"
	"sort"
	"strings"

	"fqverif/fw"

	"golang.org/x/tools/go/ssa"
)

// ---------------------------------------------------------------------------
// C13.errval: what fq's error values carry for display is a jq value
//
// gojq.TypeOf panics ("invalid type") on anything that is not a jq value. fq's typed errors keep the
// offending value in an `any` field and render it with TypeErrorPreview -> gojq.TypeOf when the error
// is printed or caught. Rule: every value that reaches gojq.TypeOf / gojq.Preview / TypeErrorPreview,
// directly or by being stored into an error field that Error() renders that way, is either an opaque
// `any` that came from jq (argument, input, element of a jq container) or a boxed value of a jq type.
// Boxing a Go struct, a typed option value or a type parameter there turns a catchable argument
// error into a process-ending panic.

func c13ErrVal(r *fw.Run, p *fw.Program) {
	ru := r.Rule("C13.errval", "every value handed to gojq.TypeOf / gojq.Preview / gojqx.TypeErrorPreview, or stored into an error-struct field that the type's Error() renders through them, is a jq value: an opaque `any` from jq or a boxed bool/int/float64/string/*big.Int/[]any/map[string]any/JQValue/nil (gojq.TypeOf panics on anything else)", 40)
	sinkFns := map[string]bool{
		"github.com/wader/gojq.TypeOf":              true,
		"github.com/wader/gojq.Preview":             true,
		fw.Mod + "/internal/gojqx.TypeErrorPreview": true,
	}
	var jqValueIface *types.Interface
	for _, pk := range p.SSA.AllPackages() {
		if pk.Pkg.Path() == "github.com/wader/gojq" {
			if o := pk.Pkg.Scope().Lookup("JQValue"); o != nil {
				jqValueIface, _ = o.Type().Underlying().(*types.Interface)
			}
		}
	}
	if jqValueIface == nil {
		ru.Undecided("anchor:JQValue", "", "gojq.JQValue not found")
		return
	}
	// 1. fields rendered through a sink in a method of their struct
	type fieldKey struct {
		st  *types.Named
		idx int
	}
	rendered := map[fieldKey]bool{}
	for _, fn := range p.FqFunctions() {
		if fn.Signature.Recv() == nil || len(fn.Params) == 0 {
			continue
		}
		recv := fn.Params[0]
		fw.EachInstr(fn, func(ins ssa.Instruction) {
			c, ok := ins.(ssa.CallInstruction)
			if !ok {
				return
			}
			cal := c.Common().StaticCallee()
			if cal == nil || !sinkFns[c13OriginName(cal)] || len(c.Common().Args) == 0 {
				return
			}
			if fk, ok := c13RecvField(c.Common().Args[0], recv); ok {
				rendered[fieldKey{fk.st, fk.idx}] = true
			}
		})
	}
	if len(rendered) < 3 {
		ru.Undecided("anchor:rendered-fields", "", fmt.Sprintf("only %d error fields rendered through TypeErrorPreview found (expected FuncTypeError.V, FuncArgTypeError.V, BinopTypeError.L/R ...)", len(rendered)))
	}
	isJQType := func(t types.Type) bool { return c13IsJQType(t, jqValueIface) }
	var bad func(v ssa.Value, seen map[ssa.Value]bool) string
	bad = func(v ssa.Value, seen map[ssa.Value]bool) string {
		if seen[v] {
			return ""
		}
		seen[v] = true
		switch x := v.(type) {
		case *ssa.MakeInterface:
			if !isJQType(x.X.Type()) {
				return "a boxed " + shortType(x.X.Type())
			}
		case *ssa.Phi:
			for _, e := range x.Edges {
				if s := bad(e, seen); s != "" {
					return s
				}
			}
		case *ssa.ChangeInterface:
			return bad(x.X, seen)
		case *ssa.Const:
			return ""
		default:
			if _, isIface := v.Type().Underlying().(*types.Interface); !isIface {
				if _, isTP := v.Type().(*types.TypeParam); isTP {
					return "a value of type parameter " + v.Type().String()
				}
			}
		}
		return ""
	}
	type res struct {
		pos string
		bad string
	}
	results := map[string]*res{}
	note := func(key, pos, b string) {
		if cur, ok := results[key]; ok {
			if cur.bad == "" && b != "" {
				cur.bad, cur.pos = b, pos
			}
			return
		}
		results[key] = &res{pos, b}
	}
	for _, fn := range p.FqFunctions() {
		base := fn
		if o := fn.Origin(); o != nil {
			base = o
		}
		name := fw.ShortFn(base)
		ordS, ordC := map[string]int{}, 0
		fw.EachInstr(fn, func(ins ssa.Instruction) {
			switch x := ins.(type) {
			case *ssa.Store:
				fa, ok := x.Addr.(*ssa.FieldAddr)
				if !ok {
					return
				}
				pt, ok := fa.X.Type().Underlying().(*types.Pointer)
				if !ok {
					return
				}
				n, ok := pt.Elem().(*types.Named)
				if !ok {
					return
				}
				if on := n.Origin(); on != nil {
					n = on
				}
				if !rendered[fieldKey{n, fa.Field}] {
					return
				}
				f := shortType(n) + "." + fieldNameOf(fa.X.Type(), fa.Field)
				ordS[f]++
				note(fmt.Sprintf("%s|store:%s#%d", name, f, ordS[f]), p.Rel(x.Pos()), bad(x.Val, map[ssa.Value]bool{}))
			case ssa.CallInstruction:
				cal := x.Common().StaticCallee()
				if cal == nil || !sinkFns[c13OriginName(cal)] || len(x.Common().Args) == 0 {
					return
				}
				ordC++
				note(fmt.Sprintf("%s|call:%s#%d", name, cal.Name(), ordC), p.Rel(x.Pos()), bad(x.Common().Args[0], map[ssa.Value]bool{}))
			}
		})
	}
	keys := make([]string, 0, len(results))
	for k := range results {
		keys = append(keys, k)
	}
	sort.Strings(keys)
	for _, k := range keys {
		rs := results[k]
		ru.Check(rs.bad == "", k, rs.pos, "a jq value", "the value kept for the error message is "+rs.bad+", not a jq value: rendering the error calls gojq.TypeOf on it, which panics ('invalid type') and ends fq instead of raising a catchable error")
	}
}

func c13OriginName(f *ssa.Function) string {
	if o := f.Origin(); o != nil {
		return o.String()
	}
	return f.String()
}

type c13Field struct {
	st  *types.Named
	idx int
}

// c13RecvField: v is a load of a field of the (value or pointer) receiver.
func c13RecvField(v ssa.Value, recv *ssa.Parameter) (c13Field, bool) {
	switch x := v.(type) {
	case *ssa.Field:
		if x.X == ssa.Value(recv) {
			if n, ok := recv.Type().(*types.Named); ok {
				return c13Field{n, x.Field}, true
			}
		}
		if u, ok := x.X.(*ssa.UnOp); ok {
			if al, ok := u.X.(*ssa.Alloc); ok {
				_ = al
			}
		}
	case *ssa.UnOp:
		if fa, ok := x.X.(*ssa.FieldAddr); ok {
			// spilled value receiver (Alloc holding recv) or pointer receiver
			root := fa.X
			if al, ok := root.(*ssa.Alloc); ok && al.Referrers() != nil {
				for _, r := range *al.Referrers() {
					if st, ok := r.(*ssa.Store); ok && st.Addr == ssa.Value(al) && st.Val == ssa.Value(recv) {
						if n, ok := recv.Type().(*types.Named); ok {
							return c13Field{n, fa.Field}, true
						}
					}
				}
			}
			if root == ssa.Value(recv) {
				if pt, ok := recv.Type().Underlying().(*types.Pointer); ok {
					if n, ok := pt.Elem().(*types.Named); ok {
						return c13Field{n, fa.Field}, true
					}
				}
			}
		}
	}
	return c13Field{}, false
}

func c13IsJQType(t types.Type, jqValueIface *types.Interface) bool {
	if types.Implements(t, jqValueIface) {
		return true
	}
	switch u := t.Underlying().(type) {
	case *types.Basic:
		switch u.Kind() {
		case types.Bool, types.Int, types.Float64, types.String, types.UntypedNil, types.UntypedBool, types.UntypedInt, types.UntypedFloat, types.UntypedString:
			return t == types.Typ[u.Kind()] || u.Info()&types.IsUntyped != 0
		}
	case *types.Pointer:
		if n, ok := u.Elem().(*types.Named); ok && n.Obj().Pkg() != nil && n.Obj().Pkg().Path() == "math/big" && n.Obj().Name() == "Int" {
			return true
		}
	case *types.Slice:
		if i, ok := u.Elem().Underlying().(*types.Interface); ok && i.Empty() {
			_, named := t.(*types.Named)
			return !named
		}
	case *types.Map:
		k, kok := u.Key().(*types.Basic)
		if i, ok := u.Elem().Underlying().(*types.Interface); ok && i.Empty() && kok && k.Kind() == types.String {
			_, named := t.(*types.Named)
			return !named
		}
	}
	return false
}

func c13JQValueIface(p *fw.Program) *types.Interface {
	for _, pk := range p.SSA.AllPackages() {
		if pk.Pkg.Path() == "github.com/wader/gojq" {
			if o := pk.Pkg.Scope().Lookup("JQValue"); o != nil {
				i, _ := o.Type().Underlying().(*types.Interface)
				return i
			}
		}
	}
	return nil
}

// ---------------------------------------------------------------------------
// C13.jqtype: containers handed to jq hold only jq values
//
// gojq panics ("invalid type") or recurses without end on a Go value it does not know ([]string, a struct, an
// int64 ...). Rule: in jq-callable Go code, every value boxed into an element of a map[string]any or []any
// (map update, indexed store, append, composite literal) is of a jq type: bool, int, float64, string, *big.Int,
// []any, map[string]any, a JQValue, or nil.
func c13JQType(r *fw.Run, p *fw.Program, scope []*ssa.Function) {
	ru := r.Rule("C13.jqtype", "in jq-callable Go code every value boxed into an element of a map[string]any or []any (map update, indexed store, append / variadic literal), and every value a registered function, a JQValue protocol method or a closure of one returns as `any`, has a jq type (bool, int, float64, string, *big.Int, []any, map[string]any, JQValue, nil; an error; []gojq.PathValue for JQValueEach): gojq panics with 'invalid type' or overflows the stack on anything else", 220)
	iface := c13JQValueIface(p)
	if iface == nil {
		ru.Undecided("anchor:JQValue", "", "gojq.JQValue not found")
		return
	}
	isAnyElem := func(t types.Type) bool {
		i, ok := t.Underlying().(*types.Interface)
		return ok && i.Empty()
	}
	for _, fn := range scope {
		if fn.TypeParams().Len() > 0 && len(fn.TypeArgs()) == 0 {
			continue
		}
		ord := 0
		check := func(ins ssa.Instruction, v ssa.Value, where string) {
			mi, ok := v.(*ssa.MakeInterface)
			if !ok {
				return
			}
			ord++
			key := fmt.Sprintf("%s|%s#%d", fw.ShortFn(fn), where, ord)
			t := mi.X.Type()
			if c13IsJQType(t, iface) {
				ru.Ok(key, p.Rel(ins.Pos()), "jq type "+shortType(t))
				return
			}
			if types.Implements(t, errorIface()) || types.Implements(types.NewPointer(t), errorIface()) {
				ru.Ok(key, p.Rel(ins.Pos()), "an error value (gojq turns it into a jq error)")
				return
			}
			if reason, ok := c13JQTypeExceptions[key]; ok {
				ru.Except(key, p.Rel(ins.Pos()), reason)
				return
			}
			if where == "result" {
				if fn.Name() == "JQValueEach" && types.TypeString(t, nil) == "[]github.com/wader/gojq.PathValue" {
					ru.Ok(key, p.Rel(ins.Pos()), "JQValueEach answers with []gojq.PathValue (JQValue protocol)")
					return
				}
				ru.Fail(key, p.Rel(ins.Pos()), "a "+shortType(t)+" is returned to the jq interpreter as a value: gojq does not know this Go type (its own type assertions on protocol answers fail, gojq.TypeOf panics with 'invalid type' when the value is used or printed)")
				return
			}
			ru.Fail(key, p.Rel(ins.Pos()), "a "+shortType(t)+" is stored as "+where+" of a jq container: gojq does not know this Go type (panic 'invalid type' / endless recursion when the value is used or printed)")
		}
		retAny := fn.Signature.Results().Len() == 1 && isAnyElem(fn.Signature.Results().At(0).Type()) && c13ReturnsToJQ(p, fn)
		fw.EachInstr(fn, func(ins ssa.Instruction) {
			switch x := ins.(type) {
			case *ssa.Return:
				// what a jq-callable function (registered function, JQValue method, or a closure of one) hands back as `any`
				if retAny && len(x.Results) == 1 {
					check(x, x.Results[0], "result")
				}
			case *ssa.MapUpdate:
				if m, ok := x.Map.Type().Underlying().(*types.Map); ok && isAnyElem(m.Elem()) {
					if k, ok := m.Key().Underlying().(*types.Basic); ok && k.Kind() == types.String {
						check(x, x.Value, "map value")
					}
				}
			case *ssa.Store:
				if ia, ok := x.Addr.(*ssa.IndexAddr); ok {
					var et types.Type
					switch ct := ia.X.Type().Underlying().(type) {
					case *types.Slice:
						et = ct.Elem()
					case *types.Pointer:
						if at, ok := ct.Elem().Underlying().(*types.Array); ok {
							et = at.Elem()
						}
					}
					if et != nil && isAnyElem(et) {
						// only slices/arrays that are (or become) []any values handed on; variadic fmt args excluded
						if c13FeedsOnlyFormatting(ia) {
							return
						}
						check(x, x.Val, "slice element")
					}
				}
			}
		})
	}
}

// c13ReturnsToJQ: fn's `any` result goes back to the jq interpreter: a registered Go function, a JQValue
// protocol method of an fq value type, or a closure nested in one of those (type-switch arms handed to
// gojq.BinopTypeSwitch, iterator callbacks).
func c13ReturnsToJQ(p *fw.Program, fn *ssa.Function) bool {
	if c13RegTargets == nil {
		c13RegTargets = map[*ssa.Function]bool{}
		for f := range jqRegistered(p) {
			c13RegTargets[f] = true
			if f.Synthetic != "" {
				// (*Interp).method registered as a method expression: the thunk forwards to the method
				for _, c := range fw.CallsIn(f) {
					if cal := c.Common().StaticCallee(); cal != nil {
						c13RegTargets[cal] = true
					}
				}
			}
		}
	}
	for f := fn; f != nil; f = f.Parent() {
		if c13RegTargets[f] {
			return true
		}
		if f.Signature.Recv() != nil && strings.HasPrefix(f.Name(), "JQValue") {
			return true
		}
	}
	return false
}

var c13RegTargets map[*ssa.Function]bool

var c13JQTypeExceptions = map[string]string{
	"(*pkg/interp.Interp)._decode$2|map value#1": "int64 inside the progress object: it is only used as the INPUT of a nested evaluation (EvalFuncValues -> gojq Run), where gojq normalises every Go integer and float kind to int/float64/*big.Int (normalizeNumbers); not a function result",
	"(*pkg/interp.Interp)._decode$2|map value#2": "same progress object (total_size)",
}

var errIface *types.Interface

func errorIface() *types.Interface {
	if errIface == nil {
		errIface = types.Universe.Lookup("error").Type().Underlying().(*types.Interface)
	}
	return errIface
}

// c13FeedsOnlyFormatting: the backing array of this element is the variadic argument list of a call outside fq
// (fmt.Sprintf, fmt.Errorf, log ...) or of an fq formatting helper (Fatalf/Errorf): not a jq container.
func c13FeedsOnlyFormatting(ia *ssa.IndexAddr) bool {
	al, ok := ia.X.(*ssa.Alloc)
	if !ok || al.Referrers() == nil {
		return false
	}
	for _, rf := range *al.Referrers() {
		sl, ok := rf.(*ssa.Slice)
		if !ok || sl.Referrers() == nil {
			continue
		}
		for _, u := range *sl.Referrers() {
			c, ok := u.(ssa.CallInstruction)
			if !ok {
				return false
			}
			cal := c.Common().StaticCallee()
			if cal == nil {
				return false
			}
			if cal.Signature.Variadic() && len(c.Common().Args) > 0 && c.Common().Args[len(c.Common().Args)-1] == ssa.Value(sl) {
				name := cal.Name()
				if cal.String() == "github.com/wader/gojq.NewIter" {
					return false // the values an iterator function yields: jq values
				}
				if !fw.InFq(cal) || strings.HasSuffix(name, "f") {
					continue
				}
			}
			return false
		}
	}
	return true
}
