package rules

// C03 - decode trees are structurally sound (ranges, order, names, links).
//
// Rules (structural necessary conditions, evaluated on the SSA of the current tree):
//   C03.own      who may write the tree-shape fields of decode.Value / decode.Compound
//   C03.addchild AddChild: parent link, duplicate-name test with a no-return arm, ByName + Children kept together
//   C03.byname   every ByName update/delete is keyed by the Name of the value added/removed; Remove filters exactly that value
//   C03.range    ranges recorded by the field API are the reader positions around the read
//   C03.window   FramedFn/LimitedFn/RangeFn sub-reader windows and position advance
//   C03.sub      nested-format decodes: reader, IsRoot, Range option, advance, link into the parent
//   C03.rebase   decode(): sub-reader window, rebase walk, root range, postProcess/FillGaps placement
//   C03.post     postProcess: range fold, stable ascending sort of struct fields only, index assignment
//   C03.minmax   ranges.MinMax / Range.Stop arithmetic
//   C03.walk     Walk wrappers: one-root / order constants, child iteration
//   C03.seek     position plumbing: windows, relative/absolute seeks with restore, length / bits left
//   C03.inside   no value beyond the end of its buffer: bounded seek, remaining-input tests before every success
//   C03.lower    (borrowed from C01) seekers refuse a target before their own start
//   C03.readers  (borrowed from C02) raw-bits reader and peeks move the position by what they hand out
//   C03.cover    (borrowed from C04) delimited nested decodes are gap-filled: the value's range is the range it was given
//   C03.roots    (borrowed from C12) Parent links lead to the buffer root

import (
	"go/types"

	"golang.org/x/tools/go/ssa"

	"fqverif/fw"
)

func init() { Register("C03", runC03) }

func runC03(r *fw.Run, p *fw.Program) {
	c05BitioxAs(r, p, "C03.bitiox")
	c03DebugDump(p)
	c := &c03x{
		p:          p,
		valueT:     p.NamedType("pkg/decode", "Value"),
		compT:      p.NamedType("pkg/decode", "Compound"),
		dT:         p.NamedType("pkg/decode", "D"),
		rangeT:     p.NamedType("pkg/ranges", "Range"),
		optsT:      p.NamedType("pkg/decode", "Options"),
		bindCache:  map[*ssa.FreeVar]ssa.Value{},
		storeCache: map[*ssa.Alloc]*c03CellInfo{},
		litCache:   map[*ssa.Alloc]map[string]ssa.Value{},
		ids:        map[ssa.Value]int{},
	}
	for n, t := range map[string]*types.Named{"decode.Value": c.valueT, "decode.Compound": c.compT, "decode.D": c.dT, "ranges.Range": c.rangeT, "decode.Options": c.optsT} {
		if t == nil {
			r.Fatal("anchor missing: type " + n)
			return
		}
		if _, ok := t.Underlying().(*types.Struct); !ok {
			r.Fatal("anchor changed: " + n + " is not a struct")
			return
		}
	}
	c03Own(r, c)
	c03AddChild(r, c)
	c03ByName(r, c)
	c03Range(r, c)
	c03Window(r, c)
	c03Sub(r, c)
	c03Rebase(r, c)
	c03Post(r, c)
	c03MinMax(r, c)
	c03Walk(r, c)
	c03Seek(r, c)
	c03Inside(r, c)
	c03Borrow(r, p)
}

// fnOrUndecided resolves an anchored function; a missing anchor is an undecided obligation.
func (c *c03x) fn(ru *fw.Rule, name string) *ssa.Function {
	f := c.p.Fn(name)
	if f == nil || f.Blocks == nil {
		ru.Undecided("anchor:"+name, "", "anchored function "+name+" not found in the tree")
		return nil
	}
	return f
}

func (c *c03x) at(fn *ssa.Function) string { return c.p.Rel(fn.Pos()) }

// ---------------------------------------------------------------------------
// C03.own

// watched fields: the tree shape.
var c03WatchedValue = map[string]bool{"Range": true, "Parent": true, "Index": true, "Name": true, "RootReader": true, "IsRoot": true}
var c03WatchedComp = map[string]bool{"Children": true, "ByName": true, "IsArray": true}

// c03Owners: field -> functions of pkg/decode (outermost function, closures folded in) that may
// write it on a value that already exists ("set") or on a value they allocate themselves ("new").
var c03Owners = map[string]map[string]string{
	"Value.Range": {
		"(*pkg/decode.D).FieldRangeFn":         "set: range given by the caller (firstBit,nBits), checked by C03.range",
		"(*pkg/decode.D).TryFieldValue":        "set: positions around the reader call, checked by C03.range",
		"(*pkg/decode.Value).postProcess":      "set: fold of children ranges, checked by C03.post",
		"pkg/decode.decode":                    "set: rebase and root range, checked by C03.rebase",
		"(*pkg/decode.D).FieldRootBitBuf":      "new: nested buffer value, checked by C03.range",
		"(*pkg/decode.D).FillGaps":             "new: gap value, checked by C03.range",
		"(*pkg/decode.D).fieldDecoder":         "new: compound starts at the current position, checked by C03.range",
		"pkg/decode.newDecoder":                "new: root value starts as 0:0, checked by C03.range",
		"(*pkg/decode.D).TryFieldFormatBitBuf": "set: nested root is placed at the parent's position, checked by C03.sub",
	},
	"Value.Parent": {
		"(*pkg/decode.D).AddChild": "set: checked by C03.addchild",
	},
	"Value.Index": {
		"(*pkg/decode.Value).postProcess": "set: checked by C03.post",
	},
	"Value.Name": {
		"(*pkg/decode.D).FieldRangeFn":    "set before AddChild, checked by C03.range",
		"(*pkg/decode.D).TryFieldValue":   "set before AddChild, checked by C03.range",
		"(*pkg/decode.D).FieldRootBitBuf": "new",
		"(*pkg/decode.D).FillGaps":        "new",
		"(*pkg/decode.D).fieldDecoder":    "new",
		"pkg/decode.newDecoder":           "new",
	},
	"Value.RootReader": {
		"(*pkg/decode.D).FieldRangeFn":    "set",
		"(*pkg/decode.D).TryFieldValue":   "set",
		"pkg/decode.decode":               "set: rebase walk",
		"(*pkg/decode.D).FieldRootBitBuf": "new",
		"(*pkg/decode.D).FillGaps":        "new",
		"(*pkg/decode.D).fieldDecoder":    "new",
		"pkg/decode.newDecoder":           "new",
	},
	"Value.IsRoot": {
		"(*pkg/decode.D).FieldArrayRootBitBufFn":  "set on the value it just created, before linking, checked by C03.sub",
		"(*pkg/decode.D).FieldStructRootBitBufFn": "set on the value it just created, before linking, checked by C03.sub",
		"(*pkg/decode.D).FieldRootBitBuf":         "new",
		"pkg/decode.newDecoder":                   "new",
	},
	"Compound.Children": {
		"(*pkg/decode.D).AddChild":        "append, checked by C03.addchild",
		"(*pkg/decode.Value).Remove":      "filter, checked by C03.byname",
		"(*pkg/decode.Value).postProcess": "stable sort in place, checked by C03.post",
		"pkg/decode.newDecoder":           "new",
	},
	"Compound.ByName": {
		"(*pkg/decode.D).AddChild":   "make + insert, checked by C03.addchild",
		"(*pkg/decode.Value).Remove": "delete, checked by C03.byname",
	},
	"Compound.IsArray": {
		"(*pkg/decode.D).FieldArray":              "new",
		"(*pkg/decode.D).FieldStruct":             "new",
		"(*pkg/decode.D).FieldArrayRootBitBufFn":  "new",
		"(*pkg/decode.D).FieldStructRootBitBufFn": "new",
		"pkg/decode.newDecoder":                   "new",
	},
}

// c03OwnExceptions: writers outside pkg/decode. Each is additionally checked for the exact operand.
var c03OwnExceptions = map[string]string{
	"Value.Range|format/bits.decodeBits":         "root replaced by one scalar covering the whole buffer: Range.Len = d.Len() of the same decoder",
	"Value.Range|format/csv.decodeCSV":           "root replaced by one scalar covering the whole buffer: Range.Len = d.Len() of the same decoder",
	"Value.Range|format/json.decodeJSONEx":       "root replaced by one scalar covering the whole buffer: Range.Len = d.Len() of the same decoder",
	"Value.Range|format/markdown.decodeMarkdown": "root replaced by one scalar covering the whole buffer: Range.Len = d.Len() of the same decoder",
	"Value.Range|format/toml.decodeTOML":         "root replaced by one scalar covering the whole buffer: Range.Len = d.Len() of the same decoder",
	"Value.Range|format/xml.decodeHTML":          "root replaced by one scalar covering the whole buffer: Range.Len = d.Len() of the same decoder",
	"Value.Range|format/xml.decodeXML":           "root replaced by one scalar covering the whole buffer: Range.Len = d.Len() of the same decoder",
	"Value.Range|format/yaml.decodeYAML":         "root replaced by one scalar covering the whole buffer: Range.Len = d.Len() of the same decoder",
	"Value.Range|pkg/interp.hexdump":             "synthetic value for dumping a binary, never linked into a tree (AddChild is not callable from there: C03.own callers)",
	"Value.RootReader|pkg/interp.hexdump":        "synthetic value for dumping a binary, never linked into a tree",
}

func c03Own(r *fw.Run, c *c03x) {
	ru := r.Rule("C03.own", "tree-shape fields (Value.Range/Parent/Index/Name/RootReader/IsRoot, Compound.Children/ByName/IsArray) are written only by the decode-API functions the other rules check; outside pkg/decode only the whole-buffer scalar idiom Range.Len = d.Len(); AddChild/postProcess are called only inside pkg/decode; the fields' addresses and the Children/ByName containers do not escape to other code", 70)
	p := c.p
	lenFn := p.Fn("(*pkg/decode.D).Len")
	classify := func(t types.Type, f string) string {
		if c.isNamed(t, c.valueT) && c03WatchedValue[f] {
			return "Value." + f
		}
		if c.isNamed(t, c.compT) && c03WatchedComp[f] {
			return "Compound." + f
		}
		return ""
	}
	ord := map[string]int{}
	check := func(field string, fn *ssa.Function, what string, pos string, st *ssa.Store, sub string) {
		top := fw.ShortFn(fw.Top(fn))
		base := field + "|" + top
		ord[base+"|"+what]++
		key := base + "|" + what
		if n := ord[key]; n > 1 {
			key += "#" + c03Itoa(n)
		}
		if pkgRel(fn) == "pkg/decode" {
			if _, ok := c03Owners[field][top]; ok {
				ru.Ok(key, pos, "owner function")
				return
			}
			ru.Fail(key, pos, top+" writes "+field+" ("+what+"): not one of the decode-API functions whose range/link discipline is checked; a value's "+field+" can now be set behind the checked mechanisms")
			return
		}
		reason, ok := c03OwnExceptions[base]
		if !ok {
			ru.Fail(key, pos, top+" (outside pkg/decode) writes "+field+" ("+what+"): decoders must go through the decode API")
			return
		}
		// operand discipline for the text-decoder idiom
		if field == "Value.Range" && pkgRel(fn) != "pkg/interp" {
			good := false
			if st != nil && sub == ".Len" && lenFn != nil {
				// address: (<D>.Value).Range.Len ; value: (*D).Len(<same D>)
				if call, ok := c.canon(st.Val).(*ssa.Call); ok && call.Common().StaticCallee() == lenFn {
					dv := c.canon(call.Common().Args[0])
					fa := st.Addr.(*ssa.FieldAddr).X.(*ssa.FieldAddr) // &X.Range
					vp := c.pathOf(fa.X)
					good = vp.is(dv, ".Value")
				}
			}
			if !good {
				ru.Fail(key, pos, top+": direct write to Value.Range that is not `d.Value.Range.Len = d.Len()` on the decoder's own root")
				return
			}
		}
		ru.Except(key, pos, reason)
	}
	for _, fn := range p.FqFunctions() {
		fw.EachInstr(fn, func(ins ssa.Instruction) {
			switch x := ins.(type) {
			case *ssa.Store:
				// store through a watched field
				a := x.Addr
				sub := ""
				for {
					fa, ok := a.(*ssa.FieldAddr)
					if !ok {
						break
					}
					n := fieldNameOf(fa.X.Type(), fa.Field)
					if f := classify(fa.X.Type(), n); f != "" {
						what := "set" + sub
						if _, fresh := fa.X.(*ssa.Alloc); fresh {
							what = "new" + sub
						}
						check(f, fn, what, p.Rel(x.Pos()), x, sub)
						break
					}
					sub = "." + n + sub
					a = fa.X
				}
				// whole-struct overwrite of an existing Value / Compound
				if _, isFA := x.Addr.(*ssa.FieldAddr); !isFA {
					vt := x.Val.Type()
					if _, isPtr := vt.Underlying().(*types.Pointer); !isPtr && (c.isNamed(vt, c.valueT) || c.isNamed(vt, c.compT)) {
						if _, fresh := x.Addr.(*ssa.Alloc); !fresh {
							ru.Fail("whole|"+fw.ShortFn(fw.Top(fn)), p.Rel(x.Pos()), "whole decode.Value/Compound overwritten in place: all tree-shape fields change at once")
						}
					}
				}
			case *ssa.MapUpdate:
				if fa := c03LoadedField(x.Map); fa != nil {
					if f := classify(fa.X.Type(), fieldNameOf(fa.X.Type(), fa.Field)); f != "" {
						check(f, fn, "insert", p.Rel(x.Pos()), nil, "")
					}
				}
			case *ssa.FieldAddr:
				n := fieldNameOf(x.X.Type(), x.Field)
				f := classify(x.X.Type(), n)
				if f == "" {
					return
				}
				if c03Escapes(x) {
					check(f, fn, "address-escapes", p.Rel(x.Pos()), nil, "")
				}
			case ssa.CallInstruction:
				cc := x.Common()
				for _, a := range cc.Args {
					fa := c03LoadedField(a)
					if fa == nil {
						continue
					}
					n := fieldNameOf(fa.X.Type(), fa.Field)
					if !(c.isNamed(fa.X.Type(), c.compT) && (n == "Children" || n == "ByName")) {
						continue
					}
					if fw.IsBuiltinCall(x, "len") || fw.IsBuiltinCall(x, "cap") {
						continue
					}
					check("Compound."+n, fn, "passed-to:"+fw.CalleeName(x), p.Rel(x.Pos()), nil, "")
				}
				// callers of the linking / finishing primitives
				if callee := cc.StaticCallee(); callee != nil && pkgRel(callee) == "pkg/decode" && callee.Signature.Recv() != nil {
					switch {
					case callee.Name() == "AddChild" && c.isNamed(callee.Signature.Recv().Type(), c.dT),
						callee.Name() == "postProcess" && c.isNamed(callee.Signature.Recv().Type(), c.valueT):
						top := fw.ShortFn(fw.Top(fn))
						key := "call:" + callee.Name() + "|" + top
						ord[key]++
						if ord[key] > 1 {
							key += "#" + c03Itoa(ord[key])
						}
						ru.Check(pkgRel(fn) == "pkg/decode", key, p.Rel(x.Pos()), "linking primitive called inside pkg/decode",
							top+" calls "+callee.Name()+" from outside pkg/decode: values can be linked into a tree without passing the range-recording API")
					}
				}
			case *ssa.IndexAddr:
				fa := c03LoadedField(x.X)
				if fa == nil || !c.isNamed(fa.X.Type(), c.compT) || fieldNameOf(fa.X.Type(), fa.Field) != "Children" {
					return
				}
				if c03AddrWritten(x) {
					check("Compound.Children", fn, "element-store", p.Rel(x.Pos()), nil, "")
				}
			}
		})
	}
}

func c03Itoa(n int) string {
	if n == 0 {
		return "0"
	}
	s := ""
	neg := n < 0
	if neg {
		n = -n
	}
	for n > 0 {
		s = string(rune('0'+n%10)) + s
		n /= 10
	}
	if neg {
		s = "-" + s
	}
	return s
}

// loadedField: v is a load of &X.f ; returns the FieldAddr.
func c03LoadedField(v ssa.Value) *ssa.FieldAddr {
	u, ok := v.(*ssa.UnOp)
	if !ok {
		return nil
	}
	fa, _ := u.X.(*ssa.FieldAddr)
	return fa
}

// escapes: the field address is used for anything but load, store-through and sub-field addressing.
func c03Escapes(a ssa.Value) bool {
	refs := a.Referrers()
	if refs == nil {
		return false
	}
	for _, r := range *refs {
		switch x := r.(type) {
		case *ssa.UnOp, *ssa.DebugRef:
		case *ssa.Store:
			if x.Addr != a {
				return true
			}
		case *ssa.FieldAddr:
			if c03Escapes(x) {
				return true
			}
		default:
			return true
		}
	}
	return false
}
