package rules

// C01 second self-review, part 2:
//
//	C01.bytes     IOReader.Read / IOBitWriter: bits leave the carry buffer in whole bytes, the last partial byte once
//	C01.ioseek    IOReadSeeker: byte position bookkeeping and carry reset on Seek
//	C01.bufstate  Buffer: growth keeps the old bits, Reset clears both cursors, EOF exactly when empty
//	C01.count     BitsByteCount = ceil(nBits/8)
//	C01.copy      CopyBuffer writes what was read, also when it arrives with an error
//	C01.stitch    readFull: positions, counts, placement and advance of every sub-read
//	C01.passthru  progress / ctx read seekers forward Read and Seek unchanged

import (
	"fmt"
	"go/token"
	"go/types"
	"strings"

	"golang.org/x/tools/go/ssa"

	"fqverif/fw"
)

// ---------------------------------------------------------------------------
// C01.bytes

// c01Mult8: v is a multiple of 8 by construction.
func c01Mult8(v ssa.Value, e *fw.SymEnv, seen map[ssa.Value]bool) bool {
	v = c01xStrip(v)
	if seen[v] {
		return true
	}
	seen[v] = true
	switch x := v.(type) {
	case *ssa.Const:
		return x.Value != nil && x.Int64()%8 == 0
	case *ssa.Phi:
		for _, ed := range x.Edges {
			if !c01Mult8(ed, e, seen) {
				return false
			}
		}
		return true
	case *ssa.BinOp:
		switch x.Op {
		case token.MUL:
			return c01Mult8(x.X, e, seen) || c01Mult8(x.Y, e, seen)
		case token.SHL:
			c, ok := x.Y.(*ssa.Const)
			return ok && c.Value != nil && c.Int64() >= 3 || c01Mult8(x.X, e, seen)
		case token.ADD:
			return c01Mult8(x.X, e, seen) && c01Mult8(x.Y, e, seen)
		case token.SUB:
			if c01IsRem8Of(x.Y, x.X, e) {
				return true
			}
			return c01Mult8(x.X, e, seen) && c01Mult8(x.Y, e, seen)
		case token.AND_NOT:
			return c01xIsConst(x.Y, 7)
		}
	case *ssa.Call:
		if fw.IsBuiltinCall(x, "min") || fw.IsBuiltinCall(x, "max") {
			for _, a := range x.Common().Args {
				if !c01Mult8(a, e, seen) {
					return false
				}
			}
			return true
		}
	}
	return false
}

// c01IsRem8Of: r is x%8 (or x&7) for the same x (same value or same canonical descriptor).
func c01IsRem8Of(r, x ssa.Value, e *fw.SymEnv) bool {
	bo, ok := c01xStrip(r).(*ssa.BinOp)
	if !ok {
		return false
	}
	var inner ssa.Value
	switch {
	case bo.Op == token.REM && c01xIsConst(bo.Y, 8):
		inner = bo.X
	case bo.Op == token.AND && c01xIsConst(bo.Y, 7):
		inner = bo.X
	case bo.Op == token.AND && c01xIsConst(bo.X, 7):
		inner = bo.Y
	default:
		return false
	}
	return c01xStrip(inner) == c01xStrip(x) || e.Of(inner) == e.Of(x)
}

// c01IsLenOfBuf: v is (*Buffer).Len(buf) for the buffer rendered as bufDesc.
func c01IsLenOfBuf(v ssa.Value, bufDesc string, e *fw.SymEnv) bool {
	c, ok := c01xStrip(v).(*ssa.Call)
	if !ok || c.Common().StaticCallee() == nil {
		return false
	}
	return fw.ShortName(c.Common().StaticCallee().String()) == "(*pkg/bitio.Buffer).Len" && e.Of(c.Common().Args[0]) == bufDesc
}

// c01IsWholePart: v is L - L%8 with L = Len(buf).
func c01IsWholePart(v ssa.Value, bufDesc string, e *fw.SymEnv) bool {
	bo, ok := c01xStrip(v).(*ssa.BinOp)
	if !ok {
		return false
	}
	if bo.Op == token.SUB && c01IsLenOfBuf(bo.X, bufDesc, e) && c01IsRem8Of(bo.Y, bo.X, e) {
		return true
	}
	if bo.Op == token.AND_NOT && c01IsLenOfBuf(bo.X, bufDesc, e) && c01xIsConst(bo.Y, 7) {
		return true
	}
	return false
}

// c01BoundedByWhole: v never exceeds the whole-byte part of the buffered bits.
func c01BoundedByWhole(v ssa.Value, bufDesc string, e *fw.SymEnv, env *fw.PolyEnv) bool {
	v = c01xStrip(v)
	if c01IsWholePart(v, bufDesc, e) {
		return true
	}
	switch x := v.(type) {
	case *ssa.Call:
		if fw.IsBuiltinCall(x, "min") {
			for _, a := range x.Common().Args {
				if c01IsWholePart(a, bufDesc, e) {
					return true
				}
			}
		}
	case *ssa.Phi:
		var whole ssa.Value
		for _, ed := range x.Edges {
			if c01IsWholePart(ed, bufDesc, e) {
				whole = ed
			}
		}
		if whole == nil {
			return false
		}
		wp := env.Of(whole)
		for i, ed := range x.Edges {
			if c01IsWholePart(ed, bufDesc, e) {
				continue
			}
			pred := x.Block().Preds[i]
			if !fw.ProvesFrom(env.EdgeFacts(pred, x.Block()), fw.Cmp{P: env.Of(ed).Sub(wp), Rel: fw.LE}) {
				return false
			}
		}
		return true
	}
	return false
}

func c01Bytes(r *fw.Run, p *fw.Program) {
	ru := r.Rule("C01.bytes", "byte views over the carry buffer (IOReader.Read, IOBitWriter.WriteBits/Flush): every extraction from the buffer either takes a multiple of 8 bits that does not exceed the whole-byte part Len()-Len()%8 and hands on exactly count/8 bytes, or takes all Len() remaining bits (fewer than 8, more than 0) into one byte and hands on exactly 1 byte; bits keep their order: whatever is handed on was taken out of the buffer, WriteBits puts its input into the buffer, and a write around the buffer happens only when no bits are pending", 15)
	for _, name := range []string{"(*pkg/bitio.IOReader).Read", "(*pkg/bitio.IOBitWriter).WriteBits", "(*pkg/bitio.IOBitWriter).Flush"} {
		fn := getFn(ru, p, name)
		if fn == nil {
			continue
		}
		short := strings.TrimPrefix(strings.Replace(name, "(*pkg/bitio.", "", 1), "")
		short = strings.Replace(short, ")", "", 1)
		e := fw.NewSymEnv(fn)
		env := fw.NewPolyEnv(fn)
		takes := c01xStaticCalls(fn, "(*pkg/bitio.Buffer).ReadBits")
		if len(takes) == 0 {
			ru.Undecided(short+":take", p.Rel(fn.Pos()), "no extraction from the carry buffer found")
			continue
		}
		isReader := strings.Contains(name, "IOReader")
		for i, c := range takes {
			key := fmt.Sprintf("%s:take%d", short, i+1)
			a := c.Common().Args
			bufDesc := e.Of(a[0])
			cnt := a[2]
			rn := extractOf(c, 0)
			rerr := extractOf(c, 1)
			if c01IsLenOfBuf(cnt, bufDesc, e) {
				// final extraction
				small := c01xHasGuard(c.Block(), func(cond ssa.Value, truth bool) bool {
					bo, ok := cond.(*ssa.BinOp)
					if !ok || !c01IsLenOfBuf(bo.X, bufDesc, e) || !c01xIsConst(bo.Y, 8) {
						return false
					}
					switch bo.Op {
					case token.GEQ, token.GTR:
						return !truth
					case token.LSS, token.LEQ:
						return truth
					}
					return false
				})
				oneByteDst := false
				var dstAlloc *ssa.Alloc
				if sl, ok := a[1].(*ssa.Slice); ok {
					if al, ok := sl.X.(*ssa.Alloc); ok {
						dstAlloc = al
						if arr, ok := al.Type().Underlying().(*types.Pointer).Elem().Underlying().(*types.Array); ok && arr.Len() == 1 && sl.Low == nil && sl.High == nil {
							oneByteDst = true
						}
					}
				}
				ru.Check(small || oneByteDst, key+":final:fits", p.Rel(c.Pos()), "remaining bits fit one byte", "all remaining bits are taken as the last byte although more than 8 may be buffered (bits are lost)")
				nonEmpty := c01xHasGuard(c.Block(), func(cond ssa.Value, truth bool) bool {
					bo, ok := cond.(*ssa.BinOp)
					if !ok || !c01IsLenOfBuf(bo.X, bufDesc, e) || !c01xIsConst(bo.Y, 0) {
						return false
					}
					switch bo.Op {
					case token.GTR, token.NEQ:
						return truth
					case token.EQL, token.LEQ:
						return !truth
					}
					return false
				})
				ru.Check(nonEmpty, key+":final:nonempty", p.Rel(c.Pos()), "only when bits remain", "a padded last byte is produced although no bits may remain (an extra zero byte is appended)")
				if isReader {
					n := 0
					for _, ret := range returnsOf(fn) {
						if !precedesOnAllPaths(c, ret) || ret.Results[1] == rerr {
							continue
						}
						n++
						ru.Check(c01xIsConst(ret.Results[0], 1), key+":final:bytes", p.Rel(ret.Pos()), "hands on 1 byte", "after taking the last partial byte Read must report exactly 1 byte")
					}
					if n == 0 {
						ru.Fail(key+":final:bytes", p.Rel(c.Pos()), "no return after the last partial byte")
					}
				} else {
					ok := false
					for _, w := range c01xInvokes(fn, "Write") {
						if !precedesOnAllPaths(c, w) {
							continue
						}
						if sl, isSl := w.Common().Args[0].(*ssa.Slice); isSl && dstAlloc != nil && sl.X == ssa.Value(dstAlloc) && (sl.Low == nil || c01xIsConst(sl.Low, 0)) && (sl.High == nil || c01xIsConst(sl.High, 1)) && oneByteDst {
							ok = true
						}
					}
					ru.Check(ok, key+":final:bytes", p.Rel(c.Pos()), "writes the one padded byte", "after taking the last partial byte exactly that one byte must be written")
				}
				continue
			}
			// whole-byte extraction
			ru.Check(c01Mult8(cnt, e, map[ssa.Value]bool{}), key+":whole:multiple", p.Rel(c.Pos()), "count is a multiple of 8", "bits are taken from the carry buffer with a count that is not a multiple of 8 by construction while only count/8 bytes are handed on: the remainder is lost")
			ru.Check(c01BoundedByWhole(cnt, bufDesc, e, env), key+":whole:bounded", p.Rel(c.Pos()), "count <= Len()-Len()%8", "the count taken from the carry buffer is not bounded by its whole-byte part Len()-Len()%8: the buffer clamps to Len() and a partial byte is cut")
			if rn == nil {
				ru.Fail(key+":whole:bytes", p.Rel(c.Pos()), "the count returned by the buffer is not used")
				continue
			}
			if isReader {
				n := 0
				for _, ret := range returnsOf(fn) {
					if !precedesOnAllPaths(c, ret) {
						continue
					}
					n++
					ru.Check(isDiv8Of(c01xStrip(ret.Results[0]), rn), key+":whole:bytes", p.Rel(ret.Pos()), "hands on count/8 bytes", "Read must report (bits taken)/8 bytes, reports "+env.Of(ret.Results[0]).String())
				}
				if n == 0 {
					ru.Fail(key+":whole:bytes", p.Rel(c.Pos()), "no return after the whole-byte extraction")
				}
			} else {
				ok := false
				var dstAlloc ssa.Value
				if sl, isSl := a[1].(*ssa.Slice); isSl {
					dstAlloc = sl.X
				}
				for _, w := range c01xInvokes(fn, "Write") {
					if !precedesOnAllPaths(c, w) {
						continue
					}
					if sl, isSl := w.Common().Args[0].(*ssa.Slice); isSl && dstAlloc != nil && sl.X == dstAlloc && (sl.Low == nil || c01xIsConst(sl.Low, 0)) && sl.High != nil && isDiv8Of(c01xStrip(sl.High), rn) {
						ok = true
					}
				}
				ru.Check(ok, key+":whole:bytes", p.Rel(c.Pos()), "writes count/8 bytes", "the bytes written must be the first (bits taken)/8 bytes of the buffer the bits were taken into")
			}
		}
	}
	c01BytesOrder(ru, p)
}

// c01BytesOrder: bits keep their order because they pass through the carry buffer. Every byte a byte view hands on
// was taken out of the buffer, and everything IOBitWriter is given goes into the buffer first; a path around the
// buffer (a "fast path" straight to the io.Writer) is only in order when no bits are pending (Len() == 0).
func c01BytesOrder(ru *fw.Rule, p *fw.Program) {
	noPending := func(b *ssa.BasicBlock, e *fw.SymEnv, bufDesc string) bool {
		return c01xHasGuard(b, func(cond ssa.Value, truth bool) bool {
			bo, ok := cond.(*ssa.BinOp)
			if !ok || !c01IsLenOfBuf(bo.X, bufDesc, e) {
				return false
			}
			switch {
			case bo.Op == token.EQL && c01xIsConst(bo.Y, 0), bo.Op == token.LEQ && c01xIsConst(bo.Y, 0), bo.Op == token.LSS && c01xIsConst(bo.Y, 1):
				return truth
			case bo.Op == token.NEQ && c01xIsConst(bo.Y, 0), bo.Op == token.GTR && c01xIsConst(bo.Y, 0), bo.Op == token.GEQ && c01xIsConst(bo.Y, 1):
				return !truth
			}
			return false
		})
	}
	for _, name := range []string{"(*pkg/bitio.IOBitWriter).WriteBits", "(*pkg/bitio.IOBitWriter).Flush"} {
		fn := p.Fn(name)
		if fn == nil || fn.Blocks == nil {
			continue // reported by the caller
		}
		short := strings.Replace(strings.Replace(name, "(*pkg/bitio.", "", 1), ")", "", 1)
		e := fw.NewSymEnv(fn)
		takes := c01xStaticCalls(fn, "(*pkg/bitio.Buffer).ReadBits")
		var direct []*ssa.Call
		for i, w := range c01xInvokes(fn, "Write") {
			key := fmt.Sprintf("%s:write%d:from-carry", short, i+1)
			if e.Of(w.Common().Value) != "P0->w" {
				continue
			}
			fromTake := false
			if sl, ok := w.Common().Args[0].(*ssa.Slice); ok {
				for _, t := range takes {
					if tsl, ok := t.Common().Args[1].(*ssa.Slice); ok && tsl.X == sl.X && e.Of(t.Common().Args[0]) == "&P0->b" && precedesOnAllPaths(t, w) {
						if _, isAlloc := sl.X.(*ssa.Alloc); isAlloc {
							fromTake = true
						}
					}
				}
			}
			if fromTake {
				ru.Ok(key, p.Rel(w.Pos()), "writes bytes taken out of the carry buffer")
				continue
			}
			ok := noPending(w.Block(), e, "&P0->b")
			if ok {
				direct = append(direct, w)
			}
			ru.Check(ok, key, p.Rel(w.Pos()), "direct write only with an empty carry buffer", "bytes are written to the io.Writer without passing through the carry buffer although bits may be pending in it: they overtake the pending bits and the output is reordered")
		}
		if !strings.HasSuffix(name, "WriteBits") {
			continue
		}
		var puts []*ssa.Call
		for _, c := range c01xStaticCalls(fn, "(*pkg/bitio.Buffer).WriteBits") {
			if e.CallDesc(c) == "(*pkg/bitio.Buffer).WriteBits(&P0->b,P1,P2)" {
				puts = append(puts, c)
			}
		}
		n := 0
		for _, ret := range c01xSuccessReturns(fn) {
			n++
			ok := false
			for _, c := range puts {
				if precedesOnAllPaths(c, ret) {
					ok = true
				}
			}
			for _, w := range direct {
				if precedesOnAllPaths(w, ret) {
					ok = true
				}
			}
			ru.Check(ok, fmt.Sprintf("%s:return%d:buffered", short, n), p.Rel(ret.Pos()), "the given bits entered the carry buffer", "WriteBits reports success on a path where the nBits bits of p were neither put into the carry buffer nor written with an empty carry")
		}
	}
	if fn := p.Fn("(*pkg/bitio.IOReader).Read"); fn != nil && fn.Blocks != nil {
		takes := c01xStaticCalls(fn, "(*pkg/bitio.Buffer).ReadBits")
		n := 0
		for _, ret := range returnsOf(fn) {
			if len(ret.Results) != 2 || c01xIsConst(ret.Results[0], 0) {
				continue
			}
			n++
			ok := false
			for _, t := range takes {
				if precedesOnAllPaths(t, ret) {
					ok = true
				}
			}
			ru.Check(ok, fmt.Sprintf("IOReader.Read:return%d:from-carry", n), p.Rel(ret.Pos()), "bytes handed on were taken out of the carry buffer", "Read reports bytes on a path that does not take them out of the carry buffer (bits already buffered would be overtaken)")
		}
	}
}

// ---------------------------------------------------------------------------
// C01.ioseek

func c01IOSeek(r *fw.Run, p *fw.Program) {
	ru := r.Rule("C01.ioseek", "IOReadSeeker: Read forwards to IOReader.Read and advances the byte position sPos by the bytes returned; Seek forgets the sticky read error, and when the new bit position differs from 8*sPos + buffered bits it discards the carry buffer and sets sPos; SeekCurrent is resolved against the byte position (buffered bits subtracted); every inherited reading method advances sPos", 8)
	if fn := getFn(ru, p, "(*pkg/bitio.IOReadSeeker).Read"); fn != nil && fw.AliasParams(fn, "r", "p") {
		env := fw.NewPolyEnv(fn)
		e := fw.NewSymEnv(fn)
		cs := c01xStaticCalls(fn, "(*pkg/bitio.IOReader).Read")
		if len(cs) != 1 {
			ru.Undecided("Read:forward", p.Rel(fn.Pos()), "expected one IOReader.Read call")
		} else {
			c := cs[0]
			ru.Check(e.CallDesc(c) == "(*pkg/bitio.IOReader).Read(&P0->IOReader,P1)", "Read:forward", p.Rel(c.Pos()), "IOReader.Read(p)", "Read must forward p to the embedded IOReader: "+e.CallDesc(c))
			n := extractOf(c, 0)
			sts := storesTo(fn, "r.sPos")
			okAdv := len(sts) == 1 && n != nil && env.Of(sts[0].Val).Equal(fw.PAtom("r.sPos").Add(env.Of(n)))
			ru.Check(okAdv, "Read:advance", p.Rel(c.Pos()), "sPos += bytes returned", "the byte position sPos must advance by exactly the bytes IOReader.Read returned (Seek compares against it to decide whether buffered bits are still valid)")
			for _, ret := range returnsOf(fn) {
				ru.Check(ret.Results[0] == n && ret.Results[1] == extractOf(c, 1), "Read:return", p.Rel(ret.Pos()), "returns IOReader.Read's result", "Read must return the count and error of IOReader.Read unchanged")
			}
		}
	}
	// sPos must count every byte handed out: a method IOReadSeeker inherits from the embedded IOReader that reads
	// through (*IOReader).Read (ReadByte, which flate uses) bypasses IOReadSeeker.Read and leaves sPos stale, and Seek
	// decides from sPos whether the buffered bits are still valid. Such a method must be overridden on IOReadSeeker
	// by one that goes through IOReadSeeker.Read (or advances sPos itself).
	for _, f := range p.FqFunctions() {
		if f.Signature.Recv() == nil || f.Name() == "Read" || fw.ShortName(f.Signature.Recv().Type().String()) != "*pkg/bitio.IOReader" {
			continue
		}
		if len(c01xStaticCalls(f, "(*pkg/bitio.IOReader).Read")) == 0 {
			continue
		}
		key := "sPos:" + f.Name()
		ov := p.Fn("(*pkg/bitio.IOReadSeeker)." + f.Name())
		ok := false
		if ov != nil && ov.Blocks != nil && ov.Synthetic == "" {
			ok = len(c01xStaticCalls(ov, "(*pkg/bitio.IOReadSeeker).Read")) > 0
			fw.EachInstr(ov, func(ins ssa.Instruction) {
				if st, isSt := ins.(*ssa.Store); isSt && len(ov.Params) > 0 && c01xFieldAddrIs(st.Addr, ov.Params[0], "sPos") {
					ok = true
				}
			})
		}
		ru.Check(ok, key, p.Rel(f.Pos()), "overridden so that sPos advances", "IOReadSeeker inherits IOReader."+f.Name()+", which reads through (*IOReader).Read and does not advance sPos: after it Seek compares the new position with a stale 8*sPos+buffered bits and can keep carry bits that no longer belong to the position (they are replayed in front of the data)")
	}
	if fn := c01Fn(ru, p, "(*pkg/bitio.IOReadSeeker).Seek"); fn != nil {
		env := fw.NewPolyEnv(fn)
		e := fw.NewSymEnv(fn)
		recv := fn.Params[0]
		// sticky error forgotten
		okErr := false
		fw.EachInstr(fn, func(ins ssa.Instruction) {
			if st, ok := ins.(*ssa.Store); ok && c01xFieldAddrIs(st.Addr, recv, "IOReader.rErr") {
				if c, ok := st.Val.(*ssa.Const); ok && c.IsNil() {
					all := true
					for _, ret := range returnsOf(fn) {
						if !precedesOnAllPaths(st, ret) {
							all = false
						}
					}
					okErr = all
				}
			}
		})
		ru.Check(okErr, "Seek:forget-error", p.Rel(fn.Pos()), "rErr = nil on every path", "Seek must clear the sticky read error on every path (otherwise reads after seeking back from the end keep returning EOF)")
		calls := methodCalls(fn, "SeekBits")
		var lenCall *ssa.Call
		for _, c := range c01xStaticCalls(fn, "(*pkg/bitio.Buffer).Len") {
			if e.Of(c.Common().Args[0]) == "&P0->IOReader.b" {
				lenCall = c
			}
		}
		if len(calls) != 1 || lenCall == nil {
			ru.Fail("Seek:changed-test", p.Rel(fn.Pos()), "the new position is not compared with 8*sPos + the buffered bits (no SeekBits call or no Len() of the carry buffer)")
			return
		}
		// SeekCurrent is relative to the logical byte position sPos. The wrapped bit reader is ahead of it by the bits
		// buffered in the carry, so the relative seek must not be forwarded as it is: either it is resolved to
		// SeekStart of 8*(sPos+offset), or the buffered bits are subtracted from the relative bit offset.
		{
			a := callArgs(calls[0])
			okCur := false
			wArms, _ := phiArmsByConst(env, a[1], "whence")
			inner := c01StripMul8(a[0])
			oArms, _ := phiArmsByConst(env, inner, "whence")
			scale := int64(1)
			if inner != a[0] {
				scale = 8
			}
			if o, ok := oArms[1]; ok {
				o = o.MulC(scale)
				if w, ok := wArms[1]; ok {
					if c0, isC := w.IsConst(); isC && c0 == 0 && o.Equal(fw.ParsePoly("8*offset + 8*r.sPos")) {
						okCur = true
					}
				}
				if o.Equal(fw.ParsePoly("8*offset").Sub(env.Of(lenCall))) {
					if w, ok := wArms[1]; !ok && env.Of(a[1]).Equal(fw.PAtom("whence")) || ok && (w.Equal(fw.PAtom("whence")) || w.Equal(fw.PConst(1))) {
						okCur = true
					}
				}
			}
			ru.Check(okCur, "Seek:current", p.Rel(calls[0].Pos()), "SeekCurrent resolved against sPos", "Seek(offset, io.SeekCurrent) is forwarded to the wrapped bit reader, whose position is ahead of the byte position by the bits buffered in the carry: after reads that left k buffered bits the seek lands k bits too far and the following bytes are returned unshifted from the wrong place")
		}
		n := env.Of(extractOrSelf(calls[0], 0))
		want := n.Sub(fw.PAtom("r.sPos").MulC(8)).Sub(env.Of(lenCall))
		var test *ssa.If
		changedTruth := true
		fw.EachInstr(fn, func(ins ssa.Instruction) {
			ifi, ok := ins.(*ssa.If)
			if !ok {
				return
			}
			cmp, ok := env.CmpOf(ifi.Cond)
			if !ok || !(cmp.P.Equal(want) || cmp.P.Equal(want.Neg())) {
				return
			}
			switch cmp.Rel {
			case fw.NE:
				test, changedTruth = ifi, true
			case fw.EQ:
				test, changedTruth = ifi, false
			}
		})
		if test == nil {
			ru.Fail("Seek:changed-test", p.Rel(fn.Pos()), "no test new bit position != 8*sPos + buffered bits: the wrapped reader is ahead of sPos by the buffered bits, they may only be kept when the position did not change")
			return
		}
		ru.Ok("Seek:changed-test", p.Rel(test.Pos()), "n != 8*sPos + Len()")
		underChanged := func(b *ssa.BasicBlock) bool {
			return c01xHasGuard(b, func(cond ssa.Value, truth bool) bool { return cond == test.Cond && truth == changedTruth })
		}
		okReset := false
		for _, c := range c01xStaticCalls(fn, "(*pkg/bitio.Buffer).Reset") {
			if e.Of(c.Common().Args[0]) == "&P0->IOReader.b" && underChanged(c.Block()) {
				okReset = true
			}
		}
		ru.Check(okReset, "Seek:discard", p.Rel(test.Pos()), "carry buffer reset when the position changed", "when the position changed the carry buffer must be discarded (stale bits would be replayed)")
		okPos := false
		for _, st := range storesTo(fn, "r.sPos") {
			if underChanged(st.Block()) {
				okPos = true
			}
		}
		ru.Check(okPos, "Seek:position", p.Rel(test.Pos()), "sPos updated when the position changed", "when the position changed sPos must be set to the new byte position")
	}
}

// ---------------------------------------------------------------------------
// C01.bufstate

func c01BufState(r *fw.Run, p *fw.Program) {
	ru := r.Rule("C01.bufstate", "bitio.Buffer storage: WriteBits makes room for BitsByteCount(bufBits+nBits) bytes before copying and a reallocation copies the old bytes; Reset zeroes both cursors; ReadBits copies only when bits remain (bufBits > bitsOff) and answers EOF otherwise; Bits allocates BitsByteCount(Len()) bytes", 8)
	if fn := getFn(ru, p, "(*pkg/bitio.Buffer).WriteBits"); fn != nil && fw.AliasParams(fn, "b", "p", "nBits") {
		env := fw.NewPolyEnv(fn)
		env.Pure["bitio.BitsByteCount"] = true
		recv := fn.Params[0]
		var need *fw.Poly
		for _, c := range c01xStaticCalls(fn, "pkg/bitio.BitsByteCount") {
			if env.Of(c.Common().Args[0]).Equal(fw.ParsePoly("b.bufBits + nBits")) {
				need = env.Of(c)
			}
		}
		if need == nil {
			ru.Fail("WriteBits:need", p.Rel(fn.Pos()), "the byte size needed is not computed as BitsByteCount(bufBits + nBits)")
		} else {
			ru.Ok("WriteBits:need", p.Rel(fn.Pos()), "need = BitsByteCount(bufBits+nBits)")
			var grow *ssa.If
			fw.EachInstr(fn, func(ins ssa.Instruction) {
				if ifi, ok := ins.(*ssa.If); ok {
					if cmp, ok := env.CmpOf(ifi.Cond); ok && cmp.Rel == fw.GT && cmp.P.Equal(need.Sub(fw.PAtom("len(b.buf)"))) {
						grow = ifi
					}
				}
			})
			ru.Check(grow != nil, "WriteBits:grow-test", p.Rel(fn.Pos()), "grows when need > len(buf)", "no test need > len(b.buf) before copying into the buffer")
			n := 0
			fw.EachInstr(fn, func(ins ssa.Instruction) {
				st, ok := ins.(*ssa.Store)
				if !ok || !c01xFieldAddrIs(st.Addr, recv, "buf") {
					return
				}
				n++
				key := fmt.Sprintf("WriteBits:grow%d", n)
				under := grow != nil && c01xHasGuard(st.Block(), func(cond ssa.Value, truth bool) bool { return cond == grow.Cond && truth })
				switch x := st.Val.(type) {
				case *ssa.Slice:
					ok := under && c01xLoadOfField(x.X, recv, "buf") && x.Low == nil && x.High != nil && env.Of(x.High).Equal(need)
					ru.Check(ok, key, p.Rel(st.Pos()), "reslice to need", "the buffer is resliced to "+fmt.Sprint(env.Of(x.High))+", must be b.buf[:need] under need > len")
				case *ssa.MakeSlice:
					okLen := under && env.Of(x.Len).Equal(need)
					copied := false
					for _, c := range fw.CallsIn(fn) {
						if cc, isC := c.(*ssa.Call); isC && fw.IsBuiltinCall(c, "copy") && cc.Block() == st.Block() && instrIndex(cc) < instrIndex(st) &&
							cc.Common().Args[0] == ssa.Value(x) && c01xLoadOfField(cc.Common().Args[1], recv, "buf") {
							copied = true
						}
					}
					ru.Check(okLen && copied, key, p.Rel(st.Pos()), "reallocate need bytes and keep the old ones", "a reallocated buffer must have need bytes and the old bytes must be copied into it before it replaces b.buf (earlier bits would be lost)")
				default:
					ru.Fail(key, p.Rel(st.Pos()), "b.buf is replaced by something that is neither a reslice nor a reallocation")
				}
			})
			if n == 0 {
				ru.Fail("WriteBits:grow", p.Rel(fn.Pos()), "the buffer never grows")
			}
		}
	}
	if fn := getFn(ru, p, "(*pkg/bitio.Buffer).Reset"); fn != nil {
		recv := fn.Params[0]
		z := map[string]bool{}
		fw.EachInstr(fn, func(ins ssa.Instruction) {
			if st, ok := ins.(*ssa.Store); ok && c01xIsConst(st.Val, 0) && st.Block() == fn.Blocks[0] {
				for _, f := range []string{"bufBits", "bitsOff"} {
					if c01xFieldAddrIs(st.Addr, recv, f) {
						z[f] = true
					}
				}
			}
		})
		ru.Check(z["bufBits"] && z["bitsOff"], "Reset:both", p.Rel(fn.Pos()), "bufBits = bitsOff = 0", "Reset must zero both the write cursor bufBits and the read cursor bitsOff (Len() would go negative / stale bits reappear)")
	}
	if fn := getFn(ru, p, "(*pkg/bitio.Buffer).ReadBits"); fn != nil && fw.AliasParams(fn, "b", "p", "nBits") {
		env := fw.NewPolyEnv(fn)
		cs := c01xStaticCalls(fn, "pkg/bitio.copyBufBits")
		lenP := fw.ParsePoly("b.bufBits - b.bitsOff")
		nonEmptyAt := func(b *ssa.BasicBlock, want fw.Cmp) bool {
			if env.ProvesNV(b, want) {
				return true
			}
			for _, g := range fw.Guards(b) {
				g = g.Normalize()
				c, ok := g.Cond.(*ssa.Call)
				if !ok || c.Common().StaticCallee() == nil || len(c.Common().Args) != 1 || c.Common().Args[0] != ssa.Value(fn.Params[0]) {
					continue
				}
				cal := c.Common().StaticCallee()
				if len(cal.Blocks) != 1 || len(cal.Params) != 1 || !fw.AliasParams(cal, "b") {
					continue
				}
				rets := returnsOf(cal)
				if len(rets) != 1 || len(rets[0].Results) != 1 {
					continue
				}
				cmp, ok := fw.NewPolyEnv(cal).CmpOf(rets[0].Results[0])
				if !ok {
					continue
				}
				if !g.True {
					cmp.Rel = cmp.Rel.Negate()
				}
				cmp.P = fw.StripVersions(cmp.P)
				if cmp.Implies(want) {
					return true
				}
			}
			return false
		}
		if len(cs) == 1 {
			ru.Check(nonEmptyAt(cs[0].Block(), fw.Cmp{P: lenP, Rel: fw.GT}), "ReadBits:nonempty", p.Rel(cs[0].Pos()), "copies only when bufBits > bitsOff", "bits are copied out although the buffer may be empty: an empty buffer must answer EOF (a reader polling it would never terminate)")
		} else {
			ru.Undecided("ReadBits:nonempty", p.Rel(fn.Pos()), "expected one copyBufBits call")
		}
		okEOF := false
		for _, ret := range returnsOf(fn) {
			if u, ok := ret.Results[1].(*ssa.UnOp); ok {
				if g, ok := u.X.(*ssa.Global); ok && g.Name() == "EOF" && c01xIsConst(ret.Results[0], 0) && nonEmptyAt(ret.Block(), fw.Cmp{P: lenP, Rel: fw.LE}) {
					okEOF = true
				}
			}
		}
		ru.Check(okEOF, "ReadBits:eof", p.Rel(fn.Pos()), "(0, EOF) when empty", "an empty buffer (bufBits <= bitsOff) must answer (0, io.EOF) to a non-empty request")
	}
	if fn := getFn(ru, p, "(*pkg/bitio.Buffer).Bits"); fn != nil && fw.AliasParams(fn, "b") {
		env := fw.NewPolyEnv(fn)
		env.Pure["bitio.BitsByteCount"] = true
		ok := false
		fw.EachInstr(fn, func(ins ssa.Instruction) {
			if mk, isMk := ins.(*ssa.MakeSlice); isMk {
				if c, isC := c01xStrip(mk.Len).(*ssa.Call); isC && c.Common().StaticCallee() != nil && fw.ShortName(c.Common().StaticCallee().String()) == "pkg/bitio.BitsByteCount" {
					ok = fw.StripVersions(env.Of(c.Common().Args[0])).Equal(fw.ParsePoly("b.bufBits - b.bitsOff"))
				}
			}
		})
		ru.Check(ok, "Bits:alloc", p.Rel(fn.Pos()), "BitsByteCount(Len()) bytes", "Bits() must allocate BitsByteCount(Len()) bytes for the unread bits")
	}
}

// ---------------------------------------------------------------------------
// C01.count

func c01Count(r *fw.Run, p *fw.Program) {
	ru := r.Rule("C01.count", "bitio.BitsByteCount(nBits) is the smallest byte count holding nBits bits: nBits/8, plus one exactly when nBits%8 != 0 (or (nBits+7)/8)", 1)
	fn := getFn(ru, p, "pkg/bitio.BitsByteCount")
	if fn == nil || !fw.AliasParams(fn, "nBits") {
		return
	}
	env := fw.NewPolyEnv(fn)
	rets := returnsOf(fn)
	q := []string{"(nBits / 8)", "(nBits >> 3)"}
	isQ := func(pl *fw.Poly) bool {
		for _, s := range q {
			if pl.Equal(fw.PAtom(s)) {
				return true
			}
		}
		return false
	}
	remNZ := func(facts []fw.Cmp, nz bool) bool {
		for _, f := range facts {
			for _, a := range []string{"(nBits % 8)", "(7 & nBits)"} {
				if !f.P.Equal(fw.PAtom(a)) && !f.P.Equal(fw.PAtom(a).Neg()) {
					continue
				}
				if nz && (f.Rel == fw.NE || f.Rel == fw.GT && f.P.Equal(fw.PAtom(a)) || f.Rel == fw.LT && f.P.Equal(fw.PAtom(a).Neg())) {
					return true
				}
				// nBits%8 <= 0 is "== 0" for the non-negative counts the function is defined for
				if !nz && (f.Rel == fw.EQ || f.Rel == fw.LE && f.P.Equal(fw.PAtom(a)) || f.Rel == fw.GE && f.P.Equal(fw.PAtom(a).Neg())) {
					return true
				}
			}
		}
		return false
	}
	msg := ""
	for _, ret := range rets {
		v := ret.Results[0]
		pl := env.Of(v)
		sum := fw.PAtom("nBits").Add(fw.PConst(7)).String()
		if pl.Equal(fw.PAtom("("+sum+" / 8)")) || pl.Equal(fw.PAtom("("+sum+" >> 3)")) {
			continue
		}
		ph, ok := v.(*ssa.Phi)
		if !ok {
			if isQ(pl) {
				if !remNZ(env.Facts(ret.Block()), false) {
					msg = "returns nBits/8 although nBits%8 may be non-zero"
				}
			} else if isQ(pl.Sub(fw.PConst(1))) {
				if !remNZ(env.Facts(ret.Block()), true) {
					msg = "returns nBits/8+1 although nBits%8 may be zero"
				}
			} else {
				msg = "returns " + pl.String()
			}
			continue
		}
		for i, ed := range ph.Edges {
			ep := env.Of(ed)
			facts := env.EdgeFacts(ph.Block().Preds[i], ph.Block())
			switch {
			case isQ(ep):
				if !remNZ(facts, false) {
					msg = "nBits/8 is returned although nBits%8 may be non-zero (the last partial byte is not counted)"
				}
			case isQ(ep.Sub(fw.PConst(1))):
				if !remNZ(facts, true) {
					msg = "nBits/8+1 is returned although nBits%8 may be zero"
				}
			default:
				msg = "returns " + ep.String()
			}
		}
	}
	if len(rets) == 0 {
		msg = "no return"
	}
	ru.Check(msg == "", "BitsByteCount", p.Rel(fn.Pos()), "ceil(nBits/8)", "BitsByteCount: "+msg+"; every buffer size and zero fill in the bit plumbing depends on it")
}

// ---------------------------------------------------------------------------
// C01.copy

func c01Copy(r *fw.Run, p *fw.Program) {
	ru := r.Rule("C01.copy", "bitio.CopyBuffer asks the source for 8*len(buf) bits into buf, writes exactly the returned count from the same buf, does so before looking at the read error (bits delivered together with EOF are copied), and adds the written counts up", 4)
	fn := getFn(ru, p, "pkg/bitio.CopyBuffer")
	if fn == nil {
		return
	}
	rds, wrs := c01xInvokes(fn, "ReadBits"), c01xInvokes(fn, "WriteBits")
	if len(rds) != 1 || len(wrs) != 1 {
		ru.Undecided("shape", p.Rel(fn.Pos()), "expected one src.ReadBits and one dst.WriteBits")
		return
	}
	rd, wr := rds[0], wrs[0]
	ra, wa := rd.Common().Args, wr.Common().Args
	okReq := false
	if bo, ok := c01xStrip(ra[1]).(*ssa.BinOp); ok && bo.Op == token.MUL {
		for _, pr := range [][2]ssa.Value{{bo.X, bo.Y}, {bo.Y, bo.X}} {
			if l, isLen := c01xLenOf(pr[0]); isLen && l == ra[0] && c01xIsConst(pr[1], 8) {
				okReq = true
			}
		}
	}
	ru.Check(okReq && rd.Common().Value == ssa.Value(fn.Params[1]), "read", p.Rel(rd.Pos()), "src.ReadBits(buf, 8*len(buf))", "the source must be asked for 8*len(buf) bits into buf")
	rn, rerr := extractOf(rd, 0), extractOf(rd, 1)
	ru.Check(wr.Common().Value == ssa.Value(fn.Params[0]) && wa[0] == ra[0] && rn != nil && wa[1] == rn, "write", p.Rel(wr.Pos()), "dst.WriteBits(buf, bits read)", "exactly the bits the source returned must be written from the same buffer")
	dep := false
	for _, g := range fw.Guards(wr.Block()) {
		srcs := map[ssa.Value]bool{}
		valueSources(g.Cond, srcs, 0)
		if rerr != nil && srcs[rerr] {
			dep = true
		}
	}
	ru.Check(!dep, "write-before-error", p.Rel(wr.Pos()), "written whatever the read error", "the bits returned by the source are only written when its error is nil: bits delivered together with io.EOF are dropped")
	wn := extractOf(wr, 0)
	okSum := false
	fw.EachInstr(fn, func(ins ssa.Instruction) {
		bo, ok := ins.(*ssa.BinOp)
		if !ok || bo.Op != token.ADD || wn == nil {
			return
		}
		var other ssa.Value
		if bo.X == wn {
			other = bo.Y
		} else if bo.Y == wn {
			other = bo.X
		} else {
			return
		}
		if _, isPhi := other.(*ssa.Phi); !isPhi {
			return
		}
		for _, ret := range returnsOf(fn) {
			srcs := map[ssa.Value]bool{}
			valueSources(ret.Results[0], srcs, 0)
			if srcs[ssa.Value(bo)] || ret.Results[0] == ssa.Value(bo) {
				okSum = true
			}
		}
	})
	ru.Check(okSum, "total", p.Rel(fn.Pos()), "returns the sum of the written counts", "the returned total must accumulate the counts WriteBits reported")
}

// ---------------------------------------------------------------------------
// C01.stitch

func c01Stitch(r *fw.Run, p *fw.Program) {
	ru := r.Rule("C01.stitch", "bitio.readFull: with R the bits read so far (0 at start), every sub-read asks the reader at bitOff+R; a direct read goes to p[R/8:] with count nBits-R only when R is byte aligned; a partial read goes through a one byte scratch with a count <= nBits-R and its rBits result bits are placed with Write64(scratch>>(8-rBits), rBits, p, R); R advances by exactly the count each sub-read returned; an error returns (R+rBits, err), completion (nBits, nil); ReadAtFull/ReadFull hand the reader's ReadBitsAt/ReadBits through unchanged (ReadFull from offset 0)", 14)
	fn := getFn(ru, p, "pkg/bitio.readFull")
	if fn == nil || !fw.AliasParams(fn, "p", "nBits", "bitOff", "fn") {
		if fn != nil {
			ru.Undecided("anchor:signature", p.Rel(fn.Pos()), "readFull's parameter list changed")
		}
		return
	}
	env := fw.NewPolyEnv(fn)
	pPar, fPar := fn.Params[0], fn.Params[3]
	_ = env
	// R: loop phi with a 0 edge compared against nBits
	var R *ssa.Phi
	fw.EachInstr(fn, func(ins ssa.Instruction) {
		ph, ok := ins.(*ssa.Phi)
		if !ok || !isIntT(ph.Type()) {
			return
		}
		z := false
		for _, ed := range ph.Edges {
			if c01xIsConst(ed, 0) {
				z = true
			}
		}
		if !z {
			return
		}
		for _, ref := range *ph.Referrers() {
			if bo, ok := ref.(*ssa.BinOp); ok && (bo.Op == token.LSS && bo.X == ssa.Value(ph) && bo.Y == ssa.Value(fn.Params[1]) || bo.Op == token.GTR && bo.Y == ssa.Value(ph) && bo.X == ssa.Value(fn.Params[1])) {
				R = ph
			}
		}
	})
	if R == nil {
		ru.Undecided("progress", p.Rel(fn.Pos()), "no running count R (0 at start, loop while R < nBits) found")
		return
	}
	// R is named symbolically (the framework would otherwise render a loop phi differently inside and outside its own cycle)
	env.Subst = map[ssa.Value]*fw.Poly{R: fw.PAtom("R")}
	rP := fw.PAtom("R")
	var calls []*ssa.Call
	fw.EachInstr(fn, func(ins ssa.Instruction) {
		if c, ok := ins.(*ssa.Call); ok && c.Common().Value == ssa.Value(fPar) {
			calls = append(calls, c)
		}
	})
	if len(calls) == 0 {
		ru.Undecided("reads", p.Rel(fn.Pos()), "the reader function is never called")
		return
	}
	wantEdges := map[ssa.Value]bool{}
	nd, np := 0, 0
	for _, c := range calls {
		a := c.Common().Args
		rb := extractOf(c, 0)
		rerr := extractOf(c, 1)
		kind := ""
		var scratch *ssa.Alloc
		if sl, ok := a[0].(*ssa.Slice); ok {
			if sl.X == ssa.Value(pPar) {
				kind = "direct"
			} else if al, ok := sl.X.(*ssa.Alloc); ok {
				if arr, ok := al.Type().Underlying().(*types.Pointer).Elem().Underlying().(*types.Array); ok && arr.Len() == 1 && sl.Low == nil && sl.High == nil {
					kind, scratch = "partial", al
				}
			}
		}
		var key string
		switch kind {
		case "direct":
			nd++
			key = fmt.Sprintf("direct%d", nd)
		case "partial":
			np++
			key = fmt.Sprintf("partial%d", np)
		default:
			ru.Fail("reads:destination", p.Rel(c.Pos()), "a sub-read goes neither into p[R/8:] nor into a one byte scratch")
			continue
		}
		ru.Check(env.Of(a[2]).Equal(fw.PAtom("bitOff").Add(rP)), key+":offset", p.Rel(c.Pos()), "reads at bitOff+R", "sub-read at "+env.Of(a[2]).String()+", must be at bitOff + bits read so far")
		if rb == nil {
			ru.Fail(key+":advance", p.Rel(c.Pos()), "the count returned by the sub-read is not used")
			continue
		}
		// advance
		var adv ssa.Value
		for _, ed := range R.Edges {
			if bo, ok := ed.(*ssa.BinOp); ok && bo.Op == token.ADD && (bo.X == ssa.Value(R) && bo.Y == rb || bo.Y == ssa.Value(R) && bo.X == rb) {
				adv = ed
				wantEdges[ed] = true
			}
		}
		ru.Check(adv != nil, key+":advance", p.Rel(c.Pos()), "R += bits returned", "after a sub-read the running count must advance by exactly the bits it returned")
		// error return
		okErr := false
		for _, ret := range returnsOf(fn) {
			if len(ret.Results) == 2 && ret.Results[1] == rerr && rerr != nil {
				okErr = env.Of(ret.Results[0]).Equal(rP.Add(env.Of(rb)))
			}
		}
		ru.Check(okErr, key+":error", p.Rel(c.Pos()), "(R + bits returned, err)", "when a sub-read fails readFull must return its error together with the number of bits read so far including that sub-read")
		if kind == "direct" {
			sl := a[0].(*ssa.Slice)
			lowOK := sl.High == nil && sl.Low != nil && (env.Of(sl.Low).Equal(fw.PAtom("("+rP.String()+" / 8)")) || env.Of(sl.Low).Equal(fw.PAtom("("+rP.String()+" >> 3)")))
			ru.Check(lowOK, key+":destination", p.Rel(c.Pos()), "into p[R/8:]", "a direct sub-read must write at byte R/8 of p")
			ru.Check(env.Of(a[1]).Equal(fw.PAtom("nBits").Sub(rP)), key+":count", p.Rel(c.Pos()), "asks for nBits-R", "a direct sub-read asks for "+env.Of(a[1]).String()+" bits, must ask for the nBits - R still wanted")
			aligned := c01xHasGuard(c.Block(), func(cond ssa.Value, truth bool) bool {
				bo, ok := cond.(*ssa.BinOp)
				if !ok || !c01xIsConst(bo.Y, 0) || !(bo.Op == token.NEQ && !truth || bo.Op == token.EQL && truth || bo.Op == token.GTR && !truth) {
					return false
				}
				return c01IsAlignRem(bo.X, R)
			})
			ru.Check(aligned, key+":aligned", p.Rel(c.Pos()), "only when R%8 == 0", "a direct sub-read into p[R/8:] is reachable with R not byte aligned: the bits already in that byte would be overwritten")
			continue
		}
		// partial: count bounded by what is still wanted
		left := fw.PAtom("nBits").Sub(rP)
		okCnt := false
		if ph, ok := a[1].(*ssa.Phi); ok {
			okCnt = true
			for i, ed := range ph.Edges {
				ep := env.Of(ed)
				if ep.Equal(left) {
					continue
				}
				if !fw.ProvesFrom(env.EdgeFacts(ph.Block().Preds[i], ph.Block()), fw.Cmp{P: ep.Sub(left), Rel: fw.LE}) {
					okCnt = false
				}
			}
		} else {
			ep := env.Of(a[1])
			okCnt = ep.Equal(left) || env.Proves(c.Block(), fw.Cmp{P: ep.Sub(left), Rel: fw.LE})
			if cc, ok := c01xStrip(a[1]).(*ssa.Call); ok && fw.IsBuiltinCall(cc, "min") {
				for _, x := range cc.Common().Args {
					if env.Of(x).Equal(left) {
						okCnt = true
					}
				}
			}
		}
		ru.Check(okCnt, key+":count", p.Rel(c.Pos()), "asks for at most nBits-R", "a partial sub-read may ask for more bits than are still wanted (bits beyond the request are consumed / written past the end of p)")
		// placement
		okPlace := false
		for _, w := range c01xStaticCalls(fn, "pkg/bitio.Write64") {
			wa := w.Common().Args
			if !precedesOnAllPaths(c, w) || wa[1] != rb || wa[2] != ssa.Value(pPar) || !env.Of(wa[3]).Equal(rP) {
				continue
			}
			sh, ok := c01xStrip(wa[0]).(*ssa.BinOp)
			if !ok || sh.Op != token.SHR {
				continue
			}
			cnt, ok := c01xStrip(sh.Y).(*ssa.BinOp)
			if !ok || cnt.Op != token.SUB || !c01xIsConst(cnt.X, 8) || c01xStrip(cnt.Y) != rb {
				continue
			}
			if u, ok := sh.X.(*ssa.UnOp); ok && u.Op == token.MUL {
				if ia, ok := u.X.(*ssa.IndexAddr); ok && ia.X == ssa.Value(scratch) && c01xIsConst(ia.Index, 0) {
					okPlace = true
				}
			}
		}
		ru.Check(okPlace, key+":place", p.Rel(c.Pos()), "Write64(scratch>>(8-rBits), rBits, p, R)", "the bits of a partial sub-read must be placed with Write64(uint64(scratch[0]>>(8-rBits)), rBits, p, R)")
	}
	// R's edges are exactly 0 and the advances
	okEdges := true
	for _, ed := range R.Edges {
		if !c01xIsConst(ed, 0) && !wantEdges[ed] {
			okEdges = false
		}
	}
	ru.Check(okEdges, "progress", p.Rel(R.Pos()), "R changes only by sub-read results", "the running count is changed by something other than the count a sub-read returned")
	okDone := false
	for _, ret := range c01xSuccessReturns(fn) {
		if ret.Results[0] == ssa.Value(fn.Params[1]) && env.Proves(ret.Block(), fw.Cmp{P: rP.Sub(fw.PAtom("nBits")), Rel: fw.GE}) {
			okDone = true
		} else {
			okDone = false
			break
		}
	}
	ru.Check(okDone, "done", p.Rel(fn.Pos()), "(nBits, nil) once R >= nBits", "success must be reported as (nBits, nil) and only once all nBits were read")

	// wrappers
	for _, w := range []struct {
		name, args3, inner string
	}{
		{"pkg/bitio.ReadAtFull", "P3", "invoke.ReadBitsAt(*FV0,P0,P1,P2)"},
		{"pkg/bitio.ReadFull", "0", "invoke.ReadBits(*FV0,P0,P1)"},
	} {
		f := getFn(ru, p, w.name)
		if f == nil {
			continue
		}
		e := fw.NewSymEnv(f)
		cs := c01xStaticCalls(f, "pkg/bitio.readFull")
		if len(cs) != 1 {
			ru.Undecided(w.name+":call", p.Rel(f.Pos()), "expected one readFull call")
			continue
		}
		a := cs[0].Common().Args
		ok := e.Of(a[0]) == "P1" && e.Of(a[1]) == "P2" && e.Of(a[2]) == w.args3
		mc, isMC := a[3].(*ssa.MakeClosure)
		inner := ""
		if isMC && len(mc.Bindings) == 1 {
			cf := mc.Fn.(*ssa.Function)
			ce := fw.NewSymEnv(cf)
			for _, ret := range returnsOf(cf) {
				if len(ret.Results) == 2 {
					inner = ce.Of(ret.Results[0]) + " " + ce.Of(ret.Results[1])
				}
			}
			// the captured cell holds parameter r
			if al, isAl := mc.Bindings[0].(*ssa.Alloc); isAl {
				capOK := false
				for _, ref := range *al.Referrers() {
					if st, isSt := ref.(*ssa.Store); isSt && st.Addr == ssa.Value(al) && st.Val == ssa.Value(f.Params[0]) {
						capOK = true
					}
				}
				ok = ok && capOK
			} else {
				ok = false
			}
		} else {
			ok = false
		}
		ok = ok && inner == w.inner+"#0 "+w.inner+"#1"
		okRet := false
		for _, ret := range returnsOf(f) {
			okRet = len(ret.Results) == 2 && e.Of(ret.Results[0]) == e.Of(cs[0])+"#0" && e.Of(ret.Results[1]) == e.Of(cs[0])+"#1" || len(ret.Results) == 1 && ret.Results[0] == ssa.Value(cs[0])
		}
		ru.Check(ok && okRet, w.name, p.Rel(cs[0].Pos()), "readFull(p, nBits, "+w.args3+", reader method)", w.name+" must be readFull(p, nBits, "+w.args3+", func(p, n, off) { return r."+strings.TrimPrefix(strings.SplitN(w.inner, "(", 2)[0], "invoke.")+"(p, n"+map[bool]string{true: ", off", false: ""}[w.args3 == "P3"]+") }) and return its result; closure returns "+inner)
	}
}

// c01IsAlignRem: v is R%8, or (8 - R%8)%8 (both are zero exactly when R is byte aligned).
func c01IsAlignRem(v ssa.Value, R ssa.Value) bool {
	rem8 := func(x ssa.Value) (ssa.Value, bool) {
		bo, ok := c01xStrip(x).(*ssa.BinOp)
		if !ok {
			return nil, false
		}
		if bo.Op == token.REM && c01xIsConst(bo.Y, 8) {
			return bo.X, true
		}
		if bo.Op == token.AND && c01xIsConst(bo.Y, 7) {
			return bo.X, true
		}
		return nil, false
	}
	x, ok := rem8(v)
	if !ok {
		return false
	}
	if c01xStrip(x) == R {
		return true
	}
	if bo, ok := c01xStrip(x).(*ssa.BinOp); ok && bo.Op == token.SUB && c01xIsConst(bo.X, 8) {
		if y, ok := rem8(bo.Y); ok && c01xStrip(y) == R {
			return true
		}
	}
	return false
}

// ---------------------------------------------------------------------------
// C01.passthru

func c01Passthru(r *fw.Run, p *fw.Program) {
	ru := r.Rule("C01.passthru", "the transparent wrappers of the file open stack forward unchanged: progressreadseeker.Reader.Read/Seek and ctxreadseeker.Reader.Read/Seek call the wrapped reader's Read(p) / Seek(offset, whence) with their own arguments and return its count/position and error", 4)
	for _, m := range []struct{ fn, want string }{
		{"(*internal/progressreadseeker.Reader).Read", "invoke.Read(P0->rs,P1)"},
		{"(*internal/progressreadseeker.Reader).Seek", "invoke.Seek(P0->rs,P1,P2)"},
	} {
		fn := getFn(ru, p, m.fn)
		if fn == nil {
			continue
		}
		e := fw.NewSymEnv(fn)
		ok := len(returnsOf(fn)) > 0
		got := ""
		for _, ret := range returnsOf(fn) {
			if len(ret.Results) != 2 {
				ok = false
				continue
			}
			got = e.Of(ret.Results[0]) + ", " + e.Of(ret.Results[1])
			if got != m.want+"#0, "+m.want+"#1" {
				ok = false
			}
		}
		ru.Check(ok, m.fn, p.Rel(fn.Pos()), m.want, "must return the results of "+m.want+" unchanged, returns "+got)
	}
	for _, m := range []struct {
		fn, method string
		params     []int
	}{
		{"(*internal/ctxreadseeker.Reader).Read", "Read", []int{1}},
		{"(*internal/ctxreadseeker.Reader).Seek", "Seek", []int{1, 2}},
	} {
		fn := getFn(ru, p, m.fn)
		if fn == nil {
			continue
		}
		var mc *ssa.MakeClosure
		fw.EachInstr(fn, func(ins ssa.Instruction) {
			if x, ok := ins.(*ssa.MakeClosure); ok {
				mc = x
			}
		})
		if mc == nil {
			ru.Undecided(m.fn, p.Rel(fn.Pos()), "no closure handed to the worker goroutine")
			continue
		}
		cf := mc.Fn.(*ssa.Function)
		// captured cell k -> outer parameter index (or -1) / the cell itself
		cellParam := func(v ssa.Value) int {
			u, ok := v.(*ssa.UnOp)
			if !ok || u.Op != token.MUL {
				return -1
			}
			fv, ok := u.X.(*ssa.FreeVar)
			if !ok {
				return -1
			}
			for k, f := range cf.FreeVars {
				if f != fv {
					continue
				}
				al, ok := mc.Bindings[k].(*ssa.Alloc)
				if !ok {
					return -1
				}
				idx, n := -1, 0
				for _, ref := range *al.Referrers() {
					if st, ok := ref.(*ssa.Store); ok && st.Addr == ssa.Value(al) {
						n++
						for i, pa := range fn.Params {
							if st.Val == ssa.Value(pa) {
								idx = i
							}
						}
					}
				}
				if n == 1 {
					return idx
				}
			}
			return -1
		}
		cellOf := func(addr ssa.Value) *ssa.Alloc {
			fv, ok := addr.(*ssa.FreeVar)
			if !ok {
				return nil
			}
			for k, f := range cf.FreeVars {
				if f == fv {
					al, _ := mc.Bindings[k].(*ssa.Alloc)
					return al
				}
			}
			return nil
		}
		calls := c01xInvokes(cf, m.method)
		msg := ""
		if len(calls) != 1 {
			msg = "the closure does not call the wrapped reader's " + m.method + " exactly once"
		} else {
			c := calls[0]
			// receiver: (*r).rs
			recvOK := false
			if u, ok := c.Common().Value.(*ssa.UnOp); ok && u.Op == token.MUL {
				if fa, ok := u.X.(*ssa.FieldAddr); ok && fieldNameOf(fa.X.Type(), fa.Field) == "rs" && cellParam(fa.X) == 0 {
					recvOK = true
				}
			}
			if !recvOK {
				msg = "not called on the wrapped reader r.rs"
			}
			for i, a := range c.Common().Args {
				if i >= len(m.params) || cellParam(a) != m.params[i] {
					msg = fmt.Sprintf("argument %d of the wrapped %s is not the wrapper's own argument %d", i+1, m.method, i+1)
				}
			}
			// results stored into captured cells that the outer function returns
			var cells [2]*ssa.Alloc
			for _, ref := range *c.Referrers() {
				if ex, ok := ref.(*ssa.Extract); ok && ex.Referrers() != nil {
					for _, r2 := range *ex.Referrers() {
						if st, ok := r2.(*ssa.Store); ok && st.Val == ssa.Value(ex) {
							cells[ex.Index] = cellOf(st.Addr)
						}
					}
				}
			}
			if cells[0] == nil || cells[1] == nil {
				if msg == "" {
					msg = "count/position and error of the wrapped call are not handed back"
				}
			} else {
				okRet := false
				for _, ret := range returnsOf(fn) {
					// the return on the path where callWait succeeded: results are loads of the two cells with no intervening constant store
					if len(ret.Results) != 2 {
						continue
					}
					l0, ok0 := ret.Results[0].(*ssa.UnOp)
					l1, ok1 := ret.Results[1].(*ssa.UnOp)
					if !ok0 || !ok1 || l0.X != ssa.Value(cells[0]) || l1.X != ssa.Value(cells[1]) {
						continue
					}
					clean := true
					for _, ins := range ret.Block().Instrs {
						if st, ok := ins.(*ssa.Store); ok && (st.Addr == ssa.Value(cells[0]) || st.Addr == ssa.Value(cells[1])) {
							if ld, ok := st.Val.(*ssa.UnOp); !ok || ld.X != st.Addr {
								clean = false
							}
						}
					}
					if clean {
						okRet = true
					}
				}
				if !okRet && msg == "" {
					msg = "the wrapper does not return the wrapped call's results unchanged on the path where the call ran"
				}
			}
		}
		ru.Check(msg == "", m.fn, p.Rel(fn.Pos()), "forwards "+m.method+" unchanged", m.fn+": "+msg)
	}
}
