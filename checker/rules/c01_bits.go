package rules

// C01 bit-movement rules (abstract interpretation with fully symbolic buffer contents).
//
// c01_bits.go     Read64 / Write64 / copyBufBits decided for every alignment and width
// c01_bits_io.go  readFull, Buffer, IOReader, IOBitWriter.Flush (structure + model interpretation)

import (
	"fmt"
	"go/types"
	"sort"
	"strings"
	"time"

	"golang.org/x/tools/go/ssa"

	"fqverif/fw"
)

func init() {
	// C01B is a private, unclaimed entry: it additionally runs the scenario-driven rules of
	// c01_bits_io.go (readFull / Buffer / IOReader interpreted against model readers over enumerated
	// read histories). Those explore histories and are therefore NOT part of the static C01 claim;
	// they are kept as an exploration aid (they found the readFull short-count defect).
	Register("C01B", func(r *fw.Run, p *fw.Program) { c01Bits(r, p); c01BitsIO(r, p) })
}

// c01Bits evaluates the bit-movement rules of C01 that are abstract interpretations over finite
// abstract parameter classes (alignment mod 8 x bit count) with fully symbolic data.
func c01Bits(r *fw.Run, p *fw.Program) {
	t0 := time.Now()
	lap := func(name string) {
		r.Notes["C01.bits.seconds."+name] = time.Since(t0).Seconds()
		t0 = time.Now()
	}
	c01Read64(r, p)
	lap("read64")
	c01Write64(r, p)
	lap("write64")
	c01CopyBits(r, p)
	lap("copybits")
	r.Assumption("C01 bit rules: encoding/binary.BigEndian.(Put)Uint16/32/64 are modelled as big-endian byte lane moves; positions are 8*B+o for an arbitrary byte base B >= 0 (no overflow of int64 positions)")
}

// c01BitsIO: scenario-driven rules (private C01B entry only).
func c01BitsIO(r *fw.Run, p *fw.Program) {
	c01ReadFull(r, p)
	c01BitsPad(r, p)
	c01IOReader(r, p)
}

// c01Arm describes the last data-moving block of the outermost interpreted function.
func c01Arm(p *fw.Program, it *fw.AInterp) string {
	var last *ssa.BasicBlock
	for _, b := range it.Trace {
		for _, ins := range b.Instrs {
			switch x := ins.(type) {
			case *ssa.Store:
				last = b
			case *ssa.BinOp:
				if x.Op.String() == "|" || x.Op.String() == "<<" || x.Op.String() == ">>" {
					last = b
				}
			case *ssa.Call:
				last = b
			}
		}
	}
	if last == nil {
		return "no data-moving block executed"
	}
	for _, ins := range last.Instrs {
		if ins.Pos().IsValid() {
			return fmt.Sprintf("arm: block %d (%s) at %s", last.Index, last.Comment, p.Rel(ins.Pos()))
		}
	}
	return fmt.Sprintf("arm: block %d (%s)", last.Index, last.Comment)
}

func c01StreamArr(name string, kb int64) *fw.AArr {
	return fw.NewAArr(name, kb, -1, func(i int64) fw.AV { return fw.ABits(fw.StreamByte(name, i)) })
}

// c01Read64 : Read64(buf, 8B+o, n) == stream bits o..o+n-1, most significant first.
func c01Read64(r *fw.Run, p *fw.Program) {
	ru := r.Rule("C01.read64", "bitio.Read64, abstractly interpreted with a fully symbolic buffer for every start alignment o=firstBit%8 (byte base symbolic) and every nBits 0..64: result bit nBits-1-i is stream bit o+i, nothing above, only the bytes that hold those bits are touched; nBits outside 0..64 panics", 10)
	fn := p.Fn("pkg/bitio.Read64")
	if fn == nil || len(fn.Params) != 3 {
		ru.Undecided("anchor", "", "pkg/bitio.Read64(buf, firstBit, nBits) not found")
		return
	}
	pos := p.Rel(fn.Pos())
	for o := int64(0); o < 8; o++ {
		key := fmt.Sprintf("align:%d", o)
		msg, undec := "", ""
		for n := int64(0); n <= 64 && msg == "" && undec == ""; n++ {
			it := fw.NewAInterp(p.C02IntBits())
			arr := c01StreamArr("s", 1)
			out := it.Run(fn, []fw.AV{fw.ASliceOf(arr, 0, 0, -1), fw.AAff(8, o), fw.AInt(n)})
			switch out.Kind {
			case "abort":
				undec = fmt.Sprintf("nBits=%d: %s; %s", n, out.Msg, c01Arm(p, it))
				continue
			case "panic":
				msg = fmt.Sprintf("nBits=%d: reading panics: %s; %s", n, out.Msg, c01Arm(p, it))
				continue
			}
			v := fw.AToBits(out.Res, 64, false)
			for j := 0; j < 64 && msg == ""; j++ {
				got := v.B[j]
				if int64(j) < n {
					want := int(o + n - 1 - int64(j))
					if got.K != fw.BvSrc || got.Src != "s" || got.I != want {
						msg = fmt.Sprintf("nBits=%d: result bit %d is %s, must be stream bit %d (byte %d bit %d from the top); %s", n, j, c01BitName(got), want, want/8, want%8, c01Arm(p, it))
					}
				} else if got.K != fw.BvZero {
					msg = fmt.Sprintf("nBits=%d: result bit %d is %s, must be 0; %s", n, j, c01BitName(got), c01Arm(p, it))
				}
			}
			last := (o + n + 7) / 8
			for k := range arr.Read {
				if msg == "" && (k < 0 || k >= last) {
					msg = fmt.Sprintf("nBits=%d: byte %d of the buffer is read although the %d bits end in byte %d (index panic at the end of a buffer); %s", n, k, n, last-1, c01Arm(p, it))
				}
			}
			if len(arr.Written) > 0 && msg == "" {
				msg = fmt.Sprintf("nBits=%d: Read64 writes to its buffer", n)
			}
		}
		switch {
		case undec != "":
			ru.Undecided(key, pos, undec)
		case msg != "":
			ru.Fail(key, pos, fmt.Sprintf("firstBit%%8=%d, %s", o, msg))
		default:
			ru.Ok(key, pos, "nBits 0..64: MSB-first bits o..o+nBits-1")
		}
	}
	for _, n := range []int64{-1, 65} {
		it := fw.NewAInterp(p.C02IntBits())
		out := it.Run(fn, []fw.AV{fw.ASliceOf(c01StreamArr("s", 1), 0, 0, -1), fw.AAff(8, 3), fw.AInt(n)})
		ru.Check(out.Kind == "panic", fmt.Sprintf("guard:%d", n), pos, "panics", fmt.Sprintf("Read64 with nBits=%d must panic, outcome: %s %s", n, out.Kind, out.Msg))
	}
}

func c01BitName(b fw.BvBit) string {
	switch b.K {
	case fw.BvZero:
		return "0"
	case fw.BvOne:
		return "1"
	case fw.BvSrc:
		if b.Src == "v" {
			return fmt.Sprintf("bit %d of v", b.I)
		}
		return fmt.Sprintf("%s-stream bit %d", b.Src, b.I)
	}
	return "a mixture of several bits"
}

// c01CheckDst checks the bytes of dst after writing n bits at bit offset o: want(p) gives the
// expected bit at stream position p inside [o, o+n); outside the old content "d" is kept.
func c01CheckDst(dst *fw.AArr, o, n int64, zeroTo int64, want func(p int64) fw.BvBit) string {
	end := o + n
	if zeroTo > end {
		end = zeroTo
	}
	last := (end + 7) / 8
	var keys []int64
	for k := range dst.Elems {
		keys = append(keys, k)
	}
	sort.Slice(keys, func(i, j int) bool { return keys[i] < keys[j] })
	for _, k := range keys {
		if k < o/8 || k >= last {
			return fmt.Sprintf("byte %d of the destination is written although the bits lie in bytes %d..%d", k, o/8, last-1)
		}
	}
	if n == 0 && zeroTo <= o {
		return ""
	}
	for k := o / 8; k < last; k++ {
		bv := dst.ByteAt(k)
		for j := 0; j < 8; j++ {
			pp := 8*k + 7 - int64(j)
			var w fw.BvBit
			switch {
			case pp >= o && pp < o+n:
				w = want(pp)
			case pp >= o+n && pp < zeroTo:
				w = fw.BvBit{K: fw.BvZero}
			default:
				w = fw.BvBit{K: fw.BvSrc, Src: "d", I: int(pp)}
			}
			if bv.B[j] != w {
				return fmt.Sprintf("destination bit %d (byte %d, bit %d from the top) is %s, must be %s", pp, k, pp%8, c01BitName(bv.B[j]), c01BitName(w))
			}
		}
	}
	return ""
}

// c01Write64 : Write64(v, n, buf, 8B+o) replaces exactly stream bits o..o+n-1 by v's low n bits MSB first.
func c01Write64(r *fw.Run, p *fw.Program) {
	ru := r.Rule("C01.write64", "bitio.Write64, abstractly interpreted with symbolic value and buffer for every alignment and nBits 0..64: exactly the nBits addressed bits become v's low nBits most significant first, every other bit of the touched bytes keeps its old value, no other byte is read or written; nBits outside 0..64 panics; every caller passes a value below 2^nBits", 13)
	fn := p.Fn("pkg/bitio.Write64")
	if fn == nil || len(fn.Params) != 4 {
		ru.Undecided("anchor", "", "pkg/bitio.Write64(v, nBits, buf, firstBit) not found")
		return
	}
	pos := p.Rel(fn.Pos())
	for o := int64(0); o < 8; o++ {
		key := fmt.Sprintf("align:%d", o)
		msg, undec := "", ""
		for n := int64(0); n <= 64 && msg == "" && undec == ""; n++ {
			it := fw.NewAInterp(p.C02IntBits())
			arr := c01StreamArr("d", 1)
			out := it.Run(fn, []fw.AV{fw.ABits(c01CleanWord("v", int(n))), fw.AInt(n), fw.ASliceOf(arr, 0, 0, -1), fw.AAff(8, o)})
			switch out.Kind {
			case "abort":
				undec = fmt.Sprintf("nBits=%d: %s; %s", n, out.Msg, c01Arm(p, it))
				continue
			case "panic":
				msg = fmt.Sprintf("nBits=%d: writing panics: %s; %s", n, out.Msg, c01Arm(p, it))
				continue
			}
			if m := c01CheckDst(arr, o, n, 0, func(pp int64) fw.BvBit {
				return fw.BvBit{K: fw.BvSrc, Src: "v", I: int(n - 1 - (pp - o))}
			}); m != "" {
				msg = fmt.Sprintf("nBits=%d: %s; %s", n, m, c01Arm(p, it))
			}
			last := (o + n + 7) / 8
			for k := range arr.Read {
				if msg == "" && (k < 0 || k >= last) {
					msg = fmt.Sprintf("nBits=%d: byte %d of the buffer is read although the bits end in byte %d; %s", n, k, last-1, c01Arm(p, it))
				}
			}
		}
		switch {
		case undec != "":
			ru.Undecided(key, pos, undec)
		case msg != "":
			ru.Fail(key, pos, fmt.Sprintf("firstBit%%8=%d, %s", o, msg))
		default:
			ru.Ok(key, pos, "nBits 0..64: exactly the addressed bits replaced, MSB first")
		}
	}
	c01Write64Callers(ru, p, fn)
	for _, n := range []int64{-1, 65} {
		it := fw.NewAInterp(p.C02IntBits())
		out := it.Run(fn, []fw.AV{fw.ABits(fw.SymWord("v", 64)), fw.AInt(n), fw.ASliceOf(c01StreamArr("d", 1), 0, 0, -1), fw.AAff(8, 3)})
		ru.Check(out.Kind == "panic", fmt.Sprintf("guard:%d", n), pos, "panics", fmt.Sprintf("Write64 with nBits=%d must panic, outcome: %s %s", n, out.Kind, out.Msg))
	}
}

// c01CleanWord: a 64-bit value whose low n bits are symbolic and whose other bits are zero — the
// precondition v < 2^nBits of Write64 (its unaligned arms OR byte(v)<<k into the kept bits; every
// call site is checked to pass such a value by C01.write64 caller:*).
func c01CleanWord(src string, n int) fw.BvVec {
	v := fw.BvVec{W: 64}
	for j := 0; j < n && j < 64; j++ {
		v.B[j] = fw.BvBit{K: fw.BvSrc, Src: src, I: j}
	}
	return v
}

// c01Write64Callers: every call of Write64 in fq passes a value that has no bits at or above nBits.
func c01Write64Callers(ru *fw.Rule, p *fw.Program, w64 *ssa.Function) {
	n := 0
	for _, fn := range p.FqFunctions() {
		env := fw.NewSxEnv(fn)
		ord := 0
		for _, ci := range fw.CallsIn(fn) {
			cl, ok := ci.(*ssa.Call)
			if !ok || cl.Common().StaticCallee() != w64 {
				continue
			}
			ord++
			n++
			key := fmt.Sprintf("caller:%s#%d", fw.ShortFn(fn), ord)
			pos := p.Rel(cl.Pos())
			v, cnt := cl.Common().Args[0], env.Of(cl.Common().Args[1])
			vs := env.Of(v)
			why := ""
			switch {
			case vs == "0":
				why = "constant 0"
			case strings.HasPrefix(vs, "(call pkg/bitio.Read64 ") && strings.HasSuffix(vs, " "+cnt+")"):
				why = "result of Read64 with the same bit count"
			default:
				if bo, ok := fw.SxStripConv(v).(*ssa.BinOp); ok && bo.Op.String() == ">>" {
					if b, ok := bo.X.Type().Underlying().(*types.Basic); ok && b.Kind() == types.Uint8 && env.Of(bo.Y) == "8 + -1*"+cnt {
						why = "top nBits bits of a byte"
					}
				}
			}
			ru.Check(why != "", key, pos, why, "Write64 requires v < 2^nBits (its unaligned arms OR byte(v)<<k into the bits they keep); this call passes "+vs+" with count "+cnt+", which is not known to be that small")
		}
	}
	if n == 0 {
		ru.Undecided("caller", "", "no call of Write64 found")
	}
}

var _ = strings.Join

// c01CopyBits: structure of the chunk loop for arbitrary n, plus interpretation of the whole
// function (through Read64 and Write64) for all pairs of alignments and n = 0..136.
func c01CopyBits(r *fw.Run, p *fw.Program) {
	ru := r.Rule("C01.copybits", "bitio.copyBufBits moves n bits in chunks c=min(left,64) read at srcStart+off and written at dstStart+off with the same off and c (loop normal form, any n); interpreted for every source/destination alignment and n=0..72,126..136 the destination receives exactly source bits srcStart..srcStart+n-1 in order, keeps every other bit, and with zero=true clears exactly the bits up to the next byte boundary (zero=false: keeps them)", 15)
	fn := p.Fn("pkg/bitio.copyBufBits")
	if fn == nil || len(fn.Params) != 6 {
		ru.Undecided("anchor", "", "pkg/bitio.copyBufBits(dst, dstStart, src, srcStart, n, zero) not found")
		return
	}
	pos := p.Rel(fn.Pos())
	env := fw.NewSxEnv(fn)
	var rd, wr []*ssa.Call
	var mn *ssa.Call
	fw.EachInstr(fn, func(ins ssa.Instruction) {
		if cl, ok := ins.(*ssa.Call); ok {
			switch fw.SxCallee(cl.Common()) {
			case "pkg/bitio.Read64":
				rd = append(rd, cl)
			case "pkg/bitio.Write64":
				wr = append(wr, cl)
			case "builtin:min":
				mn = cl
			}
		}
	})
	if len(rd) != 1 || len(wr) != 2 {
		ru.Undecided("loop", pos, fmt.Sprintf("expected one Read64 and two Write64 calls (copy, zero fill), found %d and %d", len(rd), len(wr)))
	} else {
		al := map[ssa.Value]string{rd[0]: "U"}
		var cV ssa.Value = rd[0].Common().Args[2]
		cV = fw.SxStripConv(cV)
		al[cV] = "C"
		if mn != nil && cV == ssa.Value(mn) {
			for _, a := range mn.Common().Args {
				if ph, ok := fw.SxStripConv(a).(*ssa.Phi); ok {
					al[ph] = "L"
				}
			}
		}
		e := env.With(al)
		var copyW, zeroW *ssa.Call
		for _, w := range wr {
			if e.Of(w.Common().Args[0]) == "U" {
				copyW = w
			} else {
				zeroW = w
			}
		}
		chk := func(key string, got, want, what string) {
			ru.Check(got == want, key, pos, got, what+": is "+got+", must be "+want)
		}
		// chunk size and remaining count
		e0 := env.With(map[ssa.Value]string{})
		chk("loop:chunk", e0.Of(cV), "(min 64 "+c02SxPhi("-1*(min 64 @0) + @0", "p4")+")", "chunk size c = min(remaining, 64) with remaining starting at n and decreasing by c")
		var offV ssa.Value
		if bo, ok := fw.SxStripConv(rd[0].Common().Args[1]).(*ssa.BinOp); ok {
			for _, x := range []ssa.Value{bo.X, bo.Y} {
				if ph, ok := fw.SxStripConv(x).(*ssa.Phi); ok {
					offV = ph
				}
			}
		}
		if offV == nil {
			ru.Fail("loop:off", pos, "source position is not srcStart + running offset")
		} else {
			chk("loop:off", e.Of(offV), c02SxPhi("0", "@0 + C"), "running offset starts at 0 and grows by c")
			al[offV] = "OFF"
			e = env.With(al)
			chk("loop:read", c01Args(e, rd[0]), "p2 OFF + p3 C", "chunk is read from src at srcStart+off, c bits")
			if copyW != nil {
				chk("loop:write", c01Args(e, copyW), "U C p0 OFF + p1", "chunk is written to dst at dstStart+off, c bits")
			} else {
				ru.Fail("loop:write", pos, "no Write64 of the chunk that was read")
			}
			if _, hasL := map[string]bool{}["x"]; !hasL {
				okLoop := false
				for _, b := range fn.Blocks {
					if f, ok := b.Instrs[len(b.Instrs)-1].(*ssa.If); ok && e.Of(f.Cond) == "(> L 0)" {
						okLoop = blockReach(b.Succs[0], rd[0].Block()) || b.Succs[0] == rd[0].Block()
					}
				}
				ru.Check(okLoop, "loop:cond", pos, "loop runs while remaining > 0", "the copy loop must run exactly while bits remain")
			}
		}
		if zeroW == nil {
			ru.Fail("zero:write", pos, "no zero fill")
		} else {
			chk("zero:write", c01Args(e, zeroW), "0 8 + -1*(% p1 + p4 8) p0 p1 + p4", "zero fill writes 8-e%8 zero bits at e = dstStart+n")
			ru.Check(e.HasGuard(zeroW.Block(), "+p5") && (e.HasGuard(zeroW.Block(), "+"+c02SxC("!=", "(% p1 + p4 8)", "0")) || e.HasGuard(zeroW.Block(), "+(> (% p1 + p4 8) 0)")),
				"zero:when", pos, "only when zero is set and e is not byte aligned", "zero fill must happen exactly when zero && e%8 != 0; guards: "+strings.Join(e.GuardSx(zeroW.Block()), " "))
		}
	}
	// interpretation
	for o2 := int64(0); o2 < 8; o2++ {
		key := fmt.Sprintf("align:%d", o2)
		msg, undec := "", ""
		for o1 := int64(0); o1 < 8 && msg == "" && undec == ""; o1++ {
			for n := int64(0); n <= 136 && msg == "" && undec == ""; n++ {
				if n > 72 && n < 126 {
					continue // one full chunk plus a remainder and two full chunks plus a remainder are both covered
				}
				for _, zero := range []int64{1, 0} {
					if zero == 0 && n%9 != 0 {
						continue
					}
					it := fw.NewAInterp(p.C02IntBits())
					src := c01StreamArr("s", 1)
					dst := c01StreamArr("d", 0)
					out := it.Run(fn, []fw.AV{fw.ASliceOf(dst, 0, 0, -1), fw.AInt(o2), fw.ASliceOf(src, 0, 0, -1), fw.AAff(8, o1), fw.AInt(n), fw.AInt(zero)})
					ctx := fmt.Sprintf("srcStart%%8=%d n=%d zero=%v", o1, n, zero == 1)
					if out.Kind != "return" {
						if out.Kind == "abort" {
							undec = ctx + ": " + out.Msg
						} else {
							msg = ctx + ": panics: " + out.Msg
						}
						break
					}
					zeroTo := int64(0)
					if zero == 1 && (o2+n)%8 != 0 {
						zeroTo = (o2 + n + 7) / 8 * 8
					}
					if m := c01CheckDst(dst, o2, n, zeroTo, func(pp int64) fw.BvBit {
						return fw.BvBit{K: fw.BvSrc, Src: "s", I: int(o1 + pp - o2)}
					}); m != "" {
						msg = ctx + ": " + m
						break
					}
					lastSrc := (o1 + n + 7) / 8
					for k := range src.Read {
						if k < 0 || k >= lastSrc {
							msg = fmt.Sprintf("%s: source byte %d is read although the bits end in byte %d", ctx, k, lastSrc-1)
						}
					}
				}
			}
		}
		switch {
		case undec != "":
			ru.Undecided(key, pos, fmt.Sprintf("dstStart%%8=%d, %s", o2, undec))
		case msg != "":
			ru.Fail(key, pos, fmt.Sprintf("dstStart%%8=%d, %s", o2, msg))
		default:
			ru.Ok(key, pos, "all source alignments, n 0..136: exact bit copy, zero fill to the byte boundary only")
		}
	}
}

func c01Args(e *fw.SxEnv, c *ssa.Call) string {
	var a []string
	if c.Common().IsInvoke() {
		a = append(a, e.Of(c.Common().Value))
	}
	for _, x := range c.Common().Args {
		a = append(a, e.Of(x))
	}
	return strings.Join(a, " ")
}
