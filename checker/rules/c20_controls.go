package rules

// Positive controls for C20: seeded edits (overlay) that must make the named rule fire.
// (44 such edits were exercised while building the rules and all fired; 21 are kept to bound the thorough tier; 4 added for C20.sigclose.)

func init() {
	const stack = "internal/ctxstack/ctxstack.go"
	c := func(id, rule, file, old, nw, expect string) {
		AddControl(Control{ID: id, Prop: "C20", Rule: rule, File: file, Old: old, New: nw, ExpectKey: expect})
	}
	// ---- C20.lock
	c("c20-lock-unlock-before-index", "C20.lock", stack, `				if len(s.cancelFns) > 0 {
					s.cancelFns[len(s.cancelFns)-1]()
				}
				s.m.Unlock()`, `				n := len(s.cancelFns)
				s.m.Unlock()
				if n > 0 {
					s.cancelFns[n-1]()
				}`, "New$1:cancelFns")
	c("c20-lock-flag-before-lock", "C20.lock", stack, `		s.m.Lock()
		defer s.m.Unlock()
		if cancelled {
			return
		}
		cancelled = true`, `		if cancelled {
			return
		}
		cancelled = true
		s.m.Lock()
		defer s.m.Unlock()`, "captured cancelled")
	// ---- C20.atomic
	c("c20-atomic-two-sections", "C20.atomic", stack, `				if len(s.cancelFns) > 0 {
					s.cancelFns[len(s.cancelFns)-1]()
				}
				s.m.Unlock()`, `				n := len(s.cancelFns)
				s.m.Unlock()
				s.m.Lock()
				if n > 0 {
					s.cancelFns[n-1]()
				}
				s.m.Unlock()`, "EARLIER critical section")
	// ---- C20.order
	c("c20-order-missing-unlock", "C20.order", stack, `				s.m.Unlock()
				continue`, `				continue`, "may already be held")
	c("c20-order-wait-under-lock", "C20.order", stack, `			triggerCh(stopCh)
			select {`, `			s.m.Lock()
			triggerCh(stopCh)
			s.m.Unlock()
			select {`, "dyncall")
	c("c20-order-foreign-func", "C20.order", stack, `s.cancelFns = append(s.cancelFns, stackCtxCancel)`,
		`s.cancelFns = append(s.cancelFns, func() { stackCtxCancel(); s.Stop() })`, "stored cancelFns")
	// ---- C20.stack
	c("c20-stack-idx-after-append", "C20.stack", stack, `	stackIdx := len(s.cancelFns)

	s.cancelFns = append(s.cancelFns, stackCtxCancel)`, `	s.cancelFns = append(s.cancelFns, stackCtxCancel)
	stackIdx := len(s.cancelFns)`, "Push:index")
	c("c20-stack-pop-loop-to-zero", "C20.stack", stack, `i >= stackIdx; i--`, `i >= 0; i--`, "pop:cancels from own index")
	c("c20-stack-trunc-plus-one", "C20.stack", stack, `s.cancelFns[0:stackIdx]`, `s.cancelFns[0:stackIdx+1]`, "pop:truncates")
	c("c20-stack-not-idempotent", "C20.stack", stack, `		cancelled = true
`, ``, "pop:idempotent")
	c("c20-stack-stop-skips-outermost", "C20.stack", stack, `i >= 0; i--`, `i > 0; i--`, "Stop:cancels all")
	c("c20-stack-trigger-guard-weak", "C20.stack", stack, `if len(s.cancelFns) > 0 {`, `if len(s.cancelFns) >= 0 {`, "trigger:cancels top")
	// ---- C20.eval
	c("c20-eval-no-pop-on-error", "C20.eval", "pkg/interp/interp.go", `		if !ok {
			runCtxCancelFn()
		} else if _, ok := v.(error); ok {
			runCtxCancelFn()
		}`, `		if !ok {
			runCtxCancelFn()
		}`, "Eval:return after push")
	c("c20-eval-leak-on-early-return", "C20.eval", "pkg/interp/interp.go", `	ni.EvalInstance.Ctx = runCtx
`, `	ni.EvalInstance.Ctx = runCtx
	if expr == "" {
		return nil, errors.New("empty")
	}
`, "Eval:return after push")
	c("c20-eval-main-no-stop", "C20.eval", "pkg/cli/cli.go", "		defer i.Stop()\n", ``, "cli.Main")
	// ---- C20.writer
	c("c20-writer-no-check", "C20.writer", "internal/iox/iox.go", `func (o CtxWriter) Write(p []byte) (n int, err error) {
	if o.Ctx != nil {
		if err := o.Ctx.Err(); err != nil {
			return 0, err
		}
	}`, `func (o CtxWriter) Write(p []byte) (n int, err error) {`, "CtxWriter.Write")
	// ---- C20.ctxrs
	const rs = "internal/ctxreadseeker/ctxreadseeker.go"
	c("c20-ctxrs-bare-wait", "C20.ctxrs", rs, `		select {
		case <-r.ctx.Done():
			return r.ctx.Err()
		case <-r.waitCh:
		}`, `		<-r.waitCh`, "bare channel op")
	c("c20-ctxrs-open-nil-ctx", "C20.ctxrs", "pkg/interp/binary.go", `fRS = ctxreadseeker.New(i.EvalInstance.Ctx, rs)`, `fRS = ctxreadseeker.New(nil, rs)`, "ctxreadseeker.New")
	// ---- C20.sig
	const cli = "pkg/cli/cli.go"
	c("c20-sig-blocking-send", "C20.sig", cli, `				select {
				case interruptChan <- struct{}{}:
				default:
				}`, `				interruptChan <- struct{}{}`, "blocking send")
	c("c20-sig-unbuffered-interrupt-chan", "C20.sig", cli, `interruptChan := make(chan struct{}, 1)`, `interruptChan := make(chan struct{})`, "InterruptChan")
	// ---- C20.sigclose
	c("c20-sigclose-defer-lifo", "C20.sigclose", cli, `		defer func() {
			signal.Stop(interruptSignalChan)
			close(interruptSignalChan)`, `		defer signal.Stop(interruptSignalChan)
		defer func() {
			close(interruptSignalChan)`, "close signal channel")
	c("c20-sigclose-reset-is-not-stop", "C20.sigclose", cli, `			signal.Stop(interruptSignalChan)
`, `			signal.Reset(os.Interrupt)
`, "close signal channel")
	c("c20-sigclose-foreign-close", "C20.sigclose", cli, `	close(o.closeChan)
`, `	close(o.closeChan)
	close(o.InterruptChan())
`, "outside the bridge")
	c("c20-sigclose-send-after-close", "C20.sigclose", cli, `			case <-closeChan:
				return
`, `			case <-closeChan:
				close(interruptChan)
`, "forward channel")
	// ---- C20.repl
	c("c20-repl-fatal-on-cancel", "C20.repl", "pkg/interp/repl.jq", `  if .error | _is_context_canceled_error then empty
  else _fatal_error(_exit_code_expr_error)
  end;`, `  if .error | _is_context_canceled_error then _fatal_error(_exit_code_expr_error)
  else empty
  end;`, "_repl_on_error")
}
