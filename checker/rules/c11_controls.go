package rules

// Positive controls of C11: seeded edits (applied in memory) that each rule must report.

func init() {
	add := func(id, rule, file, old, new, expect string) {
		AddControl(Control{ID: id, Prop: "C11", Rule: rule, File: file, Old: old, New: new, ExpectKey: expect})
	}
	const qjq = "pkg/interp/query.jq"
	const ejq = "pkg/interp/eval.jq"
	const qgo = "pkg/interp/query.go"
	// the gojq fork lives in the module cache; the path is relative to /repo and pinned by /repo/go.mod
	// (skipped when the version or FQ_REPO differs)
	const gojqQuery = "../root/go/pkg/mod/github.com/wader/gojq@v0.12.1-0.20250208151254-0aa7b87b2c2b/query.go"

	// C11.tags
	add("c11-tags-dash", "C11.tags", gojqQuery, "SuffixList []*Suffix `json:\"suffix_list,omitempty\"`", "SuffixList []*Suffix `json:\"-\"`", "gojq.Term.SuffixList")

	// C11.go
	add("c11-go-postprocess", "C11.go", qgo, "return q.String()", "return q.String() + \"\"", "_query_tostring:result")
	add("c11-go-parse-other", "C11.go", qgo, "q, err := gojq.Parse(c)", "q, err := gojq.Parse(c + \" \")", "_query_fromstring:parse-arg")
	add("c11-go-recover-nonerror", "C11.go", qgo, "v = fmt.Errorf(\"invalid query: %v\", r)", "v = fmt.Sprintf(\"invalid query: %v\", r)", "_query_tostring:result:other-writes")
	add("c11-go-defer-unconditional", "C11.go", qgo, "if r := recover(); r != nil {\n\t\t\tv = fmt.Errorf(\"invalid query: %v\", r)\n\t\t}", "r := recover()\n\t\tv = fmt.Errorf(\"invalid query: %v\", r)", "_query_tostring:result:other-writes")
	add("c11-go-drop-errcheck", "C11.go", qgo, "if err := json.Unmarshal(b, &q); err != nil {\n\t\treturn err\n\t}", "_ = json.Unmarshal(b, &q)", "_query_tostring:err:Unmarshal")

	// C11.ctor
	add("c11-ctor-pipe-swapped", "C11.ctor", qjq, "{ op: \"|\"\n  , left: l\n  , right: r", "{ op: \"|\"\n  , left: r\n  , right: l", "flow:_query_pipe/2")
	add("c11-ctor-wrong-field", "C11.ctor", qjq, "      , query: .\n", "      , array: .\n", "schema:_query_query/0")
	add("c11-ctor-commas-all", "C11.ctor", qjq, "reduce .[1:][] as $q (", "reduce .[] as $q (", "flow:_query_commas")

	add("c11-ctor-accessor-swapped", "C11.ctor", qjq, "def _query_func_name:\n  .term.func.name;", "def _query_func_name:\n  .term.func.args;", "reads:_query_func_name/0")

	// C11.keys
	add("c11-keys-typo", "C11.keys", qjq, "def _query_func_args:\n  .term.func.args;", "def _query_func_args:\n  .term.func.arg;", "path:_query_func_args/0")
	add("c11-keys-fromjq", "C11.keys", "format/json/jq.jq", "else $v.term.str.str", "else $v.term.string.str", "path:from_jq/0")

	// C11.descend
	add("c11-descend-anyop", "C11.descend", qjq, "  elif .op == \"|\" then\n    ( .right\n    | _query_pipe_last", "  elif .op then\n    ( .right\n    | _query_pipe_last", "_query_pipe_last/0")
	add("c11-descend-bind-raw-f", "C11.descend", qjq, "        if .bind.body then\n          .bind.body |= _f\n        else f", "        if .bind.body then\n          .bind.body |= f\n        else f", "_query_transform_pipe_last/1")

	// C11.fromto
	add("c11-fromto-keep-imports", "C11.fromto", qjq, "  | del(.imports)\n  | f\n", "  | f\n", "strip:_query_fromtostring/1:imports")
	add("c11-fromto-cross-restore", "C11.fromto", qjq, "  | f\n  | .meta = $meta\n", "  | f\n  | .meta = $imports\n", "restore:_query_fromtostring/1:meta")

	// C11.wrap
	add("c11-wrap-cond-paren", "C11.wrap", ejq, "            | _query_query\n", "            | if .op or .func_defs or .term.suffix_list then _query_query end\n", "try:paren")
	add("c11-wrap-input-right", "C11.wrap", ejq, "_query_pipe($opts.input_query; .)", "_query_pipe(.; $opts.input_query)", "input")
	add("c11-wrap-empty-test", "C11.wrap", ejq, "if (.term or .op) | not then", "if .term | not then", "try:body-stage")
	add("c11-wrap-wrong-transformer", "C11.wrap", ejq, "_query_transform_pipe_last(_query_ident)", "_query_transform_last(_query_ident)", "cut")

	add("c11-wrap-skip-rewrite", "C11.wrap", ejq, "$expr | _eval_query_rewrite($opts);", "$expr;", "handoff:eval/4")

	// C11.closed
	add("c11-closed-parsed-wrapper", "C11.closed", "pkg/interp/repl.jq", ", output_query: _query_func(\"_repl_display\")", ", output_query: (\". as $x | _repl_display\" | _query_fromstring)", "output_query")
	add("c11-closed-key-typo", "C11.closed", ejq, "elif $opts.output_query then", "elif $opts.output_qeury then", "optkey:read:output_qeury")

	// self-review additions
	const rjq = "pkg/interp/repl.jq"
	add("c11-ctor-commas-guard", "C11.ctor", qjq, "if length == 0 then _query_empty", "if length <= 1 then _query_empty", "flow:_query_commas:guard")
	add("c11-closed-catch-value", "C11.closed", rjq, ", catch_query: _query_func(\"_repl_on_expr_error\")", ", catch_query: _query_ident", "catch-call:pkg/interp/repl.jq:_repl_eval:catch_query#1")
	add("c11-go-helper-marshals-term", "C11.go", qgo, "\tb, err := json.Marshal(q)\n\tif err != nil {\n\t\treturn err\n\t}\n\tvar v any\n\tif err := json.Unmarshal(b, &v); err != nil {\n\t\treturn err\n\t}\n\n\treturn v\n}",
		"\treturn queryToValue(q)\n}\n\nfunc queryToValue(q *gojq.Query) any {\n\tb, err := json.Marshal(q.Term)\n\tif err != nil {\n\t\treturn err\n\t}\n\tvar v any\n\tif err := json.Unmarshal(b, &v); err != nil {\n\t\treturn err\n\t}\n\n\treturn v\n}", "_query_fromstring:marshal-arg")
	add("c11-go-helper-postprocess", "C11.go", qgo, "\treturn q.String()\n}", "\treturn printQuery(&q)\n}\n\nfunc printQuery(q *gojq.Query) string { return q.String() + \"\" }", "_query_tostring:result")

	// C11.repl
	add("c11-repl-input-not-iterated", "C11.repl", rjq, ", input_query: (_query_ident | _query_iter) # .[]", ", input_query: _query_ident # .[]", "input:_repl_eval/3")
	add("c11-repl-eval-orig", "C11.repl", rjq, "    | _repl_slurp_eval($query.rewrite)\n    | _repl($opts)", "    | _repl_slurp_eval($query.orig)\n    | _repl($opts)", "slurp-eval:_repl_slurp/1:$query.orig")
	add("c11-repl-slurp-no-rewrite", "C11.repl", rjq, "( _repl_slurp_eval($query.rewrite) as $v", "( _repl_slurp_eval($query.slurp_args[0]) as $v", "slurp-eval:_slurp/1:rewrite")
	add("c11-repl-feed-element", "C11.repl", "pkg/interp/init.jq", "          | map(_cli_eval($opts.expr; $eval_opts))\n          | _repl({})", "          | map(_cli_eval($opts.expr; $eval_opts))\n          | .[0]\n          | _repl({})", "feed:_main/0#1")
	add("c11-repl-collect-swallow", "C11.repl", rjq, "    ]\n  catch\n    error(.error);", "    ]\n  catch\n    [];", "collect:_repl_slurp_eval/1")
	add("c11-repl-orphan-handler", "C11.repl", rjq, ", slurp: \"_slurp\"", ", slurp: \"_repl_slurp\"", "slurp-target:_slurp/1")

	// C11.handler
	add("c11-handler-reraise", "C11.handler", "pkg/interp/init.jq", "def _cli_eval_on_expr_error:\n  ( if _is_object then", "def _cli_eval_on_expr_error:\n  ( if . == \"context canceled\" then error end\n  | if _is_object then", "total:_cli_eval_on_expr_error:_cli_eval_on_expr_error/0")
	add("c11-handler-callee-raises", "C11.handler", "pkg/interp/internal.jq", "def _error_str($contexts): ([\"error\"] + $contexts + [.]) | join(\": \");", "def _error_str($contexts): if . == \"\" then error else ([\"error\"] + $contexts + [.]) | join(\": \") end;", "total:_cli_eval_on_expr_error:_error_str/1")
	add("c11-handler-repl-halts", "C11.handler", rjq, "def _repl_on_expr_error:\n  ( if _eval_is_compile_error then", "def _repl_on_expr_error:\n  ( if . == \"eof\" then halt end\n  | if _eval_is_compile_error then", "total:_repl_on_expr_error:_repl_on_expr_error/0")

	// C11.expr
	const ojq = "pkg/interp/options.jq"
	add("c11-expr-merge-left", "C11.expr", "pkg/interp/init.jq", "| . + _opt_eval($rest)", "| _opt_eval($rest) + .", "merge:_main")
	add("c11-expr-arg-index", "C11.expr", ojq, "else $rest[0] // null", "else $rest[1] // null", "source:_opt_eval:arg")
	add("c11-expr-file-trim", "C11.expr", ojq, "try (open | tobytes | tostring)\n            catch (\"\\($expr_file)", "try (open | tobytes | tostring | rtrimstr(\"\\n\"))\n            catch (\"\\($expr_file)", "source:_opt_eval:file")
	add("c11-expr-late-transform", "C11.expr", ojq, "  | with_entries(select(.value != null))\n  );", "  | with_entries(select(.value != null))\n  | with_entries(.value |= if _is_string then ltrimstr(\"@\") end)\n  );", "after:_opt_eval:2")
	add("c11-expr-options-default", "C11.expr", ojq, "  | .line_bytes |= (. // $display_bytes)\n", "  | .line_bytes |= (. // $display_bytes)\n  | .expr |= (. // \".\")\n", "after:options/1:")
	add("c11-expr-other-key", "C11.expr", "pkg/interp/init.jq", "          | map(_cli_eval($opts.expr; $eval_opts))", "          | map(_cli_eval($opts.expr_file; $eval_opts))", "arg:_main:call1")

	// C11.inputs
	const ijq = "pkg/interp/init.jq"
	add("c11-inputs-repl-drop-arm", "C11.inputs", ijq, "              elif $opts.string_input then inputs\n              elif $opts.slurp then [inputs]\n", "              elif $opts.slurp then [inputs]\n", "agree:_main:call1~call2:$opts.null_input=0,$opts.slurp=1,$opts.string_input=1")
	add("c11-inputs-query-arm-order", "C11.inputs", ijq, "elif $opts.string_input then _query_func(\"inputs\")\n                    elif $opts.slurp then _query_func(\"inputs\") | _query_array\n", "elif $opts.slurp then _query_func(\"inputs\") | _query_array\n                    elif $opts.string_input then _query_func(\"inputs\")\n", "agree:_main:call1~call2:$opts.null_input=0,$opts.slurp=1,$opts.string_input=1")
	add("c11-inputs-null-after-slurp", "C11.inputs", ijq, "              if $opts.null_input then null\n              elif $opts.string_input then inputs\n              elif $opts.slurp then [inputs]\n", "              if $opts.string_input then inputs\n              elif $opts.slurp then [inputs]\n              elif $opts.null_input then null\n", "agree:_main:call1~call2:$opts.null_input=1,$opts.slurp=1,$opts.string_input=0")
	add("c11-inputs-drop-map", "C11.inputs", ijq, "| map(_cli_eval($opts.expr; $eval_opts))", "| _cli_eval($opts.expr; $eval_opts)", "agree:_main:call1~call2:$opts.null_input=0,$opts.slurp=0,$opts.string_input=0")
	add("c11-inputs-other-expr", "C11.inputs", ijq, "| map(_cli_eval($opts.expr; $eval_opts))", "| map(_cli_eval($opts.expr_file; $eval_opts))", "expr:_main:call1~call2")
}
