package rules

import (
	"strings"

	"github.com/wader/gojq"

	"fqverif/fw"
)

// Round 3 additions to the C17 rules (self-review by mutation).

// ---------------------------------------------------------------------------
// C17.handlers: the runtime error handler must survive every value a program can raise

// c17HandlersMore: _cli_eval_on_expr_error receives the value the user program passed to
// error(...) — any jq value. The message it prints is built with _error_str, which joins its
// parts; join raises on objects and arrays. A failure inside the handler is not caught by the
// per-output try (the handler IS its catch): it ends the iteration over the inputs, so one input
// whose program raises such a value prevents the processing of all later inputs.
func c17HandlersMore(m *c17Model, ru *fw.Rule) {
	d := m.def(ru, "_cli_eval_on_expr_error", 0)
	if d == nil {
		return
	}
	// a program that does not compile ends the run with 3: the compile error callback must end by halting
	if cd := m.def(ru, "_cli_eval_on_compile_error", 0); cd != nil {
		st := c17Steps(cd.Def.Body)
		last := st[len(st)-1]
		code := ""
		if fe := fw.JQIsCall(last.Q, "_fatal_error", 1); fe != nil && last.Bind == nil {
			code, _ = m.codeOf(fe.Args[0])
		}
		ru.Check(code == "3", "on_compile_error:halts", c17Pos(cd), "ends in _fatal_error(3)", "the compile error callback does not end by halting with 3 (_fatal_error(_exit_code_compile_error)): "+c17S(last.Q))
	}
	// the handler itself must not raise: a failure inside it is not caught by the per-output try
	{
		var hz []string
		m.kindHazards = &hz
		m.kindSeq(d, c17Steps(d.Def.Body), c17KEnv{dot: c17KAny, vars: map[string]c17Kind{}}, 0)
		m.kindHazards = nil
		ru.Check(len(hz) == 0, "on_expr_error:no-raise", c17Pos(d), "every field access in the handler is applied to an object or null",
			"the handler can raise on a value the program controls ("+strings.Join(hz, "; ")+"): the failure escapes the per-output try and ends the run, later inputs are not processed")
	}
	// the record must not sit behind a step that yields nothing: the printers output empty, a
	// recording step downstream of them never runs and the exit status stays 0
	{
		recs := c17Calls(d.Def.Body, "_cli_last_expr_error", 1, false)
		prints := func(s c17Step) bool {
			for _, n := range []string{"printerrln", "printerr", "println", "print", "_stderr", "_stdout"} {
				if c17HasCall(s.Q, n, 0) {
					return true
				}
			}
			return false
		}
		if len(recs) == 1 {
			ru.Check(!c17Before(d.Def.Body, prints, recs[0]), "on_expr_error:record-before-print", c17Pos(d), "the error is recorded ahead of the step that prints it",
				"the recording step is downstream of a printing step; the printers yield no output, so the record is never evaluated and a runtime error no longer gives exit status 5")
		}
	}
	isMsg := func(q *gojq.Query) bool {
		return fw.JQIsCall(q, "_error_str", 1) != nil || fw.JQIsCall(q, "_error_str", 0) != nil
	}
	es := m.def(ru, "_error_str", 1)
	if es == nil {
		return
	}
	// _error_str joins `.` with its contexts: the obligation on `.` only exists while it does
	joins := c17HasCall(es.Def.Body, "join", 1)
	k, ok := m.kindAt(d, c17Steps(d.Def.Body), c17KEnv{dot: c17KAny, vars: map[string]c17Kind{}}, isMsg)
	switch {
	case !ok:
		ru.Undecided("on_expr_error:message-kind", c17Pos(d), "cannot find the step that formats the message (_error_str) in the pipeline of the handler")
	case !joins:
		ru.Ok("on_expr_error:message-kind", c17Pos(d), "_error_str does not join: any value can be formatted")
	default:
		ru.Check(k&^c17KScalar == 0, "on_expr_error:message-kind", c17Pos(d), "the value handed to _error_str is always a scalar ("+k.String()+")",
			"the value handed to _error_str can be "+k.String()+": for a program that raises an object (error({a:1})) or an object whose .error is not a scalar, "+
				"join fails inside the handler, the failure escapes the per-output try and ends the whole run — later inputs are not processed and the message is a dump of the internal error")
	}
}

// ---------------------------------------------------------------------------
// condition normal form

// c17NormCond gives a canonical text for a boolean condition so that `X | not`, `X == false`
// and `not X` style spellings compare equal: it returns the positive text and the polarity.
func c17NormCond(q *gojq.Query) (string, bool) {
	q = c17Unparen(q)
	if q == nil {
		return "", true
	}
	if q.Op == gojq.OpPipe && q.Left != nil && fw.JQIsCall(q.Right, "not", 0) != nil {
		t, pol := c17NormCond(q.Left)
		return t, !pol
	}
	if q.Left != nil && q.Right != nil {
		r := c17Unparen(q.Right)
		isLit := func(tt gojq.TermType) bool {
			return r != nil && r.Left == nil && r.Term != nil && r.Term.Type == tt && len(r.Term.SuffixList) == 0
		}
		switch q.Op {
		case gojq.OpEq:
			if isLit(gojq.TermTypeFalse) {
				t, pol := c17NormCond(q.Left)
				return t, !pol
			}
			if isLit(gojq.TermTypeTrue) {
				return c17NormCond(q.Left)
			}
		case gojq.OpNe:
			if isLit(gojq.TermTypeTrue) {
				t, pol := c17NormCond(q.Left)
				return t, !pol
			}
			cp := *q
			cp.Op = gojq.OpEq
			return c17S(&cp), false
		case gojq.OpGe:
			cp := *q
			cp.Op = gojq.OpLt
			return c17S(&cp), false
		case gojq.OpLe:
			cp := *q
			cp.Op = gojq.OpGt
			return c17S(&cp), false
		}
	}
	return c17S(q), true
}

// c17Conjuncts flattens a and b and c.
func c17Conjuncts(q *gojq.Query) []*gojq.Query {
	q = c17Unparen(q)
	if q == nil {
		return nil
	}
	if q.Op == gojq.OpAnd && q.Left != nil {
		return append(c17Conjuncts(q.Left), c17Conjuncts(q.Right)...)
	}
	return []*gojq.Query{q}
}

// c17SumOperands flattens a + b + c.
func c17SumOperands(q *gojq.Query) []*gojq.Query {
	q = c17Unparen(q)
	if q == nil {
		return nil
	}
	if q.Op == gojq.OpAdd && q.Left != nil {
		return append(c17SumOperands(q.Left), c17SumOperands(q.Right)...)
	}
	return []*gojq.Query{q}
}

// ---------------------------------------------------------------------------
// C17.rawinput: which mode yields the joined text

func c17RawInputMore(m *c17Model, ru *fw.Rule, d *fw.JQDef, pos string, drain, split *gojq.Func) {
	P := d.Def.Args[0]
	found, ok := false, false
	for _, q := range c17AllQueries(d.Def.Body) {
		i := c17IsIf(q)
		if i == nil || len(i.Elif) > 0 || i.Else == nil {
			continue
		}
		inThen, inElse := c17ContainsNode(i.Then, drain), c17ContainsNode(i.Else, drain)
		if !inThen && !inElse {
			continue
		}
		if c17ContainsNode(i.Cond, drain) {
			continue
		}
		splitThen, splitElse := c17ContainsNode(i.Then, split), c17ContainsNode(i.Else, split)
		if !splitThen && !splitElse {
			continue // an inner if, both stores are not separated here
		}
		found = true
		t, pol := c17NormCond(i.Cond)
		// the arm taken when P.slurp holds must be the one that yields the joined text once
		if t == P+".slurp" {
			if pol {
				ok = inThen && splitElse
			} else {
				ok = inElse && splitThen
			}
		}
	}
	if !found {
		ru.Undecided("slurp:guard", pos, "cannot find the if that separates the --slurp arm (joined text) from the line splitting arm")
		return
	}
	ru.Check(ok, "slurp:guard", pos, "the joined text is yielded iff "+P+".slurp, lines otherwise",
		"the choice between one joined string (-Rs) and line by line (-R) is not made on "+P+".slurp")
}

// ---------------------------------------------------------------------------
// C17.modes: usage on a terminal, named arguments, remaining derivations, -o conversions

func c17ModesMore(m *c17Model, ru *fw.Rule, md *fw.JQDef, oe *fw.JQDef, f map[string]*gojq.Query, OP string) {
	mpos := c17Pos(md)
	pos := c17Pos(oe)

	// --- usage + exit 2 only when nothing at all was asked for and both ends are terminals
	{
		var usageCond, usageThen *gojq.Query
		nUsage := 0
		for _, q := range c17AllQueries(md.Def.Body) {
			i := c17IsIf(q)
			if i == nil {
				continue
			}
			for _, a := range c17Arms(i) {
				if a.Cond == nil || a.Then == nil {
					continue
				}
				isUsage := false
				for _, h := range c17Calls(a.Then, "_help", 2, false) {
					if s, ok := fw.JQConstString(h.Args[1]); ok && s == "usage" {
						isUsage = true
					}
				}
				// the arm itself, not an enclosing one
				if isUsage && !c17HasCall(a.Then, "_cli_eval", 2) && usageCond != a.Cond {
					usageCond, usageThen = a.Cond, a.Then
					nUsage++
				}
			}
		}
		if usageCond == nil || nUsage != 1 {
			ru.Undecided("main:usage-guard", mpos, "cannot find the arm of _main that prints the usage")
		} else {
			// usage goes to stderr first, then the run halts with the argument error status
			alts := c17Commas(usageThen)
			code := ""
			if len(alts) >= 2 {
				if cq, ok := c17HaltOf(alts[len(alts)-1]); ok {
					code, _ = m.codeOf(cq)
				}
			}
			ru.Check(code == "2" && c17HasCall(alts[0], "printerrln", 0), "main:usage-guard:halts-2", mpos, "usage to stderr, then null | halt_error(2)",
				"asking for nothing on a terminal must print the usage to stderr and exit with 2 (argument error); the arm is: "+c17S(usageThen))
			have := map[string]bool{}
			for _, c := range c17Conjuncts(usageCond) {
				t, pol := c17NormCond(c)
				if !pol {
					t = "not " + t
				}
				have[t] = true
			}
			for _, w := range []struct{ key, text, why string }{
				{"no-files", OP + ".filenames == [null]", "input files were given"},
				{"no-null-input", "not " + OP + ".null_input", "-n was given"},
				{"no-repl", "not " + OP + ".repl", "-i was given"},
				{"no-expr-file", "not " + OP + ".expr_file", "-f FILE was given"},
				{"no-expr", "not " + OP + ".expr_given", "a program was given"},
				{"stdin-tty", "stdin_tty.is_terminal", "stdin is a pipe or file"},
				{"stdout-tty", "stdout_tty.is_terminal", "stdout is a pipe or file"},
			} {
				ru.Check(have[w.text], "main:usage-guard:"+w.key, mpos, w.text, "the `usage + exit 2` arm is not guarded by `"+w.text+"`: fq prints the usage and exits 2 instead of running although "+w.why)
			}
		}
	}

	// --- named arguments: every pair option reaches the variables, name first, value second
	opts, _ := m.cliOpts(ru)
	var pairOpts []string
	for _, o := range opts {
		if len(o.kinds) == 1 && o.kinds[0] == "pairs" {
			pairOpts = append(pairOpts, o.name)
		}
	}
	{
		calls := c17Calls(md.Def.Body, "_slurps", 1, true)
		if len(calls) != 1 || len(pairOpts) == 0 {
			ru.Undecided("main:named-args", mpos, "cannot find the single _slurps(...) store of the named arguments in _main (or no pair options)")
		} else {
			st := c17Steps(calls[0].Args[0])
			reads := map[string]bool{}
			if len(st) >= 1 {
				for _, op := range c17SumOperands(st[0].Q) {
					os := c17Steps(op)
					if len(os) == 0 || os[0].Bind != nil {
						continue
					}
					for _, n := range pairOpts {
						if c17S(os[0].Q) == OP+"."+n {
							reads[n] = true
						}
					}
				}
			}
			for _, n := range pairOpts {
				ru.Check(reads[n], "main:named-args:"+n, mpos, OP+"."+n+" is part of the variables", "the pairs given with the option "+n+" are not added to the named arguments: $NAME is undefined in the program")
			}
			entryOK := false
			if len(st) == 3 && st[1].Bind == nil && st[2].Bind == nil && fw.JQIsCall(st[2].Q, "from_entries", 0) != nil {
				if mp := fw.JQIsCall(st[1].Q, "map", 1); mp != nil {
					if kvs, ok := c17ObjLit(mp.Args[0]); ok && len(kvs) == 2 {
						got := map[string]string{}
						for _, kv := range kvs {
							got[c17KVKey(kv)] = c17S(kv.Val)
						}
						entryOK = got["key"] == ".[0]" && got["value"] == ".[1]"
					}
				}
			}
			ru.Check(entryOK, "main:named-args:entry", mpos, "map({key: .[0], value: .[1]}) | from_entries", "a [NAME, VALUE] pair does not become the variable NAME with the value VALUE: "+c17S(calls[0].Args[0]))
		}
	}
	// value transforms act on the value position of the pair
	{
		idxOf := func(n any) []string {
			var out []string
			fw.WalkJQ(n, func(x any) bool {
				if q, ok := x.(*gojq.Query); ok && q.Op == gojq.OpModify && q.Left != nil {
					out = append(out, c17S(q.Left))
				}
				return true
			}, false)
			return out
		}
		chk := func(name string, n any, p string) {
			ix := idxOf(n)
			ru.Check(len(ix) == 1 && ix[0] == ".[1]", "named-args:"+name+":value-index", p, "the VALUE (.[1]) of each pair is converted",
				"the conversion of option "+name+" does not update exactly the value position .[1] of each [NAME, VALUE] pair")
		}
		if f["argjson"] != nil {
			chk("argjson", f["argjson"], pos)
		} else {
			ru.Undecided("named-args:argjson:value-index", pos, "no argjson derivation in _opt_eval")
		}
		if f["raw_file"] != nil {
			chk("raw_file", f["raw_file"], pos)
		} else {
			ru.Undecided("named-args:raw_file:value-index", pos, "no raw_file derivation in _opt_eval")
		}
		if ad := m.jq.Nested(md, "_map_argdecode", 0); ad != nil {
			chk("argdecode", ad.Def.Body, mpos)
		} else {
			// inline: look at the operand of the sum that reads OP.argdecode
			found := false
			for _, c := range c17Calls(md.Def.Body, "_slurps", 1, true) {
				for _, op := range c17SumOperands(c17Steps(c.Args[0])[0].Q) {
					if os := c17Steps(op); len(os) > 1 && c17S(os[0].Q) == OP+".argdecode" {
						chk("argdecode", op, mpos)
						found = true
					}
				}
			}
			if !found {
				ru.Undecided("named-args:argdecode:value-index", mpos, "cannot find where the PATH of --argdecode NAME PATH is opened and decoded")
			}
		}
	}

	// --- remaining derivations of _opt_eval
	chk := func(key, got, want, why string) {
		ru.Check(got == want, "opt_eval:"+key, pos, want, why+": "+got+" (expected "+want+")")
	}
	chk("unicode", c17Decision(f["unicode"]), ".unicode_output == true => true ; else => null", "-U derivation")
	chk("value_output", c17Decision(f["value_output"]), ".value_output == true => true ; else => null", "-V derivation")
	// -o KEY=@PATH: value is the content of PATH (without the @)
	{
		okSel, okBody := false, false
		for _, c := range c17Calls(oe.Def.Body, "select", 1, false) {
			if c17S(c.Args[0]) == `.value | _is_string and startswith("@")` {
				okSel = true
			}
		}
		for _, t := range c17Tries(oe.Def.Body) {
			if c17S(t.Body) == ".[1:] | open | tobytes | tostring" {
				okBody = true
			}
		}
		ru.Check(okSel && okBody, "opt_eval:at-file", pos, "KEY=@PATH reads PATH", "the @PATH form of option values is not `select(.value | _is_string and startswith(\"@\"))` read with `.[1:] | open | tobytes | tostring`")
	}

	// --- -o KEY=VALUE: a value that cannot be converted is dropped, it must not override with null
	if cd := m.def(ru, "_opt_cli_arg_to_options", 0); cd != nil {
		conv, drop := -1, -1
		for _, c := range c17Calls(cd.Def.Body, "with_entries", 1, false) {
			for i, st := range c17Steps(c.Args[0]) {
				if st.Bind != nil {
					continue
				}
				if u := c17Unparen(st.Q); u.Op == gojq.OpModify && c17S(u.Left) == ".value" && c17HasCall(u.Right, "_opt_to", 1) {
					conv = i
				}
				if sel := fw.JQIsCall(st.Q, "select", 1); sel != nil && c17S(sel.Args[0]) == ".value != null" {
					drop = i
				}
			}
		}
		ru.Check(conv >= 0 && drop > conv, "opt_to:drop-invalid", c17Pos(cd), ".value |= _opt_to(type) | select(.value != null)", "-o values are not converted with _opt_to and dropped when the conversion yields null")
	}

	// --- -o KEY=VALUE conversion table: each declared option type has its converter
	if od, td := m.def(ru, "_opt_options", 0), m.def(ru, "_opt_to", 1); od != nil && td != nil {
		types := map[string]bool{}
		if kvs, ok := c17ObjLit(od.Def.Body); ok {
			for _, kv := range kvs {
				if s, ok := fw.JQConstString(kv.Val); ok {
					types[s] = true
				}
			}
		}
		T := td.Def.Args[0]
		conv := map[string]string{}
		if i := c17IsIf(td.Def.Body); i != nil {
			for _, a := range c17Arms(i) {
				if a.Cond == nil {
					continue
				}
				c := c17Unparen(a.Cond)
				if c.Op == gojq.OpEq && c17S(c.Left) == T {
					if s, ok := fw.JQConstString(c.Right); ok {
						if fn := fw.JQIsCall(a.Then, "", 0); fn != nil {
							conv[s] = fn.Name
						}
					}
				}
			}
		}
		if len(types) < 5 || len(conv) < 5 {
			ru.Undecided("opt_to:table", c17Pos(td), "cannot read the option type table (_opt_options) or the converter dispatch (_opt_to)")
		} else {
			for _, t := range c17SortedSet(types) {
				ru.Check(conv[t] == "_opt_to_"+t, "opt_to:"+t, c17Pos(td), t+" -> _opt_to_"+t, "-o values of type "+t+" are converted by `"+conv[t]+"`, expected _opt_to_"+t)
			}
		}
	}
}
