package rules

import (
	"fmt"
	"go/constant"
	"go/token"
	"go/types"
	"sort"

	"golang.org/x/tools/go/ssa"

	"fqverif/fw"
)

type c16BsonSpec struct {
	class string // repr class
	shape string // f64 | string | doc | binary | raw | u | s | null | cstr2 | none
	n     int64
}

// bsonspec.org/spec.html, element ::= type e_name value
var c16BsonSpecs = map[int64]c16BsonSpec{
	0x01: {"scalar", "F", 64},
	0x02: {"scalar", "string", 0},
	0x03: {"map", "doc", 0},
	0x04: {"array", "doc", 0},
	0x05: {"bytes", "binary", 0},
	0x07: {"bytes", "raw", 96},
	0x08: {"bool", "U", 8},
	0x09: {"scalar", "S", 64},
	0x0a: {"scalar", "null", 0},
	0x0b: {"scalar", "cstr2", 0},
	0x0d: {"scalar", "string", 0},
	0x10: {"scalar", "S", 32},
	0x11: {"scalar", "U", 64},
	0x12: {"scalar", "S", 64},
	0x13: {"bytes", "raw", 128},
}

func (x *c16) bson() *c16Format {
	f := &c16Format{Name: "bson", Pkg: "format/bson", Syms: map[string]map[string]bool{"type": {}}}
	rf := x.r.Rule("C16.bson.frame", "bson: the decoder is little-endian; a document is int32 size, elements framed to (size-4) bytes, elements while more than the terminator byte is left, then the 0x00 terminator byte; an element is U8 type + cstring name", 7)
	rr := x.r.Rule("C16.bson.row", "bson: each element type's switch arm reads what bsonspec.org says (double F64, string int32+bytes, document/array = nested document, binary int32+subtype+bytes, bool U8, null, int32 S32, int64 S64 ...) and the type has a Sym in elementTypeMap", 15)

	root := x.decodeRootOf(f.Pkg)
	if root == nil {
		rf.Undecided("anchor", "", "format/bson has no resolvable DecodeFn root")
		return f
	}
	f.PkgFields = x.pkgFields(f.Pkg)
	// endianness
	endT := x.p.NamedType("pkg/decode", "Endian")
	var little constant.Value
	if pk := x.p.Pkg("pkg/decode"); pk != nil {
		if c, ok := pk.Types.Scope().Lookup("LittleEndian").(*types.Const); ok {
			little = c.Val()
		}
	}
	if endT == nil || little == nil {
		rf.Undecided("endian", "", "decode.Endian / decode.LittleEndian not found")
	} else {
		var st *ssa.Store
		var docCall *ssa.Call
		for _, ins := range root.Blocks[0].Instrs {
			if s, ok := ins.(*ssa.Store); ok && st == nil {
				if fa, ok := s.Addr.(*ssa.FieldAddr); ok && types.Identical(s.Val.Type(), endT) && fa.X == ssa.Value(root.Params[0]) {
					st = s
				}
			}
			if c, ok := ins.(*ssa.Call); ok && docCall == nil {
				if cal := c.Common().StaticCallee(); cal != nil && pkgRel(cal) == f.Pkg {
					docCall = c
					if st == nil {
						break
					}
				}
			}
		}
		good := false
		if st != nil && docCall != nil {
			if c, ok := st.Val.(*ssa.Const); ok && c.Value != nil && constant.Compare(c.Value, token.EQL, little) {
				good = true
			}
		}
		rf.Check(good, "endian", x.p.Rel(root.Pos()), "d.Endian = LittleEndian before decoding", "the BSON root does not select little-endian before decoding the document: every int32/int64/double is byte-swapped")
	}
	// document function = the function the root calls
	var doc *ssa.Function
	for _, c := range fw.CallsIn(root) {
		if cal := c.Common().StaticCallee(); cal != nil && pkgRel(cal) == f.Pkg {
			doc = cal
		}
	}
	if doc == nil {
		rf.Undecided("anchor:document", x.p.Rel(root.Pos()), "document decoder not found")
		return f
	}
	e := newC16Eval()
	dops := x.opsOfFn(doc, e)
	rd := c16Reads(dops)
	fr := c16Find(dops, "Framed")
	dpos := x.p.Rel(doc.Pos())
	if len(rd) != 1 || len(fr) != 1 {
		rf.Undecided("document", dpos, "expected `size` read followed by one FramedFn")
		return f
	}
	w, isC := rd[0].Bits.isConst()
	rf.Check((rd[0].Kind == "S" || rd[0].Kind == "U") && isC && w == 32, "document:size", dpos, "int32 size", fmt.Sprintf("document size is read as %s%s, spec says int32", rd[0].Kind, rd[0].Bits))
	frameBits := e.lin(fr[0].Args[0])
	rf.Check(frameBits.eq(linA("$1").mulC(8).add(linC(-32))), "document:frame", dpos, "frame = (size-4)*8 bits", "document frame is "+frameBits.String()+" bits, expected 8*size-32 (size counts its own 4 bytes)")
	body := c16FnArg(fr[0], 1)
	if body == nil {
		rf.Undecided("document:body", dpos, "frame body unresolvable")
		return f
	}
	bops := x.opsOfFn(body, newC16Eval())
	arrs := c16Find(bops, "Array")
	brd := c16Reads(bops)
	goodTerm := len(brd) == 1 && brd[0].Kind == "U"
	if goodTerm {
		w, isC := brd[0].Bits.isConst()
		goodTerm = isC && w == 8
	}
	rf.Check(len(arrs) == 1 && goodTerm, "document:terminator", x.p.Rel(body.Pos()), "elements array then U8 terminator", "document body is not `elements` followed by the one-byte terminator")
	if len(arrs) != 1 {
		return f
	}
	loopFn := c16FnArg(arrs[0], 1)
	if loopFn == nil {
		rf.Undecided("document:loop", dpos, "elements closure unresolvable")
		return f
	}
	// loop: continue while BitsLeft() > 8
	loopOK := false
	var elemFn *ssa.Function
	fw.EachInstr(loopFn, func(ins ssa.Instruction) {
		ifi, ok := ins.(*ssa.If)
		if !ok {
			return
		}
		bo, ok := ifi.Cond.(*ssa.BinOp)
		if !ok {
			return
		}
		call, ok := bo.X.(*ssa.Call)
		if !ok {
			return
		}
		o, ok := x.op(call, newC16Eval())
		if !ok || o.Name != "BitsLeft" {
			return
		}
		c, isC := c16ConstInt(bo.Y)
		inLoop := c16Reaches(ifi.Block().Succs[0], ifi.Block())
		if isC && inLoop && ((bo.Op == token.GTR && c == 8) || (bo.Op == token.GEQ && c == 9)) {
			loopOK = true
		}
	})
	rf.Check(loopOK, "document:loop", x.p.Rel(loopFn.Pos()), "elements while BitsLeft() > 8", "element loop does not run exactly while more than the 8 terminator bits are left in the frame")
	for _, o := range c16Find(x.opsOfFn(loopFn, newC16Eval()), "Struct") {
		elemFn = c16FnArg(o, 1)
	}
	if elemFn == nil {
		rf.Undecided("element", dpos, "element closure unresolvable")
		return f
	}
	// element head
	ee := newC16Eval()
	eops := x.opsIn(elemFn.Blocks[:1], ee)
	erd := c16Reads(eops)
	epos := x.p.Rel(elemFn.Pos())
	if len(erd) < 2 {
		rf.Undecided("element:head", epos, "element head reads not found")
		return f
	}
	tw, tC := erd[0].Bits.isConst()
	rf.Check(erd[0].Kind == "U" && tC && tw == 8 && erd[0].Field == "type", "element:type", epos, "U8 type", fmt.Sprintf("element type read as %s%s named %q", erd[0].Kind, erd[0].Bits, erd[0].Field))
	rf.Check(erd[1].Kind == "UTF8Null" && erd[1].Field == "name", "element:name", epos, "cstring name", fmt.Sprintf("element name read as %s named %q", erd[1].Kind, erd[1].Field))
	typ := erd[0].Call
	g := c16MapperGlobal(typ)
	if g == nil {
		rf.Undecided("element:mapper", epos, "type field has no package-level map mapper")
		return f
	}
	rows, why := x.globalMapRows(g)
	if why != "" {
		rf.Undecided("element:mapper", epos, why)
		return f
	}
	symOf := map[int64]string{}
	for _, row := range rows {
		k, ok1 := c16KeyInt(row.Key)
		s, ok2 := c16Sym(row)
		if ok1 && ok2 {
			symOf[k] = s
			f.Syms["type"][s] = true
		}
	}
	// arms
	fl := c16Facts(elemFn, nil)
	cases := c16CaseConsts(elemFn, typ)
	head := c16Fields(eops)
	var codes []int64
	for c := range c16BsonSpecs {
		codes = append(codes, c)
	}
	sort.Slice(codes, func(i, j int) bool { return codes[i] < codes[j] })
	for _, code := range codes {
		spec := c16BsonSpecs[code]
		key := fmt.Sprintf("type:%#02x", code)
		if _, ok := cases[fmt.Sprint(code)]; !ok {
			rr.Fail(key, epos, "element type has no switch case: its payload is swallowed as raw bytes to the end of the document")
			continue
		}
		sym, ok := symOf[code]
		if !ok {
			rr.Fail(key, epos, "element type has no Sym in the type map: torepr cannot route it")
			continue
		}
		arm := fl.armBlocks(typ, map[string]bool{fmt.Sprint(code): true})
		ae := newC16Eval()
		aops := x.opsIn(arm, ae)
		msg := x.bsonArm(spec, aops, doc)
		pos := epos
		if len(arm) > 0 && len(arm[0].Instrs) > 0 {
			pos = x.p.Rel(arm[0].Instrs[0].Pos())
		}
		rr.Check(msg == "", key, pos, sym+" agrees with the spec", fmt.Sprintf("element type %#02x (%s): %s", code, sym, msg))
		prod := c16Fields(aops)
		for k := range head {
			prod[k] = true
		}
		f.Rows = append(f.Rows, c16GoRow{Key: key, Attrs: map[string]string{"type": sym}, Class: spec.class, Produced: prod, Pos: pos})
	}
	return f
}

func (x *c16) bsonArm(spec c16BsonSpec, ops []c16Op, doc *ssa.Function) string {
	for _, o := range ops {
		if m := c16ReaderRE.FindStringSubmatch(o.Name); m != nil && m[4] == "BE" {
			return o.Name + ": big-endian reader in a little-endian format"
		}
	}
	rd := c16Reads(ops)
	net, ok := c16Net(ops)
	isK := func(o c16Op, kinds string, bits int64) bool {
		c, ok := o.Bits.isConst()
		return len(o.Kind) == 1 && containsByte(kinds, o.Kind[0]) && ok && c == bits
	}
	named := func(o c16Op) string {
		if o.Field != "value" {
			return fmt.Sprintf("payload field is %q, not \"value\"", o.Field)
		}
		return ""
	}
	len1 := linA("$1").mulC(8)
	switch spec.shape {
	case "F", "U", "S":
		if len(rd) != 1 || !isK(rd[0], spec.shape, spec.n) {
			return fmt.Sprintf("expected one %s%d read, found %s", spec.shape, spec.n, c16OpsStr(rd))
		}
		return named(rd[0])
	case "raw":
		if len(rd) != 1 || rd[0].Kind != "Raw" || !rd[0].Bits.eq(linC(spec.n)) {
			return fmt.Sprintf("expected %d raw bits, found %s", spec.n, c16OpsStr(rd))
		}
		return named(rd[0])
	case "string":
		if len(rd) == 2 && rd[1].Kind == "UTF8NullFixed" {
			return "the value is read with a reader that cuts at the first NUL: a bson string may contain NUL bytes, only its last byte is the terminator"
		}
		if len(rd) != 2 || !isK(rd[0], "US", 32) || rd[1].Kind != "UTF8" || !rd[1].Bits.eq(len1) {
			return "expected int32 length then length bytes (incl. NUL), found " + c16OpsStr(rd)
		}
		// the length bytes include the terminator: without a mapper it would be part of the value
		if a := rd[1].Call.Common().Args; len(a) == 0 {
			return "no arguments on the value read"
		} else if c, isC := a[len(a)-1].(*ssa.Const); isC && c.IsNil() {
			return "the value read has no mapper: the terminating NUL stays in the value"
		}
		if !ok || !net.eq(len1.add(linC(32))) {
			return "net bits " + net.String()
		}
		if why := x.c16StripsOneNUL(rd[1].Call); why != "" {
			return why
		}
		return named(rd[1])
	case "binary":
		if len(rd) != 3 || !isK(rd[0], "US", 32) || !isK(rd[1], "U", 8) || rd[2].Kind != "Raw" || !rd[2].Bits.eq(len1) {
			return "expected int32 length, U8 subtype, length bytes, found " + c16OpsStr(rd)
		}
		return named(rd[2])
	case "doc":
		ss := c16Find(ops, "Struct")
		if len(rd) != 0 || len(ss) != 1 || c16FnArg(ss[0], 1) != doc {
			return "expected a nested document decoded by " + doc.Name()
		}
		return named(ss[0])
	case "null":
		vs := c16Find(ops, "ValAny")
		if len(rd) != 0 || len(vs) != 1 || len(vs[0].Args) < 2 {
			return "expected a synthetic null value and no reads"
		}
		if c, isC := vs[0].Args[1].(*ssa.Const); !isC || !c.IsNil() {
			return "null yields a non-nil value"
		}
		return named(vs[0])
	case "cstr2":
		if len(rd) != 2 || rd[0].Kind != "UTF8Null" || rd[1].Kind != "UTF8Null" {
			return "expected two cstrings, found " + c16OpsStr(rd)
		}
		return named(rd[0])
	}
	return "unknown shape"
}

func containsByte(s string, b byte) bool {
	for i := 0; i < len(s); i++ {
		if s[i] == b {
			return true
		}
	}
	return false
}

func c16OpsStr(ops []c16Op) string {
	s := "["
	for i, o := range ops {
		if i > 0 {
			s += " "
		}
		s += o.Kind
		if o.Known {
			s += "(" + o.Bits.String() + ")"
		}
	}
	return s + "]"
}

// decodeRootOf returns the DecodeFn root declared in package rel (first by name).
func (x *c16) decodeRootOf(rel string) *ssa.Function {
	roots, _ := DecodeRoots(x.p)
	for _, f := range roots {
		if pkgRel(f) == rel && f.Parent() == nil {
			return f
		}
	}
	return nil
}

// c16MapperFns resolves the mapper functions handed to a Field<reader> call through its variadic
// argument: package-level mapper variables initialised from a function (scalar.StrFn(func…)) and
// function literals converted in place.
func (x *c16) c16MapperFns(call *ssa.Call) ([]*ssa.Function, string) {
	a := call.Common().Args
	if len(a) == 0 {
		return nil, "no arguments"
	}
	sl, ok := a[len(a)-1].(*ssa.Slice)
	if !ok {
		return nil, "mapper argument is not a literal argument list"
	}
	al, ok := sl.X.(*ssa.Alloc)
	if !ok {
		return nil, "mapper argument is not a literal argument list"
	}
	var out []*ssa.Function
	var fnOf func(v ssa.Value, d int) *ssa.Function
	fnOf = func(v ssa.Value, d int) *ssa.Function {
		if d > 6 {
			return nil
		}
		switch y := v.(type) {
		case *ssa.Function:
			return y
		case *ssa.MakeClosure:
			f, _ := y.Fn.(*ssa.Function)
			return f
		case *ssa.ChangeType:
			return fnOf(y.X, d+1)
		case *ssa.Convert:
			return fnOf(y.X, d+1)
		case *ssa.MakeInterface:
			return fnOf(y.X, d+1)
		case *ssa.UnOp:
			if g, ok := y.X.(*ssa.Global); ok && y.Op == token.MUL {
				// the single store to the global in its package's init
				var got *ssa.Function
				n := 0
				if init := g.Pkg.Func("init"); init != nil {
					fw.EachInstr(init, func(ins ssa.Instruction) {
						if st, ok := ins.(*ssa.Store); ok && st.Addr == ssa.Value(g) {
							n++
							got = fnOf(st.Val, d+1)
						}
					})
				}
				if n == 1 {
					return got
				}
			}
		}
		return nil
	}
	for _, r := range *al.Referrers() {
		ia, ok := r.(*ssa.IndexAddr)
		if !ok {
			continue
		}
		for _, rr := range *ia.Referrers() {
			if st, ok := rr.(*ssa.Store); ok && st.Addr == ssa.Value(ia) {
				f := fnOf(st.Val, 0)
				if f == nil {
					return nil, "a mapper of the value read is not resolvable to a function"
				}
				out = append(out, f)
			}
		}
	}
	if len(out) == 0 {
		return nil, "no mapper found"
	}
	return out, ""
}

// c16StripsOneNUL: the mapper that removes a length-prefixed string's terminator removes exactly its
// last byte: the only string surgery in it is strings.TrimSuffix(s, "\x00") or the slice s[:len(s)-1];
// TrimRight/Trim/TrimFunc/TrimSpace (strip a run) or a cut at an index found by searching change a
// value that itself ends in NUL bytes.
func (x *c16) c16StripsOneNUL(call *ssa.Call) string {
	fns, why := x.c16MapperFns(call)
	if why != "" {
		return why
	}
	strips := 0
	for _, f := range fns {
		bad := ""
		var visit func(fn *ssa.Function)
		visit = func(fn *ssa.Function) {
			fw.EachInstr(fn, func(ins ssa.Instruction) {
				switch y := ins.(type) {
				case *ssa.Call:
					cal := y.Common().StaticCallee()
					if cal == nil || cal.Pkg == nil {
						return
					}
					switch cal.Pkg.Pkg.Path() {
					case "strings", "bytes":
						if cal.Name() == "TrimSuffix" {
							if c, ok := y.Common().Args[1].(*ssa.Const); ok && c.Value != nil && constant.StringVal(c.Value) == "\x00" {
								strips++
								return
							}
							bad = cal.Name() + " with a suffix other than one NUL"
							return
						}
						bad = cal.Pkg.Pkg.Path() + "." + cal.Name() + " (only TrimSuffix(s, \"\\x00\") removes exactly the terminator)"
					}
				case *ssa.Slice:
					if _, isStr := y.X.Type().Underlying().(*types.Basic); !isStr {
						return
					}
					env := fw.NewPolyEnv(fn)
					if y.Low == nil && y.High != nil {
						d := env.Of(y.High).Sub(fw.PAtom("len(" + env.Of(y.X).String() + ")"))
						if c, ok := d.IsConst(); ok && c == -1 {
							strips++
							return
						}
					}
					bad = "a string slice other than s[:len(s)-1]"
				}
			})
			for _, an := range fn.AnonFuncs {
				visit(an)
			}
		}
		visit(f)
		if bad != "" {
			return "the terminator mapper uses " + bad + ": a value that itself ends in NUL bytes loses them"
		}
	}
	if strips == 0 {
		return "no mapper of the value read removes the terminating NUL"
	}
	return ""
}
