package rules

// SSA helpers for the C03 rules: canonical values (seeing through single-store cells,
// closure captures and interface/int conversions), access paths with value-identity roots,
// linear forms over such paths, struct-literal decomposition and ordering predicates.
// Nothing here looks at source text, names of locals or positions.

import (
	"fmt"
	"go/constant"
	"go/token"
	"go/types"
	"sort"
	"strings"

	"golang.org/x/tools/go/ssa"

	"fqverif/fw"
)

type c03x struct {
	p      *fw.Program
	valueT *types.Named
	compT  *types.Named
	dT     *types.Named
	rangeT *types.Named
	optsT  *types.Named

	bindCache  map[*ssa.FreeVar]ssa.Value
	storeCache map[*ssa.Alloc]*c03CellInfo
	litCache   map[*ssa.Alloc]map[string]ssa.Value
	ids        map[ssa.Value]int
}

type c03CellInfo struct {
	whole   []*ssa.Store // stores of the whole cell
	partial bool         // field/element stores or address escapes
}

func c03ElemOf(t types.Type) types.Type {
	if p, ok := t.Underlying().(*types.Pointer); ok {
		return p.Elem()
	}
	return t
}

func (c *c03x) isNamed(t types.Type, n *types.Named) bool {
	return n != nil && types.Identical(c03ElemOf(t), n)
}

// binding returns the value bound to a free variable at the (unique) MakeClosure of its function.
func (c *c03x) binding(fv *ssa.FreeVar) ssa.Value {
	if v, ok := c.bindCache[fv]; ok {
		return v
	}
	var res ssa.Value
	fn := fv.Parent()
	idx := -1
	for i, x := range fn.FreeVars {
		if x == fv {
			idx = i
		}
	}
	n := 0
	if par := fn.Parent(); par != nil && idx >= 0 {
		fw.EachInstr(par, func(ins ssa.Instruction) {
			if mc, ok := ins.(*ssa.MakeClosure); ok && mc.Fn == ssa.Value(fn) {
				n++
				res = mc.Bindings[idx]
			}
		})
	}
	if n != 1 {
		res = nil
	}
	c.bindCache[fv] = res
	return res
}

// cellOf resolves an address to the Alloc it denotes (through closure captures), or nil.
func (c *c03x) cellOf(addr ssa.Value) *ssa.Alloc {
	for i := 0; i < 8; i++ {
		switch x := addr.(type) {
		case *ssa.Alloc:
			return x
		case *ssa.FreeVar:
			b := c.binding(x)
			if b == nil {
				return nil
			}
			addr = b
		default:
			return nil
		}
	}
	return nil
}

// cell collects the stores to an Alloc in its function and in closures that capture it.
func (c *c03x) cell(a *ssa.Alloc) *c03CellInfo {
	if ci, ok := c.storeCache[a]; ok {
		return ci
	}
	ci := &c03CellInfo{}
	c.storeCache[a] = ci
	var scan func(addr ssa.Value)
	scan = func(addr ssa.Value) {
		refs := addr.Referrers()
		if refs == nil {
			return
		}
		for _, r := range *refs {
			switch x := r.(type) {
			case *ssa.Store:
				if x.Addr == addr {
					ci.whole = append(ci.whole, x)
				} else {
					ci.partial = true // address stored somewhere
				}
			case *ssa.UnOp, *ssa.DebugRef:
			case *ssa.FieldAddr:
				if c03AddrWritten(x) {
					ci.partial = true
				}
			case *ssa.IndexAddr:
				if c03AddrWritten(x) {
					ci.partial = true
				}
			case *ssa.MakeClosure:
				cl := x.Fn.(*ssa.Function)
				for i, b := range x.Bindings {
					if b == addr && i < len(cl.FreeVars) {
						scan(cl.FreeVars[i])
					}
				}
			default:
				ci.partial = true // call argument, return, phi ... the address escapes
			}
		}
	}
	scan(a)
	return ci
}

// addrWritten: an address derived from a cell is stored through or escapes.
func c03AddrWritten(a ssa.Value) bool {
	refs := a.Referrers()
	if refs == nil {
		return false
	}
	for _, r := range *refs {
		switch x := r.(type) {
		case *ssa.UnOp, *ssa.DebugRef:
		case *ssa.Store:
			return true
		case *ssa.FieldAddr:
			if c03AddrWritten(x) {
				return true
			}
		case *ssa.IndexAddr:
			if c03AddrWritten(x) {
				return true
			}
		default:
			_ = x
			return true
		}
	}
	return false
}

// singleVal: the cell is written exactly once as a whole, never partially, in its own function,
// and that store precedes every other use of the cell there (parameter spills, captured
// single-assignment locals); returns that value.
func (c *c03x) singleVal(a *ssa.Alloc) ssa.Value {
	ci := c.cell(a)
	if ci.partial || len(ci.whole) != 1 {
		return nil
	}
	st := ci.whole[0]
	if st.Parent() != a.Parent() {
		return nil
	}
	for _, r := range *a.Referrers() {
		if r == ssa.Instruction(st) {
			continue
		}
		if _, ok := r.(*ssa.DebugRef); ok {
			continue
		}
		if !c03Before(st, r) {
			return nil
		}
	}
	return st.Val
}

func c03IsIntT(t types.Type) bool {
	b, ok := t.Underlying().(*types.Basic)
	return ok && b.Info()&types.IsInteger != 0
}

// canon strips conversions that keep identity and loads of single-assignment cells.
func (c *c03x) canon(v ssa.Value) ssa.Value {
	for i := 0; i < 64 && v != nil; i++ {
		switch x := v.(type) {
		case *ssa.ChangeInterface:
			v = x.X
		case *ssa.ChangeType:
			v = x.X
		case *ssa.MakeInterface:
			v = x.X
		case *ssa.Convert:
			if c03IsIntT(x.Type()) && c03IsIntT(x.X.Type()) {
				v = x.X
			} else {
				return v
			}
		case *ssa.UnOp:
			if x.Op != token.MUL {
				return v
			}
			if cl := c.cellOf(x.X); cl != nil {
				if s := c.singleVal(cl); s != nil {
					v = s
					continue
				}
			}
			return v
		case *ssa.Phi:
			var first ssa.Value
			same := true
			for _, e := range x.Edges {
				if e == ssa.Value(x) {
					continue
				}
				ce := e
				if _, isPhi := e.(*ssa.Phi); !isPhi {
					ce = c.canon(e)
				}
				if first == nil {
					first = ce
				} else if first != ce {
					same = false
				}
			}
			if same && first != nil {
				v = first
				continue
			}
			return v
		default:
			return v
		}
	}
	return v
}

// vpath is an access path: a root value (identity) and a chain of field names; pointers are
// dereferenced transparently.
type c03Vpath struct {
	root ssa.Value
	path string // ".A.B"
}

func (c *c03x) id(v ssa.Value) int {
	if v == nil {
		return 0
	}
	if n, ok := c.ids[v]; ok {
		return n
	}
	n := len(c.ids) + 1
	c.ids[v] = n
	return n
}

func (c *c03x) pathOf(v ssa.Value) c03Vpath {
	v = c.canon(v)
	switch x := v.(type) {
	case *ssa.UnOp:
		if x.Op == token.MUL {
			return c.addrPath(x.X)
		}
	case *ssa.Field:
		b := c.pathOf(x.X)
		return c03Vpath{b.root, b.path + "." + fieldNameOf(x.X.Type(), x.Field)}
	}
	return c03Vpath{v, ""}
}

func (c *c03x) addrPath(a ssa.Value) c03Vpath {
	switch x := a.(type) {
	case *ssa.FieldAddr:
		var b c03Vpath
		switch x.X.(type) {
		case *ssa.FieldAddr, *ssa.Alloc, *ssa.FreeVar, *ssa.IndexAddr:
			b = c.addrPath(x.X)
		default:
			b = c.pathOf(x.X) // a pointer value
		}
		return c03Vpath{b.root, b.path + "." + fieldNameOf(x.X.Type(), x.Field)}
	case *ssa.Alloc:
		if s := c.singleVal(x); s != nil {
			return c.pathOf(s)
		}
		return c03Vpath{x, ""}
	case *ssa.FreeVar:
		if cl := c.cellOf(x); cl != nil {
			return c.addrPath(cl)
		}
		return c03Vpath{x, ""}
	case *ssa.IndexAddr:
		// element of a slice/array: identity of the IndexAddr itself
		return c03Vpath{x, ""}
	}
	// some pointer value
	return c.pathOf(a)
}

func (p c03Vpath) is(root ssa.Value, path string) bool { return p.root == root && p.path == path }

func (c *c03x) showPath(p c03Vpath) string {
	n := "?"
	if p.root != nil {
		n = p.root.Name()
		if pa, ok := p.root.(*ssa.Parameter); ok {
			n = "param:" + pa.Name()
		}
		if cl, ok := p.root.(*ssa.Call); ok {
			n = "call:" + fw.CalleeName(cl)
		}
	}
	return n + p.path
}

// ---------------------------------------------------------------------------
// linear forms

type c03Lterm struct {
	root ssa.Value
	path string
}

type c03Lin struct {
	c int64
	t map[c03Lterm]int64
}

func c03NewLin() *c03Lin { return &c03Lin{t: map[c03Lterm]int64{}} }

func (l *c03Lin) addScaled(o *c03Lin, k int64) {
	l.c += o.c * k
	for t, v := range o.t {
		l.t[t] += v * k
		if l.t[t] == 0 {
			delete(l.t, t)
		}
	}
}

func (l *c03Lin) equal(o *c03Lin) bool {
	if l.c != o.c || len(l.t) != len(o.t) {
		return false
	}
	for t, v := range l.t {
		if o.t[t] != v {
			return false
		}
	}
	return true
}

func (l *c03Lin) isConst() (int64, bool) { return l.c, len(l.t) == 0 }

func c03LinTerm(root ssa.Value, path string) *c03Lin {
	l := c03NewLin()
	l.t[c03Lterm{root, path}] = 1
	return l
}

func c03LinConst(k int64) *c03Lin { l := c03NewLin(); l.c = k; return l }

func (l *c03Lin) plus(o *c03Lin) *c03Lin {
	r := c03NewLin()
	r.addScaled(l, 1)
	r.addScaled(o, 1)
	return r
}
func (l *c03Lin) minus(o *c03Lin) *c03Lin {
	r := c03NewLin()
	r.addScaled(l, 1)
	r.addScaled(o, -1)
	return r
}

func (c *c03x) showLin(l *c03Lin) string {
	var parts []string
	for t, k := range l.t {
		parts = append(parts, fmt.Sprintf("%+d*%s", k, c.showPath(c03Vpath{t.root, t.path})))
	}
	sort.Strings(parts)
	if l.c != 0 || len(parts) == 0 {
		parts = append(parts, fmt.Sprintf("%+d", l.c))
	}
	return strings.Join(parts, " ")
}

func c03ConstInt(v ssa.Value) (int64, bool) {
	k, ok := v.(*ssa.Const)
	if !ok || k.Value == nil || k.Value.Kind() != constant.Int {
		return 0, false
	}
	return constant.Int64Val(k.Value)
}

// isRangeStop: static call of ranges.Range.Stop.
func (c *c03x) isRangeMethod(call *ssa.Call, name string) bool {
	f := call.Common().StaticCallee()
	if f == nil || f.Name() != name || f.Signature.Recv() == nil {
		return false
	}
	return c.isNamed(f.Signature.Recv().Type(), c.rangeT)
}

// linOf normalises an integer value into a linear form over access paths / opaque values.
func (c *c03x) linOf(v ssa.Value) *c03Lin {
	return c.linOfD(v, 0)
}

func (c *c03x) linOfD(v ssa.Value, depth int) *c03Lin {
	v = c.canon(v)
	if depth > 40 {
		return c03LinTerm(v, "")
	}
	if k, ok := c03ConstInt(v); ok {
		return c03LinConst(k)
	}
	switch x := v.(type) {
	case *ssa.BinOp:
		if !c03IsIntT(x.Type()) {
			break
		}
		switch x.Op {
		case token.ADD:
			return c.linOfD(x.X, depth+1).plus(c.linOfD(x.Y, depth+1))
		case token.SUB:
			return c.linOfD(x.X, depth+1).minus(c.linOfD(x.Y, depth+1))
		case token.MUL:
			a, b := c.linOfD(x.X, depth+1), c.linOfD(x.Y, depth+1)
			if k, ok := a.isConst(); ok {
				r := c03NewLin()
				r.addScaled(b, k)
				return r
			}
			if k, ok := b.isConst(); ok {
				r := c03NewLin()
				r.addScaled(a, k)
				return r
			}
		}
	case *ssa.UnOp:
		if x.Op == token.SUB {
			r := c03NewLin()
			r.addScaled(c.linOfD(x.X, depth+1), -1)
			return r
		}
	case *ssa.Call:
		if c.isRangeMethod(x, "Stop") && len(x.Common().Args) == 1 {
			s, l := c.rangeParts(x.Common().Args[0], depth+1)
			if s != nil {
				return s.plus(l)
			}
		}
	}
	p := c.pathOf(v)
	// a field of a struct literal: substitute the stored value
	if a, ok := p.root.(*ssa.Alloc); ok && p.path != "" && strings.Count(p.path, ".") == 1 {
		if fv, ok := c.litField(a, p.path[1:]); ok {
			if fv == nil {
				return c03LinConst(0)
			}
			return c.linOfD(fv, depth+1)
		}
	}
	return c03LinTerm(p.root, p.path)
}

// litMap: for a composite-literal cell, the values stored into its (possibly nested) fields, keyed
// by dotted path (".Range.Start"). ok=false when a field is stored twice, a sub-address escapes, the
// cell is overwritten as a whole by a non-zero value, or a store does not precede every use.
func (c *c03x) litMap(a *ssa.Alloc) (map[string]ssa.Value, bool) {
	if m, ok := c.litCache[a]; ok {
		return m, m != nil
	}
	m := map[string]ssa.Value{}
	good := true
	var stores []*ssa.Store
	var uses []ssa.Instruction
	var walk func(addr ssa.Value, prefix string)
	walk = func(addr ssa.Value, prefix string) {
		for _, r := range *addr.Referrers() {
			switch x := r.(type) {
			case *ssa.DebugRef:
			case *ssa.FieldAddr:
				walk(x, prefix+"."+fieldNameOf(addr.Type(), x.Field))
			case *ssa.Store:
				if x.Addr != addr {
					if prefix != "" {
						good = false
					} else {
						uses = append(uses, x)
					}
					continue
				}
				if prefix == "" {
					if k, isC := x.Val.(*ssa.Const); !isC || k.Value != nil {
						good = false
					}
					continue
				}
				if _, dup := m[prefix]; dup {
					good = false
				}
				m[prefix] = x.Val
				stores = append(stores, x)
			case *ssa.MakeClosure:
				good = false // captured variable, may be written elsewhere
			default:
				if prefix != "" {
					if _, isLoad := r.(*ssa.UnOp); !isLoad {
						good = false
					}
				}
				uses = append(uses, r)
			}
		}
	}
	walk(a, "")
	for _, st := range stores {
		for _, u := range uses {
			if !c03Before(st, u) {
				good = false
			}
		}
	}
	if !good {
		c.litCache[a] = nil
		return nil, false
	}
	c.litCache[a] = m
	return m, true
}

// litField: the value stored into the named field of a composite literal; (nil,true) = left zero.
func (c *c03x) litField(a *ssa.Alloc, field string) (ssa.Value, bool) {
	st, ok := c03ElemOf(a.Type()).Underlying().(*types.Struct)
	if !ok {
		return nil, false
	}
	has := false
	for i := 0; i < st.NumFields(); i++ {
		if st.Field(i).Name() == field {
			has = true
		}
	}
	if !has {
		return nil, false
	}
	m, ok := c.litMap(a)
	if !ok {
		return nil, false
	}
	for k := range m {
		if strings.HasPrefix(k, "."+field+".") {
			return nil, false // written per sub-field: use litRange
		}
	}
	return m["."+field], true
}

// litRange: Start/Len linear forms of a ranges.Range-typed field of a composite literal.
func (c *c03x) litRange(a *ssa.Alloc, field string) (*c03Lin, *c03Lin, bool) {
	m, ok := c.litMap(a)
	if !ok {
		return nil, nil, false
	}
	if v, ok := m["."+field]; ok {
		s, l := c.rangeParts(v, 0)
		return s, l, s != nil
	}
	s, l := c03LinConst(0), c03LinConst(0)
	if v, ok := m["."+field+".Start"]; ok {
		s = c.linOf(v)
	}
	if v, ok := m["."+field+".Len"]; ok {
		l = c.linOf(v)
	}
	return s, l, true
}

// rangeParts decomposes a ranges.Range value into linear forms of Start and Len.
func (c *c03x) rangeParts(v ssa.Value, depth int) (*c03Lin, *c03Lin) {
	v = c.canon(v)
	if k, ok := v.(*ssa.Const); ok && k.Value == nil {
		return c03LinConst(0), c03LinConst(0)
	}
	if !c.isNamed(v.Type(), c.rangeT) {
		return nil, nil
	}
	p := c.pathOf(v)
	if a, ok := p.root.(*ssa.Alloc); ok && p.path == "" {
		sv, ok1 := c.litField(a, "Start")
		lv, ok2 := c.litField(a, "Len")
		if ok1 && ok2 {
			s, l := c03LinConst(0), c03LinConst(0)
			if sv != nil {
				s = c.linOfD(sv, depth+1)
			}
			if lv != nil {
				l = c.linOfD(lv, depth+1)
			}
			return s, l
		}
	}
	return c03LinTerm(p.root, p.path+".Start"), c03LinTerm(p.root, p.path+".Len")
}

// ---------------------------------------------------------------------------
// ordering

func c03InstrIndex(ins ssa.Instruction) int {
	for i, x := range ins.Block().Instrs {
		if x == ins {
			return i
		}
	}
	return -1
}

// before: a is executed before b on every path that reaches b (a dominates b).
func c03Before(a, b ssa.Instruction) bool {
	if a.Parent() != b.Parent() {
		return false
	}
	if a.Block() == b.Block() {
		return c03InstrIndex(a) < c03InstrIndex(b)
	}
	return a.Block().Dominates(b.Block())
}

// reachesAvoiding: some CFG path from block `from` to block `to` that does not enter any block in
// avoid and does not take any edge in cut (pred->succ).
func c03ReachesAvoiding(from, to *ssa.BasicBlock, avoid map[*ssa.BasicBlock]bool, cut map[[2]*ssa.BasicBlock]bool) bool {
	if avoid[from] {
		return false
	}
	seen := map[*ssa.BasicBlock]bool{}
	stack := []*ssa.BasicBlock{from}
	for len(stack) > 0 {
		b := stack[len(stack)-1]
		stack = stack[:len(stack)-1]
		if seen[b] {
			continue
		}
		seen[b] = true
		if b == to {
			return true
		}
		for _, s := range b.Succs {
			if avoid[s] || cut[[2]*ssa.BasicBlock{b, s}] {
				continue
			}
			stack = append(stack, s)
		}
	}
	return false
}

// ---------------------------------------------------------------------------
// small matchers

func (c *c03x) staticCallTo(ins ssa.Instruction, fn *ssa.Function) *ssa.Call {
	call, ok := ins.(*ssa.Call)
	if !ok || fn == nil {
		return nil
	}
	if call.Common().StaticCallee() == fn {
		return call
	}
	return nil
}

func (c *c03x) callsTo(in *ssa.Function, fn *ssa.Function) []*ssa.Call {
	var out []*ssa.Call
	fw.EachInstr(in, func(ins ssa.Instruction) {
		if cl := c.staticCallTo(ins, fn); cl != nil {
			out = append(out, cl)
		}
	})
	return out
}

// callsNamed: static calls whose callee (generic origin) has the given full name.
func c03CallsNamed(in *ssa.Function, full string) []*ssa.Call {
	var out []*ssa.Call
	fw.EachInstr(in, func(ins ssa.Instruction) {
		if cl, ok := ins.(*ssa.Call); ok && fw.CalleeName(cl) == full {
			out = append(out, cl)
		}
	})
	return out
}

// dynCallsOf: calls through the function value v (a parameter or captured func).
func (c *c03x) dynCallsOf(in *ssa.Function, v ssa.Value) []*ssa.Call {
	var out []*ssa.Call
	fw.EachInstr(in, func(ins ssa.Instruction) {
		if cl, ok := ins.(*ssa.Call); ok && !cl.Common().IsInvoke() && cl.Common().StaticCallee() == nil {
			if c.canon(cl.Common().Value) == v {
				out = append(out, cl)
			}
		}
	})
	return out
}

// storesToField: stores in fn whose address is &X.field with X of the given named struct type.
type c03FieldStore struct {
	st   *ssa.Store
	base c03Vpath // path of X (the struct the field belongs to)
	sub  string
}

// fieldStores returns the stores whose address chain passes through field `field` of named type T;
// sub is the remaining sub-path below that field ("" = the field itself, ".Start" ...).
func (c *c03x) fieldStores(fn *ssa.Function, T *types.Named, field string) []c03FieldStore {
	var out []c03FieldStore
	fw.EachInstr(fn, func(ins ssa.Instruction) {
		st, ok := ins.(*ssa.Store)
		if !ok {
			return
		}
		sub := ""
		a := st.Addr
		for {
			fa, ok := a.(*ssa.FieldAddr)
			if !ok {
				return
			}
			n := fieldNameOf(fa.X.Type(), fa.Field)
			if c.isNamed(fa.X.Type(), T) && n == field {
				var b c03Vpath
				switch fa.X.(type) {
				case *ssa.FieldAddr, *ssa.Alloc, *ssa.FreeVar, *ssa.IndexAddr:
					b = c.addrPath(fa.X)
				default:
					b = c.pathOf(fa.X)
				}
				// a freshly allocated struct: identity is the allocation
				if al, ok := fa.X.(*ssa.Alloc); ok {
					b = c03Vpath{al, ""}
				}
				out = append(out, c03FieldStore{st, b, sub})
				return
			}
			sub = "." + n + sub
			a = fa.X
		}
	})
	return out
}

func c03IsConstBool(v ssa.Value, want bool) bool {
	k, ok := v.(*ssa.Const)
	if !ok || k.Value == nil || k.Value.Kind() != constant.Bool {
		return false
	}
	return constant.BoolVal(k.Value) == want
}

// guardOn: among the guards of block b, the truth value of a condition satisfying pred.
func c03GuardOn(b *ssa.BasicBlock, pred func(cond ssa.Value) bool) (val bool, found bool) {
	for _, g := range fw.Guards(b) {
		g = c03Norm(g)
		if pred(g.Cond) {
			return g.True, true
		}
	}
	return false, false
}

// onEveryPathThrough: every entry-to-exit path of the function that executes instruction x also
// executes each of the given stores (before or after x). nil stores fail.
func (c *c03x) onEveryPathThrough(x ssa.Instruction, stores []*ssa.Store) bool {
	fn := x.Parent()
	for _, st := range stores {
		if st == nil || st.Parent() != fn {
			return false
		}
		if st.Block() == x.Block() {
			continue
		}
		avoid := map[*ssa.BasicBlock]bool{st.Block(): true}
		if !c03ReachesAvoiding(fn.Blocks[0], x.Block(), avoid, nil) {
			continue // the store precedes x on every path
		}
		for _, b := range fn.Blocks {
			if len(b.Succs) == 0 {
				if _, isRet := b.Instrs[len(b.Instrs)-1].(*ssa.Return); isRet && c03ReachesAvoiding(x.Block(), b, avoid, nil) {
					return false
				}
			}
		}
	}
	return true
}

// c03Norm strips negations and comparisons with boolean constants from a branch condition
// (`!x`, `x == false`, `x != true` ...), so that a guard is always stated on the underlying value.
func c03Norm(g fw.Guard) fw.Guard {
	for i := 0; i < 16; i++ {
		switch x := g.Cond.(type) {
		case *ssa.UnOp:
			if x.Op != token.NOT {
				return g
			}
			g = fw.Guard{Cond: x.X, True: !g.True, If: g.If}
		case *ssa.BinOp:
			if x.Op != token.EQL && x.Op != token.NEQ {
				return g
			}
			var other ssa.Value
			var k bool
			switch {
			case c03IsConstBool(x.Y, true) || c03IsConstBool(x.Y, false):
				other, k = x.X, c03IsConstBool(x.Y, true)
			case c03IsConstBool(x.X, true) || c03IsConstBool(x.X, false):
				other, k = x.Y, c03IsConstBool(x.X, true)
			default:
				return g
			}
			// (other == k) is true  <=>  other is k
			holds := g.True == (x.Op == token.EQL)
			g = fw.Guard{Cond: other, True: holds == k, If: g.If}
		default:
			return g
		}
	}
	return g
}
