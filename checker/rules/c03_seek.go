package rules

// C03.seek - the position plumbing every recorded range rests on: windows (TryBitBufRange /
// BitBufRange), relative and absolute seeks, and the length / bits-left queries used as range
// operands by the nested-format API and the whole-buffer text decoders.
//
// C03.readers / C03.roots - clauses decided by sibling rule sets, borrowed under C03 ids.

import (
	"go/token"
	"os"
	"strings"

	"golang.org/x/tools/go/ssa"

	"fqverif/fw"
)

func c03Seek(r *fw.Run, c *c03x) {
	ru := r.Rule("C03.seek", "position plumbing of *decode.D: TryBitBufRange/BitBufRange(firstBit, nBits) are bitiox.Range(d.bitBuf, firstBit, nBits); TrySeekRel/SeekRel seek to d.Pos()+delta and TrySeekAbs/SeekAbs to pos, all through trySeekAbs on the same decoder; trySeekAbs seeks d.bitBuf to pos from the start and, when given functions, afterwards back to the position taken before the seek on every returning path; TryBitsLeft = TryLen - TryPos, TryLen = bitiox.Len(d.bitBuf), BitsLeft/Len return them", 12)
	p := c.p
	posFn := c.fn(ru, c03D+"Pos")
	tsa := c.fn(ru, c03D+"trySeekAbs")
	if posFn == nil || tsa == nil {
		return
	}
	// extract0 of the single static call to callee (recv d) in f, or nil
	tupleOf := func(v ssa.Value, callee *ssa.Function, d ssa.Value) *ssa.Call {
		ex, ok := c.canon(v).(*ssa.Extract)
		if !ok || ex.Index != 0 {
			return nil
		}
		return c.isCallOf(ex.Tuple, callee, d)
	}
	returns := func(f *ssa.Function) []*ssa.Return {
		var out []*ssa.Return
		fw.EachInstr(f, func(ins ssa.Instruction) {
			if ret, ok := ins.(*ssa.Return); ok {
				out = append(out, ret)
			}
		})
		return out
	}

	// --- windows
	for _, name := range []string{"TryBitBufRange", "BitBufRange"} {
		f := c.fn(ru, c03D+name)
		if f == nil || len(f.Params) != 3 {
			continue
		}
		d := ssa.Value(f.Params[0])
		rcs := c03CallsNamed(f, fw.Mod+"/internal/bitiox.Range")
		good := len(rcs) == 1 && len(rcs[0].Common().Args) == 3
		if good {
			a := rcs[0].Common().Args
			good = c.pathOf(a[0]).is(d, ".bitBuf") && c.canon(a[1]) == ssa.Value(f.Params[1]) && c.canon(a[2]) == ssa.Value(f.Params[2])
			for _, ret := range returns(f) {
				ex, ok := c.canon(ret.Results[0]).(*ssa.Extract)
				if !ok || ex.Tuple != ssa.Value(rcs[0]) || ex.Index != 0 {
					good = false
				}
				if len(ret.Results) == 1 && !c03ErrGuarded(ret.Block(), rcs[0]) {
					good = false
				}
			}
		}
		ru.Check(good, name+":window", c.at(f), "bitiox.Range(d.bitBuf, firstBit, nBits)", name+"(firstBit, nBits) is not the window [firstBit, firstBit+nBits) of the decoder's own buffer: sub-readers (RangeFn, raw fields) cover other bits than the ranges recorded for them")
	}

	// --- seeks
	for _, w := range []struct {
		name string
		rel  bool
	}{{"TrySeekRel", true}, {"SeekRel", true}, {"TrySeekAbs", false}, {"SeekAbs", false}} {
		f := c.fn(ru, c03D+w.name)
		if f == nil || len(f.Params) != 3 {
			continue
		}
		d, arg, fns := ssa.Value(f.Params[0]), ssa.Value(f.Params[1]), ssa.Value(f.Params[2])
		calls := c.callsTo(f, tsa)
		good := len(calls) == 1
		if good {
			call := calls[0]
			a := call.Common().Args
			good = len(a) == 3 && c.canon(a[0]) == d && c.canon(a[2]) == fns
			l := c.linOf(a[1])
			if w.rel {
				// exactly Pos(d) + delta, the position read before the seek
				okT := l.c == 0 && len(l.t) == 2 && l.t[c03Lterm{arg, ""}] == 1
				var pc *ssa.Call
				for t, k := range l.t {
					if t.root != arg && k == 1 && t.path == "" {
						pc = c.isCallOf(t.root, posFn, d)
					}
				}
				good = good && okT && pc != nil && c03Before(pc, call)
			} else {
				good = good && c.linIsValue(l, arg)
			}
			for _, ret := range returns(f) {
				if tupleOf(ret.Results[0], tsa, d) != call {
					good = false
				}
				if len(ret.Results) == 1 && fw.CurrentNR == nil {
					good = false
				}
			}
		}
		want := "trySeekAbs(pos, fns...)"
		if w.rel {
			want = "trySeekAbs(d.Pos()+delta, fns...)"
		}
		ru.Check(good, w.name+":target", c.at(f), want, w.name+" does not seek the same decoder to "+map[bool]string{true: "its current position plus delta", false: "the given position"}[w.rel]+" (and return the reached position): FramedFn/LimitedFn/raw fields advance by a wrong amount and every following range is shifted")
	}

	// --- trySeekAbs
	if len(tsa.Params) == 3 {
		d, pos, fns := ssa.Value(tsa.Params[0]), ssa.Value(tsa.Params[1]), ssa.Value(tsa.Params[2])
		var seeks []*ssa.Call
		fw.EachInstr(tsa, func(ins ssa.Instruction) {
			call, ok := ins.(*ssa.Call)
			if ok && call.Common().IsInvoke() && call.Common().Method.Name() == "SeekBits" {
				seeks = append(seeks, call)
			}
		})
		// calls of the given functions: dynamic calls of an element of fns
		var fcalls []*ssa.Call
		fw.EachInstr(tsa, func(ins ssa.Instruction) {
			call, ok := ins.(*ssa.Call)
			if !ok || call.Common().IsInvoke() || call.Common().StaticCallee() != nil {
				return
			}
			if _, isB := call.Common().Value.(*ssa.Builtin); isB {
				return
			}
			if ld, ok := call.Common().Value.(*ssa.UnOp); ok {
				if ia, ok := ld.X.(*ssa.IndexAddr); ok && c.canon(ia.X) == fns {
					fcalls = append(fcalls, call)
				}
			}
		})
		isStartSeek := func(s *ssa.Call) bool {
			wh, ok := c03ConstInt(s.Common().Args[1])
			return ok && wh == 0 && c.pathOf(s.Common().Value).is(d, ".bitBuf")
		}
		// the target seek: the one executed before any function runs and before every other seek
		var first *ssa.Call
		for _, s := range seeks {
			dom := true
			for _, o := range seeks {
				if o != s && !c03Before(s, o) {
					dom = false
				}
			}
			if dom {
				first = s
			}
		}
		okFirst := first != nil && isStartSeek(first) && c.canon(first.Common().Args[0]) == pos && len(fcalls) >= 1
		if okFirst {
			for _, fc := range fcalls {
				if !c03Before(first, fc) || !c03ErrGuarded(fc.Block(), first) || c.canon(fc.Common().Args[0]) != d {
					okFirst = false
				}
			}
		}
		ru.Check(okFirst, "trySeekAbs:seek", c.at(tsa), "d.bitBuf.SeekBits(pos, SeekStart), then the functions on d", "trySeekAbs does not first seek the decoder's buffer to pos counted from the start (and run the given functions on d only after that succeeded): every SeekAbs/SeekRel and with them FramedFn/LimitedFn positions are off")
		// restore: every other seek goes back to the position taken before the target seek
		okRestore := first != nil && len(seeks) >= 2 && len(fcalls) >= 1
		restoreBlocks := map[*ssa.BasicBlock]bool{}
		for _, s := range seeks {
			if s == first {
				continue
			}
			restoreBlocks[s.Block()] = true
			if !isStartSeek(s) {
				okRestore = false
				continue
			}
			// the saved position: a d.Pos() call before the target seek (possibly merged with a
			// constant on the paths that have no functions to run)
			saved := false
			v := c.canon(s.Common().Args[0])
			cands := []ssa.Value{v}
			if ph, ok := v.(*ssa.Phi); ok {
				cands = nil
				for i, e := range ph.Edges {
					if _, isK := e.(*ssa.Const); !isK {
						cands = append(cands, c.canon(e))
						continue
					}
					// a placeholder on the paths without functions: the restoring seek must be
					// unreachable from there (it runs under the contrary of the same condition)
					pred := ph.Block().Preds[i]
					eg := c03EdgeGuards(pred, ph.Block())
					contrary := false
					if _, isIf := pred.Instrs[len(pred.Instrs)-1].(*ssa.If); isIf && len(eg) > 0 {
						g1 := c03Norm(eg[len(eg)-1])
						for _, g2 := range fw.Guards(s.Block()) {
							g2 = c03Norm(g2)
							if (g1.True != g2.True && c.sameCond(g1.Cond, g2.Cond)) || c.contradict(g1, g2) {
								contrary = true
							}
						}
					}
					if !contrary {
						cands = append(cands, e)
					}
				}
			}
			for _, cv := range cands {
				pc := c.isCallOf(cv, posFn, d)
				// taken before the target seek: on no path after it
				if pc == nil || !(c03Before(pc, first) || (pc.Block() != first.Block() && c03ReachesAvoiding(pc.Block(), first.Block(), nil, nil) && !c03ReachesAvoiding(first.Block(), pc.Block(), nil, nil))) {
					saved = false
					break
				}
				saved = true
			}
			if !saved {
				okRestore = false
			}
		}
		// after a function ran, no return is reached without the restoring seek
		if okRestore {
			for _, fc := range fcalls {
				for _, ret := range returns(tsa) {
					if c03ReachesAvoiding(fc.Block(), ret.Block(), restoreBlocks, nil) {
						okRestore = false
					}
				}
			}
		}
		ru.Check(okRestore, "trySeekAbs:restore", c.at(tsa), "after the functions: d.bitBuf.SeekBits(position before the seek, SeekStart) on every returning path", "trySeekAbs with functions does not return to the position the decoder had before the seek: fields decoded after a SeekAbs(pos, fn)/SeekRel(delta, fn) get ranges at the wrong place")
	}

	// --- length / bits left
	tryPos := c.fn(ru, c03D+"TryPos")
	tryLen := c.fn(ru, c03D+"TryLen")
	tryBL := c.fn(ru, c03D+"TryBitsLeft")
	if tryLen != nil {
		d := ssa.Value(tryLen.Params[0])
		lcs := c03CallsNamed(tryLen, fw.Mod+"/internal/bitiox.Len")
		good := len(lcs) == 1 && c.pathOf(lcs[0].Common().Args[0]).is(d, ".bitBuf")
		for _, ret := range returns(tryLen) {
			ex, ok := c.canon(ret.Results[0]).(*ssa.Extract)
			if !good || !ok || ex.Tuple != ssa.Value(lcs[0]) || ex.Index != 0 {
				good = false
			}
		}
		ru.Check(good, "TryLen", c.at(tryLen), "bitiox.Len(d.bitBuf)", "TryLen is not the length of the decoder's own buffer")
	}
	if tryBL != nil && tryPos != nil && tryLen != nil {
		d := ssa.Value(tryBL.Params[0])
		good, n := true, 0
		for _, ret := range returns(tryBL) {
			if !isNilConst(ret.Results[1]) {
				continue
			}
			n++
			l := c.linOf(ret.Results[0])
			var lenC, posC *ssa.Call
			if l.c == 0 && len(l.t) == 2 {
				for t, k := range l.t {
					if t.path != "" {
						continue
					}
					if k == 1 {
						lenC = tupleOf(t.root, tryLen, d)
					} else if k == -1 {
						posC = tupleOf(t.root, tryPos, d)
					}
				}
			}
			if lenC == nil || posC == nil || !c03ErrGuarded(ret.Block(), lenC) || !c03ErrGuarded(ret.Block(), posC) {
				good = false
			}
		}
		ru.Check(good && n >= 1, "TryBitsLeft", c.at(tryBL), "TryLen() - TryPos()", "TryBitsLeft is not (buffer length) - (current position) of the same decoder: Format/TryFieldFormat hand the nested format a Range whose length is not the rest of the buffer")
	}
	for _, w := range []struct {
		name string
		try  *ssa.Function
	}{{"BitsLeft", tryBL}, {"Len", tryLen}} {
		f := c.fn(ru, c03D+w.name)
		if f == nil || w.try == nil {
			continue
		}
		d := ssa.Value(f.Params[0])
		good, n := true, 0
		for _, ret := range returns(f) {
			n++
			call := tupleOf(ret.Results[0], w.try, d)
			if call == nil || !c03ErrGuarded(ret.Block(), call) {
				good = false
			}
		}
		ru.Check(good && n >= 1, w.name, c.at(f), "returns Try"+w.name+"()'s value, only without error", w.name+" does not return the value of Try"+w.name+" of the same decoder (or returns it after an error)")
	}
	_ = p
}

// sameCond: two comparisons of the same operands (constants, the same values, or len of the same value).
func (c *c03x) sameCond(a, b ssa.Value) bool {
	x, ok1 := a.(*ssa.BinOp)
	y, ok2 := b.(*ssa.BinOp)
	if !ok1 || !ok2 || x.Op != y.Op {
		return false
	}
	same := func(u, v ssa.Value) bool {
		u, v = c.canon(u), c.canon(v)
		if u == v {
			return true
		}
		if ku, ok := c03ConstInt(u); ok {
			kv, ok2 := c03ConstInt(v)
			return ok2 && ku == kv
		}
		cu, ok1 := u.(*ssa.Call)
		cv, ok2 := v.(*ssa.Call)
		if ok1 && ok2 && fw.IsBuiltinCall(cu, "len") && fw.IsBuiltinCall(cv, "len") {
			return c.canon(cu.Common().Args[0]) == c.canon(cv.Common().Args[0])
		}
		return false
	}
	return same(x.X, y.X) && same(x.Y, y.Y)
}

// contradict: two guards compare the same subject (a value, or len of a value) with integer constants
// and cannot hold together (len(fns) <= 0 and len(fns) != 0; n > 0 and n == 0 ...). Decided by trying
// the integers around the constants involved (a len is never negative).
func (c *c03x) contradict(g1, g2 fw.Guard) bool {
	type pred struct {
		subj  ssa.Value // canonical subject; for len(x) the canonical x
		isLen bool
		op    token.Token // subject OP k
		k     int64
		hold  bool
	}
	parse := func(g fw.Guard) (pred, bool) {
		bo, ok := g.Cond.(*ssa.BinOp)
		if !ok {
			return pred{}, false
		}
		op := bo.Op
		x, y := c.canon(bo.X), c.canon(bo.Y)
		k, isK := c03ConstInt(y)
		if !isK {
			k, isK = c03ConstInt(x)
			if !isK {
				return pred{}, false
			}
			x = y
			switch op { // k OP x  ==  x OP' k
			case token.LSS:
				op = token.GTR
			case token.LEQ:
				op = token.GEQ
			case token.GTR:
				op = token.LSS
			case token.GEQ:
				op = token.LEQ
			}
		}
		switch op {
		case token.LSS, token.LEQ, token.GTR, token.GEQ, token.EQL, token.NEQ:
		default:
			return pred{}, false
		}
		p := pred{subj: x, op: op, k: k, hold: g.True}
		if call, ok := x.(*ssa.Call); ok && fw.IsBuiltinCall(call, "len") {
			p.subj, p.isLen = c.canon(call.Common().Args[0]), true
		}
		return p, true
	}
	eval := func(p pred, v int64) bool {
		var r bool
		switch p.op {
		case token.LSS:
			r = v < p.k
		case token.LEQ:
			r = v <= p.k
		case token.GTR:
			r = v > p.k
		case token.GEQ:
			r = v >= p.k
		case token.EQL:
			r = v == p.k
		case token.NEQ:
			r = v != p.k
		}
		return r == p.hold
	}
	p1, ok1 := parse(g1)
	p2, ok2 := parse(g2)
	if !ok1 || !ok2 || p1.subj != p2.subj || p1.isLen != p2.isLen {
		return false
	}
	for _, k := range []int64{p1.k, p2.k} {
		for dv := int64(-1); dv <= 1; dv++ {
			v := k + dv
			if p1.isLen && v < 0 {
				continue
			}
			if eval(p1, v) && eval(p2, v) {
				return false
			}
		}
	}
	return true
}

// c03Borrow: clauses of C03 that sibling rule sets already decide, imported under C03 rule ids.
func c03Borrow(r *fw.Run, p *fw.Program) {
	dump := os.Getenv("C03_KEYS") != ""
	{
		sc := r.Scratch()
		if c2 := newC02(sc, p); c2 != nil {
			c2.leafFacts()
			c2.posRule()
		}
		if dump {
			c03DumpKeys(sc)
		}
		desc := "the raw-bits reader and the peeks move the position by exactly what they hand out: TryBitBufLen(nBits) returns the window [Pos(), Pos()+nBits) and advances by nBits (C02.leaf obligations of TryBitBufLen); every hand-written leaf reader hands its read calls exactly the bit count it was asked for (C02.leaf :read obligations); every TryPeek* returns with the position it started from (C02.pos obligations): the range TryFieldValue measures around a reader is the bits that reader consumed"
		r.Import(sc, "C02.leaf", "C03.readers", desc, 35, func(k string) bool { return strings.HasPrefix(k, "TryBitBufLen") || strings.HasSuffix(k, ":read") })
		r.Import(sc, "C02.pos", "C03.readers", desc, 35, nil)
	}
	{
		sc := r.Scratch()
		c04Opts(sc, p)
		if dump {
			c03DumpKeys(sc)
		}
		r.Import(sc, "C04.opts", "C03.cover", "a nested format decoded from a delimited range (explicit length/range, separate buffer, top level) is decoded with FillGaps, so that its value's range is exactly the range it was given (what the position advances by), the unread bits being its own gap children rather than the parent's; open-ended nested decodes (Range.Len = BitsLeft()) are not filled and advance by the decoded extent; IsRoot exactly for a reader that is not the parent's buffer (C04.opts obligations)", 13, nil)
	}
	{
		sc := r.Scratch()
		c01Seek(sc, p)
		if dump {
			c03DumpKeys(sc)
		}
		r.Import(sc, "C01.seek", "C03.lower", "the lower bound of the position invariant (C03.inside decides the upper one): every computing seeker of pkg/bitio - the readers a decoder can sit on: the section window of a nested format or frame, byte/IO readers, multi and padding readers - computes the target per whence relative to its own base and refuses a target before its start, so no decoder position (and no zero-length value) lies before the window it decodes (C01.seek obligations)", 24, nil)
	}
	{
		sc := r.Scratch()
		c12Roots(sc, p)
		c12Keys(sc, p)
		r.Import(sc, "C12.keys", "C03.parentkey", "parent/child links agree at the jq observation point: the _parent key answers null exactly when Parent is nil and the parent's value otherwise (also for nested buffer roots, which are children of the field that holds them) (C12.keys obligation key:_parent)", 1, func(k string) bool { return k == "key:_parent" })
		if dump {
			c03DumpKeys(sc)
		}
		r.Import(sc, "C12.roots", "C03.roots", "parent links lead to the buffer root: Value.root follows Parent from the receiver and stops exactly at Parent==nil, at sub&&IsRoot or at fmt&&Format!=nil; Root/BufferRoot/FormatRoot pass (false,false)/(true,false)/(true,true) (C12.roots obligations): the root Walk reports for a value is the value whose buffer its Range refers to", 7, nil)
	}
}

func c03DumpKeys(sc *fw.Run) {
	for _, ru := range sc.Rules {
		sc2 := sc.Scratch()
		n := 0
		sc2.Import(sc, ru.ID, ru.ID, "", 0, func(k string) bool { println("KEY", ru.ID, k); n++; return false })
	}
}
