package rules

import (
	"fmt"
	"go/types"
	"sort"
	"strings"
	"unicode"

	"github.com/wader/gojq"
	"golang.org/x/tools/go/ssa"

	"fqverif/fw"
)

// c09CamelToSnake mirrors mapstruct.CamelToSnake ([[:lower:]][[:upper:]] -> x_y, lower-cased),
// the key matching fq uses when a jq object becomes a Go options struct.
func c09CamelToSnake(s string) string {
	var sb strings.Builder
	rs := []rune(s)
	for i, c := range rs {
		sb.WriteRune(unicode.ToLower(c))
		if i+1 < len(rs) && unicode.IsLower(c) && unicode.IsUpper(rs[i+1]) {
			sb.WriteByte('_')
		}
	}
	return sb.String()
}

type c09TobitsRow struct {
	name  string
	arity int
	unit  string
	keep  string
	pad   string
}

var c09TobitsTable = []c09TobitsRow{
	{"tobits", 0, "1", "false", "0"},
	{"tobytes", 0, "8", "false", "0"},
	{"tobitsrange", 0, "1", "true", "0"},
	{"tobytesrange", 0, "8", "true", "0"},
	{"tobits", 1, "1", "false", "$arg0"},
	{"tobytes", 1, "8", "false", "$arg0"},
}

// c09JQScalar renders a literal number/true/false or a $variable (as $arg<i> of the def).
func c09JQScalar(q *gojq.Query, def *gojq.FuncDef) string {
	if n, ok := fw.JQConstNumber(q); ok {
		return n
	}
	if q != nil && q.Term != nil && q.Left == nil && len(q.Term.SuffixList) == 0 {
		switch q.Term.Type {
		case gojq.TermTypeTrue:
			return "true"
		case gojq.TermTypeFalse:
			return "false"
		}
	}
	if f := fw.JQIsCall(q, "", 0); f != nil {
		for i, a := range def.Args {
			if a == f.Name {
				return fmt.Sprintf("$arg%d", i)
			}
		}
		return f.Name
	}
	return "?" + fw.JQStr(q)
}

func c09JQ(r *fw.Run, p *fw.Program) {
	ru := r.Rule("C09.jq", "binary.jq: tobits/tobytes/tobitsrange/tobytesrange/tobits(n)/tobytes(n) call _tobits with exactly the option keys of toBitsOpts and the specified unit/keep_range/pad_to_units; _tobits is bound to (*Interp)._toBits; explode dispatches on _exttype==\"binary\" to [.[range(.size)]] and otherwise to the original explode captured before the override; to_hex encodes exactly ToBitReader(input)", 13)
	jq, err := fw.LoadJQ(p.Repo)
	if err != nil {
		ru.Undecided("jq", "", "cannot load jq sources: "+err.Error())
		return
	}
	const file = "pkg/interp/binary.jq"
	if jq.File(file) == nil {
		ru.Undecided("jq:"+file, "", "file not found")
		return
	}

	// option keys from the Go struct
	var wantKeys []string
	optFields := map[string]string{}
	if nt := p.NamedType("pkg/interp", "toBitsOpts"); nt == nil {
		ru.Undecided("toBitsOpts", "", "type interp.toBitsOpts not found")
	} else if st, ok := nt.Underlying().(*types.Struct); ok {
		for i := 0; i < st.NumFields(); i++ {
			k := c09CamelToSnake(st.Field(i).Name())
			wantKeys = append(wantKeys, k)
			optFields[k] = st.Field(i).Name()
		}
		sort.Strings(wantKeys)
		got := strings.Join(wantKeys, ",")
		ru.Check(got == "keep_range,pad_to_units,unit", "toBitsOpts:keys", "", "option keys "+got, "toBitsOpts maps to jq keys {"+got+"}, want {keep_range,pad_to_units,unit}")
	}

	// _tobits is the Go method
	bound := false
	for fn := range jqRegistered(p) {
		if jqRegisteredName(p, fn) == "_tobits" {
			bound = strings.TrimSuffix(fw.ShortFn(fn), "$thunk") == "(*pkg/interp.Interp)._toBits"
			if !bound {
				r.Notes["c09_tobits_bound_to"] = fw.ShortFn(fn)
			}
		}
	}
	ru.Check(bound, "_tobits:binding", "", "_tobits -> (*Interp)._toBits", "jq function _tobits is not registered to (*Interp)._toBits")

	for _, row := range c09TobitsTable {
		key := fmt.Sprintf("%s/%d", row.name, row.arity)
		d := jq.Def(file, row.name, row.arity)
		if d == nil {
			ru.Undecided("def:"+key, file, "definition not found")
			continue
		}
		call := fw.JQIsCall(d.Def.Body, "_tobits", 1)
		if call == nil {
			ru.Fail("def:"+key, file, key+" is not a plain call of _tobits/1: "+fw.JQStr(d.Def.Body))
			continue
		}
		arg := call.Args[0]
		if arg.Term == nil || arg.Term.Object == nil || arg.Left != nil || len(arg.Term.SuffixList) > 0 {
			ru.Fail("def:"+key, file, key+": _tobits argument is not an object literal: "+fw.JQStr(arg))
			continue
		}
		got := map[string]string{}
		var keys []string
		bad := ""
		for _, kv := range arg.Term.Object.KeyVals {
			if kv.Key == "" || kv.Val == nil {
				bad = "non-literal key in options object"
				continue
			}
			if _, dup := got[kv.Key]; dup {
				bad = "duplicate key " + kv.Key
			}
			got[kv.Key] = c09JQScalar(kv.Val, d.Def)
			keys = append(keys, kv.Key)
		}
		sort.Strings(keys)
		if bad == "" && strings.Join(keys, ",") != strings.Join(wantKeys, ",") {
			bad = "option keys {" + strings.Join(keys, ",") + "}, want {" + strings.Join(wantKeys, ",") + "}"
		}
		if bad == "" {
			for k, want := range map[string]string{"unit": row.unit, "keep_range": row.keep, "pad_to_units": row.pad} {
				if got[k] != want {
					bad = fmt.Sprintf("%s is %s, want %s", k, got[k], want)
				}
			}
		}
		ru.Check(bad == "", "def:"+key, file, fmt.Sprintf("unit=%s keep_range=%s pad_to_units=%s", row.unit, row.keep, row.pad), key+": "+bad)
	}

	// explode override
	ex := jq.Def(file, "explode", 0)
	orig := jq.Def(file, "_orig_explode", 0)
	bo := jq.Def(file, "_binary_or_orig", 2)
	if ex == nil || orig == nil || bo == nil {
		ru.Undecided("explode", file, "explode/0, _orig_explode/0 or _binary_or_orig/2 not found in "+file)
	} else {
		// every top-level explode/0 definition anywhere must be this one (last wins in jq)
		last := jq.Def("", "explode", 0)
		ru.Check(last == ex, "explode:unique", file, "binary.jq defines the effective explode", "explode/0 is redefined in "+last.File.Rel)
		okOrig := fw.JQIsCall(orig.Def.Body, "explode", 0) != nil && orig.Order < ex.Order
		ru.Check(okOrig, "explode:orig", file, "_orig_explode captures the builtin before the override", "_orig_explode is not `explode` captured before the override (it would recurse or call something else)")
		c := fw.JQIsCall(ex.Def.Body, "_binary_or_orig", 2)
		okEx, why := false, "body is "+fw.JQStr(ex.Def.Body)
		if c != nil {
			b := strings.ReplaceAll(fw.JQStr(c.Args[0]), " ", "")
			switch {
			case b != "[.[range(.size)]]":
				why = "binary arm is " + fw.JQStr(c.Args[0]) + ", want [.[range(.size)]]"
			case fw.JQIsCall(c.Args[1], "_orig_explode", 0) == nil:
				why = "non-binary arm is " + fw.JQStr(c.Args[1]) + ", want _orig_explode"
			default:
				okEx = true
			}
		}
		ru.Check(okEx, "explode:body", file, "_binary_or_orig([.[range(.size)]]; _orig_explode)", "explode: "+why)
		// dispatcher
		okBo, whyBo := false, "body is "+fw.JQStr(bo.Def.Body)
		if len(bo.Def.Args) == 2 {
			a0, a1 := bo.Def.Args[0], bo.Def.Args[1]
			q := bo.Def.Body
			if q.Term != nil && q.Term.If != nil && q.Left == nil && len(q.Term.SuffixList) == 0 && len(q.Term.If.Elif) == 0 {
				ifn := q.Term.If
				cond := ifn.Cond
				condOK := false
				if cond != nil && cond.Op == gojq.OpEq && cond.Left != nil && cond.Right != nil {
					l, rr := cond.Left, cond.Right
					if s, ok := fw.JQConstString(l); ok {
						_ = s
						l, rr = rr, l
					}
					if s, ok := fw.JQConstString(rr); ok && s == "binary" && fw.JQIsCall(l, "_exttype", 0) != nil {
						condOK = true
					}
				}
				switch {
				case !condOK:
					whyBo = "condition is " + fw.JQStr(cond) + ", want _exttype == \"binary\""
				case fw.JQIsCall(ifn.Then, a0, 0) == nil:
					whyBo = "then-arm is not the binary function argument"
				case ifn.Else == nil || fw.JQIsCall(ifn.Else, a1, 0) == nil:
					whyBo = "else-arm is not the original function argument"
				default:
					okBo = true
				}
			}
		}
		ru.Check(okBo, "_binary_or_orig", file, "if _exttype == \"binary\" then bfn else fn end", "_binary_or_orig: "+whyBo)
	}

	// _exttype of a Binary is "binary"
	if fn := c09Fn(ru, p, "(pkg/interp.Binary).ExtType"); fn != nil {
		ok := false
		for _, rt := range c09Returns(fn) {
			if len(rt.Results) == 1 {
				if s, isS := constString(rt.Results[0]); isS && s == "binary" {
					ok = true
				}
			}
		}
		ru.Check(ok, "Binary.ExtType", p.Rel(fn.Pos()), "\"binary\"", "Binary.ExtType does not return \"binary\": every binary overload in binary.jq would be skipped")
	}

	// to_hex
	var hexFn *ssa.Function
	for fn := range jqRegistered(p) {
		if jqRegisteredName(p, fn) == "to_hex" {
			hexFn = fn
		}
	}
	if hexFn == nil {
		ru.Undecided("to_hex", "", "registered function to_hex not found")
	} else {
		s := newC09Sym(hexFn)
		ok, why := false, "no io.Copy into a hex encoder"
		for _, c := range c09CallsTo(hexFn, "io.Copy") {
			okW, w1 := s.match(c.Call.Args[0], pCall("encoding/hex.NewEncoder", pAny()))
			okR, w2 := s.match(c.Call.Args[1], pCall("pkg/bitio.NewIOReader", pCallN("pkg/interp.ToBitReader", 0, pP("a1"))))
			switch {
			case !okW:
				why = w1
			case !okR:
				why = w2
			default:
				enc := c09StripIface(c.Call.Args[0]).(*ssa.Call)
				buf := c09StripIface(enc.Call.Args[0])
				for _, rt := range c09Returns(hexFn) {
					if len(rt.Results) == 1 {
						if sc, n := c09Callee(c09StripIface(rt.Results[0])); sc != nil && n == "(*bytes.Buffer).String" && sc.Call.Args[0] == buf {
							ok = true
						}
					}
				}
				if !ok {
					why = "the encoded buffer is not what is returned"
				}
			}
		}
		ru.Check(ok, "to_hex", p.Rel(hexFn.Pos()), "hex(io copy of ToBitReader(input))", "to_hex: "+why)
	}
}

// ---------------------------------------------------------------------------
// positive controls

func init() {
	const bin = "pkg/interp/binary.go"
	add := func(id, rule, file, old, new, key string) {
		AddControl(Control{ID: id, Prop: "C09", Rule: rule, File: file, Old: old, New: new, ExpectKey: key})
	}
	// C09.byte
	add("C09.byte.bigfast", "C09.byte", bin,
		"if ev.Cmp(big.NewInt(0)) >= 0 && ev.Cmp(big.NewInt(255)) <= 0 {\n\t\t\t\t\tbs.WriteByte(byte(ev.Uint64()))",
		"if ev.Uint64() <= 255 {\n\t\t\t\t\tbs.WriteByte(byte(ev.Uint64()))", "*math/big.Int")
	add("C09.byte.int256", "C09.byte", bin, "if ev >= 0 && ev <= 255 {", "if ev >= 0 && ev <= 256 {", "byte<-int")
	add("C09.byte.floatneg", "C09.byte", bin, "if b >= 0 && b <= 255 {", "if b <= 255 {", "byte<-float64")
	add("C09.byte.slowtight", "C09.byte", bin, "if bi.Cmp(big.NewInt(255)) > 0 || bi.Cmp(big.NewInt(0)) < 0 {", "if bi.Cmp(big.NewInt(255)) >= 0 || bi.Cmp(big.NewInt(0)) < 0 {", "toBigInt")
	add("C09.byte.drop", "C09.byte", bin, "bs.WriteString(ev)\n\t\t\t\tcontinue", "continue", "fast-loop")
	// C09.accept
	add("C09.accept.rec", "C09.accept", bin, "toBitReaderEx(e, true)", "toBitReaderEx(e, false)", "recursion")
	add("C09.accept.bool", "C09.accept", bin, "case string:\n\t\treturn bitio.NewBitReader([]byte(vv), -1), nil", "case bool:\n\t\treturn nil, nil\n\tcase string:\n\t\treturn bitio.NewBitReader([]byte(vv), -1), nil", "types")
	add("C09.accept.split", "C09.accept", bin, "\t\tif inArray {\n\t\t\tif bi.Cmp", "\t\tif !inArray {\n\t\t\tif bi.Cmp", "number-split")
	// C09.num
	add("C09.num.pad", "C09.num", bin, "padBefore := (8 - (bitLen % 8)) % 8", "padBefore := bitLen % 8", "number-pad")
	add("C09.num.tonumber", "C09.num", bin, "extraBits := uint((8 - b.r.Len%8) % 8)", "extraBits := uint((8 - b.unit%8) % 8)", "JQValueToNumber:shift")
	add("C09.num.index", "C09.num", bin, "ranges.Range{Start: b.r.Start + int64(index*b.unit), Len: int64(b.unit)}", "ranges.Range{Start: (b.r.Start + int64(index)) * int64(b.unit), Len: int64(b.unit)}", "JQValueIndex:range")
	add("C09.num.zero", "C09.num", bin, "return bitio.NewBitReader(z[:], 1), nil", "return bitio.NewBitReader(z[:], 8), nil", "number-zero")
	// C09.unit
	add("C09.unit.slicelen", "C09.unit", bin, "rLen := int64((end - start) * b.unit)", "rLen := int64(end * b.unit)", "JQValueSlice")
	add("C09.unit.size", "C09.unit", bin, "case \"size\":\n\t\treturn new(big.Int).SetInt64(b.r.Len / int64(b.unit))", "case \"size\":\n\t\treturn new(big.Int).SetInt64(b.r.Len / 8)", "JQValueKey:size")
	add("C09.unit.stop", "C09.unit", bin, "if stop%int64(b.unit) != 0 {\n\t\t\tstopUnits++\n\t\t}", "", "JQValueKey:stop")
	add("C09.unit.bytes", "C09.unit", bin, "return Binary{br: b.br, r: b.r, unit: 8}", "return Binary{br: b.br, r: b.r, unit: 1}", "JQValueKey:bytes")
	add("C09.unit.length", "C09.unit", bin, "return int(b.r.Len / int64(b.unit))", "return int(b.r.Stop() / int64(b.unit))", "JQValueLength")
	add("C09.unit.dvbits", "C09.unit", "pkg/interp/decode.go", "r:    dv.InnerRange(),\n\t\t\tunit: 1,", "r:    dv.InnerRange(),\n\t\t\tunit: 8,", "_bits")
	// C09.pad
	add("C09.pad.guard", "C09.pad", bin, "if opts.Unit <= 0 || opts.PadToUnits < 0 {", "if opts.Unit < 0 || opts.PadToUnits < 0 {", "_toBits:guard")
	add("C09.pad.formula", "C09.pad", bin, "bv.pad = (pad - bv.r.Len%pad) % pad", "bv.pad = pad - bv.r.Len%pad", "_toBits:pad")
	add("C09.pad.order", "C09.pad", bin, "bitio.NewMultiReader(bitiox.NewZeroAtSeeker(b.pad), br)", "bitio.NewMultiReader(br, bitiox.NewZeroAtSeeker(b.pad))", "toReader:front")
	add("C09.pad.keep", "C09.pad", bin, "\tif opts.KeepRange {\n\t\treturn bv", "\tif !opts.KeepRange {\n\t\treturn bv", "keep_range")
	// C09.zero
	add("C09.zero.bytes", "C09.zero", "internal/bitiox/zeroreadatseeker.go", "rBytes := bitio.BitsByteCount(rBits)", "rBytes := rBits / 8", "ReadBitsAt:fill")
	add("C09.zero.count", "C09.zero", "internal/bitiox/zeroreadatseeker.go", "rBits := min(nBits, lBits)", "rBits := min(nBits, lBits+bitOff)", "ReadBitsAt:count")
	add("C09.zero.ceil", "C09.zero", "pkg/bitio/bitio.go", "n := nBits / 8\n\tif nBits%8 != 0 {\n\t\tn++\n\t}\n\treturn n", "n := nBits / 8\n\treturn n", "BitsByteCount:ceil")
	// C09.concat
	add("C09.concat.sum", "C09.concat", "pkg/bitio/multireader.go", "readerEnds[i] = esSum", "readerEnds[i] = e", "NewMultiReader:ends")
	add("C09.concat.off", "C09.concat", "pkg/bitio/multireader.go", "readerAt.ReadBitsAt(p, nBits, bitOff-prevAtEnd)", "readerAt.ReadBitsAt(p, nBits, bitOff+prevAtEnd)", "ReadBitsAt:offset")
	add("C09.concat.sel", "C09.concat", "pkg/bitio/multireader.go", "if bitOff < end {\n\t\t\treaderAt = m.readers[i]", "if bitOff <= end {\n\t\t\treaderAt = m.readers[i]", "ReadBitsAt:select")
	add("C09.concat.eof", "C09.concat", "pkg/bitio/multireader.go", "if bitOff+rBits < end {", "if bitOff+rBits <= end {", "eof-suppress")
	// C09.jq
	add("C09.jq.unit", "C09.jq", "pkg/interp/binary.jq", "def tobytes: _tobits({unit: 8, keep_range: false, pad_to_units: 0});", "def tobytes: _tobits({unit: 1, keep_range: false, pad_to_units: 0});", "tobytes/0")
	add("C09.jq.explode", "C09.jq", "pkg/interp/binary.jq", "[.[range(.size)]]", "[.[range(.size-1)]]", "explode:body")
	add("C09.jq.pad", "C09.jq", "pkg/interp/binary.jq", "def tobits($pad): _tobits({unit: 1, keep_range: false, pad_to_units: $pad});", "def tobits($pad): _tobits({unit: 1, keep_range: false, pad_to_units: 0});", "tobits/1")
}
