package rules

import (
	"go/token"
	"go/types"
	"strings"

	"golang.org/x/tools/go/ssa"

	"fqverif/fw"
)

// ---------------------------------------------------------------------------
// C07.modpaths: the module loader hands the engine a module's own import/include directives
//
// Interp.Eval's module loader rewrites the path of every directive of a loaded module relative to the
// directory of that module before the engine resolves them. gojq.Import carries one path field per kind of
// directive (include / import); a directive has exactly one of them set. Necessary for `import`/`include`
// inside modules to mean what they mean in the reference engine:
//   - every assignment to a path field F of a directive is computed from the same field F of the same
//     directive (never from the other kind's field, which is empty), and is conditional on nothing about
//     the directive but that same field;
//   - the new path is either the old path itself or path.Join(base, old path) in that order;
//   - base is path.Dir of the module name the loader was asked for.

func c07IsGojqImportPtr(t types.Type) bool {
	pt, ok := t.Underlying().(*types.Pointer)
	if !ok {
		return false
	}
	n, ok := pt.Elem().(*types.Named)
	return ok && n.Obj().Name() == "Import" && n.Obj().Pkg() != nil && n.Obj().Pkg().Path() == c07GojqPath
}

type c07FieldSrc struct {
	rec   ssa.Value
	field int
}

// c07ImportFieldLoads: the loads of directive path fields the value is computed from.
func c07ImportFieldLoads(v ssa.Value) []c07FieldSrc {
	var out []c07FieldSrc
	seen := map[ssa.Value]bool{}
	var rec func(v ssa.Value, d int)
	rec = func(v ssa.Value, d int) {
		if v == nil || seen[v] || d > 10 {
			return
		}
		seen[v] = true
		switch x := v.(type) {
		case *ssa.UnOp:
			if x.Op == token.MUL {
				if fa, ok := x.X.(*ssa.FieldAddr); ok && c07IsGojqImportPtr(fa.X.Type()) {
					out = append(out, c07FieldSrc{fa.X, fa.Field})
					return
				}
			}
			rec(x.X, d+1)
		case *ssa.Call:
			for _, a := range x.Common().Args {
				rec(a, d+1)
			}
			if x.Common().IsInvoke() {
				rec(x.Common().Value, d+1)
			}
		case *ssa.Phi:
			for _, e := range x.Edges {
				rec(e, d+1)
			}
		case *ssa.Slice:
			rec(x.X, d+1)
			// variadic argument array
			for _, el := range c07VariadicOrdered(x) {
				rec(el, d+1)
			}
		case *ssa.Const, *ssa.Parameter, *ssa.FreeVar, *ssa.Global, *ssa.Function, *ssa.Alloc:
		case ssa.Instruction:
			for _, op := range x.Operands(nil) {
				if *op != nil {
					rec(*op, d+1)
				}
			}
		}
	}
	rec(v, 0)
	return out
}

func c07ModPaths(r *fw.Run, p *fw.Program) {
	ru := r.Rule("C07.modpaths", "Interp.Eval's module loader rewrites each path field of a loaded module's import/include directives from that same field of the same directive (conditional on that field alone), as the old path itself or path.Join(base, old path), with base = path.Dir(module name)", 6)
	fn := p.Fn("(*pkg/interp.Interp).Eval")
	if fn == nil {
		ru.Undecided("anchor", "", "(*interp.Interp).Eval not found")
		return
	}
	var scope []*ssa.Function
	seenF := map[*ssa.Function]bool{}
	var add func(f *ssa.Function, d int)
	add = func(f *ssa.Function, d int) {
		if f == nil || seenF[f] || f.Blocks == nil {
			return
		}
		seenF[f] = true
		scope = append(scope, f)
		for _, a := range f.AnonFuncs {
			add(a, d)
		}
		if d < 1 {
			for _, c := range fw.CallsIn(f) {
				if cal := c.Common().StaticCallee(); cal != nil && cal.Pkg == fn.Pkg && !strings.HasPrefix(cal.Name(), "Eval") {
					add(cal, d+1)
				}
			}
		}
	}
	add(fn, 0)
	n := 0
	for _, f := range scope {
		fw.EachInstr(f, func(ins ssa.Instruction) {
			st, ok := ins.(*ssa.Store)
			if !ok {
				return
			}
			fa, ok := st.Addr.(*ssa.FieldAddr)
			if !ok || !c07IsGojqImportPtr(fa.X.Type()) {
				return
			}
			name := fieldNameOf(fa.X.Type(), fa.Field)
			key := "import:" + name
			pos := p.Rel(st.Pos())
			n++
			// (A) same field of the same directive
			srcs := c07ImportFieldLoads(st.Val)
			okA := len(srcs) > 0
			other := ""
			for _, s := range srcs {
				if s.rec != fa.X || s.field != fa.Field {
					okA = false
					other = fieldNameOf(s.rec.Type(), s.field)
				}
			}
			switch {
			case len(srcs) == 0:
				ru.Fail(key, pos, "the new "+name+" of a module's directive is not computed from its old "+name)
			case !okA:
				ru.Fail(key, pos, "the new "+name+" of a module's directive is computed from "+other+" (the field of the other kind of directive, or of another directive): nested import/include paths resolve wrongly")
			default:
				ru.Ok(key, pos, name+" = f(base, "+name+") of the same directive")
			}
			// (B) guards on the directive mention that field only
			bad := ""
			for _, g := range fw.Guards(st.Block()) {
				for _, s := range c07ImportFieldLoads(g.Cond) {
					if s.rec == fa.X && s.field != fa.Field {
						bad = fieldNameOf(s.rec.Type(), s.field)
					}
				}
			}
			ru.Check(bad == "", key+":guard", pos, "conditional on "+name+" alone", "the rewrite of "+name+" is conditional on "+bad+" of the directive: it is applied to the wrong kind of directive or never")
			// (C) old path or Join(base, old path); (D) base
			okC, why, base := c07JoinOfOld(st.Val)
			if why == "shape" {
				ru.Undecided(key+":join", pos, "the new path is not computed by a call taking (base, old path) that returns the old path or path.Join(base, old path)")
			} else {
				ru.Check(okC, key+":join", pos, "old path, or path.Join(base, old path)", "the new "+name+" is "+why)
			}
			if base != nil {
				isDir := false
				if call, ok := base.(*ssa.Call); ok && fw.CalleeName(call) == "path.Dir" && len(call.Common().Args) == 1 {
					// the module name parameter, possibly with a suffix cut off or appended (name, name without "?", name + ".jq")
					seenV := map[ssa.Value]bool{}
					var from func(v ssa.Value, d int) bool
					from = func(v ssa.Value, d int) bool {
						if v == nil || seenV[v] || d > 8 {
							return false
						}
						seenV[v] = true
						switch x := v.(type) {
						case *ssa.Parameter:
							return x.Parent() != nil && seenF[x.Parent()] && types.Identical(x.Type().Underlying(), types.Typ[types.String])
						case *ssa.Phi:
							for _, e := range x.Edges {
								if !from(e, d+1) {
									return false
								}
							}
							return len(x.Edges) > 0
						case *ssa.Slice:
							return from(x.X, d+1)
						case *ssa.BinOp:
							if x.Op == token.ADD {
								if _, isC := x.Y.(*ssa.Const); isC {
									return from(x.X, d+1)
								}
							}
						}
						return false
					}
					isDir = from(call.Common().Args[0], 0)
				}
				ru.Check(isDir, key+":base", pos, "base = path.Dir(module name)", "the directory the paths of a module's directives are made relative to is not path.Dir of the module name the loader was asked for")
			}
		})
	}
	if n == 0 {
		ru.Undecided("anchor", p.Rel(fn.Pos()), "no assignment to a path field of gojq.Import found in the module loader")
	}
}

// c07JoinOfOld: v is path.Join(base, old) or a call F(.., base, .., old, ..) of a function all of whose
// returns are its old-path parameter or path.Join(base parameter, old-path parameter). Returns the base
// value as seen by the caller.
func c07JoinOfOld(v ssa.Value) (ok bool, why string, base ssa.Value) {
	call, isCall := v.(*ssa.Call)
	if !isCall {
		return false, "shape", nil
	}
	isOld := func(a ssa.Value) bool {
		if u, ok := a.(*ssa.UnOp); ok && u.Op == token.MUL {
			if fa, ok := u.X.(*ssa.FieldAddr); ok && c07IsGojqImportPtr(fa.X.Type()) {
				return true
			}
		}
		return false
	}
	isJoin := func(c *ssa.Call) bool {
		n := fw.CalleeName(c)
		return n == "path.Join" || n == "path/filepath.Join"
	}
	if isJoin(call) {
		els := c07VariadicOrdered(call.Common().Args[0])
		if len(els) == 2 && isOld(els[1]) && !isOld(els[0]) {
			return true, "", els[0]
		}
		return false, "a join that does not put the base first and the old path second", nil
	}
	f := call.Common().StaticCallee()
	if f == nil || f.Blocks == nil {
		return false, "shape", nil
	}
	off := len(f.Params) - len(call.Common().Args) // bound receiver / none
	if off < 0 {
		return false, "shape", nil
	}
	oldIdx := -1
	for i, a := range call.Common().Args {
		if isOld(a) {
			if oldIdx >= 0 {
				return false, "shape", nil
			}
			oldIdx = i
		}
	}
	if oldIdx < 0 {
		return false, "shape", nil
	}
	oldP := f.Params[oldIdx+off]
	var baseP *ssa.Parameter
	var capt ssa.Value
	good, nret := true, 0
	msg := ""
	fw.EachInstr(f, func(ins ssa.Instruction) {
		ret, isRet := ins.(*ssa.Return)
		if !isRet {
			return
		}
		nret++
		if len(ret.Results) != 1 {
			good = false
			return
		}
		switch x := ret.Results[0].(type) {
		case *ssa.Parameter:
			if x != oldP {
				good, msg = false, "a parameter other than the old path (the base directory itself)"
			}
		case *ssa.Call:
			if !isJoin(x) {
				good, msg = false, "the result of "+fw.CalleeName(x)+", not path.Join(base, old path)"
				return
			}
			els := c07VariadicOrdered(x.Common().Args[0])
			b, okb := (ssa.Value)(nil), false
			if len(els) == 2 {
				b, okb = els[0], true
			}
			if okb && els[1] == ssa.Value(oldP) {
				// base captured from the enclosing function instead of passed
				fvv := b
				if u, isU := fvv.(*ssa.UnOp); isU && u.Op == token.MUL {
					fvv = u.X
				}
				if fv, isFV := fvv.(*ssa.FreeVar); isFV {
					if mc, isMC := call.Common().Value.(*ssa.MakeClosure); isMC {
						for i, x := range f.FreeVars {
							if x == fv && i < len(mc.Bindings) {
								capt = mc.Bindings[i]
								if al, isAl := capt.(*ssa.Alloc); isAl && al.Referrers() != nil {
									var stores []*ssa.Store
									for _, rf := range *al.Referrers() {
										if st, isSt := rf.(*ssa.Store); isSt && st.Addr == ssa.Value(al) {
											stores = append(stores, st)
										}
									}
									if len(stores) == 1 {
										capt = stores[0].Val
									}
								}
							}
						}
					}
					if capt != nil {
						return
					}
				}
			}
			bp, isP := b.(*ssa.Parameter)
			if !okb || els[1] != ssa.Value(oldP) || !isP || bp == oldP || (baseP != nil && baseP != bp) {
				good, msg = false, "a join that does not put the base first and the old path second"
				return
			}
			baseP = bp
		default:
			good, msg = false, "neither the old path nor path.Join(base, old path)"
		}
	})
	if !good || nret == 0 {
		if msg == "" {
			msg = "neither the old path nor path.Join(base, old path)"
		}
		return false, msg, nil
	}
	if capt != nil && baseP == nil {
		base = capt
	}
	if baseP != nil {
		for i, pa := range f.Params {
			if pa == baseP && i-off >= 0 && i-off < len(call.Common().Args) {
				base = call.Common().Args[i-off]
			}
		}
	}
	return true, "", base
}

// c07VariadicOrdered: the elements of a variadic argument slice `[n]T{...}[:]`, by index.
func c07VariadicOrdered(v ssa.Value) []ssa.Value {
	sl, ok := v.(*ssa.Slice)
	if !ok {
		return nil
	}
	al, ok := sl.X.(*ssa.Alloc)
	if !ok || al.Referrers() == nil {
		return nil
	}
	at, ok := al.Type().Underlying().(*types.Pointer).Elem().Underlying().(*types.Array)
	if !ok || at.Len() > 16 {
		return nil
	}
	out := make([]ssa.Value, at.Len())
	for _, r := range *al.Referrers() {
		ia, ok := r.(*ssa.IndexAddr)
		if !ok || ia.Referrers() == nil {
			continue
		}
		k, ok := ia.Index.(*ssa.Const)
		if !ok || k.Value == nil || k.Int64() < 0 || k.Int64() >= at.Len() {
			return nil
		}
		for _, r2 := range *ia.Referrers() {
			if st, ok := r2.(*ssa.Store); ok {
				if out[k.Int64()] != nil {
					return nil
				}
				out[k.Int64()] = st.Val
			}
		}
	}
	for _, e := range out {
		if e == nil {
			return nil
		}
	}
	return out
}
