package rules

import (
	"fmt"
	"go/types"
	"sort"

	"fqverif/fw"

	"golang.org/x/tools/go/ssa"
)

// ---------------------------------------------------------------------------
// C13.cast: the argument cast every adapter goes through cannot fault
//
// gojqx.CastFn[T] selects an arm by a type switch on the zero value of T and hands the converted jq value
// back as `any(x).(T)`, an unchecked assertion. For a concrete instance the outcome of every test on the
// zero value is known, so every arm is either dead or live, and in a live arm the assertion succeeds
// exactly when the boxed static type of x is the asserted type. A value boxed with another type
// (int64 where T = int, an unconverted float64 in the int arm ...) is an "interface conversion" panic for
// every jq value that reaches the arm. Rule, for every instance of CastFn anywhere in fq (the adapters
// instantiate it for each parameter type of each registered function):
//   live     every unchecked assertion in a live arm boxes exactly the asserted type
//   kind     T is one of the kinds CastFn handles, and struct instances are given a struct mapper
//            (otherwise the instance panics "unsupported type" / "structFn nil" on every call)
// The same reasoning applies to any other generic helper in jq-callable code that asserts a freshly boxed
// value; only CastFn does so today.

func c13Cast(r *fw.Run, p *fw.Program) {
	ru := r.Rule("C13.cast", "in every instance of gojqx.CastFn[T] each unchecked assertion any(x).(T) that is live for this T (the dominating tests on the zero value of T hold) boxes a value whose static type is exactly T; T is a kind CastFn handles and struct instances get a struct mapper", 40)
	var insts []*ssa.Function
	for _, fn := range p.FqFunctions() {
		if o := fn.Origin(); o == nil || o.String() != fw.Mod+"/internal/gojqx.CastFn" || fn.Blocks == nil {
			continue
		}
		open := false
		for _, ta := range fn.TypeArgs() {
			if c13HasTypeParam(ta) {
				open = true
			}
		}
		if !open {
			insts = append(insts, fn)
		}
	}
	sort.Slice(insts, func(i, j int) bool { return insts[i].String() < insts[j].String() })
	if len(insts) < 5 {
		ru.Undecided("anchor:CastFn", "", fmt.Sprintf("only %d closed instances of gojqx.CastFn found", len(insts)))
	}
	for _, fn := range insts {
		name := fw.ShortFn(fn)
		if why := castFnInstanceBad(p, fn); why != "" {
			ru.Fail(name+"|kind", p.Rel(fn.Pos()), "this instance panics on every call: "+why)
		} else {
			ru.Ok(name+"|kind", p.Rel(fn.Pos()), "handled kind")
		}
		seen := map[string]int{}
		fw.EachInstr(fn, func(ins ssa.Instruction) {
			ta, ok := ins.(*ssa.TypeAssert)
			if !ok || ta.CommaOk {
				return
			}
			if c13DeadBlock(ta.Block()) {
				return
			}
			boxed := "a value of unknown dynamic type"
			good := false
			if mi, ok := ta.X.(*ssa.MakeInterface); ok {
				boxed = shortType(mi.X.Type())
				if st, known := c13StaticAssert(mi.X.Type(), ta.AssertedType); known {
					good = st
				}
			}
			base := fmt.Sprintf("%s|live:%s->%s", name, boxed, shortType(ta.AssertedType))
			seen[base]++
			key := base
			if seen[base] > 1 {
				key = fmt.Sprintf("%s#%d", base, seen[base])
			}
			ru.Check(good, key, p.Rel(ta.Pos()), "boxed type is the asserted type",
				"in the arm selected for T = "+shortType(ta.AssertedType)+" the value handed back is boxed as "+boxed+": the unchecked assertion to "+shortType(ta.AssertedType)+" panics ('interface conversion') for every jq value that takes this arm, ending fq instead of casting the argument")
		})
	}
}

func c13HasTypeParam(t types.Type) bool {
	switch u := t.(type) {
	case *types.TypeParam:
		return true
	case *types.Pointer:
		return c13HasTypeParam(u.Elem())
	case *types.Slice:
		return c13HasTypeParam(u.Elem())
	case *types.Map:
		return c13HasTypeParam(u.Key()) || c13HasTypeParam(u.Elem())
	case *types.Named:
		if ta := u.TypeArgs(); ta != nil {
			for i := 0; i < ta.Len(); i++ {
				if c13HasTypeParam(ta.At(i)) {
					return true
				}
			}
		}
	}
	return false
}

// c13StaticAssert: the outcome of asserting a value boxed with static type c to type k, when it is
// decided by the types alone (c is not an interface).
func c13StaticAssert(c, k types.Type) (succeeds bool, known bool) {
	if _, isIface := c.Underlying().(*types.Interface); isIface {
		return false, false
	}
	if c13HasTypeParam(c) || c13HasTypeParam(k) {
		return false, false
	}
	if ki, ok := k.Underlying().(*types.Interface); ok {
		return types.Implements(c, ki), true
	}
	return types.Identical(c, k), true
}

// c13DeadBlock: some dominating comma-ok assertion on a freshly boxed value has an outcome the types
// alone contradict (the arm of another T).
func c13DeadBlock(b *ssa.BasicBlock) bool {
	for _, g := range fw.Guards(b) {
		g = g.Normalize()
		ex, ok := g.Cond.(*ssa.Extract)
		if !ok || ex.Index != 1 {
			continue
		}
		ta, ok := ex.Tuple.(*ssa.TypeAssert)
		if !ok || !ta.CommaOk {
			continue
		}
		mi, ok := ta.X.(*ssa.MakeInterface)
		if !ok {
			continue
		}
		if st, known := c13StaticAssert(mi.X.Type(), ta.AssertedType); known && st != g.True {
			return true
		}
	}
	return false
}
