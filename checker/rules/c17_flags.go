package rules

import (
	"fmt"
	"regexp"
	"sort"
	"strings"

	"github.com/wader/gojq"

	"fqverif/fw"
)

// c17Opt is one entry of _opt_cli_opts evaluated to constants.
type c17Opt struct {
	name     string
	short    string
	long     string
	aliases  []string
	kinds    []string
	optional bool
	fields   map[string]bool
}

// c17ObjLit returns the key/value pairs when q is an object literal with constant keys.
func c17ObjLit(q *gojq.Query) ([]*gojq.ObjectKeyVal, bool) {
	q = c17Unparen(q)
	if q == nil || q.Left != nil || q.Term == nil || q.Term.Type != gojq.TermTypeObject || q.Term.Object == nil || len(q.Term.SuffixList) > 0 {
		return nil, false
	}
	for _, kv := range q.Term.Object.KeyVals {
		if c17KVKey(kv) == "" {
			return nil, false
		}
	}
	return q.Term.Object.KeyVals, true
}

func c17KVKey(kv *gojq.ObjectKeyVal) string {
	if kv.Key != "" {
		return kv.Key
	}
	if kv.KeyString != nil && len(kv.KeyString.Queries) == 0 {
		return kv.KeyString.Str
	}
	return ""
}

func (m *c17Model) cliOpts(ru *fw.Rule) ([]c17Opt, *fw.JQDef) {
	d := m.def(ru, "_opt_cli_opts", 0)
	if d == nil {
		return nil, nil
	}
	kvs, ok := c17ObjLit(d.Def.Body)
	if !ok {
		ru.Undecided("anchor:_opt_cli_opts", c17Pos(d), "_opt_cli_opts is not an object literal with constant keys")
		return nil, d
	}
	var out []c17Opt
	for _, kv := range kvs {
		o := c17Opt{name: c17KVKey(kv), fields: map[string]bool{}}
		fs, ok := c17ObjLit(kv.Val)
		if !ok {
			ru.Undecided("opt:"+o.name, c17Pos(d), "option description is not an object literal")
			continue
		}
		bad := false
		for _, f := range fs {
			k := c17KVKey(f)
			o.fields[k] = true
			v := c17Unparen(f.Val)
			switch k {
			case "short", "long":
				s, ok := fw.JQConstString(v)
				if !ok {
					bad = true
				}
				if k == "short" {
					o.short = s
				} else {
					o.long = s
				}
			case "aliases":
				if v == nil || v.Term == nil || v.Term.Type != gojq.TermTypeArray {
					bad = true
					break
				}
				for _, e := range c17Commas(v.Term.Array.Query) {
					s, ok := fw.JQConstString(e)
					if !ok {
						bad = true
					}
					o.aliases = append(o.aliases, s)
				}
			case "bool", "string", "array", "object", "pairs":
				// a kind counts when its value is truthy (true or a placeholder string)
				if v != nil && v.Term != nil && (v.Term.Type == gojq.TermTypeTrue || v.Term.Type == gojq.TermTypeString) {
					o.kinds = append(o.kinds, k)
				} else if v != nil && v.Term != nil && (v.Term.Type == gojq.TermTypeFalse || v.Term.Type == gojq.TermTypeNull) {
					// explicitly off
				} else {
					bad = true
				}
			case "optional":
				o.optional = v != nil && v.Term != nil && v.Term.Type == gojq.TermTypeTrue
			}
		}
		if bad {
			ru.Undecided("opt:"+o.name, c17Pos(d), "option description has a non-constant flag or kind field")
			continue
		}
		out = append(out, o)
	}
	return out, d
}

var (
	c17ShortRe = regexp.MustCompile(`^-[^-\d=]$`)
	c17LongRe  = regexp.MustCompile(`^--[^-\d=][^=]*$`)
)

// jq's documented spellings fq promises to accept, with the option they bind to and its arity class.
var c17JQFlags = []struct{ flag, opt, kind string }{
	{"-n", "null_input", "bool"}, {"--null-input", "null_input", "bool"},
	{"-s", "slurp", "bool"}, {"--slurp", "slurp", "bool"},
	{"-R", "string_input", "bool"}, {"--raw-input", "string_input", "bool"},
	{"-r", "raw_string", "bool"}, {"--raw-output", "raw_string", "bool"},
	{"-j", "join_output", "bool"}, {"--join-output", "join_output", "bool"},
	{"--raw-output0", "null_output", "bool"},
	{"-c", "compact", "bool"}, {"--compact-output", "compact", "bool"},
	{"-C", "color_output", "bool"}, {"--color-output", "color_output", "bool"},
	{"-M", "monochrome_output", "bool"}, {"--monochrome-output", "monochrome_output", "bool"},
	{"-f", "expr_file", "string"}, {"--from-file", "expr_file", "string"},
	{"-L", "include_path", "array"},
	{"--arg", "arg", "pairs"}, {"--argjson", "argjson", "pairs"}, {"--raw-file", "raw_file", "pairs"},
	// fq's own
	{"-d", "decode_group", "string"}, {"--decode", "decode_group", "string"},
	{"-o", "option", "object"}, {"--option", "option", "object"},
	{"-i", "repl", "bool"}, {"--repl", "repl", "bool"},
	{"-h", "show_help", "string"}, {"--help", "show_help", "string"},
	{"-v", "show_version", "bool"}, {"--version", "show_version", "bool"},
	{"-V", "value_output", "bool"}, {"--value-output", "value_output", "bool"},
	{"--argdecode", "argdecode", "pairs"},
}

func c17Flags(m *c17Model) {
	ru := m.r.Rule("C17.flags", "_opt_cli_opts: every short/long/alias spelling is well formed and bound to exactly one option; every option has exactly one kind (bool/string/array/object/pairs), `optional` only on string options; the jq-compatible spellings are present with jq's arity; every option name is consumed (a fixed option or read somewhere in the bundled jq sources)", 150)
	opts, d := m.cliOpts(ru)
	if d == nil || len(opts) == 0 {
		return
	}
	pos := c17Pos(d)
	owner := map[string]string{}
	byName := map[string]c17Opt{}
	names := map[string]bool{}
	for _, o := range opts {
		if names[o.name] {
			ru.Fail("opt:"+o.name+":dup", pos, "option "+o.name+" is defined twice in the table: the later entry silently replaces the earlier")
		}
		names[o.name] = true
		byName[o.name] = o
		// kind
		ru.Check(len(o.kinds) == 1, "opt:"+o.name+":kind", pos, "kind "+strings.Join(o.kinds, ","), fmt.Sprintf("option %s has kinds %v: exactly one of bool/string/array/object/pairs decides how many arguments it takes", o.name, o.kinds))
		if o.optional {
			ru.Check(len(o.kinds) == 1 && o.kinds[0] == "string", "opt:"+o.name+":optional", pos, "optional value on a string option", "`optional` on a non-string option is ignored by the parser")
		}
		if o.short == "" && o.long == "" {
			ru.Fail("opt:"+o.name+":spelling", pos, "option has neither short nor long flag")
		}
		var flags []string
		if o.short != "" {
			flags = append(flags, o.short)
			ru.Check(c17ShortRe.MatchString(o.short), "flag:"+o.short+":form", pos, "short form", "short flag "+o.short+" is not '-' plus one non-digit character: combined short flags and the flag test cannot reach it")
		}
		if o.long != "" {
			flags = append(flags, o.long)
		}
		flags = append(flags, o.aliases...)
		for _, f := range flags {
			if f != o.short {
				ru.Check(c17LongRe.MatchString(f), "flag:"+f+":form", pos, "long form", "long flag "+f+" must start with -- followed by a non-digit and contain no '=' (it is cut at the first '=')")
			}
			if prev, ok := owner[f]; ok && prev != o.name {
				ru.Fail("flag:"+f+":unique", pos, "flag "+f+" is bound to both "+prev+" and "+o.name+": one of them is unreachable")
				continue
			}
			if _, ok := owner[f]; !ok {
				owner[f] = o.name
				ru.Ok("flag:"+f+":unique", pos, "-> "+o.name)
			}
		}
	}
	for _, w := range c17JQFlags {
		key := "compat:" + w.flag
		got, ok := owner[w.flag]
		if !ok {
			ru.Fail(key, pos, "flag "+w.flag+" is no longer accepted")
			continue
		}
		if got != w.opt {
			ru.Fail(key, pos, "flag "+w.flag+" is bound to option "+got+", expected "+w.opt)
			continue
		}
		k := byName[got].kinds
		ru.Check(len(k) == 1 && k[0] == w.kind, key, pos, w.opt+" ("+w.kind+")", fmt.Sprintf("flag %s takes arguments as %v, expected %s", w.flag, k, w.kind))
	}
	// consumers of option names
	consumed := map[string]bool{}
	if fd := m.def(ru, "_opt_build_default_fixed", 0); fd != nil {
		fw.WalkJQ(fd.Def.Body, func(x any) bool {
			if o, ok := x.(*gojq.Object); ok && len(o.KeyVals) > 20 {
				for _, kv := range o.KeyVals {
					consumed[c17KVKey(kv)] = true
				}
				return false
			}
			return true
		}, false)
	}
	// options are merged into one object read all over the interpreter: any `.name` / `$x.name`
	// access in a bundled jq file counts as a consumer
	for _, jd := range m.jq.Defs {
		if jd.Parent != nil || jd == d {
			continue
		}
		fw.WalkJQ(jd.Def.Body, func(x any) bool {
			switch t := x.(type) {
			case *gojq.Index:
				if t.Name != "" {
					consumed[t.Name] = true
				}
			}
			return true
		}, false)
	}
	if len(consumed) < 40 {
		ru.Undecided("anchor:consumers", pos, "cannot enumerate the consumers of option names")
		return
	}
	var ns []string
	for n := range names {
		ns = append(ns, n)
	}
	sort.Strings(ns)
	for _, n := range ns {
		ru.Check(consumed[n], "opt:"+n+":consumed", pos, "read by the option machinery", "option name "+n+" set by the parser is neither a fixed option nor read by _opt_eval/_main: the flag is silently ignored")
	}
}

// ---------------------------------------------------------------------------
// C17.modes: derivations in _opt_eval and _main

// c17FieldOf returns the value expression of key in the object literal that _opt_eval adds.
func c17OptEvalFields(d *fw.JQDef) map[string]*gojq.Query {
	out := map[string]*gojq.Query{}
	fw.WalkJQ(d.Def.Body, func(x any) bool {
		if o, ok := x.(*gojq.Object); ok && len(out) == 0 {
			tmp := map[string]*gojq.Query{}
			for _, kv := range o.KeyVals {
				if k := c17KVKey(kv); k != "" && kv.Val != nil {
					tmp[k] = kv.Val
				}
			}
			if tmp["join_string"] != nil && tmp["filenames"] != nil {
				out = tmp
				return false
			}
		}
		return true
	}, false)
	return out
}

// c17Decision renders an if chain as "cond=>then; ...; else=>x".
func c17Decision(q *gojq.Query) string {
	// the last step of a pipeline may carry the chain
	i := c17IsIf(q)
	if i == nil {
		return "?" + c17S(q)
	}
	var parts []string
	for _, a := range c17Arms(i) {
		c := "else"
		if a.Cond != nil {
			c = c17S(a.Cond)
		}
		t := "."
		if a.Then != nil {
			t = c17S(a.Then)
		}
		parts = append(parts, c+" => "+t)
	}
	return strings.Join(parts, " ; ")
}

func c17OptEval(m *c17Model) {
	ru := m.r.Rule("C17.modes", "jq-compatible modes: _opt_eval derives join_string (\"\" for -j, NUL for --raw-output0), raw_string, color, expr / filenames / null_input from the positional arguments ($rest[0] is the program unless -f, the rest are files, none = stdin); _main selects the input query (null / inputs / [inputs]) and layers defaults < flags < -o options < derived; usage + exit 2 only when nothing was asked for and stdin/stdout are terminals; every pair option (--arg/--argjson/--raw-file/--argdecode) reaches the program variables as NAME -> VALUE and conversions act on the VALUE position; -U/-V derivations; -o KEY=@PATH; -o conversion table agrees with the declared option types", 40)
	d := m.def(ru, "_opt_eval", 1)
	if d == nil {
		return
	}
	pos := c17Pos(d)
	rest := d.Def.Args[0]
	f := c17OptEvalFields(d)
	if len(f) == 0 {
		ru.Undecided("anchor:_opt_eval:fields", pos, "cannot find the object of derived options in _opt_eval")
		return
	}
	chk := func(key, got, want, why string) {
		ru.Check(got == want, "opt_eval:"+key, pos, want, why+": "+got+" (expected "+want+")")
	}
	chk("join_string", c17Decision(f["join_string"]), `.join_output => "" ; .null_output => "\u0000" ; else => null`, "join string derivation (-j joins with nothing, --raw-output0 with NUL, else default newline)")
	chk("raw_string", c17Decision(f["raw_string"]), `.raw_string or .join_output or .null_output => true ; else => null`, "raw string output is implied by -r, -j and --raw-output0")
	chk("color", c17Decision(f["color"]), `.monochrome_output == true => false ; .color_output == true => true ; else => null`, "-M/-C derivation")
	chk("expr_given", c17S(f["expr_given"]), rest+"[0] != null", "whether a program was given")
	chk("expr_eval_path", c17S(f["expr_eval_path"]), ".expr_file", "path shown in compile errors")
	// expr: -f file content else first positional
	{
		st := c17Steps(f["expr"])
		got := "?"
		if len(st) >= 2 && c17S(st[0].Q) == ".expr_file" {
			if i := c17IsIf(st[len(st)-1].Q); i != nil && len(i.Elif) == 0 && i.Else != nil && c17IsIdentity(i.Cond) {
				t := c17IsTry(i.Then)
				if t != nil && c17S(t.Body) == "open | tobytes | tostring" {
					got = "file => read ; else => " + c17S(i.Else)
				}
			}
		}
		chk("expr", got, "file => read ; else => "+rest+"[0] // null", "program source: content of -f FILE, otherwise the first positional argument")
	}
	// filenames
	{
		st := c17Steps(f["filenames"])
		got := "?"
		if len(st) == 2 {
			got = c17Decision(st[0].Q) + " | " + c17Decision(st[1].Q)
		}
		chk("filenames", got, ".filenames => .filenames ; .expr_file => "+rest+" ; else => "+rest+"[1:] | . == [] => [null] ; else => .", "input files: all positionals with -f, otherwise all but the first; none means stdin ([null])")
	}
	// null_input
	{
		st := c17Steps(f["null_input"])
		got := "?"
		if len(st) == 2 && len(st[0].Bind) == 1 {
			got = c17Decision(st[0].Q) + " as " + st[0].Bind[0].Name + " | " + c17Decision(st[1].Q)
		}
		chk("null_input", got, ".expr_file => "+rest+" ; else => "+rest+"[1:] as $files | $files == [] and .repl => true ; else => null", "implicit null input only for a repl without files")
	}
	// last step drops nulls so that derived values only override when set
	{
		st := c17Steps(d.Def.Body)
		chk("drop-null", c17S(st[len(st)-1].Q), "with_entries(select(.value != null))", "derived options that are null must not override flags")
	}

	md := m.def(ru, "_main", 0)
	if md == nil {
		return
	}
	mpos := c17Pos(md)
	// local names used by _main for the options, the parsed flags and the positional arguments
	OP, PA, RS := "", "", ""
	for _, st := range c17Steps(md.Def.Body) {
		if len(st.Bind) != 1 {
			continue
		}
		if fw.JQIsCall(st.Q, "options", 0) != nil && st.Bind[0].Name != "" {
			OP = st.Bind[0].Name
		}
		if c17HasCall(st.Q, "_args_parse", 2) {
			for _, po := range st.Bind[0].Object {
				switch {
				case po.Key == "parsed" && po.Val != nil:
					PA = po.Val.Name
				case po.Key == "$parsed":
					PA = "$parsed"
				case po.Key == "rest" && po.Val != nil:
					RS = po.Val.Name
				case po.Key == "$rest":
					RS = "$rest"
				}
			}
		}
	}
	if OP == "" || PA == "" || RS == "" {
		ru.Undecided("anchor:_main:locals", mpos, "cannot find the bindings of options / parsed flags / positional arguments in _main")
		return
	}
	// the list of inputs handed to input/inputs
	{
		calls := c17Calls(md.Def.Body, "_input_filenames", 1, true)
		ru.Check(len(calls) == 1 && c17S(calls[0].Args[0]) == OP+".filenames", "main:init-filenames", mpos, "_input_filenames("+OP+".filenames)", "the remaining-input list is not initialised from options.filenames exactly once in _main")
	}
	// layering
	{
		calls := c17Calls(md.Def.Body, "_options_stack", 1, true)
		got := "?"
		if len(calls) == 1 {
			a := c17Unparen(calls[0].Args[0])
			if a.Term != nil && a.Term.Type == gojq.TermTypeArray {
				st := c17Steps(a.Term.Array.Query)
				var parts []string
				for _, s := range st {
					var ops []string
					var flat func(q *gojq.Query)
					flat = func(q *gojq.Query) {
						q = c17Unparen(q)
						if q.Op == gojq.OpAdd && q.Left != nil {
							flat(q.Left)
							flat(q.Right)
							return
						}
						ops = append(ops, c17S(q))
					}
					flat(s.Q)
					parts = append(parts, strings.Join(ops, " + "))
				}
				got = strings.Join(parts, " | ")
			}
		}
		ru.Check(got == "_opt_build_default_fixed + "+PA+" + "+PA+".option | if . then _opt_cli_arg_to_options end | . + _opt_eval("+RS+")", "main:layering", mpos,
			"defaults + flags + -o options, then + derived", "option layering changed (later operands override earlier): "+got)
	}
	// input query / output query
	{
		var inQ, outQ *gojq.Query
		fw.WalkJQ(md.Def.Body, func(x any) bool {
			if q, ok := x.(*gojq.Query); ok && q.Op == gojq.OpAssign {
				switch c17S(q.Left) {
				case ".input_query":
					inQ = q.Right
				case ".output_query":
					outQ = q.Right
				}
			}
			return true
		}, true)
		got := "?"
		if inQ != nil {
			got = c17Decision(inQ)
		}
		ru.Check(got == OP+`.null_input => _query_null ; `+OP+`.string_input => _query_func("inputs") ; `+OP+`.slurp => _query_func("inputs") | _query_array ; else => _query_func("inputs")`, "main:input_query", mpos,
			"-n: null, -R: inputs, -s: [inputs], else inputs", "selection of the input query per mode changed: "+got)
		ru.Check(outQ != nil && c17S(outQ) == `_query_func("_cli_display")`, "main:output_query", mpos, "outputs go through _cli_display", "output query is not _cli_display")
		ru.Check(len(m.jq.TopDefs("inputs", 0)) == 1 && len(m.jq.TopDefs("_cli_display", 0)) == 1, "main:query-targets", mpos, "inputs/0 and _cli_display/0 exist", "a function named in a generated query does not exist")
	}
	// the repl test of the protected evaluation and the dispatch ahead of it
	{
		_, fin := m.mainFinally(ru)
		if fin != nil {
			i := c17IsIf(fin.Args[0])
			ok := i != nil && c17S(i.Cond) == OP+".repl" && i.Else != nil && len(c17Calls(i.Else, "_cli_eval", 2, false)) == 1 && c17HasCall(i.Then, "_repl", 1)
			ru.Check(ok, "main:repl-split", mpos, "if $opts.repl then repl else one _cli_eval", "the protected evaluation is not `if $opts.repl then <repl> else <_cli_eval> end`")
		}
	}
	// display: join string printed after every non-display output; raw strings printed raw
	if dd := m.def(ru, "display", 2); dd != nil {
		okJoin, okRaw := false, false
		fw.WalkJQ(dd.Def.Body, func(x any) bool {
			if q, ok := x.(*gojq.Query); ok {
				switch strings.ReplaceAll(c17S(q), dd.Def.Args[0], "$O") {
				case "$O.join_string | if . then print else empty end":
					okJoin = true
				case "if _is_string and $O.raw_string then print else _print_color_json($O) end":
					okRaw = true
				}
			}
			return true
		}, false)
		ru.Check(okJoin, "display:join", c17Pos(dd), "join string printed after each value", "the join string (newline / nothing / NUL) is no longer printed after each output value")
		ru.Check(okRaw, "display:raw", c17Pos(dd), "strings printed raw only with raw_string", "raw string output no longer depends on being a string and options.raw_string")
	}
	// defaults of the mode options
	if fd := m.def(ru, "_opt_build_default_fixed", 0); fd != nil {
		want := map[string]string{"join_string": `"\n"`, "null_input": "false", "raw_string": "false", "slurp": "false", "string_input": "false", "compact": "false", "filenames": "null", "expr": `"."`, "repl": "false"}
		got := map[string]string{}
		fw.WalkJQ(fd.Def.Body, func(x any) bool {
			if kv, ok := x.(*gojq.ObjectKeyVal); ok {
				if _, w := want[c17KVKey(kv)]; w && kv.Val != nil {
					if _, dup := got[c17KVKey(kv)]; !dup {
						got[c17KVKey(kv)] = c17S(kv.Val)
					}
				}
			}
			return true
		}, false)
		var bad []string
		for k, w := range want {
			if got[k] != w {
				bad = append(bad, fmt.Sprintf("%s=%s (expected %s)", k, got[k], w))
			}
		}
		sort.Strings(bad)
		ru.Check(len(bad) == 0, "defaults:modes", c17Pos(fd), "mode options default to jq's defaults", "default of a mode option changed: "+strings.Join(bad, ", "))
	}
	c17ModesMore(m, ru, md, d, f, OP)
}
