package rules

// C20.eval, C20.writer, C20.ctxrs, C20.sig, C20.repl.

import (
	"fmt"
	"go/token"
	"go/types"
	"strings"

	"github.com/wader/gojq"
	"golang.org/x/tools/go/ssa"

	"fqverif/fw"
)

// ---------------------------------------------------------------------------
// small helpers

func c20Callee(c ssa.CallInstruction) *ssa.Function {
	f := c.Common().StaticCallee()
	if f != nil && f.Origin() != nil {
		return f.Origin()
	}
	return f
}

// c20FieldLoad: v is a load of a field called name (through any chain of field addresses).
func c20FieldLoad(v ssa.Value, name string) bool {
	switch x := v.(type) {
	case *ssa.UnOp:
		if x.Op != token.MUL {
			return false
		}
		fa, ok := x.X.(*ssa.FieldAddr)
		return ok && fieldNameOf(fa.X.Type(), fa.Field) == name
	case *ssa.Field:
		return fieldNameOf(x.X.Type(), x.Field) == name
	}
	return false
}

// c20IsInvoke reports an interface method call of the given name and returns the receiver.
func c20IsInvoke(ins ssa.Instruction, name string) (ssa.Value, bool) {
	c, ok := ins.(*ssa.Call)
	if !ok || !c.Common().IsInvoke() || c.Common().Method.Name() != name {
		return nil, false
	}
	return c.Common().Value, true
}

func c20IsNil(v ssa.Value) bool {
	c, ok := v.(*ssa.Const)
	return ok && c.IsNil()
}

func c20NotRecover(ins ssa.Instruction) bool {
	return ins.Parent().Recover == nil || ins.Block() != ins.Parent().Recover
}

// c20SelectGuard: the block of ins is only reached when select sel chose state index i;
// returns (sel, i) for the innermost such guard satisfying pred.
func c20SelectGuards(ins ssa.Instruction) (out []struct {
	Sel *ssa.Select
	Idx int
}) {
	for _, g := range fw.Guards(ins.Block()) {
		g = g.Normalize()
		bo, ok := g.Cond.(*ssa.BinOp)
		if !ok || bo.Op != token.EQL || !g.True {
			continue
		}
		ex, ok := bo.X.(*ssa.Extract)
		c, ok2 := bo.Y.(*ssa.Const)
		if !ok || !ok2 || ex.Index != 0 {
			continue
		}
		sel, ok := ex.Tuple.(*ssa.Select)
		if !ok {
			continue
		}
		i := int(c.Int64())
		if i >= 0 && i < len(sel.States) {
			out = append(out, struct {
				Sel *ssa.Select
				Idx int
			}{sel, i})
		}
	}
	return
}

// ---------------------------------------------------------------------------
// C20.eval

func c20Eval(r *fw.Run, p *fw.Program) {
	ru := r.Rule("C20.eval", "Interp.Eval pushes one context per evaluation (derived from the context it was called with) on the interrupt stack, runs gojq and the output writer under that context, and its iterator wrapper calls the pop function on iterator end AND on an error value on every path; no return after the push leaks the entry; Interp.Stop stops the stack, cli.Main defers it; the trigger function returns only after a blocking select on OS.InterruptChan and the stop channel; a jq function that hands the iterator of a pushed evaluation to gojq lazily requires the iterator wrapper to tell the stack when the evaluation is suspended (else a dropped iterator leaves a dead entry on top)", 9)
	eval := getFn(ru, p, "(*pkg/interp.Interp).Eval")
	pushFn := getFn(ru, p, "(*internal/ctxstack.Stack).Push")
	stopFn := getFn(ru, p, "(*internal/ctxstack.Stack).Stop")
	newStack := getFn(ru, p, "internal/ctxstack.New")
	if eval == nil || pushFn == nil || stopFn == nil || newStack == nil {
		return
	}
	var pushes []*ssa.Call
	for _, fn := range fw.WithClosures(eval) {
		fw.EachInstr(fn, func(ins ssa.Instruction) {
			if c, ok := ins.(*ssa.Call); ok && c.Common().StaticCallee() == pushFn {
				pushes = append(pushes, c)
			}
		})
	}
	if len(pushes) != 1 || pushes[0].Parent() != eval {
		ru.Fail("Eval:push", p.Rel(eval.Pos()), fmt.Sprintf("Interp.Eval pushes %d contexts on the interrupt stack (expected exactly one, in Eval itself): evaluations cannot be interrupted individually", len(pushes)))
		return
	}
	push := pushes[0]
	ru.Check(c20FieldLoad(push.Common().Args[0], "interruptStack"), "Eval:push", p.Rel(push.Pos()), "i.interruptStack.Push(ctx)", "Push is not called on the interpreter's interrupt stack")
	{
		args := push.Common().Args
		isParam := func(v ssa.Value) bool {
			prm, ok := v.(*ssa.Parameter)
			return ok && prm.Parent() == eval && c20IsContextType(prm.Type())
		}
		ru.Check(len(args) == 2 && c20CtxDerived(args[1], isParam), "Eval:push parent", p.Rel(push.Pos()), "Push(ctx) with Eval's own context parameter",
			"the context pushed for the evaluation is not derived from the context Eval was called with: cancelling the enclosing evaluation (or the completion timeout) does not end this evaluation")
	}
	runCtx, cancel := extractOf(push, 0), extractOf(push, 1)
	if runCtx == nil || cancel == nil {
		ru.Fail("Eval:push results", p.Rel(push.Pos()), "the context or the pop function returned by Push is discarded")
		return
	}
	isCancelCall := func(ins ssa.Instruction) bool {
		c, ok := ins.(*ssa.Call)
		return ok && !c.Common().IsInvoke() && c.Common().StaticCallee() == nil && fw.C20Resolve(c.Common().Value) == cancel
	}

	// gojq runs under the pushed context
	nrun := 0
	var runCall *ssa.Call
	fw.EachInstr(eval, func(ins ssa.Instruction) {
		c, ok := ins.(*ssa.Call)
		if !ok {
			return
		}
		if f := c.Common().StaticCallee(); f != nil && f.Name() == "RunWithContext" && len(c.Common().Args) >= 2 && precedesOnAllPaths(push, c) {
			nrun++
			runCall = c
			ru.Check(fw.C20Resolve(c.Common().Args[1]) == runCtx, "Eval:gojq runs under pushed ctx", p.Rel(c.Pos()), "RunWithContext(runCtx, ...)",
				"gojq is not run with the context returned by Push: the interrupt cancels a context nobody listens to")
		}
	})
	if nrun == 0 {
		ru.Fail("Eval:gojq runs under pushed ctx", p.Rel(push.Pos()), "no RunWithContext call after the push")
	}
	// EvalInstance.Ctx and Output
	ctxSet, outSet := false, false
	fw.EachInstr(eval, func(ins ssa.Instruction) {
		st, ok := ins.(*ssa.Store)
		if !ok {
			return
		}
		fa, ok := st.Addr.(*ssa.FieldAddr)
		if !ok {
			return
		}
		outer, ok := fa.X.(*ssa.FieldAddr)
		if !ok || fieldNameOf(outer.X.Type(), outer.Field) != "EvalInstance" {
			return
		}
		switch fieldNameOf(fa.X.Type(), fa.Field) {
		case "Ctx":
			ctxSet = true
			ru.Check(fw.C20Resolve(st.Val) == runCtx, "Eval:EvalInstance.Ctx", p.Rel(st.Pos()), "EvalInstance.Ctx = pushed ctx",
				"EvalInstance.Ctx is not the context returned by Push: nested evaluations and file reads are not cancelled by the interrupt")
		case "Output":
			outSet = true
			ok := false
			msg := "EvalInstance.Output is not an iox.CtxWriter bound to the pushed context: output written after cancellation is not suppressed"
			if mi, isMI := st.Val.(*ssa.MakeInterface); isMI {
				if n, isN := mi.X.Type().(*types.Named); isN && n.Obj().Name() == "CtxWriter" && n.Obj().Pkg().Path() == fw.Mod+"/internal/iox" {
					if ld, isLd := mi.X.(*ssa.UnOp); isLd {
						if a, isA := ld.X.(*ssa.Alloc); isA && a.Referrers() != nil {
							for _, ref := range *a.Referrers() {
								f2, isFA := ref.(*ssa.FieldAddr)
								if !isFA || fieldNameOf(f2.X.Type(), f2.Field) != "Ctx" || f2.Referrers() == nil {
									continue
								}
								for _, r2 := range *f2.Referrers() {
									if s2, isSt := r2.(*ssa.Store); isSt && fw.C20Resolve(s2.Val) == runCtx {
										ok = true
									}
								}
							}
						}
					}
				}
			}
			ru.Check(ok, "Eval:output wrapped", p.Rel(st.Pos()), "Output = iox.CtxWriter{Ctx: pushed ctx}", msg)
		}
	})
	if !ctxSet {
		ru.Fail("Eval:EvalInstance.Ctx", p.Rel(push.Pos()), "Eval does not store the pushed context into EvalInstance.Ctx")
	}
	if !outSet {
		ru.Fail("Eval:output wrapped", p.Rel(push.Pos()), "Eval does not set EvalInstance.Output")
	}

	// returns after the push
	nret := 0
	for _, ret := range returnsOf(eval) {
		if !c20NotRecover(ret) || !fw.InstrReach(push, ret, nil) {
			continue
		}
		nret++
		key := fmt.Sprintf("Eval:return after push#%d", nret)
		var wrapper *ssa.Function
		if len(ret.Results) > 0 {
			if mc, ok := fw.C20Resolve(ret.Results[0]).(*ssa.MakeClosure); ok {
				wrapper, _ = mc.Fn.(*ssa.Function)
			}
		}
		if wrapper == nil {
			popped := false
			fw.EachInstr(eval, func(ins ssa.Instruction) {
				if isCancelCall(ins) && precedesOnAllPaths(ins, ret) {
					popped = true
				}
			})
			ru.Check(popped, key, p.Rel(ret.Pos()), "pop function called before returning", "Eval returns after the push without handing the pop function to the iterator or calling it: a dead entry stays on top of the interrupt stack and swallows the next interrupts")
			continue
		}
		c20EvalWrapper(ru, p, wrapper, key, runCall, cancel)
		c20EvalSuspend(ru, p, eval, wrapper, push)
	}
	if nret == 0 {
		ru.Fail("Eval:return after push", p.Rel(push.Pos()), "no return after the push")
	}

	// Interp.Stop / cli.Main / interp.New
	if istop := getFn(ru, p, "(*pkg/interp.Interp).Stop"); istop != nil {
		ok := false
		fw.EachInstr(istop, func(ins ssa.Instruction) {
			if c, isC := ins.(*ssa.Call); isC && c.Common().StaticCallee() == stopFn && c20FieldLoad(c.Common().Args[0], "interruptStack") && c20NotRecover(c) {
				ok = true
				for _, ret := range returnsOf(istop) {
					if c20NotRecover(ret) && !precedesOnAllPaths(c, ret) {
						ok = false
					}
				}
			}
		})
		ru.Check(ok, "Interp.Stop", p.Rel(istop.Pos()), "calls interruptStack.Stop on every path", "Interp.Stop does not stop the interrupt stack on every path: stopping the interpreter does not cancel the running evaluations")
		if main := getFn(ru, p, "pkg/cli.Main"); main != nil {
			ok := false
			var pos token.Pos = main.Pos()
			for _, fn := range fw.WithClosures(main) {
				fw.EachInstr(fn, func(ins ssa.Instruction) {
					d, isD := ins.(*ssa.Defer)
					if !isD || d.Common().StaticCallee() != istop {
						return
					}
					ex, isEx := d.Common().Args[0].(*ssa.Extract)
					if !isEx {
						return
					}
					nc, isCall := ex.Tuple.(*ssa.Call)
					if !isCall || nc.Common().StaticCallee() == nil || nc.Common().StaticCallee().Name() != "New" {
						return
					}
					good := true
					fw.EachInstr(fn, func(x ssa.Instruction) {
						if c, isC := x.(*ssa.Call); isC && c.Common().StaticCallee() != nil && c.Common().StaticCallee().Name() == "Main" && !precedesOnAllPaths(d, c) {
							good = false
						}
					})
					if good {
						ok = true
						pos = d.Pos()
					}
				})
			}
			ru.Check(ok, "cli.Main:defer Stop", p.Rel(pos), "defer i.Stop() registered before i.Main", "cli.Main does not defer Stop of the interpreter it created before running it")
		}
	}
	if inew := getFn(ru, p, "pkg/interp.New"); inew != nil {
		var trig *ssa.Function
		stored := false
		fw.EachInstr(inew, func(ins ssa.Instruction) {
			c, ok := ins.(*ssa.Call)
			if !ok || c.Common().StaticCallee() != newStack {
				return
			}
			switch a := c.Common().Args[0].(type) {
			case *ssa.MakeClosure:
				trig, _ = a.Fn.(*ssa.Function)
			case *ssa.Function:
				trig = a
			}
			if c.Referrers() != nil {
				for _, ref := range *c.Referrers() {
					if st, ok := ref.(*ssa.Store); ok {
						if fa, ok := st.Addr.(*ssa.FieldAddr); ok && fieldNameOf(fa.X.Type(), fa.Field) == "interruptStack" {
							stored = true
						}
					}
				}
			}
		})
		switch {
		case trig == nil || !stored:
			ru.Undecided("interp.New:trigger", p.Rel(inew.Pos()), "interp.New does not store ctxstack.New(<closure>) into interruptStack")
		default:
			haveInt, haveStop, bare := false, false, false
			fw.EachInstr(trig, func(ins ssa.Instruction) {
				switch x := ins.(type) {
				case *ssa.Select:
					for _, s := range x.States {
						if s.Dir != types.RecvOnly {
							continue
						}
						if s.Chan == ssa.Value(trig.Params[0]) {
							haveStop = true
						}
						if c, ok := s.Chan.(*ssa.Call); ok {
							if _, ok := c20IsInvoke(c, "InterruptChan"); ok {
								haveInt = true
							}
						}
					}
				case *ssa.UnOp:
					if x.Op == token.ARROW {
						bare = true
						if c, ok := x.X.(*ssa.Call); ok {
							if _, ok := c20IsInvoke(c, "InterruptChan"); ok {
								haveInt = true
							}
						}
					}
				}
			})
			msg := ""
			switch {
			case !haveInt:
				msg = "the trigger function does not receive from OS.InterruptChan(): interrupts never reach the stack"
			case !haveStop || bare:
				msg = "the trigger function does not also wait on the stop channel in one select: the trigger goroutine cannot be stopped"
			default:
				msg = c20TriggerBlocks(trig)
			}
			ru.Check(msg == "", "interp.New:trigger", p.Rel(trig.Pos()), "select on stop channel and OS.InterruptChan()", msg)
		}
	}
}

// c20EvalWrapper checks the iterator wrapper closure path by path.
func c20EvalWrapper(ru *fw.Rule, p *fw.Program, w *ssa.Function, key string, runCall *ssa.Call, cancel ssa.Value) {
	pos := p.Rel(w.Pos())
	var next *ssa.Call
	n := 0
	fw.EachInstr(w, func(ins ssa.Instruction) {
		if recv, ok := c20IsInvoke(ins, "Next"); ok {
			n++
			next = ins.(*ssa.Call)
			_ = recv
		}
	})
	if n != 1 {
		ru.Undecided(key, pos, fmt.Sprintf("the iterator wrapper calls Next %d times (expected once)", n))
		return
	}
	if runCall != nil && fw.C20Resolve(next.Common().Value) != ssa.Value(runCall) {
		ru.Fail(key, pos, "the iterator wrapper does not advance the iterator gojq returned for the pushed context")
		return
	}
	v, okV := extractOf(next, 0), extractOf(next, 1)
	paths, ok := fw.EnumPaths(w, 256)
	if !ok {
		ru.Undecided(key, pos, "the iterator wrapper has a loop or too many paths")
		return
	}
	var cancels []ssa.Instruction
	fw.EachInstr(w, func(ins ssa.Instruction) {
		if c, ok := ins.(*ssa.Call); ok && !c.Common().IsInvoke() && c.Common().StaticCallee() == nil && fw.C20Resolve(c.Common().Value) == cancel {
			cancels = append(cancels, ins)
		}
	})
	isErrAssert := func(cond ssa.Value) bool {
		ex, ok := cond.(*ssa.Extract)
		if !ok || ex.Index != 1 {
			return false
		}
		ta, ok := ex.Tuple.(*ssa.TypeAssert)
		if !ok || !ta.CommaOk || v == nil || ta.X != v {
			return false
		}
		return types.Identical(ta.AssertedType, types.Universe.Lookup("error").Type())
	}
	npaths := 0
	for _, path := range paths {
		if _, isRet := path.Last().(*ssa.Return); !isRet || !path.Passes(next) {
			continue
		}
		npaths++
		okState, errState := 0, 0 // 0 unknown, 1 true, 2 false
		for _, d := range path.Decisions {
			g := fw.Guard{Cond: d.If.Cond, True: d.Taken}.Normalize()
			val := 2
			if g.True {
				val = 1
			}
			if okV != nil && g.Cond == okV {
				okState = val
			} else if isErrAssert(g.Cond) {
				errState = val
			}
		}
		need := okState != 1 || errState != 2
		if !need {
			continue
		}
		has := false
		for _, c := range cancels {
			if path.Passes(c) && path.PassesBefore(next, c) {
				has = true
			}
		}
		if !has {
			what := "the iterator ended (ok == false)"
			if okState == 1 {
				what = "the value may be an error (no type test for error on this path)"
				if errState == 1 {
					what = "the value is an error"
				}
			}
			ru.Fail(key, pos, "a path through the iterator wrapper returns without calling the pop function although "+what+": the finished evaluation stays on top of the interrupt stack, later interrupts cancel it instead of the evaluation still running")
			return
		}
	}
	if npaths == 0 {
		ru.Undecided(key, pos, "no returning path through the iterator wrapper calls Next")
		return
	}
	ru.Ok(key, pos, fmt.Sprintf("%d paths: pop function called unless ok && value is not an error", npaths))
}

// ---------------------------------------------------------------------------
// C20.writer

func c20Writer(r *fw.Run, p *fw.Program) {
	ru := r.Rule("C20.writer", "iox.CtxWriter.Write and iox.DiscardCtxWriter.Write: every path that delegates the write or reports success has tested Ctx == nil or Ctx.Err() == nil; a path on which Ctx.Err() is non-nil returns that error without writing", 2)
	for _, tn := range []string{"CtxWriter", "DiscardCtxWriter"} {
		key := tn + ".Write"
		var fn *ssa.Function
		for _, name := range []string{"(internal/iox." + tn + ").Write", "(*internal/iox." + tn + ").Write"} {
			if f := p.Fn(name); f != nil && f.Blocks != nil && f.Synthetic == "" {
				fn = f
			}
		}
		if fn == nil {
			ru.Undecided("anchor:"+key, "", "method not found")
			continue
		}
		pos := p.Rel(fn.Pos())
		isCtx := func(v ssa.Value) bool { return c20FieldLoad(v, "Ctx") }
		isErrCall := func(v ssa.Value) bool {
			c, ok := v.(*ssa.Call)
			if !ok {
				return false
			}
			recv, ok := c20IsInvoke(c, "Err")
			return ok && isCtx(recv)
		}
		var data ssa.Value
		if len(fn.Params) >= 2 {
			data = fn.Params[len(fn.Params)-1]
		}
		paths, ok := fw.EnumPaths(fn, 256)
		if !ok {
			ru.Undecided(key, pos, "Write has a loop or too many paths")
			continue
		}
		bad := ""
		tested := false
		for _, path := range paths {
			ret, isRet := path.Last().(*ssa.Return)
			if !isRet {
				continue
			}
			ctxNil, errNil := 0, 0 // 0 unknown 1 true 2 false
			for _, d := range path.Decisions {
				g := fw.Guard{Cond: d.If.Cond, True: d.Taken}.Normalize()
				bo, ok := g.Cond.(*ssa.BinOp)
				if !ok || (bo.Op != token.EQL && bo.Op != token.NEQ) {
					continue
				}
				x, y := bo.X, bo.Y
				if c20IsNil(x) {
					x, y = y, x
				}
				if !c20IsNil(y) {
					continue
				}
				isNil := g.True == (bo.Op == token.EQL)
				val := 2
				if isNil {
					val = 1
				}
				if isCtx(x) {
					ctxNil = val
				} else if isErrCall(x) {
					errNil = val
					tested = true
				}
			}
			// does the path use the data (delegate)?
			delegates := false
			for _, b := range path.Blocks {
				for _, ins := range b.Instrs {
					c, ok := ins.(ssa.CallInstruction)
					if !ok {
						continue
					}
					for _, a := range c.Common().Args {
						if data != nil && a == data {
							delegates = true
						}
					}
				}
			}
			if errNil == 2 {
				last := ret.Results[len(ret.Results)-1]
				if delegates {
					bad = "the write is delegated although Ctx.Err() is non-nil"
				} else if c20IsNil(last) {
					bad = "a cancelled context (Ctx.Err() != nil) is reported as a successful write"
				}
				continue
			}
			if ctxNil != 1 && errNil != 1 {
				bad = "a path writes / reports success without having tested Ctx.Err() (output after cancellation is not suppressed)"
			}
		}
		if bad == "" && !tested {
			bad = "Write never tests Ctx.Err()"
		}
		ru.Check(bad == "", key, pos, "Ctx.Err() tested before delegating on every path", bad)
	}
}

// ---------------------------------------------------------------------------
// C20.ctxrs

func c20CtxRS(r *fw.Run, p *fw.Program) {
	ru := r.Rule("C20.ctxrs", "ctxreadseeker: callWait hands the function to the reader goroutine and waits for its completion only inside selects that also receive from ctx.Done() (returning ctx.Err()); the underlying reader is only touched by the reader goroutine (directly or through functions handed to callWait); interp opens files with the evaluation's context and New binds exactly that context; on the cancel path Read/Seek/Close do not touch variables the abandoned call still writes", 14)
	cw := getFn(ru, p, "(*internal/ctxreadseeker.Reader).callWait")
	if cw == nil {
		return
	}
	const pkg = fw.Mod + "/internal/ctxreadseeker"
	isDone := func(ch ssa.Value) bool {
		c, ok := ch.(*ssa.Call)
		if !ok {
			return false
		}
		recv, ok := c20IsInvoke(c, "Done")
		if !ok {
			return false
		}
		n, ok := recv.Type().(*types.Named)
		return ok && n.Obj().Pkg() != nil && n.Obj().Pkg().Path() == "context" && n.Obj().Name() == "Context"
	}
	nsel, nbare := 0, 0
	var handover, wait *ssa.Select
	var bareWait *ssa.UnOp
	fw.EachInstr(cw, func(ins ssa.Instruction) {
		switch x := ins.(type) {
		case *ssa.Send:
			nbare++
			ru.Fail(fmt.Sprintf("callWait:bare channel op#%d", nbare), p.Rel(x.Pos()), "callWait sends on a channel outside a select with ctx.Done(): a cancelled read blocks forever if the reader goroutine is busy")
		case *ssa.UnOp:
			if x.Op == token.ARROW {
				nbare++
				bareWait = x
				ru.Fail(fmt.Sprintf("callWait:bare channel op#%d", nbare), p.Rel(x.Pos()), "callWait receives from a channel outside a select with ctx.Done(): an interrupt arriving while the underlying Read is blocked (idle pipe/stdin) is ignored, fq hangs")
			}
		case *ssa.Select:
			nsel++
			key := fmt.Sprintf("callWait:select#%d", nsel)
			done := -1
			for i, s := range x.States {
				if s.Dir == types.RecvOnly && isDone(s.Chan) {
					done = i
				}
				if s.Dir == types.SendOnly && len(cw.Params) == 2 && s.Send == ssa.Value(cw.Params[1]) {
					handover = x
				}
				if s.Dir == types.RecvOnly && !isDone(s.Chan) && c20FieldLoadAny(s.Chan) {
					wait = x
				}
			}
			if done < 0 || !x.Blocking {
				ru.Fail(key, p.Rel(x.Pos()), "select in callWait has no case <-ctx.Done() (or does not block): the call cannot be interrupted / does not wait")
				return
			}
			// the Done branch returns a non-nil error
			ok := false
			for _, ret := range returnsOf(cw) {
				for _, g := range c20SelectGuards(ret) {
					if g.Sel == x && g.Idx == done && len(ret.Results) == 1 && !c20IsNil(ret.Results[0]) {
						if c, isCall := ret.Results[0].(*ssa.Call); isCall {
							if _, isErr := c20IsInvoke(c, "Err"); isErr {
								ok = true
							}
						}
					}
				}
			}
			ru.Check(ok, key, p.Rel(x.Pos()), "case <-ctx.Done(): return ctx.Err()", "the ctx.Done() case does not return ctx.Err(): the caller would use results the reader goroutine has not produced")
		}
	})
	ru.Check(handover != nil, "callWait:hands fn to the reader goroutine", p.Rel(cw.Pos()), "select { case fnCh <- fn }", "callWait does not send its function argument to the reader goroutine inside a select")
	okWait := wait != nil && handover != nil && (wait == handover || fw.InstrReach(handover, wait, nil))
	if wait == nil && bareWait != nil && handover != nil {
		// waits with a bare receive (reported above): completion is still awaited
		okWait = true
		for _, ret := range returnsOf(cw) {
			if len(ret.Results) == 1 && c20IsNil(ret.Results[0]) && !precedesOnAllPaths(bareWait, ret) {
				okWait = false
			}
		}
	} else if okWait {
		// every nil-error return must have passed the wait (completion)
		for _, ret := range returnsOf(cw) {
			if len(ret.Results) == 1 && c20IsNil(ret.Results[0]) {
				through := false
				for _, g := range c20SelectGuards(ret) {
					if g.Sel == wait && g.Sel.States[g.Idx].Dir == types.RecvOnly && !isDone(g.Sel.States[g.Idx].Chan) {
						through = true
					}
				}
				if !through {
					okWait = false
				}
			}
		}
	}
	ru.Check(okWait, "callWait:waits for completion", p.Rel(cw.Pos()), "success is returned only after the completion receive", "callWait can return success without having received the completion signal of the reader goroutine (data race on the results)")

	// the underlying reader is touched only by the goroutine or through callWait
	var goFn *ssa.Function
	var fns []*ssa.Function
	for _, fn := range p.FqFunctions() {
		if fw.FnPkgPath(fn) == pkg && fn.Synthetic == "" {
			fns = append(fns, fn)
			fw.EachInstr(fn, func(ins ssa.Instruction) {
				if g, ok := ins.(*ssa.Go); ok {
					if f := g.Common().StaticCallee(); f != nil {
						goFn = f
					} else if mc, ok := g.Common().Value.(*ssa.MakeClosure); ok {
						goFn, _ = mc.Fn.(*ssa.Function)
					}
				}
			})
		}
	}
	if goFn == nil {
		ru.Undecided("anchor:reader goroutine", "", "ctxreadseeker.New starts no goroutine")
	}
	nuse := 0
	for _, fn := range fns {
		uses := false
		fw.EachInstr(fn, func(ins ssa.Instruction) {
			c, ok := ins.(*ssa.Call)
			if ok && c.Common().IsInvoke() && c20FieldLoad(c.Common().Value, "rs") {
				uses = true
			}
			// type assertion on rs followed by a call (Closer)
			if ta, ok := ins.(*ssa.TypeAssert); ok && c20FieldLoad(ta.X, "rs") {
				uses = true
			}
		})
		if !uses {
			continue
		}
		nuse++
		key := "underlying reader used in " + fw.ShortFn(fn)
		ok := fn == goFn
		if !ok && fn.Parent() != nil {
			for _, mc := range fw.MakeClosuresOf(fn) {
				if mc.Referrers() == nil {
					continue
				}
				all := len(*mc.Referrers()) > 0
				for _, ref := range *mc.Referrers() {
					c, isCall := ref.(*ssa.Call)
					if !isCall || c.Common().StaticCallee() != cw {
						all = false
					}
				}
				ok = all
			}
		}
		ru.Check(ok, key, p.Rel(fn.Pos()), "runs on the reader goroutine", "the underlying reader is called directly on the caller's goroutine: the call cannot be abandoned when the context is cancelled")
	}
	if nuse < 4 {
		ru.Undecided("underlying reader uses", "", fmt.Sprintf("only %d functions use the underlying reader (expected Read, Seek, Close closures and the goroutine)", nuse))
	}
	// methods go through callWait and propagate its error
	for _, name := range []string{"Read", "Seek"} {
		m := p.Fn("(*internal/ctxreadseeker.Reader)." + name)
		if m == nil || m.Blocks == nil {
			ru.Undecided("anchor:Reader."+name, "", "method not found")
			continue
		}
		var call *ssa.Call
		fw.EachInstr(m, func(ins ssa.Instruction) {
			if c, ok := ins.(*ssa.Call); ok && c.Common().StaticCallee() == cw {
				call = c
			}
		})
		if call == nil {
			ru.Fail("Reader."+name+":propagates cancel", p.Rel(m.Pos()), name+" does not go through callWait")
			continue
		}
		// on callWait error != nil the method returns that error
		ok := false
		for _, ret := range returnsOf(m) {
			for _, g := range fw.Guards(ret.Block()) {
				g = g.Normalize()
				bo, isBin := g.Cond.(*ssa.BinOp)
				if !isBin || bo.X != ssa.Value(call) || !c20IsNil(bo.Y) {
					continue
				}
				nonNil := g.True == (bo.Op == token.NEQ)
				if !nonNil {
					continue
				}
				last := ret.Results[len(ret.Results)-1]
				if last == ssa.Value(call) {
					ok = true
				} else if u, isLd := last.(*ssa.UnOp); isLd {
					// named result: the last store before the return in this block is the callWait error
					for _, ins := range ret.Block().Instrs {
						if st, isSt := ins.(*ssa.Store); isSt && st.Addr == u.X {
							ok = st.Val == ssa.Value(call)
						}
					}
				}
			}
		}
		ru.Check(ok, "Reader."+name+":propagates cancel", p.Rel(call.Pos()), "returns callWait's error", name+" does not return the cancellation error of callWait: the caller sees a successful read of garbage")
	}

	// interp hands the evaluation context to ctxreadseeker.New
	nw := getFn(ru, p, "internal/ctxreadseeker.New")
	if nw == nil {
		return
	}
	c20CtxRSBind(ru, p, nw, cw, isDone)
	c20CtxRSShared(ru, p, cw)
	n := 0
	for _, fn := range p.FqFunctions() {
		if fw.FnPkgPath(fn) == pkg {
			continue
		}
		fw.EachInstr(fn, func(ins ssa.Instruction) {
			c, ok := ins.(*ssa.Call)
			if !ok || c.Common().StaticCallee() != nw {
				return
			}
			n++
			key := fmt.Sprintf("%s:ctxreadseeker.New#%d", fw.ShortFn(fn), n)
			arg := c.Common().Args[0]
			ok2 := false
			if u, isLd := arg.(*ssa.UnOp); isLd {
				if fa, isFA := u.X.(*ssa.FieldAddr); isFA && fieldNameOf(fa.X.Type(), fa.Field) == "Ctx" {
					if outer, isFA2 := fa.X.(*ssa.FieldAddr); isFA2 && fieldNameOf(outer.X.Type(), outer.Field) == "EvalInstance" {
						ok2 = true
					}
				}
			}
			ru.Check(ok2, key, p.Rel(c.Pos()), "ctx = i.EvalInstance.Ctx", "the file reader is not bound to the evaluation's context (EvalInstance.Ctx): blocked reads ignore the interrupt")
		})
	}
	if n < 2 {
		ru.Undecided("ctxreadseeker.New callers", "", fmt.Sprintf("%d callers of ctxreadseeker.New found (expected 2 in pkg/interp)", n))
	}
}

// c20FieldLoadAny: v is a load of some struct field.
func c20FieldLoadAny(v ssa.Value) bool {
	u, ok := v.(*ssa.UnOp)
	if !ok || u.Op != token.MUL {
		return false
	}
	_, ok = u.X.(*ssa.FieldAddr)
	return ok
}

// ---------------------------------------------------------------------------
// C20.sig

func c20Sig(r *fw.Run, p *fw.Program) {
	ru := r.Rule("C20.sig", "signal bridge in cli.newStandardOS: os.Interrupt is delivered to a buffered channel; the forwarding goroutine selects on it and on the close channel, forwards with a NON-blocking send to a buffered interrupt channel, (in the case that received the signal), returns only on close; InterruptChan() hands out that very channel; Close closes the close channel", 7)
	nso := getFn(ru, p, "pkg/cli.newStandardOS")
	if nso == nil {
		return
	}
	var g *ssa.Function
	fw.EachInstr(nso, func(ins ssa.Instruction) {
		if gi, ok := ins.(*ssa.Go); ok {
			if mc, ok := gi.Common().Value.(*ssa.MakeClosure); ok {
				g, _ = mc.Fn.(*ssa.Function)
			}
		}
	})
	if g == nil {
		ru.Undecided("anchor:bridge goroutine", p.Rel(nso.Pos()), "newStandardOS starts no goroutine closure")
		return
	}
	// the bridge stays armed: nothing in pkg/cli hands os.Interrupt back to the runtime's default action or
	// drops it while fq runs (signal.Reset / signal.Ignore): after that the next interrupt kills the process
	// instead of cancelling the innermost evaluation
	{
		bad := ""
		for _, fn := range p.FqFunctions() {
			if pkgRel(fn) != "pkg/cli" {
				continue
			}
			for _, c := range fw.CallsIn(fn) {
				if cal := c.Common().StaticCallee(); cal != nil && (cal.String() == "os/signal.Reset" || cal.String() == "os/signal.Ignore") {
					bad = cal.String() + " in " + fw.ShortFn(fn) + " at " + p.Rel(c.Pos())
				}
			}
		}
		ru.Check(bad == "", "bridge stays armed", p.Rel(nso.Pos()), "pkg/cli never resets or ignores the interrupt signal", "pkg/cli calls "+bad+": from then on an interrupt is no longer bridged to the interrupt stack (with Reset the next ctrl-c terminates fq without cancelling the innermost evaluation or running Stop, with Ignore it is lost)")
	}
	bufOf := func(v ssa.Value) (*ssa.MakeChan, int64) {
		mc, ok := fw.C20Resolve(v).(*ssa.MakeChan)
		if !ok {
			return nil, -1
		}
		c, ok := mc.Size.(*ssa.Const)
		if !ok {
			return mc, -1
		}
		return mc, c.Int64()
	}
	// fields of stdOS initialised with channels made in newStandardOS
	fieldChan := map[string]*ssa.MakeChan{}
	fw.EachInstr(nso, func(ins ssa.Instruction) {
		if st, ok := ins.(*ssa.Store); ok {
			if fa, ok := st.Addr.(*ssa.FieldAddr); ok {
				if mc, _ := bufOf(st.Val); mc != nil {
					fieldChan[fieldNameOf(fa.X.Type(), fa.Field)] = mc
				}
			}
		}
	})
	// InterruptChan()
	var intChan *ssa.MakeChan
	if ic := getFn(ru, p, "(*pkg/cli.stdOS).InterruptChan"); ic != nil {
		for _, ret := range returnsOf(ic) {
			if u, ok := ret.Results[0].(*ssa.UnOp); ok {
				if fa, ok := u.X.(*ssa.FieldAddr); ok {
					intChan = fieldChan[fieldNameOf(fa.X.Type(), fa.Field)]
				}
			}
		}
		_, size := bufOf(intChan)
		if intChan == nil {
			size = -1
		}
		ru.Check(intChan != nil && size >= 1, "InterruptChan", p.Rel(ic.Pos()), "returns the buffered channel made in newStandardOS",
			"InterruptChan() does not return a buffered channel created by newStandardOS (an interrupt arriving while nobody receives would be lost or block the bridge)")
	}
	// Close()
	var closeChan *ssa.MakeChan
	if cl := getFn(ru, p, "(*pkg/cli.stdOS).Close"); cl != nil {
		var cc *ssa.Call
		fw.EachInstr(cl, func(ins ssa.Instruction) {
			if c, ok := ins.(*ssa.Call); ok && fw.IsBuiltinCall(c, "close") {
				if u, ok := c.Common().Args[0].(*ssa.UnOp); ok {
					if fa, ok := u.X.(*ssa.FieldAddr); ok {
						if mc := fieldChan[fieldNameOf(fa.X.Type(), fa.Field)]; mc != nil && mc != intChan {
							closeChan, cc = mc, c
						}
					}
				}
			}
		})
		ok := cc != nil
		if ok {
			for _, ret := range returnsOf(cl) {
				if c20NotRecover(ret) && !precedesOnAllPaths(cc, ret) {
					ok = false
				}
			}
		}
		ru.Check(ok, "stdOS.Close", p.Rel(cl.Pos()), "closes the close channel on every path", "stdOS.Close does not close the channel the bridge goroutine exits on")
	}
	// Notify
	var sigChan *ssa.MakeChan
	nNotify := 0
	// the subscription may be made by the goroutine itself or by newStandardOS before it starts it
	notifyIn := func(f func(ssa.Instruction)) { fw.EachInstr(nso, f); fw.EachInstr(g, f) }
	notifyIn(func(ins ssa.Instruction) {
		c, ok := ins.(*ssa.Call)
		if !ok || c.Common().StaticCallee() == nil || c.Common().StaticCallee().String() != "os/signal.Notify" {
			return
		}
		nNotify++
		mc, size := bufOf(c.Common().Args[0])
		sigChan = mc
		hasInt := false
		if sl, ok := c.Common().Args[1].(*ssa.Slice); ok {
			if arr, ok := sl.X.(*ssa.Alloc); ok && arr.Referrers() != nil {
				for _, ref := range *arr.Referrers() {
					ia, ok := ref.(*ssa.IndexAddr)
					if !ok || ia.Referrers() == nil {
						continue
					}
					for _, r2 := range *ia.Referrers() {
						if st, ok := r2.(*ssa.Store); ok {
							if u, ok := st.Val.(*ssa.UnOp); ok {
								if gl, ok := u.X.(*ssa.Global); ok && gl.String() == "os.Interrupt" {
									hasInt = true
								}
							}
						}
					}
				}
			}
		}
		ru.Check(mc != nil && size >= 1 && hasInt, "bridge:signal.Notify", p.Rel(c.Pos()), "Notify(buffered chan, os.Interrupt)",
			"signal.Notify must deliver os.Interrupt to a buffered channel (package signal does not block sending: an unbuffered channel drops interrupts)")
	})
	if nNotify == 0 {
		ru.Fail("bridge:signal.Notify", p.Rel(g.Pos()), "neither newStandardOS nor the bridge goroutine subscribes to os.Interrupt")
	}
	// selects and sends
	isChan := func(v ssa.Value, mc *ssa.MakeChan) bool { return mc != nil && fw.C20Resolve(v) == ssa.Value(mc) }
	var loopSel *ssa.Select
	closeIdx := -1
	forwarded := false
	nsend := 0
	var fwdSel *ssa.Select
	c20EachInstrNest(g, func(ins ssa.Instruction) {
		switch x := ins.(type) {
		case *ssa.Send:
			nsend++
			ru.Fail(fmt.Sprintf("bridge:blocking send#%d", nsend), p.Rel(x.Pos()), "the bridge goroutine sends with a blocking send: while an interrupt is pending it stops serving signals and cannot be closed")
		case *ssa.Select:
			hasSig, ci := false, -1
			for i, s := range x.States {
				if s.Dir == types.RecvOnly && isChan(s.Chan, sigChan) {
					hasSig = true
				}
				if s.Dir == types.RecvOnly && isChan(s.Chan, closeChan) {
					ci = i
				}
				if s.Dir == types.SendOnly && isChan(s.Chan, intChan) {
					forwarded = true
					fwdSel = x
					ru.Check(!x.Blocking, "bridge:forward non-blocking", p.Rel(x.Pos()), "select { case interruptChan <- v: default: }",
						"the forward to the interrupt channel has no default case: with an interrupt already pending the bridge blocks")
				}
			}
			if hasSig && ci >= 0 && x.Blocking && x.Parent() == g {
				loopSel, closeIdx = x, ci
			}
		}
	})
	ru.Check(loopSel != nil, "bridge:select", p.Rel(g.Pos()), "select on signal channel and close channel", "the bridge goroutine does not select on both the signal channel and the close channel")
	if !forwarded {
		ru.Fail("bridge:forward non-blocking", p.Rel(g.Pos()), "the bridge goroutine never forwards to the channel InterruptChan() returns")
	} else if loopSel != nil {
		// the forward is what the signal case of the loop select does
		site := c20SiteIn(g, fwdSel)
		ok := false
		if site != nil {
			for _, sg := range c20SelectGuards(site) {
				if sg.Sel == loopSel && sg.Sel.States[sg.Idx].Dir == types.RecvOnly && isChan(sg.Sel.States[sg.Idx].Chan, sigChan) {
					ok = true
				}
			}
		}
		ru.Check(ok, "bridge:forwards each signal", p.Rel(fwdSel.Pos()), "forward runs in the case that received the signal",
			"the forward to the interrupt channel is not executed in the select case that received from the signal channel: ^C is received but never reaches the interpreter")
	}
	nret := 0
	for _, ret := range returnsOf(g) {
		if !c20NotRecover(ret) {
			continue
		}
		nret++
		ok := false
		for _, sg := range c20SelectGuards(ret) {
			if sg.Sel == loopSel && sg.Idx == closeIdx {
				ok = true
			}
		}
		ru.Check(ok, fmt.Sprintf("bridge:returns only on close#%d", nret), p.Rel(ret.Pos()), "return guarded by <-closeChan", "the bridge goroutine can return while fq is running: later interrupts are lost")
	}
	if nret == 0 {
		ru.Fail("bridge:returns only on close", p.Rel(g.Pos()), "the bridge goroutine never returns")
	}
}

// ---------------------------------------------------------------------------
// C20.repl

func c20Repl(r *fw.Run, p *fw.Program) {
	ru := r.Rule("C20.repl", "REPL survives an interrupt: _repl_on_error yields empty for a context-canceled error (does not exit fq), _is_context_canceled_error compares with the text of context.Canceled, the REPL loop's catch yields empty for \"interrupt\", which is the value interp raises exactly for ErrInterrupt, which cli returns exactly for readline.ErrInterrupt; eval/4 hands {error: .} to on_error and the REPL installs _repl_on_error there", 8)
	jq, err := fw.LoadJQ(p.Repo)
	if err != nil {
		ru.Undecided("anchor:jq", "", "cannot load bundled jq sources: "+err.Error())
		return
	}
	hasStr := func(n any, s string) bool {
		found := false
		fw.WalkJQ(n, func(x any) bool {
			if t, ok := x.(*gojq.Term); ok && t.Type == gojq.TermTypeString && t.Str != nil && len(t.Str.Queries) == 0 && t.Str.Str == s {
				found = true
			}
			return true
		}, false)
		return found
	}
	// _is_context_canceled_error
	if d := jq.Def("pkg/interp/internal.jq", "_is_context_canceled_error", 0); d == nil {
		ru.Undecided("anchor:_is_context_canceled_error/0", "", "definition not found in internal.jq")
	} else {
		ok := hasStr(d.Def.Body, "context canceled") && d.Def.Body.Op == gojq.OpEq
		ru.Check(ok, "_is_context_canceled_error/0", d.File.Rel, `. == "context canceled"`, "does not compare with the text of context.Canceled (\"context canceled\"): an interrupted evaluation is treated as a fatal error")
	}
	// _repl_on_error
	if d := jq.Def("pkg/interp/repl.jq", "_repl_on_error", 0); d == nil {
		ru.Undecided("anchor:_repl_on_error/0", "", "definition not found in repl.jq")
	} else {
		ok, why := c20ReplOnError(d.Def.Body)
		ru.Check(ok, "_repl_on_error/0", d.File.Rel, "if .error | _is_context_canceled_error then empty", why)
	}
	c20ReplWiring(ru, jq)
	c20ReplGo(ru, p)
	// _repl_loop catch
	if d := jq.Def("pkg/interp/repl.jq", "_repl", 1); d == nil {
		ru.Undecided("anchor:_repl/1", "", "definition not found in repl.jq")
	} else if loop := jq.Nested(d, "_repl_loop", 0); loop == nil {
		ru.Undecided("anchor:_repl_loop/0", "", "nested definition _repl_loop not found in _repl/1")
	} else {
		ok := false
		fw.WalkJQ(loop.Def.Body, func(x any) bool {
			tr, isTry := x.(*gojq.Try)
			if !isTry || tr.Catch == nil {
				return true
			}
			fw.WalkJQ(tr.Catch, func(y any) bool {
				ifn, isIf := y.(*gojq.If)
				if !isIf {
					return true
				}
				if hasStr(ifn.Cond, "interrupt") && ifn.Cond.Op == gojq.OpEq && fw.JQIsCall(ifn.Then, "empty", 0) != nil {
					ok = true
				}
				for _, e := range ifn.Elif {
					if hasStr(e.Cond, "interrupt") && e.Cond.Op == gojq.OpEq && fw.JQIsCall(e.Then, "empty", 0) != nil {
						ok = true
					}
				}
				return true
			}, false)
			return true
		}, false)
		ru.Check(ok, "_repl_loop/0:catch interrupt", loop.File.Rel, `catch if . == "interrupt" then empty`, "^C at the prompt is not caught by the REPL loop: it propagates as an error and leaves the REPL")
	}
	// Go side raises "interrupt" for ErrInterrupt
	found := false
	var where token.Pos
	for _, fn := range p.FqFunctions() {
		if fw.FnPkgPath(fn) != fw.Mod+"/pkg/interp" {
			continue
		}
		usesErr := false
		fw.EachInstr(fn, func(ins ssa.Instruction) {
			if u, ok := ins.(*ssa.UnOp); ok {
				if gl, ok := u.X.(*ssa.Global); ok && gl.Name() == "ErrInterrupt" {
					usesErr = true
				}
			}
		})
		if !usesErr {
			continue
		}
		fw.EachInstr(fn, func(ins ssa.Instruction) {
			st, ok := ins.(*ssa.Store)
			if !ok {
				return
			}
			mi, ok := st.Val.(*ssa.MakeInterface)
			if !ok {
				return
			}
			if s, ok := constString(mi); ok && s == "interrupt" {
				if fa, ok := st.Addr.(*ssa.FieldAddr); ok && strings.HasSuffix(types.TypeString(fa.X.Type(), nil), "valueError") {
					found = true
					where = st.Pos()
				}
			}
		})
	}
	ru.Check(found, "readline:ErrInterrupt raises \"interrupt\"", p.Rel(where), `valueError{"interrupt"}`, "no function of pkg/interp that tests ErrInterrupt raises the value \"interrupt\" the REPL loop catches")
}
