package rules

// C04: every input bit is accounted for (leaf fields + gap fields cover the buffer).
//
// Rules (all static, on the SSA of the current tree):
//   C04.sort / C04.merge / C04.runs / C04.emit   pkg/ranges.Gaps        (c04_gaps.go)
//   C04.walk    (*Value).Walk hands every value to the callback (own clause + C03.walk obligations)
//   C04.link    (*D).AddChild really links a (gap) value into the tree (C03.addchild obligations)
//   C04.opts    every decode.Options literal handed to decode()/Decode()
//   C04.path    decode(): gap filling on every value-returning path, its arguments and order
//   C04.leafs   (*D).FillGaps: what is collected, what is added
//   C04.roots   buffer-root marking that makes "leaf ranges of this buffer" well defined

import (
	"fmt"
	"go/constant"
	"go/token"
	"go/types"
	"strings"

	"golang.org/x/tools/go/ssa"

	"fqverif/fw"
)

func init() { Register("C04", runC04) }

func runC04(r *fw.Run, p *fw.Program) {
	g, why := c04ResolveGaps(p)
	if g == nil {
		r.Rule("C04.merge", "ranges.Gaps merge loop", 9).Undecided("Gaps:anchor", "pkg/ranges/ranges.go", "cannot resolve the roles in ranges.Gaps: "+why)
	} else {
		c04Sort(r, g)
		c04Merge(r, g)
		c04Runs(r, g)
		c04Emit(r, p, g)
	}
	c04Opts(r, p)
	c04Path(r, p)
	c04Leafs(r, p)
	c04Roots(r, p)
	c04Walk(r, p)
	// clauses a sibling property's rules already decide: the walk reaches every child, gap values are
	// really linked into the tree, a child decoder reads the reader its value is rooted at
	{
		sc := r.Scratch()
		runC03(sc, p)
		r.Import(sc, "C03.walk", "C04.walk", "", 0, func(k string) bool {
			return k == "Walk:all-children" || k == "Walk:order" || k == "wrapper:WalkRootPreOrder"
		})
		r.Import(sc, "C03.addchild", "C04.link", "(*D).AddChild(v), through which every gap value enters the tree: v is appended to the Children of d.Value's compound on every path that returns, for arrays and structs alike; a duplicate struct name never drops or replaces a value silently (no-return arm); v.Parent is set (C03.addchild obligations)", 5, nil)
		r.Import(sc, "C03.range", "C04.roots", "", 0, func(k string) bool { return k == "fieldDecoder:one-reader" })
		// a scalar root (json, jsonl, yaml, toml, xml ... replace the root with one scalar) has no children, so
		// FillGaps cannot add gap fields to it (AddChild needs a compound): every input bit is accounted for only
		// because the scalar's own range is set to the whole buffer, d.Len() (borrowed from C03.own)
		r.Import(sc, "C03.own", "C04.scalarroot", "decoders that replace their root with a scalar set its range to exactly the whole buffer (d.Value.Range.Len = d.Len()): a scalar root cannot hold gap fields, so any shorter range leaves the remaining input bits in no field and no gap (C03.own obligations on direct writes of Value.Range)", 5, func(k string) bool {
			return strings.HasPrefix(k, "Value.Range|")
		})
	}
	r.GxDumpObligations("C04.")
	r.Assumption("C04: loads are not time-stamped in the symbolic model of ranges.Gaps; a condition is related only to the code it directly guards")
	r.Assumption("C04: slices.SortFunc sorts according to the comparator; bitio.NewSectionReader(r, off, n) reads exactly bits [off, off+n) of r (C01)")
}

// ---------------------------------------------------------------------------
// small SSA helpers

func c04Strip(v ssa.Value) ssa.Value {
	for {
		switch x := v.(type) {
		case *ssa.ChangeInterface:
			v = x.X
		case *ssa.ChangeType:
			v = x.X
		case *ssa.MakeInterface:
			v = x.X
		default:
			return v
		}
	}
}

// c04FieldLoad: v is a load of base.field (base a pointer value); returns true on match.
func c04FieldLoad(v ssa.Value, base ssa.Value, field string) bool {
	fa, ok := c04LoadOf(c04Strip(v)).(*ssa.FieldAddr)
	return ok && fa.X == base && fieldNameOf(fa.X.Type(), fa.Field) == field
}

func c04IsPtrTo(t types.Type, n *types.Named) bool {
	pt, ok := t.Underlying().(*types.Pointer)
	return ok && n != nil && types.Identical(pt.Elem(), n)
}

func c04ConstBool(v ssa.Value, absent bool) (val, ok bool) {
	if v == nil {
		return absent, true
	}
	c, isC := v.(*ssa.Const)
	if !isC || c.Value == nil || c.Value.Kind() != constant.Bool {
		return false, false
	}
	return constant.BoolVal(c.Value), true
}

// c04RecvD returns the *decode.D receiver of the outermost function enclosing fn, or nil.
func c04RecvD(p *fw.Program, fn *ssa.Function) *ssa.Parameter {
	top := fw.Top(fn)
	if top != fn {
		return nil // inside a closure the receiver is a free variable; not needed today
	}
	if fn.Signature.Recv() == nil || len(fn.Params) == 0 || !c04IsPtrTo(fn.Params[0].Type(), p.NamedType("pkg/decode", "D")) {
		return nil
	}
	return fn.Params[0]
}

// c04Reach: blocks reachable from entry when the given blocks and edges are removed.
func c04Reach(fn *ssa.Function, cutBlock map[*ssa.BasicBlock]bool, cutEdge map[[2]*ssa.BasicBlock]bool, from *ssa.BasicBlock) map[*ssa.BasicBlock]bool {
	seen := map[*ssa.BasicBlock]bool{}
	if cutBlock[from] {
		return seen
	}
	stack := []*ssa.BasicBlock{from}
	for len(stack) > 0 {
		b := stack[len(stack)-1]
		stack = stack[:len(stack)-1]
		if seen[b] {
			continue
		}
		seen[b] = true
		for _, su := range b.Succs {
			if cutBlock[su] || cutEdge[[2]*ssa.BasicBlock{b, su}] {
				continue
			}
			stack = append(stack, su)
		}
	}
	return seen
}

// ---------------------------------------------------------------------------
// C04.opts

func c04Opts(r *fw.Run, p *fw.Program) {
	ru := r.Rule("C04.opts", "every decode.Options literal handed to decode()/Decode(): FillGaps is true exactly when the decode is delimited (explicit length/range, separate buffer, top level) and false when it is open-ended inside the parent's buffer (Range.Len = d.BitsLeft()); IsRoot is true exactly when the reader is not the parent's own buffer; Decode forwards its options unchanged", 13)
	dec, Dec := p.Fn("pkg/decode.decode"), p.Fn("pkg/decode.Decode")
	bitsLeft := p.Fn("(*pkg/decode.D).BitsLeft")
	if dec == nil || Dec == nil || bitsLeft == nil {
		ru.Undecided("anchor", "pkg/decode/decode.go", "decode.decode / decode.Decode / (*D).BitsLeft not found")
		return
	}
	seen := map[string]int{}
	for _, fn := range p.FqFunctions() {
		for _, c := range fw.CallsIn(fn) {
			callee := c.Common().StaticCallee()
			if callee != dec && callee != Dec {
				continue
			}
			args := c.Common().Args
			if len(args) != 4 {
				ru.Undecided("opts:"+fw.ShortFn(fn), p.Rel(c.Pos()), "decode no longer takes (ctx, br, group, opts)")
				continue
			}
			key := "opts:" + fw.ShortFn(fn)
			seen[key]++
			if seen[key] > 1 {
				key = fmt.Sprintf("%s#%d", key, seen[key])
			}
			pos := p.Rel(c.Pos())
			ov := args[3]
			if a, ok := c04LoadOf(ov).(*ssa.Alloc); ok && fw.GxParamCopy(a) != nil {
				ru.Ok(key+":forward", pos, "forwards its options parameter unchanged")
				continue
			}
			if _, ok := ov.(*ssa.Parameter); ok {
				ru.Ok(key+":forward", pos, "forwards its options parameter unchanged")
				continue
			}
			fields, _, ok := fw.GxLitFields(ov)
			if !ok {
				ru.Undecided(key, pos, "options are neither a literal nor a forwarded parameter")
				continue
			}
			fg, ok1 := c04ConstBool(fields["FillGaps"], false)
			ir, ok2 := c04ConstBool(fields["IsRoot"], false)
			// a value that is not a compile-time constant (inherited from the caller's options, derived
			// from a user/display option ...) is false on some call: decided below as a violation
			gs := fw.NewGxSym(fn)
			dep := func(v ssa.Value) string {
				if v == nil {
					return ""
				}
				r := gs.Val(v)
				if r.P != nil {
					return r.P.String()
				}
				return r.Loc
			}
			recv := c04RecvD(p, fn)
			if top := fw.Top(fn); top != fn && c04RecvD(p, top) != nil {
				ru.Undecided(key, pos, "decode() is called from a closure inside a method of *D: receiver not tracked through the closure")
				continue
			}
			sameBuf := recv != nil && c04FieldLoad(args[1], recv, "bitBuf")
			openEnded := false
			if lv, ok := fields["Range.Len"]; ok {
				if call, ok := lv.(*ssa.Call); ok && call.Common().StaticCallee() == bitsLeft {
					openEnded = true
				}
			}
			kind := "delimited"
			if openEnded {
				kind = "open-ended (rest of the parent's buffer)"
			}
			buf := "a separate buffer"
			if sameBuf {
				buf = "the parent's buffer"
			}
			if openEnded && !sameBuf {
				ru.Undecided(key, pos, "open-ended decode over a separate buffer: case not modelled")
				continue
			}
			failFG := "FillGaps is false for a delimited decode: bits of the region no field covers are not reported inside it (for a separate buffer or the top level they are reported nowhere)"
			if openEnded {
				failFG = "FillGaps is true for an open-ended decode in the parent's buffer: the child's trailing gap overlaps the fields the parent decodes next"
			}
			if !ok1 {
				want := map[bool]string{true: "false", false: "true"}[openEnded]
				ru.Fail(key+":FillGaps", pos, fmt.Sprintf("FillGaps of a %s decode over %s is not the constant %s but depends on %s: whenever that is %s the undecoded bits of the region are reported nowhere (or the child's gaps overlap the parent's fields)", kind, buf, want, dep(fields["FillGaps"]), map[bool]string{true: "true", false: "false"}[openEnded]))
			} else {
				ru.Check(fg == !openEnded, key+":FillGaps", pos, fmt.Sprintf("%s decode over %s: FillGaps=%v", kind, buf, fg), failFG)
			}
			failIR := "IsRoot is false for a decode over a separate buffer: its leaf ranges (other coordinates) are counted as covering the parent's buffer and hide holes"
			if sameBuf {
				failIR = "IsRoot is true for a decode inside the parent's buffer: the parent's gap computation skips its fields and adds gaps over them"
			}
			if !ok2 {
				ru.Fail(key+":IsRoot", pos, fmt.Sprintf("IsRoot of a decode over %s is not a constant but depends on %s: ", buf, dep(fields["IsRoot"]))+failIR)
			} else {
				ru.Check(ir == !sameBuf, key+":IsRoot", pos, fmt.Sprintf("decode over %s: IsRoot=%v", buf, ir), failIR)
			}
		}
	}
}

// ---------------------------------------------------------------------------
// C04.path

func c04Path(r *fw.Run, p *fw.Program) {
	ru := r.Rule("C04.path", "decode(): when opts.FillGaps is set every path that returns a value runs d.FillGaps(Range{0, decodeRange.Len}) on the decoder whose value is returned, over the same range the decoder's buffer was cut to, before the ranges are shifted to the parent's coordinates; the range is opts.Range, or the whole reader {0, bitiox.Len(br)} exactly when opts.Range is zero; the next format is tried only after a failed decode of a group with more than one format (a failed single-format decode still reaches FillGaps); the shift adds decodeRange.Start and re-roots every value of this buffer unconditionally", 12)
	fn := p.Fn("pkg/decode.decode")
	fill := p.Fn("(*pkg/decode.D).FillGaps")
	newDec := p.Fn("pkg/decode.newDecoder")
	bxRange := p.Fn("internal/bitiox.Range")
	if fn == nil || fill == nil || newDec == nil || bxRange == nil || len(fn.Params) != 4 {
		ru.Undecided("anchor", "pkg/decode/decode.go", "decode.decode / (*D).FillGaps / newDecoder / bitiox.Range not found")
		return
	}
	s := fw.NewGxSym(fn)
	s.Name(fn.Params[1], "br")
	s.Name(fn.Params[3], "opts")
	var fills []*ssa.Call
	for _, c := range fw.CallsIn(fn) {
		if cl, ok := c.(*ssa.Call); ok && cl.Common().StaticCallee() == fill {
			fills = append(fills, cl)
		}
	}
	if len(fills) != 1 {
		ru.Fail("decode:fillgaps-call", p.Rel(fn.Pos()), fmt.Sprintf("decode() has %d calls of (*D).FillGaps, expected 1", len(fills)))
		return
	}
	fc := fills[0]
	pos := p.Rel(fc.Pos())
	// (1) path rule
	optFG := fw.GxFact{P: fw.PAtom("opts.FillGaps"), K: fw.GxNE}
	cutEdge := map[[2]*ssa.BasicBlock]bool{}
	nIf := 0
	for _, b := range fn.Blocks {
		if _, ok := b.Instrs[len(b.Instrs)-1].(*ssa.If); !ok {
			continue
		}
		for _, su := range b.Succs {
			if f, ok := s.EdgeFact(b, su); ok && f.Same(optFG.Negate()) {
				cutEdge[[2]*ssa.BasicBlock{b, su}] = true
				nIf++
			}
		}
	}
	if nIf == 0 {
		ru.Fail("decode:fillgaps-option", pos, "decode() never tests opts.FillGaps")
	} else {
		ru.Ok("decode:fillgaps-option", pos, "gap filling is conditional on opts.FillGaps only")
	}
	reach := c04Reach(fn, map[*ssa.BasicBlock]bool{fc.Block(): true}, cutEdge, fn.Blocks[0])
	nRet := 0
	recvLoc := s.Val(fc.Call.Args[0]).Loc
	for _, b := range fn.Blocks {
		ret, ok := b.Instrs[len(b.Instrs)-1].(*ssa.Return)
		if !ok || len(ret.Results) == 0 {
			continue
		}
		if c, isC := ret.Results[0].(*ssa.Const); isC && c.IsNil() {
			continue
		}
		nRet++
		key := fmt.Sprintf("decode:return#%d", nRet)
		if reach[b] {
			ru.Fail(key+":filled", p.Rel(ret.Pos()), "a decode value is returned on a path that skips d.FillGaps although opts.FillGaps is set: undecoded bits are shown nowhere")
		} else {
			ru.Ok(key+":filled", p.Rel(ret.Pos()), "FillGaps precedes this return whenever opts.FillGaps is set")
		}
		ru.Check(s.Val(ret.Results[0]).Loc == recvLoc+".Value", key+":same-decoder", p.Rel(ret.Pos()), "returned value belongs to the gap-filled decoder",
			"the returned value ("+s.Val(ret.Results[0]).Loc+") is not the Value of the decoder that was gap-filled ("+recvLoc+")")
	}
	if nRet == 0 {
		ru.Undecided("decode:return", pos, "decode() has no value-returning return")
	}
	// (2) arguments: Range{0, L} where the decoder's buffer is bitiox.Range(br, S, L)
	var nd *ssa.Call
	for _, c := range fw.CallsIn(fn) {
		if cl, ok := c.(*ssa.Call); ok && cl.Common().StaticCallee() == newDec {
			nd = cl
		}
	}
	var cut *ssa.Call
	if nd != nil && len(nd.Call.Args) == 4 {
		if ex, ok := nd.Call.Args[2].(*ssa.Extract); ok && ex.Index == 0 {
			if cl, ok := ex.Tuple.(*ssa.Call); ok && cl.Common().StaticCallee() == bxRange && len(cl.Call.Args) == 3 {
				cut = cl
			}
		}
	}
	if cut == nil {
		ru.Undecided("decode:buffer-cut", pos, "the decoder is not created over bitiox.Range(br, decodeRange.Start, decodeRange.Len)")
		return
	}
	cutStart, cutLen := s.Int(cut.Call.Args[1]), s.Int(cut.Call.Args[2])
	ru.Check(s.Val(cut.Call.Args[0]).Loc == "br", "decode:buffer-cut:reader", p.Rel(cut.Pos()), "buffer is cut from the br parameter", "decoder buffer is cut from "+s.Val(cut.Call.Args[0]).Loc+", not from the br parameter")
	c04RangeDefault(ru, p, fn, s, cut)
	// decoder cell
	stored := false
	if nd.Referrers() != nil {
		for _, rf := range *nd.Referrers() {
			if st, ok := rf.(*ssa.Store); ok && s.Val(st.Addr).Loc == recvLoc {
				stored = true
			}
		}
	}
	ru.Check(stored || s.Val(nd).Loc == recvLoc, "decode:fillgaps-recv", pos, "FillGaps runs on the decoder created over the cut buffer", "FillGaps receiver is not the decoder created by newDecoder over the cut buffer")
	fields, _, ok := fw.GxLitFields(fc.Call.Args[1])
	if !ok {
		ru.Undecided("decode:fillgaps-range", pos, "range passed to FillGaps is not a literal")
	} else {
		st, ln := fw.PConst(0), fw.PConst(0)
		if v, ok := fields["Start"]; ok {
			st = s.Int(v)
		}
		if v, ok := fields["Len"]; ok {
			ln = s.Int(v)
		}
		c, isC := st.IsConst()
		ru.Check(isC && c == 0, "decode:fillgaps-range:start", pos, "gaps are computed from bit 0 of the cut buffer", "FillGaps range starts at "+st.String()+"; leaf ranges are relative to the cut buffer at this point, so it must be 0")
		ru.Check(ln.Equal(cutLen), "decode:fillgaps-range:len", pos, "gaps are computed up to the length the buffer was cut to", "FillGaps range length is "+ln.String()+" but the decoder's buffer has length "+cutLen.String()+": the tail is not covered or gaps reach outside the buffer")
	}
	// (3) order: FillGaps before the shift walk
	var shiftWalk *ssa.Call
	var shiftFn *ssa.Function
	valueT := p.NamedType("pkg/decode", "Value")
	for _, c := range fw.CallsIn(fn) {
		cl, ok := c.(*ssa.Call)
		if !ok || cl.Common().StaticCallee() == nil || len(cl.Call.Args) != 2 || !c04IsPtrTo(cl.Call.Args[0].Type(), valueT) {
			continue
		}
		mc, ok := c04Strip(cl.Call.Args[1]).(*ssa.MakeClosure)
		if !ok {
			continue
		}
		cf := mc.Fn.(*ssa.Function)
		writes := false
		fw.EachInstr(cf, func(ins ssa.Instruction) {
			if st, ok := ins.(*ssa.Store); ok {
				if fa, ok := st.Addr.(*ssa.FieldAddr); ok && fieldNameOf(fa.X.Type(), fa.Field) == "Start" {
					if fa2, ok := fa.X.(*ssa.FieldAddr); ok && fieldNameOf(fa2.X.Type(), fa2.Field) == "Range" && c04IsPtrTo(fa2.X.Type(), valueT) {
						writes = true
					}
				}
			}
		})
		if writes {
			shiftWalk, shiftFn = cl, cf
		}
	}
	if shiftWalk == nil {
		ru.Undecided("decode:shift", pos, "the walk that shifts value ranges to the parent's coordinates was not found")
		return
	}
	// header of the format loop: the nearest loop header dominating the FillGaps call
	var header *ssa.BasicBlock
	for b := fc.Block(); b != nil && header == nil; b = b.Idom() {
		for _, pr := range b.Preds {
			if b.Dominates(pr) {
				header = b
			}
		}
	}
	cutB := map[*ssa.BasicBlock]bool{}
	if header != nil {
		cutB[header] = true
	}
	after := c04Reach(fn, cutB, nil, shiftWalk.Block())
	before := c04Reach(fn, cutB, nil, fc.Block())
	okOrder := !after[fc.Block()] && before[shiftWalk.Block()] && fc.Block() != shiftWalk.Block()
	ru.Check(okOrder, "decode:fill-before-shift", pos, "gaps are computed while leaf ranges are still relative to the cut buffer",
		"FillGaps does not run before the ranges are shifted by decodeRange.Start: for sub-decodes leaf ranges are compared with [0,len) in the wrong coordinates")
	ru.Check(s.Val(shiftWalk.Call.Args[0]).Loc == recvLoc+".Value" && c04IsRootLimitedWalker(p, shiftWalk.Common().StaticCallee()), "decode:shift:walk", p.Rel(shiftWalk.Pos()),
		"shift walks the values of this buffer root", "the shift does not walk exactly the values of the decoded buffer root (d.Value, root-limited)")
	// shift closure: v.Range.Start += decodeRange.Start ; v.RootReader = br
	cs := fw.NewGxSym(shiftFn)
	cs.Name(shiftFn.Params[0], "v")
	mc := c04Strip(shiftWalk.Call.Args[1]).(*ssa.MakeClosure)
	for i, fv := range shiftFn.FreeVars {
		if i < len(mc.Bindings) {
			cs.Name(fv, "outer:"+s.Val(mc.Bindings[i]).Loc)
		}
	}
	// name of decodeRange cell in the parent = location whose .Start/.Len feed the cut
	cutStartAtom := cutStart.String()
	okShift, okRoot := false, false
	fw.EachInstr(shiftFn, func(ins ssa.Instruction) {
		st, ok := ins.(*ssa.Store)
		if !ok {
			return
		}
		switch cs.Val(st.Addr).Loc {
		case "v.Range.Start":
			want := fw.PAtom("v.Range.Start").Add(fw.PAtom("outer:" + cutStartAtom))
			okShift = cs.Int(st.Val).Equal(want) && len(fw.Guards(st.Block())) == 0
		case "v.RootReader":
			okRoot = cs.Val(st.Val).Loc == "outer:br" && len(fw.Guards(st.Block())) == 0
		}
	})
	ru.Check(okShift, "decode:shift:start", p.Rel(shiftFn.Pos()), "v.Range.Start += decodeRange.Start, for every value", "values are not shifted (all of them, unconditionally) by exactly the start of the range the buffer was cut at: field and gap ranges no longer address the bits they hold")
	ru.Check(okRoot, "decode:shift:rootreader", p.Rel(shiftFn.Pos()), "v.RootReader = br, for every value", "shifted values are not (all, unconditionally) re-rooted at the reader the ranges now refer to")
	// (4) failed decode: the only way back to the loop header from the failure region is len(Formats) != 1
	if header == nil {
		ru.Undecided("decode:failed-continue", pos, "format loop not found")
		return
	}
	// the ok result of the recovered DecodeFn call
	var failedFact *fw.GxFact
	fw.EachInstr(fn, func(ins ssa.Instruction) {
		if ex, ok := ins.(*ssa.Extract); ok && ex.Index == 1 {
			if c, ok := ex.Tuple.(*ssa.Call); ok && strings.HasSuffix(fw.CalleeName(c), "internal/recoverfn.Run") {
				failedFact = &fw.GxFact{P: s.Int(ex), K: fw.GxEQ}
			}
		}
	})
	if failedFact == nil {
		ru.Undecided("decode:failed-continue", pos, "the recovered call of the format's DecodeFn (recoverfn.Run) was not found")
		return
	}
	nBack := 0
	for _, pr := range header.Preds {
		if !header.Dominates(pr) {
			continue
		}
		nBack++
		key := fmt.Sprintf("decode:failed-continue#%d", nBack)
		// facts known when the back edge is taken: the guards of the jumping block plus, when it
		// ends in a branch, the condition of the edge itself
		var facts []fw.GxFact
		for _, gf := range s.GuardFacts(pr) {
			facts = append(facts, gf.GxFact)
		}
		if f, ok := s.EdgeFact(pr, header); ok {
			facts = append(facts, f)
		}
		okF, okFailed := false, false
		for _, f := range facts {
			if f.Same(*failedFact) {
				okFailed = true
			}
			if f.K != fw.GxNE && f.K != fw.GxGE {
				continue
			}
			// len(X) - 1 != 0  or  len(X) - 2 >= 0 where X is a Formats list
			for _, a := range f.P.Atoms() {
				if strings.HasPrefix(a, "len(") && strings.HasSuffix(a, ".Formats)") {
					one := fw.GxFact{P: fw.PAtom(a).Sub(fw.PConst(1)), K: fw.GxNE}
					two := fw.GxFact{P: fw.PAtom(a).Sub(fw.PConst(2)), K: fw.GxGE}
					if f.Same(one) || f.Same(two) {
						okF = true
					}
				}
			}
		}
		bpos := pos
		if lastIf, isIf := pr.Instrs[len(pr.Instrs)-1].(*ssa.If); isIf {
			bpos = p.Rel(fw.GxIfPos(lastIf))
		} else if gs := fw.Guards(pr); len(gs) > 0 {
			bpos = p.Rel(fw.GxIfPos(gs[0].If))
		}
		ru.Check(okF && okFailed, key, bpos, "next format is tried only after a failed decode and when the group has more than one format",
			"decode() moves on to the next format (dropping the tree decoded so far and its gaps) although the decode did not fail or the group has only this one format (the condition must imply !rOk && len(group.Formats) != 1)")
	}
	if nBack == 0 {
		ru.Undecided("decode:failed-continue", pos, "format loop has no back edge")
	}
}

// c04RangeDefault: the range the buffer is cut to (and that is gap-filled) is opts.Range, or the
// whole reader {0, bitiox.Len(br)} exactly when opts.Range is the zero range.
func c04RangeDefault(ru *fw.Rule, p *fw.Program, fn *ssa.Function, s *fw.GxSym, cut *ssa.Call) {
	pos := p.Rel(cut.Pos())
	const key = "decode:range-default"
	cellOf := func(v ssa.Value, field string) *ssa.Alloc {
		fa, ok := c04LoadOf(v).(*ssa.FieldAddr)
		if !ok || fieldNameOf(fa.X.Type(), fa.Field) != field {
			return nil
		}
		a, _ := fa.X.(*ssa.Alloc)
		return a
	}
	cell := cellOf(cut.Call.Args[1], "Start")
	if cell == nil || cell != cellOf(cut.Call.Args[2], "Len") || !c04IsRange(p, cell.Type().Underlying().(*types.Pointer).Elem()) {
		ru.Undecided(key, pos, "the buffer is not cut at (X.Start, X.Len) of one local range variable")
		return
	}
	loc := s.Val(cell).Loc
	// writes: whole-value stores, field stores of an in-place literal; none through closures
	clean := true
	var stores, fieldStores []*ssa.Store
	inPlace := map[string]ssa.Value{}
	for _, f := range fw.WithClosures(fn) {
		fw.EachInstr(f, func(ins ssa.Instruction) {
			st, ok := ins.(*ssa.Store)
			if !ok {
				return
			}
			if st.Addr == ssa.Value(cell) {
				stores = append(stores, st)
				return
			}
			fa, ok := st.Addr.(*ssa.FieldAddr)
			if !ok {
				return
			}
			if fa.X == ssa.Value(cell) {
				name := fieldNameOf(fa.X.Type(), fa.Field)
				if _, dup := inPlace[name]; dup {
					clean = false
				}
				inPlace[name] = st.Val
				fieldStores = append(fieldStores, st)
				return
			}
			if fv, ok := fa.X.(*ssa.FreeVar); ok && f != fn {
				for _, mcI := range *cell.Referrers() {
					if mc, ok := mcI.(*ssa.MakeClosure); ok && mc.Fn == ssa.Value(f) {
						for i, b := range mc.Bindings {
							if b == ssa.Value(cell) && i < len(f.FreeVars) && f.FreeVars[i] == fv {
								clean = false
							}
						}
					}
				}
			}
		})
	}
	// assignments: a whole-value store, or a literal built in place (optional zeroing store followed
	// by field stores in the same block)
	type asg struct {
		blk *ssa.BasicBlock
		pos token.Pos
		val ssa.Value            // whole value (nil for a literal)
		lit map[string]ssa.Value // literal fields
	}
	var asgs []*asg
	litAt := map[*ssa.BasicBlock]*asg{}
	for _, st := range stores {
		if c, isC := st.Val.(*ssa.Const); isC && c.Value == nil {
			if litAt[st.Block()] != nil {
				clean = false
			}
			a := &asg{blk: st.Block(), pos: st.Pos(), lit: map[string]ssa.Value{}}
			litAt[st.Block()] = a
			asgs = append(asgs, a)
			continue
		}
		asgs = append(asgs, &asg{blk: st.Block(), pos: st.Pos(), val: st.Val})
	}
	for _, fs := range fieldStores {
		a := litAt[fs.Block()]
		if a == nil {
			a = &asg{blk: fs.Block(), pos: fs.Pos(), lit: map[string]ssa.Value{}}
			litAt[fs.Block()] = a
			asgs = append(asgs, a)
		}
		name := fieldNameOf(cell.Type(), fs.Addr.(*ssa.FieldAddr).Field)
		if _, dup := a.lit[name]; dup {
			clean = false
		}
		a.lit[name] = fs.Val
	}
	if !clean || len(asgs) != 2 {
		ru.Fail(key, pos, fmt.Sprintf("the decode range is assigned %d times (or through a closure): expected opts.Range with the whole reader as the default for the zero range", len(asgs)))
		return
	}
	zeroFacts := func(x string) []fw.GxFact {
		return []fw.GxFact{{P: fw.PAtom(x + ".Start"), K: fw.GxEQ}, {P: fw.PAtom(x + ".Len"), K: fw.GxEQ}}
	}
	isZeroSet := func(fs []fw.GxFact) bool {
		for _, x := range []string{loc, "opts.Range"} {
			z := zeroFacts(x)
			if len(fs) == 2 && (fs[0].Same(z[0]) && fs[1].Same(z[1]) || fs[0].Same(z[1]) && fs[1].Same(z[0])) {
				return true
			}
		}
		return false
	}
	// region(b): +1 the range is known to be zero at b, -1 known to be non-zero, 0 unguarded, 2 other
	type ifArm struct {
		i *ssa.If
		t bool
	}
	global := map[ifArm]bool{} // conditions that also hold where the buffer is cut: not specific to an assignment
	for _, g := range fw.Guards(cut.Block()) {
		global[ifArm{g.If, g.True}] = true
	}
	region := func(b *ssa.BasicBlock) int {
		var gs []fw.Guard
		for _, g := range fw.Guards(b) {
			if !global[ifArm{g.If, g.True}] {
				gs = append(gs, g)
			}
		}
		if len(gs) == 0 {
			return 0
		}
		var fs []fw.GxFact
		for _, gf := range s.GuardFacts(b) {
			if !global[ifArm{gf.If, gf.True}] {
				fs = append(fs, gf.GxFact)
			}
		}
		if isZeroSet(fs) {
			return 1
		}
		if len(gs) == 1 {
			g := gs[0].Normalize()
			if _, isCall := g.Cond.(*ssa.Call); isCall && !g.True {
				var tf []fw.GxFact
				var sub []fw.GxGuardFact
				s.CondFacts(g.Cond, true, &sub)
				for _, gf := range sub {
					tf = append(tf, gf.GxFact)
				}
				if isZeroSet(tf) {
					return -1
				}
			}
		}
		return 2
	}
	// value kinds
	isOpts := func(v ssa.Value) bool { return s.Val(v).Loc == "opts.Range" }
	litOf := func(v ssa.Value) map[string]ssa.Value {
		f, _, ok := fw.GxLitFields(v)
		if !ok {
			return nil
		}
		return f
	}
	isWhole := func(f map[string]ssa.Value, zero bool) (bool, string) {
		if f == nil {
			return false, "not a Range literal"
		}
		st := fw.PConst(0)
		if x, ok := f["Start"]; ok {
			st = s.Int(x)
		}
		if zero {
			for _, x := range []string{loc, "opts.Range"} {
				st = fw.GxReplaceAtom(fw.GxReplaceAtom(st, fw.PAtom(x+".Start"), fw.PConst(0)), fw.PAtom(x+".Len"), fw.PConst(0))
			}
		}
		if c, isC := st.IsConst(); !isC || c != 0 {
			return false, "Start is " + st.String() + ", not 0"
		}
		ex, _ := f["Len"].(*ssa.Extract)
		if ex == nil || ex.Index != 0 {
			return false, "Len is not the length of the reader"
		}
		c, _ := ex.Tuple.(*ssa.Call)
		if c == nil || c.Common().StaticCallee() != p.Fn("internal/bitiox.Len") || len(c.Call.Args) != 1 || s.Val(c.Call.Args[0]).Loc != "br" {
			return false, "Len is not bitiox.Len(br)"
		}
		return true, ""
	}
	wrongA := func(w bool, why string) string {
		if w {
			return "it is not applied exactly when opts.Range is zero"
		}
		return why
	}
	wrongB := func(w bool, why string) string {
		if w {
			return "opts.Range does not replace it exactly when it is non-zero"
		}
		return why
	}
	const tail = ": a top-level or nested-buffer decode does not cover exactly its input, bits beyond are in no field and no gap"
	a, b := asgs[0], asgs[1]
	if !a.blk.Dominates(b.blk) || a.blk == b.blk {
		a, b = b, a
	}
	litOrVal := func(x *asg) map[string]ssa.Value {
		if x.val == nil {
			return x.lit
		}
		return litOf(x.val)
	}
	ra, rb := region(a.blk), region(b.blk)
	switch {
	case ra != 0 || !a.blk.Dominates(b.blk) || a.blk == b.blk:
		ru.Fail(key, p.Rel(a.pos), "the decode range is not initialised unconditionally before its default/override is applied")
	case a.val != nil && isOpts(a.val):
		w, why := isWhole(litOrVal(b), true)
		ru.Check(rb == 1 && w, key, p.Rel(b.pos), "decodeRange = opts.Range, replaced by {0, bitiox.Len(br)} exactly when it is the zero range",
			"the whole-reader default of the decode range is wrong ("+wrongA(w, why)+")"+tail)
	case b.val != nil && isOpts(b.val):
		w, why := isWhole(litOrVal(a), false)
		ru.Check(rb == -1 && w, key, p.Rel(b.pos), "decodeRange = {0, bitiox.Len(br)}, replaced by opts.Range exactly when that is not the zero range",
			"the whole-reader default of the decode range is wrong ("+wrongB(w, why)+")"+tail)
	default:
		ru.Fail(key, pos, "the decode range is not opts.Range with the whole reader as default")
	}
}

// ---------------------------------------------------------------------------
// root-limited walkers

var c04WalkerCache = map[*fw.Program]map[*ssa.Function]bool{}

// c04IsRootLimitedWalker: fn is a method of *Value that calls (*Value).Walk on its receiver with a
// WalkOpts literal whose OneRoot is the constant true and whose Fn is its own parameter.
func c04IsRootLimitedWalker(p *fw.Program, fn *ssa.Function) bool {
	if fn == nil {
		return false
	}
	m, ok := c04WalkerCache[p]
	if !ok {
		m = map[*ssa.Function]bool{}
		c04WalkerCache[p] = m
		walk := p.Fn("(*pkg/decode.Value).Walk")
		for _, f := range p.FqFunctions() {
			if walk == nil || f.Signature.Recv() == nil || len(f.Params) != 2 {
				continue
			}
			for _, c := range fw.CallsIn(f) {
				if c.Common().StaticCallee() != walk || len(c.Common().Args) != 2 || c.Common().Args[0] != ssa.Value(f.Params[0]) {
					continue
				}
				fields, _, ok := fw.GxLitFields(c.Common().Args[1])
				if !ok {
					continue
				}
				one, okc := c04ConstBool(fields["OneRoot"], false)
				if okc && one && fields["Fn"] == ssa.Value(f.Params[1]) {
					m[f] = true
				}
			}
		}
	}
	return m[fn]
}

// ---------------------------------------------------------------------------
// C04.leafs

// c04LeafGuarded: block b only runs when the dynamic type of iv.V is not *Compound.
func c04LeafGuarded(p *fw.Program, b *ssa.BasicBlock, iv ssa.Value) bool {
	comp := p.NamedType("pkg/decode", "Compound")
	for _, g := range fw.Guards(b) {
		g = g.Normalize()
		ex, ok := g.Cond.(*ssa.Extract)
		if !ok || ex.Index != 1 || g.True {
			continue
		}
		ta, ok := ex.Tuple.(*ssa.TypeAssert)
		if !ok || !ta.CommaOk || !c04IsPtrTo(ta.AssertedType, comp) {
			continue
		}
		if c04FieldLoad(ta.X, iv, "V") {
			return true
		}
	}
	return false
}

// c04AllReturnNil: every return of fn returns the nil error constant (single result).
func c04AllReturnNil(fn *ssa.Function) bool {
	ok, n := true, 0
	fw.EachInstr(fn, func(ins ssa.Instruction) {
		rt, isRet := ins.(*ssa.Return)
		if !isRet {
			return
		}
		n++
		if len(rt.Results) != 1 {
			ok = false
			return
		}
		if c, isC := rt.Results[0].(*ssa.Const); !isC || !c.IsNil() {
			ok = false
		}
	})
	return ok && n > 0
}

// c04OnlyLeafGuard: the only branch conditions block b depends on are "iv.V is not a *Compound".
func c04OnlyLeafGuard(p *fw.Program, b *ssa.BasicBlock, iv ssa.Value) bool {
	comp := p.NamedType("pkg/decode", "Compound")
	for _, g := range fw.Guards(b) {
		g = g.Normalize()
		ex, ok := g.Cond.(*ssa.Extract)
		if !ok || ex.Index != 1 || g.True {
			return false
		}
		ta, ok := ex.Tuple.(*ssa.TypeAssert)
		if !ok || !ta.CommaOk || !c04IsPtrTo(ta.AssertedType, comp) || !c04FieldLoad(ta.X, iv, "V") {
			return false
		}
	}
	return true
}

type c04Wrapper struct {
	w      *ssa.Function // the returned closure
	exact  bool          // fn(iv) is called for every non-compound value (no other condition)
	retNil bool          // the closure never returns an error (the walk is never cut short)
}

// c04LeafFilterWrapper: g(fn) returns a closure w(iv, ...) that calls fn(iv) only for non-compound iv.
func c04LeafFilterWrapper(p *fw.Program, g *ssa.Function) *c04Wrapper {
	if g == nil || len(g.Params) != 1 || len(g.Blocks) == 0 {
		return nil
	}
	// the one closure g returns (possibly converted to a named func type such as WalkFn)
	var cls []*ssa.Function
	okRet := true
	fw.EachInstr(g, func(ins ssa.Instruction) {
		ret, isRet := ins.(*ssa.Return)
		if !isRet {
			return
		}
		if len(ret.Results) != 1 {
			okRet = false
			return
		}
		if m, ok := c04Strip(ret.Results[0]).(*ssa.MakeClosure); ok {
			if f, ok := m.Fn.(*ssa.Function); ok {
				cls = append(cls, f)
				return
			}
		}
		okRet = false
	})
	if !okRet || len(cls) != 1 {
		return nil
	}
	w := cls[0]
	if len(w.Params) == 0 || len(w.FreeVars) != 1 {
		return nil
	}
	// the free variable is the cell holding g's parameter
	var mc *ssa.MakeClosure
	fw.EachInstr(g, func(ins ssa.Instruction) {
		if m, ok := ins.(*ssa.MakeClosure); ok && m.Fn == ssa.Value(w) {
			mc = m
		}
	})
	if mc == nil || len(mc.Bindings) != 1 {
		return nil
	}
	cell, ok := mc.Bindings[0].(*ssa.Alloc)
	if !ok || fw.GxParamCopy(cell) != g.Params[0] {
		return nil
	}
	n, good, exact := 0, true, true
	fw.EachInstr(w, func(ins ssa.Instruction) {
		c, ok := ins.(*ssa.Call)
		if !ok || c.Common().IsInvoke() || c.Common().StaticCallee() != nil {
			return
		}
		if c04LoadOf(c.Call.Value) != ssa.Value(w.FreeVars[0]) {
			return
		}
		n++
		if len(c.Call.Args) != 1 || c.Call.Args[0] != ssa.Value(w.Params[0]) || !c04LeafGuarded(p, c.Block(), w.Params[0]) {
			good = false
		}
		if !c04OnlyLeafGuard(p, c.Block(), w.Params[0]) {
			exact = false
		}
	})
	if n == 0 || !good {
		return nil
	}
	return &c04Wrapper{w: w, exact: exact && n == 1, retNil: c04AllReturnNil(w)}
}

// c04IsLeafGuard: the guard says that iv.V is not a *Compound.
func c04IsLeafGuard(p *fw.Program, g fw.Guard, iv ssa.Value) bool {
	g = g.Normalize()
	ex, ok := g.Cond.(*ssa.Extract)
	if !ok || ex.Index != 1 || g.True {
		return false
	}
	ta, ok := ex.Tuple.(*ssa.TypeAssert)
	return ok && ta.CommaOk && c04IsPtrTo(ta.AssertedType, p.NamedType("pkg/decode", "Compound")) && c04FieldLoad(ta.X, iv, "V")
}

// c04HasOtherGuards: block b depends on a condition besides the leaf filter.
func c04HasOtherGuards(p *fw.Program, b *ssa.BasicBlock, iv ssa.Value) bool {
	for _, g := range fw.Guards(b) {
		if iv == nil || !c04IsLeafGuard(p, g, iv) {
			return true
		}
	}
	return false
}

// c04OnlyNonEmptyGuards: every branch condition block b depends on says that lenAtom is non-zero
// (or that the visited value iv is not a compound: an inlined leaf filter).
func c04OnlyNonEmptyGuards(p *fw.Program, s *fw.GxSym, b *ssa.BasicBlock, iv ssa.Value, lenAtom string) bool {
	l := fw.PAtom(lenAtom)
	for _, g := range fw.Guards(b) {
		if iv != nil && c04IsLeafGuard(p, g, iv) {
			continue
		}
		var fs []fw.GxGuardFact
		s.CondFacts(g.Cond, g.True, &fs)
		if len(fs) == 0 {
			return false
		}
		for _, f := range fs {
			if !f.Same(fw.GxFact{P: l, K: fw.GxNE}) && !f.Same(fw.GxFact{P: l.Sub(fw.PConst(1)), K: fw.GxGE}) {
				return false
			}
		}
	}
	return true
}

// c04IsRangeOf: v is the Range stored at loc, or a literal Range{Start: loc.Start, Len: loc.Len}.
func c04IsRangeOf(s *fw.GxSym, v ssa.Value, loc string) bool {
	if s.Val(v).Loc == loc {
		return true
	}
	f, _, ok := fw.GxLitFields(v)
	if !ok || f["Start"] == nil || f["Len"] == nil || len(f) != 2 {
		return false
	}
	return s.Int(f["Start"]).Equal(fw.PAtom(loc+".Start")) && s.Int(f["Len"]).Equal(fw.PAtom(loc+".Len"))
}

func c04Leafs(r *fw.Run, p *fw.Program) {
	ru := r.Rule("C04.leafs", "(*D).FillGaps: the list handed to ranges.Gaps holds exactly iv.Range of every non-compound value reached by a root-limited walk of d.Value (this buffer root only): the filter withholds nothing but compounds, the callbacks never cut the walk short, each leaf is stored unconditionally in the next slot (or appended); every returned gap becomes a child Value{Range: gap, V: BitBuf{Actual: bitiox.Range(d.bitBuf, gap.Start, gap.Len), Flags: FlagGap}, RootReader: d.bitBuf} with an index-unique name; each gap has its own newly allocated Value and BitBuf; bitiox.Range sections (start, len) in that order", 23)
	fn := p.Fn("(*pkg/decode.D).FillGaps")
	gaps := p.Fn("pkg/ranges.Gaps")
	bxRange := p.Fn("internal/bitiox.Range")
	addChild := p.Fn("(*pkg/decode.D).AddChild")
	valueT := p.NamedType("pkg/decode", "Value")
	if fn == nil || gaps == nil || bxRange == nil || addChild == nil || valueT == nil || len(fn.Params) < 2 || !c04IsRange(p, fn.Params[1].Type()) {
		ru.Undecided("anchor", "pkg/decode/decode.go", "(*D).FillGaps(r Range, ...) / ranges.Gaps / bitiox.Range / (*D).AddChild not found")
		return
	}
	d := fn.Params[0]
	s := fw.NewGxSym(fn)
	s.Name(d, "d")
	s.Name(fn.Params[1], "r")
	var gc *ssa.Call
	n := 0
	for _, c := range fw.CallsIn(fn) {
		if cl, ok := c.(*ssa.Call); ok && cl.Common().StaticCallee() == gaps {
			gc = cl
			n++
		}
	}
	if n != 1 {
		ru.Fail("FillGaps:gaps-call", p.Rel(fn.Pos()), fmt.Sprintf("FillGaps has %d calls of ranges.Gaps, expected 1", n))
		return
	}
	pos := p.Rel(gc.Pos())
	ru.Check(gc.Call.Args[0] == ssa.Value(fn.Params[1]), "FillGaps:gaps-call:total", pos, "total range is FillGaps' own range parameter", "ranges.Gaps is not called with FillGaps' range parameter as total")
	// ---- the collected list: built in FillGaps itself, or by a helper that is handed d (or d.Value)
	// and returns the list
	cfn, ls := fn, s
	var cend ssa.Instruction = gc
	listVal := gc.Call.Args[1]
	isRootVal := func(v ssa.Value) bool { return c04FieldLoad(v, d, "Value") }
	if hc, ok := listVal.(*ssa.Call); ok && !hc.Common().IsInvoke() && hc.Common().StaticCallee() != nil && fw.InFq(hc.Common().StaticCallee()) && len(hc.Call.Args) == 1 && len(hc.Common().StaticCallee().Blocks) > 0 {
		h := hc.Common().StaticCallee()
		var rets []*ssa.Return
		fw.EachInstr(h, func(ins ssa.Instruction) {
			if rt, ok := ins.(*ssa.Return); ok {
				rets = append(rets, rt)
			}
		})
		arg := hc.Call.Args[0]
		byD, byV := arg == ssa.Value(d), c04FieldLoad(arg, d, "Value")
		if len(rets) == 1 && len(rets[0].Results) == 1 && len(h.Params) == 1 && (byD || byV) {
			cfn, ls, cend, listVal = h, fw.NewGxSym(h), rets[0], rets[0].Results[0]
			hp := h.Params[0]
			if byD {
				ls.Name(hp, "d")
				isRootVal = func(v ssa.Value) bool { return c04FieldLoad(v, hp, "Value") }
			} else {
				ls.Name(hp, "d.Value")
				isRootVal = func(v ssa.Value) bool { return v == ssa.Value(hp) }
			}
		}
	}
	cell, _ := c04LoadOf(listVal).(*ssa.Alloc)
	if cell == nil {
		ru.Undecided("FillGaps:collect", pos, "the range list is not held in a local variable cell (of FillGaps or of a helper called with d / d.Value)")
		return
	}
	ls.Name(cell, "S")
	// stores to the cell in FillGaps itself: only make([]Range, n)
	var mk *ssa.MakeSlice
	for _, rf := range *cell.Referrers() {
		if st, ok := rf.(*ssa.Store); ok && st.Addr == ssa.Value(cell) {
			if m, ok := st.Val.(*ssa.MakeSlice); ok && mk == nil {
				mk = m
			} else {
				ru.Fail("FillGaps:collect:init", p.Rel(st.Pos()), "the range list is assigned something other than one make([]Range, n)")
			}
		}
	}
	// walks
	type walkInfo struct {
		call    *ssa.Call
		cb      *ssa.Function // innermost callback closure (after unwrapping the leaf filter)
		cbMC    *ssa.MakeClosure
		wrapped bool
		wr      *c04Wrapper
	}
	var walks []walkInfo
	for _, c := range fw.CallsIn(cfn) {
		cl, ok := c.(*ssa.Call)
		if !ok || cl.Common().StaticCallee() == nil || len(cl.Call.Args) != 2 || !c04IsPtrTo(cl.Call.Args[0].Type(), valueT) {
			continue
		}
		callee := cl.Common().StaticCallee()
		if callee.Signature.Recv() == nil || !strings.HasPrefix(callee.Name(), "Walk") {
			continue
		}
		wi := walkInfo{call: cl}
		key := fmt.Sprintf("FillGaps:walk#%d", len(walks)+1)
		wpos := p.Rel(cl.Pos())
		ru.Check(c04IsRootLimitedWalker(p, callee), key+":root-limited", wpos, fw.ShortFn(callee)+" stops at sub-buffer roots",
			fw.ShortFn(callee)+" is not a root-limited walk (WalkOpts{OneRoot: true}): leaf ranges of other buffers are mixed into this buffer's gap computation")
		ru.Check(isRootVal(cl.Call.Args[0]), key+":receiver", wpos, "walks d.Value", "the walk does not start at d.Value")
		cb := c04Strip(cl.Call.Args[1])
		switch x := cb.(type) {
		case *ssa.MakeClosure:
			wi.cbMC = x
			wi.cb = x.Fn.(*ssa.Function)
		case *ssa.Call:
			g := x.Common().StaticCallee()
			if wr := c04LeafFilterWrapper(p, g); wr != nil && len(x.Call.Args) == 1 {
				if m, ok := c04Strip(x.Call.Args[0]).(*ssa.MakeClosure); ok {
					wi.cbMC = m
					wi.cb = m.Fn.(*ssa.Function)
					wi.wrapped = true
					wi.wr = wr
				}
			}
		}
		if wi.cb == nil {
			ru.Fail(key+":leaf-filter", wpos, "walk callback is not a closure, or is not wrapped by a filter that calls it only for non-compound values: compound ranges would cover their children's holes")
			walks = append(walks, wi)
			continue
		}
		if wi.wrapped {
			ru.Ok(key+":leaf-filter", wpos, "callback runs only for non-compound values (filter wrapper)")
			ru.Check(wi.wr.exact, key+":filter-exact", wpos, "the filter passes every non-compound value to the callback",
				"the walk filter withholds some non-compound values from the callback (a condition besides `not *Compound`): their bits are reported as gaps on top of the field")
			ru.Check(wi.wr.retNil, key+":no-abort", wpos, "the walk callback never returns an error",
				"the walk callback can return an error (stop / skip children): the walk is cut short, the remaining leaf fields are not collected and gaps are added over them")
		} else {
			ru.Check(c04AllReturnNil(wi.cb), key+":no-abort", wpos, "the walk callback never returns an error",
				"the walk callback can return an error (stop / skip children): the walk is cut short, the remaining leaf fields are not collected and gaps are added over them")
			// inline filter: every store / increment in the callback must be leaf-guarded
			okInline := true
			fw.EachInstr(wi.cb, func(ins ssa.Instruction) {
				if st, ok := ins.(*ssa.Store); ok && len(wi.cb.Params) > 0 && !c04LeafGuarded(p, st.Block(), wi.cb.Params[0]) {
					okInline = false
				}
			})
			fillsList := false
			for _, b := range wi.cbMC.Bindings {
				if b == ssa.Value(cell) {
					fillsList = true
				}
			}
			if !okInline && !fillsList {
				// a walk that only counts may count compounds too: the list is then padded with empty
				// ranges, which ranges.Gaps ignores (FillGaps:collect:size wants the count unconditional)
				ru.Ok(key+":leaf-filter", wpos, "counting walk counts a superset of the collected values")
			} else {
				ru.Check(okInline, key+":leaf-filter", wpos, "callback acts only on non-compound values", "walk callback also acts on compound values: their ranges cover their children's holes")
			}
		}
		walks = append(walks, wi)
	}
	if len(walks) == 0 {
		ru.Fail("FillGaps:walk", pos, "FillGaps does not walk d.Value")
		return
	}
	// collector: the callback that has the list cell as free variable
	boundTo := func(wi walkInfo, c ssa.Value) *ssa.FreeVar {
		if wi.cbMC == nil {
			return nil
		}
		for i, b := range wi.cbMC.Bindings {
			if b == c && i < len(wi.cb.FreeVars) {
				return wi.cb.FreeVars[i]
			}
		}
		return nil
	}
	nCollect := 0
	appendStyle := false
	fillCond := false // the collector stores only non-empty ranges
	for _, wi := range walks {
		fv := boundTo(wi, cell)
		if fv == nil {
			continue
		}
		nCollect++
		cs := fw.NewGxSym(wi.cb)
		cs.Name(fv, "S")
		if len(wi.cb.Params) > 0 {
			cs.Name(wi.cb.Params[0], "iv")
		}
		cpos := p.Rel(wi.cb.Pos())
		nStore := 0
		var idxAddr ssa.Value
		var colStore, stepStore *ssa.Store
		fw.EachInstr(wi.cb, func(ins ssa.Instruction) {
			st, ok := ins.(*ssa.Store)
			if !ok {
				return
			}
			if ia, ok := st.Addr.(*ssa.IndexAddr); ok && cs.SliceName(ia.X) == "S" {
				nStore++
				colStore = st
				ru.Check(c04IsRangeOf(cs, st.Val, "iv.Range"), "FillGaps:collect:value", cpos, "collects iv.Range", "the collected value is "+cs.Val(st.Val).Loc+", not the visited value's Range")
				idxAddr = c04LoadOf(ia.Index)
				return
			}
			if st.Addr == ssa.Value(fv) {
				// S = append(S, iv.Range)
				if call, ok := st.Val.(*ssa.Call); ok {
					es := fw.GxAppendElems(call)
					nStore++
					colStore = st
					appendStyle = true
					ru.Check(len(es) == 1 && c04IsRangeOf(cs, es[0], "iv.Range") && cs.SliceName(call.Call.Args[0]) == "S", "FillGaps:collect:value", cpos, "appends iv.Range", "the list is extended by something other than the visited value's Range")
				}
			}
		})
		if nStore != 1 {
			ru.Fail("FillGaps:collect:value", cpos, fmt.Sprintf("collector stores into the range list %d times per visited value, expected 1", nStore))
		}
		// index discipline: slot = *i ; *i = *i + 1 ; i starts at 0
		if idxAddr == nil && !appendStyle && nStore == 1 {
			ru.Fail("FillGaps:collect:index", cpos, "the slot a leaf range is stored in is not the plain value of a counter variable: slots are skipped or overwritten")
		}
		if idxAddr != nil {
			ifv, _ := idxAddr.(*ssa.FreeVar)
			okStep, okInit := false, false
			if ifv != nil {
				fw.EachInstr(wi.cb, func(ins ssa.Instruction) {
					if st, ok := ins.(*ssa.Store); ok && st.Addr == ssa.Value(ifv) {
						okStep = cs.Int(st.Val).Equal(fw.PAtom(cs.Val(ifv).Loc).Add(fw.PConst(1)))
						stepStore = st
					}
				})
				for i, fvv := range wi.cb.FreeVars {
					if fvv == ifv && i < len(wi.cbMC.Bindings) {
						if ic, ok := wi.cbMC.Bindings[i].(*ssa.Alloc); ok {
							nInit := 0
							for _, rf := range *ic.Referrers() {
								if st, ok := rf.(*ssa.Store); ok && st.Addr == ssa.Value(ic) {
									nInit++
									c, isC := ls.Int(st.Val).IsConst()
									okInit = isC && c == 0
								}
							}
							okInit = okInit && nInit == 1
						}
					}
				}
			}
			ru.Check(okStep && okInit, "FillGaps:collect:index", cpos, "slots 0,1,2,... are filled in turn", "the list slots are not filled consecutively from 0: leaf ranges are dropped (their bits become gaps) or overwritten")
		}
		// every visited leaf is collected: the store (and the index step) depends on no condition
		// other than the range being non-empty (empty ranges are ignored by ranges.Gaps anyway)
		if colStore != nil {
			var ivv ssa.Value
			if len(wi.cb.Params) > 0 {
				ivv = wi.cb.Params[0]
			}
			okU := c04OnlyNonEmptyGuards(p, cs, colStore.Block(), ivv, "iv.Range.Len")
			fillCond = c04HasOtherGuards(p, colStore.Block(), ivv)
			if stepStore != nil && stepStore.Block() != colStore.Block() {
				okU = false
			}
			ru.Check(okU, "FillGaps:collect:unconditional", cpos, "every visited leaf value is collected",
				"the range of a visited leaf value is collected only under an additional condition (or the slot index advances under a different one): skipped fields are reported as gaps over decoded bits, or slots are overwritten")
		}
	}
	if nCollect != 1 {
		ru.Fail("FillGaps:collect", pos, fmt.Sprintf("%d walk callbacks fill the range list, expected 1", nCollect))
	}
	// sizing: make([]Range, n) with n counted by a walk of the same kind; or an empty list that is
	// appended to
	if mk != nil && appendStyle {
		c, isC := ls.Int(mk.Len).IsConst()
		ru.Check(isC && c == 0, "FillGaps:collect:size", p.Rel(mk.Pos()), "list starts empty and is appended to", "the range list is appended to but does not start empty (length "+ls.Int(mk.Len).String()+"): the extra zero ranges are harmless only by accident, a non-zero start pads the list")
	} else if mk != nil {
		ncell, _ := c04LoadOf(mk.Len).(*ssa.Alloc)
		okCount := false
		if ncell != nil {
			for _, wi := range walks {
				fv := boundTo(wi, ncell)
				if fv == nil {
					continue
				}
				cs := fw.NewGxSym(wi.cb)
				if len(wi.cb.Params) > 0 {
					cs.Name(wi.cb.Params[0], "iv")
				}
				fw.EachInstr(wi.cb, func(ins ssa.Instruction) {
					if st, ok := ins.(*ssa.Store); ok && st.Addr == ssa.Value(fv) {
						okCount = cs.Int(st.Val).Equal(fw.PAtom(cs.Val(fv).Loc).Add(fw.PConst(1))) && c04OnlyNonEmptyGuards(p, cs, st.Block(), wi.cb.Params[0], "iv.Range.Len")
						// counting only non-empty ranges is right only if only those are stored
						if c04HasOtherGuards(p, st.Block(), wi.cb.Params[0]) && !fillCond {
							okCount = false
						}
					}
				})
			}
		}
		ru.Check(okCount && mk.Len == mk.Cap || okCount && ls.Int(mk.Len).Equal(ls.Int(mk.Cap)), "FillGaps:collect:size", p.Rel(mk.Pos()), "list is sized by a count of the same leaf walk", "the range list is not sized by counting (unconditionally) the same non-compound values: it is indexed out of range or padded")
	}
	// order: count walk < make < fill walk < ranges.Gaps
	{
		precedes := func(a, b ssa.Instruction) bool {
			if a.Block() == b.Block() {
				ia, ib := -1, -1
				for i, ins := range a.Block().Instrs {
					if ins == a {
						ia = i
					}
					if ins == b {
						ib = i
					}
				}
				return ia >= 0 && ia < ib
			}
			return a.Block().Dominates(b.Block())
		}
		okOrder := true
		for _, wi := range walks {
			if !precedes(wi.call, cend) {
				okOrder = false
			}
			if mk != nil && wi.cbMC != nil {
				fills := boundTo(wi, cell) != nil
				if fills && !precedes(mk, wi.call) || !fills && !precedes(wi.call, mk) {
					okOrder = false
				}
			}
		}
		ru.Check(okOrder, "FillGaps:collect:order", pos, "count, allocate, fill, then compute gaps", "the leaf ranges are not completely collected before ranges.Gaps is called (or the list is allocated before it is counted): gaps are computed over an empty or partial list")
	}
	// ---- the gaps
	res := ssa.Value(gc)
	var elem *ssa.IndexAddr
	fw.EachInstr(fn, func(ins ssa.Instruction) {
		if ia, ok := ins.(*ssa.IndexAddr); ok && ia.X == res {
			elem = ia
		}
	})
	if elem == nil {
		ru.Fail("FillGaps:gap-loop", pos, "the result of ranges.Gaps is not iterated element by element (gaps dropped or list re-sliced)")
		return
	}
	s.Name(res, "GS")
	_, off, init, step, okL := fw.GxLoopPhi(elem.Index)
	bound, okB := s.IterBound(elem.Index, elem.Block())
	wantB := fw.GxFact{P: fw.PAtom("len(GS)").Sub(fw.PConst(1)).Sub(fw.PAtom("IDX")), K: fw.GxGE}
	okAll := okL && okB && init+off == 0 && step == 1
	for _, f := range bound {
		if !f.Same(wantB) {
			okAll = false
		}
	}
	ru.Check(okAll, "FillGaps:gap-loop", p.Rel(elem.Pos()), "every gap 0..len-1 is visited", "the loop over the gaps does not visit every element from 0 to len-1: some gaps never become fields")
	gapLoc := s.Val(elem).Loc
	// gap cell (range variable copy)
	if elem.Referrers() != nil {
		for _, rf := range *elem.Referrers() {
			if ld, ok := rf.(*ssa.UnOp); ok && ld.Referrers() != nil {
				for _, rr := range *ld.Referrers() {
					if st, ok := rr.(*ssa.Store); ok {
						if a, ok := st.Addr.(*ssa.Alloc); ok {
							s.Name(a, gapLoc)
						}
					}
				}
			}
		}
	}
	var sec *ssa.Call
	nSec := 0
	for _, c := range fw.CallsIn(fn) {
		if cl, ok := c.(*ssa.Call); ok && cl.Common().StaticCallee() == bxRange {
			sec = cl
			nSec++
		}
	}
	if nSec != 1 || len(sec.Call.Args) != 3 {
		ru.Fail("FillGaps:gap-bits", pos, "gap content is not cut with exactly one bitiox.Range call")
		return
	}
	spos := p.Rel(sec.Pos())
	ru.Check(c04FieldLoad(sec.Call.Args[0], d, "bitBuf"), "FillGaps:gap-bits:reader", spos, "gap bits are cut from d.bitBuf", "gap bits are not cut from the decoder's own buffer d.bitBuf")
	ru.Check(s.Int(sec.Call.Args[1]).Equal(fw.PAtom(gapLoc+".Start")) && s.Int(sec.Call.Args[2]).Equal(fw.PAtom(gapLoc+".Len")), "FillGaps:gap-bits:range", spos, "bitiox.Range(d.bitBuf, gap.Start, gap.Len)",
		fmt.Sprintf("gap bits are cut at (%s, %s), expected (gap.Start, gap.Len): the gap field shows other bits than its range", s.Int(sec.Call.Args[1]), s.Int(sec.Call.Args[2])))
	// the Value literal handed to AddChild
	var add *ssa.Call
	for _, c := range fw.CallsIn(fn) {
		if cl, ok := c.(*ssa.Call); ok && cl.Common().StaticCallee() == addChild {
			add = cl
		}
	}
	if add == nil || len(add.Call.Args) != 2 {
		ru.Fail("FillGaps:gap-add", pos, "gap values are not added with d.AddChild")
		return
	}
	apos := p.Rel(add.Pos())
	loop := map[*ssa.BasicBlock]bool{}
	var header *ssa.BasicBlock
	if ph, _, _, _, ok := fw.GxLoopPhi(elem.Index); ok {
		header = ph.Block()
		loop = fw.GxNaturalLoop(header)
	}
	// every path from the start of the loop body (where the gap is read) to the next iteration passes
	// AddChild (no-return arms aside)
	skips := header == nil
	{
		seen := map[*ssa.BasicBlock]bool{}
		stack := []*ssa.BasicBlock{elem.Block()}
		for len(stack) > 0 {
			b := stack[len(stack)-1]
			stack = stack[:len(stack)-1]
			if seen[b] || b == add.Block() {
				continue
			}
			seen[b] = true
			if b != elem.Block() && b != sec.Block() && fw.CurrentNR != nil && fw.CurrentNR.CutIndex(b) >= 0 {
				continue
			}
			if _, isRet := b.Instrs[len(b.Instrs)-1].(*ssa.Return); isRet || !loop[b] {
				skips = true
				continue
			}
			for _, su := range b.Succs {
				if su == header {
					skips = true // next iteration without AddChild
					continue
				}
				stack = append(stack, su)
			}
		}
	}
	ru.Check(add.Call.Args[0] == ssa.Value(d) && loop[add.Block()] && sec.Block().Dominates(add.Block()) && !skips,
		"FillGaps:gap-add", apos, "every gap is added to d unconditionally", "d.AddChild is not executed for every gap of the loop")
	vf, vcell, ok := fw.GxLitFields(add.Call.Args[1])
	if !ok {
		ru.Undecided("FillGaps:gap-value", apos, "the added gap value is not a Value literal")
		return
	}
	// one Value per gap: the cell is allocated by the iteration that links it (a cell allocated
	// before the loop is linked once per gap and every link shows the fields of the last gap)
	fresh := func(c *ssa.Alloc) bool { return c != nil && c.Heap && loop[c.Block()] }
	ru.Check(fresh(vcell), "FillGaps:gap-value:fresh", apos, "every gap gets a newly allocated Value",
		"the Value linked for a gap is not allocated inside the gap loop: all gap fields are one and the same value, holding the range and bits of the last gap")
	rv := vf["Range"]
	ru.Check(rv != nil && c04IsRangeOf(s, rv, gapLoc) || rv == nil && vf["Range.Start"] != nil && vf["Range.Len"] != nil && s.Int(vf["Range.Start"]).Equal(fw.PAtom(gapLoc+".Start")) && s.Int(vf["Range.Len"]).Equal(fw.PAtom(gapLoc+".Len")), "FillGaps:gap-value:range", apos, "Range: gap", "gap value's Range is not the gap the bits were cut for")
	ru.Check(vf["RootReader"] != nil && c04FieldLoad(vf["RootReader"], d, "bitBuf"), "FillGaps:gap-value:rootreader", apos, "RootReader: d.bitBuf", "gap value's RootReader is not the buffer its range refers to (d.bitBuf)")
	// name depends on the loop index
	nameOK := false
	if call, ok := vf["Name"].(*ssa.Call); ok && fw.CalleeName(call) == "fmt.Sprintf" {
		if sl, ok := call.Call.Args[len(call.Call.Args)-1].(*ssa.Slice); ok {
			if arr, ok := sl.X.(*ssa.Alloc); ok {
				for _, rf := range *arr.Referrers() {
					if ia, ok := rf.(*ssa.IndexAddr); ok && ia.Referrers() != nil {
						for _, rr := range *ia.Referrers() {
							if st, ok := rr.(*ssa.Store); ok && c04Strip(st.Val) == elem.Index {
								nameOK = true
							}
						}
					}
				}
			}
		}
	}
	ru.Check(nameOK, "FillGaps:gap-value:name", apos, "gap name contains the gap index", "gap names do not depend on the gap index: the second gap of a struct fails with \"already exist\"")
	// V: &scalar.BitBuf{Actual: br, Flags: FlagGap}
	bbT := p.NamedType("pkg/scalar", "BitBuf")
	vv := c04Strip(vf["V"])
	bf, bcell, ok := fw.GxLitFields(vv)
	if vv == nil || !ok || bcell == nil || !c04IsPtrTo(bcell.Type(), bbT) {
		ru.Fail("FillGaps:gap-value:kind", apos, "gap value is not a *scalar.BitBuf literal")
		return
	}
	ru.Check(fresh(bcell), "FillGaps:gap-value:fresh-bits", apos, "every gap gets a newly allocated scalar.BitBuf",
		"the scalar.BitBuf of a gap value is not allocated inside the gap loop: all gap values point at one struct, so after the loop every gap's Actual is the reader of the last gap (ranges stay right, tovalue/tojson of a gap shows other bits)")
	act, _ := bf["Actual"].(*ssa.Extract)
	ru.Check(act != nil && act.Tuple == ssa.Value(sec) && act.Index == 0, "FillGaps:gap-value:actual", apos, "Actual is the reader cut for this gap", "gap value's bits (Actual) are not the reader cut by bitiox.Range for this gap")
	flagOK := false
	if pk := p.Pkg("pkg/scalar"); pk != nil {
		if co, ok := pk.Types.Scope().Lookup("FlagGap").(*types.Const); ok {
			if c, ok := bf["Flags"].(*ssa.Const); ok && c.Value != nil && constant.Compare(c.Value, token.EQL, co.Val()) {
				flagOK = true
			}
		}
	}
	// the reader cut in FillGaps stays the gap's bits: nothing in pkg/decode (hand-written part) assigns
	// the Actual of a scalar.BitBuf afterwards (decode()'s walk that makes ranges absolute must not
	// re-cut gap readers: at that point Range.Start is still relative to the sub-range)
	{
		later, laterPos := "", ""
		for _, f := range p.FqFunctions() {
			if pkgRel(f) != "pkg/decode" || strings.HasSuffix(p.Rel(f.Pos()), "_gen.go") || strings.Contains(p.Rel(f.Pos()), "_gen.go:") {
				continue
			}
			fw.EachInstr(f, func(ins ssa.Instruction) {
				st, ok := ins.(*ssa.Store)
				if !ok {
					return
				}
				fa, ok := st.Addr.(*ssa.FieldAddr)
				if !ok || !c04IsPtrTo(fa.X.Type(), bbT) {
					return
				}
				if _, isAlloc := fa.X.(*ssa.Alloc); isAlloc {
					return // initialisation of a fresh literal
				}
				stt, _ := bbT.Underlying().(*types.Struct)
				if stt != nil && stt.Field(fa.Field).Name() == "Actual" && c04RecutAfterRebase(st) {
					return // re-cut from the already absolute range start: same bits
				}
				if stt != nil && stt.Field(fa.Field).Name() == "Actual" && later == "" {
					later, laterPos = fw.ShortFn(f), p.Rel(st.Pos())
				}
			})
		}
		if laterPos == "" {
			laterPos = apos
		}
		ru.Check(later == "", "FillGaps:gap-value:actual-final", laterPos, "no later assignment of a BitBuf's Actual in pkg/decode", later+" replaces the bits (Actual) of an existing scalar.BitBuf: a gap's content is then no longer the reader FillGaps cut for its range")
	}
	ru.Check(flagOK, "FillGaps:gap-value:flag", apos, "Flags: scalar.FlagGap", "gap value is not flagged scalar.FlagGap: it is indistinguishable from a decoded field")
	// ---- bitiox.Range
	sb := p.Fn("pkg/bitio.NewSectionReader")
	okSec := false
	var secPos string
	if sb != nil && len(bxRange.Params) == 3 {
		bs := fw.NewGxSym(bxRange)
		for _, c := range fw.CallsIn(bxRange) {
			if c.Common().StaticCallee() == sb && len(c.Common().Args) == 3 {
				a := c.Common().Args
				secPos = p.Rel(c.Pos())
				okSec = c04Strip(a[0]) == ssa.Value(bxRange.Params[0]) && bs.Int(a[1]).Equal(bs.Int(bxRange.Params[1])) && bs.Int(a[2]).Equal(bs.Int(bxRange.Params[2]))
			}
		}
	}
	ru.Check(okSec, "bitiox.Range:section", secPos, "NewSectionReader(br, firstBitOffset, nBits)", "bitiox.Range does not return the section (firstBitOffset, nBits) of its reader")
}

// ---------------------------------------------------------------------------
// C04.walk

// c04Walk: the leaf collection of FillGaps (and the shift of decode()) see a value only if Walk
// hands it to the callback. Own clause: the callback is invoked on the visited value under no
// condition other than the PreOrder switch. The clauses "every child is visited" and "before /
// after the children" are borrowed from C03.walk (see runC04).
func c04Walk(r *fw.Run, p *fw.Program) {
	ru := r.Rule("C04.walk", "(*Value).Walk, which collects the leaf ranges: the callback is called on every visited value, depending on nothing but the PreOrder switch (before the children iff PreOrder); every element of Children is visited recursively from 0; WalkRootPreOrder passes PreOrder and OneRoot (the last three are C03.walk obligations)", 5)
	walk := p.Fn("(*pkg/decode.Value).Walk")
	if walk == nil {
		ru.Undecided("Walk:anchor", "pkg/decode/value.go", "(*Value).Walk not found")
		return
	}
	found := false
	for _, w := range fw.WithClosures(walk)[1:] {
		if len(w.Params) == 0 {
			continue
		}
		var optsFV *ssa.FreeVar
		for _, fv := range w.FreeVars {
			if pt, ok := fv.Type().Underlying().(*types.Pointer); ok {
				if n, ok := pt.Elem().(*types.Named); ok && n.Obj().Name() == "WalkOpts" {
					optsFV = fv
				}
			}
		}
		if optsFV == nil {
			continue
		}
		s := fw.NewGxSym(w)
		s.Name(w.Params[0], "wv")
		s.Name(optsFV, "opts")
		pre := fw.GxFact{P: fw.PAtom("opts.PreOrder"), K: fw.GxNE}
		post := pre.Negate()
		nPre, nPost := 0, 0
		var sites []*ssa.Call
		fw.EachInstr(w, func(ins ssa.Instruction) {
			c, ok := ins.(*ssa.Call)
			if !ok || c.Common().IsInvoke() || c.Common().StaticCallee() != nil {
				return
			}
			fa, ok := c04LoadOf(c.Call.Value).(*ssa.FieldAddr)
			if !ok || fa.X != ssa.Value(optsFV) || fieldNameOf(fa.X.Type(), fa.Field) != "Fn" {
				return
			}
			sites = append(sites, c)
		})
		type arm struct {
			i *ssa.If
			t bool
		}
		for _, c := range sites {
			found = true
			// conditions shared with every other callback site hold for the whole visit (the value was
			// not skipped as another buffer's root): they do not make the callback conditional
			shared := map[arm]bool{}
			for k, o := range sites {
				if o == c {
					continue
				}
				here := map[arm]bool{}
				for _, g := range fw.Guards(o.Block()) {
					here[arm{g.If, g.True}] = true
				}
				if k == 0 || (k == 1 && sites[0] == c) {
					shared = here
				} else {
					for a := range shared {
						if !here[a] {
							delete(shared, a)
						}
					}
				}
			}
			var facts []fw.GxGuardFact
			for _, f := range s.GuardFacts(c.Block()) {
				if !shared[arm{f.If, f.True}] {
					facts = append(facts, f)
				}
			}
			nG := 0
			for _, g := range fw.Guards(c.Block()) {
				if !shared[arm{g.If, g.True}] {
					nG++
				}
			}
			which := ""
			if len(facts) == 1 && nG == 1 {
				switch {
				case facts[0].Same(pre):
					which = "pre"
					nPre++
				case facts[0].Same(post):
					which = "post"
					nPost++
				}
			}
			okArg := len(c.Call.Args) > 0 && c.Call.Args[0] == ssa.Value(w.Params[0])
			var conds []string
			for _, f := range facts {
				conds = append(conds, f.String())
			}
			key := "Walk:callback:" + which
			if which == "" {
				key = "Walk:callback:conditional"
			}
			ru.Check(which != "" && okArg, key, p.Rel(c.Pos()), "Fn(wv, ...) depends only on the PreOrder switch",
				"Walk calls the callback under the conditions ["+strings.Join(conds, "; ")+"] (expected only opts.PreOrder / !opts.PreOrder) or not on the visited value: values the callback never sees are missing from the leaf ranges and get a gap on top")
		}
		if found {
			ru.Check(nPre == 1 && nPost == 1, "Walk:callback:both-orders", p.Rel(w.Pos()), "one callback site for each order", fmt.Sprintf("Walk has %d pre-order and %d post-order callback sites, expected one each", nPre, nPost))
		}
	}
	if !found {
		ru.Undecided("Walk:callback", p.Rel(walk.Pos()), "no call of opts.Fn found in the walk closure")
	}
}

// ---------------------------------------------------------------------------
// C04.roots

func c04Roots(r *fw.Run, p *fw.Program) {
	ru := r.Rule("C04.roots", "buffer-root marking: newDecoder roots its value at the reader it decodes and takes IsRoot from the options; fieldDecoder uses its reader parameter for both D.bitBuf and Value.RootReader (C03.range obligation); every child decoder/value over a reader other than the parent's d.bitBuf is marked IsRoot; the walk skips sub-roots when OneRoot is set (before calling the callback) and WalkRoot* set it", 12)
	valueT := p.NamedType("pkg/decode", "Value")
	dT := p.NamedType("pkg/decode", "D")
	nd := p.Fn("pkg/decode.newDecoder")
	fd := p.Fn("(*pkg/decode.D).fieldDecoder")
	walk := p.Fn("(*pkg/decode.Value).Walk")
	if valueT == nil || dT == nil || nd == nil || fd == nil || walk == nil || len(nd.Params) != 4 {
		ru.Undecided("anchor", "pkg/decode/decode.go", "decode.Value / decode.D / newDecoder / fieldDecoder / (*Value).Walk not found")
		return
	}
	// (a) newDecoder
	{
		s := fw.NewGxSym(nd)
		s.Name(nd.Params[2], "br")
		s.Name(nd.Params[3], "opts")
		var ret *ssa.Return
		fw.EachInstr(nd, func(ins ssa.Instruction) {
			if rt, ok := ins.(*ssa.Return); ok {
				ret = rt
			}
		})
		pos := p.Rel(nd.Pos())
		var df, vf map[string]ssa.Value
		ok := false
		if ret != nil && len(ret.Results) == 1 {
			df, _, ok = fw.GxLitFields(ret.Results[0])
			if ok && df["Value"] != nil {
				vf, _, ok = fw.GxLitFields(df["Value"])
			} else {
				ok = false
			}
		}
		if !ok {
			ru.Undecided("newDecoder", pos, "newDecoder does not return a &D{Value: &Value{...}} literal")
		} else {
			ru.Check(df["bitBuf"] == ssa.Value(nd.Params[2]), "newDecoder:bitBuf", pos, "bitBuf: br", "the new decoder does not read from the reader it was given")
			ru.Check(vf["RootReader"] == ssa.Value(nd.Params[2]), "newDecoder:RootReader", pos, "RootReader: br", "the root value is not rooted at the reader it is decoded from")
			ru.Check(vf["IsRoot"] != nil && s.Val(vf["IsRoot"]).P != nil && s.Int(vf["IsRoot"]).Equal(fw.PAtom("opts.IsRoot")), "newDecoder:IsRoot", pos, "IsRoot: opts.IsRoot", "the root value's IsRoot is not taken from the options: a separate buffer is not walked as its own root (or a same-buffer child is)")
			z := func(v ssa.Value) bool {
				if v == nil {
					return true
				}
				c, isC := s.Int(v).IsConst()
				return isC && c == 0
			}
			ru.Check(z(vf["Range.Start"]) && z(vf["Range.Len"]) && vf["Range"] == nil, "newDecoder:Range", pos, "root range starts as 0:0", "the root value's range does not start as 0:0 (an empty range is ignored by the gap computation)")
		}
	}
	// (b) fieldDecoder callers
	nCall := 0
	for _, fn := range p.FqFunctions() {
		for _, c := range fw.CallsIn(fn) {
			cl, ok := c.(*ssa.Call)
			if !ok || cl.Common().StaticCallee() != fd || len(cl.Call.Args) != 4 {
				continue
			}
			nCall++
			key := "fieldDecoder:" + fw.ShortFn(fn)
			pos := p.Rel(cl.Pos())
			recv := cl.Call.Args[0]
			if c04FieldLoad(cl.Call.Args[2], recv, "bitBuf") {
				ru.Ok(key, pos, "child decoder over the parent's own buffer")
				continue
			}
			marked := false
			fw.EachInstr(fn, func(ins ssa.Instruction) {
				st, ok := ins.(*ssa.Store)
				if !ok {
					return
				}
				fa, ok := st.Addr.(*ssa.FieldAddr)
				if !ok || fieldNameOf(fa.X.Type(), fa.Field) != "IsRoot" || !c04IsPtrTo(fa.X.Type(), valueT) {
					return
				}
				if v, okc := c04ConstBool(st.Val, false); !okc || !v {
					return
				}
				if c04FieldLoad(fa.X, cl, "Value") && cl.Block().Dominates(st.Block()) {
					marked = true
				}
			})
			ru.Check(marked, key, pos, "child decoder over a separate buffer is marked IsRoot", "a child decoder over a separate buffer is not marked IsRoot: its fields (other coordinates) are counted as covering the parent's buffer")
		}
	}
	if nCall == 0 {
		ru.Undecided("fieldDecoder", "", "no call of (*D).fieldDecoder found")
	}
	// (c) direct RootReader stores in methods of *D
	for _, fn := range p.FqFunctions() {
		if pkgRel(fn) != "pkg/decode" || fn == nd || fn == fd {
			continue
		}
		recv := c04RecvD(p, fn)
		fw.EachInstr(fn, func(ins ssa.Instruction) {
			st, ok := ins.(*ssa.Store)
			if !ok {
				return
			}
			fa, ok := st.Addr.(*ssa.FieldAddr)
			if !ok || fieldNameOf(fa.X.Type(), fa.Field) != "RootReader" || !c04IsPtrTo(fa.X.Type(), valueT) {
				return
			}
			key := "RootReader:" + fw.ShortFn(fn)
			pos := p.Rel(st.Pos())
			if recv == nil {
				// closures: only the re-rooting walk of decode() (checked by C04.path)
				if fw.Top(fn) == p.Fn("pkg/decode.decode") {
					ru.Ok(key, pos, "re-rooting walk of decode() (C04.path)")
				} else {
					ru.Undecided(key, pos, "RootReader assigned outside a method of *D")
				}
				return
			}
			if c04FieldLoad(st.Val, recv, "bitBuf") {
				ru.Ok(key, pos, "value rooted at the decoder's own buffer")
				return
			}
			marked := false
			fw.EachInstr(fn, func(i2 ssa.Instruction) {
				s2, ok := i2.(*ssa.Store)
				if !ok {
					return
				}
				f2, ok := s2.Addr.(*ssa.FieldAddr)
				if ok && f2.X == fa.X && fieldNameOf(f2.X.Type(), f2.Field) == "IsRoot" {
					if v, okc := c04ConstBool(s2.Val, false); okc && v {
						marked = true
					}
				}
			})
			ru.Check(marked, key, pos, "value over a separate reader is marked IsRoot", "a value rooted at a reader other than d.bitBuf is not marked IsRoot: its range (other coordinates) is counted as covering the parent's buffer")
		})
	}
	// (d) walk
	nW := 0
	for _, f := range p.FqFunctions() {
		if c04IsRootLimitedWalker(p, f) {
			nW++
			ru.Ok("walker:"+fw.ShortFn(f), p.Rel(f.Pos()), "Walk(WalkOpts{OneRoot: true, Fn: fn})")
		}
	}
	if nW == 0 {
		ru.Fail("walker", p.Rel(walk.Pos()), "no method of *Value walks with OneRoot: true")
	}
	okSkip := false
	var skipPos string
	for _, w := range fw.WithClosures(walk)[1:] {
		if len(w.Params) == 0 {
			continue
		}
		s := fw.NewGxSym(w)
		s.Name(w.Params[0], "wv")
		var optsFV, vFV string
		for _, fv := range w.FreeVars {
			if pt, ok := fv.Type().Underlying().(*types.Pointer); ok {
				if n, ok := pt.Elem().(*types.Named); ok && n.Obj().Name() == "WalkOpts" {
					optsFV = s.Val(fv).Loc
				}
				if c04IsPtrTo(pt.Elem(), valueT) {
					vFV = s.Val(fv).Loc
				}
			}
		}
		if optsFV == "" || vFV == "" {
			continue
		}
		need := []fw.GxFact{
			{P: fw.PAtom(optsFV + ".OneRoot"), K: fw.GxNE},
			{P: fw.PAtom("wv.IsRoot"), K: fw.GxNE},
			{P: fw.PAtom("wv").Sub(fw.PAtom(vFV)), K: fw.GxNE},
		}
		for _, b := range w.Blocks {
			ret, ok := b.Instrs[len(b.Instrs)-1].(*ssa.Return)
			if !ok || len(ret.Results) != 1 {
				continue
			}
			if c, isC := ret.Results[0].(*ssa.Const); !isC || !c.IsNil() {
				continue
			}
			facts := s.GuardFacts(b)
			have := 0
			for _, q := range need {
				for _, f := range facts {
					if f.Same(q) {
						have++
						break
					}
				}
			}
			if have != len(need) || len(facts) != len(need) {
				continue
			}
			// nothing is called before the skip
			clean := true
			for d := b; d != nil; d = d.Idom() {
				for _, ins := range d.Instrs {
					if _, isCall := ins.(*ssa.Call); isCall {
						clean = false
					}
				}
			}
			if clean {
				okSkip = true
				skipPos = p.Rel(ret.Pos())
			}
		}
	}
	ru.Check(okSkip, "Walk:one-root-skip", skipPos, "a sub-root other than the start value is skipped (with its subtree) before the callback runs, exactly when OneRoot is set",
		"(*Value).Walk does not skip values with IsRoot (other than the start value) when OneRoot is set, before calling the callback: fields of other buffers enter this buffer's gap computation")
}

// c04RecutAfterRebase: the stored reader is cut by bitiox.Range / bitio.NewSectionReader at a range
// start that is loaded after the store which made that start absolute (same access path, the store
// precedes the load on all paths).
func c04RecutAfterRebase(st *ssa.Store) bool {
	v := st.Val
	for i := 0; i < 3; i++ {
		switch x := v.(type) {
		case *ssa.MakeInterface:
			v = x.X
		case *ssa.ChangeInterface:
			v = x.X
		case *ssa.Extract:
			v = x.Tuple
		}
	}
	call, ok := v.(*ssa.Call)
	if !ok || call.Common().StaticCallee() == nil || len(call.Common().Args) < 2 {
		return false
	}
	switch call.Common().StaticCallee().Name() {
	case "Range", "NewSectionReader":
	default:
		return false
	}
	ld, ok := call.Common().Args[1].(*ssa.UnOp)
	if !ok || ld.Op != token.MUL {
		return false
	}
	path, ok := fw.AccessPath(ld.X)
	if !ok || !strings.HasSuffix(path, "Start") {
		return false
	}
	found := false
	fw.EachInstr(st.Parent(), func(ins ssa.Instruction) {
		s2, ok := ins.(*ssa.Store)
		if !ok {
			return
		}
		if p2, ok := fw.AccessPath(s2.Addr); ok && p2 == path && precedesOnAllPaths(s2, ld) {
			found = true
		}
	})
	return found
}
